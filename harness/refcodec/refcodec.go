// Package refcodec is an INDEPENDENT implementation of the OPC UA Part 6
// secured chunk layout (6.7.2) and key derivation (6.7.5), written from the
// specification text with Go's standard library only.  It deliberately shares
// no code with github.com/gopcua/opcua (it does not import it).
//
// All policy dependent numbers (signature / key / block lengths, RSA padding
// overhead, hash names) are NOT built in: they are passed in as SymParams /
// AsymParams, which the checks fill from the tables emitted by TLC from
// spec/ChunkLayout (SymTab / AsymTab), and symmetric chunks are built from a
// layout row (Layout) that TLC computed from the same module.
//
//	DeriveKeys   P_SHA1 / P_SHA256 key derivation for both directions
//	BuildSym     build a secured MSG / CLO chunk from a layout row
//	OpenSym      verify, decrypt and take apart a secured MSG / CLO chunk
//	BuildAsym    build a secured OPN chunk
//	OpenAsym     verify, decrypt and take apart a secured OPN chunk
package refcodec

import (
	"bytes"
	"crypto"
	"crypto/aes"
	"crypto/cipher"
	"crypto/hmac"
	"crypto/rand"
	"crypto/rsa"
	"crypto/sha1"
	"crypto/sha256"
	"crypto/x509"
	"encoding/binary"
	"errors"
	"fmt"
	"hash"
)

// SymParams is one row of ChunkLayout!SymTab.
type SymParams struct {
	Policy string `json:"pol"`
	Sig    int    `json:"sig"`    // symmetric signature length
	PB     int    `json:"pb"`     // plaintext block
	CB     int    `json:"cb"`     // cipher block
	SigKey int    `json:"sigKey"` // derived signing key length
	EncKey int    `json:"encKey"` // derived encryption key length
	IV     int    `json:"iv"`     // initialisation vector length
	Hash   string `json:"hash"`   // "sha1" | "sha256" | "none"
	Nonce  int    `json:"nonce"`  // secure channel nonce length
}

// AsymParams is one row of ChunkLayout!AsymTab.
type AsymParams struct {
	Policy string `json:"pol"`
	Enc    string `json:"enc"`    // "pkcs1v15" | "oaep-sha1" | "oaep-sha256"
	EncPad int    `json:"encPad"` // per block overhead of the encryption scheme
	SigAlg string `json:"sigAlg"` // "pkcs1v15-sha1" | "pkcs1v15-sha256" | "pss-sha256"
	MinKey int    `json:"minKey"` // bytes
	MaxKey int    `json:"maxKey"`
}

// Layout is the layout of one chunk as computed by the specification
// (ChunkLayout!SymChunk / AsymChunk) or as observed when opening a chunk.
type Layout struct {
	Kind      string `json:"kind,omitempty"` // "F" | "C" | "A"
	Body      int    `json:"body"`
	Pad       int    `json:"pad"`      // number of Padding bytes (without the size bytes)
	PadBytes  int    `json:"padBytes"` // 0 (not encrypted), 1 (PaddingSize) or 2 (+ExtraPaddingSize)
	Sig       int    `json:"sig"`
	Plain     int    `json:"plain"` // plaintext length of the encrypted region
	Enc       int    `json:"enc"`   // ciphertext length of the encrypted region
	Total     int    `json:"total"`
	Encrypted bool   `json:"encrypted"`
	MsgSize   int    `json:"msgSize,omitempty"`
	Off       int    `json:"off,omitempty"`
}

// Keys are the derived keys protecting ONE direction.
type Keys struct {
	Sig []byte
	Enc []byte
	IV  []byte
}

func newHash(name string) (func() hash.Hash, error) {
	switch name {
	case "sha1":
		return sha1.New, nil
	case "sha256":
		return sha256.New, nil
	}
	return nil, fmt.Errorf("refcodec: unknown hash %q", name)
}

// PSHA is the P_hash function of RFC 5246 section 5 (P_SHA1 / P_SHA256):
//
//	P_hash(secret, seed) = HMAC(secret, A(1)+seed) + HMAC(secret, A(2)+seed) + ...
//	A(0) = seed, A(i) = HMAC(secret, A(i-1))
func PSHA(hashName string, secret, seed []byte, n int) ([]byte, error) {
	h, err := newHash(hashName)
	if err != nil {
		return nil, err
	}
	mac := func(parts ...[]byte) []byte {
		m := hmac.New(h, secret)
		for _, p := range parts {
			m.Write(p)
		}
		return m.Sum(nil)
	}
	var out []byte
	a := mac(seed)
	for len(out) < n {
		out = append(out, mac(a, seed)...)
		a = mac(a)
	}
	return out[:n], nil
}

// DeriveKeys implements Part 6 table "Cryptography key generation parameters":
//
//	ClientSigningKey / EncryptingKey / IV = PRF(secret = ServerNonce, seed = ClientNonce) at offsets 0, SigKey, SigKey+EncKey
//	ServerSigningKey / EncryptingKey / IV = PRF(secret = ClientNonce, seed = ServerNonce)
//
// client are the keys that secure messages SENT BY THE CLIENT, server those sent by the server.
func DeriveKeys(p SymParams, clientNonce, serverNonce []byte) (client, server Keys, err error) {
	if p.Hash == "none" {
		return
	}
	n := p.SigKey + p.EncKey + p.IV
	cut := func(b []byte) Keys {
		return Keys{Sig: b[:p.SigKey], Enc: b[p.SigKey : p.SigKey+p.EncKey], IV: b[p.SigKey+p.EncKey : n]}
	}
	c, err := PSHA(p.Hash, serverNonce, clientNonce, n)
	if err != nil {
		return
	}
	s, err := PSHA(p.Hash, clientNonce, serverNonce, n)
	if err != nil {
		return
	}
	return cut(c), cut(s), nil
}

// ---------------------------------------------------------------- symmetric

// SymChunk are the plaintext fields of a MSG / CLO chunk.
type SymChunk struct {
	MsgType   string // "MSG" | "CLO"
	Kind      byte   // 'F' | 'C' | 'A'
	ChannelID uint32
	TokenID   uint32
	Seq       uint32
	ReqID     uint32
	Body      []byte
	Observed  Layout // filled by OpenSym
}

func symSign(p SymParams, key, data []byte) ([]byte, error) {
	h, err := newHash(p.Hash)
	if err != nil {
		return nil, err
	}
	m := hmac.New(h, key)
	m.Write(data)
	return m.Sum(nil), nil
}

func cbc(encrypt bool, key, iv, data []byte) ([]byte, error) {
	blk, err := aes.NewCipher(key)
	if err != nil {
		return nil, err
	}
	if len(iv) != blk.BlockSize() || len(data)%blk.BlockSize() != 0 {
		return nil, fmt.Errorf("refcodec: cbc: %d bytes is not a whole number of %d byte blocks (iv %d)", len(data), blk.BlockSize(), len(iv))
	}
	out := make([]byte, len(data))
	if encrypt {
		cipher.NewCBCEncrypter(blk, iv).CryptBlocks(out, data)
	} else {
		cipher.NewCBCDecrypter(blk, iv).CryptBlocks(out, data)
	}
	return out, nil
}

// BuildSym builds the secured chunk for c under (p, mode) with the sender's keys k,
// using the lengths of the layout row l (it does not compute padding itself and
// fails if the row is inconsistent with the body).
func BuildSym(p SymParams, mode string, k Keys, l Layout, c SymChunk) ([]byte, error) {
	if l.Body != len(c.Body) {
		return nil, fmt.Errorf("refcodec: layout row is for a body of %d bytes, got %d", l.Body, len(c.Body))
	}
	b := make([]byte, 0, l.Total)
	b = append(b, c.MsgType[:3]...)
	b = append(b, c.Kind)
	b = binary.LittleEndian.AppendUint32(b, uint32(l.Total)) // MessageSize = final length of the chunk
	b = binary.LittleEndian.AppendUint32(b, c.ChannelID)
	b = binary.LittleEndian.AppendUint32(b, c.TokenID)
	b = binary.LittleEndian.AppendUint32(b, c.Seq)
	b = binary.LittleEndian.AppendUint32(b, c.ReqID)
	b = append(b, c.Body...)
	switch mode {
	case "None":
		if len(b) != l.Total {
			return nil, fmt.Errorf("refcodec: row total %d, built %d", l.Total, len(b))
		}
		return b, nil
	case "Sign", "SignAndEncrypt":
	default:
		return nil, fmt.Errorf("refcodec: mode %q", mode)
	}
	if mode == "SignAndEncrypt" {
		if l.PadBytes != 1 || l.Pad > 255 {
			return nil, fmt.Errorf("refcodec: symmetric chunks carry exactly one PaddingSize byte (row: %d, pad %d)", l.PadBytes, l.Pad)
		}
		// PaddingSize, then Padding: every byte holds the padding size
		for i := 0; i < 1+l.Pad; i++ {
			b = append(b, byte(l.Pad))
		}
	}
	sig, err := symSign(p, k.Sig, b) // signature over the whole chunk so far, headers included
	if err != nil {
		return nil, err
	}
	if len(sig) != l.Sig {
		return nil, fmt.Errorf("refcodec: row signature length %d, algorithm gives %d", l.Sig, len(sig))
	}
	b = append(b, sig...)
	if mode == "SignAndEncrypt" {
		if len(b)-16 != l.Plain {
			return nil, fmt.Errorf("refcodec: row plaintext length %d, built %d", l.Plain, len(b)-16)
		}
		ct, err := cbc(true, k.Enc, k.IV, b[16:]) // encrypted region starts after the security header
		if err != nil {
			return nil, err
		}
		b = append(b[:16], ct...)
	}
	if len(b) != l.Total {
		return nil, fmt.Errorf("refcodec: row total %d, built %d", l.Total, len(b))
	}
	return b, nil
}

// OpenSym verifies and decrypts a chunk that was secured with keys k.
func OpenSym(p SymParams, mode string, k Keys, chunk []byte) (*SymChunk, error) {
	if len(chunk) < 24 {
		return nil, errors.New("refcodec: chunk shorter than its headers")
	}
	c := &SymChunk{MsgType: string(chunk[:3]), Kind: chunk[3]}
	size := int(binary.LittleEndian.Uint32(chunk[4:]))
	if size != len(chunk) {
		return nil, fmt.Errorf("refcodec: MessageSize %d but chunk has %d bytes", size, len(chunk))
	}
	c.ChannelID = binary.LittleEndian.Uint32(chunk[8:])
	c.TokenID = binary.LittleEndian.Uint32(chunk[12:])
	o := Layout{Kind: string(chunk[3:4]), Total: len(chunk), MsgSize: size, Enc: len(chunk) - 16}
	b := append([]byte(nil), chunk...)
	if mode == "SignAndEncrypt" {
		pt, err := cbc(false, k.Enc, k.IV, b[16:])
		if err != nil {
			return nil, err
		}
		b = append(b[:16], pt...)
		o.Encrypted = true
	}
	o.Plain = len(b) - 16
	end := len(b)
	if mode != "None" {
		if len(b) < 24+p.Sig {
			return nil, errors.New("refcodec: chunk shorter than headers + signature")
		}
		end -= p.Sig
		want, err := symSign(p, k.Sig, b[:end])
		if err != nil {
			return nil, err
		}
		if !hmac.Equal(want, b[end:]) {
			return nil, errors.New("refcodec: signature does not verify")
		}
		o.Sig = p.Sig
	}
	if mode == "SignAndEncrypt" {
		// the byte before the signature is the last Padding byte (or PaddingSize itself): its value is the padding size
		ps := int(b[end-1])
		if end-1-ps < 24 {
			return nil, fmt.Errorf("refcodec: padding size %d exceeds the chunk", ps)
		}
		for i := end - 1 - ps; i < end; i++ {
			if int(b[i]) != ps {
				return nil, fmt.Errorf("refcodec: padding byte %d is %d, want %d", i, b[i], ps)
			}
		}
		o.Pad, o.PadBytes = ps, 1
		end -= ps + 1
		if o.Plain%p.PB != 0 {
			return nil, fmt.Errorf("refcodec: plaintext %d is not a multiple of the block size %d", o.Plain, p.PB)
		}
	}
	c.Seq = binary.LittleEndian.Uint32(b[16:])
	c.ReqID = binary.LittleEndian.Uint32(b[20:])
	c.Body = b[24:end]
	o.Body = len(c.Body)
	c.Observed = o
	return c, nil
}

// ---------------------------------------------------------------- asymmetric

// AsymChunk are the plaintext fields of an OPN chunk.
type AsymChunk struct {
	Kind          byte
	ChannelID     uint32
	PolicyURI     string
	SenderCert    []byte // DER
	ReceiverThumb []byte // SHA1 of the receiver certificate
	Seq           uint32
	ReqID         uint32
	Body          []byte
	SecHdrLen     int
	Observed      Layout
	BlockPlain    []int // plaintext length of every RSA block (OpenAsym)
}

func putBytes(b []byte, v []byte, null bool) []byte {
	if null {
		return binary.LittleEndian.AppendUint32(b, 0xffffffff)
	}
	b = binary.LittleEndian.AppendUint32(b, uint32(len(v)))
	return append(b, v...)
}

func getBytes(b []byte, pos int) ([]byte, int, error) {
	if pos+4 > len(b) {
		return nil, 0, errors.New("refcodec: truncated length")
	}
	n := int(int32(binary.LittleEndian.Uint32(b[pos:])))
	pos += 4
	if n < 0 {
		return nil, pos, nil
	}
	if pos+n > len(b) {
		return nil, 0, errors.New("refcodec: truncated byte string")
	}
	return b[pos : pos+n], pos + n, nil
}

func rsaEncBlock(p AsymParams, pub *rsa.PublicKey, pt []byte) ([]byte, error) {
	switch p.Enc {
	case "pkcs1v15":
		return rsa.EncryptPKCS1v15(rand.Reader, pub, pt)
	case "oaep-sha1":
		return rsa.EncryptOAEP(sha1.New(), rand.Reader, pub, pt, nil)
	case "oaep-sha256":
		return rsa.EncryptOAEP(sha256.New(), rand.Reader, pub, pt, nil)
	}
	return nil, fmt.Errorf("refcodec: encryption scheme %q", p.Enc)
}

func rsaDecBlock(p AsymParams, key *rsa.PrivateKey, ct []byte) ([]byte, error) {
	switch p.Enc {
	case "pkcs1v15":
		return rsa.DecryptPKCS1v15(rand.Reader, key, ct)
	case "oaep-sha1":
		return rsa.DecryptOAEP(sha1.New(), rand.Reader, key, ct, nil)
	case "oaep-sha256":
		return rsa.DecryptOAEP(sha256.New(), rand.Reader, key, ct, nil)
	}
	return nil, fmt.Errorf("refcodec: encryption scheme %q", p.Enc)
}

func digest(alg string, data []byte) (crypto.Hash, []byte, error) {
	switch alg {
	case "pkcs1v15-sha1":
		d := sha1.Sum(data)
		return crypto.SHA1, d[:], nil
	case "pkcs1v15-sha256", "pss-sha256":
		d := sha256.Sum256(data)
		return crypto.SHA256, d[:], nil
	}
	return 0, nil, fmt.Errorf("refcodec: signature scheme %q", alg)
}

// AsymSign signs data with the scheme of p.
func AsymSign(p AsymParams, key *rsa.PrivateKey, data []byte) ([]byte, error) {
	h, d, err := digest(p.SigAlg, data)
	if err != nil {
		return nil, err
	}
	if p.SigAlg == "pss-sha256" {
		// RSASSA-PSS, MGF1 with SHA-256, salt length 32 bytes (Part 7 AsymmetricSignatureAlgorithm_RSA-PSS-SHA2-256)
		return rsa.SignPSS(rand.Reader, key, h, d, &rsa.PSSOptions{SaltLength: 32})
	}
	return rsa.SignPKCS1v15(rand.Reader, key, h, d)
}

// AsymVerify verifies sig over data with the scheme of p.
func AsymVerify(p AsymParams, pub *rsa.PublicKey, data, sig []byte) error {
	h, d, err := digest(p.SigAlg, data)
	if err != nil {
		return err
	}
	if p.SigAlg == "pss-sha256" {
		return rsa.VerifyPSS(pub, h, d, sig, &rsa.PSSOptions{SaltLength: 32})
	}
	return rsa.VerifyPKCS1v15(pub, h, d, sig)
}

// AsymEncrypt encrypts pt block by block: plaintext blocks of pb bytes (the last may be shorter).
func AsymEncrypt(p AsymParams, pub *rsa.PublicKey, pt []byte, pb int) ([]byte, error) {
	var out []byte
	for len(pt) > 0 {
		n := pb
		if n > len(pt) {
			n = len(pt)
		}
		ct, err := rsaEncBlock(p, pub, pt[:n])
		if err != nil {
			return nil, err
		}
		out = append(out, ct...)
		pt = pt[n:]
	}
	return out, nil
}

// AsymDecrypt decrypts ct, a whole number of blocks of the key size; it returns the
// plaintext and the plaintext length of every block.
func AsymDecrypt(p AsymParams, key *rsa.PrivateKey, ct []byte) ([]byte, []int, error) {
	k := key.Size()
	if len(ct)%k != 0 {
		return nil, nil, fmt.Errorf("refcodec: ciphertext of %d bytes is not a whole number of %d byte blocks", len(ct), k)
	}
	var out []byte
	var lens []int
	for len(ct) > 0 {
		pt, err := rsaDecBlock(p, key, ct[:k])
		if err != nil {
			return nil, nil, fmt.Errorf("refcodec: block %d: %w", len(lens), err)
		}
		out = append(out, pt...)
		lens = append(lens, len(pt))
		ct = ct[k:]
	}
	return out, lens, nil
}

// AsymLayout computes the layout of an OPN chunk from the table row p: sender key
// lk bytes, receiver key rk bytes, security header h bytes, body b bytes. (The same
// numbers are afterwards validated by TLC against ChunkLayout!AsymChunk.)
func AsymLayout(p AsymParams, lk, rk, h, b int) Layout {
	pb := rk - p.EncPad
	pbytes := 1
	if rk > 256 { // key used to encrypt larger than 2048 bits: ExtraPaddingSize present
		pbytes = 2
	}
	x := 8 + b + pbytes + lk
	pad := (pb - x%pb) % pb
	plain := x + pad
	enc := plain / pb * rk
	return Layout{Body: b, Pad: pad, PadBytes: pbytes, Sig: lk, Plain: plain, Enc: enc, Total: 12 + h + enc, Encrypted: true}
}

// BuildAsym builds the secured OPN chunk for c: signed with senderKey, encrypted for receiverPub.
func BuildAsym(p AsymParams, senderKey *rsa.PrivateKey, receiverPub *rsa.PublicKey, c AsymChunk) ([]byte, Layout, error) {
	var sh []byte
	sh = putBytes(sh, []byte(c.PolicyURI), false)
	sh = putBytes(sh, c.SenderCert, c.SenderCert == nil)
	sh = putBytes(sh, c.ReceiverThumb, c.ReceiverThumb == nil)
	l := AsymLayout(p, senderKey.Size(), receiverPub.Size(), len(sh), len(c.Body))
	kind := c.Kind
	if kind == 0 {
		kind = 'F'
	}
	b := append([]byte("OPN"), kind)
	b = binary.LittleEndian.AppendUint32(b, uint32(l.Total))
	b = binary.LittleEndian.AppendUint32(b, c.ChannelID)
	b = append(b, sh...)
	hl := len(b)
	b = binary.LittleEndian.AppendUint32(b, c.Seq)
	b = binary.LittleEndian.AppendUint32(b, c.ReqID)
	b = append(b, c.Body...)
	// PaddingSize (low byte), Padding bytes (each = PaddingSize), ExtraPaddingSize (high byte)
	for i := 0; i < 1+l.Pad; i++ {
		b = append(b, byte(l.Pad))
	}
	if l.PadBytes == 2 {
		b = append(b, byte(l.Pad>>8))
	}
	sig, err := AsymSign(p, senderKey, b)
	if err != nil {
		return nil, l, err
	}
	b = append(b, sig...)
	if len(b)-hl != l.Plain {
		return nil, l, fmt.Errorf("refcodec: plaintext %d, layout %d", len(b)-hl, l.Plain)
	}
	ct, err := AsymEncrypt(p, receiverPub, b[hl:], receiverPub.Size()-p.EncPad)
	if err != nil {
		return nil, l, err
	}
	b = append(b[:hl], ct...)
	if len(b) != l.Total {
		return nil, l, fmt.Errorf("refcodec: built %d bytes, layout %d", len(b), l.Total)
	}
	return b, l, nil
}

// OpenAsym verifies and decrypts an OPN chunk addressed to receiverKey. The sender's public key
// is taken from the certificate in the security header unless senderPub is given.
func OpenAsym(p AsymParams, receiverKey *rsa.PrivateKey, senderPub *rsa.PublicKey, chunk []byte) (*AsymChunk, error) {
	if len(chunk) < 12 || string(chunk[:3]) != "OPN" {
		return nil, errors.New("refcodec: not an OPN chunk")
	}
	size := int(binary.LittleEndian.Uint32(chunk[4:]))
	if size != len(chunk) {
		return nil, fmt.Errorf("refcodec: MessageSize %d but chunk has %d bytes", size, len(chunk))
	}
	c := &AsymChunk{Kind: chunk[3], ChannelID: binary.LittleEndian.Uint32(chunk[8:])}
	uri, pos, err := getBytes(chunk, 12)
	if err != nil {
		return nil, err
	}
	c.PolicyURI = string(uri)
	if c.SenderCert, pos, err = getBytes(chunk, pos); err != nil {
		return nil, err
	}
	if c.ReceiverThumb, pos, err = getBytes(chunk, pos); err != nil {
		return nil, err
	}
	c.SecHdrLen = pos - 12
	if senderPub == nil {
		cert, err := x509.ParseCertificate(c.SenderCert)
		if err != nil {
			return nil, fmt.Errorf("refcodec: sender certificate: %w", err)
		}
		pk, ok := cert.PublicKey.(*rsa.PublicKey)
		if !ok {
			return nil, errors.New("refcodec: sender certificate has no RSA key")
		}
		senderPub = pk
	}
	pt, lens, err := AsymDecrypt(p, receiverKey, chunk[pos:])
	if err != nil {
		return nil, err
	}
	c.BlockPlain = lens
	b := append(append([]byte(nil), chunk[:pos]...), pt...)
	sl := senderPub.Size()
	if len(pt) < 8+1+sl {
		return nil, errors.New("refcodec: plaintext shorter than sequence header + padding size + signature")
	}
	end := len(b) - sl
	if err := AsymVerify(p, senderPub, b[:end], b[end:]); err != nil {
		return nil, fmt.Errorf("refcodec: signature does not verify: %w", err)
	}
	o := Layout{Kind: string(chunk[3:4]), Total: len(chunk), MsgSize: size, Enc: len(chunk) - pos, Plain: len(pt), Sig: sl, Encrypted: true, PadBytes: 1}
	pad := 0
	if receiverKey.Size() > 256 {
		// ExtraPaddingSize (most significant byte) is the last byte before the signature
		o.PadBytes = 2
		pad = int(b[end-1]) << 8
		end--
	}
	low := int(b[end-1])
	pad |= low
	if end-1-pad < pos+8 {
		return nil, fmt.Errorf("refcodec: padding size %d exceeds the chunk", pad)
	}
	for i := end - 1 - pad; i < end; i++ {
		if int(b[i]) != low {
			return nil, fmt.Errorf("refcodec: padding byte at %d is %d, want %d", i, b[i], low)
		}
	}
	end -= pad + 1
	o.Pad = pad
	c.Seq = binary.LittleEndian.Uint32(b[pos:])
	c.ReqID = binary.LittleEndian.Uint32(b[pos+4:])
	c.Body = b[pos+8 : end]
	o.Body = len(c.Body)
	c.Observed = o
	return c, nil
}

// Thumbprint is the SHA1 digest of a DER certificate.
func Thumbprint(der []byte) []byte {
	d := sha1.Sum(der)
	return d[:]
}

// Equal reports whether two layouts agree on every length.
func (l Layout) Equal(o Layout) bool {
	return l.Body == o.Body && l.Pad == o.Pad && l.PadBytes == o.PadBytes && l.Sig == o.Sig &&
		l.Plain == o.Plain && l.Enc == o.Enc && l.Total == o.Total && l.Encrypted == o.Encrypted
}

var _ = bytes.Equal
