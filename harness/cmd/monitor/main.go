// Command monitor drives monitor.NodeMonitor against the real gopcua server (C28) and
// records what the application sees: one writer per node writes tagged values
// (node index * 1e6 + counter), optionally a churn goroutine removes and re-adds nodes on
// the monitor, all notifications delivered to the application are logged, then writes stop,
// the pipeline drains and every node is read.  All events are stamped by one sequencer
// (atomic counter).  The trace is judged by TLC (spec/Monitor/MonitorTrace.tla), not here.
package main

import (
	"context"
	"encoding/json"
	"fmt"
	"io"
	"os"
	"sort"
	"sync"
	"sync/atomic"
	"time"

	"github.com/gopcua/opcua"
	"github.com/gopcua/opcua/monitor"
	"github.com/gopcua/opcua/server"
	"github.com/gopcua/opcua/ua"

	"verifharness/g2kit"
	"verifharness/vfgo"
)

type Case struct {
	ID       int    `json:"id"`
	Nodes    int    `json:"nodes"`
	Writes   int    `json:"writes"`   // writes per node
	Churn    int    `json:"churn"`    // number of remove/add rounds on the monitor while writing
	Interval int    `json:"interval"` // publishing interval, ms
	Mode     string `json:"mode"`     // cb | chan
	Pause    int    `json:"pause"`    // max pause between writes, microseconds
	TS       int    `json:"ts"`       // 1: client writes carry explicit source timestamps, random within +-1 h (not monotonic)
	Map      int    `json:"map"`      // 1: the keys m1.. of the map namespace are monitored and written as well (application mode: MapNamespace.SetValue)
	Late     int    `json:"late"`     // 1: after the last write a second subscription of the same NodeMonitor adds every node (no write follows)
	Forced   int    `json:"forced"`   // application mode only: number of forced interleavings per node (announcer 1 is held in the value callback right after sampling until announcer 2 has queued its newer value, or a time-out)
	App      int    `json:"app"`      // 1: values change inside the server application (callback-backed nodes, announced with Server.ChangeNotification from concurrent goroutines) instead of client writes
	Salt     int    `json:"salt"`
}

type Event struct {
	S  int    `json:"s,omitempty"` // subscription (1, 2) an add / remove / notify event belongs to
	T  int64  `json:"t"`
	Ev string `json:"ev"`
	N  string `json:"n,omitempty"`
	VN string `json:"vn,omitempty"`
	K  int64  `json:"k"`
}

type line struct {
	ID     int            `json:"id"`
	Events []Event        `json:"events,omitempty"`
	Stats  map[string]int `json:"stats,omitempty"`
	Err    string         `json:"err,omitempty"`
}

const (
	opTimeout = 10 * time.Second
	tagBase   = 1000000
)

func main() {
	vfgo.Init()
	defer vfgo.Flush()
	if *vfgo.ChildFlag == "run" {
		child()
		return
	}
	cases := vfgo.Cases[Case]()
	work := make(chan Case, len(cases))
	for _, c := range cases {
		work <- c
	}
	close(work)
	var wg sync.WaitGroup
	for l := 0; l < 3; l++ { // three runs side by side, each with its own server child
		wg.Add(1)
		go func() {
			defer wg.Done()
			for c := range work {
				runCase(c)
			}
		}()
	}
	wg.Wait()
}

func runCase(c Case) {
	var last string
	done := false
	for attempt := 0; attempt < 3 && !done; attempt++ {
		in, _ := json.Marshal(c)
		out := vfgo.RunChild("run", in, 180*time.Second, "GOTRACEBACK=single")
		ls := g2kit.Lines[line](out.Stdout)
		if len(ls) == 1 && ls[0].Err == "" {
			l := ls[0]
			class := fmt.Sprintf("nodes%d/%s/int%d/churn%v/app%d/map%d/ts%d/late%d/notifs%s", c.Nodes, c.Mode, c.Interval, c.Churn > 0, c.App, c.Map, c.TS, c.Late, bucket(l.Stats["notify"]))
			if c.Forced > 0 {
				class += fmt.Sprintf("/forced%d", c.Forced)
			}
			vfgo.Emit(vfgo.Result{Case: c, Status: "ok", Class: class, Nontrivial: l.Stats["notify"] > c.Nodes,
				Obs: map[string]any{"events": l.Events, "stats": l.Stats}})
			done = true
			break
		}
		if len(ls) == 1 {
			last = ls[0].Err
		} else {
			last = fmt.Sprintf("child ended without a trace (exit=%d timeout=%v panic=%v): %s", out.Exit, out.TimedOut, out.Panic, vfgo.PanicHead(out.Stderr))
		}
	}
	if !done {
		vfgo.Inconclusive(c, last)
	}
}

func bucket(n int) string {
	switch {
	case n < 10:
		return "<10"
	case n < 100:
		return "<100"
	case n < 1000:
		return "<1000"
	}
	return "1000+"
}

type recorder struct {
	seq atomic.Int64
	mu  sync.Mutex
	evs []Event
}

func (r *recorder) log(ev, n, vn string, k int64) { r.logS(0, ev, n, vn, k) }

func (r *recorder) logS(sub int, ev, n, vn string, k int64) {
	t := r.seq.Add(1)
	r.mu.Lock()
	r.evs = append(r.evs, Event{S: sub, T: t, Ev: ev, N: n, VN: vn, K: k})
	r.mu.Unlock()
}

func fail(out *g2kit.Out, id int, format string, a ...any) {
	out.Put(line{ID: id, Err: fmt.Sprintf(format, a...)})
}

func nodeOfID(id *ua.NodeID) string {
	if id == nil {
		return "?nil"
	}
	return id.StringID()
}

type tgt struct {
	id    *ua.NodeID
	name  string
	isKey bool
}

func child() {
	out := g2kit.NewOut()
	in, _ := io.ReadAll(os.Stdin)
	var c Case
	if err := json.Unmarshal(in, &c); err != nil {
		fmt.Fprintln(os.Stderr, "bad stdin:", err)
		os.Exit(3)
	}
	// application mode: node i is backed by a callback that reads cur[i]; the callback doubles as
	// a scheduler gate (every third call pauses right after it sampled the value)
	nT := c.Nodes
	if c.Map > 0 {
		nT = 2 * c.Nodes
	}
	cur := make([]atomic.Int64, nT)
	armed := make([]atomic.Bool, nT)
	entered := make([]chan struct{}, nT)
	release := make([]chan struct{}, nT)
	for i := range entered {
		entered[i] = make(chan struct{}, 1)
		release[i] = make(chan struct{}, 1)
	}
	holdMax := time.Duration(6*c.Interval+150) * time.Millisecond
	var gate atomic.Int64
	var valueOf func(i int) any
	if c.App > 0 {
		valueOf = func(i int) any {
			cur[i].Store(int64(i+1) * tagBase)
			return func() *ua.DataValue {
				v := cur[i].Load()
				if c.Forced > 0 {
					// forced schedule: the armed caller is parked right after it sampled the value
					if armed[i].CompareAndSwap(true, false) {
						entered[i] <- struct{}{}
						select {
						case <-release[i]:
						case <-time.After(holdMax):
						}
					}
				} else if x := gate.Add(1); x%3 == 0 {
					time.Sleep(time.Duration((x*7919)%400) * time.Microsecond)
				}
				return server.DataValueFromValue(v)
			}
		}
	}
	srv, err := g2kit.StartFn(c.Nodes, valueOf)
	if err != nil {
		fail(out, c.ID, "start: %v", err)
		return
	}
	// targets: the variable nodes, then (Map) the keys of the map namespace; target i carries tag i+1
	var tg []tgt
	for i, n := range srv.Nodes {
		tg = append(tg, tgt{id: n, name: g2kit.NodeName(i)})
	}
	if c.Map > 0 {
		for i, n := range srv.Keys {
			tg = append(tg, tgt{id: n, name: g2kit.KeyName(i), isKey: true})
		}
	}
	nameOfTag := func(tag int64) string {
		if tag >= 1 && int(tag) <= len(tg) {
			return tg[tag-1].name
		}
		return fmt.Sprintf("?%d", tag)
	}
	wc, err := g2kit.Connect(srv.URL, opTimeout)
	if err != nil {
		fail(out, c.ID, "connect writer: %v", err)
		return
	}
	tsRng := vfgo.Rand(int64(c.Salt)*100 + 77)
	var tsMu sync.Mutex
	stamp := func() time.Time {
		if c.TS == 0 {
			return time.Time{}
		}
		tsMu.Lock()
		defer tsMu.Unlock()
		return time.Date(2026, 1, 1, 12, 0, 0, 0, time.UTC).Add(time.Duration(tsRng.Intn(7200000)-3600000) * time.Millisecond)
	}
	// tagged initial values: target i holds (i+1)*1e6 + 0
	for i, t := range tg {
		if c.App > 0 {
			if t.isKey {
				srv.Map.SetValue(t.name, int64(i+1)*tagBase)
			}
			continue
		}
		if err := g2kit.WriteKindTS(wc, t.id, int64(i+1)*tagBase, 0, stamp(), opTimeout); err != nil {
			fail(out, c.ID, "initial write: %v", err)
			return
		}
	}
	mc, err := g2kit.Connect(srv.URL, opTimeout)
	if err != nil {
		fail(out, c.ID, "connect monitor: %v", err)
		return
	}
	rec := &recorder{}
	var nNotify, nErr atomic.Int64
	var lastNotify atomic.Int64
	onMsg := func(si int, m *monitor.DataChangeMessage) {
		lastNotify.Store(time.Now().UnixNano())
		if m.Error != nil {
			nErr.Add(1)
			return
		}
		nNotify.Add(1)
		vn, k := "?", int64(-1)
		if m.DataValue != nil && m.DataValue.Value != nil && m.DataValue.Status == ua.StatusOK {
			if v, ok := m.DataValue.Value.Value().(int64); ok {
				vn, k = nameOfTag(v/tagBase), v%tagBase
			}
		}
		rec.logS(si, "notify", nodeOfID(m.NodeID), vn, k)
	}
	nm, _ := monitor.NewNodeMonitor(mc)
	var asyncErrs atomic.Int64
	nm.SetErrorHandler(func(_ *opcua.Client, _ *monitor.Subscription, err error) { asyncErrs.Add(1) })
	ctx, cancel := context.WithCancel(context.Background())
	defer cancel()
	params := &opcua.SubscriptionParameters{Interval: time.Duration(c.Interval) * time.Millisecond}
	subscribe := func(si int) (*monitor.Subscription, error) {
		if c.Mode == "chan" {
			ch := make(chan *monitor.DataChangeMessage, 1<<17)
			sub, err := nm.ChanSubscribe(ctx, params, ch)
			go func() {
				for m := range ch {
					onMsg(si, m)
				}
			}()
			return sub, err
		}
		return nm.Subscribe(ctx, params, func(_ *monitor.Subscription, m *monitor.DataChangeMessage) { onMsg(si, m) })
	}
	sub, err := subscribe(1)
	if err != nil {
		fail(out, c.ID, "subscribe: %v", err)
		return
	}
	for _, t := range tg {
		rec.logS(1, "add", t.name, "", 0)
		if err := sub.AddNodeIDs(ctx, t.id); err != nil {
			fail(out, c.ID, "add node: %v", err)
			return
		}
	}

	var wg, announcers sync.WaitGroup
	var churnDone atomic.Bool
	var werr atomic.Value
	for i, t := range tg {
		wg.Add(1)
		go func(i int, t tgt) {
			defer wg.Done()
			rng := vfgo.Rand(int64(c.Salt)*100 + int64(i))
			if c.App > 0 && c.Forced > 0 && !t.isKey {
				// Forced interleaving, independent of the seed: announcer 1 samples value k1 and is parked in
				// the value callback; the value becomes k2 and announcer 2 runs; when announcer 2 is through
				// (or, where the server serialises announcers, after a time-out) announcer 1 goes on.  Under the
				// contract the notifications are queued in sampling order whatever happens.
				time.Sleep(300 * time.Millisecond) // the initial notifications are out
				announce := func() chan struct{} {
					d := make(chan struct{})
					go func() { srv.S.ChangeNotification(t.id); close(d) }()
					return d
				}
				k := int64(0)
				for rep := 0; rep < c.Forced; rep++ {
					k++
					rec.log("wcall", t.name, "", k)
					cur[i].Store(int64(i+1)*tagBase + k)
					rec.log("wret", t.name, "", k)
					armed[i].Store(true)
					a1 := announce()
					select {
					case <-entered[i]:
					case <-time.After(3 * time.Second):
						werr.Store("forced schedule: announcer 1 never reached the value callback")
						return
					}
					k++
					rec.log("wcall", t.name, "", k)
					cur[i].Store(int64(i+1)*tagBase + k)
					rec.log("wret", t.name, "", k)
					a2 := announce()
					select {
					case <-a2: // announcer 2 overtook announcer 1: let its value be published first
						time.Sleep(time.Duration(3*c.Interval) * time.Millisecond)
					case <-time.After(holdMax / 2):
					}
					release[i] <- struct{}{}
					<-a1
					<-a2
					select { // a release that was not consumed (time-out in the callback) must not leak into the next round
					case <-release[i]:
					default:
					}
					time.Sleep(time.Duration(3*c.Interval) * time.Millisecond)
				}
				return
			}
			// at least c.Writes writes; with churn, keep writing until the churn rounds are over
			for k := int64(1); k <= int64(c.Writes) || (c.Churn > 0 && !churnDone.Load() && k < 200000); k++ {
				if c.Pause > 0 {
					time.Sleep(time.Duration(rng.Intn(c.Pause)) * time.Microsecond)
				}
				rec.log("wcall", t.name, "", k)
				switch {
				case c.App > 0 && t.isKey:
					// the application changes a key of its map namespace (announces the change itself)
					srv.Map.SetValue(t.name, int64(i+1)*tagBase+k)
					rec.log("wret", t.name, "", k)
				case c.App > 0:
					// the application changes the value and announces it from a goroutine of its own
					cur[i].Store(int64(i+1)*tagBase + k)
					rec.log("wret", t.name, "", k)
					announcers.Add(1)
					go func() {
						defer announcers.Done()
						srv.S.ChangeNotification(t.id)
					}()
				default:
					if err := g2kit.WriteKindTS(wc, t.id, int64(i+1)*tagBase+k, 0, stamp(), opTimeout); err != nil {
						werr.Store(fmt.Sprintf("write %s #%d: %v", t.name, k, err))
						return
					}
					rec.log("wret", t.name, "", k)
				}
			}
		}(i, t)
	}
	var cerr atomic.Value
	if c.Churn > 0 {
		wg.Add(1)
		go func() {
			defer wg.Done()
			defer churnDone.Store(true)
			rng := vfgo.Rand(int64(c.Salt)*100 + 99)
			for r := 0; r < c.Churn; r++ {
				t := tg[rng.Intn(len(tg))]
				time.Sleep(time.Duration(rng.Intn(2*c.Interval+1)) * time.Millisecond)
				rec.logS(1, "remove", t.name, "", 0)
				if err := sub.RemoveNodeIDs(ctx, t.id); err != nil {
					cerr.Store(fmt.Sprintf("remove %s: %v", t.name, err))
					return
				}
				time.Sleep(time.Duration(rng.Intn(c.Interval+1)) * time.Millisecond)
				rec.logS(1, "add", t.name, "", 0)
				if err := sub.AddNodeIDs(ctx, t.id); err != nil {
					cerr.Store(fmt.Sprintf("re-add %s: %v", t.name, err))
					return
				}
			}
		}()
	}
	wg.Wait()
	announcers.Wait()
	if e := werr.Load(); e != nil {
		fail(out, c.ID, "%v", e)
		return
	}
	if e := cerr.Load(); e != nil {
		fail(out, c.ID, "%v", e)
		return
	}
	subs := 1
	if c.Late > 0 {
		// a second subscription of the same monitor on nodes that are monitored already; nothing is written any more
		sub2, err := subscribe(2)
		if err != nil {
			fail(out, c.ID, "second subscription: %v", err)
			return
		}
		subs = 2
		for _, t := range tg {
			rec.logS(2, "add", t.name, "", 0)
		}
		ids := make([]*ua.NodeID, len(tg))
		for i, t := range tg {
			ids[i] = t.id
		}
		if err := sub2.AddNodeIDs(ctx, ids...); err != nil { // all nodes in one request
			fail(out, c.ID, "second subscription add: %v", err)
			return
		}
	}
	rec.log("quiesce", "", "", 0)
	// drain: no notification for quiet = max(20 publishing intervals, 2 s); give up after 20 s.
	// (a 500 ms gap was too short on a loaded machine: the server's goroutines can be starved
	// for that long while notifications are still pending, which made the final read premature)
	quiet := time.Duration(20*c.Interval) * time.Millisecond
	if quiet < 2*time.Second {
		quiet = 2 * time.Second
	}
	deadline := time.Now().Add(20 * time.Second)
	lastNotify.Store(time.Now().UnixNano())
	for time.Now().Before(deadline) {
		if time.Since(time.Unix(0, lastNotify.Load())) >= quiet {
			break
		}
		time.Sleep(20 * time.Millisecond)
	}
	rc, err := g2kit.Connect(srv.URL, opTimeout)
	if err != nil {
		fail(out, c.ID, "connect reader: %v", err)
		return
	}
	for _, t := range tg {
		v, err := g2kit.ReadInt(rc, t.id, opTimeout)
		if err != nil {
			fail(out, c.ID, "final read: %v", err)
			return
		}
		rec.log("final", t.name, nameOfTag(v/tagBase), v%tagBase)
	}
	rec.mu.Lock()
	evs := append([]Event(nil), rec.evs...)
	rec.mu.Unlock()
	sort.Slice(evs, func(i, j int) bool { return evs[i].T < evs[j].T })
	out.Put(line{ID: c.ID, Events: evs, Stats: map[string]int{"notify": int(nNotify.Load()), "notify_errors": int(nErr.Load()),
		"async_errors": int(asyncErrs.Load()), "delivered": int(sub.Delivered()), "dropped": int(sub.Dropped()), "subscriptions": subs}})
	os.Stdout.Sync()
	os.Exit(0) // do not bother tearing down
}
