// Command endpoint replays the rows emitted by spec/Endpoint (C24) on the real
// opcua.SelectEndpoint: every row is an endpoint list, a query and the set of
// acceptable answers computed by TLC from the contract.
package main

import (
	"fmt"

	"github.com/gopcua/opcua"
	"github.com/gopcua/opcua/ua"

	"verifharness/vfgo"
)

type ep struct {
	Pol  string `json:"pol"`
	Mode int    `json:"mode"`
	Lvl  int    `json:"lvl"`
}

type row struct {
	Es []ep `json:"es"`
	Q  struct {
		Pol  string `json:"pol"`
		Sp   string `json:"sp"`
		Mode int    `json:"mode"`
	} `json:"q"`
	Best []ep `json:"best"`
	Err  bool `json:"err"`
}

func main() {
	vfgo.Init()
	defer vfgo.Flush()
	for _, r := range vfgo.Cases[row]() {
		one(r)
	}
}

func one(r row) {
	list := make([]*ua.EndpointDescription, len(r.Es))
	for i, e := range r.Es {
		list[i] = &ua.EndpointDescription{
			EndpointURL:       fmt.Sprintf("opc.tcp://h:4840/%d", i),
			SecurityPolicyURI: ua.SecurityPolicyURIPrefix + e.Pol,
			SecurityMode:      ua.MessageSecurityMode(e.Mode),
			SecurityLevel:     uint8(e.Lvl),
		}
	}
	pol := r.Q.Pol
	if pol != "" && r.Q.Sp == "uri" {
		pol = ua.SecurityPolicyURIPrefix + pol
	}
	class := fmt.Sprintf("len%d/pol=%v,%s/mode=%v/match=%d", len(r.Es), r.Q.Pol != "", r.Q.Sp, r.Q.Mode != 0, len(r.Best))
	var got *ua.EndpointDescription
	var err error
	if p, msg := vfgo.Recover(func() {
		got, err = opcua.SelectEndpoint(list, pol, ua.MessageSecurityMode(r.Q.Mode))
	}); p {
		vfgo.Violation(r, class, "select-panics", "SelectEndpoint panicked: "+msg)
		return
	}
	if r.Err {
		if err == nil {
			vfgo.Violation(r, class, "no-match-but-endpoint-returned", fmt.Sprintf("no endpoint matches, got %v", show(got)))
			return
		}
		vfgo.OK(r, class, "error")
		return
	}
	if err != nil || got == nil {
		vfgo.Violation(r, class, "match-exists-but-error", fmt.Sprintf("matching endpoints %v exist, got error %v", r.Best, err))
		return
	}
	g := ep{Pol: got.SecurityPolicyURI[len(ua.SecurityPolicyURIPrefix):], Mode: int(got.SecurityMode), Lvl: int(got.SecurityLevel)}
	for _, b := range r.Best {
		if b == g {
			vfgo.OK(r, class, g)
			return
		}
	}
	key := "not-best"
	matches := (r.Q.Pol == "" || g.Pol == r.Q.Pol) && (r.Q.Mode == 0 || g.Mode == r.Q.Mode)
	if !matches {
		key = "not-matching"
	}
	vfgo.Violation(r, class, key, fmt.Sprintf("got %+v, acceptable %+v", g, r.Best))
}

func show(e *ua.EndpointDescription) string {
	if e == nil {
		return "<nil>"
	}
	return fmt.Sprintf("{%s %v %d}", e.SecurityPolicyURI, e.SecurityMode, e.SecurityLevel)
}
