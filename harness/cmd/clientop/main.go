// Command clientop replays the rows of spec/ClientOp (C21): for every (client operation, response
// shape) pair chosen by TLC a scripted server (real uasc server channel) answers the operation's
// request with a response of that shape; the real client runs the operation in a child process so
// that panics -- also in background goroutines (publish loop, monitor pump) -- are observed.
package main

import (
	"bytes"
	"context"
	"encoding/json"
	"flag"
	"fmt"
	"io"
	"os"
	"strings"
	"sync"
	"time"

	"github.com/gopcua/opcua"
	"github.com/gopcua/opcua/id"
	"github.com/gopcua/opcua/monitor"
	"github.com/gopcua/opcua/ua"
	"github.com/gopcua/opcua/uasc"

	"verifharness/scriptsrv"
	"verifharness/vfgo"
)

type shape struct {
	RType  string `json:"rtype"`
	Status string `json:"status"`
	Count  int    `json:"count"`
	VT     string `json:"vt"`
	Ist    string `json:"ist"`
	Extra  string `json:"extra"`
}

type row struct {
	Op     string `json:"op"`
	Svc    string `json:"svc"`
	N      int    `json:"n"`
	Idx    string `json:"idx"`
	Val    bool   `json:"val"`
	Sh     shape  `json:"sh"`
	Expect string `json:"expect"`
	Asis   string `json:"asis"`
}

var parFlag = flag.Int("par", 6, "cases in parallel")

const subID = 77

// marker carried by a StatusChange notification after the shaped publish
var markerState = ua.StatusBadShutdown

func main() {
	vfgo.Init()
	defer vfgo.Flush()
	if *vfgo.ChildFlag == "op" {
		childOp()
		return
	}
	rows := vfgo.Cases[row]()
	sem := make(chan struct{}, *parFlag)
	var wg sync.WaitGroup
	for _, r := range rows {
		wg.Add(1)
		sem <- struct{}{}
		go func(r row) {
			defer wg.Done()
			defer func() { <-sem }()
			runRow(r)
		}(r)
	}
	wg.Wait()
}

// ------------------------------------------------------------------ scripted server side

// which request (1-based, per service) of the run gets the shaped answer
func shapedIndex(r row) int {
	switch {
	case r.Op == "connect.nsread":
		return 1
	case r.Svc == "Read": // the first Read is the namespace array read of Connect
		return 2
	case r.Op == "publish" || r.Op == "publish.monitor":
		return 2 // the first publish response is a normal data change, so that an acknowledgement is pending
	case r.Svc == "CreateMonitoredItems" || r.Svc == "CreateSubscription" || r.Svc == "CreateSession" || r.Svc == "ActivateSession":
		return 1
	}
	return 1
}

func svcOf(req ua.Request) string {
	s := fmt.Sprintf("%T", req)
	s = strings.TrimPrefix(s, "*ua.")
	s = strings.TrimSuffix(s, "Request")
	if s == "TranslateBrowsePathsToNodeIDs" {
		s = "TranslateBrowsePaths"
	}
	return s
}

func statusOf(s string) ua.StatusCode {
	if s == "bad" {
		return ua.StatusBadNodeIDUnknown
	}
	return ua.StatusOK
}

func rng(r row) int {
	h := 0
	for _, c := range r.Op + r.Sh.RType + r.Sh.VT + r.Sh.Extra {
		h = h*31 + int(c)
	}
	return vfgo.Rand(int64(h%100000 + r.Sh.Count)).Intn(1 << 20)
}

// expectedValue returns a Variant of the class vt for the attribute / node the read asks for.
func valueFor(rv *ua.ReadValueID, vt string, pick int) *ua.Variant {
	var exp interface{}
	var arr interface{}
	switch rv.AttributeID {
	case ua.AttributeIDBrowseName:
		exp, arr = &ua.QualifiedName{NamespaceIndex: 1, Name: "bn"}, []*ua.QualifiedName{{NamespaceIndex: 1, Name: "a"}, {Name: "b"}}
	case ua.AttributeIDDescription, ua.AttributeIDDisplayName:
		exp, arr = ua.NewLocalizedText("txt"), []*ua.LocalizedText{ua.NewLocalizedText("a"), ua.NewLocalizedText("b")}
	case ua.AttributeIDAccessLevel, ua.AttributeIDUserAccessLevel:
		exp, arr = uint8(3), []uint8{1, 3}
	case ua.AttributeIDNodeClass:
		exp, arr = int32(ua.NodeClassVariable), []int32{1, 2}
	default:
		switch {
		case rv.NodeID.IntID() == id.Server_NamespaceArray:
			exp, arr = []string{"http://opcfoundation.org/UA/", "urn:verif"}, []int32{1, 2, 3}
		case rv.NodeID.IntID() == id.Server_ServerDiagnostics_SubscriptionDiagnosticsArray:
			exp = []*ua.ExtensionObject{ua.NewExtensionObject(&ua.SubscriptionDiagnosticsDataType{SessionID: ua.NewNumericNodeID(0, 1), SubscriptionID: subID})}
			arr = []string{"x", "y"}
		default:
			exp, arr = int32(42), []int32{4, 2}
		}
	}
	others := []interface{}{"a string", float64(2.5), true, time.Unix(1000, 0).UTC(), ua.NewGUID("AAAAAAAA-BBBB-CCCC-DDDD-EEEEEEEEEEEE"),
		int64(-5), uint16(7), ua.NewNumericNodeID(2, 5), ua.StatusBadInternalError, []byte{1, 2, 3}, float32(1.5)}
	switch vt {
	case "expected":
		return ua.MustVariant(exp)
	case "array":
		return ua.MustVariant(arr)
	case "other":
		return ua.MustVariant(others[pick%len(others)])
	}
	return nil // "null"
}

func dataValue(v *ua.Variant, st ua.StatusCode) *ua.DataValue {
	dv := &ua.DataValue{}
	if v != nil {
		dv.EncodingMask |= ua.DataValueValue
		dv.Value = v
	}
	if st != ua.StatusOK {
		dv.EncodingMask |= ua.DataValueStatusCode
		dv.Status = st
	}
	return dv
}

func refDesc(i int) *ua.ReferenceDescription {
	return &ua.ReferenceDescription{
		ReferenceTypeID: ua.NewNumericNodeID(0, id.HasComponent), IsForward: true,
		NodeID:     ua.NewExpandedNodeID(ua.NewNumericNodeID(1, uint32(100+i)), "", 0),
		BrowseName: &ua.QualifiedName{NamespaceIndex: 1, Name: fmt.Sprintf("n%d", i)}, DisplayName: ua.NewLocalizedText("n"),
		NodeClass: ua.NodeClassVariable, TypeDefinition: ua.NewExpandedNodeID(ua.NewNumericNodeID(0, 63), "", 0),
	}
}

func browseResults(count int, st ua.StatusCode, cont bool) []*ua.BrowseResult {
	res := make([]*ua.BrowseResult, count)
	for i := range res {
		res[i] = &ua.BrowseResult{StatusCode: st, References: []*ua.ReferenceDescription{refDesc(i), refDesc(i + 10)}}
		if cont {
			res[i].ContinuationPoint = []byte{0xC0, byte(i)}
		}
	}
	return res
}

func statuses(count int, st ua.StatusCode) []ua.StatusCode {
	res := make([]ua.StatusCode, count)
	for i := range res {
		res[i] = st
	}
	return res
}

func notification(kind string, handle uint32, seq uint32) *ua.NotificationMessage {
	msg := &ua.NotificationMessage{SequenceNumber: seq, PublishTime: time.Now(), NotificationData: []*ua.ExtensionObject{}}
	dc := func(h uint32) *ua.ExtensionObject {
		return ua.NewExtensionObject(&ua.DataChangeNotification{
			MonitoredItems:  []*ua.MonitoredItemNotification{{ClientHandle: h, Value: dataValue(ua.MustVariant(int32(seq)), ua.StatusOK)}},
			DiagnosticInfos: []*ua.DiagnosticInfo{},
		})
	}
	switch kind {
	case "datachange", "unknownsub":
		msg.NotificationData = append(msg.NotificationData, dc(handle))
	case "unknownhandle":
		msg.NotificationData = append(msg.NotificationData, dc(999999))
	case "event":
		msg.NotificationData = append(msg.NotificationData, ua.NewExtensionObject(&ua.EventNotificationList{
			Events: []*ua.EventFieldList{{ClientHandle: handle, EventFields: []*ua.Variant{ua.MustVariant("ev")}}}}))
	case "statuschange":
		msg.NotificationData = append(msg.NotificationData, ua.NewExtensionObject(&ua.StatusChangeNotification{
			Status: ua.StatusBadTimeout, DiagnosticInfo: &ua.DiagnosticInfo{}}))
	case "marker":
		msg.NotificationData = append(msg.NotificationData, ua.NewExtensionObject(&ua.StatusChangeNotification{
			Status: markerState, DiagnosticInfo: &ua.DiagnosticInfo{}}))
	case "unknown": // a registered structure that is not a notification
		msg.NotificationData = append(msg.NotificationData, ua.NewExtensionObject(&ua.Argument{
			Name: "x", DataType: ua.NewNumericNodeID(0, 1), ArrayDimensions: []uint32{}, Description: ua.NewLocalizedText("d")}))
	case "novalue": // a structure type the client does not know: decodes to a nil value
		msg.NotificationData = append(msg.NotificationData, &ua.ExtensionObject{
			TypeID: ua.NewExpandedNodeID(ua.NewNumericNodeID(3, 54321), "", 0), EncodingMask: ua.ExtensionObjectBinary,
			Value: &ua.Argument{Name: "x", DataType: ua.NewNumericNodeID(0, 1), ArrayDimensions: []uint32{}, Description: ua.NewLocalizedText("d")}})
	case "keepalive":
	}
	return msg
}

type script struct {
	r       row
	mu      sync.Mutex
	counts  map[string]int
	shaped  bool // the shaped response went out
	after   int  // requests of the shaped service seen after the shaped one
	handle  uint32
	lastErr string
}

func (s *script) normal(req ua.Request) ua.Response {
	h := scriptsrv.Header(req, ua.StatusOK)
	switch q := req.(type) {
	case *ua.CreateSessionRequest:
		return &ua.CreateSessionResponse{ResponseHeader: h, SessionID: ua.NewNumericNodeID(1, 4711), AuthenticationToken: ua.NewNumericNodeID(1, 4712),
			RevisedSessionTimeout: 60000, ServerNonce: make([]byte, 32), ServerCertificate: nil, ServerEndpoints: []*ua.EndpointDescription{},
			ServerSoftwareCertificates: []*ua.SignedSoftwareCertificate{}, ServerSignature: &ua.SignatureData{}}
	case *ua.ActivateSessionRequest:
		return &ua.ActivateSessionResponse{ResponseHeader: h, ServerNonce: make([]byte, 32), Results: []ua.StatusCode{}, DiagnosticInfos: []*ua.DiagnosticInfo{}}
	case *ua.CloseSessionRequest:
		return &ua.CloseSessionResponse{ResponseHeader: h}
	case *ua.ReadRequest:
		res := make([]*ua.DataValue, len(q.NodesToRead))
		for i, rv := range q.NodesToRead {
			res[i] = dataValue(valueFor(rv, "expected", 0), ua.StatusOK)
		}
		return &ua.ReadResponse{ResponseHeader: h, Results: res, DiagnosticInfos: []*ua.DiagnosticInfo{}}
	case *ua.WriteRequest:
		return &ua.WriteResponse{ResponseHeader: h, Results: statuses(len(q.NodesToWrite), ua.StatusOK), DiagnosticInfos: []*ua.DiagnosticInfo{}}
	case *ua.BrowseRequest:
		return &ua.BrowseResponse{ResponseHeader: h, Results: browseResults(len(q.NodesToBrowse), ua.StatusOK, s.r.Op == "node.References.next"), DiagnosticInfos: []*ua.DiagnosticInfo{}}
	case *ua.BrowseNextRequest:
		return &ua.BrowseNextResponse{ResponseHeader: h, Results: browseResults(len(q.ContinuationPoints), ua.StatusOK, false), DiagnosticInfos: []*ua.DiagnosticInfo{}}
	case *ua.CreateSubscriptionRequest:
		return &ua.CreateSubscriptionResponse{ResponseHeader: h, SubscriptionID: subID, RevisedPublishingInterval: 100, RevisedLifetimeCount: 100, RevisedMaxKeepAliveCount: 10}
	case *ua.ModifySubscriptionRequest:
		return &ua.ModifySubscriptionResponse{ResponseHeader: h, RevisedPublishingInterval: 100, RevisedLifetimeCount: 100, RevisedMaxKeepAliveCount: 10}
	case *ua.CreateMonitoredItemsRequest:
		res := make([]*ua.MonitoredItemCreateResult, len(q.ItemsToCreate))
		for i, it := range q.ItemsToCreate {
			res[i] = &ua.MonitoredItemCreateResult{StatusCode: ua.StatusOK, MonitoredItemID: uint32(i + 1), RevisedSamplingInterval: 100, RevisedQueueSize: 1, FilterResult: ua.NewExtensionObject(nil)}
			if i == 0 {
				s.mu.Lock()
				s.handle = it.RequestedParameters.ClientHandle
				s.mu.Unlock()
			}
		}
		return &ua.CreateMonitoredItemsResponse{ResponseHeader: h, Results: res, DiagnosticInfos: []*ua.DiagnosticInfo{}}
	case *ua.DeleteMonitoredItemsRequest:
		return &ua.DeleteMonitoredItemsResponse{ResponseHeader: h, Results: statuses(len(q.MonitoredItemIDs), ua.StatusOK), DiagnosticInfos: []*ua.DiagnosticInfo{}}
	case *ua.ModifyMonitoredItemsRequest:
		res := make([]*ua.MonitoredItemModifyResult, len(q.ItemsToModify))
		for i := range res {
			res[i] = &ua.MonitoredItemModifyResult{StatusCode: ua.StatusOK, RevisedSamplingInterval: 100, RevisedQueueSize: 1, FilterResult: ua.NewExtensionObject(nil)}
		}
		return &ua.ModifyMonitoredItemsResponse{ResponseHeader: h, Results: res, DiagnosticInfos: []*ua.DiagnosticInfo{}}
	case *ua.SetMonitoringModeRequest:
		return &ua.SetMonitoringModeResponse{ResponseHeader: h, Results: statuses(len(q.MonitoredItemIDs), ua.StatusOK), DiagnosticInfos: []*ua.DiagnosticInfo{}}
	case *ua.DeleteSubscriptionsRequest:
		return &ua.DeleteSubscriptionsResponse{ResponseHeader: h, Results: statuses(len(q.SubscriptionIDs), ua.StatusOK), DiagnosticInfos: []*ua.DiagnosticInfo{}}
	case *ua.PublishRequest:
		s.mu.Lock()
		n := s.counts["Publish"]
		shaped, after, handle := s.shaped, s.after, s.handle
		s.mu.Unlock()
		kind := "keepalive"
		switch {
		case !shaped && n == 1 && (s.r.Op == "publish" || s.r.Op == "publish.monitor"):
			kind = "datachange"
		case shaped && after == 1:
			kind = "marker"
		default:
			time.Sleep(300 * time.Millisecond) // slow keep-alives: no busy loop
		}
		return &ua.PublishResponse{ResponseHeader: h, SubscriptionID: subID, NotificationMessage: notification(kind, handle, uint32(n)),
			AvailableSequenceNumbers: []uint32{}, Results: statuses(len(q.SubscriptionAcknowledgements), ua.StatusOK), DiagnosticInfos: []*ua.DiagnosticInfo{}}
	}
	return scriptsrv.Fault(req, ua.StatusBadServiceUnsupported)
}

func (s *script) shapedResp(req ua.Request) ua.Response {
	sh := s.r.Sh
	pick := rng(s.r)
	switch sh.RType {
	case "fault":
		bad := []ua.StatusCode{ua.StatusBadUnexpectedError, ua.StatusBadInternalError, ua.StatusBadServiceUnsupported, ua.StatusBadTooManyOperations, ua.StatusBadNothingToDo}
		return scriptsrv.Fault(req, bad[pick%len(bad)])
	case "other":
		if _, ok := req.(*ua.ReadRequest); ok {
			return &ua.WriteResponse{ResponseHeader: scriptsrv.Header(req, ua.StatusOK), Results: []ua.StatusCode{ua.StatusOK}, DiagnosticInfos: []*ua.DiagnosticInfo{}}
		}
		return &ua.ReadResponse{ResponseHeader: scriptsrv.Header(req, ua.StatusOK), Results: []*ua.DataValue{dataValue(ua.MustVariant(int32(1)), ua.StatusOK)}, DiagnosticInfos: []*ua.DiagnosticInfo{}}
	}
	hst := ua.StatusOK
	if sh.Status == "bad" {
		hst = ua.StatusBadInternalError
	}
	h := scriptsrv.Header(req, hst)
	ist := statusOf(sh.Ist)
	di := []*ua.DiagnosticInfo{}
	switch q := req.(type) {
	case *ua.CreateSessionRequest:
		resp := s.normal(req).(*ua.CreateSessionResponse)
		resp.ResponseHeader = h
		return resp
	case *ua.ActivateSessionRequest:
		resp := s.normal(req).(*ua.ActivateSessionResponse)
		resp.ResponseHeader = h
		return resp
	case *ua.ReadRequest:
		res := make([]*ua.DataValue, sh.Count)
		for i := range res {
			rv := q.NodesToRead[0]
			if i < len(q.NodesToRead) {
				rv = q.NodesToRead[i]
			}
			if ist != ua.StatusOK {
				res[i] = dataValue(nil, ist)
			} else {
				res[i] = dataValue(valueFor(rv, sh.VT, pick+i), ua.StatusOK)
			}
		}
		return &ua.ReadResponse{ResponseHeader: h, Results: res, DiagnosticInfos: di}
	case *ua.WriteRequest:
		return &ua.WriteResponse{ResponseHeader: h, Results: statuses(sh.Count, ist), DiagnosticInfos: di}
	case *ua.BrowseRequest:
		return &ua.BrowseResponse{ResponseHeader: h, Results: browseResults(sh.Count, ist, sh.Extra == "cont"), DiagnosticInfos: di}
	case *ua.BrowseNextRequest:
		return &ua.BrowseNextResponse{ResponseHeader: h, Results: browseResults(sh.Count, ist, sh.Extra == "cont"), DiagnosticInfos: di}
	case *ua.CallRequest:
		res := make([]*ua.CallMethodResult, sh.Count)
		for i := range res {
			res[i] = &ua.CallMethodResult{StatusCode: ist, InputArgumentResults: []ua.StatusCode{}, InputArgumentDiagnosticInfos: di, OutputArguments: []*ua.Variant{ua.MustVariant(int32(i))}}
		}
		return &ua.CallResponse{ResponseHeader: h, Results: res, DiagnosticInfos: di}
	case *ua.RegisterNodesRequest:
		res := make([]*ua.NodeID, sh.Count)
		for i := range res {
			res[i] = ua.NewNumericNodeID(1, uint32(i+1))
		}
		return &ua.RegisterNodesResponse{ResponseHeader: h, RegisteredNodeIDs: res}
	case *ua.HistoryReadRequest:
		res := make([]*ua.HistoryReadResult, sh.Count)
		for i := range res {
			res[i] = &ua.HistoryReadResult{StatusCode: ist, HistoryData: ua.NewExtensionObject(&ua.HistoryData{DataValues: []*ua.DataValue{dataValue(ua.MustVariant(int32(1)), ua.StatusOK)}})}
		}
		return &ua.HistoryReadResponse{ResponseHeader: h, Results: res, DiagnosticInfos: di}
	case *ua.TranslateBrowsePathsToNodeIDsRequest:
		res := make([]*ua.BrowsePathResult, sh.Count)
		for i := range res {
			res[i] = &ua.BrowsePathResult{StatusCode: ist, Targets: []*ua.BrowsePathTarget{}}
			if sh.Extra == "target" {
				res[i].Targets = append(res[i].Targets, &ua.BrowsePathTarget{TargetID: ua.NewExpandedNodeID(ua.NewNumericNodeID(1, 5), "", 0), RemainingPathIndex: 0xffffffff})
			}
		}
		return &ua.TranslateBrowsePathsToNodeIDsResponse{ResponseHeader: h, Results: res, DiagnosticInfos: di}
	case *ua.CreateSubscriptionRequest:
		sid := uint32(subID)
		if sh.Extra == "zero" {
			sid = 0
		}
		return &ua.CreateSubscriptionResponse{ResponseHeader: h, SubscriptionID: sid, RevisedPublishingInterval: 100, RevisedLifetimeCount: 100, RevisedMaxKeepAliveCount: 10}
	case *ua.ModifySubscriptionRequest:
		return &ua.ModifySubscriptionResponse{ResponseHeader: h, RevisedPublishingInterval: 50, RevisedLifetimeCount: 10, RevisedMaxKeepAliveCount: 3}
	case *ua.CreateMonitoredItemsRequest:
		res := make([]*ua.MonitoredItemCreateResult, sh.Count)
		for i := range res {
			res[i] = &ua.MonitoredItemCreateResult{StatusCode: ist, MonitoredItemID: uint32(i + 1), RevisedSamplingInterval: 100, RevisedQueueSize: 1, FilterResult: ua.NewExtensionObject(nil)}
		}
		return &ua.CreateMonitoredItemsResponse{ResponseHeader: h, Results: res, DiagnosticInfos: di}
	case *ua.DeleteMonitoredItemsRequest:
		return &ua.DeleteMonitoredItemsResponse{ResponseHeader: h, Results: statuses(sh.Count, ist), DiagnosticInfos: di}
	case *ua.ModifyMonitoredItemsRequest:
		res := make([]*ua.MonitoredItemModifyResult, sh.Count)
		for i := range res {
			res[i] = &ua.MonitoredItemModifyResult{StatusCode: ist, RevisedSamplingInterval: 100, RevisedQueueSize: 1, FilterResult: ua.NewExtensionObject(nil)}
		}
		return &ua.ModifyMonitoredItemsResponse{ResponseHeader: h, Results: res, DiagnosticInfos: di}
	case *ua.SetMonitoringModeRequest:
		return &ua.SetMonitoringModeResponse{ResponseHeader: h, Results: statuses(sh.Count, ist), DiagnosticInfos: di}
	case *ua.SetTriggeringRequest:
		return &ua.SetTriggeringResponse{ResponseHeader: h, AddResults: statuses(sh.Count, ist), AddDiagnosticInfos: di, RemoveResults: statuses(sh.Count, ist), RemoveDiagnosticInfos: di}
	case *ua.DeleteSubscriptionsRequest:
		return &ua.DeleteSubscriptionsResponse{ResponseHeader: h, Results: statuses(sh.Count, ist), DiagnosticInfos: di}
	case *ua.PublishRequest:
		s.mu.Lock()
		handle := s.handle
		n := s.counts["Publish"]
		s.mu.Unlock()
		sid := uint32(subID)
		if sh.Extra == "unknownsub" {
			sid = 4040
		}
		// result count relative to the acknowledgements in this request (the model's n = 1 pending ack)
		cnt := len(q.SubscriptionAcknowledgements) + sh.Count - 1
		if cnt < 0 {
			cnt = 0
		}
		return &ua.PublishResponse{ResponseHeader: h, SubscriptionID: sid, NotificationMessage: notification(sh.Extra, handle, uint32(n)),
			AvailableSequenceNumbers: []uint32{}, Results: statuses(cnt, ist), DiagnosticInfos: di}
	}
	return scriptsrv.Fault(req, ua.StatusBadServiceUnsupported)
}

func (s *script) handle1(sc *uasc.SecureChannel, reqID uint32, req ua.Request) ua.Response {
	svc := svcOf(req)
	s.mu.Lock()
	s.counts[svc]++
	n := s.counts[svc]
	isShaped := svc == s.r.Svc && n == shapedIndex(s.r)
	if svc == s.r.Svc && s.shaped {
		s.after++
	}
	s.mu.Unlock()
	var resp ua.Response
	func() {
		defer func() {
			if x := recover(); x != nil {
				s.mu.Lock()
				s.lastErr = fmt.Sprint("script panic: ", x)
				s.mu.Unlock()
				resp = scriptsrv.Fault(req, ua.StatusBadInternalError)
			}
		}()
		if isShaped {
			resp = s.shapedResp(req)
		} else {
			resp = s.normal(req)
		}
	}()
	if isShaped {
		s.mu.Lock()
		s.shaped = true
		s.mu.Unlock()
	}
	return resp
}

type opJob struct {
	URL string `json:"url"`
	Op  string `json:"op"`
}

type opObs struct {
	Stage  string `json:"stage"` // setup | call | done
	Ret    string `json:"ret"`   // value | error
	Err    string `json:"err"`
	Notifs int    `json:"notifs"`
	Marker bool   `json:"marker"`
}

func runRow(r row) {
	class := fmt.Sprintf("%s/%s/%s/c%d/%s/%s/%s", r.Op, r.Sh.RType, r.Sh.Status, r.Sh.Count, r.Sh.VT, r.Sh.Ist, r.Sh.Extra)
	var last string
	for try := 0; try < 2; try++ {
		s := &script{r: r, counts: map[string]int{}}
		srv, err := scriptsrv.Start("2048b", s.handle1)
		if err != nil {
			last = "scripted server: " + err.Error()
			continue
		}
		in, _ := json.Marshal(opJob{URL: srv.URL, Op: r.Op})
		out := vfgo.RunChild("op", in, 90*time.Second)
		s.mu.Lock()
		shaped, serr := s.shaped, s.lastErr
		s.mu.Unlock()
		srv.Close()
		var o opObs
		lines := bytes.Split(bytes.TrimSpace(out.Stdout), []byte("\n"))
		if len(lines) > 0 {
			json.Unmarshal(lines[len(lines)-1], &o)
		}
		detail := fmt.Sprintf("op=%s shape=%+v: child exit=%d panic=%v timedout=%v obs=%+v shapedSent=%v", r.Op, r.Sh, out.Exit, out.Panic, out.TimedOut, o, shaped)
		if serr != "" {
			vfgo.Inconclusive(r, "script error: "+serr)
			return
		}
		if out.Panic {
			vfgo.Violation(r, class, panicKey(r, out.Stderr), detail+"\n"+vfgo.PanicHead(out.Stderr))
			return
		}
		if out.TimedOut {
			last = "child timed out: " + detail
			if try == 1 && shaped && o.Stage == "call" {
				vfgo.Violation(r, class, "call-never-returns/"+r.Op, detail)
				return
			}
			continue
		}
		if !shaped || o.Stage != "done" {
			last = "shaped response was not reached: " + detail + " " + tailStr(out.Stderr, 300)
			continue
		}
		o.Err = tailStr(o.Err, 160)
		vfgo.Emit(vfgo.Result{Case: r, Status: "ok", Class: class, Nontrivial: true,
			Obs: map[string]any{"ret": o.Ret, "err": o.Err, "model": r.Expect, "asis": r.Asis, "agrees": o.Ret == r.Expect, "notifs": o.Notifs}})
		return
	}
	vfgo.Inconclusive(r, last)
}

func tailStr(s string, n int) string {
	if len(s) > n {
		return s[len(s)-n:]
	}
	return s
}

// panicKey names the failing shape: operation, what about the answer triggers it, and the code site.
func panicKey(r row, stderr string) string {
	what := "unexpected"
	switch {
	case strings.Contains(stderr, "index out of range"):
		switch {
		case r.Sh.Count == 0:
			what = "empty-results"
		case r.Sh.Count < r.N:
			what = "fewer-results-than-requested"
		default:
			what = "more-results-than-requested"
		}
	case strings.Contains(stderr, "interface conversion"):
		what = "value-of-unexpected-type"
	case strings.Contains(stderr, "nil pointer"):
		what = "nil-dereference"
	}
	site := ""
	for _, line := range strings.Split(stderr, "\n") {
		line = strings.TrimSpace(line)
		if strings.HasPrefix(line, "github.com/gopcua/opcua") && !strings.Contains(line, "/ua.") {
			f := line
			if i := strings.Index(f, "("); i > 0 && strings.Contains(f[:i], ".") {
				f = f[:i]
			}
			f = strings.TrimPrefix(f, "github.com/gopcua/opcua")
			f = strings.Trim(f, "./")
			if j := strings.LastIndex(line, ")."); j >= 0 {
				rest := line[j+2:]
				if k := strings.Index(rest, "("); k > 0 {
					rest = rest[:k]
				}
				site = rest
			} else {
				site = f
			}
			break
		}
	}
	return fmt.Sprintf("panic-in-%s/%s", site, what)
}

// ------------------------------------------------------------------ child: the real client

func emit(o opObs) {
	b, _ := json.Marshal(o)
	os.Stdout.Write(append(b, '\n'))
	os.Stdout.Sync()
}

func childOp() {
	var job opJob
	b, _ := io.ReadAll(os.Stdin)
	if err := json.Unmarshal(b, &job); err != nil {
		os.Exit(3)
	}
	ctx, cancel := context.WithTimeout(context.Background(), 40*time.Second)
	defer cancel()
	c, err := opcua.NewClient(job.URL, opcua.SecurityMode(ua.MessageSecurityModeNone), opcua.AutoReconnect(false),
		opcua.RequestTimeout(5*time.Second), opcua.DialTimeout(5*time.Second))
	if err != nil {
		emit(opObs{Stage: "setup", Err: err.Error()})
		return
	}
	ret := func(err error) {
		o := opObs{Stage: "done", Ret: "value"}
		if err != nil {
			o.Ret, o.Err = "error", err.Error()
		}
		emit(o)
	}
	if strings.HasPrefix(job.Op, "connect.") {
		emit(opObs{Stage: "call"})
		err := c.Connect(ctx)
		ret(err)
		return
	}
	if err := c.Connect(ctx); err != nil {
		emit(opObs{Stage: "setup", Err: "connect: " + err.Error()})
		return
	}
	nid := func(i uint32) *ua.NodeID { return ua.NewNumericNodeID(1, i) }
	node := c.Node(nid(7))
	notifs := make(chan *opcua.PublishNotificationData, 64)
	newSub := func() *opcua.Subscription {
		sub, err := c.Subscribe(ctx, &opcua.SubscriptionParameters{Interval: 100 * time.Millisecond}, notifs)
		if err != nil {
			emit(opObs{Stage: "setup", Err: "subscribe: " + err.Error()})
			os.Exit(0)
		}
		return sub
	}
	items := func() []*ua.MonitoredItemCreateRequest {
		return []*ua.MonitoredItemCreateRequest{
			opcua.NewMonitoredItemCreateRequestWithDefaults(nid(1), ua.AttributeIDValue, 42),
			opcua.NewMonitoredItemCreateRequestWithDefaults(nid(2), ua.AttributeIDValue, 43)}
	}
	monitored := func(sub *opcua.Subscription) {
		if _, err := sub.Monitor(ctx, ua.TimestampsToReturnBoth, items()...); err != nil {
			emit(opObs{Stage: "setup", Err: "monitor: " + err.Error()})
			os.Exit(0)
		}
	}
	newMon := func(nodes ...string) (*monitor.NodeMonitor, *monitor.Subscription, chan *monitor.DataChangeMessage) {
		m, _ := monitor.NewNodeMonitor(c)
		m.SetErrorHandler(func(*opcua.Client, *monitor.Subscription, error) {})
		ch := make(chan *monitor.DataChangeMessage, 64)
		ms, err := m.ChanSubscribe(ctx, &opcua.SubscriptionParameters{Interval: 100 * time.Millisecond}, ch, nodes...)
		if err != nil {
			emit(opObs{Stage: "setup", Err: "monitor subscribe: " + err.Error()})
			os.Exit(0)
		}
		return m, ms, ch
	}
	mreq := func() []monitor.Request {
		return []monitor.Request{
			{NodeID: nid(1), MonitoringMode: ua.MonitoringModeReporting, MonitoringParameters: &ua.MonitoringParameters{SamplingInterval: 50, QueueSize: 2, DiscardOldest: true}},
			{NodeID: nid(2), MonitoringMode: ua.MonitoringModeReporting, MonitoringParameters: &ua.MonitoringParameters{SamplingInterval: 50, QueueSize: 2, DiscardOldest: true}}}
	}
	// waitPublish waits until the marker notification (sent by the script in answer to the first publish
	// request after the shaped response) arrives, or the publish loop has stopped for a while.
	waitPublish := func(mch chan *monitor.DataChangeMessage) {
		o := opObs{Stage: "done", Ret: "value"}
		deadline := time.After(12 * time.Second)
	loop:
		for {
			select {
			case n := <-notifs:
				o.Notifs++
				if n.Error != nil {
					o.Ret, o.Err = "error", n.Error.Error()
				}
				if sc, ok := n.Value.(*ua.StatusChangeNotification); ok && sc.Status == markerState {
					o.Marker = true
					break loop
				}
			case <-mch:
				o.Notifs++
			case <-deadline:
				break loop
			}
		}
		time.Sleep(300 * time.Millisecond) // let background goroutines (pump, notify) finish what they started
		emit(o)
	}
	var err2 error
	switch job.Op {
	case "client.Read":
		emit(opObs{Stage: "call"})
		_, err2 = c.Read(ctx, &ua.ReadRequest{NodesToRead: []*ua.ReadValueID{{NodeID: nid(1)}, {NodeID: nid(2)}}})
	case "client.Write":
		emit(opObs{Stage: "call"})
		wv := func(i uint32) *ua.WriteValue {
			return &ua.WriteValue{NodeID: nid(i), AttributeID: ua.AttributeIDValue, Value: &ua.DataValue{EncodingMask: ua.DataValueValue, Value: ua.MustVariant(int32(i))}}
		}
		_, err2 = c.Write(ctx, &ua.WriteRequest{NodesToWrite: []*ua.WriteValue{wv(1), wv(2)}})
	case "client.Browse":
		emit(opObs{Stage: "call"})
		bd := func(i uint32) *ua.BrowseDescription {
			return &ua.BrowseDescription{NodeID: nid(i), BrowseDirection: ua.BrowseDirectionForward, IncludeSubtypes: true, ResultMask: uint32(ua.BrowseResultMaskAll)}
		}
		_, err2 = c.Browse(ctx, &ua.BrowseRequest{NodesToBrowse: []*ua.BrowseDescription{bd(1), bd(2)}})
	case "client.BrowseNext":
		emit(opObs{Stage: "call"})
		_, err2 = c.BrowseNext(ctx, &ua.BrowseNextRequest{ContinuationPoints: [][]byte{{1, 2}}})
	case "client.Call":
		emit(opObs{Stage: "call"})
		_, err2 = c.Call(ctx, &ua.CallMethodRequest{ObjectID: nid(1), MethodID: nid(2), InputArguments: []*ua.Variant{ua.MustVariant(int32(1))}})
	case "client.NamespaceArray":
		emit(opObs{Stage: "call"})
		_, err2 = c.NamespaceArray(ctx)
	case "client.RegisterNodes":
		emit(opObs{Stage: "call"})
		_, err2 = c.RegisterNodes(ctx, &ua.RegisterNodesRequest{NodesToRegister: []*ua.NodeID{nid(1), nid(2)}})
	case "client.HistoryReadRawModified":
		emit(opObs{Stage: "call"})
		_, err2 = c.HistoryReadRawModified(ctx, []*ua.HistoryReadValueID{{NodeID: nid(1), DataEncoding: &ua.QualifiedName{}}},
			&ua.ReadRawModifiedDetails{StartTime: time.Unix(0, 0).UTC(), EndTime: time.Unix(1000, 0).UTC(), NumValuesPerNode: 10})
	case "node.NodeClass":
		emit(opObs{Stage: "call"})
		_, err2 = node.NodeClass(ctx)
	case "node.BrowseName":
		emit(opObs{Stage: "call"})
		_, err2 = node.BrowseName(ctx)
	case "node.Description":
		emit(opObs{Stage: "call"})
		_, err2 = node.Description(ctx)
	case "node.DisplayName":
		emit(opObs{Stage: "call"})
		_, err2 = node.DisplayName(ctx)
	case "node.AccessLevel":
		emit(opObs{Stage: "call"})
		_, err2 = node.HasAccessLevel(ctx, ua.AccessLevelTypeCurrentRead)
	case "node.UserAccessLevel":
		emit(opObs{Stage: "call"})
		_, err2 = node.HasUserAccessLevel(ctx, ua.AccessLevelTypeCurrentRead)
	case "node.Value":
		emit(opObs{Stage: "call"})
		_, err2 = node.Value(ctx)
	case "node.Attributes":
		emit(opObs{Stage: "call"})
		_, err2 = node.Attributes(ctx, ua.AttributeIDBrowseName, ua.AttributeIDValue)
	case "node.References", "node.References.next":
		emit(opObs{Stage: "call"})
		_, err2 = node.References(ctx, 0, ua.BrowseDirectionBoth, ua.NodeClassAll, true)
	case "node.Children":
		emit(opObs{Stage: "call"})
		_, err2 = node.Children(ctx, 0, ua.NodeClassAll)
	case "node.TranslateBrowsePathsToNodeIDs":
		emit(opObs{Stage: "call"})
		_, err2 = node.TranslateBrowsePathInNamespaceToNodeID(ctx, 1, "a.b")
	case "client.Subscribe":
		emit(opObs{Stage: "call"})
		_, err2 = c.Subscribe(ctx, &opcua.SubscriptionParameters{Interval: 100 * time.Millisecond}, notifs)
	case "sub.Monitor":
		sub := newSub()
		emit(opObs{Stage: "call"})
		_, err2 = sub.Monitor(ctx, ua.TimestampsToReturnBoth, items()...)
	case "sub.Unmonitor":
		sub := newSub()
		monitored(sub)
		emit(opObs{Stage: "call"})
		_, err2 = sub.Unmonitor(ctx, 1, 2)
	case "sub.ModifyMonitoredItems":
		sub := newSub()
		monitored(sub)
		emit(opObs{Stage: "call"})
		mod := func(i uint32) *ua.MonitoredItemModifyRequest {
			return &ua.MonitoredItemModifyRequest{MonitoredItemID: i, RequestedParameters: &ua.MonitoringParameters{ClientHandle: 41 + i, SamplingInterval: 50, QueueSize: 2, DiscardOldest: true}}
		}
		_, err2 = sub.ModifyMonitoredItems(ctx, ua.TimestampsToReturnBoth, mod(1), mod(2))
	case "sub.SetMonitoringMode":
		sub := newSub()
		monitored(sub)
		emit(opObs{Stage: "call"})
		_, err2 = sub.SetMonitoringMode(ctx, ua.MonitoringModeSampling, 1, 2)
	case "sub.SetTriggering":
		sub := newSub()
		monitored(sub)
		emit(opObs{Stage: "call"})
		_, err2 = sub.SetTriggering(ctx, 1, []uint32{2, 1}, []uint32{2, 1})
	case "sub.ModifySubscription":
		sub := newSub()
		emit(opObs{Stage: "call"})
		_, err2 = sub.ModifySubscription(ctx, opcua.SubscriptionParameters{Interval: 50 * time.Millisecond})
	case "sub.Cancel":
		sub := newSub()
		emit(opObs{Stage: "call"})
		err2 = sub.Cancel(ctx)
	case "sub.Stats":
		sub := newSub()
		emit(opObs{Stage: "call"})
		_, err2 = sub.Stats(ctx)
	case "monitor.Subscribe":
		m, _ := monitor.NewNodeMonitor(c)
		ch := make(chan *monitor.DataChangeMessage, 16)
		emit(opObs{Stage: "call"})
		_, err2 = m.ChanSubscribe(ctx, &opcua.SubscriptionParameters{Interval: 100 * time.Millisecond}, ch, "ns=1;i=1", "ns=1;i=2")
	case "monitor.AddMonitorItems":
		_, ms, _ := newMon()
		emit(opObs{Stage: "call"})
		_, err2 = ms.AddMonitorItems(ctx, mreq()...)
	case "monitor.RemoveMonitorItems":
		_, ms, _ := newMon("ns=1;i=1", "ns=1;i=2")
		emit(opObs{Stage: "call"})
		err2 = ms.RemoveNodeIDs(ctx, nid(1), nid(2))
	case "monitor.ModifyMonitorItems":
		_, ms, _ := newMon("ns=1;i=1", "ns=1;i=2")
		emit(opObs{Stage: "call"})
		err2 = ms.ModifyMonitorItems(ctx, mreq()...)
	case "monitor.SetMonitoringMode":
		_, ms, _ := newMon("ns=1;i=1", "ns=1;i=2")
		emit(opObs{Stage: "call"})
		err2 = ms.SetMonitoringModeForNodeIDs(ctx, ua.MonitoringModeSampling, nid(1), nid(2))
	case "monitor.Unsubscribe":
		_, ms, _ := newMon("ns=1;i=1")
		emit(opObs{Stage: "call"})
		err2 = ms.Unsubscribe(ctx)
	case "publish":
		sub := newSub()
		monitored(sub)
		emit(opObs{Stage: "call"})
		waitPublish(nil)
		return
	case "publish.monitor":
		m, _ := monitor.NewNodeMonitor(c)
		m.SetErrorHandler(func(*opcua.Client, *monitor.Subscription, error) {})
		mch := make(chan *monitor.DataChangeMessage, 64)
		// the monitor package owns the notification channel; observe the marker through a second plain subscription? no:
		// the script marks by status change, which the pump reports through the error handler. Count messages instead.
		got := make(chan struct{}, 64)
		m.SetErrorHandler(func(_ *opcua.Client, _ *monitor.Subscription, e error) {
			select {
			case got <- struct{}{}:
			default:
			}
		})
		_, err := m.ChanSubscribe(ctx, &opcua.SubscriptionParameters{Interval: 100 * time.Millisecond}, mch, "ns=1;i=1", "ns=1;i=2")
		if err != nil {
			emit(opObs{Stage: "setup", Err: "monitor subscribe: " + err.Error()})
			return
		}
		emit(opObs{Stage: "call"})
		o := opObs{Stage: "done", Ret: "value"}
		deadline := time.After(6 * time.Second)
		quiet := time.NewTimer(6 * time.Second)
	loop:
		for {
			select {
			case <-mch:
				o.Notifs++
			case <-got: // unknown message types (status change marker, events ...) arrive here
				o.Notifs++
				o.Marker = true
				quiet.Reset(1500 * time.Millisecond)
			case <-quiet.C:
				break loop
			case <-deadline:
				break loop
			}
		}
		time.Sleep(300 * time.Millisecond)
		emit(o)
		return
	default:
		emit(opObs{Stage: "setup", Err: "unknown op " + job.Op})
		return
	}
	ret(err2)
}
