package main

import (
	"context"
	"fmt"
	"io"
	"net"
	"sync"
	"sync/atomic"
	"time"

	"github.com/gopcua/opcua"
	"github.com/gopcua/opcua/ua"
	"github.com/gopcua/opcua/uacp"
	"github.com/gopcua/opcua/uasc"

	"verifharness/keys"
	"verifharness/vfgo"
)

// openClientSut: a real opcua.Client (Dial only: secure channel, no session) against a
// scripted server built on a real server-side channel. Responses go through the typed
// client API (Client.Read -> safeAssign).
func openClientSut(s *sut, opTimeout time.Duration) (*sut, error) {
	ctx, cancel := context.WithCancel(context.Background())
	var lastErr error
	for attempt := 0; attempt < 4; attempt++ {
		l, err := net.Listen("tcp", "127.0.0.1:0")
		if err != nil {
			lastErr = err
			continue
		}
		port := l.Addr().(*net.TCPAddr).Port
		l.Close()
		ep := fmt.Sprintf("opc.tcp://127.0.0.1:%d", port)
		ack := uacp.Acknowledge{ReceiveBufSize: 8192, SendBufSize: 8192, MaxChunkCount: 256, MaxMessageSize: 1 << 22}
		ln, err := uacp.Listen(ctx, ep, &ack)
		if err != nil {
			lastErr = err
			time.Sleep(50 * time.Millisecond)
			continue
		}
		type acc struct {
			c   *uacp.Conn
			err error
		}
		accCh := make(chan acc, 1)
		go func() {
			c, err := ln.Accept(ctx)
			accCh <- acc{c, err}
		}()
		msgs := make(chan *uasc.MessageBody, 4096)
		srvReady := make(chan error, 1)
		var sconn *uacp.Conn
		go func() {
			a := <-accCh
			if a.err != nil {
				srvReady <- a.err
				return
			}
			sconn = a.c
			sk := keys.Get("2048b")
			scfg := &uasc.Config{SecurityPolicyURI: ua.SecurityPolicyURINone, SecurityMode: ua.MessageSecurityModeNone,
				Lifetime: 3600000, RequestTimeout: 10 * time.Second, Certificate: sk.Cert, LocalKey: sk.Key}
			srv, err := uasc.NewServerSecureChannel(ep, a.c, scfg, make(chan error, 16), 7, 100, 1)
			if err != nil {
				srvReady <- err
				return
			}
			s.srv = srv
			srvReady <- nil
			for {
				m := srv.Receive(ctx)
				select {
				case msgs <- m:
				default:
				}
				if m.Err == io.EOF || ctx.Err() != nil {
					close(msgs)
					return
				}
				if _, ok := m.Err.(net.Error); ok {
					close(msgs)
					return
				}
			}
		}()
		cl, err := opcua.NewClient(ep, opcua.SecurityMode(ua.MessageSecurityModeNone), opcua.RequestTimeout(opTimeout), opcua.AutoReconnect(false))
		if err != nil {
			ln.Close()
			lastErr = err
			continue
		}
		dctx, dcancel := context.WithTimeout(ctx, 20*time.Second)
		err = cl.Dial(dctx)
		dcancel()
		if err == nil {
			select {
			case err = <-srvReady:
			case <-time.After(10 * time.Second):
				err = fmt.Errorf("server side not ready")
			}
		}
		if err != nil {
			ln.Close()
			lastErr = err
			continue
		}
		s.cl = cl
		s.sc = cl.SecureChannel()
		ctls.Store(s.sc, s.ctl)
		go s.serverLoop(msgs)
		s.closeFn = func() {
			s.ctl.releaseAll()
			ctls.Delete(s.sc)
			cancel()
			go cl.Close(context.Background())
			if sconn != nil {
				sconn.Close()
			}
			ln.Close()
		}
		return s, nil
	}
	cancel()
	return nil, lastErr
}

// ---------------------------------------------------------------------------
// timing (C19 InvBoundedWait on the real clock): a request that is never answered must
// return BadTimeout no later than timeout + leniency (+ stated slack), release its slot,
// a late response must be discarded, and the channel must deliver the next response.
// The measurement is calibrated with a reference timer of the same length started at the
// same moment, so that scheduling delays of a loaded machine do not count.

const leniency = 250 * time.Millisecond
const slack = 1000 * time.Millisecond

func runTiming(cs Case) outcome {
	class := fmt.Sprintf("timing/%s/timeout=%dms/ctxdl=%v", cs.Level, cs.TimeoutMs, cs.CtxDL)
	to := time.Duration(cs.TimeoutMs) * time.Millisecond
	s, err := openSut("uasc", 20*time.Second, uint32(5000+cs.N), "None", "None")
	if err != nil {
		return outcome{status: "inconclusive", detail: "open: " + err.Error()}
	}
	defer s.closeFn()
	refDone := make(chan time.Duration, 1)
	t0 := time.Now()
	go func() {
		time.Sleep(to + leniency)
		refDone <- time.Since(t0)
	}()
	cctx := context.Background()
	if cs.CtxDL {
		var ccancel context.CancelFunc
		cctx, ccancel = context.WithTimeout(cctx, 4*to+time.Minute)
		defer ccancel()
	}
	r := s.call(cctx, 101, to)
	ref := <-refDone
	if ref > to+leniency+slack {
		return outcome{status: "inconclusive", detail: fmt.Sprintf("machine too loaded: reference timer of %s took %s", to+leniency, ref)}
	}
	if r.out != "timeout" {
		return outcome{status: "violation", class: class, key: "unanswered-request-outcome-" + r.out,
			detail: fmt.Sprintf("request that is never answered returned %q (%s) after %s", r.out, r.err, r.dur)}
	}
	if r.dur > ref+slack {
		return outcome{status: "violation", class: class, key: "timeout-exceeds-bound",
			detail: fmt.Sprintf("timeout %s + leniency %s: call took %s (reference timer %s, slack %s)", to, leniency, r.dur, ref, slack)}
	}
	if r.dur < to {
		return outcome{status: "violation", class: class, key: "timeout-before-deadline",
			detail: fmt.Sprintf("timeout %s: call returned already after %s", to, r.dur)}
	}
	if n := uasc.VerifPendingHandlers(s.sc); n != 0 {
		return outcome{status: "violation", class: class, key: "pending-slot-not-released",
			detail: fmt.Sprintf("%d handler slot(s) registered after the call timed out", n)}
	}
	// the late response is discarded, the next request gets its own response
	if id, ok := s.idOf(101); ok {
		s.respond("ok", id, 101, 1)
	}
	if o := probe(s, class); o != nil {
		return *o
	}
	return outcome{status: "ok", class: class, obs: map[string]any{"timeout_ms": cs.TimeoutMs, "took_ms": r.dur.Milliseconds(), "ref_ms": ref.Milliseconds()}}
}

// gatewait (C19 InvBoundedWait, Dev_GateIgnoresDeadline): a renewal is in flight and its OPN
// request is not answered; a request issued now with a short timeout (variant: a context
// that ends soon) must still return within its own bound.
func runGateWait(cs Case) outcome {
	variant := "timeout"
	if cs.Stride == 1 {
		variant = "context"
	}
	class := fmt.Sprintf("gatewait/%s/%dms", variant, cs.TimeoutMs)
	opTimeout := 4 * time.Second
	s, err := openSut("uasc", opTimeout, uint32(9000+cs.N), "None", "None")
	if err != nil {
		return outcome{status: "inconclusive", detail: "open: " + err.Error()}
	}
	defer s.closeFn()
	renewDone := make(chan error, 1)
	go func() { renewDone <- s.sc.Renew(context.Background()) }()
	ctls.Store(s.sc, s.ctl)
	if !waitFor(func() bool { return s.ctl.opn() != 0 }, syncWait) {
		return outcome{status: "inconclusive", detail: "renewal request not written"}
	}
	to := time.Duration(cs.TimeoutMs) * time.Millisecond
	bound := to + leniency
	ctx := context.Background()
	callTimeout := to
	if variant == "context" {
		var cancel context.CancelFunc
		ctx, cancel = context.WithTimeout(ctx, to)
		defer cancel()
		callTimeout = 30 * time.Second
		bound = to
	}
	refDone := make(chan time.Duration, 1)
	t0 := time.Now()
	go func() {
		time.Sleep(bound)
		refDone <- time.Since(t0)
	}()
	// the call is known to wait for the renewal (open finding); the renewal itself is bounded by
	// the channel's RequestTimeout + leniency, and so is this wait of the driver
	resCh := make(chan callRes, 1)
	go func() { resCh <- s.call(ctx, 101, callTimeout) }()
	var r callRes
	select {
	case r = <-resCh:
	case <-time.After(opTimeout + leniency + 6*time.Second):
		return outcome{status: "violation", class: class, key: "renewal-without-response-not-bounded",
			detail: fmt.Sprintf("a renewal whose OPN request is not answered did not end within the channel's request timeout %s + %s leniency + 6 s slack: a request waiting at the gate is still blocked", opTimeout, leniency)}
	}
	ref := <-refDone
	// let the renewal finish (answer it) so that the channel can be closed cleanly
	s.releaseHeld()
	select {
	case <-renewDone:
	case <-time.After(opTimeout + 2*time.Second):
	}
	if ref > bound+slack {
		return outcome{status: "inconclusive", detail: fmt.Sprintf("machine too loaded: reference timer of %s took %s", bound, ref)}
	}
	obs := map[string]any{"variant": variant, "bound_ms": bound.Milliseconds(), "took_ms": r.dur.Milliseconds(), "out": r.out}
	if r.dur > ref+slack {
		key := "call-blocked-at-renewal-gate-ignores-its-timeout"
		if variant == "context" {
			key = "call-blocked-at-renewal-gate-ignores-its-context"
		}
		return outcome{status: "violation", class: class, key: key, obs: obs,
			detail: fmt.Sprintf("a renewal is waiting for its OPN response; a request with %s %s returned %q only after %s (bound %s + slack %s)", variant, to, r.out, r.dur, bound, slack)}
	}
	return outcome{status: "ok", class: class, obs: obs}
}

// ---------------------------------------------------------------------------
// stress (C18): many concurrent callers, the server answers each round in a seeded random
// permutation; one caller's request stays pending while Stride other requests complete
// (request ids that agree in their low bits). The recorded history is checked here against
// the specification's invariants (own response, no sharing, request id sequence) and is
// returned as a trace for validation by TLC.

type traceEv struct {
	Ev  string `json:"ev"`
	C   int    `json:"c"`
	K   int    `json:"k"`
	ID  int64  `json:"id"`
	Mid int    `json:"mid"`
	Out string `json:"out,omitempty"`
	Tag int    `json:"tag"`
}

func runStress(cs Case) outcome {
	class := fmt.Sprintf("stress/%s/callers=%d/rounds=%d/stride=%d/wrap=%v/big=%v/failshare=%d", cs.Level, cs.Callers, cs.Rounds, cs.Stride, cs.Wrap, cs.Big, cs.FailShare)
	seed := uint32(100000 + vfgo.Rand(int64(cs.N)).Intn(1<<24))
	if cs.Wrap {
		seed = ^uint32(0) - uint32(cs.Callers*cs.Rounds/2)
	}
	s, err := openSut(cs.Level, 60*time.Second, seed, "None", "None", cs.Big)
	if err != nil {
		return outcome{status: "inconclusive", detail: "open: " + err.Error()}
	}
	defer s.closeFn()
	var rec *recorder
	if cs.Rec {
		rec = &recorder{tr: 500000 + cs.N, server: s.srv}
		recs.Store(s.sc, rec)
		recs.Store(s.srv, rec)
		defer recs.Delete(s.sc)
		defer recs.Delete(s.srv)
	}
	var earlyFailed int64 // sends that failed before anything of the message was written
	var kept []callRes // every delivered response is kept and compared again at the end
	failCalls := 0
	rnd := vfgo.Rand(int64(cs.N) + 77)
	var trace []traceEv
	var tmu sync.Mutex
	log := func(e traceEv) {
		tmu.Lock()
		trace = append(trace, e)
		tmu.Unlock()
	}
	mid := 0
	// the long-lived call: stays pending during all rounds
	longTag := tagOf(cs.Callers+1, 1)
	longDone := make(chan callRes, 1)
	go func() { longDone <- s.call(context.Background(), longTag, 120*time.Second) }()
	if !waitFor(func() bool { _, ok := s.idOf(longTag); return ok }, syncWait) {
		return outcome{status: "inconclusive", detail: "long-lived request did not reach the server"}
	}
	usedIDs := map[uint32]int{}
	lid, _ := s.idOf(longTag)
	usedIDs[lid] = longTag
	// ScCorr InvokeCancelled, concurrently with the dispatch of the other callers' responses: callers
	// whose context has already ended, or ends while the (multi-chunk) request is being written.
	// They must return the context error promptly, release their slot and disturb nobody.
	nFail := 0
	if cs.FailShare > 1 {
		nFail = (cs.Callers + cs.FailShare - 2) / (cs.FailShare - 1)
	}
	type failRes struct {
		n    int
		bad  string
		slow time.Duration
	}
	failCh := make(chan failRes, nFail+1)
	var stopFail int32
	defer atomic.StoreInt32(&stopFail, 1)
	const prompt = 10 * time.Second
	for f := 0; f < nFail; f++ {
		go func(f int) {
			fr := failRes{}
			frnd := vfgo.Rand(int64(cs.N)*1000 + int64(f))
			for i := 1; atomic.LoadInt32(&stopFail) == 0 || i <= 3; i++ {
				ctx, cancel := context.WithCancel(context.Background())
				extra := 0
				if (i+f)%2 == 0 {
					cancel() // already ended
				} else {
					// ends while the request (about ten chunks) is being written, or right after
					cancel()
					ctx, cancel = context.WithTimeout(context.Background(), time.Duration(50+frnd.Intn(1500))*time.Microsecond)
					extra = 4000
				}
				ftag := 900000 + f*1000 + i%1000
				r := s.callN(ctx, ftag, 120*time.Second, extra)
				cancel()
				if rec != nil && r.out != "ok" {
					if id, written := s.ctl.writtenID(ftag); !written {
						atomic.AddInt64(&earlyFailed, 1)
					} else {
						rec.abortAfter(id)
					}
				}
				fr.n++
				if r.out != "ctx" && fr.bad == "" {
					fr.bad = fmt.Sprintf("call %d of failing caller %d returned %q (%s)", i, f, r.out, r.err)
				}
				if r.dur > fr.slow {
					fr.slow = r.dur
				}
				if i > 100000 {
					break
				}
				time.Sleep(time.Duration(frnd.Intn(300)) * time.Microsecond)
			}
			failCh <- fr
		}(f)
	}
	failDone := false
	collectFail := func() *outcome {
		if failDone {
			return nil
		}
		failDone = true
		atomic.StoreInt32(&stopFail, 1)
		total := 0
		for f := 0; f < nFail; f++ {
			select {
			case fr := <-failCh:
				total += fr.n
				if fr.bad != "" {
					return &outcome{status: "violation", class: class, key: "outcome-of-request-with-ended-context",
						detail: "a request whose context had ended / ended during the send, issued while other callers' responses were dispatched: " + fr.bad}
				}
				if fr.slow > prompt {
					return &outcome{status: "violation", class: class, key: "timeout-request-with-ended-context-returns-late",
						detail: fmt.Sprintf("a request whose context ended before or during the send returned only after %s", fr.slow)}
				}
			case <-time.After(3 * syncWait):
				return &outcome{status: "violation", class: class, key: "call-did-not-return",
					detail: "a caller whose requests have an ended context did not return"}
			}
		}
		failCalls = total
		return nil
	}
	for round := 1; round <= cs.Rounds; round++ {
		res := make([]callRes, cs.Callers+1)
		var wg sync.WaitGroup
		for c := 1; c <= cs.Callers; c++ {
			wg.Add(1)
			go func(c int) {
				defer wg.Done()
				res[c] = s.call(context.Background(), tagOf(c, round), 120*time.Second)
			}(c)
		}
		want := s.arrivedCount()
		_ = want
		if !waitFor(func() bool {
			for c := 1; c <= cs.Callers; c++ {
				if _, ok := s.idOf(tagOf(c, round)); !ok {
					return false
				}
			}
			return true
		}, 2*syncWait) {
			// a request that was refused locally (duplicate handler) never reaches the server
			break
		}
		perm := rnd.Perm(cs.Callers)
		expMid := map[int]int{}
		for _, i := range perm {
			c := i + 1
			id, _ := s.idOf(tagOf(c, round))
			if prev, dup := usedIDs[id]; dup {
				return outcome{status: "violation", class: class, key: "request-id-reused-while-live",
					detail: fmt.Sprintf("request id %d used by call tag %d and again by tag %d", id, prev, tagOf(c, round))}
			}
			usedIDs[id] = tagOf(c, round)
			mid++
			expMid[c] = mid
			log(traceEv{Ev: "resp", C: c, K: round, ID: int64(id), Mid: mid, Tag: tagOf(c, round)})
			if err := s.respond("ok", id, tagOf(c, round), mid); err != nil {
				return outcome{status: "inconclusive", detail: "server send: " + err.Error()}
			}
		}
		done := make(chan struct{})
		go func() { wg.Wait(); close(done) }()
		select {
		case <-done:
		case <-time.After(3 * syncWait):
			return outcome{status: "violation", class: class, key: "call-did-not-return",
				detail: fmt.Sprintf("round %d: not all of %d answered calls returned within %s", round, cs.Callers, 3*syncWait)}
		}
		for c := 1; c <= cs.Callers; c++ {
			r := res[c]
			log(traceEv{Ev: "ret", C: c, K: round, Mid: r.gotMid, Out: r.out, Tag: r.gotTag})
			if r.out != "ok" {
				return outcome{status: "violation", class: class, key: "outcome-" + r.out + "-expected-ok",
					detail: fmt.Sprintf("round %d caller %d: answered call returned %q (%s)", round, c, r.out, r.err)}
			}
			kept = append(kept, r)
			if r.gotTag != tagOf(c, round) || r.gotMid != expMid[c] {
				return outcome{status: "violation", class: class, key: "response-of-another-request-delivered",
					detail: fmt.Sprintf("round %d caller %d: got tag=%d mid=%d, own response is tag=%d mid=%d", round, c, r.gotTag, r.gotMid, tagOf(c, round), expMid[c])}
			}
		}
		// fillers between rounds: Stride-1 sequential request/response pairs (answered by the server loop)
		for f := 0; f < cs.Stride-1; f++ {
			r := s.call(context.Background(), 0, 60*time.Second)
			if r.out != "ok" {
				return outcome{status: "violation", class: class, key: "outcome-" + r.out + "-expected-ok",
					detail: fmt.Sprintf("filler request after round %d returned %q (%s) while another request is pending", round, r.out, r.err)}
			}
		}
	}
	if o := collectFail(); o != nil {
		return *o
	}
	// finally answer the long-lived call
	mid++
	if err := s.respond("ok", lid, longTag, mid); err != nil {
		return outcome{status: "inconclusive", detail: "server send: " + err.Error()}
	}
	select {
	case r := <-longDone:
		if r.out != "ok" || r.gotTag != longTag || r.gotMid != mid {
			return outcome{status: "violation", class: class, key: "response-of-another-request-delivered",
				detail: fmt.Sprintf("long-lived call: got %q tag=%d mid=%d (%s), own response is tag=%d mid=%d", r.out, r.gotTag, r.gotMid, r.err, longTag, mid)}
		}
	case <-time.After(syncWait):
		return outcome{status: "violation", class: class, key: "call-did-not-return", detail: "long-lived call did not return after its response was sent"}
	}
	if n := uasc.VerifPendingHandlers(s.sc); n != 0 {
		return outcome{status: "violation", class: class, key: "pending-slot-not-released", detail: fmt.Sprintf("%d slots left", n)}
	}
	for _, r := range kept {
		if !payloadIntact(r, s.paySize) {
			return outcome{status: "violation", class: class, key: "response-payload-changed-after-delivery",
				detail: fmt.Sprintf("the %d byte ByteString of the response tag=%d mid=%d no longer equals what the server sent after later messages were received", len(r.payload), r.gotTag, r.gotMid)}
		}
	}
	o := map[string]any{"calls": cs.Callers*cs.Rounds + 1, "responses": mid, "payload_bytes": s.paySize, "failing_callers": nFail, "ended_context_calls": failCalls}
	if rec != nil {
		rec.mu.Lock()
		o["events"] = append([]scEvent(nil), rec.events...)
		rec.mu.Unlock()
		o["tr"] = rec.tr
		o["scenario"] = "manycaller"
		o["failed_sends"] = atomic.LoadInt64(&earlyFailed)
	}
	return outcome{status: "ok", class: class, obs: o}
}
