// Command codec replays the rows emitted by spec/Codec on the real ua package.
//
//	value   rows (C01): concretise the abstract value, ua.Encode, compare the bytes with the
//	        specification's token sequence (binding), ua.Decode, compare with the
//	        specification's Norm(value) up to the documented normalisations, consumed = encoded.
//	struct  rows (C01): the same for every registered service / extension object type, value
//	        built by reflection from the TLC-computed recipe value.
//	stream  rows (C03): decode the (canonical or non-canonical) stream; if it decodes, encode the
//	        result and decode again: no error, no panic, equal value.
//	hostile rows (C02): decode the stream; no panic, no hang, allocation <= K*len + C.
//
// Stream and hostile rows run in a child process (panics are recovered and reported per case;
// fatal errors, hangs and memory exhaustion kill the child and are attributed to the case in flight).
package main

import (
	"bufio"
	"bytes"
	"encoding/hex"
	"encoding/json"
	"flag"
	"fmt"
	"os"
	"reflect"
	"runtime"
	"runtime/debug"
	"strings"
	"sync/atomic"
	"syscall"
	"time"

	"github.com/gopcua/opcua/ua"

	"verifharness/vfgo"
)

type row struct {
	Kind    string `json:"kind"`
	V       *val   `json:"v,omitempty"`
	Toks    []tok  `json:"toks,omitempty"`
	Norm    *val   `json:"norm,omitempty"`
	Ty      string `json:"ty,omitempty"`
	Canon   bool   `json:"canon,omitempty"`
	OK      bool   `json:"ok,omitempty"`
	Val     *val   `json:"val,omitempty"`
	DevDrop bool   `json:"devdrop,omitempty"`
	Pos     int    `json:"pos,omitempty"`
	// struct rows
	Name   string `json:"name,omitempty"`
	Recipe string `json:"recipe,omitempty"`
	// raw byte cases produced by the harness from TLC rows (mutations)
	Hex    string `json:"hex,omitempty"`
	Origin string `json:"origin,omitempty"`
}

const (
	allocK = 64
	allocC = 1 << 20
)

var (
	mode    = flag.String("mode", "c01", "c01 | c03 | c02 | schemas")
	perCase = flag.Duration("case-timeout", 10*time.Second, "watchdog per case in the child")
)

func main() {
	vfgo.Init()
	defer vfgo.Flush()
	if *vfgo.ChildFlag != "" {
		child(*vfgo.ChildFlag)
		return
	}
	switch *mode {
	case "schemas":
		dumpSchemas()
	case "c01":
		for _, r := range vfgo.Cases[row]() {
			switch r.Kind {
			case "value":
				doValue(r)
			case "struct":
				doStruct(r)
			default:
				vfgo.Fatalf("c01: bad row kind %q", r.Kind)
			}
		}
	case "c03", "c02":
		runInChildren(*mode, vfgo.Cases[row]())
	default:
		vfgo.Fatalf("bad mode %q", *mode)
	}
}

// ---------------------------------------------------------------- C01

func shapeOf(v *val) string {
	switch v.T {
	case "Variant":
		d := ""
		switch {
		case len(v.Dims) > 1 && hasZero(v.Dims):
			d = "-md0"
		case len(v.Dims) > 1:
			d = "-md"
		case v.K == "arr" && len(v.E) == 0:
			d = "-empty"
		}
		return "Variant/" + v.Vt + "/" + v.K + d
	case "NodeId":
		return "NodeId/" + v.Enc
	case "ExpandedNodeId":
		return fmt.Sprintf("ExpandedNodeId/%s/fl%d", v.Nid.Enc, v.Nid.Fl)
	case "ExtensionObject":
		return "ExtensionObject/" + v.Xk
	case "DataValue", "LocalizedText", "DiagnosticInfo":
		return fmt.Sprintf("%s/m%d", v.T, v.M)
	case "Struct":
		return "Struct/" + v.Name
	}
	if v.A != "" {
		return v.T + "/" + v.A
	}
	return v.T
}

func hasZero(d []int) bool {
	for _, x := range d {
		if x == 0 {
			return true
		}
	}
	return false
}

// knownShape names value shapes for which the specification carries a deviation flag.
func knownShape(v *val) string {
	if v.T == "Variant" && v.Vt == "ByteString" && v.K == "arr" && len(v.E) > 0 {
		return "variant-array-of-bytestring-not-encodable"
	}
	if v.T == "Variant" && len(v.Dims) > 1 && hasZero(v.Dims) {
		return "variant-multidim-zero-length-dimension-rejected-by-decoder"
	}
	return ""
}

func key(symptom string, v *val) string {
	if k := knownShape(v); k != "" {
		return k
	}
	s := shapeOf(v)
	// masks: the failing mask value is part of the detail, not of the key
	if i := strings.Index(s, "/m"); i > 0 && (v.T == "DataValue" || v.T == "LocalizedText" || v.T == "DiagnosticInfo") {
		s = s[:i]
	}
	if v.T != "Variant" && v.T != "NodeId" && v.T != "ExpandedNodeId" && v.T != "ExtensionObject" && v.T != "Struct" {
		s = v.T
	}
	return symptom + ":" + s
}

// roundTrip runs encode / decode / compare for one Go value. want is the Go value of the
// specification's Norm(v); wantBytes the specification's wire form (nil: no binding check).
func roundTrip(r row, v *val, orig, want any, wantBytes []byte, newTarget func() any) {
	cls := shapeOf(v)
	var enc []byte
	var err error
	if p, msg := vfgo.Recover(func() { enc, err = ua.Encode(orig) }); p {
		vfgo.Violation(r, cls, key("encode-panics", v), "ua.Encode panicked: "+msg)
		return
	}
	if err != nil {
		vfgo.Violation(r, cls, key("encode-error", v), "ua.Encode: "+err.Error())
		return
	}
	tgt := newTarget()
	var n int
	if p, msg := vfgo.Recover(func() { n, err = ua.Decode(enc, tgt) }); p {
		vfgo.Violation(r, cls, key("decode-panics", v), fmt.Sprintf("ua.Decode(%x) panicked: %s", enc, msg))
		return
	}
	bound := wantBytes == nil || bytes.Equal(enc, wantBytes)
	note := ""
	if !bound {
		note = fmt.Sprintf(" (encoding %x differs from the specification's %x)", enc, wantBytes)
	}
	if err != nil {
		vfgo.Violation(r, cls, key("decode-error", v), fmt.Sprintf("ua.Decode(%x): %v%s", enc, err, note))
		return
	}
	if n != len(enc) {
		vfgo.Violation(r, cls, key("consumed-differs", v), fmt.Sprintf("decode consumed %d of %d bytes %x%s", n, len(enc), enc, note))
		return
	}
	got := reflect.ValueOf(tgt).Elem().Interface()
	if reflect.TypeOf(orig).Kind() == reflect.Ptr && reflect.TypeOf(orig) == reflect.TypeOf(tgt) {
		got = tgt
	}
	cg, cw, co := canon(got), canon(want), canon(orig)
	if cg != cw || cg != co {
		vfgo.Violation(r, cls, key("value-differs", v), fmt.Sprintf("decoded %s, want %s (encoding %x)%s", trunc(cg), trunc(cw), enc, note))
		return
	}
	if !bound {
		// round trip holds but the bytes are not what the specification prescribes: the model
		// does not describe this code, nothing proved on it transfers
		vfgo.Inconclusive(r, "binding: "+cls+note)
		return
	}
	vfgo.OK(r, cls, hex.EncodeToString(enc))
}

func trunc(s string) string {
	if len(s) > 600 {
		return s[:600] + "…"
	}
	return s
}

func doValue(r row) {
	cls := shapeOf(r.V)
	var orig, want any
	if p, msg := vfgo.Recover(func() { orig = build(r.V); want = build(r.Norm) }); p {
		vfgo.Violation(r, cls, key("construct-fails", r.V), "building the value with the public constructors failed: "+msg)
		return
	}
	roundTrip(r, r.V, orig, want, tokBytes(r.Toks), func() any { return target(r.V.T) })
}

// ---------------------------------------------------------------- children (C03, C02)

type childRes struct {
	I      int    `json:"i"`
	Status string `json:"status"` // ok | violation | start
	Key    string `json:"key,omitempty"`
	Detail string `json:"detail,omitempty"`
	Class  string `json:"class,omitempty"`
	Obs    string `json:"obs,omitempty"`
}

func runInChildren(mode string, rows []row) {
	next := 0
	for next < len(rows) {
		end := next + 400
		if end > len(rows) {
			end = len(rows)
		}
		var in bytes.Buffer
		enc := json.NewEncoder(&in)
		for i := next; i < end; i++ {
			enc.Encode(struct {
				I int `json:"i"`
				R row `json:"r"`
			}{i, rows[i]})
		}
		out := vfgo.RunChild(mode, in.Bytes(), 180*time.Second, fmt.Sprintf("VF_CASE_TIMEOUT=%s", *perCase))
		started, finished := -1, -1
		sc := bufio.NewScanner(bytes.NewReader(out.Stdout))
		sc.Buffer(make([]byte, 1<<20), 1<<26)
		for sc.Scan() {
			var cr childRes
			if json.Unmarshal(sc.Bytes(), &cr) != nil {
				continue
			}
			switch cr.Status {
			case "start":
				started = cr.I
			case "ok":
				finished = cr.I
				vfgo.OK(rows[cr.I], cr.Class, cr.Obs)
			case "violation":
				finished = cr.I
				vfgo.Violation(rows[cr.I], cr.Class, cr.Key, cr.Detail)
			}
		}
		if finished == end-1 && out.Exit == 0 {
			next = end
			continue
		}
		if started > finished && started >= next {
			// the child died while working on case `started`
			r := rows[started]
			cls := caseClass(mode, r)
			switch {
			case out.TimedOut || strings.Contains(out.Stderr, "VF-WATCHDOG hang"):
				vfgo.Violation(r, cls, "hang:"+shapeKey(mode, r), fmt.Sprintf("no result within %s for %s", *perCase, describe(r)))
			case strings.Contains(out.Stderr, "VF-WATCHDOG memory") || strings.Contains(out.Stderr, "out of memory") || strings.Contains(out.Stderr, "cannot allocate"):
				vfgo.Violation(r, cls, "memory-exhausted:"+shapeKey(mode, r), fmt.Sprintf("memory limit hit for %s: %s", describe(r), firstLine(out.Stderr)))
			case out.Panic:
				vfgo.Violation(r, cls, "fatal:"+shapeKey(mode, r), fmt.Sprintf("%s: %s", describe(r), vfgo.PanicHead(out.Stderr)))
			default:
				vfgo.Inconclusive(r, fmt.Sprintf("child died (exit %d signal %s) at %s: %s", out.Exit, out.Signal, describe(r), firstLine(out.Stderr)))
			}
			next = started + 1
			continue
		}
		// no progress information: machinery problem
		for i := max(next, finished+1); i < end; i++ {
			vfgo.Inconclusive(rows[i], fmt.Sprintf("child produced no result (exit %d signal %s timeout %v): %s", out.Exit, out.Signal, out.TimedOut, firstLine(out.Stderr)))
		}
		next = end
	}
}

func firstLine(s string) string {
	s = strings.TrimSpace(s)
	if i := strings.IndexByte(s, '\n'); i > 0 {
		s = s[:i]
	}
	return trunc(s)
}

func describe(r row) string {
	b := caseBytes(r)
	return fmt.Sprintf("decode %s from %x", caseType(r), clip(b))
}

func clip(b []byte) []byte {
	if len(b) > 96 {
		return b[:96]
	}
	return b
}

func caseBytes(r row) []byte {
	if r.Hex != "" || r.Toks == nil {
		b, _ := hex.DecodeString(r.Hex)
		return b
	}
	return tokBytes(r.Toks)
}

func caseType(r row) string {
	if r.Name != "" {
		return r.Name
	}
	return r.Ty
}

func caseClass(mode string, r row) string {
	if r.Kind == "stream" {
		return fmt.Sprintf("stream/%s/canon=%v/decodes=%v", caseType(r), r.Canon, r.OK)
	}
	if r.Origin != "" {
		return fmt.Sprintf("%s/%s/%s", r.Kind, caseType(r), r.Origin)
	}
	return fmt.Sprintf("%s/%s/pos%d/decodes=%v", r.Kind, caseType(r), r.Pos, r.OK)
}

// shapeKey is the part of a violation key that names the failing input shape.
func shapeKey(mode string, r row) string {
	if r.Origin != "" {
		return caseType(r) + "/" + r.Origin
	}
	return caseType(r)
}

var inFlight atomic.Int64

func child(mode string) {
	// backstop: address space limit, and a watchdog for hangs / memory
	var lim syscall.Rlimit
	lim.Cur, lim.Max = 6<<30, 6<<30
	syscall.Setrlimit(syscall.RLIMIT_AS, &lim)
	debug.SetGCPercent(50)
	to := 10 * time.Second
	if d, err := time.ParseDuration(os.Getenv("VF_CASE_TIMEOUT")); err == nil {
		to = d
	}
	var startedAt atomic.Int64
	inFlight.Store(-1)
	go func() {
		var ms runtime.MemStats
		for {
			time.Sleep(50 * time.Millisecond)
			if i := inFlight.Load(); i >= 0 && time.Since(time.Unix(0, startedAt.Load())) > to {
				fmt.Fprintf(os.Stderr, "VF-WATCHDOG hang case=%d\n", i)
				os.Exit(7)
			}
			runtime.ReadMemStats(&ms)
			if ms.Sys > 3<<30 {
				fmt.Fprintf(os.Stderr, "VF-WATCHDOG memory case=%d sys=%d\n", inFlight.Load(), ms.Sys)
				os.Exit(8)
			}
		}
	}()
	w := bufio.NewWriter(os.Stdout)
	emit := func(cr childRes) {
		b, _ := json.Marshal(cr)
		w.Write(b)
		w.WriteByte('\n')
		w.Flush()
	}
	sc := bufio.NewScanner(os.Stdin)
	sc.Buffer(make([]byte, 1<<20), 1<<28)
	for sc.Scan() {
		var c struct {
			I int `json:"i"`
			R row `json:"r"`
		}
		if err := json.Unmarshal(sc.Bytes(), &c); err != nil {
			fmt.Fprintf(os.Stderr, "bad case: %v\n", err)
			os.Exit(3)
		}
		emit(childRes{I: c.I, Status: "start"})
		startedAt.Store(time.Now().UnixNano())
		inFlight.Store(int64(c.I))
		var cr childRes
		switch mode {
		case "c03":
			cr = reencode(c.R)
		case "c02":
			cr = hostile(c.R)
		}
		inFlight.Store(-1)
		cr.I = c.I
		cr.Class = caseClass(mode, c.R)
		emit(cr)
	}
}

func newTargetFor(r row) any {
	if r.Name != "" {
		t, ok := registered()[r.Name]
		if !ok {
			panic("unknown registered type " + r.Name)
		}
		return reflect.New(t).Interface()
	}
	return target(r.Ty)
}

// ---------------------------------------------------------------- C03

// extObjShape looks for an ExtensionObject whose body was not decoded (Value == nil with a
// non-zero encoding byte) inside a decoded value: the shape behind the listed finding.
func extObjShape(x any, depth int) string {
	if depth > 6 {
		return ""
	}
	switch v := x.(type) {
	case *ua.ExtensionObject:
		if v != nil && v.Value == nil && v.EncodingMask != ua.ExtensionObjectEmpty {
			return "extension-object-body-not-decoded"
		}
	case *ua.Variant:
		if v != nil {
			rv := reflect.ValueOf(v.Value())
			if rv.IsValid() && rv.Kind() == reflect.Slice {
				for i := 0; i < rv.Len() && i < 8; i++ {
					if rv.Index(i).CanInterface() {
						if s := extObjShape(rv.Index(i).Interface(), depth+1); s != "" {
							return s
						}
					}
				}
				return ""
			}
			return extObjShape(v.Value(), depth+1)
		}
	case *ua.DataValue:
		if v != nil {
			return extObjShape(v.Value, depth+1)
		}
	default:
		rv := reflect.ValueOf(x)
		for rv.IsValid() && rv.Kind() == reflect.Ptr && !rv.IsNil() {
			rv = rv.Elem()
		}
		if rv.IsValid() && rv.Kind() == reflect.Struct {
			for i := 0; i < rv.NumField(); i++ {
				f := rv.Field(i)
				if !f.CanInterface() {
					continue
				}
				switch f.Kind() {
				case reflect.Ptr, reflect.Interface:
					if !f.IsNil() {
						if s := extObjShape(f.Interface(), depth+1); s != "" {
							return s
						}
					}
				case reflect.Slice:
					for j := 0; j < f.Len() && j < 8; j++ {
						if k := f.Index(j).Kind(); (k == reflect.Ptr || k == reflect.Interface) && !f.Index(j).IsNil() {
							if s := extObjShape(f.Index(j).Interface(), depth+1); s != "" {
								return s
							}
						}
					}
				}
			}
		}
	}
	return ""
}

func reencode(r row) childRes {
	b := caseBytes(r)
	ty := caseType(r)
	t1 := newTargetFor(r)
	var err error
	var n int
	if p, msg := vfgo.Recover(func() { n, err = ua.Decode(b, t1) }); p {
		// a panic while decoding is C02's business; here the stream simply did not decode
		return childRes{Status: "ok", Obs: "first decode panicked (C02): " + firstLine(msg)}
	}
	if err != nil {
		return childRes{Status: "ok", Obs: "does not decode: " + firstLine(err.Error())}
	}
	_ = n
	sk := func(sym string) string {
		if s := extObjShape(t1, 0); s != "" {
			return s + "-reencode-" + sym
		}
		return "reencode-" + sym + ":" + shapeKey("c03", r)
	}
	var enc []byte
	if p, msg := vfgo.Recover(func() { enc, err = ua.Encode(t1) }); p {
		return childRes{Status: "violation", Key: sk("panics"), Detail: fmt.Sprintf("%s decoded from %x; Encode of the result panicked: %s", ty, clip(b), msg)}
	}
	if err != nil {
		return childRes{Status: "violation", Key: sk("error"), Detail: fmt.Sprintf("%s decoded from %x; Encode of the result: %v", ty, clip(b), err)}
	}
	t2 := newTargetFor(r)
	var n2 int
	if p, msg := vfgo.Recover(func() { n2, err = ua.Decode(enc, t2) }); p {
		return childRes{Status: "violation", Key: sk("second-decode-panics"), Detail: fmt.Sprintf("%s: %x -> %x; second decode panicked: %s", ty, clip(b), clip(enc), msg)}
	}
	if err != nil {
		return childRes{Status: "violation", Key: sk("second-decode-error"), Detail: fmt.Sprintf("%s: %x re-encoded to %x which does not decode: %v", ty, clip(b), clip(enc), err)}
	}
	if n2 != len(enc) {
		return childRes{Status: "violation", Key: sk("second-decode-short"), Detail: fmt.Sprintf("%s: %x re-encoded to %x, second decode consumed %d of %d", ty, clip(b), clip(enc), n2, len(enc))}
	}
	c1, c2 := canon(t1), canon(t2)
	if c1 != c2 {
		return childRes{Status: "violation", Key: sk("changes-value"), Detail: fmt.Sprintf("%s: %x decodes to %s, re-encoded %x decodes to %s", ty, clip(b), trunc(c1), clip(enc), trunc(c2))}
	}
	return childRes{Status: "ok", Obs: fmt.Sprintf("%x -> %x", clip(b), clip(enc))}
}

// ---------------------------------------------------------------- C02

func hostileShape(r row, b []byte) string {
	return shapeKey("c02", r)
}

func hostile(r row) childRes {
	b := caseBytes(r)
	ty := caseType(r)
	tgt := newTargetFor(r)
	var ms0, ms1 runtime.MemStats
	var err error
	runtime.ReadMemStats(&ms0)
	t0 := time.Now()
	p, msg := vfgo.Recover(func() { _, err = ua.Decode(b, tgt) })
	el := time.Since(t0)
	runtime.ReadMemStats(&ms1)
	alloc := ms1.TotalAlloc - ms0.TotalAlloc
	if p {
		return childRes{Status: "violation", Key: "decode-panics:" + panicShape(msg) + ":" + hostileShape(r, b),
			Detail: fmt.Sprintf("ua.Decode(%x) into %s panicked: %s", clip(b), ty, msg)}
	}
	if bound := uint64(allocK*len(b) + allocC); alloc > bound {
		return childRes{Status: "violation", Key: "allocation-exceeds-bound:" + hostileShape(r, b),
			Detail: fmt.Sprintf("ua.Decode of %d bytes %x into %s allocated %d bytes > %d*len+%d (err=%v)", len(b), clip(b), ty, alloc, allocK, allocC, err)}
	}
	return childRes{Status: "ok", Obs: fmt.Sprintf("err=%v alloc=%d in %s", err != nil, alloc, el.Round(time.Microsecond))}
}

// panicShape classifies a panic message (part of the key: distinct crash sites are distinct findings).
func panicShape(msg string) string {
	switch {
	case strings.Contains(msg, "MakeSlice: negative len"):
		return "makeslice-negative-length"
	case strings.Contains(msg, "MakeSlice: len out of range") || strings.Contains(msg, "makeslice: len out of range"):
		return "makeslice-length-out-of-range"
	case strings.Contains(msg, "makeslice: cap out of range"):
		return "makeslice-cap-out-of-range"
	case strings.Contains(msg, "slice bounds out of range"):
		return "slice-bounds"
	case strings.Contains(msg, "index out of range"):
		return "index-out-of-range"
	case strings.Contains(msg, "nil pointer"):
		return "nil-pointer"
	case strings.Contains(msg, "divide by zero"):
		return "divide-by-zero"
	case strings.Contains(msg, "reflect"):
		return "reflect"
	}
	return "other"
}
