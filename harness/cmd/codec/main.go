// Command codec replays the rows emitted by spec/Codec on the real ua package.
//
//	value   rows (C01): concretise the abstract value, ua.Encode, compare the bytes with the
//	        specification's token sequence (binding), ua.Decode, compare with the
//	        specification's Norm(value) up to the documented normalisations, consumed = encoded.
//	struct  rows (C01): the same for every registered service / extension object type, value
//	        built by reflection from the TLC-computed recipe value.
//	stream  rows (C03): decode the (canonical or non-canonical) stream; if it decodes, encode the
//	        result and decode again: no error, no panic, equal value.
//	hostile rows (C02): decode the stream; no panic, no hang, allocation <= K*len + C.
//
// Stream and hostile rows run in a child process (panics are recovered and reported per case;
// fatal errors, hangs and memory exhaustion kill the child and are attributed to the case in flight).
package main

import (
	"bufio"
	"bytes"
	"encoding/hex"
	"encoding/json"
	"flag"
	"fmt"
	"os"
	"reflect"
	"regexp"
	"runtime"
	"runtime/debug"
	"strings"
	"sync/atomic"
	"syscall"
	"time"

	"github.com/gopcua/opcua/ua"

	"verifharness/vfgo"
)

type row struct {
	Kind    string `json:"kind"`
	V       *val   `json:"v,omitempty"`
	Toks    []tok  `json:"toks,omitempty"`
	Norm    *val   `json:"norm,omitempty"`
	Ty      string `json:"ty,omitempty"`
	Canon   bool   `json:"canon,omitempty"`
	OK      bool   `json:"ok,omitempty"`
	Val     *val   `json:"val,omitempty"`
	DevDrop bool   `json:"devdrop,omitempty"`
	Pos     int    `json:"pos,omitempty"`
	What    string `json:"what,omitempty"`
	// struct rows
	Name   string `json:"name,omitempty"`
	Recipe string `json:"recipe,omitempty"`
	// raw byte cases produced by the harness from TLC rows (mutations)
	Hex    string `json:"hex,omitempty"`
	Origin string `json:"origin,omitempty"`
	idx    int
}

const (
	allocK = 64
	allocC = 1 << 20
)

var (
	mode    = flag.String("mode", "c01", "c01 | c03 | c02 | schemas")
	perCase = flag.Duration("case-timeout", 5*time.Second, "watchdog per case in the child")
)

func main() {
	vfgo.Init()
	defer vfgo.Flush()
	if *vfgo.ChildFlag != "" {
		child(*vfgo.ChildFlag)
		return
	}
	switch *mode {
	case "schemas":
		dumpSchemas()
	case "c01":
		for _, r := range vfgo.Cases[row]() {
			switch r.Kind {
			case "value":
				doValue(r)
			case "struct":
				doStruct(r)
			default:
				vfgo.Fatalf("c01: bad row kind %q", r.Kind)
			}
		}
	case "c03", "c02":
		runInChildren(*mode, vfgo.Cases[row]())
	case "c03gen":
		genStreams("stream")
	case "c02gen":
		genStreams("hostile")
	case "c03derive":
		derive("stream", vfgo.Cases[row]())
	case "c02derive":
		derive("hostile", vfgo.Cases[row]())
	default:
		vfgo.Fatalf("bad mode %q", *mode)
	}
}

// ---------------------------------------------------------------- C01

func shapeOf(v *val) string {
	switch v.T {
	case "Variant":
		d := ""
		switch {
		case len(v.Dims) > 1 && hasZero(v.Dims):
			d = "-md0"
		case len(v.Dims) > 1:
			d = "-md"
		case v.K == "arr" && len(v.E) == 0:
			d = "-empty"
		}
		return "Variant/" + v.Vt + "/" + v.K + d
	case "NodeId":
		return "NodeId/" + v.Enc
	case "ExpandedNodeId":
		return fmt.Sprintf("ExpandedNodeId/%s/fl%d", v.Nid.Enc, v.Nid.Fl)
	case "ExtensionObject":
		return "ExtensionObject/" + v.Xk
	case "DataValue", "LocalizedText", "DiagnosticInfo":
		return fmt.Sprintf("%s/m%d", v.T, v.M)
	case "Struct":
		return "Struct/" + v.Name
	}
	if v.A != "" {
		return v.T + "/" + v.A
	}
	return v.T
}

func hasZero(d []int) bool {
	for _, x := range d {
		if x == 0 {
			return true
		}
	}
	return false
}

// knownShape names value shapes for which the specification carries a deviation flag.
func knownShape(v *val) string {
	if v.T == "Variant" && v.Vt == "ByteString" && v.K == "arr" && len(v.E) > 0 {
		return "variant-array-of-bytestring-not-encodable"
	}
	if v.T == "Variant" && len(v.Dims) > 1 && hasZero(v.Dims) {
		return "variant-multidim-zero-length-dimension-rejected-by-decoder"
	}
	return ""
}

func key(symptom string, v *val) string {
	if k := knownShape(v); k != "" {
		return k
	}
	s := shapeOf(v)
	// masks: the failing mask value is part of the detail, not of the key
	if i := strings.Index(s, "/m"); i > 0 && (v.T == "DataValue" || v.T == "LocalizedText" || v.T == "DiagnosticInfo") {
		s = s[:i]
	}
	if v.T != "Variant" && v.T != "NodeId" && v.T != "ExpandedNodeId" && v.T != "ExtensionObject" && v.T != "Struct" {
		s = v.T
	}
	return symptom + ":" + s
}

// roundTrip runs encode / decode / compare for one Go value. want is the Go value of the
// specification's Norm(v); wantBytes the specification's wire form (nil: no binding check).
func roundTrip(r row, v *val, orig, want any, wantBytes []byte, newTarget func() any) {
	roundTripCls(r, v, shapeOf(v), orig, want, wantBytes, newTarget)
}

func roundTripCls(r row, v *val, cls string, orig, want any, wantBytes []byte, newTarget func() any) {
	var enc []byte
	var err error
	if p, msg := vfgo.Recover(func() { enc, err = ua.Encode(orig) }); p {
		vfgo.Violation(r, cls, key("encode-panics", v), "ua.Encode panicked: "+msg)
		return
	}
	if err != nil {
		vfgo.Violation(r, cls, key("encode-error", v), "ua.Encode: "+err.Error())
		return
	}
	tgt := newTarget()
	var n int
	if p, msg := vfgo.Recover(func() { n, err = ua.Decode(enc, tgt) }); p {
		vfgo.Violation(r, cls, key("decode-panics", v), fmt.Sprintf("ua.Decode(%x) panicked: %s", enc, msg))
		return
	}
	bound := wantBytes == nil || bytes.Equal(enc, wantBytes)
	note := ""
	if !bound {
		note = fmt.Sprintf(" (encoding %x differs from the specification's %x)", enc, wantBytes)
	}
	if err != nil {
		vfgo.Violation(r, cls, key("decode-error", v), fmt.Sprintf("ua.Decode(%x): %v%s", enc, err, note))
		return
	}
	if n != len(enc) {
		vfgo.Violation(r, cls, key("consumed-differs", v), fmt.Sprintf("decode consumed %d of %d bytes %x%s", n, len(enc), enc, note))
		return
	}
	got := reflect.ValueOf(tgt).Elem().Interface()
	if reflect.TypeOf(orig).Kind() == reflect.Ptr && reflect.TypeOf(orig) == reflect.TypeOf(tgt) {
		got = tgt
	}
	cg, cw, co := canon(got), canon(want), canon(orig)
	if cg != cw || cg != co {
		vfgo.Violation(r, cls, key("value-differs", v), fmt.Sprintf("decoded %s, want %s (encoding %x)%s", trunc(cg), trunc(cw), enc, note))
		return
	}
	if !bound {
		// round trip holds but the bytes are not what the specification prescribes: the model
		// does not describe this code, nothing proved on it transfers
		vfgo.Inconclusive(r, "binding: "+cls+note)
		return
	}
	vfgo.OK(r, cls, hex.EncodeToString(enc))
}

func trunc(s string) string {
	if len(s) > 600 {
		return s[:600] + "…"
	}
	return s
}

func doValue(r row) {
	cls := shapeOf(r.V)
	var orig, want any
	if p, msg := vfgo.Recover(func() { orig = build(r.V); want = build(r.Norm) }); p {
		vfgo.Violation(r, cls, key("construct-fails", r.V), "building the value with the public constructors failed: "+msg)
		return
	}
	roundTrip(r, r.V, orig, want, tokBytes(r.Toks), func() any { return target(r.V.T) })
}

// ---------------------------------------------------------------- children (C03, C02)

type childRes struct {
	I      int    `json:"i"`
	Status string `json:"status"` // ok | violation | start
	Key    string `json:"key,omitempty"`
	Detail string `json:"detail,omitempty"`
	Class  string `json:"class,omitempty"`
	Obs    string `json:"obs,omitempty"`
}

func runInChildren(mode string, rows []row) {
	next := 0
	for next < len(rows) {
		end := next + 400
		if end > len(rows) {
			end = len(rows)
		}
		var in bytes.Buffer
		enc := json.NewEncoder(&in)
		for i := next; i < end; i++ {
			enc.Encode(struct {
				I int `json:"i"`
				R row `json:"r"`
			}{i, rows[i]})
		}
		out := vfgo.RunChild(mode, in.Bytes(), 180*time.Second, fmt.Sprintf("VF_CASE_TIMEOUT=%s", *perCase), "GOTRACEBACK=none")
		started, finished, decoded := -1, -1, -1
		sc := bufio.NewScanner(bytes.NewReader(out.Stdout))
		sc.Buffer(make([]byte, 1<<20), 1<<26)
		for sc.Scan() {
			var cr childRes
			if json.Unmarshal(sc.Bytes(), &cr) != nil {
				continue
			}
			switch cr.Status {
			case "start":
				started = cr.I
			case "decoded":
				decoded = cr.I
			case "ok":
				finished = cr.I
				vfgo.OK(rows[cr.I], cr.Class, cr.Obs)
			case "violation":
				finished = cr.I
				vfgo.Violation(rows[cr.I], cr.Class, cr.Key, cr.Detail)
			}
		}
		if finished == end-1 && out.Exit == 0 {
			next = end
			continue
		}
		if started > finished && started >= next {
			// the child died while working on case `started`
			r := rows[started]
			cls := caseClass(mode, r)
			switch {
			case mode == "c03" && decoded != started && (out.TimedOut || out.Panic || strings.Contains(out.Stderr, "VF-WATCHDOG")):
				// the first decode itself did not return: not a re-encoding question (C02 decides it)
				vfgo.OK(r, cls, "first decode did not return (C02): "+firstLine(out.Stderr))
			// which of time-out, memory watchdog, out-of-memory or stack-overflow fatal error fires first for an
			// input that makes the decoder consume unbounded resources depends on the machine: one key for all
			case out.TimedOut || strings.Contains(out.Stderr, "VF-WATCHDOG hang"):
				vfgo.Violation(r, cls, resKey(mode, r), fmt.Sprintf("no result within %s for %s", *perCase, describe(r)))
			case strings.Contains(out.Stderr, "VF-WATCHDOG memory") || strings.Contains(out.Stderr, "out of memory") || strings.Contains(out.Stderr, "cannot allocate"):
				vfgo.Violation(r, cls, resKey(mode, r), fmt.Sprintf("memory limit hit for %s: %s", describe(r), firstLine(out.Stderr)))
			case out.Panic:
				vfgo.Violation(r, cls, resKey(mode, r), fmt.Sprintf("fatal error for %s: %s", describe(r), vfgo.PanicHead(out.Stderr)))
			default:
				vfgo.Inconclusive(r, fmt.Sprintf("child died (exit %d signal %s) at %s: %s", out.Exit, out.Signal, describe(r), firstLine(out.Stderr)))
			}
			next = started + 1
			continue
		}
		// no progress information: machinery problem
		for i := max(next, finished+1); i < end; i++ {
			vfgo.Inconclusive(rows[i], fmt.Sprintf("child produced no result (exit %d signal %s timeout %v): %s", out.Exit, out.Signal, out.TimedOut, firstLine(out.Stderr)))
		}
		next = end
	}
}

func resKey(mode string, r row) string {
	if mode == "c02" {
		return "resource-exhaustion:" + shapeKey(mode, r)
	}
	return "reencode-resource-exhaustion:" + shapeKey(mode, r)
}

func firstLine(s string) string {
	s = strings.TrimSpace(s)
	if i := strings.IndexByte(s, '\n'); i > 0 {
		s = s[:i]
	}
	return trunc(s)
}

func describe(r row) string {
	b := caseBytes(r)
	return fmt.Sprintf("decode %s from %x", caseType(r), clip(b))
}

func clip(b []byte) []byte {
	if len(b) > 96 {
		return b[:96]
	}
	return b
}

func caseBytes(r row) []byte {
	if r.Hex != "" || r.Toks == nil {
		b, _ := hex.DecodeString(r.Hex)
		return b
	}
	return tokBytes(r.Toks)
}

func caseType(r row) string {
	if r.Name != "" {
		return r.Name
	}
	return r.Ty
}

func caseClass(mode string, r row) string {
	if r.Kind == "stream" {
		return fmt.Sprintf("stream/%s/canon=%v/decodes=%v", caseType(r), r.Canon, r.OK)
	}
	if r.Origin != "" {
		return fmt.Sprintf("%s/%s/%s", r.Kind, caseType(r), r.Origin)
	}
	return fmt.Sprintf("%s/%s/%s/pos%d/decodes=%v", r.Kind, caseType(r), r.What, r.Pos, r.OK)
}

// shapeKey is the part of a violation key that names the failing input shape: the decoded
// type (built-in name, or "struct" for the registered structures) and the varied field.
func shapeKey(mode string, r row) string {
	t := caseType(r)
	if r.Name != "" {
		t = "struct"
	} else if mode == "c02" {
		t = "builtin"
	}
	if r.What != "" {
		return t + "/" + r.What
	}
	if r.Origin != "" {
		o := r.Origin
		if strings.HasPrefix(o, "mask-flip") {
			o = "mask-flip"
		}
		return t + "/" + o
	}
	return t
}

var inFlight atomic.Int64
var emit func(cr childRes)
var tgtKeep any

func child(mode string) {
	// backstop: address space limit, and a watchdog for hangs / memory
	var lim syscall.Rlimit
	lim.Cur, lim.Max = 6<<30, 6<<30
	syscall.Setrlimit(syscall.RLIMIT_AS, &lim)
	debug.SetGCPercent(50)
	to := 10 * time.Second
	if d, err := time.ParseDuration(os.Getenv("VF_CASE_TIMEOUT")); err == nil {
		to = d
	}
	var startedAt atomic.Int64
	inFlight.Store(-1)
	go func() {
		var ms runtime.MemStats
		for {
			time.Sleep(50 * time.Millisecond)
			if i := inFlight.Load(); i >= 0 && time.Since(time.Unix(0, startedAt.Load())) > to {
				fmt.Fprintf(os.Stderr, "VF-WATCHDOG hang case=%d\n", i)
				os.Exit(7)
			}
			runtime.ReadMemStats(&ms)
			if ms.HeapAlloc > 3<<30 {
				runtime.GC() // garbage of earlier cases does not count
				runtime.ReadMemStats(&ms)
			}
			if ms.HeapAlloc > 3<<30 {
				fmt.Fprintf(os.Stderr, "VF-WATCHDOG memory case=%d heap=%d\n", inFlight.Load(), ms.HeapAlloc)
				os.Exit(8)
			}
		}
	}()
	w := bufio.NewWriter(os.Stdout)
	emit = func(cr childRes) {
		b, _ := json.Marshal(cr)
		w.Write(b)
		w.WriteByte('\n')
		w.Flush()
	}
	sc := bufio.NewScanner(os.Stdin)
	sc.Buffer(make([]byte, 1<<20), 1<<28)
	for sc.Scan() {
		var c struct {
			I int `json:"i"`
			R row `json:"r"`
		}
		if err := json.Unmarshal(sc.Bytes(), &c); err != nil {
			fmt.Fprintf(os.Stderr, "bad case: %v\n", err)
			os.Exit(3)
		}
		emit(childRes{I: c.I, Status: "start"})
		startedAt.Store(time.Now().UnixNano())
		inFlight.Store(int64(c.I))
		var cr childRes
		c.R.idx = c.I
		switch mode {
		case "c03":
			cr = reencode(c.R)
		case "c02":
			cr = hostile(c.R)
		}
		inFlight.Store(-1)
		var ms runtime.MemStats
		runtime.ReadMemStats(&ms)
		if ms.HeapAlloc > 256<<20 {
			tgtKeep = nil
			runtime.GC()
			debug.FreeOSMemory()
		}
		cr.I = c.I
		cr.Class = caseClass(mode, c.R)
		emit(cr)
	}
}

func newTargetFor(r row) any {
	if r.Name != "" {
		t, ok := registered()[r.Name]
		if !ok {
			panic("unknown registered type " + r.Name)
		}
		return reflect.New(t).Interface()
	}
	return target(r.Ty)
}

// ---------------------------------------------------------------- C03

// findShape walks a decoded value and names the first of the shapes for which the specification
// carries a deviation flag: an ExtensionObject whose body was not decoded (Value == nil with a
// non-zero encoding byte: unknown type id or zero-length body), a Variant array of ByteString
// (elements are not written by Variant.Encode), a Variant with the dimensions flag but without
// the array flag (Encode writes a dimension count that Decode never reads).
func findShape(x reflect.Value, depth int) string {
	if depth > 12 || !x.IsValid() {
		return ""
	}
	switch x.Kind() {
	case reflect.Interface:
		if x.IsNil() {
			return ""
		}
		return findShape(x.Elem(), depth+1)
	case reflect.Ptr:
		if x.IsNil() || !x.CanInterface() {
			return ""
		}
		switch v := x.Interface().(type) {
		case *ua.ExtensionObject:
			if v.Value == nil && v.EncodingMask != ua.ExtensionObjectEmpty {
				return "extension-object-body-not-decoded-reencode-panics"
			}
			return findShape(reflect.ValueOf(v.Value), depth+1)
		case *ua.Variant:
			if v.Type() == ua.TypeIDByteString && v.Has(ua.VariantArrayValues) && v.ArrayLength() > 0 {
				return "variant-array-of-bytestring-not-encodable"
			}
			if v.Type() != ua.TypeIDNull && v.Has(ua.VariantArrayDimensions) && !v.Has(ua.VariantArrayValues) {
				return "variant-dimensions-flag-without-array-flag-reencode-adds-bytes"
			}
			return findShape(reflect.ValueOf(v.Value()), depth+1)
		case *ua.NodeID:
			return ""
		}
		return findShape(x.Elem(), depth+1)
	case reflect.Struct:
		if x.Type() == tTime {
			return ""
		}
		for i := 0; i < x.NumField(); i++ {
			if x.Type().Field(i).PkgPath != "" {
				continue
			}
			if s := findShape(x.Field(i), depth+1); s != "" {
				return s
			}
		}
	case reflect.Slice:
		if x.Type().Elem().Kind() == reflect.Uint8 {
			return ""
		}
		for i := 0; i < x.Len() && i < 64; i++ {
			if s := findShape(x.Index(i), depth+1); s != "" {
				return s
			}
		}
	}
	return ""
}

var reTime = regexp.MustCompile(`T-?[0-9]+`)

func reencode(r row) childRes {
	b := caseBytes(r)
	ty := caseType(r)
	t1 := newTargetFor(r)
	var err error
	var n int
	if p, msg := vfgo.Recover(func() { n, err = ua.Decode(b, t1) }); p {
		// a panic while decoding is C02's business; here the stream simply did not decode
		return childRes{Status: "ok", Obs: "first decode panicked (C02): " + firstLine(msg)}
	}
	if err != nil {
		return childRes{Status: "ok", Obs: "does not decode: " + firstLine(err.Error())}
	}
	_ = n
	emit(childRes{I: r.idx, Status: "decoded"})
	sk := func(sym string) string {
		if s := findShape(reflect.ValueOf(t1), 0); s != "" {
			return s
		}
		return "reencode-" + sym + ":" + shapeKey("c03", r)
	}
	var enc []byte
	if p, msg := vfgo.Recover(func() { enc, err = ua.Encode(t1) }); p {
		return childRes{Status: "violation", Key: sk("panics"), Detail: fmt.Sprintf("%s decoded from %x; Encode of the result panicked: %s", ty, clip(b), msg)}
	}
	if err != nil {
		return childRes{Status: "violation", Key: sk("error"), Detail: fmt.Sprintf("%s decoded from %x; Encode of the result: %v", ty, clip(b), err)}
	}
	t2 := newTargetFor(r)
	var n2 int
	if p, msg := vfgo.Recover(func() { n2, err = ua.Decode(enc, t2) }); p {
		return childRes{Status: "violation", Key: sk("second-decode-panics"), Detail: fmt.Sprintf("%s: %x -> %x; second decode panicked: %s", ty, clip(b), clip(enc), msg)}
	}
	if err != nil {
		return childRes{Status: "violation", Key: sk("second-decode-error"), Detail: fmt.Sprintf("%s: %x re-encoded to %x which does not decode: %v", ty, clip(b), clip(enc), err)}
	}
	if n2 != len(enc) {
		return childRes{Status: "violation", Key: sk("second-decode-short"), Detail: fmt.Sprintf("%s: %x re-encoded to %x, second decode consumed %d of %d", ty, clip(b), clip(enc), n2, len(enc))}
	}
	c1, c2 := canon(t1), canon(t2)
	if c1 != c2 {
		if reTime.ReplaceAllString(c1, "T#") == reTime.ReplaceAllString(c2, "T#") {
			// only DateTime fields differ: a wire DateTime outside the int64-nanosecond range of time.Time
			return childRes{Status: "violation", Key: "datetime-outside-int64-nanosecond-range-changes-on-reencode",
				Detail: fmt.Sprintf("%s: %x decodes to %s, re-encoded %x decodes to %s", ty, clip(b), trunc(c1), clip(enc), trunc(c2))}
		}
		return childRes{Status: "violation", Key: sk("changes-value"), Detail: fmt.Sprintf("%s: %x decodes to %s, re-encoded %x decodes to %s", ty, clip(b), trunc(c1), clip(enc), trunc(c2))}
	}
	return childRes{Status: "ok", Obs: fmt.Sprintf("%x -> %x", clip(b), clip(enc))}
}

// ---------------------------------------------------------------- C02

func hostileShape(r row, b []byte) string {
	return shapeKey("c02", r)
}

func hostile(r row) childRes {
	b := caseBytes(r)
	ty := caseType(r)
	tgt := newTargetFor(r)
	var ms0, ms1 runtime.MemStats
	var err error
	runtime.ReadMemStats(&ms0)
	t0 := time.Now()
	p, msg := vfgo.Recover(func() { _, err = ua.Decode(b, tgt) })
	el := time.Since(t0)
	runtime.ReadMemStats(&ms1)
	alloc := ms1.TotalAlloc - ms0.TotalAlloc
	if p {
		return childRes{Status: "violation", Key: "decode-panics:" + panicShape(msg) + ":" + hostileShape(r, b),
			Detail: fmt.Sprintf("ua.Decode(%x) into %s panicked: %s", clip(b), ty, msg)}
	}
	if bound := uint64(allocK*len(b) + allocC); alloc > bound {
		return childRes{Status: "violation", Key: resKey("c02", r),
			Detail: fmt.Sprintf("ua.Decode of %d bytes %x into %s allocated %d bytes > %d*len+%d (err=%v)", len(b), clip(b), ty, alloc, allocK, allocC, err)}
	}
	return childRes{Status: "ok", Obs: fmt.Sprintf("err=%v alloc=%d in %s", err != nil, alloc, el.Round(time.Microsecond))}
}

// panicShape classifies a panic message (part of the key: distinct crash sites are distinct findings).
func panicShape(msg string) string {
	switch {
	case strings.Contains(msg, "MakeSlice: negative len"):
		return "makeslice-negative-length"
	case strings.Contains(msg, "MakeSlice: len out of range") || strings.Contains(msg, "makeslice: len out of range"):
		return "makeslice-length-out-of-range"
	case strings.Contains(msg, "makeslice: cap out of range"):
		return "makeslice-cap-out-of-range"
	case strings.Contains(msg, "slice bounds out of range"):
		return "slice-bounds"
	case strings.Contains(msg, "index out of range"):
		return "index-out-of-range"
	case strings.Contains(msg, "nil pointer"):
		return "nil-pointer"
	case strings.Contains(msg, "divide by zero"):
		return "divide-by-zero"
	case strings.Contains(msg, "reflect"):
		return "reflect"
	}
	return "other"
}

// ---------------------------------------------------------------- derived cases

// derive makes byte-level cases from TLC rows (value / struct rows with their token sequences):
// the positions the model marks as masks (u8 tokens with an integer payload) resp. as lengths,
// counts and dimensions (i32 tokens with an integer payload) are varied one at a time.
//
//	stream  (C03): the canonical encoding and non-canonical variants with one mask bit flipped
//	hostile (C02): one length replaced by a hostile value; truncations at token boundaries
func derive(kind string, rows []row) {
	flips := []int64{0x80, 0x40, 0x20, 0x10, 0x08, 0x04}
	hostiles := []int64{-2, -2147483648, 2147483647, 65535, 65536, 16777216}
	rnd := vfgo.Rand(77)
	emit := func(r row, ts []tok, origin string) {
		var b []byte
		if p, _ := vfgo.Recover(func() { b = tokBytes(ts) }); p {
			return
		}
		nr := row{Kind: kind, Hex: hex.EncodeToString(b), Origin: origin}
		if r.Kind == "struct" {
			nr.Name = r.Name
		} else {
			nr.Ty = r.V.T
		}
		if nr.Hex == "" {
			nr.Hex = "00"
			if len(b) == 0 {
				nr.Origin = origin + "-empty"
				nr.Hex = ""
				nr.Toks = []tok{}
			}
		}
		vfgo.Emit(vfgo.Result{Status: "ok", Class: "gen", Case: nr})
	}
	for _, r := range rows {
		if r.Kind != "value" && r.Kind != "struct" {
			continue
		}
		var masks, lens []int
		for i, t := range r.Toks {
			if t.A == "" && t.K == "u8" {
				masks = append(masks, i)
			}
			if t.A == "" && t.K == "i32" {
				lens = append(lens, i)
			}
		}
		pick := func(ps []int, n int) []int {
			if len(ps) <= n {
				return ps
			}
			rnd.Shuffle(len(ps), func(i, j int) { ps[i], ps[j] = ps[j], ps[i] })
			return ps[:n]
		}
		if kind == "stream" {
			emit(r, r.Toks, "canonical")
			for _, i := range pick(masks, *genN) {
				for _, f := range flips {
					ts := append([]tok{}, r.Toks...)
					ts[i].N ^= f
					emit(r, ts, fmt.Sprintf("mask-flip-%02x", f))
				}
			}
			continue
		}
		for _, i := range pick(masks, *genN) {
			for _, f := range flips {
				ts := append([]tok{}, r.Toks...)
				ts[i].N ^= f
				emit(r, ts, "mask-flip")
			}
		}
		for _, i := range pick(lens, *genN) {
			for _, h := range hostiles {
				ts := append([]tok{}, r.Toks...)
				ts[i].N = h
				emit(r, ts, "length-replaced")
			}
		}
		if len(r.Toks) > 1 {
			emit(r, r.Toks[:rnd.Intn(len(r.Toks))], "truncated")
		}
	}
}
