package main

// Concretisation of the "dimvec" tokens of spec/Codec: dimension vectors whose exact product is
// congruent to the array length modulo 2^64 or 2^32 (machine wrap-around) but far larger.
// The vector is computed from the class, deterministically: for j = 1, 2, ... the number
// length + j*M is factorised and its prime factors are packed into k factors <= 2^31-1.

import (
	"fmt"
	"math"
	"math/big"
	"sort"
)

var dimCache = map[string][]int32{}

func dimVector(length int64, cls string, k int) []int32 {
	if cls == "wrap64asc" || cls == "wrap32asc" {
		// the same vector, smallest dimension first
		d := append([]int32{}, dimVector(length, cls[:6], k)...)
		sort.Slice(d, func(i, j int) bool { return d[i] < d[j] })
		return d
	}
	id := fmt.Sprintf("%s/%d/%d", cls, k, length)
	if v, ok := dimCache[id]; ok {
		return v
	}
	v := make([]int32, k)
	for i := range v {
		v[i] = 1
	}
	switch cls {
	case "hugefirst":
		v[0] = math.MaxInt32
	case "hugelast":
		v[k-1] = math.MaxInt32
	case "wrap64", "wrap32":
		m := new(big.Int).Lsh(big.NewInt(1), 64)
		if cls == "wrap32" {
			m.Lsh(big.NewInt(1), 32)
		}
		t := new(big.Int).Mod(big.NewInt(length), m) // length -1 -> M-1
		found := false
		for j := 1; j < 200000 && !found; j++ {
			t.Add(t, m)
			if cls == "wrap32" && t.BitLen() > 62 {
				break
			}
			ps, ok := factorize(new(big.Int).Set(t))
			if !ok {
				continue
			}
			bins := make([]int64, k)
			for i := range bins {
				bins[i] = 1
			}
			nodes := 0
			if pack(ps, 0, bins, &nodes) {
				// at least three dimensions above 1 make the 64-bit product really wrap
				big1 := 0
				for _, b := range bins {
					if b > 1 {
						big1++
					}
				}
				if cls == "wrap64" && big1 < 3 {
					continue
				}
				sort.Slice(bins, func(i, j int) bool { return bins[i] > bins[j] })
				for i, b := range bins {
					v[i] = int32(b)
				}
				found = true
			}
		}
		if !found {
			panic("no dimension vector for " + id)
		}
	default:
		panic("bad dimension class " + cls)
	}
	dimCache[id] = v
	return v
}

// pack distributes the prime factors (descending) over the bins, each product <= MaxInt32.
func pack(ps []int64, i int, bins []int64, nodes *int) bool {
	if i == len(ps) {
		return true
	}
	*nodes++
	if *nodes > 200000 {
		return false
	}
	seen := map[int64]bool{}
	for b := range bins {
		if seen[bins[b]] {
			continue
		}
		seen[bins[b]] = true
		if bins[b]*ps[i] <= math.MaxInt32 {
			bins[b] *= ps[i]
			if pack(ps, i+1, bins, nodes) {
				return true
			}
			bins[b] /= ps[i]
		}
	}
	return false
}

// factorize returns the prime factors (descending) if all of them are below 2^31.
func factorize(n *big.Int) ([]int64, bool) {
	var ps []int64
	one := big.NewInt(1)
	for _, p := range smallPrimes() {
		bp := big.NewInt(p)
		q, r := new(big.Int), new(big.Int)
		for {
			q.QuoRem(n, bp, r)
			if r.Sign() != 0 {
				break
			}
			ps = append(ps, p)
			n.Set(q)
		}
	}
	var rec func(n *big.Int) bool
	rec = func(n *big.Int) bool {
		if n.Cmp(one) == 0 {
			return true
		}
		if n.ProbablyPrime(20) {
			if n.BitLen() > 31 || n.Int64() > math.MaxInt32 {
				return false
			}
			ps = append(ps, n.Int64())
			return true
		}
		d := rho(n)
		if d == nil {
			return false
		}
		return rec(d) && rec(new(big.Int).Quo(n, d))
	}
	if !rec(n) {
		return nil, false
	}
	sort.Slice(ps, func(i, j int) bool { return ps[i] > ps[j] })
	return ps, true
}

var primesCache []int64

func smallPrimes() []int64 {
	if primesCache == nil {
		const lim = 1 << 14
		sieve := make([]bool, lim)
		for i := 2; i < lim; i++ {
			if !sieve[i] {
				primesCache = append(primesCache, int64(i))
				for j := i * i; j < lim; j += i {
					sieve[j] = true
				}
			}
		}
	}
	return primesCache
}

// rho is Pollard's rho with fixed constants (deterministic).
func rho(n *big.Int) *big.Int {
	for c := int64(1); c < 50; c++ {
		x, y, d := big.NewInt(2), big.NewInt(2), big.NewInt(1)
		bc := big.NewInt(c)
		f := func(z *big.Int) { z.Mul(z, z).Add(z, bc).Mod(z, n) }
		for it := 0; it < 1<<18 && d.Cmp(big.NewInt(1)) == 0; it++ {
			f(x)
			f(y)
			f(y)
			d.GCD(nil, nil, new(big.Int).Abs(new(big.Int).Sub(x, y)), n)
		}
		if d.Cmp(big.NewInt(1)) != 0 && d.Cmp(n) != 0 {
			return d
		}
	}
	return nil
}
