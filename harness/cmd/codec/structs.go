package main

func dumpSchemas() {}
func doStruct(r row) {}
