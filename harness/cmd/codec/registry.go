package main

// Discovery of the registered service and extension object types without hooks: the
// registries are probed through the public decoders with every four-byte type id.

import (
	"encoding/binary"
	"reflect"
	"sync"

	"github.com/gopcua/opcua/ua"
)

type regType struct {
	Name string
	ID   uint16
	Svc  bool // registered as service (else extension object)
	T    reflect.Type
}

var (
	regOnce sync.Once
	regList []regType
	regMap  map[string]reflect.Type
)

func probe() {
	regMap = map[string]reflect.Type{}
	for id := 0; id < 65536; id++ {
		tid := []byte{0x01, 0x00, 0, 0}
		binary.LittleEndian.PutUint16(tid[2:], uint16(id))
		// services: anything but BadServiceUnsupported means "registered"
		if _, v, err := ua.DecodeService(tid); v != nil || (err != nil && err != ua.StatusBadServiceUnsupported) {
			if v != nil {
				t := reflect.TypeOf(v).Elem()
				regList = append(regList, regType{Name: t.Name(), ID: uint16(id), Svc: true, T: t})
				regMap[t.Name()] = t
			}
		}
		// extension objects: binary body of one byte; Value is created before the body is decoded
		eo := new(ua.ExtensionObject)
		func() {
			defer func() { recover() }()
			eo.Decode(append(append([]byte{}, tid...), 0x01, 0x01, 0x00, 0x00, 0x00, 0x00))
		}()
		if vt := reflect.TypeOf(eo.Value); eo.Value != nil && vt.Kind() == reflect.Ptr && vt.Elem().Kind() == reflect.Struct {
			t := vt.Elem()
			if _, dup := regMap[t.Name()]; !dup {
				regList = append(regList, regType{Name: t.Name(), ID: uint16(id), T: t})
				regMap[t.Name()] = t
			}
		}
	}
}

func registered() map[string]reflect.Type {
	regOnce.Do(probe)
	return regMap
}

func registeredList() []regType {
	regOnce.Do(probe)
	return regList
}
