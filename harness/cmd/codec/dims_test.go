package main

import (
	"math/big"
	"testing"
)

func TestDimVectors(t *testing.T) {
	for _, cls := range []string{"wrap64", "wrap32", "hugefirst", "hugelast"} {
		for _, k := range []int{3, 4} {
			for _, n := range []int64{-1, 0, 2, 4} {
				v := dimVector(n, cls, k)
				p := big.NewInt(1)
				for _, d := range v {
					if d < 1 {
						t.Fatalf("%s %d %d: %v", cls, k, n, v)
					}
					p.Mul(p, big.NewInt(int64(d)))
				}
				m := new(big.Int).Lsh(big.NewInt(1), 64)
				if cls == "wrap32" {
					m.Lsh(big.NewInt(1), 32)
				}
				r := new(big.Int).Mod(new(big.Int).Sub(p, big.NewInt(n)), m)
				t.Logf("%s k=%d n=%d: %v product=%s residue-ok=%v", cls, k, n, v, p, r.Sign() == 0)
				if (cls == "wrap64" || cls == "wrap32") && (r.Sign() != 0 || p.Cmp(big.NewInt(65535)) <= 0) {
					t.Fatalf("bad vector")
				}
			}
		}
	}
}
