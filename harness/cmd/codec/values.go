package main

// Concretisation of the abstract values and tokens of spec/Codec, and the canonical
// dump used to compare Go values up to the documented normalisations.

import (
	"bytes"
	"encoding/binary"
	"encoding/hex"
	"fmt"
	"math"
	"reflect"
	"sort"
	"strconv"
	"strings"
	"time"

	"github.com/gopcua/opcua/ua"
)

// ---- abstract values (JSON of the TLA+ records) ----

type val struct {
	T string `json:"t"`
	A string `json:"a,omitempty"`
	// NodeId
	Enc string `json:"enc,omitempty"`
	NS  string `json:"ns,omitempty"`
	ID  string `json:"id,omitempty"`
	Fl  int    `json:"fl,omitempty"`
	// ExpandedNodeId
	Nid *val   `json:"nid,omitempty"`
	URI string `json:"uri,omitempty"`
	Svr string `json:"svr,omitempty"`
	// QualifiedName
	Name string `json:"name,omitempty"`
	// masks
	M   int    `json:"m,omitempty"`
	Loc string `json:"loc,omitempty"`
	Txt string `json:"txt,omitempty"`
	// ExtensionObject
	Xk   string `json:"xk,omitempty"`
	Tid  *val   `json:"tid,omitempty"`
	Body string `json:"body,omitempty"`
	// DataValue
	Val *val   `json:"val,omitempty"`
	St  string `json:"st,omitempty"`
	Sts string `json:"sts,omitempty"`
	Sps string `json:"sps,omitempty"`
	Vts string `json:"vts,omitempty"`
	Vps string `json:"vps,omitempty"`
	// DiagnosticInfo
	Sym   string `json:"sym,omitempty"`
	Nsu   string `json:"nsu,omitempty"`
	Lc    string `json:"lc,omitempty"`
	Ltx   string `json:"ltx,omitempty"`
	Add   string `json:"add,omitempty"`
	Ist   string `json:"ist,omitempty"`
	Inner []*val `json:"inner,omitempty"`
	// Variant
	Vt   string `json:"vt,omitempty"`
	K    string `json:"k,omitempty"`
	E    []*val `json:"e,omitempty"`
	F    []*val `json:"f,omitempty"`
	Et   string `json:"et,omitempty"`
	Dims []int  `json:"dims,omitempty"`
}

type tok struct {
	K string `json:"k"`
	N int64  `json:"n"`
	A string `json:"a"`
}

var (
	t0   = time.Date(2020, 1, 2, 3, 4, 5, 123456700, time.UTC)
	tmin = time.Unix(0, math.MinInt64+8).UTC() // aligned to 100 ns
	tmax = time.Unix(0, math.MaxInt64-7).UTC()
	raws = map[string][]byte{"a": []byte("a"), "utf8": []byte("€"), "x": {0x00, 0xff}, "xml": []byte("<a/>"), "uri": []byte("urn:x"), "tok": {0x7f}}
)

func timeAtom(a string) time.Time {
	switch a {
	case "zero":
		return time.Time{}
	case "t0":
		return t0
	case "t0sub":
		return t0.Add(50 * time.Nanosecond)
	case "tmin":
		return tmin
	case "tmax":
		return tmax
	}
	panic("bad time atom " + a)
}

func guidAtom(a string) *ua.GUID {
	switch a {
	case "g0":
		return ua.NewGUID("00000000-0000-0000-0000-000000000000")
	case "g1":
		return ua.NewGUID("72962B91-FA75-4AE6-8D28-B404DC7DAF63")
	}
	panic("bad guid atom " + a)
}

func f64Atom(a string) float64 {
	switch a {
	case "0":
		return 0
	case "1.5":
		return 1.5
	case "nan":
		return math.NaN()
	case "nan2":
		return math.Float64frombits(0x7ff8000000000123)
	case "inf":
		return math.Inf(1)
	case "negzero":
		return math.Copysign(0, -1)
	}
	panic("bad float atom " + a)
}

func f32Atom(a string) float32 {
	if a == "nan2" {
		return math.Float32frombits(0x7fc00123)
	}
	return float32(f64Atom(a))
}

func strAtom(a string) string {
	if a == "null" || a == "empty" || a == "" {
		return ""
	}
	return string(raws[a])
}

func bytesAtom(a string) []byte {
	switch a {
	case "null", "":
		return nil
	case "empty":
		return []byte{}
	}
	return append([]byte{}, raws[a]...)
}

func i64(a string) int64 {
	v, err := strconv.ParseInt(a, 10, 64)
	if err != nil {
		panic("bad int atom " + a)
	}
	return v
}

func u64(a string) uint64 {
	v, err := strconv.ParseUint(a, 10, 64)
	if err != nil {
		panic("bad uint atom " + a)
	}
	return v
}

// tokBytes serialises a token sequence (the wire form the specification prescribes).
func tokBytes(ts []tok) []byte {
	var b bytes.Buffer
	le := binary.LittleEndian
	put := func(n int, v uint64) {
		var d [8]byte
		le.PutUint64(d[:], v)
		b.Write(d[:n])
	}
	for _, t := range ts {
		num := func() uint64 {
			if t.A == "" {
				return uint64(t.N)
			}
			if strings.HasPrefix(t.A, "-") {
				return uint64(i64(t.A))
			}
			return u64(t.A)
		}
		switch t.K {
		case "u8", "i8":
			put(1, num())
		case "u16", "i16":
			put(2, num())
		case "u32", "i32":
			put(4, num())
		case "u64", "i64":
			put(8, num())
		case "f32":
			switch t.A {
			case "nan":
				put(4, 0xffc00000)
			default:
				put(4, uint64(math.Float32bits(f32Atom(t.A))))
			}
		case "f64":
			switch t.A {
			case "nan":
				put(8, 0xfff8000000000000)
			default:
				put(8, math.Float64bits(f64Atom(t.A)))
			}
		case "time":
			tm := timeAtom(t.A)
			if tm.IsZero() {
				put(8, 0)
			} else {
				// 100 ns ticks since 1601-01-01 (Part 6, 5.2.2.5)
				put(8, uint64(tm.UnixNano()/100+116444736000000000))
			}
		case "guid":
			g := guidAtom(t.A)
			put(4, uint64(g.Data1))
			put(2, uint64(g.Data2))
			put(2, uint64(g.Data3))
			b.Write(g.Data4)
		case "raw":
			b.Write(raws[t.A])
		case "dimvec3", "dimvec4":
			// dimension count and a vector of the class named by the token (see dims.go)
			k := int(t.K[6] - '0')
			put(4, uint64(k))
			for _, d := range dimVector(t.N, t.A, k) {
				put(4, uint64(uint32(d)))
			}
		case "rep":
			// n copies of the bytes given in hex (nesting prefixes)
			unit, err := hex.DecodeString(t.A)
			if err != nil {
				panic("bad rep token " + t.A)
			}
			b.Write(bytes.Repeat(unit, int(t.N)))
		default:
			panic("bad token kind " + t.K)
		}
	}
	return b.Bytes()
}

// ---- building Go values ----

var goTypes = map[string]reflect.Type{
	"Boolean": reflect.TypeOf(false), "SByte": reflect.TypeOf(int8(0)), "Byte": reflect.TypeOf(uint8(0)),
	"Int16": reflect.TypeOf(int16(0)), "UInt16": reflect.TypeOf(uint16(0)), "Int32": reflect.TypeOf(int32(0)),
	"UInt32": reflect.TypeOf(uint32(0)), "Int64": reflect.TypeOf(int64(0)), "UInt64": reflect.TypeOf(uint64(0)),
	"Float": reflect.TypeOf(float32(0)), "Double": reflect.TypeOf(float64(0)), "String": reflect.TypeOf(""),
	"DateTime": reflect.TypeOf(time.Time{}), "Guid": reflect.TypeOf(&ua.GUID{}), "ByteString": reflect.TypeOf([]byte{}),
	"XmlElement": reflect.TypeOf(ua.XMLElement("")), "NodeId": reflect.TypeOf(&ua.NodeID{}),
	"ExpandedNodeId": reflect.TypeOf(&ua.ExpandedNodeID{}), "StatusCode": reflect.TypeOf(ua.StatusCode(0)),
	"QualifiedName": reflect.TypeOf(&ua.QualifiedName{}), "LocalizedText": reflect.TypeOf(&ua.LocalizedText{}),
	"ExtensionObject": reflect.TypeOf(&ua.ExtensionObject{}), "DataValue": reflect.TypeOf(&ua.DataValue{}),
	"Variant": reflect.TypeOf(&ua.Variant{}), "DiagnosticInfo": reflect.TypeOf(&ua.DiagnosticInfo{}),
}

func buildNodeID(v *val) *ua.NodeID {
	ns := uint16(u64(v.NS))
	var n *ua.NodeID
	switch v.Enc {
	case "two":
		n = ua.NewTwoByteNodeID(uint8(u64(v.ID)))
	case "four":
		n = ua.NewFourByteNodeID(uint8(ns), uint16(u64(v.ID)))
	case "num":
		n = ua.NewNumericNodeID(ns, uint32(u64(v.ID)))
	case "str":
		n = ua.NewStringNodeID(ns, strAtom(v.ID))
	case "guid":
		n = ua.NewGUIDNodeID(ns, guidAtom(v.ID).String())
	case "bytes":
		n = ua.NewByteStringNodeID(ns, bytesAtom(v.ID))
	default:
		panic("bad node id encoding " + v.Enc)
	}
	return n
}

// build returns the Go value for an abstract value (pointer for the struct types).
func build(v *val) any {
	switch v.T {
	case "Boolean":
		return v.A == "T"
	case "SByte":
		return int8(i64(v.A))
	case "Byte":
		return uint8(u64(v.A))
	case "Int16":
		return int16(i64(v.A))
	case "UInt16":
		return uint16(u64(v.A))
	case "Int32":
		return int32(i64(v.A))
	case "UInt32":
		return uint32(u64(v.A))
	case "Int64":
		return i64(v.A)
	case "UInt64":
		return u64(v.A)
	case "Float":
		return f32Atom(v.A)
	case "Double":
		return f64Atom(v.A)
	case "String":
		return strAtom(v.A)
	case "DateTime":
		return timeAtom(v.A)
	case "Guid":
		return guidAtom(v.A)
	case "ByteString":
		return bytesAtom(v.A)
	case "XmlElement":
		return ua.XMLElement(strAtom(v.A))
	case "StatusCode":
		return ua.StatusCode(u64(v.A))
	case "NodeId":
		return buildNodeID(v)
	case "ExpandedNodeId":
		return ua.NewExpandedNodeID(buildNodeID(v.Nid), strAtom(v.URI), uint32(u64(v.Svr)))
	case "QualifiedName":
		return &ua.QualifiedName{NamespaceIndex: uint16(u64(v.NS)), Name: strAtom(v.Name)}
	case "LocalizedText":
		return &ua.LocalizedText{EncodingMask: uint8(v.M), Locale: strAtom(v.Loc), Text: strAtom(v.Txt)}
	case "ExtensionObject":
		switch v.Xk {
		case "empty":
			return &ua.ExtensionObject{TypeID: build(v.Tid).(*ua.ExpandedNodeID), EncodingMask: ua.ExtensionObjectEmpty}
		case "bin":
			return ua.NewExtensionObject(&ua.AnonymousIdentityToken{PolicyID: strAtom(v.Body)})
		case "xml":
			x := ua.XMLElement(strAtom(v.Body))
			return &ua.ExtensionObject{TypeID: build(v.Tid).(*ua.ExpandedNodeID), EncodingMask: ua.ExtensionObjectXML, Value: &x}
		}
		panic("extension object kind " + v.Xk + " cannot be built as a value")
	case "DataValue":
		d := &ua.DataValue{EncodingMask: byte(v.M), Status: ua.StatusCode(u64(v.St)),
			SourceTimestamp: timeAtom(v.Sts), SourcePicoseconds: uint16(u64(v.Sps)),
			ServerTimestamp: timeAtom(v.Vts), ServerPicoseconds: uint16(u64(v.Vps))}
		if v.M&1 != 0 {
			d.Value = build(v.Val).(*ua.Variant)
		}
		return d
	case "DiagnosticInfo":
		d := &ua.DiagnosticInfo{EncodingMask: uint8(v.M), SymbolicID: int32(i64(v.Sym)), NamespaceURI: int32(i64(v.Nsu)),
			Locale: int32(i64(v.Lc)), LocalizedText: int32(i64(v.Ltx)), AdditionalInfo: strAtom(v.Add),
			InnerStatusCode: ua.StatusCode(u64(v.Ist))}
		if len(v.Inner) > 0 {
			d.InnerDiagnosticInfo = build(v.Inner[0]).(*ua.DiagnosticInfo)
		}
		return d
	case "Variant":
		return buildVariant(v)
	}
	panic("cannot build " + v.T)
}

// buildVariant goes through the public constructor ua.NewVariant with a typed (nested) slice.
func buildVariant(v *val) *ua.Variant {
	if v.Vt == "Null" {
		return ua.MustVariant(nil)
	}
	et := goTypes[v.Vt]
	if v.K == "scalar" {
		return ua.MustVariant(build(v.E[0]))
	}
	st := reflect.SliceOf(et)
	if v.Vt == "Byte" {
		st = reflect.TypeOf(ua.ByteArray{})
	}
	if v.K == "nullarr" {
		return ua.MustVariant(reflect.Zero(st).Interface())
	}
	flat := reflect.MakeSlice(st, len(v.E), len(v.E))
	for i, e := range v.E {
		flat.Index(i).Set(reflect.ValueOf(build(e)))
	}
	if len(v.Dims) < 2 {
		return ua.MustVariant(flat.Interface())
	}
	return ua.MustVariant(nest(flat, st, v.Dims).Interface())
}

// nest reshapes a flat slice into nested slices with the given dimensions.
func nest(flat reflect.Value, st reflect.Type, dims []int) reflect.Value {
	if len(dims) == 1 {
		return flat
	}
	inner := st
	for i := 0; i < len(dims)-2; i++ {
		inner = reflect.SliceOf(inner)
	}
	outer := reflect.MakeSlice(reflect.SliceOf(inner), dims[0], dims[0])
	step := 0
	if dims[0] > 0 {
		step = flat.Len() / dims[0]
	}
	for i := 0; i < dims[0]; i++ {
		outer.Index(i).Set(nest(flat.Slice(i*step, (i+1)*step), st, dims[1:]))
	}
	return outer
}

// target returns a pointer to decode a value of the abstract type into.
func target(t string) any {
	gt, ok := goTypes[t]
	if !ok {
		panic("no Go type for " + t)
	}
	if gt.Kind() == reflect.Ptr {
		return reflect.New(gt.Elem()).Interface()
	}
	return reflect.New(gt).Interface()
}

// ---- canonical dump: equality up to the documented normalisations ----
// nil and empty slices/strings are the same, NaNs are the same, times are compared at 100 ns,
// a nil *Variant is the Null variant (an absent value), map-free.

var (
	tTime    = reflect.TypeOf(time.Time{})
	tVariant = reflect.TypeOf(&ua.Variant{})
	tNodeID  = reflect.TypeOf(&ua.NodeID{})
)

func canon(x any) string {
	var b strings.Builder
	dump(&b, reflect.ValueOf(x), 0)
	return b.String()
}

func dump(b *strings.Builder, v reflect.Value, depth int) {
	if depth > 200 {
		b.WriteString("<deep>")
		return
	}
	if !v.IsValid() {
		b.WriteString("nil")
		return
	}
	switch v.Type() {
	case tTime:
		tm := v.Interface().(time.Time)
		if tm.IsZero() {
			b.WriteString("T0")
		} else {
			ns := tm.UnixNano()
			q := ns / 100
			if ns%100 < 0 {
				q-- // floor
			}
			fmt.Fprintf(b, "T%d", q)
		}
		return
	case tVariant:
		if v.IsNil() {
			b.WriteString("V{Null}")
			return
		}
		va := v.Interface().(*ua.Variant)
		if va.Type() == ua.TypeIDNull {
			b.WriteString("V{Null}")
			return
		}
		fmt.Fprintf(b, "V{%d arr=%v dims=%v ", va.Type(), va.Has(ua.VariantArrayValues), va.ArrayDimensions())
		dump(b, reflect.ValueOf(va.Value()), depth+1)
		b.WriteString("}")
		return
	case tNodeID:
		if v.IsNil() {
			b.WriteString("N{nil}")
			return
		}
		n := v.Interface().(*ua.NodeID)
		fmt.Fprintf(b, "N{%d fl=%x ns=%d i=%d s=%q}", n.Type(), byte(n.EncodingMask())&0xc0, n.Namespace(), n.IntID(), n.StringID())
		return
	}
	switch v.Kind() {
	case reflect.Bool:
		fmt.Fprintf(b, "%v", v.Bool())
	case reflect.Int, reflect.Int8, reflect.Int16, reflect.Int32, reflect.Int64:
		fmt.Fprintf(b, "%d", v.Int())
	case reflect.Uint, reflect.Uint8, reflect.Uint16, reflect.Uint32, reflect.Uint64:
		fmt.Fprintf(b, "%d", v.Uint())
	case reflect.Float32:
		f := v.Float()
		if math.IsNaN(f) {
			b.WriteString("NaN")
		} else {
			fmt.Fprintf(b, "f%08x", math.Float32bits(float32(f)))
		}
	case reflect.Float64:
		f := v.Float()
		if math.IsNaN(f) {
			b.WriteString("NaN")
		} else {
			fmt.Fprintf(b, "d%016x", math.Float64bits(f))
		}
	case reflect.String:
		fmt.Fprintf(b, "%q", v.String())
	case reflect.Slice, reflect.Array:
		if v.Type().Elem().Kind() == reflect.Uint8 {
			b.WriteString("x")
			for i := 0; i < v.Len(); i++ {
				fmt.Fprintf(b, "%02x", v.Index(i).Uint())
			}
			return
		}
		b.WriteString("[")
		for i := 0; i < v.Len(); i++ {
			if i > 0 {
				b.WriteString(",")
			}
			dump(b, v.Index(i), depth+1)
		}
		b.WriteString("]")
	case reflect.Ptr, reflect.Interface:
		if v.IsNil() {
			b.WriteString("nil")
			return
		}
		dump(b, v.Elem(), depth+1)
	case reflect.Struct:
		b.WriteString(v.Type().Name() + "{")
		for i := 0; i < v.NumField(); i++ {
			if v.Type().Field(i).PkgPath != "" {
				continue
			}
			if i > 0 {
				b.WriteString(" ")
			}
			b.WriteString(v.Type().Field(i).Name + ":")
			dump(b, v.Field(i), depth+1)
		}
		b.WriteString("}")
	default:
		fmt.Fprintf(b, "<%s>", v.Kind())
	}
}

func sortedKeys(m map[string]int) []string {
	ks := make([]string, 0, len(m))
	for k := range m {
		ks = append(ks, k)
	}
	sort.Strings(ks)
	return ks
}
