// Command nodeid replays the rows emitted by spec/NodeIdText (C04) on the real ua package.
//
//	node  rows: build the NodeID with the public constructor, compare String() with the
//	            model's Format (binding), ParseNodeID(String()) with the model's Canon, run the
//	            type registry keyed by the text form, and a.Equal(b) against Canon equality for
//	            all pairs inside windows of rows sorted by text (look-alikes are neighbours).
//	pair  rows: a.Equal(b) and TypeRegistry.New against the model's SameNode.
//	xnode rows: ParseExpandedNodeID("nsu=<uri>;<id>", table) against the model's resolution.
package main

import (
	"bytes"
	"encoding/base64"
	"fmt"
	"sort"
	"strconv"
	"strings"

	"github.com/gopcua/opcua/ua"

	"verifharness/vfgo"
)

type node struct {
	K  string   `json:"k"`
	NS int      `json:"ns"`
	ID []string `json:"id"`
}

type parsed struct {
	OK bool     `json:"ok"`
	NS int      `json:"ns"`
	K  string   `json:"k"`
	ID []string `json:"id"`
}

type row struct {
	T       string   `json:"t"`
	N       *node    `json:"n,omitempty"`
	A       *node    `json:"a,omitempty"`
	B       *node    `json:"b,omitempty"`
	Text    []string `json:"text,omitempty"`
	Canon   *parsed  `json:"canon,omitempty"`
	Same    bool     `json:"same,omitempty"`
	Tab     []string `json:"tab,omitempty"`
	Expect  *parsed  `json:"expect,omitempty"`
	DevFail bool     `json:"devfail,omitempty"`
}

var (
	blobs [][]byte
	guids []string
	uris  = []string{"http://opcfoundation.org/UA/", "urn:x:y", "ns=1", "i=5"}
)

func setup() {
	r := vfgo.Rand(4)
	rnd := make([]byte, 16)
	r.Read(rnd)
	blobs = [][]byte{{}, {0xff}, []byte("a;b"), []byte("ns=1;i=1"), rnd, {0x00}, {0xfb, 0xff, 0xbf}, []byte("s=x")}
	g := make([]byte, 16)
	r.Read(g)
	guids = []string{
		"AAAAAAAA-0000-0000-0000-000000000001",
		strings.ToUpper(fmt.Sprintf("%x-%x-%x-%x-%x", g[0:4], g[4:6], g[6:8], g[8:10], g[10:16])),
		"FFFFFFFF-FFFF-FFFF-FFFF-FFFFFFFFFFFF",
		"00000000-0000-0000-0000-000000000000",
	}
}

// chars concretises a model character sequence: "~" is the byte 0xFF.
func chars(cs []string) string {
	var b bytes.Buffer
	for _, c := range cs {
		if c == "~" {
			b.WriteByte(0xff)
		} else {
			b.WriteString(c)
		}
	}
	return b.String()
}

func blobIndex(tok string) int {
	i, err := strconv.Atoi(tok[1:])
	if err != nil {
		vfgo.Fatalf("bad blob token %q", tok)
	}
	return i
}

// text concretises a model text (characters and blob tokens).
func text(ts []string) string {
	var b bytes.Buffer
	for _, t := range ts {
		switch {
		case t == "~":
			b.WriteByte(0xff)
		case len(t) >= 2 && t[0] == 'B':
			b.WriteString(base64.StdEncoding.EncodeToString(blobs[blobIndex(t)]))
		case len(t) >= 2 && t[0] == 'G':
			b.WriteString(guids[blobIndex(t)])
		case len(t) >= 2 && t[0] == 'U':
			b.WriteString(uris[blobIndex(t)])
		default:
			b.WriteString(t)
		}
	}
	return b.String()
}

func num(ds []string) uint64 {
	v, err := strconv.ParseUint(strings.Join(ds, ""), 10, 64)
	if err != nil {
		vfgo.Fatalf("bad number %v", ds)
	}
	return v
}

func build(n *node) *ua.NodeID {
	switch n.K {
	case "two":
		return ua.NewTwoByteNodeID(uint8(num(n.ID)))
	case "four":
		return ua.NewFourByteNodeID(uint8(n.NS), uint16(num(n.ID)))
	case "num":
		return ua.NewNumericNodeID(uint16(n.NS), uint32(num(n.ID)))
	case "str":
		return ua.NewStringNodeID(uint16(n.NS), chars(n.ID))
	case "guid":
		return ua.NewGUIDNodeID(uint16(n.NS), guids[blobIndex(n.ID[0])])
	case "bytes":
		return ua.NewByteStringNodeID(uint16(n.NS), blobs[blobIndex(n.ID[0])])
	}
	vfgo.Fatalf("bad node kind %q", n.K)
	return nil
}

func class(k string) string {
	if k == "two" || k == "four" || k == "num" {
		return "num"
	}
	return k
}

// matches compares a parsed NodeID field by field (public accessors) with a model Canon.
func matches(got *ua.NodeID, want *parsed) string {
	if int(got.Namespace()) != want.NS {
		return fmt.Sprintf("namespace %d, want %d", got.Namespace(), want.NS)
	}
	var k string
	switch got.Type() {
	case ua.NodeIDTypeTwoByte, ua.NodeIDTypeFourByte, ua.NodeIDTypeNumeric:
		k = "num"
	case ua.NodeIDTypeString:
		k = "str"
	case ua.NodeIDTypeGUID:
		k = "guid"
	case ua.NodeIDTypeByteString:
		k = "bytes"
	}
	if k != want.K {
		return fmt.Sprintf("identifier type %s, want %s", k, want.K)
	}
	switch k {
	case "num":
		if uint64(got.IntID()) != num(want.ID) {
			return fmt.Sprintf("numeric id %d, want %d", got.IntID(), num(want.ID))
		}
	case "str":
		if got.StringID() != chars(want.ID) {
			return fmt.Sprintf("string id %q, want %q", got.StringID(), chars(want.ID))
		}
	case "guid":
		if got.StringID() != guids[blobIndex(want.ID[0])] {
			return fmt.Sprintf("guid %q, want %q", got.StringID(), guids[blobIndex(want.ID[0])])
		}
	case "bytes":
		if got.StringID() != base64.StdEncoding.EncodeToString(blobs[blobIndex(want.ID[0])]) {
			return fmt.Sprintf("opaque id %q, want %x", got.StringID(), blobs[blobIndex(want.ID[0])])
		}
	}
	return ""
}

func features(n *node) string {
	if n.K != "str" {
		return ""
	}
	s := chars(n.ID)
	f := []string{fmt.Sprintf("len%d", len(n.ID))}
	if strings.Contains(s, ";") {
		f = append(f, "semi")
	}
	if strings.Contains(s, "=") {
		f = append(f, "eq")
	}
	for _, p := range []string{"ns=", "i=", "s=", "g=", "b="} {
		if strings.HasPrefix(s, p) {
			f = append(f, "prefix:"+p)
		}
	}
	if strings.Contains(s, "\xff") {
		f = append(f, "nonutf8")
	}
	return strings.Join(f, ",")
}

func nsClass(ns int) string {
	switch {
	case ns == 0:
		return "ns0"
	case ns < 256:
		return "ns8"
	default:
		return "ns16"
	}
}

type dummy struct{ X int }

// semicolonShape: a string identifier in namespace 0 containing ';' -- the shape for which
// the implementation model (split at the first ';') predicts the failure.
func semicolonShape(r row) bool {
	return r.DevFail && r.N != nil && r.N.K == "str" && r.N.NS == 0 && strings.Contains(chars(r.N.ID), ";")
}

func doNode(r row) (id *ua.NodeID, ok bool) {
	cls := fmt.Sprintf("node/%s/%s/%s", r.N.K, nsClass(r.N.NS), features(r.N))
	id = build(r.N)
	var s string
	if p, msg := vfgo.Recover(func() { s = id.String() }); p {
		vfgo.Violation(r, cls, "string-panics:"+r.N.K, "String() panicked: "+msg)
		return id, false
	}
	want := text(r.Text)
	if s != want {
		// the model's Format does not describe this code: nothing proved about the model transfers
		vfgo.Inconclusive(r, fmt.Sprintf("binding: String()=%q but the specification's Format gives %q", s, want))
		return id, false
	}
	var back *ua.NodeID
	var err error
	if p, msg := vfgo.Recover(func() { back, err = ua.ParseNodeID(s) }); p {
		vfgo.Violation(r, cls, "parse-panics:"+r.N.K, fmt.Sprintf("ParseNodeID(%q) panicked: %s", s, msg))
		return id, false
	}
	if err != nil {
		key := "roundtrip-parse-error:" + r.N.K + "/" + nsClass(r.N.NS)
		if semicolonShape(r) {
			key = "string-id-with-semicolon-in-ns0-does-not-parse"
		}
		vfgo.Violation(r, cls, key, fmt.Sprintf("ParseNodeID(%q) of a %s node id: %v", s, r.N.K, err))
		return id, false
	}
	if d := matches(back, r.Canon); d != "" {
		key := "roundtrip-different-node:" + r.N.K + "/" + nsClass(r.N.NS)
		if semicolonShape(r) {
			key = "string-id-with-semicolon-in-ns0-parses-to-different-node"
		}
		vfgo.Violation(r, cls, key, fmt.Sprintf("ParseNodeID(%q) = %s: %s", s, back, d))
		return id, false
	}
	if !back.Equal(id) || !id.Equal(back) {
		vfgo.Violation(r, cls, "roundtrip-not-equal:"+r.N.K, fmt.Sprintf("ParseNodeID(%q) is not Equal to the original", s))
		return id, false
	}
	// registry keyed by the text form: Register then Lookup must give back an equal id
	reg := ua.NewTypeRegistry()
	var lid *ua.NodeID
	if p, msg := vfgo.Recover(func() {
		if e := reg.Register(id, &dummy{}); e != nil {
			panic("Register: " + e.Error())
		}
		lid = reg.Lookup(&dummy{})
	}); p {
		vfgo.Violation(r, cls, "registry-lookup-panics:"+r.N.K, fmt.Sprintf("TypeRegistry Register/Lookup for %q panicked: %s", s, msg))
		return id, false
	}
	if lid == nil || !lid.Equal(id) || reg.New(back) == nil {
		vfgo.Violation(r, cls, "registry-loses-id:"+r.N.K, fmt.Sprintf("TypeRegistry does not find %q again (Lookup=%v)", s, lid))
		return id, false
	}
	vfgo.OK(r, cls, s)
	return id, true
}

func doPair(r row) {
	cls := fmt.Sprintf("pair/%s-%s/%s-%s/same=%v", r.A.K, r.B.K, nsClass(r.A.NS), nsClass(r.B.NS), r.Same)
	a, b := build(r.A), build(r.B)
	var eq, eq2, found bool
	if p, msg := vfgo.Recover(func() {
		eq, eq2 = a.Equal(b), b.Equal(a)
		reg := ua.NewTypeRegistry()
		if e := reg.Register(a, &dummy{}); e != nil {
			panic(e.Error())
		}
		found = reg.New(b) != nil
	}); p {
		vfgo.Violation(r, cls, "equal-panics", msg)
		return
	}
	if eq != r.Same || eq2 != r.Same {
		key := fmt.Sprintf("equal-%v-but-same-node-%v:%s-%s", eq, r.Same, class(r.A.K), class(r.B.K))
		vfgo.Violation(r, cls, key, fmt.Sprintf("%s Equal %s = %v/%v, same node = %v", a, b, eq, eq2, r.Same))
		return
	}
	if found != r.Same {
		vfgo.Violation(r, cls, fmt.Sprintf("registry-finds-%v-but-same-node-%v", found, r.Same),
			fmt.Sprintf("registered %s, New(%s) found=%v", a, b, found))
		return
	}
	vfgo.OK(r, cls, eq)
}

func doX(r row) {
	s := text(r.Text)
	tab := make([]string, len(r.Tab))
	for i, u := range r.Tab {
		tab[i] = text([]string{u})
	}
	cls := fmt.Sprintf("xnode/tab%d/ok=%v/%s", len(tab), r.Expect.OK, r.Expect.K)
	if r.Expect.OK {
		cls += "/" + nsClass(r.Expect.NS)
	}
	var x *ua.ExpandedNodeID
	var err error
	if p, msg := vfgo.Recover(func() { x, err = ua.ParseExpandedNodeID(s, tab) }); p {
		vfgo.Violation(r, cls, "parse-expanded-panics", fmt.Sprintf("ParseExpandedNodeID(%q, %q) panicked: %s", s, tab, msg))
		return
	}
	if !r.Expect.OK {
		if err == nil {
			vfgo.Violation(r, cls, "expanded-unknown-uri-accepted", fmt.Sprintf("ParseExpandedNodeID(%q, %q) = %s, want error (uri not in table)", s, tab, x.NodeID))
			return
		}
		vfgo.OK(r, cls, "error")
		return
	}
	if err != nil || x == nil || x.NodeID == nil {
		vfgo.Violation(r, cls, "expanded-known-uri-rejected:"+r.Expect.K, fmt.Sprintf("ParseExpandedNodeID(%q, %q): %v", s, tab, err))
		return
	}
	if d := matches(x.NodeID, r.Expect); d != "" {
		vfgo.Violation(r, cls, "expanded-resolves-to-different-node:"+r.Expect.K, fmt.Sprintf("ParseExpandedNodeID(%q, %q) = %s: %s", s, tab, x.NodeID, d))
		return
	}
	// the text form of the result must parse back to an equal NodeID (index form)
	back, err := ua.ParseNodeID(x.String())
	if err != nil || !back.Equal(x.NodeID) {
		if err != nil && strings.Contains(x.String(), ";") && x.NodeID.Namespace() == 0 && x.NodeID.Type() == ua.NodeIDTypeString {
			vfgo.Violation(r, cls, "string-id-with-semicolon-in-ns0-does-not-parse", fmt.Sprintf("%q: %v", x.String(), err))
			return
		}
		vfgo.Violation(r, cls, "expanded-text-roundtrip", fmt.Sprintf("ParseNodeID(%q): err=%v, Equal to the resolved node id: %v", x.String(), err, err == nil && back.Equal(x.NodeID)))
		return
	}
	vfgo.OK(r, cls, x.String())
}

type built struct {
	r  row
	id *ua.NodeID
	s  string
	c  string
}

func main() {
	vfgo.Init()
	defer vfgo.Flush()
	setup()
	var nodes []built
	for _, r := range vfgo.Cases[row]() {
		switch r.T {
		case "node":
			if id, ok := doNode(r); ok {
				nodes = append(nodes, built{r: r, id: id, s: id.String(),
					c: fmt.Sprintf("%d/%s/%s", r.Canon.NS, r.Canon.K, strings.Join(r.Canon.ID, "\x00"))})
			}
		case "pair":
			doPair(r)
		case "xnode":
			doX(r)
		default:
			vfgo.Fatalf("bad row type %q", r.T)
		}
	}
	// all pairs inside windows over the nodes sorted by (identifier text, namespace): Equal <=> same Canon
	sort.SliceStable(nodes, func(i, j int) bool {
		a, b := chars(nodes[i].r.N.ID), chars(nodes[j].r.N.ID)
		if a != b {
			return a < b
		}
		return nodes[i].s < nodes[j].s
	})
	const window = 48
	npairs, bad := 0, 0
	for i := range nodes {
		for j := i; j < len(nodes) && j < i+window; j++ {
			npairs++
			same := nodes[i].c == nodes[j].c
			if eq := nodes[i].id.Equal(nodes[j].id); eq != same {
				bad++
				if bad <= 20 {
					vfgo.Violation(map[string]any{"a": nodes[i].r.N, "b": nodes[j].r.N}, "window-pair",
						fmt.Sprintf("equal-%v-but-same-node-%v:%s-%s", eq, same, class(nodes[i].r.N.K), class(nodes[j].r.N.K)),
						fmt.Sprintf("%s Equal %s = %v, same node = %v", nodes[i].s, nodes[j].s, eq, same))
				}
			}
		}
	}
	if len(nodes) > 0 {
		vfgo.Emit(vfgo.Result{Status: "ok", Class: "window-pairs", Nontrivial: true,
			Case: map[string]any{"t": "window-pairs", "nodes": len(nodes), "window": window},
			Obs:  map[string]any{"pairs_compared": npairs, "mismatches": bad}})
	}
}
