// Command browse replays the rows emitted by spec/Browse (C33) on the real server:
// every row is one BrowseDescription plus the contract answer computed by TLC (indices
// into the node's own reference list) and the as-is prediction used only to name known
// defects.  The server runs in child processes (a browse request can panic it).
//
//	browse -mode syn -cases rows.ndjson            synthetic space (first row kind=space)
//	browse -export space.json -nodes 60            export the standard space (seeded sample)
//	browse -mode std -space space.json -cases ...  rows computed by TLC on the exported space
package main

import (
	"context"
	"encoding/json"
	"flag"
	"fmt"
	"os"
	"sort"
	"strconv"
	"strings"
	"sync"
	"time"

	"github.com/gopcua/opcua"
	"github.com/gopcua/opcua/id"
	"github.com/gopcua/opcua/server"
	"github.com/gopcua/opcua/server/attrs"
	"github.com/gopcua/opcua/ua"

	"verifharness/srvkit"
	"verifharness/vfgo"
)

var (
	mode      = flag.String("mode", "syn", "syn | std | dyn")
	spaceFile = flag.String("space", "", "space.json (std mode)")
	export    = flag.String("export", "", "write the exported standard space to this file")
	nNodes    = flag.Int("nodes", 60, "number of sampled standard nodes to export")
	shards    = flag.Int("shards", 4, "parallel server children")
	maxDeaths = flag.Int("max-deaths", 5, "server restarts allowed per shard before remaining cases are skipped")
)

type ref struct {
	T  string `json:"t"`
	F  bool   `json:"f"`
	C  int    `json:"c"`
	N  string `json:"n"`
	RC int    `json:"rc,omitempty"` // class recorded in the reference description (diagnostic)
}

type addition struct {
	Kind   string `json:"kind"` // subtype | ref
	Parent string `json:"parent"`
	Child  string `json:"child"`
	Node   string `json:"node"`
	Ref    ref    `json:"ref"`
}

type space struct {
	Kind    string              `json:"kind,omitempty"`
	Phase   int                 `json:"phase"`
	Adds    []addition          `json:"adds,omitempty"`
	Types   map[string][]string `json:"types"`
	Nodes   map[string][]ref    `json:"nodes"`
	Targets map[string]string   `json:"targets,omitempty"`
}

type row struct {
	Kind      string `json:"kind,omitempty"`
	Phase     int    `json:"phase"`
	Node      string `json:"node"`
	Dir       string `json:"dir"`
	RT        string `json:"rt"`
	Sub       bool   `json:"sub"`
	Mask      []int  `json:"mask"`
	Known     bool   `json:"known"`
	Exp       []int  `json:"exp"`
	AsIsPanic bool   `json:"oldPanic"`
	AsIs      []int  `json:"old"`
}

type childInput struct {
	Mode   string  `json:"mode"`
	Space  space   `json:"space"`
	Phases []space `json:"phases,omitempty"` // dyn mode: the space of every phase, index = phase
}

func main() {
	vfgo.Init()
	defer vfgo.Flush()
	switch *vfgo.ChildFlag {
	case "run":
		childRun()
		return
	case "export":
		childExport()
		return
	}
	if *export != "" {
		out := vfgo.RunChild("export", nil, 120*time.Second, fmt.Sprintf("VF_NODES=%d", *nNodes))
		if out.Exit != 0 || len(out.Stdout) == 0 {
			vfgo.Fatalf("export child failed: exit=%d %s", out.Exit, out.Stderr)
		}
		if err := os.WriteFile(*export, out.Stdout, 0o644); err != nil {
			vfgo.Fatalf("write export: %v", err)
		}
		return
	}
	parent()
}

// ----------------------------------------------------------------------------- parent

func parent() {
	var sp space
	var phases []space
	var rows []row
	raw := vfgo.Cases[json.RawMessage]()
	for _, r := range raw {
		var probe struct {
			Kind string `json:"kind"`
		}
		json.Unmarshal(r, &probe)
		if probe.Kind == "space" {
			var x space
			if err := json.Unmarshal(r, &x); err != nil {
				vfgo.Fatalf("bad space row: %v", err)
			}
			if x.Phase == 0 {
				sp = x
			}
			for len(phases) <= x.Phase {
				phases = append(phases, space{})
			}
			phases[x.Phase] = x
			continue
		}
		var x row
		if err := json.Unmarshal(r, &x); err != nil {
			vfgo.Fatalf("bad row: %v", err)
		}
		rows = append(rows, x)
	}
	if *mode == "std" {
		b, err := os.ReadFile(*spaceFile)
		if err != nil {
			vfgo.Fatalf("read space: %v", err)
		}
		if err := json.Unmarshal(b, &sp); err != nil {
			vfgo.Fatalf("parse space: %v", err)
		}
	}
	if len(sp.Nodes) == 0 {
		vfgo.Fatalf("no address space given")
	}
	in := childInput{Mode: *mode, Space: sp}
	if *mode == "dyn" {
		in.Phases = phases
		// one server for all phases (what it remembered in an earlier phase must not leak into a
		// later one), rows in phase order
		*shards = 1
		sort.SliceStable(rows, func(i, j int) bool { return rows[i].Phase < rows[j].Phase })
	}
	spb, _ := json.Marshal(in)
	sf, err := os.CreateTemp(os.Getenv("VERIF_SCRATCH"), "space-*.json")
	if err != nil {
		vfgo.Fatalf("temp: %v", err)
	}
	sf.Write(spb)
	sf.Close()
	defer os.Remove(sf.Name())

	// predicted-to-crash cases last (scheduling only: the verdict never uses the prediction)
	order := make([]int, 0, len(rows))
	for i, r := range rows {
		if !r.AsIsPanic || *mode == "dyn" {
			order = append(order, i)
		}
	}
	for i, r := range rows {
		if r.AsIsPanic && *mode != "dyn" {
			order = append(order, i)
		}
	}
	n := *shards
	if n > len(rows) {
		n = 1
	}
	buckets := make([][]int, n)
	for k, i := range order {
		buckets[k%n] = append(buckets[k%n], i)
	}
	var wg sync.WaitGroup
	var mu sync.Mutex
	var firstErr error
	for _, b := range buckets {
		wg.Add(1)
		go func(b []int) {
			defer wg.Done()
			cs := make([]row, len(b))
			for k, i := range b {
				cs[k] = rows[i]
			}
			err := srvkit.RunBatch("run", cs, 600*time.Second, []string{"VF_SPACE=" + sf.Name()}, *maxDeaths,
				func(l srvkit.Line) {
					r := cs[l.Idx]
					switch l.Status {
					case "ok":
						vfgo.OK(r, l.Class, l.Obs)
					case "violation":
						vfgo.Violation(r, l.Class, l.Key, l.Detail)
					default:
						vfgo.Inconclusive(r, l.Detail)
					}
				},
				func(d srvkit.Death) {
					r := cs[d.Idx]
					if !d.Panic {
						vfgo.Inconclusive(r, fmt.Sprintf("server child died without a Go panic (timeout=%v): %s", d.TimedOut, d.Head))
						return
					}
					key := "browse-panics-server"
					if r.AsIsPanic && strings.Contains(d.Head, "slice bounds out of range") {
						key = "browse-includeSubtypes-false-panics-server"
					}
					vfgo.Violation(r, classOf(r), key, "server process died while answering the browse request: "+d.Head)
				},
				func(idx int) {
					vfgo.Emit(vfgo.Result{Case: cs[idx], Status: "skipped", Detail: "server crash budget exhausted"})
				})
			if err != nil {
				mu.Lock()
				if firstErr == nil {
					firstErr = err
				}
				mu.Unlock()
			}
		}(b)
	}
	wg.Wait()
	if firstErr != nil {
		vfgo.Fatalf("%v", firstErr)
	}
}

func classOf(r row) string {
	rt := "type"
	if r.RT == "" {
		rt = "null"
	}
	m := "mask"
	if len(r.Mask) == 0 {
		m = "nomask"
	}
	res := "some"
	if len(r.Exp) == 0 {
		res = "none"
	}
	sh := "eqasis"
	if r.AsIsPanic {
		sh = "asispanic"
	} else if !sameInts(r.Exp, r.AsIs) {
		sh = "asisdiffers"
	}
	ph := ""
	if r.Phase > 0 {
		ph = fmt.Sprintf("/phase%d", r.Phase)
	}
	return fmt.Sprintf("%s/%s/sub=%v/%s/%s/%s/known=%v%s", r.Dir, rt, r.Sub, m, res, sh, r.Known, ph)
}

func sameInts(a, b []int) bool {
	if len(a) != len(b) {
		return false
	}
	x := append([]int(nil), a...)
	y := append([]int(nil), b...)
	sort.Ints(x)
	sort.Ints(y)
	for i := range x {
		if x[i] != y[i] {
			return false
		}
	}
	return true
}

// ----------------------------------------------------------------------------- ids

// nodeID maps a specification id to a NodeID: ids of the standard space are written in the
// usual text form, synthetic names (A, R0, ghost...) live in namespace 1 as string ids.
func nodeID(s string) *ua.NodeID {
	if s == "" {
		return ua.NewNumericNodeID(0, 0)
	}
	if s == "ghostns" {
		return ua.NewStringNodeID(9, "ghost")
	}
	if strings.Contains(s, "=") {
		n, err := ua.ParseNodeID(s)
		if err == nil {
			return n
		}
	}
	// synthetic names: "X..." live in the second added namespace, the others in the first
	if strings.HasPrefix(s, "X") {
		return ua.NewStringNodeID(2, s)
	}
	return ua.NewStringNodeID(1, s)
}

func specID(n *ua.NodeID) string {
	if synthetic && (n.Namespace() == 1 || n.Namespace() == 2) && n.Type() == ua.NodeIDTypeString && !strings.Contains(n.StringID(), "=") {
		return n.StringID()
	}
	return n.String()
}

var synthetic bool

func classBit(nc ua.NodeClass) int { return int(nc) }

// ----------------------------------------------------------------------------- server construction

func mkRef(t *ua.NodeID, fwd bool, target *ua.NodeID, name string, nc ua.NodeClass) *ua.ReferenceDescription {
	return &ua.ReferenceDescription{
		ReferenceTypeID: t,
		IsForward:       fwd,
		NodeID:          ua.NewExpandedNodeID(target, "", 0),
		BrowseName:      &ua.QualifiedName{NamespaceIndex: target.Namespace(), Name: name},
		DisplayName:     &ua.LocalizedText{EncodingMask: ua.LocalizedTextText, Text: name},
		NodeClass:       nc,
		TypeDefinition:  ua.NewTwoByteExpandedNodeID(0),
	}
}

func mkNode(nid *ua.NodeID, name string, nc ua.NodeClass, refs []*ua.ReferenceDescription) *server.Node {
	return server.NewNode(nid,
		map[ua.AttributeID]*ua.DataValue{
			ua.AttributeIDNodeClass:   server.DataValueFromValue(uint32(nc)),
			ua.AttributeIDBrowseName:  server.DataValueFromValue(attrs.BrowseName(name)),
			ua.AttributeIDDisplayName: server.DataValueFromValue(attrs.DisplayName(name, name)),
		},
		refs,
		func() *ua.DataValue { return server.DataValueFromValue(int32(1)) })
}

// synNS returns the added namespace a synthetic name lives in.
func synNS(s *server.Server, name string) *server.NodeNameSpace {
	i := 1
	if strings.HasPrefix(name, "X") {
		i = 2
	}
	ns, err := s.Namespace(i)
	if err != nil {
		panic(err)
	}
	return ns.(*server.NodeNameSpace)
}

// populateSyn builds the synthetic space of spec/Browse/BrowseSyn.tla in two added namespaces
// (plus HasSubtype references hung onto real namespace-0 reference types).
func populateSyn(sp space) func(*server.Server) {
	return func(s *server.Server) {
		server.NewNodeNameSpace(s, "urn:verif:browse")
		server.NewNodeNameSpace(s, "urn:verif:browse2")
		hs := ua.NewNumericNodeID(0, id.HasSubtype)
		types := make([]string, 0, len(sp.Types))
		for t := range sp.Types {
			types = append(types, t)
		}
		sort.Strings(types)
		for _, t := range types {
			tid := nodeID(t)
			if tid.Namespace() == 0 {
				continue // a standard type: it exists already
			}
			var refs []*ua.ReferenceDescription
			for _, c := range sp.Types[t] {
				refs = append(refs, mkRef(hs, true, nodeID(c), c, ua.NodeClassReferenceType))
			}
			synNS(s, t).AddNode(mkNode(tid, t, ua.NodeClassReferenceType, refs))
		}
		// synthetic subtypes of a namespace-0 type: added to the real node through the server API
		for _, t := range types {
			tid := nodeID(t)
			if tid.Namespace() != 0 {
				continue
			}
			parent := s.Node(tid)
			for _, c := range sp.Types[t] {
				if child := s.Node(nodeID(c)); parent != nil && child != nil {
					parent.AddRef(child, server.RefType(id.HasSubtype), true)
				}
			}
		}
		for c, name := range sp.Targets {
			ci, _ := strconv.Atoi(c)
			synNS(s, name).AddNode(mkNode(nodeID(name), name, ua.NodeClass(ci), nil))
		}
		for nd, rs := range sp.Nodes {
			var refs []*ua.ReferenceDescription
			for _, r := range rs {
				refs = append(refs, mkRef(nodeID(r.T), r.F, nodeID(r.N), r.N, ua.NodeClass(r.C)))
			}
			synNS(s, nd).AddNode(mkNode(nodeID(nd), nd, ua.NodeClassObject, refs))
		}
	}
}

// populateStd adds a namespace the way an application does (public API only).
func populateStd(s *server.Server) {
	root, _ := s.Namespace(0)
	objects := root.Objects()
	ns := server.NewNodeNameSpace(s, "urn:verif:app")
	nobj := ns.Objects()
	objects.AddRef(nobj, id.HasComponent, true)
	nobj.AddRef(objects, id.HasComponent, false)
	folder := server.NewFolderNode(ua.NewStringNodeID(ns.ID(), "Folder"), "Folder")
	ns.AddNode(folder)
	nobj.AddRef(folder, id.Organizes, true)
	folder.AddRef(nobj, id.Organizes, false)
	for i := 0; i < 4; i++ {
		v := ns.AddNewVariableStringNode(fmt.Sprintf("Var%d", i), int32(i))
		rt := server.RefType(id.HasComponent)
		if i%2 == 1 {
			rt = server.RefType(id.HasProperty)
		}
		folder.AddRef(v, rt, true)
		v.AddRef(folder, rt, false)
		if i == 3 {
			nobj.AddRef(v, id.Organizes, true)
			v.AddRef(s.Node(ua.NewNumericNodeID(0, id.BaseDataVariableType)), server.RefType(id.HasTypeDefinition), true)
		}
	}
}

// ----------------------------------------------------------------------------- child: export

func childExport() {
	n, _ := strconv.Atoi(os.Getenv("VF_NODES"))
	if n <= 0 {
		n = 60
	}
	s := server.New(server.EndPoint("127.0.0.1", 1))
	populateStd(s)
	ns0, _ := s.Namespace(0)
	var all []*server.Node
	for i := uint32(1); i < 40000; i++ {
		if nd := ns0.Node(ua.NewNumericNodeID(0, i)); nd != nil {
			all = append(all, nd)
		}
	}
	sp := space{Types: map[string][]string{}, Nodes: map[string][]ref{}}
	hs := ua.NewNumericNodeID(0, id.HasSubtype)
	for _, nd := range all {
		if nd.NodeClass() != ua.NodeClassReferenceType {
			continue
		}
		ch := []string{}
		for _, r := range server.VerifNodeRefs(nd) {
			if r.ReferenceTypeID.Equal(hs) && r.IsForward && r.NodeID != nil {
				ch = append(ch, r.NodeID.NodeID.String())
			}
		}
		sp.Types[nd.ID().String()] = ch
	}
	pick := map[string]*server.Node{}
	add := func(nd *server.Node) {
		if nd != nil && len(server.VerifNodeRefs(nd)) > 0 {
			pick[nd.ID().String()] = nd
		}
	}
	for _, i := range []uint32{id.RootFolder, id.ObjectsFolder, id.TypesFolder, id.Server, id.BaseObjectType, id.References,
		id.HierarchicalReferences, id.HasSubtype, id.HasChild, id.BaseDataVariableType, id.ServerType, id.Server_ServerStatus} {
		add(ns0.Node(ua.NewNumericNodeID(0, i)))
	}
	ns1, _ := s.Namespace(1)
	add(ns1.Objects())
	add(ns1.Node(ua.NewStringNodeID(1, "Folder")))
	for i := 0; i < 4; i++ {
		add(ns1.Node(ua.NewStringNodeID(1, fmt.Sprintf("Var%d", i))))
	}
	rnd := vfgo.Rand(33)
	for tries := 0; len(pick) < n && tries < 100000; tries++ {
		add(all[rnd.Intn(len(all))])
	}
	classDiff := 0
	for k, nd := range pick {
		rs := []ref{}
		for _, r := range server.VerifNodeRefs(nd) {
			x := ref{T: r.ReferenceTypeID.String(), F: r.IsForward, RC: classBit(r.NodeClass)}
			if r.NodeID != nil {
				x.N = r.NodeID.NodeID.String()
				x.C = x.RC
				if tn := s.Node(r.NodeID.NodeID); tn != nil {
					x.C = classBit(tn.NodeClass())
				}
			}
			if x.C != x.RC {
				classDiff++
			}
			rs = append(rs, x)
		}
		sp.Nodes[k] = rs
	}
	fmt.Fprintf(os.Stderr, "export: %d nodes, %d reference types, %d references whose recorded class differs from the target's\n",
		len(sp.Nodes), len(sp.Types), classDiff)
	b, _ := json.Marshal(sp)
	os.Stdout.Write(b)
}

// ----------------------------------------------------------------------------- child: run

func childRun() {
	out := srvkit.NewChildOut()
	b, err := os.ReadFile(os.Getenv("VF_SPACE"))
	if err != nil {
		fmt.Fprintln(os.Stderr, "space:", err)
		os.Exit(4)
	}
	var in childInput
	if err := json.Unmarshal(b, &in); err != nil {
		fmt.Fprintln(os.Stderr, "space:", err)
		os.Exit(4)
	}
	idx, rows, err := srvkit.ReadBatch[row]()
	if err != nil {
		fmt.Fprintln(os.Stderr, "batch:", err)
		os.Exit(4)
	}
	synthetic = in.Mode == "syn" || in.Mode == "dyn"
	pop := populateStd
	if synthetic {
		pop = populateSyn(in.Space)
	}
	s, url, err := srvkit.Start(pop)
	if err != nil {
		fmt.Fprintln(os.Stderr, "start:", err)
		os.Exit(4)
	}
	checkSpace(s, in.Space)
	c, err := srvkit.Connect(url)
	if err != nil {
		fmt.Fprintln(os.Stderr, "connect:", err)
		os.Exit(4)
	}
	cur, sp := 0, in.Space
	for k, r := range rows {
		// the address space changes between browses: apply the additions of the next phase
		// through the server API (AddNode, Node.AddRef)
		for cur < r.Phase && cur+1 < len(in.Phases) {
			cur++
			sp = in.Phases[cur]
			if err := applyAdds(s, c, sp); err != nil {
				fmt.Fprintln(os.Stderr, "adds:", err)
				os.Exit(4)
			}
			checkSpace(s, sp)
		}
		out.Begin(idx[k])
		out.Put(one(c, sp, idx[k], r))
	}
	ctx, cancel := context.WithTimeout(context.Background(), 2*time.Second)
	c.Close(ctx)
	cancel()
	s.Close()
}

// checkSpace is the binding check: the space the oracle was computed on is the space the
// server holds (own reference lists of the browsable nodes, HasSubtype children of the types).
func checkSpace(s *server.Server, sp space) {
	for nd, rs := range sp.Nodes {
		n := s.Node(nodeID(nd))
		if n == nil {
			fmt.Fprintln(os.Stderr, "space mismatch: node missing", nd)
			os.Exit(4)
		}
		own := server.VerifNodeRefs(n)
		if len(own) != len(rs) {
			fmt.Fprintf(os.Stderr, "space mismatch: node %s has %d references, oracle space %d\n", nd, len(own), len(rs))
			os.Exit(4)
		}
		for i, r := range own {
			if specID(r.ReferenceTypeID) != rs[i].T || r.IsForward != rs[i].F || specID(r.NodeID.NodeID) != rs[i].N {
				fmt.Fprintf(os.Stderr, "space mismatch: node %s reference %d\n", nd, i)
				os.Exit(4)
			}
		}
	}
	hs := ua.NewNumericNodeID(0, id.HasSubtype)
	for t, ch := range sp.Types {
		n := s.Node(nodeID(t))
		if n == nil {
			fmt.Fprintln(os.Stderr, "space mismatch: reference type missing", t)
			os.Exit(4)
		}
		var got []string
		for _, r := range server.VerifNodeRefs(n) {
			if r.ReferenceTypeID.Equal(hs) && r.IsForward && r.NodeID != nil {
				got = append(got, specID(r.NodeID.NodeID))
			}
		}
		if synthetic && strings.Join(got, ",") != strings.Join(ch, ",") {
			fmt.Fprintf(os.Stderr, "space mismatch: subtypes of %s are %v, oracle space %v\n", t, got, ch)
			os.Exit(4)
		}
	}
}

// applyAdds performs the actions of a phase on the running server: a client reads attributes
// of nodes (kind read), the application adds reference types and references through the
// server API (AddNode, Node.AddRef).
func applyAdds(s *server.Server, c *opcua.Client, sp space) error {
	added := map[string]int{} // node -> number of references of this phase already applied
	for _, a := range sp.Adds {
		switch a.Kind {
		case "read":
			nid := nodeID(a.Node)
			var rv []*ua.ReadValueID
			for _, at := range []ua.AttributeID{ua.AttributeIDNodeID, ua.AttributeIDNodeClass, ua.AttributeIDBrowseName,
				ua.AttributeIDDisplayName, ua.AttributeIDDescription, ua.AttributeIDValue, ua.AttributeIDDataType,
				ua.AttributeIDAccessLevel, ua.AttributeIDEventNotifier} {
				rv = append(rv, &ua.ReadValueID{NodeID: nid, AttributeID: at, DataEncoding: &ua.QualifiedName{}})
			}
			ctx, cancel := context.WithTimeout(context.Background(), 10*time.Second)
			_, err := c.Read(ctx, &ua.ReadRequest{NodesToRead: rv, TimestampsToReturn: ua.TimestampsToReturnBoth})
			cancel()
			if err != nil {
				return fmt.Errorf("read of %s: %v", a.Node, err)
			}
		case "subtype":
			parent := s.Node(nodeID(a.Parent))
			if parent == nil {
				return fmt.Errorf("no parent type %s", a.Parent)
			}
			child := s.Node(nodeID(a.Child))
			if child == nil {
				child = synNS(s, a.Child).AddNode(mkNode(nodeID(a.Child), a.Child, ua.NodeClassReferenceType, nil))
			}
			parent.AddRef(child, server.RefType(id.HasSubtype), true)
		case "ref":
			node := s.Node(nodeID(a.Node))
			if node == nil {
				return fmt.Errorf("no node %s", a.Node)
			}
			added[a.Node]++
			rt, target := nodeID(a.Ref.T), s.Node(nodeID(a.Ref.N))
			if rt.Namespace() == 0 && rt.Type() != ua.NodeIDTypeString && target != nil {
				// Node.AddRef: the reference description (class, names) is derived from the target node
				node.AddRef(target, server.RefType(rt.IntID()), a.Ref.F)
				continue
			}
			// Node.AddRef only takes namespace-0 numeric reference types; a node with the longer
			// reference list is (re-)added instead, which replaces the node in the namespace.
			// The references the node holds are kept as they are; the new one is appended.
			refs := server.VerifNodeRefs(node)
			refs = append(refs, mkRef(rt, a.Ref.F, nodeID(a.Ref.N), a.Ref.N, ua.NodeClass(a.Ref.C)))
			synNS(s, a.Node).AddNode(mkNode(nodeID(a.Node), a.Node, ua.NodeClassObject, refs))
		default:
			return fmt.Errorf("unknown addition %q", a.Kind)
		}
	}
	return nil
}

func triple(t string, f bool, n string) string { return fmt.Sprintf("%s|%v|%s", t, f, n) }

func one(c *opcua.Client, sp space, idx int, r row) srvkit.Line {
	mask := uint32(0)
	for _, b := range r.Mask {
		mask |= uint32(b)
	}
	dir := map[string]ua.BrowseDirection{"forward": ua.BrowseDirectionForward, "inverse": ua.BrowseDirectionInverse, "both": ua.BrowseDirectionBoth}[r.Dir]
	req := &ua.BrowseRequest{
		View: &ua.ViewDescription{ViewID: ua.NewTwoByteNodeID(0)},
		NodesToBrowse: []*ua.BrowseDescription{{
			NodeID:          nodeID(r.Node),
			BrowseDirection: dir,
			ReferenceTypeID: nodeID(r.RT),
			IncludeSubtypes: r.Sub,
			NodeClassMask:   mask,
			ResultMask:      uint32(ua.BrowseResultMaskAll),
		}},
	}
	class := classOf(r)
	ctx, cancel := context.WithTimeout(context.Background(), 8*time.Second)
	resp, err := c.Browse(ctx, req)
	cancel()
	if err != nil {
		// a dead server shows up as an error too: give the parent the chance to see the death
		time.Sleep(300 * time.Millisecond)
		return srvkit.Line{Idx: idx, Status: "inconclusive", Detail: "browse request failed: " + err.Error()}
	}
	if len(resp.Results) != 1 {
		return srvkit.Line{Idx: idx, Status: "violation", Class: class, Key: "browse-result-count", Detail: fmt.Sprintf("%d results for one description", len(resp.Results))}
	}
	res := resp.Results[0]
	if !r.Known {
		if res.StatusCode == ua.StatusOK || len(res.References) != 0 {
			return srvkit.Line{Idx: idx, Status: "violation", Class: class, Key: "browse-unknown-node-answered",
				Detail: fmt.Sprintf("unknown node %s: status %v, %d references", r.Node, res.StatusCode, len(res.References))}
		}
		return srvkit.Line{Idx: idx, Status: "ok", Class: class, Obs: srvkit.Obs(map[string]any{"status": res.StatusCode.Error()})}
	}
	if res.StatusCode != ua.StatusOK {
		return srvkit.Line{Idx: idx, Status: "violation", Class: class, Key: "browse-known-node-bad-status",
			Detail: fmt.Sprintf("node %s: status %v", r.Node, res.StatusCode)}
	}
	own := sp.Nodes[r.Node]
	want := map[string]int{}
	for _, i := range r.Exp {
		x := own[i-1]
		want[triple(x.T, x.F, x.N)]++
	}
	asis := map[string]int{}
	for _, i := range r.AsIs {
		x := own[i-1]
		asis[triple(x.T, x.F, x.N)]++
	}
	got := map[string]int{}
	for _, g := range res.References {
		got[triple(specID(g.ReferenceTypeID), g.IsForward, specID(g.NodeID.NodeID))]++
	}
	if eq(want, got) {
		return srvkit.Line{Idx: idx, Status: "ok", Class: class, Obs: srvkit.Obs(map[string]any{"refs": len(res.References)})}
	}
	extra, missing := diff(got, want), diff(want, got)
	key := "browse-result-mismatch"
	switch {
	case eq(asis, got) && !r.Sub && r.RT != "":
		key = "browse-includeSubtypes-false-returns-subtypes"
	case len(extra) > 0:
		// name the criterion the first surplus reference fails (naming only)
		key = "browse-returns-nonmatching-reference"
		for _, x := range own {
			if triple(x.T, x.F, x.N) != extra[0] {
				continue
			}
			if (r.Dir == "forward" && !x.F) || (r.Dir == "inverse" && x.F) {
				key = "browse-returns-wrong-direction"
			} else if mask != 0 && mask&uint32(x.C) == 0 {
				key = "browse-returns-wrong-class"
			} else {
				key = "browse-returns-wrong-type"
			}
			break
		}
	case len(missing) > 0:
		key = "browse-misses-matching-reference"
	}
	return srvkit.Line{Idx: idx, Status: "violation", Class: class, Key: key,
		Detail: fmt.Sprintf("node=%s dir=%s rt=%q sub=%v mask=%d: expected %d references, got %d; surplus %v missing %v",
			r.Node, r.Dir, r.RT, r.Sub, mask, len(r.Exp), len(res.References), head(extra), head(missing))}
}

func eq(a, b map[string]int) bool {
	if len(a) != len(b) {
		return false
	}
	for k, v := range a {
		if b[k] != v {
			return false
		}
	}
	return true
}

func diff(a, b map[string]int) []string {
	var res []string
	for k, v := range a {
		for i := b[k]; i < v; i++ {
			res = append(res, k)
		}
	}
	sort.Strings(res)
	return res
}

func head(s []string) []string {
	if len(s) > 6 {
		return append(s[:6:6], fmt.Sprintf("... %d more", len(s)-6))
	}
	return s
}
