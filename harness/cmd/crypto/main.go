// Command crypto replays the rows emitted by spec/Crypto on uapolicy (C14, C15).
//
// C14 rows (kind "sym"): policy, nonce shapes / length class, the six symbolic key terms
// K(secret, seed, off, len, hash) of Part 6 and the accept/reject matrix.  The terms are
// evaluated on concrete nonces with the independent P_SHA of harness/refcodec; HMAC and
// AES-CBC are deterministic, so equality of a signature / a ciphertext produced by
// uapolicy.Symmetric with the one produced with the evaluated term shows that gopcua's
// derived signing key, encrypting key and IV ARE the specified ones.  The matrix is checked
// by protecting with the reference keys of one side and opening with gopcua's algorithm of
// either side (reflection = own side).  Rows with mode "channel" reflect a real chunk of a
// real channel pair back to its sender.
//
// C15 rows (kind "admit" | "crypt" | "sign"): key admission at construction, block-wise RSA
// encryption for every length class (round trip, cross decryption / encryption with the
// standard library through refcodec), signature acceptance matrix.
package main

import (
	"bytes"
	"context"
	"crypto/aes"
	"crypto/cipher"
	"crypto/hmac"
	"crypto/rsa"
	"crypto/sha1"
	"crypto/sha256"
	"fmt"
	"hash"
	"math/big"
	"sync"
	"sync/atomic"
	"time"

	"github.com/gopcua/opcua/ua"
	"github.com/gopcua/opcua/uapolicy"
	"github.com/gopcua/opcua/uasc"

	"verifharness/chanpair"
	"verifharness/keys"
	"verifharness/refcodec"
	"verifharness/vfgo"
)

type term struct {
	Secret string `json:"secret"`
	Seed   string `json:"seed"`
	Off    int    `json:"off"`
	Len    int    `json:"len"`
	Hash   string `json:"hash"`
}

type keyset struct {
	Sig term `json:"sig"`
	Enc term `json:"enc"`
	IV  term `json:"iv"`
}

type row struct {
	Table string                         `json:"table,omitempty"`
	Sym   map[string]refcodec.SymParams  `json:"sym,omitempty"`
	Asym  map[string]refcodec.AsymParams `json:"asym,omitempty"`
	Kind  string                         `json:"kind"`
	Pol   string                         `json:"pol"`
	// sym
	Hash        string `json:"hash,omitempty"`
	SigLen      int    `json:"sigLen,omitempty"`
	NonceLen    int    `json:"nonceLen,omitempty"`
	NLen        string `json:"nlen,omitempty"`
	CShape      string `json:"cshape,omitempty"`
	SShape      string `json:"sshape,omitempty"`
	ClientSend  keyset `json:"clientSend,omitempty"`
	ServerSend  keyset `json:"serverSend,omitempty"`
	NoncesEqual bool   `json:"noncesEqual,omitempty"`
	Opens       []struct {
		At string `json:"at"`
		By string `json:"by"`
		OK bool   `json:"ok"`
	} `json:"opens,omitempty"`
	Mode string `json:"mode,omitempty"` // channel rows: "Sign" | "SignAndEncrypt"
	// asym
	Lk       int    `json:"lk,omitempty"`
	Rk       int    `json:"rk,omitempty"`
	Admit    bool   `json:"admit,omitempty"`
	Len      int    `json:"len,omitempty"`
	Lc       string `json:"lc,omitempty"`
	Enc      string `json:"enc,omitempty"`
	EncPad   int    `json:"encPad,omitempty"`
	MaxBlock int    `json:"maxBlock,omitempty"`
	MinCiph  int    `json:"minCipher,omitempty"`
	Sc       string `json:"sc,omitempty"`
	SigAlg   string `json:"sigAlg,omitempty"`
	Verifies bool   `json:"verifies,omitempty"`
}

var (
	symTab  map[string]refcodec.SymParams
	asymTab map[string]refcodec.AsymParams
	caseNo  int64
)

func main() {
	vfgo.Init()
	defer vfgo.Flush()
	rows := vfgo.Cases[row]()
	var work []row
	for _, r := range rows {
		if r.Table != "" {
			symTab, asymTab = r.Sym, r.Asym
			continue
		}
		work = append(work, r)
	}
	if symTab == nil {
		vfgo.Fatalf("no policy table row")
	}
	installHook()
	ch := make(chan row)
	var wg sync.WaitGroup
	for i := 0; i < 6; i++ {
		wg.Add(1)
		go func() {
			defer wg.Done()
			for r := range ch {
				n := atomic.AddInt64(&caseNo, 1)
				if p, msg := vfgo.Recover(func() { one(r, n) }); p {
					vfgo.Violation(brief(r), r.Kind+"/"+r.Pol, "uapolicy-panics", "panic: "+msg)
				}
			}
		}()
	}
	for _, r := range work {
		ch <- r
	}
	close(ch)
	wg.Wait()
}

func brief(r row) map[string]any {
	m := map[string]any{"kind": r.Kind, "pol": r.Pol}
	switch r.Kind {
	case "sym":
		m["nlen"], m["cshape"], m["sshape"] = r.NLen, r.CShape, r.SShape
	case "channel":
		m["mode"] = r.Mode
	case "admit":
		m["lk"], m["rk"], m["admit"] = r.Lk, r.Rk, r.Admit
	case "crypt":
		m["rk"], m["len"], m["lc"] = r.Rk, r.Len, r.Lc
	case "sign":
		m["lk"], m["sc"] = r.Lk, r.Sc
	}
	return m
}

func one(r row, n int64) {
	switch r.Kind {
	case "sym":
		sym(r, n)
	case "channel":
		var err error
		for try := 0; try < 3; try++ {
			if err = channel(r); err == nil {
				return
			}
		}
		vfgo.Inconclusive(brief(r), "channel reflection could not be driven: "+err.Error())
	case "admit":
		admit(r)
	case "crypt":
		crypt(r, n)
	case "sign":
		sign(r, n)
	default:
		vfgo.Inconclusive(brief(r), "unknown row kind")
	}
}

// ------------------------------------------------------------------ C14

func nonceOf(shape string, n int, salt int64) []byte {
	b := make([]byte, n)
	switch shape {
	case "zero":
	case "ff":
		for i := range b {
			b[i] = 0xff
		}
	case "counter":
		for i := range b {
			b[i] = byte(i + 1)
		}
	case "random":
		vfgo.Rand(salt).Read(b)
	}
	return b
}

func hashOf(name string) func() hash.Hash {
	if name == "sha1" {
		return sha1.New
	}
	return sha256.New
}

func mac(h string, key, msg []byte) []byte {
	m := hmac.New(hashOf(h), key)
	m.Write(msg)
	return m.Sum(nil)
}

func cbcEnc(key, iv, pt []byte) []byte {
	blk, err := aes.NewCipher(key)
	if err != nil {
		panic(err)
	}
	out := make([]byte, len(pt))
	cipher.NewCBCEncrypter(blk, iv).CryptBlocks(out, pt)
	return out
}

type concrete struct{ sig, enc, iv []byte }

func sym(r row, n int64) {
	c := brief(r)
	nl := r.NonceLen
	switch r.NLen {
	case "short":
		nl = 1
	case "long":
		nl = 64
	}
	cn := nonceOf(r.CShape, nl, n*2)
	sn := nonceOf(r.SShape, nl, n*2+1)
	if !r.NoncesEqual && bytes.Equal(cn, sn) && (r.CShape == "random" || r.SShape == "random") {
		cn[0] ^= 0x5a // a short random nonce happened to coincide with the other one
	}
	if bytes.Equal(cn, sn) != r.NoncesEqual {
		vfgo.Inconclusive(c, "nonce concretisation does not match the row's noncesEqual")
		return
	}
	class := fmt.Sprintf("sym/%s/nlen=%s/%s-%s", r.Pol, r.NLen, r.CShape, r.SShape)
	nonce := map[string][]byte{"client": cn, "server": sn}
	eval := func(t term) []byte {
		b, err := refcodec.PSHA(t.Hash, nonce[t.Secret], nonce[t.Seed], t.Off+t.Len)
		if err != nil {
			vfgo.Fatalf("PSHA: %v", err)
		}
		return b[t.Off:]
	}
	ks := map[string]concrete{
		"client": {eval(r.ClientSend.Sig), eval(r.ClientSend.Enc), eval(r.ClientSend.IV)},
		"server": {eval(r.ServerSend.Sig), eval(r.ServerSend.Enc), eval(r.ServerSend.IV)},
	}
	uri := ua.FormatSecurityPolicyURI(r.Pol)
	algo := map[string]*uapolicy.EncryptionAlgorithm{}
	var err error
	if algo["client"], err = uapolicy.Symmetric(uri, cn, sn); err != nil {
		vfgo.Violation(c, class, "symmetric-construction-fails", err.Error())
		return
	}
	if algo["server"], err = uapolicy.Symmetric(uri, sn, cn); err != nil {
		vfgo.Violation(c, class, "symmetric-construction-fails", err.Error())
		return
	}
	rnd := vfgo.Rand(n * 7)
	msg := make([]byte, 150)
	rnd.Read(msg)
	plain := make([]byte, 96)
	rnd.Read(plain)
	other := map[string]string{"client": "server", "server": "client"}
	for _, side := range []string{"client", "server"} {
		a, k, pk := algo[side], ks[side], ks[other[side]]
		// send keys = specification terms
		sig, err := a.Signature(msg)
		if err != nil || !bytes.Equal(sig, mac(r.Hash, k.sig, msg)) || len(sig) != r.SigLen || a.SignatureLength() != r.SigLen {
			vfgo.Violation(c, class, "signing-key-differs-from-spec", fmt.Sprintf("%s: signature with gopcua's send key differs from HMAC-%s with P_hash(secret=%s nonce, seed=%s nonce)[%d:%d] (err %v, len %d)", side, r.Hash, other[side], side, 0, len(k.sig), err, len(sig)))
			return
		}
		ct, err := a.Encrypt(plain)
		if err != nil || !bytes.Equal(ct, cbcEnc(k.enc, k.iv, plain)) {
			key := "encrypting-key-or-iv-differs-from-spec"
			vfgo.Violation(c, class, key, fmt.Sprintf("%s: ciphertext with gopcua's send keys differs from AES-%d-CBC with the specified encrypting key / IV (err %v)", side, len(k.enc)*8, err))
			return
		}
		// receive keys = the peer's send terms
		if err := a.VerifySignature(msg, mac(r.Hash, pk.sig, msg)); err != nil {
			vfgo.Violation(c, class, "verification-key-differs-from-spec", fmt.Sprintf("%s does not verify a signature made with the peer's specified signing key: %v", side, err))
			return
		}
		pt, err := a.Decrypt(cbcEnc(pk.enc, pk.iv, plain))
		if err != nil || !bytes.Equal(pt, plain) {
			vfgo.Violation(c, class, "decrypting-key-or-iv-differs-from-spec", fmt.Sprintf("%s does not decrypt what was encrypted with the peer's specified key / IV (err %v)", side, err))
			return
		}
	}
	// accept / reject matrix
	for _, o := range r.Opens {
		k := ks[o.By]
		a := algo[o.At]
		sigOK := a.VerifySignature(msg, mac(r.Hash, k.sig, msg)) == nil
		pt, err := a.Decrypt(cbcEnc(k.enc, k.iv, plain))
		decOK := err == nil && bytes.Equal(pt, plain)
		if o.OK && !(sigOK && decOK) {
			vfgo.Violation(c, class, "peer-message-rejected", fmt.Sprintf("protected by %s, opened by %s: verify %v decrypt %v, specification: accepted", o.By, o.At, sigOK, decOK))
			return
		}
		if !o.OK && (sigOK || decOK) {
			key := "reflected-message-accepted"
			if o.At != o.By {
				key = "message-accepted-with-wrong-keys"
			}
			vfgo.Violation(c, class, key, fmt.Sprintf("protected by %s, opened by %s: verify %v decrypt %v, specification: rejected (direction separated keys)", o.By, o.At, sigOK, decOK))
			return
		}
	}
	vfgo.OK(c, class, map[string]any{"nonce_len": nl, "matrix": len(r.Opens)})
}

// accepted counts chunks that passed verifyAndDecrypt per channel (hook recv.chunk).
var accepted sync.Map // *uasc.SecureChannel -> *int64

func installHook() {
	uasc.VerifHook.Store(func(point string, s *uasc.SecureChannel, kv ...any) {
		if point != "recv.chunk" {
			return
		}
		if v, ok := accepted.Load(s); ok {
			atomic.AddInt64(v.(*int64), 1)
		}
	})
}

// channel: reflect a real chunk of a real channel back to its sender (both directions).
func channel(r row) error {
	c := brief(r)
	class := fmt.Sprintf("channel-reflection/%s/%s", r.Pol, r.Mode)
	var mu sync.Mutex
	last := map[string][]byte{}
	p, err := chanpair.Open(chanpair.Opts{Policy: r.Pol, Mode: r.Mode, RequestTimeout: 3 * time.Second, Tap: func(f chanpair.Frame) [][]byte {
		if f.Type() == "MSG" {
			mu.Lock()
			last[f.Dir] = append([]byte(nil), f.Data...)
			mu.Unlock()
		}
		return chanpair.Pass(f)
	}})
	if err != nil {
		return err
	}
	defer p.Close()
	cm, sm := new(int64), new(int64)
	accepted.Store(p.Client, cm)
	accepted.Store(p.Server, sm)
	defer accepted.Delete(p.Client)
	defer accepted.Delete(p.Server)
	// make the reflected chunks "fresh" for the receive side sequence check: the only reason to
	// reject them must be the keys
	uasc.VerifSetSequenceNumber(p.Client, 500000)
	uasc.VerifSetSequenceNumber(p.Server, 700000)
	go func() {
		for m := range p.ServerMsgs {
			if q, ok := m.Request().(*ua.ReadRequest); ok && m.Err == nil {
				p.Server.SendResponseWithContext(context.Background(), m.RequestID, &ua.ReadResponse{ResponseHeader: chanpair.RespHeader(q.RequestHeader.RequestHandle, ua.StatusOK),
					Results: []*ua.DataValue{{EncodingMask: ua.DataValueValue, Value: ua.MustVariant(int32(7))}}, DiagnosticInfos: []*ua.DiagnosticInfo{}})
			}
		}
	}()
	ctx, cancel := context.WithTimeout(context.Background(), 5*time.Second)
	err = p.Client.SendRequest(ctx, chanpair.ReadReq(0, 2258), nil, func(ua.Response) error { return nil })
	cancel()
	if err != nil {
		return fmt.Errorf("request: %w", err)
	}
	mu.Lock()
	c2s, s2c := last["c2s"], last["s2c"]
	mu.Unlock()
	if c2s == nil || s2c == nil {
		return fmt.Errorf("frames not captured")
	}
	countC, countS := count(cm), count(sm)
	// the server's response back to the server, the client's request back to the client
	if err := p.Inject("c2s", s2c); err != nil {
		return err
	}
	if err := p.Inject("s2c", c2s); err != nil {
		return err
	}
	time.Sleep(800 * time.Millisecond)
	if count(sm) != countS {
		vfgo.Violation(c, class, "reflected-chunk-accepted-by-channel", "the server channel verified/decrypted a chunk it had sent itself (reflected response)")
		return nil
	}
	if count(cm) != countC {
		vfgo.Violation(c, class, "reflected-chunk-accepted-by-channel", "the client channel verified/decrypted a chunk it had sent itself (reflected request)")
		return nil
	}
	vfgo.OK(c, class, map[string]any{"accepted_before": []int{countC, countS}})
	return nil
}

func count(m *int64) int { return int(atomic.LoadInt64(m)) }

// ------------------------------------------------------------------ C15

var keyName = map[int]string{64: "512a", 128: "1024a", 256: "2048a", 384: "3072a", 512: "4096a"}

func privOf(bytesLen int) *rsa.PrivateKey {
	if bytesLen == 0 {
		return nil
	}
	if n, ok := keyName[bytesLen]; ok {
		return keys.Get(n).Key
	}
	// a modulus of the requested size is all the admission test looks at
	N := new(big.Int).Lsh(big.NewInt(1), uint(bytesLen*8-1))
	N.SetBit(N, 0, 1)
	return &rsa.PrivateKey{PublicKey: rsa.PublicKey{N: N, E: 65537}}
}

func pubOf(bytesLen int) *rsa.PublicKey {
	if k := privOf(bytesLen); k != nil {
		return &k.PublicKey
	}
	return nil
}

func admit(r row) {
	c := brief(r)
	class := fmt.Sprintf("admit/%s/lk=%d/rk=%d", r.Pol, r.Lk, r.Rk)
	_, err := uapolicy.Asymmetric(ua.FormatSecurityPolicyURI(r.Pol), privOf(r.Lk), pubOf(r.Rk))
	switch {
	case r.Admit && err != nil:
		vfgo.Violation(c, class, "key-inside-limits-rejected", fmt.Sprintf("local %d / remote %d byte keys are inside the limits of %s but construction fails: %v", r.Lk, r.Rk, r.Pol, err))
	case !r.Admit && err == nil:
		vfgo.Violation(c, class, "key-outside-limits-accepted", fmt.Sprintf("local %d / remote %d byte keys: one is outside the limits of %s but the algorithm is constructed", r.Lk, r.Rk, r.Pol))
	default:
		vfgo.OK(c, class, map[string]any{"err": err != nil})
	}
}

func crypt(r row, n int64) {
	c := brief(r)
	class := fmt.Sprintf("crypt/%s/rk=%d/len=%s", r.Pol, r.Rk, r.Lc)
	k := privOf(r.Rk)
	ap := asymTab[r.Pol]
	a, err := uapolicy.Asymmetric(ua.FormatSecurityPolicyURI(r.Pol), k, &k.PublicKey)
	if err != nil {
		vfgo.Violation(c, class, "key-inside-limits-rejected", err.Error())
		return
	}
	pt := make([]byte, r.Len)
	vfgo.Rand(n).Read(pt)
	ct, err := a.Encrypt(pt)
	if err != nil {
		vfgo.Violation(c, class, "asym-encrypt-fails", fmt.Sprintf("%d bytes: %v", r.Len, err))
		return
	}
	if len(ct)%r.Rk != 0 || len(ct) < r.MinCiph || (r.Len == 0) != (len(ct) == 0) {
		vfgo.Violation(c, class, "ciphertext-length-impossible", fmt.Sprintf("%d plaintext bytes, key %d: ciphertext %d bytes (whole blocks of %d, at least %d)", r.Len, r.Rk, len(ct), r.Rk, r.MinCiph))
		return
	}
	back, err := a.Decrypt(ct)
	if err != nil || !bytes.Equal(back, pt) {
		vfgo.Violation(c, class, "asym-roundtrip-differs", fmt.Sprintf("%d bytes, key %d: decrypt(encrypt(x)) != x (err %v, got %d bytes)", r.Len, r.Rk, err, len(back)))
		return
	}
	ref, lens, err := refcodec.AsymDecrypt(ap, k, ct)
	if err != nil || !bytes.Equal(ref, pt) {
		vfgo.Violation(c, class, "ciphertext-not-decrypted-by-reference", fmt.Sprintf("%d bytes, key %d: standard library block-wise decryption fails: %v", r.Len, r.Rk, err))
		return
	}
	for _, l := range lens {
		if l > r.MaxBlock {
			vfgo.Violation(c, class, "plaintext-block-exceeds-scheme-limit", fmt.Sprintf("block of %d bytes, limit %d", l, r.MaxBlock))
			return
		}
	}
	rct, err := refcodec.AsymEncrypt(ap, &k.PublicKey, pt, r.MaxBlock)
	if err != nil {
		vfgo.Inconclusive(c, "reference encryption failed: "+err.Error())
		return
	}
	back, err = a.Decrypt(rct)
	if err != nil || !bytes.Equal(back, pt) {
		vfgo.Violation(c, class, "reference-ciphertext-not-decrypted", fmt.Sprintf("%d bytes in maximal blocks of %d, key %d: gopcua Decrypt fails: %v", r.Len, r.MaxBlock, r.Rk, err))
		return
	}
	// tampered ciphertext must not decrypt to the plaintext
	if len(ct) > 0 {
		bad := append([]byte(nil), ct...)
		bad[len(bad)/2] ^= 0x40
		if back, err := a.Decrypt(bad); err == nil && bytes.Equal(back, pt) {
			vfgo.Violation(c, class, "tampered-ciphertext-decrypts", "a flipped ciphertext bit still decrypts to the plaintext")
			return
		}
	}
	vfgo.OK(c, class, map[string]any{"cipher": len(ct), "blocks": len(lens), "min_cipher": r.MinCiph})
}

func sign(r row, n int64) {
	c := brief(r)
	class := fmt.Sprintf("sign/%s/lk=%d/%s", r.Pol, r.Lk, r.Sc)
	k := privOf(r.Lk)
	ap := asymTab[r.Pol]
	uri := ua.FormatSecurityPolicyURI(r.Pol)
	a, err := uapolicy.Asymmetric(uri, k, &k.PublicKey)
	if err != nil {
		vfgo.Violation(c, class, "key-inside-limits-rejected", err.Error())
		return
	}
	// a different admissible key
	var wrong *rsa.PrivateKey
	if r.Lk == 256 {
		wrong = keys.Get("2048b").Key
	} else {
		for _, b := range []int{256, 128, 384, 512} {
			if b != r.Lk && b >= ap.MinKey && b <= ap.MaxKey {
				wrong = privOf(b)
				break
			}
		}
	}
	aw, err := uapolicy.Asymmetric(uri, wrong, &wrong.PublicKey)
	if err != nil {
		vfgo.Inconclusive(c, "second key: "+err.Error())
		return
	}
	rnd := vfgo.Rand(n)
	msg := make([]byte, 1+rnd.Intn(3000))
	rnd.Read(msg)
	if r.Sc == "empty-message" {
		msg = []byte{}
	}
	for _, signer := range []string{"gopcua", "reference"} {
		var sig []byte
		if signer == "gopcua" {
			sig, err = a.Signature(msg)
		} else {
			sig, err = refcodec.AsymSign(ap, k, msg)
		}
		if err != nil {
			vfgo.Violation(c, class, "asym-sign-fails", fmt.Sprintf("%s: %v", signer, err))
			return
		}
		if len(sig) != r.Lk || a.SignatureLength() != r.Lk {
			vfgo.Violation(c, class, "signature-length-differs-from-spec", fmt.Sprintf("signature %d bytes, SignatureLength() %d, key %d bytes", len(sig), a.SignatureLength(), r.Lk))
			return
		}
		vmsg, vsig, va := msg, sig, a
		vpub := &k.PublicKey
		switch r.Sc {
		case "other-message":
			vmsg = append(append([]byte(nil), msg...), 0)
			if len(msg) > 1 && rnd.Intn(2) == 0 {
				vmsg = append([]byte(nil), msg...)
				vmsg[rnd.Intn(len(vmsg))] ^= 1
			}
		case "sig-bit-flipped":
			vsig = append([]byte(nil), sig...)
			vsig[rnd.Intn(len(vsig))] ^= 1 << uint(rnd.Intn(8))
		case "sig-truncated":
			vsig = sig[:len(sig)-1]
		case "wrong-key":
			va, vpub = aw, &wrong.PublicKey
		}
		gok := va.VerifySignature(vmsg, vsig) == nil
		rok := refcodec.AsymVerify(ap, vpub, vmsg, vsig) == nil
		if gok != r.Verifies {
			key := "invalid-signature-accepted"
			if r.Verifies {
				key = "valid-signature-rejected"
			}
			vfgo.Violation(c, class, key, fmt.Sprintf("%s, signed by %s: gopcua VerifySignature says %v, specification %v (reference verifier: %v)", r.Sc, signer, gok, r.Verifies, rok))
			return
		}
		if rok != r.Verifies {
			vfgo.Violation(c, class, "signature-not-conforming", fmt.Sprintf("%s, signed by %s: the standard library verifier says %v, specification %v", r.Sc, signer, rok, r.Verifies))
			return
		}
	}
	vfgo.OK(c, class, map[string]any{"msg": len(msg)})
}
