package main

import (
	"bytes"
	"context"
	"crypto/rand"
	"crypto/rsa"
	"crypto/x509"
	"encoding/binary"
	"fmt"
	"sync"
	"time"

	"github.com/gopcua/opcua/ua"
	"github.com/gopcua/opcua/uacp"
	"github.com/gopcua/opcua/uasc"

	"verifharness/chanpair"
	"verifharness/keys"
	"verifharness/refcodec"
	"verifharness/vfgo"
)

// Reference peer flows (C08, direction "an independent implementation talks to gopcua"):
//
//	peer=refclient  the reference codec plays the CLIENT against the gopcua server channel:
//	                OPN request built by BuildAsym, OPN response opened by OpenAsym, keys
//	                derived, the row's message built by BuildSym, gopcua's answer opened by OpenSym
//	peer=refserver  the reference codec plays the SERVER against the gopcua client channel:
//	                gopcua's OPN request opened by OpenAsym, OPN response built by BuildAsym
//	                (gopcua's Open must succeed), gopcua's request opened by OpenSym, the row's
//	                message sent back as chunks built by BuildSym
//
// Frames are moved with the frame proxy of chanpair: what gopcua sends is captured (and not
// forwarded to the idle gopcua end), what the reference codec sends is injected.

func pubOf(der []byte) *rsa.PublicKey {
	c, err := x509.ParseCertificate(der)
	if err != nil {
		vfgo.Fatalf("certificate: %v", err)
	}
	return c.PublicKey.(*rsa.PublicKey)
}

func svcBody(v any) []byte {
	id := ua.ServiceTypeID(v)
	b, err := ua.Encode(ua.NewFourByteExpandedNodeID(0, id))
	if err != nil {
		vfgo.Fatalf("encode type id: %v", err)
	}
	s, err := ua.Encode(v)
	if err != nil {
		vfgo.Fatalf("encode %T: %v", v, err)
	}
	return append(b, s...)
}

// cut slices body as the row says.
func cut(r row, body []byte) ([][]byte, bool) {
	var out [][]byte
	off := 0
	for _, c := range r.Chunks {
		if off+c.Body > len(body) {
			return nil, false
		}
		out = append(out, body[off:off+c.Body])
		off += c.Body
	}
	return out, off == len(body)
}

type frameQ struct {
	mu sync.Mutex
	ch chan []byte
}

func runPeer(r row, final bool) error {
	// a time-out is a verdict only on the final attempt (fresh pair each time, growing patience)
	patience := 10 * time.Second
	if final {
		patience = 40 * time.Second
	}
	bases()
	sp, ap := symTab[r.Pol], asymTab[r.Pol]
	ck, sk := keys.Get(r.CKey), keys.Get(r.SKey)
	polURI := ua.FormatSecurityPolicyURI(r.Pol)
	refIsClient := r.Peer == "refclient"
	fromGo := make(chan []byte, 4096) // frames sent by the gopcua end under test
	watch := "c2s"
	if refIsClient {
		watch = "s2c"
	}
	tap := func(f chanpair.Frame) [][]byte {
		if f.Type() == "HEL" || f.Type() == "ACK" {
			return chanpair.Pass(f)
		}
		if f.Dir == watch {
			select {
			case fromGo <- append([]byte(nil), f.Data...):
			default:
			}
			return nil // the other gopcua end is idle: do not forward
		}
		return chanpair.Pass(f) // injected frames do not pass the tap; anything else is forwarded
	}
	ack := func() *uacp.Acknowledge {
		return &uacp.Acknowledge{ReceiveBufSize: uint32(r.Cs) + 4096, SendBufSize: uint32(r.Cs), MaxChunkCount: 8192, MaxMessageSize: 1 << 28}
	}
	p, err := chanpair.Open(chanpair.Opts{Policy: r.Pol, Mode: r.Mode, ClientKey: r.CKey, ServerKey: r.SKey, ClientACK: ack(), ServerACK: ack(),
		Tap: tap, NoOpen: true, NoServerLoop: !refIsClient, RequestTimeout: patience + 5*time.Second, ChannelID: 77, TokenID: 5})
	if err != nil {
		return err
	}
	defer p.Close()
	next := func(d time.Duration) []byte {
		select {
		case f := <-fromGo:
			return f
		case <-time.After(d):
			return nil
		}
	}
	c := id(r, r.Peer, "refcodec")
	class := fmt.Sprintf("%s/%s/%s/ck=%s/sk=%s/chunks=%d", r.Peer, r.Pol, r.Mode, r.CKey, r.SKey, len(r.Chunks))
	var recs []map[string]any
	nonce := func() []byte {
		b := make([]byte, sp.Nonce)
		rand.Read(b)
		return b
	}
	salt := byte(len(r.CKey)*13 + r.N)

	if refIsClient {
		sl := &srvLoop{}
		go sl.run(p)
		// ---- OPN request by the reference codec
		cn := nonce()
		req := &ua.OpenSecureChannelRequest{
			RequestHeader:     &ua.RequestHeader{AuthenticationToken: ua.NewTwoByteNodeID(0), Timestamp: time.Now(), RequestHandle: 1, AdditionalHeader: ua.NewExtensionObject(nil)},
			RequestType:       ua.SecurityTokenRequestTypeIssue,
			SecurityMode:      chanpair.ModeOf(r.Mode),
			ClientNonce:       cn,
			RequestedLifetime: 3600000,
		}
		opn, l, err := refcodec.BuildAsym(ap, ck.Key, &sk.Key.PublicKey, refcodec.AsymChunk{ChannelID: 0, PolicyURI: polURI,
			SenderCert: ck.Cert, ReceiverThumb: refcodec.Thumbprint(sk.Cert), Seq: 1, ReqID: 1, Body: svcBody(req)})
		if err != nil {
			return fmt.Errorf("BuildAsym: %w", err)
		}
		recs = append(recs, layoutRec("asym", r.Pol, ck.Key.Size(), sk.Key.Size(), len(opn)-12-l.Enc, l, sk.Key.Size()-ap.EncPad))
		if err := p.Inject("c2s", opn); err != nil {
			return err
		}
		f := next(patience)
		if f == nil && !final {
			return fmt.Errorf("no answer to the OPN request in time")
		}
		if f == nil || string(f[:3]) != "OPN" {
			violation(c, class, "reference-opn-request-rejected", fmt.Sprintf("gopcua server channel did not answer the OPN request built by the reference codec (got %q)", head(f)))
			return nil
		}
		sn, o, err := openOPN(ap, ck.Key, f, false)
		if err != nil {
			violation(c, class, "opn-response-not-opened-by-reference", "reference codec cannot open gopcua's OPN response: "+err.Error())
			return nil
		}
		recs = append(recs, asymRec(r.Pol, sk.Key.Size(), ck.Key.Size(), o))
		_, svc, _ := ua.DecodeService(o.Body)
		tok := svc.(*ua.OpenSecureChannelResponse).SecurityToken
		kc, ks, err := refcodec.DeriveKeys(sp, cn, sn)
		if err != nil {
			return err
		}
		// ---- the row's message, built by the reference codec
		L := r.N - reqBase
		wr := writeReq(L, salt)
		wr.SetHeader(&ua.RequestHeader{AuthenticationToken: ua.NewTwoByteNodeID(0), Timestamp: time.Now(), RequestHandle: 2})
		body := svcBody(wr)
		parts, ok := cut(r, body)
		if !ok {
			return fmt.Errorf("row does not cut a body of %d bytes", len(body))
		}
		w := &want{got: make(chan *uasc.MessageBody, 4), resp: func(m *uasc.MessageBody) ua.Response {
			return readResp(2, L, salt)
		}}
		sl.set(w)
		for i, part := range parts {
			kind := r.Chunks[i].Kind[0]
			ch, err := refcodec.BuildSym(sp, r.Mode, kc, r.Chunks[i], refcodec.SymChunk{MsgType: "MSG", Kind: kind, ChannelID: tok.ChannelID, TokenID: tok.TokenID, Seq: 2 + uint32(i), ReqID: 2, Body: part})
			if err != nil {
				return fmt.Errorf("BuildSym: %w", err)
			}
			if err := p.Inject("c2s", ch); err != nil {
				return err
			}
		}
		var got *uasc.MessageBody
		select {
		case got = <-w.got:
		case <-time.After(patience):
		}
		if got == nil && !final {
			return fmt.Errorf("nothing delivered in time")
		}
		if got == nil || got.Err != nil {
			e := "nothing delivered in time"
			if got != nil {
				e = got.Err.Error()
			}
			violation(c, class, "reference-chunks-rejected", fmt.Sprintf("body %d in %d chunks built by the reference codec as client: %s", r.N, len(parts), e))
			return nil
		}
		q, _ := got.Request().(*ua.WriteRequest)
		if q == nil || len(q.NodesToWrite) != 1 || q.NodesToWrite[0].Value == nil || q.NodesToWrite[0].Value.Value == nil || !bytes.Equal(payload(L, salt), asBytes(q.NodesToWrite[0].Value.Value.Value())) {
			violation(c, class, "reference-chunks-delivered-differently", fmt.Sprintf("body %d: gopcua server channel delivered %T with a different payload", r.N, got.Request()))
			return nil
		}
		// ---- gopcua's answer (same body size class), opened by the reference codec
		var cat []byte
		for {
			f := next(patience)
			if f == nil && !final {
				return fmt.Errorf("no response in time")
			}
			if f == nil {
				violation(c, class, "response-not-sent", "gopcua server channel did not send the response")
				return nil
			}
			o, err := refcodec.OpenSym(sp, r.Mode, ks, f)
			if err != nil {
				violation(c, class, "chunk-not-opened-by-reference", fmt.Sprintf("response chunk (%d bytes): %v", len(f), err))
				return nil
			}
			recs = append(recs, symRec(r, o.Observed))
			cat = append(cat, o.Body...)
			if o.Kind == 'F' {
				break
			}
		}
		if !bytes.Contains(cat, payload(L, salt)) {
			violation(c, class, "reference-reassembly-differs", "response opened by the reference codec does not contain the payload")
			return nil
		}
		vfgo.OK(c, class, map[string]any{"recs": recs, "chunks": len(parts)})
		return nil
	}

	// ---------------- reference codec as SERVER
	openErr := make(chan error, 1)
	go func() {
		ctx, cancel := context.WithTimeout(context.Background(), patience+10*time.Second)
		defer cancel()
		openErr <- p.Client.Open(ctx)
	}()
	f := next(patience)
	if f == nil || string(f[:3]) != "OPN" {
		return fmt.Errorf("no OPN request from the gopcua client (got %q)", head(f))
	}
	o, err := refcodec.OpenAsym(ap, sk.Key, nil, f)
	if err != nil {
		violation(c, class, "opn-request-not-opened-by-reference", "reference codec cannot open gopcua's OPN request: "+err.Error())
		return nil
	}
	recs = append(recs, asymRec(r.Pol, ck.Key.Size(), sk.Key.Size(), o))
	_, svc, err := ua.DecodeService(o.Body)
	if err != nil {
		return err
	}
	oreq := svc.(*ua.OpenSecureChannelRequest)
	sn := nonce()
	resp := &ua.OpenSecureChannelResponse{
		ResponseHeader: chanpair.RespHeader(oreq.RequestHeader.RequestHandle, ua.StatusOK),
		SecurityToken:  &ua.ChannelSecurityToken{ChannelID: 4711, TokenID: 9, CreatedAt: time.Now(), RevisedLifetime: 3600000},
		ServerNonce:    sn,
	}
	opn, l, err := refcodec.BuildAsym(ap, sk.Key, pubOf(o.SenderCert), refcodec.AsymChunk{ChannelID: 4711, PolicyURI: polURI,
		SenderCert: sk.Cert, ReceiverThumb: refcodec.Thumbprint(ck.Cert), Seq: 500, ReqID: o.ReqID, Body: svcBody(resp)})
	if err != nil {
		return fmt.Errorf("BuildAsym: %w", err)
	}
	recs = append(recs, layoutRec("asym", r.Pol, sk.Key.Size(), ck.Key.Size(), len(opn)-12-l.Enc, l, ck.Key.Size()-ap.EncPad))
	if err := p.Inject("s2c", opn); err != nil {
		return err
	}
	if err := <-openErr; err != nil {
		if !final && timeoutish(err.Error()) {
			return err
		}
		violation(c, class, "reference-opn-response-rejected", "gopcua client channel rejects the OPN response built by the reference codec: "+err.Error())
		return nil
	}
	kc, ks, err := refcodec.DeriveKeys(sp, oreq.ClientNonce, sn)
	if err != nil {
		return err
	}
	L := r.N - respBase
	var delivered []byte
	derr := ""
	done := make(chan error, 1)
	go func() {
		ctx, cancel := context.WithTimeout(context.Background(), patience+10*time.Second)
		defer cancel()
		done <- p.Client.SendRequest(ctx, writeReq(r.N-reqBase, salt), nil, func(resp ua.Response) error {
			if q, ok := resp.(*ua.ReadResponse); ok && len(q.Results) == 1 && q.Results[0].Value != nil {
				delivered = asBytes(q.Results[0].Value.Value())
			} else {
				derr = fmt.Sprintf("client channel delivered %T", resp)
			}
			return nil
		})
	}()
	var cat []byte
	var reqID uint32
	for {
		f := next(patience)
		if f == nil {
			return fmt.Errorf("gopcua client sent no request")
		}
		o, err := refcodec.OpenSym(sp, r.Mode, kc, f)
		if err != nil {
			violation(c, class, "chunk-not-opened-by-reference", fmt.Sprintf("request chunk (%d bytes): %v", len(f), err))
			return nil
		}
		recs = append(recs, symRec(r, o.Observed))
		cat = append(cat, o.Body...)
		reqID = o.ReqID
		if o.ChannelID != 4711 || o.TokenID != 9 {
			violation(c, class, "wrong-channel-or-token-id", fmt.Sprintf("request chunk carries channel %d token %d, issued 4711/9", o.ChannelID, o.TokenID))
			return nil
		}
		if o.Kind == 'F' {
			break
		}
	}
	if len(cat) != r.N || !bytes.Contains(cat, payload(r.N-reqBase, salt)) {
		violation(c, class, "reference-reassembly-differs", fmt.Sprintf("request opened by the reference codec: %d bytes, want %d", len(cat), r.N))
		return nil
	}
	body := svcBody(readResp(0, L, salt))
	parts, ok := cut(r, body)
	if !ok {
		return fmt.Errorf("row does not cut a body of %d bytes", len(body))
	}
	for i, part := range parts {
		ch, err := refcodec.BuildSym(sp, r.Mode, ks, r.Chunks[i], refcodec.SymChunk{MsgType: "MSG", Kind: r.Chunks[i].Kind[0], ChannelID: 4711, TokenID: 9, Seq: 501 + uint32(i), ReqID: reqID, Body: part})
		if err != nil {
			return fmt.Errorf("BuildSym: %w", err)
		}
		if err := p.Inject("s2c", ch); err != nil {
			return err
		}
	}
	if err := <-done; err != nil {
		if !final && timeoutish(err.Error()) {
			return err
		}
		derr = "client channel: " + err.Error()
	}
	switch {
	case derr != "":
		violation(c, class, "reference-chunks-rejected", fmt.Sprintf("body %d in %d chunks built by the reference codec as server: %s", r.N, len(parts), derr))
	case !bytes.Equal(delivered, payload(L, salt)):
		violation(c, class, "reference-chunks-delivered-differently", fmt.Sprintf("body %d: delivered payload differs at %d", r.N, firstDiff(delivered, payload(L, salt))))
	default:
		// ---- renewal: two valid tokens. A conforming server may keep using the previous token until it
		// has seen the new one in use (Part 4 5.5.2); the client must accept chunks under either.
		if msg := renewPhase(r, p, next, ap, sp, ck, sk, polURI, kc, ks, &recs, final); msg != "" {
			if msg[0] == '!' {
				return fmt.Errorf("%s", msg[1:])
			}
			return nil // violation already reported
		}
		vfgo.OK(c, class, map[string]any{"recs": recs, "chunks": len(parts), "renewed": true})
	}
	return nil
}

// renewPhase runs on an open refserver pair (channel 4711, token 9). Returns "" on success, "!text" for a
// machinery problem, anything else after a violation has been reported.
func renewPhase(r row, p *chanpair.Pair, next func(time.Duration) []byte, ap refcodec.AsymParams, sp refcodec.SymParams,
	ck, sk *keys.Pair, polURI string, kcOld, ksOld refcodec.Keys, recs *[]map[string]any, final bool) string {
	c := id(r, "refserver-renew", "refcodec")
	class := fmt.Sprintf("renew/%s/%s/ck=%s/sk=%s", r.Pol, r.Mode, r.CKey, r.SKey)
	patience := 15 * time.Second
	if final {
		patience = 40 * time.Second
	}
	renewErr := make(chan error, 1)
	go func() {
		ctx, cancel := context.WithTimeout(context.Background(), patience+5*time.Second)
		defer cancel()
		renewErr <- p.Client.Renew(ctx)
	}()
	f := next(patience)
	if f == nil || string(f[:3]) != "OPN" {
		return "!no OPN renew request from the gopcua client"
	}
	o, err := refcodec.OpenAsym(ap, sk.Key, nil, f)
	if err != nil {
		violation(c, class, "opn-request-not-opened-by-reference", "reference codec cannot open gopcua's OPN renew request: "+err.Error())
		return "v"
	}
	*recs = append(*recs, asymRec(r.Pol, ck.Key.Size(), sk.Key.Size(), o))
	_, svc, err := ua.DecodeService(o.Body)
	if err != nil {
		return "!" + err.Error()
	}
	oreq, ok := svc.(*ua.OpenSecureChannelRequest)
	if !ok || oreq.RequestType != ua.SecurityTokenRequestTypeRenew {
		violation(c, class, "renew-request-malformed", fmt.Sprintf("renew request is %T type %v", svc, oreq))
		return "v"
	}
	sn := make([]byte, sp.Nonce)
	rand.Read(sn)
	resp := &ua.OpenSecureChannelResponse{
		ResponseHeader: chanpair.RespHeader(oreq.RequestHeader.RequestHandle, ua.StatusOK),
		SecurityToken:  &ua.ChannelSecurityToken{ChannelID: 4711, TokenID: 10, CreatedAt: time.Now(), RevisedLifetime: 3600000},
		ServerNonce:    sn,
	}
	opn, _, err := refcodec.BuildAsym(ap, sk.Key, pubOf(o.SenderCert), refcodec.AsymChunk{ChannelID: 4711, PolicyURI: polURI,
		SenderCert: sk.Cert, ReceiverThumb: refcodec.Thumbprint(ck.Cert), Seq: 600, ReqID: o.ReqID, Body: svcBody(resp)})
	if err != nil {
		return "!BuildAsym: " + err.Error()
	}
	if err := p.Inject("s2c", opn); err != nil {
		return "!" + err.Error()
	}
	if err := <-renewErr; err != nil {
		if !final && timeoutish(err.Error()) {
			return "!renew: " + err.Error()
		}
		violation(c, class, "reference-opn-response-rejected", "gopcua client rejects the OPN renew response built by the reference codec: "+err.Error())
		return "v"
	}
	kcNew, _, err := refcodec.DeriveKeys(sp, oreq.ClientNonce, sn)
	if err != nil {
		return "!" + err.Error()
	}
	// the client's next request: new token, new keys; answered under the PREVIOUS token
	L := 64
	salt := byte(0x3c)
	var delivered []byte
	derr := ""
	done := make(chan error, 1)
	go func() {
		ctx, cancel := context.WithTimeout(context.Background(), patience+5*time.Second)
		defer cancel()
		done <- p.Client.SendRequest(ctx, chanpair.ReadReq(0, 2261), nil, func(resp ua.Response) error {
			if q, ok := resp.(*ua.ReadResponse); ok && len(q.Results) == 1 && q.Results[0].Value != nil {
				delivered = asBytes(q.Results[0].Value.Value())
			} else {
				derr = fmt.Sprintf("client channel delivered %T", resp)
			}
			return nil
		})
	}()
	f = next(patience)
	if f == nil {
		return "!no request after the renewal"
	}
	keysUsed, tokWant := kcNew, uint32(10)
	if len(f) >= 16 && binary.LittleEndian.Uint32(f[12:]) == 9 {
		keysUsed, tokWant = kcOld, 9 // still the previous token: allowed
	}
	q, err := refcodec.OpenSym(sp, r.Mode, keysUsed, f)
	if err != nil {
		violation(c, class, "chunk-not-opened-by-reference", fmt.Sprintf("request after renewal (token %d): %v", tokWant, err))
		return "v"
	}
	*recs = append(*recs, symRec(r, q.Observed))
	// response secured with the keys of the PREVIOUS token (9); its layout comes from refcodec.SymLayout
	// (same arithmetic as the row's, validated by TLC through the returned record)
	body := svcBody(readResp(0, L, salt))
	l := symLayoutFor(sp, r.Mode, len(body))
	ch, err := refcodec.BuildSym(sp, r.Mode, ksOld, l, refcodec.SymChunk{MsgType: "MSG", Kind: 'F', ChannelID: 4711, TokenID: 9, Seq: 601, ReqID: q.ReqID, Body: body})
	if err != nil {
		return "!BuildSym: " + err.Error()
	}
	*recs = append(*recs, symRec(r, l))
	if err := p.Inject("s2c", ch); err != nil {
		return "!" + err.Error()
	}
	if err := <-done; err != nil {
		if !final && timeoutish(err.Error()) {
			return "!request after renewal: " + err.Error()
		}
		derr = "client channel: " + err.Error()
	}
	switch {
	case derr != "":
		violation(c, class, "previous-token-chunk-rejected", fmt.Sprintf("after a renewal (token 9 -> 10) a response secured with the still valid previous token is not accepted: %s", derr))
		return "v"
	case !bytes.Equal(delivered, payload(L, salt)):
		violation(c, class, "reference-chunks-delivered-differently", "response under the previous token delivered with a different payload")
		return "v"
	}
	return ""
}

// symLayoutFor computes the layout of a one-chunk symmetric message of b body bytes from the table
// row (used only where no TLC row exists for that size; the record is validated by TLC afterwards).
func symLayoutFor(sp refcodec.SymParams, mode string, b int) refcodec.Layout {
	switch mode {
	case "SignAndEncrypt":
		x := 8 + b + 1 + sp.Sig
		pad := (sp.PB - x%sp.PB) % sp.PB
		return refcodec.Layout{Kind: "F", Body: b, Pad: pad, PadBytes: 1, Sig: sp.Sig, Plain: x + pad, Enc: (x + pad) / sp.PB * sp.CB, Total: 16 + (x+pad)/sp.PB*sp.CB, Encrypted: true}
	case "Sign":
		return refcodec.Layout{Kind: "F", Body: b, Sig: sp.Sig, Plain: 8 + b + sp.Sig, Enc: 8 + b + sp.Sig, Total: 24 + b + sp.Sig}
	}
	return refcodec.Layout{Kind: "F", Body: b, Plain: 8 + b, Enc: 8 + b, Total: 24 + b}
}

func asBytes(v any) []byte {
	b, _ := v.([]byte)
	return b
}

func head(f []byte) string {
	if len(f) < 4 {
		return ""
	}
	return string(f[:4])
}

func layoutRec(ev, pol string, lk, rk, h int, l refcodec.Layout, pb int) map[string]any {
	return map[string]any{"ev": ev, "pol": pol, "lk": lk, "rk": rk, "h": h, "body": l.Body, "pad": l.Pad, "padBytes": l.PadBytes,
		"sig": l.Sig, "plain": l.Plain, "enc": l.Enc, "total": l.Total, "pb": pb, "blocks": l.Enc / rk}
}
