package main

import (
	"bytes"
	"context"
	"fmt"
	"sync/atomic"
	"time"

	"github.com/gopcua/opcua/ua"
	"github.com/gopcua/opcua/uasc"

	"verifharness/chanpair"
	"verifharness/refcodec"
	"verifharness/vfgo"
)

var injectReq uint32 = 0x40000000

// doInject re-sends the message of a row as chunks built by the reference codec.
// c2s: the chunks go to the gopcua server channel, which must deliver the WriteRequest.
// s2c: the gopcua client sends a small ReadRequest (not answered by the server side of the
// pair); the reference codec answers it with the chunks of the row, protected with the
// server's keys; the client channel must deliver the ReadResponse to the caller.
func doInject(r row, p *chanpair.Pair, sl *srvLoop, dir, class string, frames [][]byte, sp refcodec.SymParams, k refcodec.Keys, sent []byte) {
	c := id(r, dir, "refcodec")
	// plaintext bodies and header fields as the reference codec sees them
	var bodies [][]byte
	var first *refcodec.SymChunk
	for _, f := range frames {
		o, err := refcodec.OpenSym(sp, r.Mode, k, f)
		if err != nil {
			return // already reported by judge
		}
		if first == nil {
			first = o
		}
		bodies = append(bodies, o.Body)
	}
	if first == nil || len(bodies) != len(r.Chunks) {
		return
	}
	build := func(seq0, reqID uint32) ([][]byte, error) {
		var out [][]byte
		for i, b := range bodies {
			ch, err := refcodec.BuildSym(sp, r.Mode, k, r.Chunks[i], refcodec.SymChunk{MsgType: "MSG", Kind: r.Chunks[i].Kind[0],
				ChannelID: first.ChannelID, TokenID: first.TokenID, Seq: seq0 + uint32(i), ReqID: reqID, Body: b})
			if err != nil {
				return nil, err
			}
			out = append(out, ch)
		}
		return out, nil
	}
	verdict := func(n int, derr string, delivered []byte) {
		switch {
		case derr != "":
			violation(c, class, "reference-chunks-rejected", fmt.Sprintf("body %d in %d chunks built by the reference codec: %s", r.N, n, derr))
		case !bytes.Equal(delivered, sent):
			violation(c, class, "reference-chunks-delivered-differently", fmt.Sprintf("body %d: payload %d bytes, delivered %d bytes, first difference at %d", r.N, len(sent), len(delivered), firstDiff(sent, delivered)))
		default:
			vfgo.OK(c, class, map[string]any{"chunks": n})
		}
	}
	if dir == "c2s" {
		_, _, seq, _, _ := uasc.VerifActive(p.Client)
		reqID := atomic.AddUint32(&injectReq, 1)
		chunks, err := build(seq+1, reqID)
		if err != nil {
			vfgo.Inconclusive(c, "reference codec cannot build the row: "+err.Error())
			return
		}
		uasc.VerifSetSequenceNumber(p.Client, seq+uint32(len(chunks)))
		w := &want{got: make(chan *uasc.MessageBody, 4)}
		sl.set(w)
		defer sl.set(nil)
		for _, ch := range chunks {
			if err := p.Inject("c2s", ch); err != nil {
				vfgo.Inconclusive(c, "inject: "+err.Error())
				return
			}
		}
		select {
		case m := <-w.got:
			if m.Err != nil {
				verdict(len(chunks), "server channel: "+m.Err.Error(), nil)
				return
			}
			q, ok := m.Request().(*ua.WriteRequest)
			if !ok || len(q.NodesToWrite) != 1 || q.NodesToWrite[0].Value == nil || q.NodesToWrite[0].Value.Value == nil {
				verdict(len(chunks), fmt.Sprintf("server channel delivered %T", m.Request()), nil)
				return
			}
			b, _ := q.NodesToWrite[0].Value.Value.Value().([]byte)
			verdict(len(chunks), "", b)
		case <-time.After(30 * time.Second):
			verdict(len(chunks), "server channel delivered nothing within 30s", nil)
		}
		return
	}
	// s2c
	var delivered []byte
	derr := ""
	done := make(chan error, 1)
	w := &want{got: make(chan *uasc.MessageBody, 4), resp: func(*uasc.MessageBody) ua.Response { return nil }}
	sl.set(w)
	defer sl.set(nil)
	go func() {
		ctx, cancel := context.WithTimeout(context.Background(), 40*time.Second)
		defer cancel()
		done <- p.Client.SendRequest(ctx, chanpair.ReadReq(0, 2259), nil, func(resp ua.Response) error {
			if q, ok := resp.(*ua.ReadResponse); ok && len(q.Results) == 1 && q.Results[0].Value != nil {
				delivered, _ = q.Results[0].Value.Value().([]byte)
			} else {
				derr = fmt.Sprintf("client channel delivered %T", resp)
			}
			return nil
		})
	}()
	var reqID uint32
	select {
	case m := <-w.got:
		if m.Err != nil {
			vfgo.Inconclusive(c, "server side: "+m.Err.Error())
			return
		}
		reqID = m.RequestID
	case err := <-done:
		vfgo.Inconclusive(c, fmt.Sprintf("request not seen by the server side: %v", err))
		return
	case <-time.After(30 * time.Second):
		vfgo.Inconclusive(c, "request not seen by the server side")
		return
	}
	_, _, seq, _, _ := uasc.VerifActive(p.Server)
	chunks, err := build(seq+1, reqID)
	if err != nil {
		vfgo.Inconclusive(c, "reference codec cannot build the row: "+err.Error())
		return
	}
	uasc.VerifSetSequenceNumber(p.Server, seq+uint32(len(chunks)))
	for _, ch := range chunks {
		if err := p.Inject("s2c", ch); err != nil {
			vfgo.Inconclusive(c, "inject: "+err.Error())
			return
		}
	}
	if err := <-done; err != nil {
		derr = "client channel: " + err.Error()
	}
	verdict(len(chunks), derr, delivered)
}
