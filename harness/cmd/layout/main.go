// Command layout replays the rows emitted by spec/ChunkLayout (C38, C07, C08) on
// real gopcua channel pairs (harness/chanpair): for every (policy, mode, chunk
// size) group one pair is opened with that negotiated chunk size, and for every
// row a message whose encoded body has exactly the row's size is sent in both
// directions.  What is on the wire (captured by a frame level proxy) and what the
// peer channel delivers is compared with the row:
//
//	C38  maximum body size of both channel instances = MaxBody of the spec; a body
//	     of that size is one chunk of exactly the predicted length <= chunk size,
//	     block aligned; MaxBody+1 makes two chunks in SignAndEncrypt mode
//	C07  number, kind ('C'/'F'), length and MessageSize of every chunk as in the
//	     row, every chunk <= chunk size, and the peer delivers the identical message
//	C08  (a) every chunk is verified / decrypted by harness/refcodec with keys derived
//	     (P_SHA) from the nonces of the decrypted OPN messages, padding, signature
//	     and lengths exactly as in the row, bodies concatenate to the encoded message;
//	     (b) the chunks refcodec builds from the same row are accepted by the gopcua
//	     channel (both directions) and yield the identical message; the OPN layout
//	     records are returned for validation by TLC (LayoutTrace).
package main

import (
	"bytes"
	"context"
	"crypto/rsa"
	"encoding/binary"
	"flag"
	"fmt"
	"sort"
	"strings"
	"sync"
	"time"

	"github.com/gopcua/opcua/ua"
	"github.com/gopcua/opcua/uacp"
	"github.com/gopcua/opcua/uasc"

	"verifharness/chanpair"
	"verifharness/keys"
	"verifharness/refcodec"
	"verifharness/vfgo"
)

type row struct {
	Table   string                         `json:"table,omitempty"`
	Sym     map[string]refcodec.SymParams  `json:"sym,omitempty"`
	Asym    map[string]refcodec.AsymParams `json:"asym,omitempty"`
	Pol     string                         `json:"pol"`
	Mode    string                         `json:"mode"`
	Cs      int                            `json:"cs"`
	MaxBody int                            `json:"maxBody"`
	N       int                            `json:"n"`
	Chunks  []refcodec.Layout              `json:"chunks,omitempty"`
	CKey    string                         `json:"ckey,omitempty"` // client / server key pair names (default 2048a / 2048b)
	SKey    string                         `json:"skey,omitempty"`
	Peer    string                         `json:"peer,omitempty"` // "" | "refclient" | "refserver": the reference codec plays one end
}

// what is reported as the case of a result (the chunk list is dropped to keep evidence small)
type caseID struct {
	Pol  string `json:"pol"`
	Mode string `json:"mode"`
	Cs   int    `json:"cs"`
	N    int    `json:"n"`
	Dir  string `json:"dir"`
	CKey string `json:"ckey,omitempty"`
	SKey string `json:"skey,omitempty"`
	Via  string `json:"via,omitempty"` // "gopcua" (sent by the real channel) | "refcodec" (built by the reference codec)
}

var (
	prop    = flag.String("prop", "C07", "property whose oracle is applied: C38 | C07 | C08")
	workers = flag.Int("workers", 6, "parallel channel pairs")
	symTab  map[string]refcodec.SymParams
	asymTab map[string]refcodec.AsymParams
)

func main() {
	vfgo.Init()
	defer vfgo.Flush()
	rows := vfgo.Cases[row]()
	groups := map[string][]row{}
	var order []string
	for _, r := range rows {
		if r.Table != "" {
			symTab, asymTab = r.Sym, r.Asym
			continue
		}
		if r.CKey == "" {
			r.CKey = "2048a"
		}
		if r.SKey == "" {
			r.SKey = "2048b"
		}
		k := fmt.Sprintf("%s/%s/%d/%s/%s", r.Pol, r.Mode, r.Cs, r.CKey, r.SKey)
		if r.Peer != "" {
			k += fmt.Sprintf("/%s/%d", r.Peer, r.N)
		}
		if _, ok := groups[k]; !ok {
			order = append(order, k)
		}
		groups[k] = append(groups[k], r)
	}
	if symTab == nil {
		vfgo.Fatalf("no policy table row (table=policy) in the cases")
	}
	for k, v := range symTab {
		v.Policy = k
		symTab[k] = v
	}
	for k, v := range asymTab {
		v.Policy = k
		asymTab[k] = v
	}
	sort.Strings(order)
	installHook()
	ch := make(chan string)
	var wg sync.WaitGroup
	for i := 0; i < *workers; i++ {
		wg.Add(1)
		go func() {
			defer wg.Done()
			for k := range ch {
				g := groups[k]
				if tooMany(id(g[0], "", "")) {
					continue
				}
				var err error
				for try := 0; try < 3; try++ { // socket trouble: fresh pair
					if g[0].Peer != "" {
						err = runPeer(g[0], try == 2)
					} else {
						err = runGroup(g, false)
					}
					if err == nil {
						break
					}
					time.Sleep(time.Duration(try+1) * 700 * time.Millisecond)
				}
				if oe, ok := err.(openError); ok && g[0].Peer == "" {
					// a valid configuration whose channel cannot be opened three times in a row (fresh sockets each time):
					// the OPN exchange itself does not round-trip
					violation(id(g[0], "opn", "gopcua"), fmt.Sprintf("open/%s/%s/ck=%s/sk=%s", g[0].Pol, g[0].Mode, g[0].CKey, g[0].SKey), "channel-cannot-be-opened",
						fmt.Sprintf("%s/%s client key %s server key %s chunk size %d: OpenSecureChannel fails: %v", g[0].Pol, g[0].Mode, g[0].CKey, g[0].SKey, g[0].Cs, oe.err))
				} else if err != nil {
					for _, r := range g {
						vfgo.Inconclusive(id(r, "both", ""), "group could not be driven: "+err.Error())
					}
				}
			}
		}()
	}
	for _, k := range order {
		ch <- k
	}
	close(ch)
	wg.Wait()
}

// fail fast: a broken tree makes every row fail after a time-out; a few failing cases per group
// and a bounded number overall are enough for the verdict.
var (
	violTotal int32
	violMu    sync.Mutex
	violGroup = map[string]int{}
)

func gkey(c caseID) string { return fmt.Sprintf("%s/%s/%d/%s/%s", c.Pol, c.Mode, c.Cs, c.CKey, c.SKey) }

func violation(c caseID, class, key, detail string) {
	violMu.Lock()
	violGroup[gkey(c)]++
	violTotal++
	violMu.Unlock()
	vfgo.Violation(c, class, key, detail)
}

func tooMany(c caseID) bool {
	violMu.Lock()
	defer violMu.Unlock()
	return violGroup[gkey(c)] >= 2 || violTotal >= 30
}

func id(r row, dir, via string) caseID {
	return caseID{Pol: r.Pol, Mode: r.Mode, Cs: r.Cs, N: r.N, Dir: dir, CKey: r.CKey, SKey: r.SKey, Via: via}
}

// capture collects the frames seen by the proxy per direction.
type capture struct {
	mu sync.Mutex
	fr map[string][][]byte
	ev []map[string]any // trace events (C07 code -> spec), in causal order: a chunk passes the proxy before the peer reads it
}

func (c *capture) event(e map[string]any) {
	c.mu.Lock()
	c.ev = append(c.ev, e)
	c.mu.Unlock()
}

// chanCap maps a channel to the capture of its pair and the direction it RECEIVES (hook recv.chunk).
var chanCap sync.Map // *uasc.SecureChannel -> recvSide

type recvSide struct {
	cap *capture
	dir string
}

func installHook() {
	uasc.VerifHook.Store(func(point string, s *uasc.SecureChannel, kv ...any) {
		if point != "recv.chunk" {
			return
		}
		v, ok := chanCap.Load(s)
		if !ok {
			return
		}
		rs := v.(recvSide)
		e := map[string]any{"ev": "recv", "dir": rs.dir}
		for i := 0; i+1 < len(kv); i += 2 {
			switch kv[i] {
			case "type":
				e["type"] = fmt.Sprint(kv[i+1])
			case "kind":
				if b, ok := kv[i+1].(byte); ok {
					e["kind"] = string([]byte{b})
				}
			case "len":
				e["body"] = kv[i+1]
			}
		}
		if e["type"] == "MSG" {
			rs.cap.event(e)
		}
	})
}

func (c *capture) tap(f chanpair.Frame) [][]byte {
	c.mu.Lock()
	c.fr[f.Dir] = append(c.fr[f.Dir], append([]byte(nil), f.Data...))
	if f.Type() == "MSG" && len(f.Data) >= 8 {
		c.ev = append(c.ev, map[string]any{"ev": "send", "dir": f.Dir, "kind": string(f.Data[3:4]), "total": len(f.Data), "msgSize": int(binary.LittleEndian.Uint32(f.Data[4:]))})
	}
	c.mu.Unlock()
	return chanpair.Pass(f)
}
func (c *capture) mark(dir string) int {
	c.mu.Lock()
	defer c.mu.Unlock()
	return len(c.fr[dir])
}
func (c *capture) since(dir string, n int) [][]byte {
	c.mu.Lock()
	defer c.mu.Unlock()
	return append([][]byte(nil), c.fr[dir][n:]...)
}

// ---- messages with an exactly known encoded body size (TypeID + service)

func payload(n int, salt byte) []byte {
	b := make([]byte, n)
	for i := range b {
		b[i] = byte(i*7+i>>8) ^ salt
	}
	return b
}

func writeReq(L int, salt byte) *ua.WriteRequest {
	return &ua.WriteRequest{NodesToWrite: []*ua.WriteValue{{
		NodeID: ua.NewNumericNodeID(0, 1), AttributeID: ua.AttributeIDValue,
		Value: &ua.DataValue{EncodingMask: ua.DataValueValue, Value: ua.MustVariant(payload(L, salt))}}}}
}

func reqBodyLen(L int) int {
	r := writeReq(L, 0)
	r.SetHeader(&ua.RequestHeader{AuthenticationToken: ua.NewTwoByteNodeID(0), Timestamp: time.Now(), RequestHandle: 1})
	b, err := ua.Encode(r)
	if err != nil {
		vfgo.Fatalf("encode request: %v", err)
	}
	return 4 + len(b)
}

func readResp(handle uint32, L int, salt byte) *ua.ReadResponse {
	return &ua.ReadResponse{ResponseHeader: chanpair.RespHeader(handle, ua.StatusOK),
		Results:         []*ua.DataValue{{EncodingMask: ua.DataValueValue, Value: ua.MustVariant(payload(L, salt))}},
		DiagnosticInfos: []*ua.DiagnosticInfo{}}
}

func respBodyLen(L int) int {
	b, err := ua.Encode(readResp(1, L, 0))
	if err != nil {
		vfgo.Fatalf("encode response: %v", err)
	}
	return 4 + len(b)
}

var (
	reqBase  = -1
	respBase = -1
	baseOnce sync.Once
)

func bases() {
	baseOnce.Do(func() {
		reqBase, respBase = reqBodyLen(0), respBodyLen(0)
		if reqBodyLen(1000) != reqBase+1000 || respBodyLen(1000) != respBase+1000 {
			vfgo.Fatalf("body size is not affine in the payload length")
		}
	})
}

// ---- one group = one channel pair

type side struct {
	keys refcodec.Keys // keys protecting what this side SENDS
}

func runGroup(g []row, slow bool) error {
	// slow: second attempt of rows whose first attempt ran into a time-out (loaded machine): generous slack
	reqTO, ctxTO, waitTO := 6*time.Second, 8*time.Second, 5*time.Second
	if slow {
		reqTO, ctxTO, waitTO = 45*time.Second, 50*time.Second, 45*time.Second
	}
	var again []row
	tainted := false
	bases()
	r0 := g[0]
	cap := &capture{fr: map[string][][]byte{}}
	ack := func() *uacp.Acknowledge {
		return &uacp.Acknowledge{ReceiveBufSize: uint32(r0.Cs) + 4096, SendBufSize: uint32(r0.Cs), MaxChunkCount: 8192, MaxMessageSize: 1 << 28}
	}
	p, err := chanpair.Open(chanpair.Opts{Policy: r0.Pol, Mode: r0.Mode, ClientKey: r0.CKey, ServerKey: r0.SKey,
		ClientACK: ack(), ServerACK: ack(), Tap: cap.tap, RequestTimeout: reqTO})
	if err != nil {
		return openError{err}
	}
	defer p.Close()
	chanCap.Store(p.Server, recvSide{cap, "c2s"})
	chanCap.Store(p.Client, recvSide{cap, "s2c"})
	defer chanCap.Delete(p.Server)
	defer chanCap.Delete(p.Client)
	var trace []map[string]any
	// message brackets the events of one message; only events of its direction belong to it
	begin := func(r row, dir string) int {
		cap.mu.Lock()
		defer cap.mu.Unlock()
		return len(cap.ev)
	}
	end := func(r row, dir string, from int, same bool) {
		cap.mu.Lock()
		evs := append([]map[string]any(nil), cap.ev[from:]...)
		cap.mu.Unlock()
		trace = append(trace, map[string]any{"ev": "msg", "pol": r.Pol, "mode": r.Mode, "cs": r.Cs, "n": r.N, "dir": dir})
		for _, e := range evs {
			if e["dir"] == dir {
				trace = append(trace, e)
			}
		}
		trace = append(trace, map[string]any{"ev": "deliver", "same": same, "dir": dir})
	}
	defer func() {
		if *prop == "C07" && len(trace) > 0 {
			vfgo.OK(id(r0, "trace", "gopcua"), "", map[string]any{"trace": trace})
		}
	}()

	sl := &srvLoop{}
	go sl.run(p)
	setWant := sl.set

	// C38: the maximum body size of both instances is the specification's
	_, _, _, mbC, okC := uasc.VerifActive(p.Client)
	_, _, _, mbS, okS := uasc.VerifActive(p.Server)
	// the server installs its instance after it has sent the OPN response: the client's Open may return first
	for i := 0; i < 300 && !okS; i++ {
		time.Sleep(10 * time.Millisecond)
		_, _, _, mbS, okS = uasc.VerifActive(p.Server)
	}
	if !okC || !okS {
		return fmt.Errorf("no active instance")
	}
	mbOK := int(mbC) == r0.MaxBody && int(mbS) == r0.MaxBody

	// keys for the reference codec, from the nonces of the (decrypted) OPN exchange
	var kc, ks refcodec.Keys // protect client->server, server->client
	sp := symTab[r0.Pol]
	haveKeys := false
	var asymObs []map[string]any
	if *prop == "C08" && r0.Pol != "None" {
		ap := asymTab[r0.Pol]
		ck, sk := keys.Get(r0.CKey), keys.Get(r0.SKey)
		c2s, s2c := cap.since("c2s", 0), cap.since("s2c", 0)
		var opnReq, opnResp []byte
		for _, f := range c2s {
			if string(f[:3]) == "OPN" {
				opnReq = f
			}
		}
		for _, f := range s2c {
			if string(f[:3]) == "OPN" {
				opnResp = f
			}
		}
		if opnReq == nil || opnResp == nil {
			return fmt.Errorf("OPN frames not captured")
		}
		cn, o1, err1 := openOPN(ap, sk.Key, opnReq, true)
		sn, o2, err2 := openOPN(ap, ck.Key, opnResp, false)
		cls := fmt.Sprintf("opn/%s/ck=%s/sk=%s", r0.Pol, r0.CKey, r0.SKey)
		if err1 != nil {
			violation(id(r0, "c2s", "gopcua"), cls, "opn-request-not-opened-by-reference", "reference codec cannot open gopcua's OPN request: "+err1.Error())
		} else if err2 != nil {
			violation(id(r0, "s2c", "gopcua"), cls, "opn-response-not-opened-by-reference", "reference codec cannot open gopcua's OPN response: "+err2.Error())
		} else {
			kc, ks, err = refcodec.DeriveKeys(sp, cn, sn)
			if err != nil {
				return err
			}
			haveKeys = true
			asymObs = append(asymObs, asymRec(r0.Pol, ck.Key.Size(), sk.Key.Size(), o1), asymRec(r0.Pol, sk.Key.Size(), ck.Key.Size(), o2))
			vfgo.OK(id(r0, "opn", "gopcua"), cls, map[string]any{"asym": asymObs, "clientNonce": len(cn), "serverNonce": len(sn)})
		}
	}

	for i, r := range g {
		if tooMany(id(r, "", "")) {
			break
		}
		salt := byte(i*31 + 1)
		cls := func(dir string) string {
			last := "short"
			if l := r.Chunks[len(r.Chunks)-1].Body; l == 0 {
				last = "empty"
			} else if l == r.MaxBody {
				last = "full"
			}
			return fmt.Sprintf("%s/%s/cs%%16=%d/chunks=%d/last=%s/%s", r.Pol, r.Mode, r.Cs%16, len(r.Chunks), last, dir)
		}
		if !mbOK {
			// SignAndEncrypt: fit + tightness determine the value uniquely (ThmC38); Sign / None: only the fit is required
			bound := r.Cs - 24 - r.Chunks[0].Sig
			bad := r.Mode == "SignAndEncrypt" || int(mbC) > bound || int(mbS) > bound || mbC == 0 || mbS == 0
			if bad {
				violation(id(r, "both", "gopcua"), cls("maxbody"), "maxbody-differs-from-spec",
					fmt.Sprintf("chunk size %d %s/%s: channel maxBodySize client=%d server=%d, specification MaxBody=%d (largest body that fits: %d)", r.Cs, r.Pol, r.Mode, mbC, mbS, r.MaxBody, bound))
				continue
			}
		}
		// ---------------- client -> server: WriteRequest with a body of exactly n bytes
		if r.N >= reqBase {
			L := r.N - reqBase
			req := writeReq(L, salt)
			w := &want{got: make(chan *uasc.MessageBody, 4), resp: func(m *uasc.MessageBody) ua.Response {
				h := uint32(0)
				if q, ok := m.Request().(*ua.WriteRequest); ok && q.RequestHeader != nil {
					h = q.RequestHeader.RequestHandle
				}
				return &ua.WriteResponse{ResponseHeader: chanpair.RespHeader(h, ua.StatusOK), Results: []ua.StatusCode{0}, DiagnosticInfos: []*ua.DiagnosticInfo{}}
			}}
			setWant(w)
			mark := cap.mark("c2s")
			ev0 := begin(r, "c2s")
			ctx, cancel := context.WithTimeout(context.Background(), ctxTO)
			serr := p.Client.SendRequest(ctx, req, nil, func(ua.Response) error { return nil })
			cancel()
			var got *uasc.MessageBody
			select {
			case got = <-w.got:
			case <-time.After(waitTO):
			}
			setWant(nil)
			frames := msgFrames(cap.since("c2s", mark))
			var delivered []byte
			derr := ""
			if got == nil {
				derr = fmt.Sprintf("server channel delivered nothing (send error: %v)", serr)
			} else if got.Err != nil {
				derr = "server channel: " + got.Err.Error()
			} else if q, ok := got.Request().(*ua.WriteRequest); !ok || len(q.NodesToWrite) != 1 || q.NodesToWrite[0].Value == nil || q.NodesToWrite[0].Value.Value == nil {
				derr = fmt.Sprintf("server channel delivered %T", got.Request())
			} else {
				delivered, _ = q.NodesToWrite[0].Value.Value.Value().([]byte)
			}
			if serr != nil && derr == "" {
				derr = "SendRequest: " + serr.Error()
			}
			if timeoutish(derr) {
				tainted = true // a late message of this row may still arrive on this pair
				if !slow {
					again = append(again, g[i:]...)
					break
				}
			}
			end(r, "c2s", ev0, derr == "" && bytes.Equal(delivered, payload(L, salt)))
			judge(r, "c2s", cls("c2s"), frames, payload(L, salt), delivered, derr, haveKeys, sp, kc, tainted)
			if *prop == "C08" && haveKeys {
				doInject(r, p, sl, "c2s", cls("c2s-ref"), frames, sp, kc, payload(L, salt))
			}
		}
		// ---------------- server -> client: ReadResponse with a body of exactly n bytes
		if r.N >= respBase {
			L := r.N - respBase
			w := &want{got: make(chan *uasc.MessageBody, 4), resp: func(m *uasc.MessageBody) ua.Response {
				h := uint32(0)
				if q, ok := m.Request().(*ua.ReadRequest); ok && q.RequestHeader != nil {
					h = q.RequestHeader.RequestHandle
				}
				return readResp(h, L, salt)
			}}
			setWant(w)
			mark := cap.mark("s2c")
			ev0 := begin(r, "s2c")
			var delivered []byte
			derr := ""
			ctx, cancel := context.WithTimeout(context.Background(), ctxTO)
			serr := p.Client.SendRequest(ctx, chanpair.ReadReq(0, 2258), nil, func(resp ua.Response) error {
				if q, ok := resp.(*ua.ReadResponse); ok && len(q.Results) == 1 && q.Results[0].Value != nil {
					delivered, _ = q.Results[0].Value.Value().([]byte)
				} else {
					derr = fmt.Sprintf("client channel delivered %T", resp)
				}
				return nil
			})
			cancel()
			setWant(nil)
			if serr != nil {
				derr = "client channel: " + serr.Error()
			}
			frames := msgFrames(cap.since("s2c", mark))
			if timeoutish(derr) {
				tainted = true
				if !slow {
					again = append(again, g[i:]...)
					break
				}
			}
			end(r, "s2c", ev0, derr == "" && bytes.Equal(delivered, payload(L, salt)))
			judge(r, "s2c", cls("s2c"), frames, payload(L, salt), delivered, derr, haveKeys, sp, ks, tainted)
			if *prop == "C08" && haveKeys {
				doInject(r, p, sl, "s2c", cls("s2c-ref"), frames, sp, ks, payload(L, salt))
			}
		}
	}
	if len(again) > 0 {
		// a time-out on the first attempt is not a verdict, and the pair may still deliver the late message:
		// the row and the rest of the group once more on a fresh pair, with generous slack
		var err error
		for try := 0; try < 2; try++ {
			if err = runGroup(again, true); err == nil {
				break
			}
		}
		if err != nil {
			for _, r := range again {
				vfgo.Inconclusive(id(r, "both", ""), "retry could not be driven: "+err.Error())
			}
		}
	}
	return nil
}

// srvLoop is the application on the server side of a pair: it hands every delivered
// message to the current expectation and answers it as the expectation says.
type openError struct{ err error }

func (e openError) Error() string { return "open: " + e.err.Error() }

type want struct {
	got  chan *uasc.MessageBody
	resp func(m *uasc.MessageBody) ua.Response
}

type srvLoop struct {
	mu  sync.Mutex
	cur *want
}

func (s *srvLoop) set(w *want) {
	s.mu.Lock()
	s.cur = w
	s.mu.Unlock()
}

func (s *srvLoop) run(p *chanpair.Pair) {
	for m := range p.ServerMsgs {
		s.mu.Lock()
		w := s.cur
		s.mu.Unlock()
		if m.Err == nil {
			if m.Request() == nil {
				continue
			}
			if _, ok := m.Request().(*ua.OpenSecureChannelRequest); ok {
				continue
			}
		}
		if w == nil {
			continue
		}
		if m.Err == nil && w.resp != nil {
			if resp := w.resp(m); resp != nil {
				p.Server.SendResponseWithContext(context.Background(), m.RequestID, resp)
			}
		}
		select {
		case w.got <- m:
		default:
		}
	}
}

func timeoutish(derr string) bool {
	return strings.Contains(derr, "timed out") || strings.Contains(derr, "deadline") || strings.Contains(derr, "delivered nothing") || strings.Contains(derr, "Timeout")
}

func msgFrames(fr [][]byte) [][]byte {
	var out [][]byte
	for _, f := range fr {
		if string(f[:3]) == "MSG" {
			out = append(out, f)
		}
	}
	return out
}

// judge compares the captured chunks and the delivered payload with the row. The row is the
// chunking of the implementation as modelled (MaxBody bytes per intermediate chunk). If the wire
// shows exactly the row, every length is as the specification computes it. If it does not, the
// property's own contract decides (the statement does not prescribe how a message is cut): every
// chunk <= chunk size, MessageSize = length, kinds C..CF, ciphertext block aligned, the peer
// delivers the identical message; with the reference codec (C08) every chunk is opened and its
// layout record is returned for validation by TLC.
func judge(r row, dir, class string, frames [][]byte, sent, delivered []byte, derr string, haveKeys bool, sp refcodec.SymParams, k refcodec.Keys, tainted bool) {
	c := id(r, dir, "gopcua")
	obs := map[string]any{"chunks": len(frames), "lens": lens(frames)}
	exact := len(frames) == len(r.Chunks)
	if exact {
		for i, f := range frames {
			if len(f) != r.Chunks[i].Total || string(f[3:4]) != r.Chunks[i].Kind {
				exact = false
			}
		}
	}
	obs["exact"] = exact
	if len(frames) == 0 {
		violation(c, class, "nothing-sent", fmt.Sprintf("body %d: no chunk on the wire (%s)", r.N, derr))
		return
	}
	for i, f := range frames {
		ms := int(binary.LittleEndian.Uint32(f[4:]))
		last := i == len(frames)-1
		switch {
		case len(f) > r.Cs:
			violation(c, class, "chunk-exceeds-chunk-size", fmt.Sprintf("body %d, maxBodySize %d: chunk %d/%d has %d bytes, negotiated chunk size %d (%s)", r.N, r.MaxBody, i+1, len(frames), len(f), r.Cs, lens(frames)))
			return
		case ms != len(f):
			violation(c, class, "messagesize-differs-from-length", fmt.Sprintf("chunk %d/%d: MessageSize %d, length %d", i+1, len(frames), ms, len(f)))
			return
		case !last && f[3] != 'C':
			violation(c, class, "intermediate-chunk-marked-final", fmt.Sprintf("chunk %d/%d is marked %q (%s)", i+1, len(frames), f[3:4], lens(frames)))
			return
		case last && f[3] != 'F':
			violation(c, class, "last-chunk-not-final", fmt.Sprintf("chunk %d/%d is marked %q (%s)", i+1, len(frames), f[3:4], lens(frames)))
			return
		case r.Mode == "SignAndEncrypt" && (len(f)-16)%sp.CB != 0:
			violation(c, class, "ciphertext-not-block-aligned", fmt.Sprintf("chunk %d/%d: %d bytes after the security header, cipher block %d", i+1, len(frames), len(f)-16, sp.CB))
			return
		}
	}
	// C38 tightness: in SignAndEncrypt mode MaxBody+1 bytes cannot be one chunk (the specification proves it does not fit)
	if r.Mode == "SignAndEncrypt" && r.N > r.MaxBody && len(frames) == 1 {
		violation(c, class, "body-above-maximum-in-one-chunk", fmt.Sprintf("body %d > MaxBody %d sent as one chunk of %d bytes", r.N, r.MaxBody, len(frames[0])))
		return
	}
	if r.Mode != "SignAndEncrypt" {
		// without encryption the body bytes on the wire are visible: they must add up to the message
		sum := 0
		for _, f := range frames {
			sum += len(f) - 24 - r.Chunks[0].Sig
		}
		if sum != r.N {
			violation(c, class, "chunk-bodies-do-not-add-up", fmt.Sprintf("body %d: the chunk bodies on the wire add up to %d (%s)", r.N, sum, lens(frames)))
			return
		}
	}
	if *prop == "C08" && (haveKeys || r.Pol == "None") {
		var cat []byte
		var lastSeq uint32
		var recs []map[string]any
		for i, f := range frames {
			o, err := refcodec.OpenSym(sp, r.Mode, k, f)
			if err != nil {
				violation(c, class, "chunk-not-opened-by-reference", fmt.Sprintf("chunk %d/%d (%d bytes): %v", i+1, len(frames), len(f), err))
				return
			}
			if exact && !o.Observed.Equal(r.Chunks[i]) {
				violation(c, class, "chunk-layout-differs-from-spec", fmt.Sprintf("chunk %d/%d: observed %+v, specification %+v", i+1, len(frames), o.Observed, r.Chunks[i]))
				return
			}
			if i > 0 && o.Seq != lastSeq+1 {
				violation(c, class, "sequence-number-not-consecutive", fmt.Sprintf("chunk %d/%d: sequence number %d after %d", i+1, len(frames), o.Seq, lastSeq))
				return
			}
			lastSeq = o.Seq
			cat = append(cat, o.Body...)
			recs = append(recs, symRec(r, o.Observed))
		}
		if len(cat) != r.N || !bytes.Contains(cat, sent) {
			violation(c, class, "reference-reassembly-differs", fmt.Sprintf("bodies opened by the reference codec: %d bytes, message %d bytes, payload found: %v", len(cat), r.N, bytes.Contains(cat, sent)))
			return
		}
		obs["opened_by_reference"] = true
		obs["sym"] = recs
	}
	if derr != "" {
		violation(c, class, "peer-does-not-deliver", fmt.Sprintf("body %d (%d chunks %s): %s", r.N, len(frames), lens(frames), derr))
		return
	}
	if !bytes.Equal(sent, delivered) && tainted {
		vfgo.Inconclusive(c, "payload differs, but an earlier exchange on this pair timed out: a late message of that exchange may have been taken for this one")
		return
	}
	if !bytes.Equal(sent, delivered) {
		violation(c, class, "peer-delivers-different-message", fmt.Sprintf("body %d (%d chunks): payload sent %d bytes, delivered %d bytes, first difference at %d", r.N, len(frames), len(sent), len(delivered), firstDiff(sent, delivered)))
		return
	}
	if !exact {
		class += "/alt-chunking"
	}
	vfgo.OK(c, class, obs)
}

// symRec is the observed layout of a symmetric chunk, validated afterwards by TLC (LayoutTrace).
func symRec(r row, o refcodec.Layout) map[string]any {
	return map[string]any{"ev": "sym", "pol": r.Pol, "mode": r.Mode, "cs": r.Cs, "body": o.Body, "pad": o.Pad, "padBytes": o.PadBytes,
		"sig": o.Sig, "plain": o.Plain, "enc": o.Enc, "total": o.Total}
}

func lens(fr [][]byte) string {
	s := ""
	for i, f := range fr {
		if i > 0 {
			s += ","
		}
		s += fmt.Sprintf("%c%d", f[3], len(f))
	}
	return s
}

func firstDiff(a, b []byte) int {
	for i := 0; i < len(a) && i < len(b); i++ {
		if a[i] != b[i] {
			return i
		}
	}
	if len(a) != len(b) {
		if len(a) < len(b) {
			return len(a)
		}
		return len(b)
	}
	return -1
}

// openOPN opens an OPN chunk with the reference codec and returns the nonce of the service body.
func openOPN(ap refcodec.AsymParams, key *rsa.PrivateKey, f []byte, isReq bool) ([]byte, *refcodec.AsymChunk, error) {
	o, err := refcodec.OpenAsym(ap, key, nil, f)
	if err != nil {
		return nil, nil, err
	}
	_, svc, err := ua.DecodeService(o.Body)
	if err != nil {
		return nil, o, fmt.Errorf("service body: %w", err)
	}
	if isReq {
		q, ok := svc.(*ua.OpenSecureChannelRequest)
		if !ok {
			return nil, o, fmt.Errorf("body is %T", svc)
		}
		return q.ClientNonce, o, nil
	}
	q, ok := svc.(*ua.OpenSecureChannelResponse)
	if !ok {
		return nil, o, fmt.Errorf("body is %T", svc)
	}
	return q.ServerNonce, o, nil
}

// asymRec is the layout record of an OPN chunk, validated afterwards by TLC (LayoutTrace).
func asymRec(pol string, lk, rk int, o *refcodec.AsymChunk) map[string]any {
	pbMax, pbMin := 0, 1<<30
	for i, n := range o.BlockPlain {
		if n > pbMax {
			pbMax = n
		}
		if i < len(o.BlockPlain)-1 && n < pbMin {
			pbMin = n
		}
	}
	return map[string]any{"ev": "asym", "pol": pol, "lk": lk, "rk": rk, "h": o.SecHdrLen, "body": o.Observed.Body,
		"pad": o.Observed.Pad, "padBytes": o.Observed.PadBytes, "sig": o.Observed.Sig, "plain": o.Observed.Plain,
		"enc": o.Observed.Enc, "total": o.Observed.Total, "pb": pbMax, "blocks": len(o.BlockPlain)}
}
