package main

import (
	"context"
	"encoding/binary"
	"fmt"
	"time"

	"github.com/gopcua/opcua/ua"
	"github.com/gopcua/opcua/uapolicy"
	"github.com/gopcua/opcua/uasc"

	"verifharness/chanpair"
)

// securedChunk lays out one final MSG chunk (Part 6 6.7.2: message header, symmetric security
// header, sequence header, body, padding, signature) and protects it with the given keys. It is
// used to write a response that is protected with the keys of a token the library's own server
// channel no longer has (the server channel re-keys its only instance in place).
func securedChunk(mode string, algo *uapolicy.EncryptionAlgorithm, chanID, tokID, seq, req uint32, body []byte) ([]byte, error) {
	b := make([]byte, 24, 24+len(body)+64)
	copy(b, "MSGF")
	binary.LittleEndian.PutUint32(b[8:], chanID)
	binary.LittleEndian.PutUint32(b[12:], tokID)
	binary.LittleEndian.PutUint32(b[16:], seq)
	binary.LittleEndian.PutUint32(b[20:], req)
	b = append(b, body...)
	switch mode {
	case "Sign":
		sl := algo.SignatureLength()
		binary.LittleEndian.PutUint32(b[4:], uint32(len(b)+sl))
		sig, err := algo.Signature(b)
		if err != nil {
			return nil, err
		}
		return append(b, sig...), nil
	case "SignAndEncrypt":
		sl := algo.SignatureLength()
		bs := algo.PlaintextBlockSize()
		n := 8 + len(body) + 1 + sl
		pad := (bs - n%bs) % bs
		for i := 0; i <= pad; i++ {
			b = append(b, byte(pad))
		}
		binary.LittleEndian.PutUint32(b[4:], uint32(len(b)+sl))
		sig, err := algo.Signature(b)
		if err != nil {
			return nil, err
		}
		b = append(b, sig...)
		c, err := algo.Encrypt(append([]byte(nil), b[16:]...))
		if err != nil {
			return nil, err
		}
		if len(c) != len(b)-16 {
			return nil, fmt.Errorf("cipher text %d, plain text %d", len(c), len(b)-16)
		}
		return append(b[:16:16], c...), nil
	}
	return nil, fmt.Errorf("mode %q", mode)
}

// runOldToken (C16, ScToken machine behaviour  Send(s2c, token 1) ; Renew ; Recv): a request is
// pending, the token is renewed, then the response arrives protected with the keys of the token
// that was current when the request was made. The client must still accept it (the old token
// stays valid until it expires) and the request must complete normally; afterwards a request on
// the new token must work too.
func runOldToken(cs Case) (status, detail, class string, obs any) {
	class = fmt.Sprintf("oldtoken/%s/%s", cs.Policy, cs.SecMod)
	p, c, err := openPair(cs, chanpair.Opts{Policy: cs.Policy, Mode: cs.SecMod, RequestTimeout: 10 * time.Second})
	if err != nil {
		return "inconclusive", "open: " + err.Error(), "", nil
	}
	defer closePair(p, c)
	chanID, tokID, _, _, ok := uasc.VerifActive(p.Server)
	if !ok {
		return "inconclusive", "server has no active instance", "", nil
	}
	old := uasc.VerifInstanceAlgo(p.Server, chanID, tokID)
	if old == nil {
		return "inconclusive", "no keys of the first token", "", nil
	}
	type res struct {
		err error
		tag string
	}
	call := func(tag uint32) chan res {
		ch := make(chan res, 1)
		go func() {
			var r res
			r.err = p.Client.SendRequestWithTimeout(context.Background(), chanpair.ReadReq(0, tag), nil, 8*time.Second, func(v ua.Response) error {
				if h := v.Header(); h != nil && len(h.StringTable) > 0 {
					r.tag = h.StringTable[0]
				}
				return nil
			})
			ch <- r
		}()
		return ch
	}
	nextReq := func() (*uasc.MessageBody, *ua.ReadRequest) {
		deadline := time.After(10 * time.Second)
		for {
			select {
			case m := <-p.ServerMsgs:
				if r, ok := m.Request().(*ua.ReadRequest); ok {
					return m, r
				}
			case <-deadline:
				return nil, nil
			}
		}
	}
	r1 := call(11)
	m1, q1 := nextReq()
	if m1 == nil {
		return "inconclusive", "first request did not reach the server", "", nil
	}
	rctx, rcancel := context.WithTimeout(context.Background(), 15*time.Second)
	err = p.Client.Renew(rctx)
	rcancel()
	if err != nil {
		return "inconclusive", "renew: " + err.Error(), "", nil
	}
	// the response to the first request, protected with the first token's keys, numbered after
	// everything the server has sent so far
	_, _, sseq, _, _ := uasc.VerifActive(p.Server)
	seq := sseq + 1
	uasc.VerifSetSequenceNumber(p.Server, seq)
	hdr := chanpair.RespHeader(q1.RequestHeader.RequestHandle, ua.StatusOK)
	hdr.StringTable = []string{"old-token-response"}
	resp := &ua.ReadResponse{ResponseHeader: hdr, Results: []*ua.DataValue{{EncodingMask: ua.DataValueValue, Value: ua.MustVariant(int32(11))}}, DiagnosticInfos: []*ua.DiagnosticInfo{}}
	tid, _ := ua.Encode(ua.NewFourByteExpandedNodeID(0, ua.ServiceTypeID(resp)))
	body, err := ua.Encode(resp)
	if err != nil {
		return "inconclusive", "encode: " + err.Error(), "", nil
	}
	fr, err := securedChunk(cs.SecMod, old, chanID, tokID, seq, m1.RequestID, append(tid, body...))
	if err != nil {
		return "inconclusive", "chunk: " + err.Error(), "", nil
	}
	p.SConn.SetWriteDeadline(time.Now().Add(5 * time.Second))
	if _, err := p.SConn.Write(fr); err != nil {
		return "inconclusive", "write: " + err.Error(), "", nil
	}
	o := map[string]any{"policy": cs.Policy, "mode": cs.SecMod}
	select {
	case r := <-r1:
		o["first"] = fmt.Sprint(r.err)
		if r.err != nil || r.tag != "old-token-response" {
			o["problem"] = "old-token-response-refused-after-renewal"
			o["problem_detail"] = fmt.Sprintf("a request was pending during the renewal; its response, protected with the token that was current when it was made, arrived after the renewal: the call returned %v (tag %q)", r.err, r.tag)
			return "ok", "", class, o
		}
	case <-time.After(12 * time.Second):
		o["problem"] = "old-token-response-refused-after-renewal"
		o["problem_detail"] = "the call did not return after its old-token response was written"
		return "ok", "", class, o
	}
	// the channel goes on with the new token
	r2 := call(12)
	m2, q2 := nextReq()
	if m2 == nil {
		o["problem"] = "request-after-renewal-not-received"
		o["problem_detail"] = "a request made after the renewal did not reach the server"
		return "ok", "", class, o
	}
	hdr2 := chanpair.RespHeader(q2.RequestHeader.RequestHandle, ua.StatusOK)
	hdr2.StringTable = []string{"new-token-response"}
	p.Server.SendResponseWithContext(context.Background(), m2.RequestID, &ua.ReadResponse{ResponseHeader: hdr2,
		Results: []*ua.DataValue{{EncodingMask: ua.DataValueValue, Value: ua.MustVariant(int32(12))}}, DiagnosticInfos: []*ua.DiagnosticInfo{}})
	select {
	case r := <-r2:
		o["second"] = fmt.Sprint(r.err)
		if r.err != nil || r.tag != "new-token-response" {
			o["problem"] = "request-fails-after-renewal"
			o["problem_detail"] = fmt.Sprintf("the request made after the renewal returned %v (tag %q)", r.err, r.tag)
		}
	case <-time.After(12 * time.Second):
		o["problem"] = "request-fails-after-renewal"
		o["problem_detail"] = "the request made after the renewal did not return"
	}
	return "ok", "", class, o
}
