package main

import (
	"context"
	"fmt"
	"sync"
	"sync/atomic"
	"time"

	"github.com/gopcua/opcua/ua"
	"github.com/gopcua/opcua/uasc"

	"verifharness/chanpair"
	"verifharness/vfgo"
)

// runLifetime: open a channel with the given token lifetime and report the renewal and
// expiration delays the client computed for the first token (hooks renew.sched/expire.sched).
func runLifetime(cs Case) (status, detail, class string, obs any) {
	p, c, err := openPair(cs, chanpair.Opts{Lifetime: uint32(cs.LifetimeMs), RequestTimeout: 20 * time.Second, NoOpen: cs.SkewMs != 0})
	if err != nil {
		return "inconclusive", "open: " + err.Error(), "", nil
	}
	if cs.SkewMs != 0 {
		// the token's CreatedAt is the server's time: the client's schedule must not depend on the two clocks agreeing
		skew := time.Duration(cs.SkewMs) * time.Millisecond
		uasc.VerifSetTime(p.Server, func() time.Time { return time.Now().Add(skew) })
		octx, ocancel := context.WithTimeout(context.Background(), 15*time.Second)
		err := p.Client.Open(octx)
		ocancel()
		if err != nil {
			closePair(p, c)
			return "inconclusive", "open: " + err.Error(), "", nil
		}
	}
	// the timers run in goroutines started by the OPN response handler
	var renew, expire map[string]any
	waitFor(func() bool {
		c.mu.Lock()
		defer c.mu.Unlock()
		for _, e := range c.sched {
			if e["ev"] == "renew.sched" && renew == nil {
				renew = e
			}
			if e["ev"] == "expire.sched" && expire == nil {
				expire = e
			}
		}
		return renew != nil && expire != nil
	}, 10*time.Second)
	closePair(p, c)
	if renew == nil {
		return "inconclusive", "no renew.sched event", "", nil
	}
	o := map[string]any{"lifetime_ms": cs.LifetimeMs, "skew_ms": cs.SkewMs, "renew_when_ns": renew["when"], "revised_lifetime_ns": renew["lifetime"]}
	if expire != nil {
		o["expire_when_ns"] = expire["when"]
	}
	return "ok", "", fmt.Sprintf("lifetime/%d/skew=%d", cs.LifetimeMs, cs.SkewMs), o
}

// runRenewRun: real renewals driven by the library's own timer with a short lifetime, while
// client requests and (delayed) server responses are in flight all the time.
func runRenewRun(cs Case) (status, detail, class string, obs any) {
	// Every renewal's OPN request -- and whatever the client sends after it -- is delayed by renewDelay
	// on its way to the server (FIFO kept), so that the renewal lasts long enough for requests to be
	// issued while it is in flight (they wait at the request gate and must complete normally).
	const renewDelay = 150 * time.Millisecond
	var tmu sync.Mutex
	var pp *chanpair.Pair
	var heldQ [][]byte
	holding := false
	nOPN := 0
	var renewWindows int64
	tap := func(f chanpair.Frame) [][]byte {
		if f.Dir != "c2s" {
			return chanpair.Pass(f)
		}
		tmu.Lock()
		defer tmu.Unlock()
		if holding {
			heldQ = append(heldQ, append([]byte(nil), f.Data...))
			return nil
		}
		if f.Type() == "OPN" {
			nOPN++
			if nOPN > 1 {
				holding = true
				atomic.AddInt64(&renewWindows, 1)
				heldQ = append(heldQ, append([]byte(nil), f.Data...))
				go func() {
					time.Sleep(renewDelay)
					tmu.Lock()
					defer tmu.Unlock()
					for _, b := range heldQ {
						if pp != nil {
							pp.Inject("c2s", b)
						}
					}
					heldQ, holding = nil, false
				}()
				return nil
			}
		}
		return chanpair.Pass(f)
	}
	p, c, err := openPair(cs, chanpair.Opts{Policy: cs.Policy, Mode: cs.SecMod, Lifetime: uint32(cs.LifetimeMs), RequestTimeout: 5 * time.Second, Tap: tap})
	if err != nil {
		return "inconclusive", "open: " + err.Error(), "", nil
	}
	tmu.Lock()
	pp = p
	tmu.Unlock()
	defer closePair(p, c)
	lifetime := time.Duration(cs.LifetimeMs) * time.Millisecond
	const longPollBase = 9000000
	ctx, cancel := context.WithTimeout(context.Background(), time.Duration(cs.DurationMs)*time.Millisecond)
	defer cancel()
	rnd := vfgo.Rand(int64(cs.N))
	var rmu sync.Mutex
	delays := make([]time.Duration, 4096)
	for i := range delays {
		delays[i] = time.Duration(rnd.Intn(120)) * time.Millisecond
	}
	var srvErrs int64
	var swg sync.WaitGroup
	bg := context.Background()
	go func() {
		for m := range p.ServerMsgs {
			if m == nil {
				continue
			}
			if m.Err != nil {
				atomic.AddInt64(&srvErrs, 1)
			}
			r, ok := m.Request().(*ua.ReadRequest)
			if !ok {
				continue
			}
			swg.Add(1)
			go func(id, h uint32, r *ua.ReadRequest) {
				defer swg.Done()
				rmu.Lock()
				d := delays[int(id)%len(delays)]
				rmu.Unlock()
				if len(r.NodesToRead) > 0 && r.NodesToRead[0].NodeID.IntID() >= longPollBase {
					d = lifetime * 3 / 2 // a long poll (parked Publish): outstanding across at least one renewal
				}
				time.Sleep(d) // a response that crosses the renewal (publish-like)
				sctx, c2 := context.WithTimeout(bg, 5*time.Second)
				defer c2()
				p.Server.SendResponseWithContext(sctx, id, &ua.ReadResponse{ResponseHeader: chanpair.RespHeader(h, ua.StatusOK),
					Results: []*ua.DataValue{{EncodingMask: ua.DataValueValue, Value: ua.MustVariant(int32(1))}}, DiagnosticInfos: []*ua.DiagnosticInfo{}})
			}(m.RequestID, r.RequestHeader.RequestHandle, r)
		}
	}()
	type fail struct {
		At  int64  `json:"at_ms"`
		Err string `json:"err"`
	}
	var fmu sync.Mutex
	var fails []fail
	var okCount int64
	t0 := time.Now()
	var wg sync.WaitGroup
	for s := 0; s < cs.Senders; s++ {
		wg.Add(1)
		go func(s int) {
			defer wg.Done()
			i := 0
			for ctx.Err() == nil {
				i++
				err := p.Client.SendRequestWithTimeout(context.Background(), chanpair.ReadReq(0, uint32(s*100000+i)), nil, 3*time.Second, func(ua.Response) error { return nil })
				if err != nil {
					fmu.Lock()
					if len(fails) < 20 {
						fails = append(fails, fail{time.Since(t0).Milliseconds(), err.Error()})
					}
					fmu.Unlock()
					if len(fails) >= 20 {
						return
					}
				} else {
					atomic.AddInt64(&okCount, 1)
				}
				time.Sleep(time.Duration(1+s) * time.Millisecond)
			}
		}(s)
	}
	// the long poll: one request at a time that the server answers only after 1.5 lifetimes
	var longOK, longFail int64
	wg.Add(1)
	go func() {
		defer wg.Done()
		for i := 0; ctx.Err() == nil; i++ {
			err := p.Client.SendRequestWithTimeout(context.Background(), chanpair.ReadReq(0, uint32(longPollBase+i)), nil, 3*lifetime+3*time.Second, func(ua.Response) error { return nil })
			if err != nil {
				atomic.AddInt64(&longFail, 1)
				fmu.Lock()
				if len(fails) < 20 {
					fails = append(fails, fail{time.Since(t0).Milliseconds(), "long poll: " + err.Error()})
				}
				fmu.Unlock()
				return
			}
			atomic.AddInt64(&longOK, 1)
		}
	}()
	wg.Wait()
	var chanErrs []string
	for {
		select {
		case e := <-p.CErr:
			chanErrs = append(chanErrs, "client: "+e.Error())
			continue
		case e := <-p.SErr:
			chanErrs = append(chanErrs, "server: "+e.Error())
			continue
		default:
		}
		break
	}
	c.mu.Lock()
	sched := append([]map[string]any(nil), c.sched...)
	evs := append([]Event(nil), c.events...)
	c.mu.Unlock()
	class = fmt.Sprintf("renewrun/%s/%s/lifetime=%d", cs.Policy, cs.SecMod, cs.LifetimeMs)
	return "ok", "", class, map[string]any{"lifetime_ms": cs.LifetimeMs, "ok_requests": okCount, "failures": fails, "channel_errors": chanErrs,
		"server_receive_errors": srvErrs, "long_polls_ok": longOK, "renewals_delayed": atomic.LoadInt64(&renewWindows), "timeline": sched, "events": evs, "tr": c.tr, "scenario": "renewrun", "t0": t0.UnixNano()}
}
