package main

// C26: scenario rows of spec/ClientConn/SubSeq.tla (data, keep-alive, notification lost in
// flight, link cut, session kept or lost) produced with the scripted subscription server and
// the proxy against the real client; the application must have received exactly what the
// specification says, the server must have seen every acknowledgement exactly once.

import (
	"context"
	"fmt"
	"sort"
	"strings"
	"sync/atomic"
	"time"

	"github.com/gopcua/opcua"
	"github.com/gopcua/opcua/ua"
)

type streamCase struct {
	ID        string   `json:"id"`
	Events    []string `json:"events"`
	Delivered []int    `json:"delivered"` // expected by the specification
	Acked     []int    `json:"acked"`
	Dead      bool     `json:"dead"`
}

func runStream(sc streamCase) caseResult {
	ss, err := startSubSrv()
	if err != nil {
		return caseResult{Status: "inconclusive", Detail: "scripted server: " + err.Error()}
	}
	defer ss.srv.Close()
	px, err := newProxy(strings.TrimPrefix(ss.srv.URL, "opc.tcp://"))
	if err != nil {
		return caseResult{Status: "inconclusive", Detail: err.Error()}
	}
	defer px.close()
	px.onCut = ss.linkCut
	e := &env{px: px, ctl: newCtl(), subs: map[int]*opcua.Subscription{}, notif: make(chan *opcua.PublishNotificationData, 1024), perH: map[uint32]int64{}}
	e.ctl.register("main")
	e.ctl.install()
	defer opcua.VerifHook.Store(func(string, *opcua.Client, ...any) {})
	go e.drain()
	if err := e.newClient(true); err != nil {
		return caseResult{Status: "inconclusive", Detail: "client: " + err.Error()}
	}
	var monPath []string
	e.ctl.trigger = func(role, point string, kv map[string]any) {
		if role == "mon" && point == "mon.action" {
			a, _ := kv["action"].(string)
			e.mu.Lock()
			monPath = append(monPath, a)
			e.mu.Unlock()
		}
	}
	cctx, ccancel := context.WithTimeout(context.Background(), 30*time.Second)
	err = e.c.Connect(cctx)
	ccancel()
	if err != nil {
		return caseResult{Status: "inconclusive", Detail: "connect: " + err.Error()}
	}
	e.ctl.note("main", "replay.start", nil)
	e.ctl.register("a1")
	e.ctl.note("a1", "call", map[string]any{"api": "subscribe", "id": 1})
	p := opcua.SubscriptionParameters{Interval: 50 * time.Millisecond, MaxKeepAliveCount: 20, LifetimeCount: 10000}
	ctx, cancel := context.WithTimeout(context.Background(), 20*time.Second)
	sub, err := e.c.Subscribe(ctx, &p, e.notif)
	if err == nil {
		_, err = sub.Monitor(ctx, ua.TimestampsToReturnBoth, opcua.NewMonitoredItemCreateRequestWithDefaults(ua.NewStringNodeID(1, "v1"), ua.AttributeIDValue, 11))
	}
	cancel()
	if err != nil {
		return caseResult{Status: "inconclusive", Detail: "subscribe: " + err.Error()}
	}
	e.ctl.note("a1", "return", map[string]any{"api": "subscribe", "id": 1, "sid": sub.SubscriptionID, "err": "<nil>"})
	e.ctl.register("main")
	sid := sub.SubscriptionID
	nextModel := 1
	// another subscription (own monitored item) of the same session
	other := func(handle uint32) (*opcua.Subscription, error) {
		nextModel++
		mid := nextModel
		e.ctl.register("a1")
		defer e.ctl.register("main")
		e.ctl.note("a1", "call", map[string]any{"api": "subscribe", "id": mid})
		ctx, cancel := context.WithTimeout(context.Background(), 20*time.Second)
		defer cancel()
		pp := p
		sb, err := e.c.Subscribe(ctx, &pp, e.notif)
		if err == nil {
			_, err = sb.Monitor(ctx, ua.TimestampsToReturnBoth, opcua.NewMonitoredItemCreateRequestWithDefaults(ua.NewStringNodeID(1, "v2"), ua.AttributeIDValue, handle))
		}
		s := uint32(0)
		if sb != nil {
			s = sb.SubscriptionID
			e.mu.Lock()
			e.subs[mid] = sb
			e.mu.Unlock()
		}
		e.ctl.note("a1", "return", map[string]any{"api": "subscribe", "id": mid, "sid": s, "err": fmt.Sprint(err)})
		return sb, err
	}
	nsubs := 1
	for _, ev := range sc.Events {
		if ev == "publish-error" { // C36: the error fans out to at least two subscriptions
			if _, err := other(31); err != nil {
				return caseResult{Status: "inconclusive", Detail: "subscribe: " + err.Error()}
			}
			nsubs++
			break
		}
	}

	delivered := func() []int { e.mu.Lock(); defer e.mu.Unlock(); return append([]int(nil), e.values...) }
	waitValue := func(v int, d time.Duration) bool {
		dl := time.Now().Add(d)
		for time.Now().Before(dl) {
			for _, x := range delivered() {
				if x == v {
					return true
				}
			}
			time.Sleep(2 * time.Millisecond)
		}
		return false
	}
	// after a cut: the client must come back and publish again
	waitResumed := func(before int) bool {
		dl := time.Now().Add(reconnectSlack)
		t0 := time.Now()
		for time.Now().Before(dl) {
			if ss.arrivals() > before {
				return true
			}
			if time.Since(t0) > 3*time.Second && e.c.State() == opcua.Connected && e.loopParkedForGood() {
				time.Sleep(500 * time.Millisecond)
				if ss.arrivals() == before && e.loopParkedForGood() {
					return false // Connected, monitor idle, loop paused, nothing pending: it will never publish
				}
			}
			time.Sleep(5 * time.Millisecond)
		}
		return false
	}
	problem, dead := "", false
	errFanout := -1
	if !ss.waitArrivals(1, 20*time.Second) {
		return caseResult{Status: "inconclusive", Detail: "no PublishRequest reached the scripted server", Trace: e.ctl.snapshot()}
	}
	for i, ev := range sc.Events {
		if dead {
			break
		}
		before := ss.arrivals()
		e.ctl.note("env", "stream", map[string]any{"event": ev})
		switch ev {
		case "data":
			n, err := ss.emitData(sid, false)
			if err != nil {
				problem = fmt.Sprintf("event %d %s: %v", i, ev, err)
			} else if !waitValue(int(n), 15*time.Second) {
				problem = fmt.Sprintf("event %d %s: notification %d not delivered", i, ev, n)
			} else if !ss.waitArrivals(before+1, 15*time.Second) {
				problem = fmt.Sprintf("event %d %s: no next PublishRequest", i, ev)
			}
		case "keepalive":
			if err := ss.emitKeepAlive(sid); err != nil {
				problem = fmt.Sprintf("event %d %s: %v", i, ev, err)
			} else if !ss.waitArrivals(before+1, 15*time.Second) {
				problem = fmt.Sprintf("event %d %s: no next PublishRequest", i, ev)
			}
		case "data-acklost":
			atomic.StoreInt32(&px.cutAfterS2C, 1)
			n, err := ss.emitData(sid, false)
			if err != nil {
				problem = fmt.Sprintf("event %d %s: %v", i, ev, err)
				break
			}
			if !waitValue(int(n), 15*time.Second) {
				problem = fmt.Sprintf("event %d %s: notification %d not delivered", i, ev, n)
				break
			}
			e.ctl.note("env", "fault", map[string]any{"kind": "reset"})
			dead = !waitResumed(before)
		case "other-response":
			// a second subscription is cancelled; the server answers the waiting request (which carries the pending
			// acknowledgements) with that subscription's keep-alive after the client has forgotten it
			sb, err := other(uint32(40 + i))
			if err != nil {
				problem = fmt.Sprintf("event %d %s: subscribe: %v", i, ev, err)
				break
			}
			time.Sleep(20 * time.Millisecond)
			before = ss.arrivals()
			ss.setBeforeDelete(sb.SubscriptionID)
			e.ctl.register("a1")
			e.ctl.note("a1", "call", map[string]any{"api": "cancel", "id": nextModel})
			cctx, ccancel := context.WithTimeout(context.Background(), 20*time.Second)
			cerr := sb.Cancel(cctx)
			ccancel()
			e.ctl.note("a1", "return", map[string]any{"api": "cancel", "id": nextModel, "err": fmt.Sprint(cerr)})
			e.ctl.register("main")
			if !ss.waitArrivals(before+1, 15*time.Second) {
				problem = fmt.Sprintf("event %d %s: no next PublishRequest", i, ev)
			}
		case "publish-error":
			e0 := atomic.LoadInt64(&e.errs)
			if err := ss.emitPublishError(sid); err != nil {
				problem = fmt.Sprintf("event %d %s: %v", i, ev, err)
				break
			}
			e.ctl.note("env", "fault", map[string]any{"kind": "reset"})
			dl := time.Now().Add(10 * time.Second)
			for atomic.LoadInt64(&e.errs) < e0+int64(nsubs) && time.Now().Before(dl) {
				time.Sleep(2 * time.Millisecond)
			}
			errFanout = int(atomic.LoadInt64(&e.errs) - e0)
			dead = !waitResumed(before)
		case "lose-kept", "lose-lost", "cut-kept", "cut-lost":
			if strings.HasPrefix(ev, "lose") {
				if _, err := ss.emitData(sid, true); err != nil {
					problem = fmt.Sprintf("event %d %s: %v", i, ev, err)
					break
				}
			}
			if strings.HasSuffix(ev, "lost") {
				ss.dropSessions()
			}
			e.ctl.note("env", "fault", map[string]any{"kind": "reset"})
			ss.linkCut()
			px.reset()
			dead = !waitResumed(before)
		}
		if problem != "" {
			break
		}
	}
	time.Sleep(100 * time.Millisecond)
	got := delivered()
	e.mu.Lock()
	path := strings.Join(monPath, ">")
	e.mu.Unlock()
	ss.mu.Lock()
	acks := append([]ackRec(nil), ss.acks...)
	var queue []int
	if s := ss.subs[sid]; s != nil {
		for k := range s.queue {
			queue = append(queue, int(k))
		}
	}
	republished := append([]uint32(nil), ss.republish...)
	transfers := ss.transfers
	ss.mu.Unlock()
	sort.Ints(queue)
	obs := map[string]any{"events": sc.Events, "expected": sc.Delivered, "delivered": got, "acks": acks, "queue": queue,
		"republish_requests": republished, "transfers": transfers, "mon_path": path, "dead": dead}
	if errFanout >= 0 {
		obs["error_notifications"], obs["subscriptions"] = errFanout, nsubs
	}
	res := caseResult{Status: "ok", Obs: obs, Class: strings.Join(sc.Events, ",")}
	var viol []map[string]string
	add := func(key, detail string) {
		viol = append(viol, map[string]string{"property": "C26", "key": key, "detail": detail})
	}
	ctxs := fmt.Sprintf("events %v; monitor path %s; republish requests %v; transfers %d; server queue %v", sc.Events, path, republished, transfers, queue)
	switch {
	case problem != "" && !dead:
		res.Status, res.Detail = "drift", problem
	case dead && !sc.Dead:
		key := "publishing-not-resumed-after-reconnect"
		if transfers > 0 {
			key = "publishing-not-resumed-after-transfer"
		}
		add(key, fmt.Sprintf("the client is %s again but sends no PublishRequest (publish loop paused, monitor idle); %s", e.c.State(), ctxs))
	default:
		// exactly once, in order, nothing missing
		cnt := map[int]int{}
		for _, v := range got {
			cnt[v]++
		}
		for _, v := range sc.Delivered {
			if cnt[v] == 0 {
				add("notification-lost-across-reconnect", fmt.Sprintf("notification %d was produced by the server and never delivered to the application (delivered %v, specification %v); %s", v, got, sc.Delivered, ctxs))
				break
			}
		}
		for v, c := range cnt {
			if c > 1 {
				add("notification-delivered-twice", fmt.Sprintf("notification %d delivered %d times (delivered %v); %s", v, c, got, ctxs))
				break
			}
		}
		if len(viol) == 0 && fmt.Sprint(got) != fmt.Sprint(sc.Delivered) {
			add("notifications-out-of-order", fmt.Sprintf("delivered %v, specification %v; %s", got, sc.Delivered, ctxs))
		}
		// acknowledgements: every delivered notification accepted exactly once by the server
		good := map[int]int{}
		for _, a := range acks {
			if a.Sub == sid && a.Status == fmt.Sprint(ua.StatusOK) {
				good[int(a.Seq)]++
			}
		}
		expAck := map[int]bool{}
		for _, v := range sc.Acked {
			expAck[v] = true
		}
		for _, v := range got {
			if good[v] == 0 {
				key := "delivered-notification-never-acknowledged"
				if !expAck[v] {
					key = "republished-notification-never-acknowledged" // the as-is model says so as well
				}
				add(key, fmt.Sprintf("notification %d was delivered but never acknowledged (it stays in the server's retransmission queue %v); acks seen %v; %s", v, queue, acks, ctxs))
				break
			}
		}
		all := map[int]int{}
		for _, a := range acks {
			if a.Sub == sid {
				all[int(a.Seq)]++
			}
		}
		for v, c := range all {
			if c > 1 && good[v] >= 1 && c-good[v] >= 1 {
				// repeated although the server had accepted it: only a violation when the first acceptance was seen
				// by the client (decided by AckObs on the hook trace); reported here for information
				obs["ack_repeated"] = v
			}
		}
	}
	if len(viol) > 0 {
		obs["violations"] = viol
		res.Status, res.Key, res.Detail = "violation", viol[0]["key"], viol[0]["detail"]
	}
	res.Trace = e.ctl.snapshot()
	go func() { ctx, c := context.WithTimeout(context.Background(), 5*time.Second); e.c.Close(ctx); c() }()
	time.Sleep(100 * time.Millisecond)
	return res
}
