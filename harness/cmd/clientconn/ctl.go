package main

// Recorder and scheduler gate on top of opcua.VerifHook.
//
// Every hook call is recorded as one event (global order = order of arrival at the hooks,
// taken under one mutex).  A goroutine whose role is gated parks at its gate points until the
// controller releases it; the controller releases exactly one role per step of a TLC
// behaviour and waits until that role parks again, returns, or is seen blocked.

import (
	"bytes"
	"fmt"
	"runtime"
	"strconv"
	"strings"
	"sync"
	"time"

	"github.com/gopcua/opcua"
)

func goid() int64 {
	var buf [64]byte
	n := runtime.Stack(buf[:], false)
	// "goroutine 123 [running]:"
	f := bytes.Fields(buf[:n])
	if len(f) < 2 {
		return -1
	}
	id, _ := strconv.ParseInt(string(f[1]), 10, 64)
	return id
}

type park struct {
	point string
	kv    map[string]any
	ch    chan struct{}
}

type ctl struct {
	mu      sync.Mutex
	events  []map[string]any
	roles   map[int64]string
	gate    map[string]map[string]bool // role -> gate points
	gating  bool
	parked  map[string]*park
	arrived map[string]int // number of arrivals per role
	t0      time.Time
	trigger func(role, point string, kv map[string]any) // called inside the hook, after recording
}

var appGates = map[string]bool{"sub.resume.send": true, "sub.resume.sent": true, "forget.lock": true,
	"forget.locked": true, "sub.pause.send": true, "sub.pause.sent": true}
var loopGates = map[string]bool{"sub.loop": true, "pub.send": true, "pub.lock": true, "pub.locked": true,
	"sub.pause.send": true, "sub.pause.sent": true}
var monGates = map[string]bool{"sub.pause.send": true, "sub.pause.sent": true, "mon.action": true,
	"mon.done": true, "sub.resume.send": true}

func newCtl() *ctl {
	return &ctl{roles: map[int64]string{}, gate: map[string]map[string]bool{}, parked: map[string]*park{},
		arrived: map[string]int{}, t0: time.Now()}
}

func (c *ctl) register(role string) {
	c.mu.Lock()
	c.roles[goid()] = role
	c.mu.Unlock()
}

func (c *ctl) install() {
	opcua.VerifHook.Store(func(point string, cl *opcua.Client, kv ...any) { c.hook(point, kv) })
}

func kvmap(kv []any) map[string]any {
	m := map[string]any{}
	for i := 0; i+1 < len(kv); i += 2 {
		k, _ := kv[i].(string)
		switch v := kv[i+1].(type) {
		case error:
			if v == nil {
				m[k] = ""
			} else {
				m[k] = v.Error()
			}
		case nil:
			m[k] = ""
		case fmt.Stringer:
			m[k] = v.String()
		default:
			m[k] = v
		}
	}
	return m
}

func (c *ctl) hook(point string, kv []any) {
	g := goid()
	m := kvmap(kv)
	c.mu.Lock()
	role, ok := c.roles[g]
	if !ok {
		switch {
		case strings.HasPrefix(point, "pub.") || strings.HasPrefix(point, "sub.loop"):
			role = "loop"
		case strings.HasPrefix(point, "mon."):
			role = "mon"
		default:
			role = "other"
		}
		if role != "other" {
			c.roles[g] = role
		}
	}
	ev := map[string]any{"n": len(c.events) + 1, "g": role, "ev": point, "t": time.Since(c.t0).Milliseconds()}
	for k, v := range m {
		ev[k] = v
	}
	c.events = append(c.events, ev)
	var p *park
	if c.gating && c.gate[role] != nil && c.gate[role][point] {
		p = &park{point: point, kv: m, ch: make(chan struct{})}
		c.parked[role] = p
		c.arrived[role]++
	}
	trig := c.trigger
	c.mu.Unlock()
	if trig != nil {
		trig(role, point, m)
	}
	if p != nil {
		<-p.ch
	}
}

// note records a harness-side event (api call/return, fault, ...).
func (c *ctl) note(role, ev string, kv map[string]any) {
	c.mu.Lock()
	e := map[string]any{"n": len(c.events) + 1, "g": role, "ev": ev, "t": time.Since(c.t0).Milliseconds()}
	for k, v := range kv {
		e[k] = v
	}
	c.events = append(c.events, e)
	c.mu.Unlock()
}

func (c *ctl) setGating(on bool) {
	c.mu.Lock()
	c.gating = on
	c.mu.Unlock()
}

// release lets a parked role continue; returns false if it was not parked.
func (c *ctl) release(role string) bool {
	c.mu.Lock()
	p := c.parked[role]
	delete(c.parked, role)
	c.mu.Unlock()
	if p == nil {
		return false
	}
	close(p.ch)
	return true
}

func (c *ctl) releaseAll() {
	c.mu.Lock()
	c.gating = false
	ps := c.parked
	c.parked = map[string]*park{}
	c.mu.Unlock()
	for _, p := range ps {
		close(p.ch)
	}
}

func (c *ctl) parkedAt(role string) *park {
	c.mu.Lock()
	defer c.mu.Unlock()
	return c.parked[role]
}

func (c *ctl) arrivals(role string) int {
	c.mu.Lock()
	defer c.mu.Unlock()
	return c.arrived[role]
}

// waitPark waits until the role has arrived at a gate (arrival count > since) or done() is true.
func (c *ctl) waitPark(role string, since int, done func() bool, timeout time.Duration) (*park, bool) {
	dl := time.Now().Add(timeout)
	for {
		c.mu.Lock()
		p := c.parked[role]
		n := c.arrived[role]
		c.mu.Unlock()
		if p != nil && n > since {
			return p, true
		}
		if done != nil && done() {
			return nil, true
		}
		if time.Now().After(dl) {
			return nil, false
		}
		time.Sleep(300 * time.Microsecond)
	}
}

func (c *ctl) snapshot() []map[string]any {
	c.mu.Lock()
	defer c.mu.Unlock()
	return append([]map[string]any(nil), c.events...)
}

// count returns the number of recorded events with the given name.
func (c *ctl) count(ev string) int {
	c.mu.Lock()
	defer c.mu.Unlock()
	n := 0
	for _, e := range c.events {
		if e["ev"] == ev {
			n++
		}
	}
	return n
}
