package main

// Server child: the real gopcua server with one variable node, controlled over stdin.
//   set      change the monitored value (triggers a data change notification)
//   restart  close the server and start a fresh one on the same port (all sessions and subscriptions are lost)
//   quit
// Every command is answered with one line on stdout ("ok" / "err ...").

import (
	"bufio"
	"context"
	"fmt"
	"io"
	"net"
	"os"
	"os/exec"
	"strings"
	"sync"
	"sync/atomic"
	"syscall"
	"time"

	"github.com/gopcua/opcua/id"
	"github.com/gopcua/opcua/server"
	"github.com/gopcua/opcua/ua"
)

type srvInst struct {
	s   *server.Server
	ns  *server.NodeNameSpace
	v   *server.Node
	v2  *server.Node
	val int32
}

func startServer(port int, val int32) (*srvInst, error) {
	s := server.New(
		server.EnableSecurity("None", ua.MessageSecurityModeNone),
		server.EnableAuthMode(ua.UserTokenTypeAnonymous),
		server.EndPoint("127.0.0.1", port),
	)
	ns := server.NewNodeNameSpace(s, "vf")
	v := ns.AddNewVariableStringNode("v1", val)
	v2 := ns.AddNewVariableStringNode("v2", val)
	if root := s.Node(ua.NewNumericNodeID(0, id.ObjectsFolder)); root != nil {
		ns.Objects().AddRef(v, id.HasComponent, true)
		ns.Objects().AddRef(v2, id.HasComponent, true)
	}
	var err error
	for i := 0; i < 40; i++ {
		if err = s.Start(context.Background()); err == nil {
			return &srvInst{s: s, ns: ns, v: v, v2: v2, val: val}, nil
		}
		time.Sleep(50 * time.Millisecond)
	}
	return nil, err
}

func (si *srvInst) set() {
	si.val++
	dv := ua.DataValue{Value: ua.MustVariant(si.val), SourceTimestamp: time.Now(),
		EncodingMask: ua.DataValueValue | ua.DataValueSourceTimestamp}
	si.v.SetAttribute(ua.AttributeIDValue, &dv)
	si.ns.ChangeNotification(si.v.ID())
	dv2 := dv
	si.v2.SetAttribute(ua.AttributeIDValue, &dv2)
	si.ns.ChangeNotification(si.v2.ID())
}

func serverMain() {
	var port int
	fmt.Sscan(os.Getenv("VF_PORT"), &port)
	si, err := startServer(port, 1)
	if err != nil {
		fmt.Println("err start:", err)
		os.Exit(1)
	}
	fmt.Printf("ready %d\n", si.ns.ID())
	var mu sync.Mutex
	tick := false
	var ticks int64
	go func() {
		for {
			time.Sleep(40 * time.Millisecond)
			mu.Lock()
			cur, on := si, tick
			mu.Unlock()
			if on && cur != nil {
				cur.set() // may stall inside the server (blocking notify under its lock); observed through "ticks"
				atomic.AddInt64(&ticks, 1)
			}
		}
	}()
	in := bufio.NewScanner(os.Stdin)
	for in.Scan() {
		cmd := strings.TrimSpace(in.Text())
		if cmd == "ticks" {
			fmt.Printf("ticks %d\n", atomic.LoadInt64(&ticks))
			continue
		}
		mu.Lock()
		switch cmd {
		case "set":
			si.set()
			fmt.Println("ok")
		case "tick on":
			tick = true
			fmt.Println("ok")
		case "tick off":
			tick = false
			fmt.Println("ok")
		case "restart":
			v := si.val
			si.s.Close()
			si = nil
			n, err := startServer(port, v)
			if err != nil {
				fmt.Println("err restart:", err)
				os.Exit(1)
			}
			si = n
			fmt.Println("ok")
		case "quit":
			os.Exit(0)
		default:
			fmt.Println("err unknown")
		}
		mu.Unlock()
	}
	os.Exit(0) // parent went away
}

// ---- handle used by the case process ----

type srvProc struct {
	cmd  *exec.Cmd
	in   io.WriteCloser
	out  *bufio.Reader
	port int
	ns   int
	mu   sync.Mutex
	dead bool
	serr *tailBuf
}

type tailBuf struct {
	mu sync.Mutex
	b  []byte
}

func (t *tailBuf) Write(p []byte) (int, error) {
	t.mu.Lock()
	t.b = append(t.b, p...)
	if len(t.b) > 8000 {
		t.b = t.b[len(t.b)-8000:]
	}
	t.mu.Unlock()
	return len(p), nil
}
func (t *tailBuf) String() string { t.mu.Lock(); defer t.mu.Unlock(); return string(t.b) }

func freePort() int {
	l, err := net.Listen("tcp", "127.0.0.1:0")
	if err != nil {
		panic(err)
	}
	defer l.Close()
	return l.Addr().(*net.TCPAddr).Port
}

func launchServer() (*srvProc, error) {
	self, _ := os.Executable()
	var lastErr error
	for try := 0; try < 4; try++ {
		port := freePort()
		cmd := exec.Command(self, "-child=server")
		cmd.Env = append(os.Environ(), fmt.Sprintf("VF_PORT=%d", port))
		cmd.SysProcAttr = &syscall.SysProcAttr{Pdeathsig: syscall.SIGKILL}
		in, _ := cmd.StdinPipe()
		outp, _ := cmd.StdoutPipe()
		tb := &tailBuf{}
		cmd.Stderr = tb
		if err := cmd.Start(); err != nil {
			lastErr = err
			continue
		}
		sp := &srvProc{cmd: cmd, in: in, out: bufio.NewReader(outp), port: port, serr: tb}
		line, err := sp.readLine(60 * time.Second)
		if err == nil && strings.HasPrefix(line, "ready ") {
			fmt.Sscan(line[6:], &sp.ns)
			return sp, nil
		}
		lastErr = fmt.Errorf("server child: %q %v %s", line, err, tb.String())
		sp.kill()
	}
	return nil, lastErr
}

func (sp *srvProc) readLine(d time.Duration) (string, error) {
	type r struct {
		s string
		e error
	}
	ch := make(chan r, 1)
	go func() { s, e := sp.out.ReadString('\n'); ch <- r{strings.TrimSpace(s), e} }()
	select {
	case x := <-ch:
		return x.s, x.e
	case <-time.After(d):
		return "", fmt.Errorf("server child timeout")
	}
}

func (sp *srvProc) do(cmd string) error {
	sp.mu.Lock()
	defer sp.mu.Unlock()
	if sp.dead {
		return fmt.Errorf("server child dead")
	}
	if _, err := io.WriteString(sp.in, cmd+"\n"); err != nil {
		sp.dead = true
		return err
	}
	line, err := sp.readLine(60 * time.Second)
	if err != nil || line != "ok" {
		sp.dead = true
		return fmt.Errorf("server child %q: %q %v %s", cmd, line, err, sp.serr.String())
	}
	return nil
}

func (sp *srvProc) kill() {
	if sp.cmd != nil && sp.cmd.Process != nil {
		sp.cmd.Process.Kill()
		sp.cmd.Wait()
	}
}

// ticking reports whether the server child still changes the monitored values.
func (sp *srvProc) ticking() bool {
	read := func() (int64, bool) {
		sp.mu.Lock()
		defer sp.mu.Unlock()
		if sp.dead {
			return 0, false
		}
		if _, err := io.WriteString(sp.in, "ticks\n"); err != nil {
			return 0, false
		}
		line, err := sp.readLine(10 * time.Second)
		var n int64
		if err != nil || !strings.HasPrefix(line, "ticks ") {
			return 0, false
		}
		fmt.Sscan(line[6:], &n)
		return n, true
	}
	a, ok := read()
	if !ok {
		return false
	}
	time.Sleep(400 * time.Millisecond)
	b, ok := read()
	return ok && b > a
}
