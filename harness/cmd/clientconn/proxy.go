package main

// TCP proxy between the client and the server child: counts connection attempts, resets
// connections, refuses (accept+close) or black-holes (accept, forward nothing) new ones.
// It knows nothing about OPC UA except the 8 byte UACP frame header used to count the
// client's frames during connect (injection points "after the n-th frame").

import (
	"encoding/binary"
	"fmt"
	"io"
	"net"
	"sync"
	"sync/atomic"
)

type proxy struct {
	ln     net.Listener
	target string
	mu     sync.Mutex
	conns  []net.Conn
	mode   string // "pass" | "refuse" | "hole"
	dials  int64  // accepted connections
	// resetAfter > 0: reset the connection when the n-th client frame of the *next* connection was seen
	resetAfter  int
	onFrame     func(n int, typ string)
	onAccept    func()
	onCut       func() // called right before the link is cut by cutAfterS2C
	cutAfterS2C int32  // 1: reset everything right after the next server->client data was forwarded
	closed      bool
}

func newProxy(target string) (*proxy, error) {
	ln, err := net.Listen("tcp", "127.0.0.1:0")
	if err != nil {
		return nil, err
	}
	p := &proxy{ln: ln, target: target, mode: "pass"}
	go p.loop()
	return p, nil
}

func (p *proxy) url() string {
	return fmt.Sprintf("opc.tcp://127.0.0.1:%d", p.ln.Addr().(*net.TCPAddr).Port)
}
func (p *proxy) Dials() int { return int(atomic.LoadInt64(&p.dials)) }

func (p *proxy) setMode(m string) { p.mu.Lock(); p.mode = m; p.mu.Unlock() }
func (p *proxy) getMode() string  { p.mu.Lock(); defer p.mu.Unlock(); return p.mode }

func (p *proxy) loop() {
	for {
		c, err := p.ln.Accept()
		if err != nil {
			return
		}
		atomic.AddInt64(&p.dials, 1)
		if p.onAccept != nil {
			p.onAccept()
		}
		p.mu.Lock()
		mode := p.mode
		ra := p.resetAfter
		p.resetAfter = 0
		if mode == "killopn" {
			ra = 2 // HEL is answered, the connection dies on the OpenSecureChannel request
		}
		p.mu.Unlock()
		switch mode {
		case "refuse":
			hardClose(c)
			continue
		case "hole":
			p.mu.Lock()
			p.conns = append(p.conns, c)
			p.mu.Unlock()
			continue
		}
		s, err := net.Dial("tcp", p.target)
		if err != nil {
			hardClose(c)
			continue
		}
		if t, ok := c.(*net.TCPConn); ok {
			t.SetNoDelay(true)
		}
		if t, ok := s.(*net.TCPConn); ok {
			t.SetNoDelay(true)
		}
		p.mu.Lock()
		p.conns = append(p.conns, c, s)
		p.mu.Unlock()
		go p.pumpFrames(c, s, ra)
		go p.pumpBack(s, c)
	}
}

// client -> server, frame aware
func (p *proxy) pumpFrames(c, s net.Conn, resetAfter int) {
	defer hardClose(c)
	defer hardClose(s)
	hdr := make([]byte, 8)
	n := 0
	for {
		if _, err := io.ReadFull(c, hdr); err != nil {
			return
		}
		size := binary.LittleEndian.Uint32(hdr[4:])
		if size < 8 || size > 1<<26 {
			return
		}
		buf := make([]byte, size)
		copy(buf, hdr)
		if _, err := io.ReadFull(c, buf[8:]); err != nil {
			return
		}
		n++
		if p.onFrame != nil {
			p.onFrame(n, string(hdr[:3]))
		}
		if resetAfter > 0 && n == resetAfter {
			return // frame swallowed, both sides closed
		}
		if _, err := s.Write(buf); err != nil {
			return
		}
	}
}

func hardClose(c net.Conn) {
	if t, ok := c.(*net.TCPConn); ok {
		t.SetLinger(0)
	}
	c.Close()
}

// reset closes every open connection (RST).
func (p *proxy) reset() {
	p.mu.Lock()
	cs := p.conns
	p.conns = nil
	p.mu.Unlock()
	for _, c := range cs {
		hardClose(c)
	}
}

func (p *proxy) close() {
	p.ln.Close()
	p.reset()
}

// server -> client; with cutAfterS2C armed the link dies right after the next response was forwarded
func (p *proxy) pumpBack(s, c net.Conn) {
	defer c.Close()
	defer s.Close()
	buf := make([]byte, 64*1024)
	for {
		n, err := s.Read(buf)
		if n > 0 {
			if _, werr := c.Write(buf[:n]); werr != nil {
				return
			}
			// only a MSG chunk counts (not ACK / OPN of a new connection)
			if n >= 3 && string(buf[:3]) == "MSG" && atomic.CompareAndSwapInt32(&p.cutAfterS2C, 1, 0) {
				if p.onCut != nil {
					p.onCut()
				}
				// graceful close: a reset could discard the response the client has not read yet
				p.mu.Lock()
				cs := p.conns
				p.conns = nil
				p.mu.Unlock()
				for _, x := range cs {
					x.Close()
				}
				return
			}
		}
		if err != nil {
			return
		}
	}
}
