// Command clientconn drives the real gopcua client (against the real gopcua server in a child
// process, through a TCP proxy) for the ClientConn family: C27 schedule replay, C25/C26 fault
// scenarios.  Parent mode runs every case in its own child process.
package main

import (
	"encoding/json"
	"flag"
	"fmt"
	"io"
	"os"
	"sync"
	"time"

	"verifharness/vfgo"
)

var par = flag.Int("par", 4, "cases run in parallel")
var mode = flag.String("mode", "replay", "replay | faults")

type anyCase struct {
	Kind string `json:"kind"`
}

func main() {
	vfgo.Init()
	switch *vfgo.ChildFlag {
	case "server":
		serverMain()
		return
	case "replay":
		in, _ := io.ReadAll(os.Stdin)
		var b behaviour
		if err := json.Unmarshal(in, &b); err != nil {
			fmt.Println(`{"status":"inconclusive","detail":"bad case"}`)
			return
		}
		out, _ := json.Marshal(runReplay(b))
		os.Stdout.Write(append(out, '\n'))
		os.Exit(0)
	case "stream":
		in, _ := io.ReadAll(os.Stdin)
		var c streamCase
		if err := json.Unmarshal(in, &c); err != nil {
			fmt.Println(`{"status":"inconclusive","detail":"bad case"}`)
			return
		}
		out, _ := json.Marshal(runStream(c))
		os.Stdout.Write(append(out, '\n'))
		os.Exit(0)
	case "faults":
		in, _ := io.ReadAll(os.Stdin)
		var f faultCase
		if err := json.Unmarshal(in, &f); err != nil {
			fmt.Println(`{"status":"inconclusive","detail":"bad case"}`)
			return
		}
		out, _ := json.Marshal(runFaults(f))
		os.Stdout.Write(append(out, '\n'))
		os.Exit(0)
	}
	cases := vfgo.Cases[json.RawMessage]()
	sem := make(chan struct{}, *par)
	var wg sync.WaitGroup
	for _, c := range cases {
		wg.Add(1)
		sem <- struct{}{}
		go func(c json.RawMessage) {
			defer wg.Done()
			defer func() { <-sem }()
			runCase(c)
		}(c)
	}
	wg.Wait()
	vfgo.Flush()
}

func runCase(c json.RawMessage) {
	var meta struct {
		ID    string `json:"id"`
		Tries int    `json:"tries"`
	}
	json.Unmarshal(c, &meta)
	if meta.Tries == 0 {
		meta.Tries = 1
	}
	var last caseResult
	for try := 0; try < meta.Tries; try++ {
		co := vfgo.RunChild(*mode, c, 240*time.Second)
		var r caseResult
		if err := json.Unmarshal(lastLine(co.Stdout), &r); err != nil {
			r = caseResult{Status: "inconclusive", Detail: fmt.Sprintf("child exit=%d timeout=%v panic=%v: %s", co.Exit, co.TimedOut, co.Panic, vfgo.PanicHead(co.Stderr))}
		}
		last = r
		if r.Obs == nil {
			r.Obs = map[string]any{}
		}
		r.Obs["try"] = try + 1
		if r.Status == "ok" || r.Status == "violation" {
			break
		}
	}
	status := last.Status
	if status == "drift" {
		status = "inconclusive"
		last.Detail = "schedule could not be driven (select order / timing): " + last.Detail
	}
	obs := last.Obs
	if obs == nil {
		obs = map[string]any{}
	}
	obs["trace"] = last.Trace
	vfgo.Emit(vfgo.Result{Case: meta.ID, Status: status, Key: last.Key, Detail: last.Detail, Class: last.Class,
		Nontrivial: last.Class != "", Obs: obs})
}

func lastLine(b []byte) []byte {
	for len(b) > 0 && (b[len(b)-1] == '\n' || b[len(b)-1] == '\r') {
		b = b[:len(b)-1]
	}
	for i := len(b) - 1; i >= 0; i-- {
		if b[i] == '\n' {
			return b[i+1:]
		}
	}
	return b
}
