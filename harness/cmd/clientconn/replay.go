package main

// C27: replay of a TLC behaviour of spec/ClientConn (application calls, publish loop, monitor)
// on the real client by gating its goroutines at the verif hooks.

import (
	"context"
	"encoding/json"
	"fmt"
	"sort"
	"strings"
	"sync"
	"sync/atomic"
	"time"

	"github.com/gopcua/opcua"
)

type step struct {
	P string          `json:"p"`
	A string          `json:"a"`
	X json.RawMessage `json:"x"`
}

func (s step) xs() string {
	var v string
	if json.Unmarshal(s.X, &v) == nil {
		return v
	}
	return strings.Trim(string(s.X), `"`)
}
func (s step) xo() (o string, sub int) {
	var v struct {
		O   string `json:"o"`
		Sub int    `json:"sub"`
	}
	if json.Unmarshal(s.X, &v) == nil && v.O != "" {
		return v.O, v.Sub
	}
	return s.xs(), 0
}
func (s step) xi() int {
	var v int
	json.Unmarshal(s.X, &v)
	return v
}

type behaviour struct {
	ID          string   `json:"id"`
	Steps       []step   `json:"steps"`
	Stuck       bool     `json:"stuck"`
	LostResume  bool     `json:"lostresume"`
	BlockedApps []string `json:"blockedApps"`
	Lpc         string   `json:"lpc"`
	Subs        []int    `json:"subs"`
	Tries       int      `json:"tries"`
	End         bool     `json:"end"`  // the behaviour ends in a rest / stuck state of the model (not a prefix)
	Full        []string `json:"full"` // roles parked at a signal send on a full channel after the last step
}

type caseResult struct {
	Status string           `json:"status"` // ok | violation | inconclusive | drift
	Key    string           `json:"key,omitempty"`
	Detail string           `json:"detail,omitempty"`
	Class  string           `json:"class,omitempty"`
	Obs    map[string]any   `json:"obs,omitempty"`
	Trace  []map[string]any `json:"trace,omitempty"`
}

// worker runs the API calls of one application goroutine
type worker struct {
	role  string
	cmds  chan func()
	busy  int32
	calls int32
}

func newWorker(e *env, role string) *worker {
	w := &worker{role: role, cmds: make(chan func(), 16)}
	go func() {
		e.ctl.register(role)
		for f := range w.cmds {
			f()
			atomic.AddInt32(&w.calls, 1)
			atomic.StoreInt32(&w.busy, 0)
		}
	}()
	return w
}

func (w *worker) start(f func()) { atomic.StoreInt32(&w.busy, 1); w.cmds <- f }
func (w *worker) idle() bool     { return atomic.LoadInt32(&w.busy) == 0 }

// park point expected after a step of the model
var appPark = map[string]string{"SubCall": "sub.resume.send", "SubSend": "sub.resume.sent", "SubReg": "",
	"CancelCall": "forget.lock", "FgLock": "forget.locked", "FgDelete": "?", "FgPause": "sub.pause.sent", "FgUnlock": ""}

func armOf(p *park) string {
	if p == nil {
		return ""
	}
	if p.point == "sub.loop" {
		a, _ := p.kv["arm"].(string)
		return "a." + strings.NewReplacer("paused.resume", "presume", "paused.pause", "ppause", "publish.err", "err").Replace(a)
	}
	return p.point
}

func runReplay(b behaviour) caseResult {
	gates := map[string]map[string]bool{"loop": loopGates, "mon": monGates}
	apps := map[string]*worker{}
	for _, s := range b.Steps {
		if strings.HasPrefix(s.P, "a") && s.P != "env" {
			gates[s.P] = appGates
		}
	}
	e, err := setupEnv(gates)
	if err != nil {
		return caseResult{Status: "inconclusive", Detail: "setup: " + err.Error()}
	}
	defer e.teardown()
	if err := e.newClient(true); err != nil {
		return caseResult{Status: "inconclusive", Detail: "client: " + err.Error()}
	}
	e.ctl.setGating(true) // the loop parks at its first hook (arm=pause, the signal of NewClient)
	cctx, ccancel := context.WithTimeout(context.Background(), 30*time.Second)
	err = e.c.Connect(cctx)
	ccancel()
	if err != nil {
		return caseResult{Status: "inconclusive", Detail: "connect: " + err.Error()}
	}
	if p, ok := e.ctl.waitPark("loop", 0, nil, stepTimeout); !ok || armOf(p) != "a.pause" {
		return caseResult{Status: "inconclusive", Detail: "publish loop did not reach its initial paused state: " + armOf(p)}
	}
	for r := range gates {
		if r != "loop" && r != "mon" {
			apps[r] = newWorker(e, r)
		}
	}
	e.ctl.note("main", "replay.start", nil)

	var callErr sync.Map
	drift := ""
	pubOutcome := ""
	stopPoke := make(chan struct{})
	var pokeOnce sync.Once
	defer pokeOnce.Do(func() { close(stopPoke) })

	// one model step
	do := func(i int, s step) string {
		switch {
		case s.P == "env" && s.A != "Fault":
			if s.A == "Outcome" {
				pubOutcome = s.xs()
			}
			return ""
		case s.P == "loop":
			since := e.ctl.arrivals("loop")
			want := ""
			wait := stepTimeout
			switch s.A {
			case "Select":
				want = s.xs()
				if pubOutcome == "timeout" {
					wait += requestTimeout
				}
			case "PubStart":
				want = "pub.send"
			case "PubResult":
				o, _ := s.xo()
				want = map[string]string{"data": "pub.lock", "keepalive": "pub.lock", "fault": "a.err"}[o]
			case "PubLock":
				want = "pub.locked"
			case "Err":
				want = "sub.pause.send"
			case "SelfPause":
				want = "sub.pause.sent"
			}
			if !e.ctl.release("loop") {
				return fmt.Sprintf("step %d %s/%s: loop is not parked", i, s.A, s.xs())
			}
			if want == "done" {
				return ""
			}
			if o, _ := s.xo(); s.A == "PubResult" && o == "data" {
				// the environment owes a response: change the value until it arrives
				go func() {
					for k := 0; k < 400; k++ {
						if e.ctl.arrivals("loop") > since {
							return
						}
						e.srv.do("set")
						select {
						case <-stopPoke:
							return
						case <-time.After(120 * time.Millisecond):
						}
					}
				}()
			}
			if s.A != "PubStart" {
				pubOutcome = ""
			}
			var p *park
			var ok bool
			if s.A == "PubStart" || s.A == "PubLock" {
				// these segments only take subMux (no network): blocked = blocked on the lock
				if b := e.waitOrBlocked("loop", since, nil, "monitorSubscriptions"); b != "" {
					return fmt.Sprintf("BLOCKED step %d loop %s: %s", i, s.A, b)
				}
				p, ok = e.ctl.waitPark("loop", since, nil, time.Second)
			} else {
				p, ok = e.ctl.waitPark("loop", since, nil, wait)
			}
			if !ok {
				return fmt.Sprintf("step %d loop %s/%s: no arrival at %s within %v", i, s.A, s.xs(), want, wait)
			}
			if got := armOf(p); got != want {
				return fmt.Sprintf("step %d loop %s: arrived at %s, model says %s", i, s.A, got, want)
			}
			if _, msub := s.xo(); s.A == "PubResult" && want == "pub.lock" && msub != 0 {
				if h := e.handle(msub); h != nil {
					if got, _ := p.kv["sub"].(uint32); got != h.SubscriptionID {
						return fmt.Sprintf("step %d loop PubResult: response of server subscription %d, model says %d (model id %d)", i, got, h.SubscriptionID, msub)
					}
				}
			}
			return ""
		case s.P == "env" && s.A == "Fault":
			var f struct {
				K string `json:"k"`
			}
			json.Unmarshal(s.X, &f)
			e.ctl.note("env", "fault", map[string]any{"kind": f.K})
			switch f.K {
			case "reset":
				e.px.reset()
			case "restart":
				e.px.setMode("refuse")
				e.px.reset()
				e.srv.do("restart")
				e.px.reset()
				e.px.setMode("pass")
			default:
				return fmt.Sprintf("step %d: fault %s is not replayed under the gate", i, f.K)
			}
			return ""
		case s.P == "mon":
			since := e.ctl.arrivals("mon")
			spontaneous := s.A == "Err" // the monitor leaves its select by itself when the loss is reported
			if s.A == "Ctx" || s.A == "Exit" {
				e.ctl.release("mon")
				return ""
			}
			if spontaneous {
				if p := e.ctl.parkedAt("mon"); p != nil {
					return "" // already there
				}
				since = e.ctl.arrivals("mon") - 0
				if _, ok := e.ctl.waitPark("mon", since-0, nil, stepTimeout); !ok {
					if e.ctl.parkedAt("mon") == nil {
						return fmt.Sprintf("step %d mon Err: the monitor did not react to the connection loss within %v", i, stepTimeout)
					}
				}
				return ""
			}
			if s.A == "Done" {
				// parked at mon.done: the decision to resume the publish loop is made (activeSubs); it does not
				// depend on the schedule, so a difference from the specification is a deviation of the monitor
				if p := e.ctl.parkedAt("mon"); p != nil && p.point == "mon.done" {
					real, _ := p.kv["activeSubs"].(int)
					if (real > 0) != (s.xi() > 0) {
						subs, _, _, _, _ := e.subState(2 * time.Second)
						return fmt.Sprintf("DEVIATES step %d mon Done: the monitor ends the reconnect with activeSubs=%d (resume: %v), the specification with %d; registered subscriptions %v",
							i, real, real > 0, s.xi(), subs)
					}
				}
			}
			if !e.ctl.release("mon") {
				return fmt.Sprintf("step %d mon %s: the monitor is not parked", i, s.A)
			}
			if s.A == "Resume" {
				return ""
			}
			// an arm may take round trips; blocked = blocked on a lock / channel (goroutine dump)
			if b := e.waitOrBlocked("mon", since, func() bool { return false }, ""); b != "" {
				return fmt.Sprintf("BLOCKED step %d mon %s: %s", i, s.A, b)
			}
			if s.A == "Done" {
				e.ctl.waitPark("mon", since, nil, 500*time.Millisecond) // parks only when it has to resume
				return ""
			}
			if _, ok := e.ctl.waitPark("mon", since, nil, time.Second); !ok {
				return fmt.Sprintf("step %d mon %s: no arrival at the next hook within %v", i, s.A, stepTimeout)
			}
			return ""
		default:
			w := apps[s.P]
			since := e.ctl.arrivals(s.P)
			switch s.A {
			case "SubCallErr":
				e.ctl.note(s.P, "skip", map[string]any{"api": "subscribe", "id": 0})
				return ""
			case "CancelSkip":
				e.ctl.note(s.P, "skip", map[string]any{"api": "cancel", "id": 0})
				return ""
			case "SubCall":
				mid := s.xi()
				w.start(func() {
					e.ctl.note(s.P, "call", map[string]any{"api": "subscribe", "id": mid})
					ctx, cancel := context.WithCancel(context.Background())
					defer cancel()
					err := e.subscribe(ctx, mid)
					if err != nil {
						callErr.Store(fmt.Sprintf("%s#%d subscribe", s.P, mid), err.Error())
					}
					sid := uint32(0)
					if h := e.handle(mid); h != nil {
						sid = h.SubscriptionID
					}
					e.ctl.note(s.P, "return", map[string]any{"api": "subscribe", "id": mid, "sid": sid, "err": fmt.Sprint(err)})
				})
			case "CancelCall":
				mid := s.xi()
				h := e.handle(mid)
				if h == nil {
					return fmt.Sprintf("step %d: no handle for subscription %d", i, mid)
				}
				w.start(func() {
					e.ctl.note(s.P, "call", map[string]any{"api": "cancel", "id": mid})
					err := h.Cancel(context.Background())
					e.ctl.note(s.P, "return", map[string]any{"api": "cancel", "id": mid, "err": fmt.Sprint(err)})
				})
			default:
				if !e.ctl.release(s.P) {
					return fmt.Sprintf("step %d %s %s: not parked", i, s.P, s.A)
				}
			}
			want := appPark[s.A]
			if s.A != "SubCall" && s.A != "SubReg" && s.A != "FgUnlock" && s.A != "FgDelete" {
				// segments without a round trip: blocked = blocked on a channel / the lock
				if b := e.waitOrBlocked(s.P, since, w.idle, "harness"); b != "" {
					return fmt.Sprintf("BLOCKED step %d %s %s: %s", i, s.P, s.A, b)
				}
			}
			p, ok := e.ctl.waitPark(s.P, since, w.idle, stepTimeout)
			if !ok {
				if b := e.waitOrBlocked(s.P, since, w.idle, "harness"); b != "" {
					return fmt.Sprintf("BLOCKED step %d %s %s: %s", i, s.P, s.A, b)
				}
				return fmt.Sprintf("step %d %s %s: neither parked nor returned within %v", i, s.P, s.A, stepTimeout)
			}
			got := ""
			if p != nil {
				got = p.point
			}
			if want == "?" {
				if got != "" && got != "sub.pause.send" {
					return fmt.Sprintf("step %d %s %s: arrived at %s", i, s.P, s.A, got)
				}
			} else if got != want {
				return fmt.Sprintf("step %d %s %s: arrived at %q, model says %q", i, s.P, s.A, got, want)
			}
			return ""
		}
	}

	done := 0
	for i, s := range b.Steps {
		if d := do(i, s); d != "" {
			drift = d
			break
		}
		done++
	}

	// the send on a full signal channel must not block (one gated step per such role)
	if drift == "" {
		for _, r := range b.Full {
			since := e.ctl.arrivals(r)
			if !e.ctl.release(r) {
				continue
			}
			var done func() bool
			if w := apps[r]; w != nil {
				done = w.idle
			}
			if bl := e.waitOrBlocked(r, since, done, ""); bl != "" {
				drift = fmt.Sprintf("BLOCKED %s sending a signal on a full channel: %s", r, bl)
				break
			}
		}
	}
	// ---- final phase: let everything run and observe ----
	e.ctl.note("main", "replay.freerun", map[string]any{"steps": done, "drift": drift})
	e.ctl.releaseAll()
	// API calls must return.  Slack: a call may legitimately wait for one publish time-out
	// (requestTimeout) before the loop drains the signal channels; everything beyond
	// 2 x requestTimeout + 6 s counts as blocked for good (the goroutine dump is attached).
	limit := 2*requestTimeout + 6*time.Second
	dl := time.Now().Add(limit)
	allIdle := func() bool {
		for _, w := range apps {
			if !w.idle() {
				return false
			}
		}
		return true
	}
	// Early decision: an application goroutine blocked on a channel / lock while the publish loop is
	// blocked on a lock / channel too (two dumps 700 ms apart) cannot be released by anything.
	confirmed := 0
	for !allIdle() && time.Now().Before(dl) {
		time.Sleep(5 * time.Millisecond)
		if time.Since(dl.Add(-limit)) > time.Duration(confirmed+1)*700*time.Millisecond {
			gs := clientGoroutines()
			if blockedOnSync(gs, "cmd/clientconn") && blockedOnSync(gs, ").monitorSubscriptions(") {
				confirmed++
				if confirmed >= 2 {
					break
				}
			} else {
				confirmed = 0
				dl2 := time.Since(dl.Add(-limit))
				_ = dl2
			}
		}
	}
	obs := map[string]any{"steps": len(b.Steps), "replayed": done, "drift": drift, "model_stuck": b.Stuck, "model_lostresume": b.LostResume}
	res := caseResult{Status: "ok", Obs: obs}
	shape := scriptShape(b)
	res.Class = shape
	var blocked []string
	for r, w := range apps {
		if !w.idle() {
			blocked = append(blocked, r)
		}
	}
	sort.Strings(blocked)
	if len(blocked) > 0 {
		gs := clientGoroutines()
		var bs []string
		key := "api-call-blocked"
		for _, g := range gs {
			bs = append(bs, brief(g))
			switch {
			case strings.Contains(g, "forgetSubscription_NeedsSubMuxLock") && strings.Contains(g, "pauseSubscriptions"):
				key = "cancel-blocked-sending-pause-while-holding-submux"
			case strings.Contains(g, "(*Client).Subscribe(") && strings.Contains(g, "[chan send") && key == "api-call-blocked":
				key = "subscribe-blocked-sending-resume"
			}
		}
		res.Status, res.Key = "violation", key
		res.Detail = fmt.Sprintf("API call(s) of %v did not return within %v after the schedule %s; client goroutines: %s",
			blocked, limit, shape, strings.Join(bs, " || "))
		obs["blocked"] = blocked
	} else {
		// publish progress: with a registered subscription the loop must keep publishing
		subs, _, pc, rc, ok := e.subState(5 * time.Second)
		obs["subs"], obs["pausech"], obs["resumech"] = subs, pc, rc
		if !ok {
			res.Status, res.Key = "violation", "submux-held-forever"
			res.Detail = "subMux could not be read-locked within 5 s after all calls returned"
		} else if len(subs) > 0 && len(b.Subs) == 0 && b.End {
			// The model ends without a registered subscription, the client still has one: Cancel ran while the
			// monitor re-created the subscription under a new id (Cancel forgets the old id and deletes the new
			// one on the server).  Recorded, not a progress verdict: the loop legitimately waits for a response.
			obs["registered_although_cancelled"] = subs
		} else if len(subs) > 0 && e.c.State() == opcua.Connected {
			n0 := atomic.LoadInt64(&e.notifs)
			l0 := e.ctl.count("pub.send")
			progressed := false
			// slack: publish time-out (a stale request may have to expire first) + 8 s
			pdl := time.Now().Add(requestTimeout + 8*time.Second)
			t0 := time.Now()
			for time.Now().Before(pdl) {
				e.srv.do("set")
				time.Sleep(100 * time.Millisecond)
				if atomic.LoadInt64(&e.notifs) > n0 {
					progressed = true
					break
				}
				// the loop makes progress when it keeps sending publish requests (a subscription without
				// monitored items, or one the server has deleted, only produces keep-alives or time-outs)
				if e.ctl.count("pub.send") >= l0+3 {
					progressed = true
					obs["progress_by"] = "publish requests"
					break
				}
				// nothing can wake a loop that waits in its paused select with empty signal channels
				if time.Since(t0) > 1500*time.Millisecond && allIdle() && e.loopParkedForGood() {
					time.Sleep(300 * time.Millisecond)
					if e.loopParkedForGood() && atomic.LoadInt64(&e.notifs) == n0 {
						obs["decided_early"] = true
						break
					}
				}
			}
			obs["progress"] = progressed
			if !progressed {
				gs := clientGoroutines()
				var bs []string
				key := "publish-loop-stopped-with-registered-subscription"
				for _, g := range gs {
					bs = append(bs, brief(g))
					gl := strings.Split(g, "\n")
					if len(gl) > 1 && strings.Contains(gl[0], "[select") && strings.HasPrefix(gl[1], "github.com/gopcua/opcua.(*Client).monitorSubscriptions(") {
						key = "publish-loop-paused-with-registered-subscription"
						if drift == "" && !b.LostResume && b.End {
							// the schedule was driven exactly and the as-is model ends with a running loop
							key = "publish-loop-not-resumed-where-specification-resumes"
						}
					}
				}
				res.Status, res.Key = "violation", key
				res.Detail = fmt.Sprintf("subscriptions %v registered, state Connected, all calls returned, value changing every 100 ms, "+
					"but no notification within %v after the schedule %s; pausech=%d resumech=%d; client goroutines: %s",
					subs, requestTimeout+8*time.Second, shape, pc, rc, strings.Join(bs, " || "))
			}
		}
	}
	errs := map[string]string{}
	callErr.Range(func(k, v any) bool { errs[k.(string)] = v.(string); return true })
	if len(errs) > 0 {
		obs["call_errors"] = errs
	}
	if strings.HasPrefix(drift, "DEVIATES") {
		res.Status, res.Key, res.Detail = "violation", "monitor-resume-decision-differs-from-specification", drift
	}
	if strings.HasPrefix(drift, "BLOCKED") {
		// takes precedence over whatever the free run shows: the code blocked earlier than the as-is model says
		res.Status, res.Key, res.Detail = "violation", "api-call-blocked-where-specification-allows-progress", drift
	}
	if res.Status == "ok" {
		switch {
		case drift != "":
			res.Status = "drift"
			res.Detail = drift
		case b.Stuck || b.LostResume:
			// the as-is model predicts a stuck end for this schedule, the client came through: the
			// deviation is not (or no longer) in the code.  The verdict is the client's behaviour.
			obs["model_end_not_reproduced"] = true
		}
	}
	res.Trace = e.ctl.snapshot()
	pokeOnce.Do(func() { close(stopPoke) })
	return res
}

func scriptShape(b behaviour) string {
	per := map[string][]string{}
	for _, s := range b.Steps {
		switch s.A {
		case "SubCall", "SubCallErr":
			per[s.P] = append(per[s.P], "sub")
		case "CancelCall", "CancelSkip":
			per[s.P] = append(per[s.P], "cancel")
		case "Close":
			per[s.P] = append(per[s.P], "close")
		case "Fault":
			per["env"] = append(per["env"], s.xs())
		}
	}
	var ks []string
	for k := range per {
		ks = append(ks, k)
	}
	sort.Strings(ks)
	var parts []string
	for _, k := range ks {
		parts = append(parts, k+":"+strings.Join(per[k], ","))
	}
	end := "rest"
	if b.Stuck {
		end = "stuck"
	} else if b.LostResume {
		end = "lostresume"
	}
	return strings.Join(parts, " ") + " -> " + end + "/" + b.Lpc
}

// waitOrBlocked waits until the role parks / finishes; returns a description when the goroutine
// is seen blocked on a mutex or channel in two dumps (it then cannot reach its next hook).
func (e *env) waitOrBlocked(role string, since int, done func() bool, fn string) string {
	seen := 0
	t0 := time.Now()
	for time.Since(t0) < stepTimeout {
		if _, ok := e.ctl.waitPark(role, since, done, 600*time.Millisecond); ok {
			return ""
		}
		gs := clientGoroutines()
		pat := ").monitorSubscriptions("
		if role == "mon" {
			pat = "(*Client).monitor("
		} else if role != "loop" {
			pat = "cmd/clientconn"
		}
		if blockedOnSync(gs, pat) {
			seen++
			if seen >= 3 {
				var bs []string
				for _, g := range gs {
					bs = append(bs, brief(g))
				}
				return fmt.Sprintf("the goroutine is blocked on a lock / channel although the specification allows the step; client goroutines: %s", strings.Join(bs, " || "))
			}
		} else {
			seen = 0
		}
	}
	return ""
}
