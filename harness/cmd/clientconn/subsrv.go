package main

// Scripted subscription server for the C26 stream scenarios: real gopcua server secure
// channels (harness/scriptsrv), every service answered by this script.  It keeps sessions,
// subscriptions with a retransmission queue, holds PublishRequests, answers Republish and
// TransferSubscriptions, and produces notifications / keep-alives only when the harness says
// so (no timers), so a scenario row of spec/ClientConn/SubSeq.tla can be produced exactly.

import (
	"context"
	"fmt"
	"sort"
	"sync"
	"time"

	"github.com/gopcua/opcua/ua"
	"github.com/gopcua/opcua/uasc"

	"verifharness/scriptsrv"
)

type heldPublish struct {
	sc      *uasc.SecureChannel
	reqID   uint32
	req     *ua.PublishRequest
	results []ua.StatusCode
	sess    string
}

type ssub struct {
	id      uint32
	sess    string
	handles []uint32
	seq     uint32
	queue   map[uint32]*ua.NotificationMessage
}

type ackRec struct {
	Sub    uint32 `json:"sub"`
	Seq    uint32 `json:"seq"`
	Status string `json:"status"`
}

type subSrv struct {
	srv          *scriptsrv.Server
	mu           sync.Mutex
	sessions     map[string]bool
	nextTok      uint32
	subs         map[uint32]*ssub
	nextSub      uint32
	nextItem     uint32
	held         []*heldPublish
	arrived      int
	acks         []ackRec
	republish    []uint32
	transfers    int
	seen         map[*uasc.SecureChannel]bool // channels that sent a request
	deadSC       map[*uasc.SecureChannel]bool // ... and were cut by the harness
	beforeDelete uint32                       // DeleteSubscriptions of this id: first answer a held PublishRequest with its keep-alive
}

func startSubSrv() (*subSrv, error) {
	s := &subSrv{sessions: map[string]bool{}, subs: map[uint32]*ssub{}, nextTok: 5000,
		seen: map[*uasc.SecureChannel]bool{}, deadSC: map[*uasc.SecureChannel]bool{}}
	srv, err := scriptsrv.Start("2048b", s.handle)
	if err != nil {
		return nil, err
	}
	s.srv = srv
	return s, nil
}

func tok(req ua.Request) string {
	if h := req.Header(); h != nil && h.AuthenticationToken != nil {
		return h.AuthenticationToken.String()
	}
	return ""
}

func (s *subSrv) handle(sc *uasc.SecureChannel, reqID uint32, req ua.Request) ua.Response {
	s.mu.Lock()
	defer s.mu.Unlock()
	if s.deadSC[sc] {
		return nil // a request that was still in the pipe of a link the harness has cut
	}
	s.seen[sc] = true
	h := scriptsrv.Header(req, ua.StatusOK)
	switch req.(type) {
	case *ua.GetEndpointsRequest:
		return &ua.GetEndpointsResponse{ResponseHeader: h, Endpoints: []*ua.EndpointDescription{s.srv.Endpoint("None", "None")}}
	case *ua.CreateSessionRequest:
		s.nextTok++
		t := ua.NewNumericNodeID(1, s.nextTok)
		s.sessions[t.String()] = true
		return &ua.CreateSessionResponse{ResponseHeader: h, SessionID: ua.NewNumericNodeID(1, s.nextTok+100000), AuthenticationToken: t,
			RevisedSessionTimeout: 600000, ServerNonce: make([]byte, 32), ServerCertificate: nil, ServerEndpoints: []*ua.EndpointDescription{},
			ServerSoftwareCertificates: []*ua.SignedSoftwareCertificate{}, ServerSignature: &ua.SignatureData{}}
	}
	t := tok(req)
	if !s.sessions[t] {
		return scriptsrv.Fault(req, ua.StatusBadSessionIDInvalid)
	}
	switch q := req.(type) {
	case *ua.ActivateSessionRequest:
		return &ua.ActivateSessionResponse{ResponseHeader: h, ServerNonce: make([]byte, 32), Results: []ua.StatusCode{}, DiagnosticInfos: []*ua.DiagnosticInfo{}}
	case *ua.CloseSessionRequest:
		delete(s.sessions, t)
		return &ua.CloseSessionResponse{ResponseHeader: h}
	case *ua.ReadRequest:
		return scriptsrv.NamespaceArrayRead(q)
	case *ua.CreateSubscriptionRequest:
		s.nextSub++
		s.subs[s.nextSub] = &ssub{id: s.nextSub, sess: t, queue: map[uint32]*ua.NotificationMessage{}}
		return &ua.CreateSubscriptionResponse{ResponseHeader: h, SubscriptionID: s.nextSub, RevisedPublishingInterval: q.RequestedPublishingInterval,
			RevisedLifetimeCount: q.RequestedLifetimeCount, RevisedMaxKeepAliveCount: q.RequestedMaxKeepAliveCount}
	case *ua.CreateMonitoredItemsRequest:
		sub := s.subs[q.SubscriptionID]
		if sub == nil || sub.sess != t {
			return scriptsrv.Fault(req, ua.StatusBadSubscriptionIDInvalid)
		}
		res := make([]*ua.MonitoredItemCreateResult, len(q.ItemsToCreate))
		for i, it := range q.ItemsToCreate {
			s.nextItem++
			sub.handles = append(sub.handles, it.RequestedParameters.ClientHandle)
			res[i] = &ua.MonitoredItemCreateResult{StatusCode: ua.StatusOK, MonitoredItemID: s.nextItem,
				RevisedSamplingInterval: 0, RevisedQueueSize: 10, FilterResult: ua.NewExtensionObject(nil)}
		}
		return &ua.CreateMonitoredItemsResponse{ResponseHeader: h, Results: res, DiagnosticInfos: []*ua.DiagnosticInfo{}}
	case *ua.DeleteSubscriptionsRequest:
		res := make([]ua.StatusCode, len(q.SubscriptionIDs))
		for i, id := range q.SubscriptionIDs {
			if sub := s.subs[id]; sub != nil && sub.sess == t && id == s.beforeDelete {
				// a keep-alive of the subscription was still queued: it goes out on the waiting PublishRequest
				// before the subscription is deleted (the client has already forgotten the subscription)
				s.beforeDelete = 0
				for k, hp := range s.held {
					if hp.sess == t {
						s.held = append(s.held[:k], s.held[k+1:]...)
						resp := &ua.PublishResponse{ResponseHeader: scriptsrv.Header(hp.req, ua.StatusOK), SubscriptionID: sub.id,
							AvailableSequenceNumbers: sub.avail(), NotificationMessage: &ua.NotificationMessage{SequenceNumber: sub.seq + 1,
								PublishTime: time.Now(), NotificationData: []*ua.ExtensionObject{}},
							Results: hp.results, DiagnosticInfos: []*ua.DiagnosticInfo{}}
						ctx, cancel := context.WithTimeout(context.Background(), 10*time.Second)
						hp.sc.SendResponseWithContext(ctx, hp.reqID, resp)
						cancel()
						break
					}
				}
			}
			if sub := s.subs[id]; sub != nil && sub.sess == t {
				delete(s.subs, id)
				res[i] = ua.StatusOK
			} else {
				res[i] = ua.StatusBadSubscriptionIDInvalid
			}
		}
		return &ua.DeleteSubscriptionsResponse{ResponseHeader: h, Results: res, DiagnosticInfos: []*ua.DiagnosticInfo{}}
	case *ua.PublishRequest:
		mine := 0
		for _, sub := range s.subs {
			if sub.sess == t {
				mine++
			}
		}
		res := make([]ua.StatusCode, len(q.SubscriptionAcknowledgements))
		for i, a := range q.SubscriptionAcknowledgements {
			st := ua.StatusOK
			if sub := s.subs[a.SubscriptionID]; sub == nil || sub.sess != t {
				st = ua.StatusBadSubscriptionIDInvalid
			} else if _, ok := sub.queue[a.SequenceNumber]; !ok {
				st = ua.StatusBadSequenceNumberUnknown
			} else {
				delete(sub.queue, a.SequenceNumber)
			}
			res[i] = st
			s.acks = append(s.acks, ackRec{a.SubscriptionID, a.SequenceNumber, fmt.Sprint(st)})
		}
		s.arrived++
		if mine == 0 {
			return scriptsrv.Fault(req, ua.StatusBadNoSubscription)
		}
		s.held = append(s.held, &heldPublish{sc: sc, reqID: reqID, req: q, results: res, sess: t})
		return nil
	case *ua.RepublishRequest:
		sub := s.subs[q.SubscriptionID]
		if sub == nil || sub.sess != t {
			return scriptsrv.Fault(req, ua.StatusBadSubscriptionIDInvalid)
		}
		s.republish = append(s.republish, q.RetransmitSequenceNumber)
		msg := sub.queue[q.RetransmitSequenceNumber]
		if msg == nil {
			return scriptsrv.Fault(req, ua.StatusBadMessageNotAvailable)
		}
		return &ua.RepublishResponse{ResponseHeader: h, NotificationMessage: msg}
	case *ua.TransferSubscriptionsRequest:
		s.transfers++
		res := make([]*ua.TransferResult, len(q.SubscriptionIDs))
		for i, id := range q.SubscriptionIDs {
			sub := s.subs[id]
			if sub == nil {
				res[i] = &ua.TransferResult{StatusCode: ua.StatusBadSubscriptionIDInvalid, AvailableSequenceNumbers: []uint32{}}
				continue
			}
			sub.sess = t
			res[i] = &ua.TransferResult{StatusCode: ua.StatusOK, AvailableSequenceNumbers: sub.avail()}
		}
		return &ua.TransferSubscriptionsResponse{ResponseHeader: h, Results: res, DiagnosticInfos: []*ua.DiagnosticInfo{}}
	}
	return scriptsrv.Fault(req, ua.StatusBadServiceUnsupported)
}

func (sub *ssub) avail() []uint32 {
	ks := make([]uint32, 0, len(sub.queue))
	for k := range sub.queue {
		ks = append(ks, k)
	}
	sort.Slice(ks, func(i, j int) bool { return ks[i] < ks[j] })
	return ks
}

// takeHeld waits for a held PublishRequest of the session that owns the subscription.
func (s *subSrv) takeHeld(subID uint32, d time.Duration) (*heldPublish, *ssub) {
	dl := time.Now().Add(d)
	for {
		s.mu.Lock()
		sub := s.subs[subID]
		if sub != nil {
			for i, hp := range s.held {
				if hp.sess == sub.sess {
					s.held = append(s.held[:i], s.held[i+1:]...)
					s.mu.Unlock()
					return hp, sub
				}
			}
		}
		s.mu.Unlock()
		if time.Now().After(dl) {
			return nil, sub
		}
		time.Sleep(2 * time.Millisecond)
	}
}

func (s *subSrv) respond(hp *heldPublish, sub *ssub, msg *ua.NotificationMessage) error {
	s.mu.Lock()
	resp := &ua.PublishResponse{ResponseHeader: scriptsrv.Header(hp.req, ua.StatusOK), SubscriptionID: sub.id,
		AvailableSequenceNumbers: sub.avail(), MoreNotifications: false, NotificationMessage: msg,
		Results: hp.results, DiagnosticInfos: []*ua.DiagnosticInfo{}}
	s.mu.Unlock()
	ctx, cancel := context.WithTimeout(context.Background(), 10*time.Second)
	defer cancel()
	return hp.sc.SendResponseWithContext(ctx, hp.reqID, resp)
}

// emitData produces the next notification of the subscription (value = its sequence number).
// lost: it is queued for retransmission and a held request is used up, but nothing is sent.
func (s *subSrv) emitData(subID uint32, lost bool) (uint32, error) {
	hp, sub := s.takeHeld(subID, 15*time.Second)
	if hp == nil {
		return 0, fmt.Errorf("no PublishRequest is waiting at the server")
	}
	s.mu.Lock()
	sub.seq++
	n := sub.seq
	items := make([]*ua.MonitoredItemNotification, 0, len(sub.handles))
	for _, h := range sub.handles {
		items = append(items, &ua.MonitoredItemNotification{ClientHandle: h,
			Value: &ua.DataValue{EncodingMask: ua.DataValueValue, Value: ua.MustVariant(int32(n))}})
	}
	eo := ua.NewExtensionObject(&ua.DataChangeNotification{MonitoredItems: items, DiagnosticInfos: []*ua.DiagnosticInfo{}})
	eo.UpdateMask()
	msg := &ua.NotificationMessage{SequenceNumber: n, PublishTime: time.Now(), NotificationData: []*ua.ExtensionObject{eo}}
	sub.queue[n] = msg
	s.mu.Unlock()
	if lost {
		return n, nil
	}
	return n, s.respond(hp, sub, msg)
}

// emitKeepAlive answers a held request with a keep-alive (it carries the next sequence number).
func (s *subSrv) emitKeepAlive(subID uint32) error {
	hp, sub := s.takeHeld(subID, 15*time.Second)
	if hp == nil {
		return fmt.Errorf("no PublishRequest is waiting at the server")
	}
	s.mu.Lock()
	n := sub.seq + 1
	s.mu.Unlock()
	return s.respond(hp, sub, &ua.NotificationMessage{SequenceNumber: n, PublishTime: time.Now(), NotificationData: []*ua.ExtensionObject{}})
}

func (s *subSrv) dropSessions() {
	s.mu.Lock()
	s.sessions = map[string]bool{}
	s.mu.Unlock()
}

// linkCut forgets the requests held for connections that are gone.
func (s *subSrv) linkCut() {
	s.mu.Lock()
	s.held = nil
	for sc := range s.seen {
		s.deadSC[sc] = true
	}
	s.mu.Unlock()
}

func (s *subSrv) arrivals() int { s.mu.Lock(); defer s.mu.Unlock(); return s.arrived }

func (s *subSrv) waitArrivals(n int, d time.Duration) bool {
	dl := time.Now().Add(d)
	for s.arrivals() < n {
		if time.Now().After(dl) {
			return false
		}
		time.Sleep(2 * time.Millisecond)
	}
	return true
}

func (s *subSrv) setBeforeDelete(id uint32) { s.mu.Lock(); s.beforeDelete = id; s.mu.Unlock() }

// emitPublishError answers a held request with a PublishResponse whose service result is bad and whose
// subscription id is 0 (a status the publish loop does not special-case).
func (s *subSrv) emitPublishError(subID uint32) error {
	hp, _ := s.takeHeld(subID, 15*time.Second)
	if hp == nil {
		return fmt.Errorf("no PublishRequest is waiting at the server")
	}
	// the client reacts with a reconnect within milliseconds: everything that is connected NOW is the old
	// link (its late requests are ignored), the new connection must not be mistaken for it
	s.linkCut()
	resp := &ua.PublishResponse{ResponseHeader: scriptsrv.Header(hp.req, ua.StatusBadInternalError), SubscriptionID: 0,
		AvailableSequenceNumbers: []uint32{}, NotificationMessage: &ua.NotificationMessage{PublishTime: time.Now(), NotificationData: []*ua.ExtensionObject{}},
		Results: hp.results, DiagnosticInfos: []*ua.DiagnosticInfo{}}
	ctx, cancel := context.WithTimeout(context.Background(), 10*time.Second)
	defer cancel()
	return hp.sc.SendResponseWithContext(ctx, hp.reqID, resp)
}
