package main

import (
	"context"
	"fmt"
	"runtime/pprof"
	"strings"
	"sync"
	"sync/atomic"
	"time"

	"github.com/gopcua/opcua"
	"github.com/gopcua/opcua/ua"
)

// timing constants of the scenarios (all oracles that depend on time state their slack)
const (
	reconnectInterval = 100 * time.Millisecond
	requestTimeout    = 2 * time.Second  // also the publish time-out (keep-alive period is shorter than this, see subParams)
	stepTimeout       = 20 * time.Second // a released goroutine must reach its next gate within this time (loaded machine)
)

// keep-alive after 20 x 50 ms = 1 s without data; publishTimeout = max(RequestTimeout, 1 s) = 2 s
var subParams = opcua.SubscriptionParameters{Interval: 50 * time.Millisecond, MaxKeepAliveCount: 20, LifetimeCount: 10000}

type env struct {
	srv    *srvProc
	px     *proxy
	c      *opcua.Client
	ctl    *ctl
	notifs int64
	errs   int64
	mu     sync.Mutex
	subs   map[int]*opcua.Subscription // model id -> handle
	notif  chan *opcua.PublishNotificationData
	states []string
	perH   map[uint32]int64 // notifications per client handle
	values []int            // values delivered to the application, in order (stream scenarios)
	target string           // host:port behind the proxy
}

func setupEnv(gates map[string]map[string]bool) (*env, error) {
	srv, err := launchServer()
	if err != nil {
		return nil, fmt.Errorf("server: %w", err)
	}
	px, err := newProxy(fmt.Sprintf("127.0.0.1:%d", srv.port))
	if err != nil {
		srv.kill()
		return nil, err
	}
	e := &env{srv: srv, px: px, ctl: newCtl(), subs: map[int]*opcua.Subscription{},
		notif: make(chan *opcua.PublishNotificationData, 1024), perH: map[uint32]int64{}}
	e.ctl.gate = gates
	e.ctl.register("main")
	e.ctl.install()
	go e.drain()
	return e, nil
}

func (e *env) drain() {
	for n := range e.notif {
		if n.Error != nil {
			atomic.AddInt64(&e.errs, 1)
			continue
		}
		if dc, ok := n.Value.(*ua.DataChangeNotification); ok {
			e.mu.Lock()
			for _, mi := range dc.MonitoredItems {
				e.perH[mi.ClientHandle]++
				if mi.Value != nil && mi.Value.Value != nil {
					if v, ok := mi.Value.Value.Value().(int32); ok {
						e.values = append(e.values, int(v))
					}
				}
			}
			e.mu.Unlock()
			atomic.AddInt64(&e.notifs, 1)
			e.ctl.note("app", "notif", map[string]any{"sub": n.SubscriptionID})
		}
	}
}

func (e *env) newClient(auto bool) error {
	c, err := opcua.NewClient(e.px.url(),
		opcua.SecurityMode(ua.MessageSecurityModeNone),
		opcua.AutoReconnect(auto),
		opcua.ReconnectInterval(reconnectInterval),
		opcua.RequestTimeout(requestTimeout),
		opcua.DialTimeout(2*time.Second),
		opcua.StateChangedFunc(func(s opcua.ConnState) {
			e.mu.Lock()
			e.states = append(e.states, s.String())
			e.mu.Unlock()
		}),
	)
	if err != nil {
		return err
	}
	e.c = c
	return nil
}

func (e *env) teardown() {
	e.ctl.releaseAll()
	opcua.VerifHook.Store(func(string, *opcua.Client, ...any) {})
	e.px.close()
	e.srv.kill()
}

// subscribe = Subscribe + one monitored item on the server's variable
func (e *env) subscribe(ctx context.Context, mid int) error {
	p := subParams
	sub, err := e.c.Subscribe(ctx, &p, e.notif)
	if err != nil {
		return err
	}
	e.mu.Lock()
	e.subs[mid] = sub
	e.mu.Unlock()
	// two monitored items with different TimestampsToReturn (two groups in recreate_monitoredItems)
	for k, spec := range []struct {
		node string
		ts   ua.TimestampsToReturn
	}{{"v1", ua.TimestampsToReturnBoth}, {"v2", ua.TimestampsToReturnSource}} {
		req := opcua.NewMonitoredItemCreateRequestWithDefaults(ua.NewStringNodeID(uint16(e.srv.ns), spec.node), ua.AttributeIDValue, uint32(mid*10+k+1))
		res, err := sub.Monitor(ctx, spec.ts, req)
		if err != nil {
			return fmt.Errorf("monitor: %w", err)
		}
		if len(res.Results) != 1 || res.Results[0].StatusCode != ua.StatusOK {
			return fmt.Errorf("monitor result: %v", res.Results)
		}
	}
	return nil
}

// handleCounts is a copy of the notifications seen per client handle.
func (e *env) handleCounts() map[uint32]int64 {
	e.mu.Lock()
	defer e.mu.Unlock()
	m := map[uint32]int64{}
	for k, v := range e.perH {
		m[k] = v
	}
	return m
}

func (e *env) handle(mid int) *opcua.Subscription {
	e.mu.Lock()
	defer e.mu.Unlock()
	return e.subs[mid]
}

// subState reads the client's subscription table with a time-out (it needs subMux).
func (e *env) subState(d time.Duration) (subs []uint32, acks [][2]uint32, pc, rc int, ok bool) {
	type r struct {
		s    []uint32
		a    [][2]uint32
		p, q int
	}
	ch := make(chan r, 1)
	go func() { s, a, p, q := opcua.VerifSubscriptionState(e.c); ch <- r{s, a, p, q} }()
	select {
	case x := <-ch:
		return x.s, x.a, x.p, x.q, true
	case <-time.After(d):
		return nil, nil, 0, 0, false
	}
}

// clientGoroutines returns the stacks of goroutines that run gopcua client code (package
// opcua root, uasc, uacp), excluding the harness' own frames-only goroutines.
func clientGoroutines() []string {
	var sb strings.Builder
	pprof.Lookup("goroutine").WriteTo(&sb, 2)
	var res []string
	for _, g := range strings.Split(sb.String(), "\n\n") {
		if strings.Contains(g, "github.com/gopcua/opcua.(") || strings.Contains(g, "github.com/gopcua/opcua/uasc.") ||
			strings.Contains(g, "github.com/gopcua/opcua/uacp.") {
			res = append(res, g)
		}
	}
	return res
}

// short description of a goroutine stack: state + the gopcua frames
func brief(g string) string {
	lines := strings.Split(g, "\n")
	out := []string{}
	if len(lines) > 0 {
		out = append(out, lines[0])
	}
	for _, l := range lines[1:] {
		if strings.HasPrefix(l, "github.com/gopcua/opcua") {
			if i := strings.Index(l, "("); i > 0 {
				l = l[:strings.LastIndex(l, "(")]
			}
			out = append(out, strings.TrimPrefix(l, "github.com/gopcua/opcua"))
		}
	}
	if len(out) > 7 {
		out = out[:7]
	}
	return strings.Join(out, " < ")
}

// loopParkedForGood: the publish loop goroutine sits in the inner (paused) select of
// monitorSubscriptions, both signal channels are empty and the monitor is idle in its outer
// select: nothing but a new API call or a new fault can wake it.
func (e *env) loopParkedForGood() bool {
	_, _, pc, rc, ok := e.subState(2 * time.Second)
	if !ok || pc != 0 || rc != 0 {
		return false
	}
	loopPaused, monIdle := false, false
	for _, g := range clientGoroutines() {
		lines := strings.Split(g, "\n")
		if len(lines) < 2 || !strings.Contains(lines[0], "[select") {
			continue
		}
		// top frame decides
		if strings.HasPrefix(lines[1], "github.com/gopcua/opcua.(*Client).monitorSubscriptions(") {
			loopPaused = true
		}
		if strings.HasPrefix(lines[1], "github.com/gopcua/opcua.(*Client).monitor(") {
			monIdle = true
		}
	}
	return loopPaused && monIdle
}

// blockedOnSync reports whether the goroutine running the given function is blocked on a
// mutex or a channel send (and not waiting for the network).
func blockedOnSync(gs []string, fn string) bool {
	for _, g := range gs {
		if !strings.Contains(g, fn) {
			continue
		}
		h := strings.SplitN(g, "\n", 2)[0]
		if strings.Contains(h, "sync.RWMutex") || strings.Contains(h, "sync.Mutex") || strings.Contains(h, "chan send") ||
			(strings.Contains(h, "[select") && (strings.Contains(g, ").pauseSubscriptions(") || strings.Contains(g, ").resumeSubscriptions("))) {
			return true
		}
	}
	return false
}
