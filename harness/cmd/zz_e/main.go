package main

import (
	"encoding/hex"
	"fmt"
	"os"
	"runtime"
	"time"

	"github.com/gopcua/opcua/ua"
)

func main() {
	for _, h := range os.Args[1:] {
		b, _ := hex.DecodeString(h)
		var v ua.Variant
		var m0, m1 runtime.MemStats
		runtime.ReadMemStats(&m0)
		t := time.Now()
		n, err := v.Decode(b)
		runtime.ReadMemStats(&m1)
		fmt.Println(h, n, err, time.Since(t), m1.TotalAlloc-m0.TotalAlloc)
	}
}
