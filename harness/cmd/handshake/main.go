// Command handshake replays the rows emitted by spec/Handshake on the real code.
//
//	kind=adv/opn  (C30)  real server with the TLC-chosen configuration (child process), real client
//	                     channel opened with the TLC-chosen (policy, mode); expected accept/refuse and
//	                     the expected advertised endpoints come from the specification.
//	kind=interop  (C37)  real server, real client that discovers, selects the endpoint, connects with
//	                     the TLC-chosen key size and user token type, writes and reads back.
//	kind=sig      (C22)  scripted server on a real uasc server channel answers CreateSession with the
//	                     TLC-chosen signature class; the real client's Connect runs in a child process.
package main

import (
	"bufio"
	"bytes"
	"context"
	"crypto/rand"
	"encoding/json"
	"flag"
	"fmt"
	"io"
	"net"
	"os"
	"sort"
	"strings"
	"sync"
	"sync/atomic"
	"time"

	"github.com/gopcua/opcua"
	"github.com/gopcua/opcua/id"
	"github.com/gopcua/opcua/server"
	"github.com/gopcua/opcua/ua"
	"github.com/gopcua/opcua/uacp"
	"github.com/gopcua/opcua/uapolicy"
	"github.com/gopcua/opcua/uasc"

	"verifharness/keys"
	"verifharness/scriptsrv"
	"verifharness/vfgo"
)

type pair struct {
	Pol  string `json:"pol"`
	Mode string `json:"mode"`
}
type tokp struct {
	Type string `json:"type"`
	Pol  string `json:"pol"`
}
type endp struct {
	Pol  string `json:"pol"`
	Mode string `json:"mode"`
	Toks []tokp `json:"toks"`
	URL  string `json:"url,omitempty"`
}

// view is one reading of the advertised endpoints: which endpoint URL was asked for, when, what came back.
type view struct {
	URL  string `json:"url"`
	When string `json:"when"`
	Src  string `json:"src"` // wire | api
	Eps  []endp `json:"eps"`
	Err  string `json:"err,omitempty"`
}
type cfgT struct {
	Pairs []pair   `json:"pairs"`
	Skey  int      `json:"skey"`
	Auth  []string `json:"auth"`
}
type opRes struct {
	Op  string `json:"op"`
	Res string `json:"res"`
	Val int    `json:"val"`
}
type expectT struct {
	State   string  `json:"state"`
	Sess    string  `json:"sess"`
	SrvSess string  `json:"srvSess"`
	Ops     []opRes `json:"ops"`
}
type tryT struct {
	Sig   string `json:"sig"`
	Sres  string `json:"sres"`
	State string `json:"state"`
	Chan  string `json:"chan"`
}

type row struct {
	Prev    string   `json:"prev,omitempty"`    // opn rows: history of the server before this request ("none" | "secured")
	Sres    string   `json:"sres,omitempty"`    // sig rows: class of the service result of the CreateSession response
	Allowed []string `json:"allowed,omitempty"` // sig rows: client states the specification allows at the end
	Tries   []tryT   `json:"tries,omitempty"`   // seq rows: Connect attempts on one client value
	Kind   string          `json:"kind"`
	Cfg    cfgT            `json:"cfg"`
	Adv    []endp          `json:"adv"`
	Pol    string          `json:"pol"`
	Mode   string          `json:"mode"`
	Ckey   int             `json:"ckey"`
	Tok    string          `json:"tok"`
	Sig    string          `json:"sig"`
	Expect json.RawMessage `json:"expect"`
}

// obs is what a child reports for one row (or for the server as a whole: I = -1).
type obs struct {
	I           int    `json:"i"`
	API         []endp `json:"api,omitempty"`  // Server.Endpoints()
	Wire        []endp `json:"wire,omitempty"` // GetEndpoints over the wire
	WireErr     string `json:"wireErr,omitempty"`
	Views       []view `json:"views,omitempty"` // every reading of the advertised list (both endpoint URLs, start and end of the run)
	Local       bool   `json:"local,omitempty"` // the client library refused to build such a channel
	Established bool   `json:"established,omitempty"`
	SrvOpened   bool   `json:"srvOpened,omitempty"` // the server side reached the end of its OPN handling (verif hook srv.opn.end)
	RawOpn      bool   `json:"rawOpn,omitempty"`    // driven through a uasc client channel whose request carries the invalid combination
	Usable      bool   `json:"usable,omitempty"`
	Err         string `json:"err,omitempty"`
	Stage       string `json:"stage,omitempty"`
	State       string `json:"state,omitempty"`
	WriteRes    string `json:"writeRes,omitempty"`
	ReadRes     string `json:"readRes,omitempty"`
	Wrote       int    `json:"wrote,omitempty"`
	ReadVal     int    `json:"readVal,omitempty"`
	Wrote2      int    `json:"wrote2,omitempty"`
	ReadVal2    int    `json:"readVal2,omitempty"`
	EpToks      []tokp `json:"epToks,omitempty"`
	Session     bool   `json:"session,omitempty"`
	Raw         string `json:"raw,omitempty"`
}

var propFlag = flag.String("prop", "", "C30 | C37 | C22")
var parFlag = flag.Int("par", 4, "server children in parallel")

func main() {
	vfgo.Init()
	defer vfgo.Flush()
	switch *vfgo.ChildFlag {
	case "server":
		childServer()
		return
	case "connect":
		childConnect()
		return
	case "overlap":
		childOverlap()
		return
	case "connectseq":
		childConnectSeq()
		return
	}
	rows := vfgo.Cases[row]()
	var sigRows []row
	groups := map[string][]row{}
	var order []string
	for _, r := range rows {
		if r.Kind == "sig" || r.Kind == "seq" {
			sigRows = append(sigRows, r)
			continue
		}
		k := cfgKey(r.Cfg)
		if _, ok := groups[k]; !ok {
			order = append(order, k)
		}
		groups[k] = append(groups[k], r)
	}
	sem := make(chan struct{}, *parFlag)
	var wg sync.WaitGroup
	for _, k := range order {
		wg.Add(1)
		sem <- struct{}{}
		go func(rs []row) {
			defer wg.Done()
			defer func() { <-sem }()
			runGroup(rs)
		}(groups[k])
	}
	wg.Wait()
	for _, r := range sigRows {
		wg.Add(1)
		sem <- struct{}{}
		go func(r row) {
			defer wg.Done()
			defer func() { <-sem }()
			if r.Kind == "seq" {
				runSeq(r)
				return
			}
			runSig(r)
		}(r)
	}
	wg.Wait()
}

func cfgKey(c cfgT) string {
	ps := make([]string, len(c.Pairs))
	for i, p := range c.Pairs {
		ps[i] = p.Pol + "/" + p.Mode
	}
	sort.Strings(ps)
	a := append([]string(nil), c.Auth...)
	sort.Strings(a)
	return fmt.Sprintf("%s|%d|%s", strings.Join(ps, ","), c.Skey, strings.Join(a, ","))
}

func cfgShape(c cfgT) string {
	return fmt.Sprintf("pairs%d/key%d/auth=%s", len(c.Pairs), c.Skey, strings.Join(c.Auth, "+"))
}

// ------------------------------------------------------------------ parent: server groups

func runGroup(rs []row) {
	in, _ := json.Marshal(struct {
		Cfg  cfgT  `json:"cfg"`
		Rows []row `json:"rows"`
	}{rs[0].Cfg, rs})
	var out vfgo.ChildOutcome
	var byI map[int]obs
	for try := 0; try < 3; try++ {
		out = vfgo.RunChild("server", in, time.Duration(60+20*len(rs))*time.Second)
		byI = map[int]obs{}
		sc := bufio.NewScanner(bytes.NewReader(out.Stdout))
		sc.Buffer(make([]byte, 1<<20), 1<<26)
		for sc.Scan() {
			var o obs
			if json.Unmarshal(sc.Bytes(), &o) == nil {
				byI[o.I] = o
			}
		}
		if _, ok := byI[-1]; ok || out.Panic {
			break
		}
	}
	srvObs, started := byI[-1]
	if end, ok := byI[-2]; ok {
		srvObs.Views = append(srvObs.Views, end.Views...)
	}
	for i, r := range rs {
		o, ok := byI[i]
		if !started || !ok {
			if out.Panic {
				// the server process died: for C37 this is a failed interoperation, for C30 not a channel decision
				if *propFlag == "C37" && r.Kind == "interop" {
					vfgo.Violation(r, "", "process-crash-during-handshake", vfgo.PanicHead(out.Stderr))
				} else {
					vfgo.Inconclusive(r, "server child crashed: "+vfgo.PanicHead(out.Stderr))
				}
			} else {
				vfgo.Inconclusive(r, fmt.Sprintf("no observation (child exit %d timedout=%v): %s", out.Exit, out.TimedOut, tailStr(out.Stderr, 400)))
			}
			continue
		}
		switch r.Kind {
		case "adv":
			evalAdv(r, srvObs)
		case "opn":
			evalOpn(r, o)
		case "interop":
			evalInterop(r, o, srvObs)
		}
	}
}

func tailStr(s string, n int) string {
	if len(s) > n {
		return s[len(s)-n:]
	}
	return s
}

func pairSet(es []endp) map[pair]bool {
	m := map[pair]bool{}
	for _, e := range es {
		m[pair{e.Pol, e.Mode}] = true
	}
	return m
}

func tokSet(ts []tokp) map[tokp]bool {
	m := map[tokp]bool{}
	for _, t := range ts {
		m[t] = true
	}
	return m
}

func advertised(o obs) ([]endp, string) {
	if o.WireErr == "" {
		return o.Wire, "wire"
	}
	return o.API, "api"
}

// C30 InvAdvertisedExactly: advertised pairs = enabled pairs (the expected list is the spec's adv)
func evalAdv(r row, o obs) {
	got, src := advertised(o)
	class := "adv/" + cfgShape(r.Cfg)
	want := pairSet(r.Adv)
	have := pairSet(got)
	for p := range have {
		if !want[p] {
			vfgo.Violation(r, class, "advertised-pair-not-enabled", fmt.Sprintf("server advertises %v (%s) which is not enabled; enabled %v", p, src, r.Cfg.Pairs))
			return
		}
	}
	for p := range want {
		if !have[p] {
			vfgo.Violation(r, class, "enabled-pair-not-advertised", fmt.Sprintf("enabled pair %v is not advertised (%s); advertised %v", p, src, got))
			return
		}
	}
	if src == "wire" && len(pairSet(o.API)) != len(have) {
		vfgo.Violation(r, class, "wire-and-api-endpoints-differ", fmt.Sprintf("wire %v api %v", o.Wire, o.API))
		return
	}
	// the invariant holds in every state: every reading (each endpoint URL, start and end of the run,
	// over the wire and through Server.Endpoints()) must show exactly the enabled pairs
	nviews := 0
	for _, v := range o.Views {
		if v.Err != "" {
			continue // could not be read (e.g. nothing enabled): the other readings decide
		}
		nviews++
		hv := pairSet(v.Eps)
		dup := len(v.Eps) != len(hv)
		for p := range hv {
			if !want[p] {
				vfgo.Violation(r, class, "advertised-pair-not-enabled", fmt.Sprintf("reading %s/%s of %s shows %v which is not enabled; enabled %v", v.When, v.Src, v.URL, p, r.Cfg.Pairs))
				return
			}
		}
		for p := range want {
			if !hv[p] {
				key := "enabled-pair-not-advertised"
				if v.When != "start" || v.URL != o.Views[0].URL {
					key = "advertised-endpoints-depend-on-earlier-requests"
				}
				vfgo.Violation(r, class, key, fmt.Sprintf("reading %s/%s of %s lacks enabled pair %v; shows %v", v.When, v.Src, v.URL, p, v.Eps))
				return
			}
		}
		if dup {
			vfgo.Violation(r, class, "endpoint-advertised-twice", fmt.Sprintf("reading %s/%s of %s: %v", v.When, v.Src, v.URL, v.Eps))
			return
		}
	}
	vfgo.OK(r, class, map[string]any{"src": src, "advertised": len(have), "readings": nviews})
}

func handBuiltProbe(o obs) bool { return !o.Local }

func supported(p pair) bool {
	if p.Pol == "None" {
		return p.Mode == "None"
	}
	return p.Mode == "Sign" || p.Mode == "SignAndEncrypt"
}

// C30 InvOnlyEnabled
func evalOpn(r row, o obs) {
	var exp string
	json.Unmarshal(r.Expect, &exp)
	enabled := pairSet(r.Adv)[pair{r.Pol, r.Mode}]
	class := fmt.Sprintf("opn/%s/%s/enabled=%v/after=%s/%s", r.Pol, r.Mode, enabled, r.Prev, cfgShape(r.Cfg))
	if o.Local {
		// the real client cannot express this OPN; not driven
		vfgo.Emit(vfgo.Result{Case: r, Status: "ok", Class: "", Nontrivial: false, Obs: "client library refuses to build this channel locally: " + o.Err})
		return
	}
	switch {
	case exp == "refused" && (o.Established || o.SrvOpened):
		key := "secured-channel-opened-for-pair-not-enabled"
		if r.Pol == "None" && r.Mode == "None" {
			key = "none-channel-opened-though-not-enabled"
		} else if !supported(pair{r.Pol, r.Mode}) {
			key = "channel-opened-for-invalid-policy-mode-combination"
			if r.Prev == "secured" {
				key = "channel-opened-for-invalid-policy-mode-combination/after-an-earlier-secured-connection"
			}
		}
		vfgo.Violation(r, class, key, fmt.Sprintf("OPN %s/%s was accepted (client open=%v, server completed the OPN=%v, usable=%v) by a server that enabled only %v", r.Pol, r.Mode, o.Established, o.SrvOpened, o.Usable, r.Cfg.Pairs))
	case exp == "open" && !o.Established:
		vfgo.Violation(r, class, "enabled-pair-refused", fmt.Sprintf("OPN %s/%s refused (%s) although enabled", r.Pol, r.Mode, o.Err))
	case exp == "open" && !o.Usable:
		vfgo.Violation(r, class, "enabled-pair-channel-unusable", fmt.Sprintf("OPN %s/%s accepted but a request on the channel failed: %s", r.Pol, r.Mode, o.Err))
	default:
		vfgo.OK(r, class, map[string]any{"established": o.Established, "srvOpened": o.SrvOpened, "raw": o.RawOpn, "handBuiltProbeOK": !o.RawOpn || r.Pol != "None" || handBuiltProbe(o), "err": tailStr(o.Err, 120)})
	}
}

// C37 InvInterop + InvTokens
func evalInterop(r row, o obs, srv obs) {
	var exp expectT
	json.Unmarshal(r.Expect, &exp)
	class := fmt.Sprintf("interop/%s/%s/ckey%d/skey%d/%s/pairs%d", r.Pol, r.Mode, r.Ckey, r.Cfg.Skey, r.Tok, len(r.Cfg.Pairs))
	// tokens of the selected endpoint must be the ones the specification computes
	var wantToks []tokp
	for _, e := range r.Adv {
		if e.Pol == r.Pol && e.Mode == r.Mode {
			wantToks = e.Toks
		}
	}
	if o.Stage == "discover" || o.Stage == "select" {
		vfgo.Violation(r, class, "advertised-endpoint-cannot-be-selected", fmt.Sprintf("stage %s: %s", o.Stage, o.Err))
		return
	}
	wt, ht := tokSet(wantToks), tokSet(o.EpToks)
	for t := range wt {
		if !ht[t] {
			vfgo.Violation(r, class, "user-token-policy-missing", fmt.Sprintf("endpoint %s/%s lacks token policy %v; has %v", r.Pol, r.Mode, t, o.EpToks))
			return
		}
	}
	for t := range ht {
		if !wt[t] {
			vfgo.Violation(r, class, "user-token-policy-not-enabled", fmt.Sprintf("endpoint %s/%s advertises token policy %v that the configuration does not enable; expected %v", r.Pol, r.Mode, t, wantToks))
			return
		}
	}
	if exp.State != "Connected" || len(exp.Ops) != 5 {
		vfgo.Inconclusive(r, "unexpected expectation in row")
		return
	}
	switch {
	case o.Stage == "connect" && r.Tok == "user" && firstUserPolicyExcludes(o.EpToks, r.Ckey):
		// the client uses the first advertised username token policy; its key size limits are applied to the
		// client's channel key although only the server's public key encrypts the password
		vfgo.Violation(r, class, "username-login-fails-client-key-outside-token-policy-limits", fmt.Sprintf("Connect with %s/%s ckey=%d skey=%d tok=user (token policies %v): %s", r.Pol, r.Mode, r.Ckey, r.Cfg.Skey, o.EpToks, o.Err))
	case o.Stage == "connect":
		vfgo.Violation(r, class, "connect-fails", fmt.Sprintf("Connect with %s/%s ckey=%d skey=%d tok=%s: %s", r.Pol, r.Mode, r.Ckey, r.Cfg.Skey, r.Tok, o.Err))
	case o.State != "Connected":
		vfgo.Violation(r, class, "not-connected-after-connect", "state "+o.State)
	case o.Stage == "write" || o.WriteRes != "OK":
		vfgo.Violation(r, class, "write-fails", fmt.Sprintf("write: %s %s", o.WriteRes, o.Err))
	case o.Stage == "read" || o.ReadRes != "OK":
		vfgo.Violation(r, class, "read-fails", fmt.Sprintf("read: %s %s", o.ReadRes, o.Err))
	case o.ReadVal != o.Wrote:
		vfgo.Violation(r, class, "read-back-differs", fmt.Sprintf("wrote %d read %d", o.Wrote, o.ReadVal))
	case o.Stage == "reactivate":
		vfgo.Violation(r, class, "session-cannot-be-activated-again", fmt.Sprintf("second ActivateSession on %s/%s tok=%s: %s", r.Pol, r.Mode, r.Tok, o.Err))
	case o.Stage == "write2" || o.Stage == "read2" || o.Wrote2 == 0 || o.ReadVal2 != o.Wrote2:
		vfgo.Violation(r, class, "write-read-fails-after-second-activation", fmt.Sprintf("stage %s wrote %d read %d: %s", o.Stage, o.Wrote2, o.ReadVal2, o.Err))
	default:
		vfgo.OK(r, class, map[string]any{"wrote": o.Wrote, "read": o.ReadVal, "state": o.State})
	}
}

// ------------------------------------------------------------------ child: real server + real clients

func freePort() int {
	l, err := net.Listen("tcp", "127.0.0.1:0")
	if err != nil {
		return 0
	}
	defer l.Close()
	return l.Addr().(*net.TCPAddr).Port
}

func modeOf(s string) ua.MessageSecurityMode { return ua.MessageSecurityModeFromString(s) }

func startServer(c cfgT) (*server.Server, string, *keys.Pair, error) {
	sk := keys.Bits(c.Skey)
	var lastErr error
	for try := 0; try < 5; try++ {
		port := freePort()
		opts := []server.Option{
			server.EndPoint("127.0.0.1", port),
			server.EndPoint("localhost", port), // second endpoint URL of the same listener
			server.PrivateKey(sk.Key),
			server.Certificate(sk.Cert),
		}
		for _, p := range c.Pairs {
			opts = append(opts, server.EnableSecurity(p.Pol, modeOf(p.Mode)))
		}
		for _, a := range c.Auth {
			switch a {
			case "anon":
				opts = append(opts, server.EnableAuthMode(ua.UserTokenTypeAnonymous))
			case "user":
				opts = append(opts, server.EnableAuthMode(ua.UserTokenTypeUserName))
			}
		}
		s := server.New(opts...)
		ns0, _ := s.Namespace(0)
		nodeNS := server.NewNodeNameSpace(s, "verif")
		s.AddNamespace(nodeNS)
		obj := nodeNS.Objects()
		ns0.Objects().AddRef(obj, id.HasComponent, true)
		n := nodeNS.AddNewVariableStringNode("rw_int32", int32(5))
		obj.AddRef(n, id.HasComponent, true)
		if err := s.Start(context.Background()); err != nil {
			lastErr = err
			continue
		}
		return s, fmt.Sprintf("opc.tcp://127.0.0.1:%d", port), sk, nil
	}
	return nil, "", nil, lastErr
}

func toEndp(eps []*ua.EndpointDescription) []endp {
	var res []endp
	for _, e := range eps {
		x := endp{Pol: strings.TrimPrefix(e.SecurityPolicyURI, ua.SecurityPolicyURIPrefix), Mode: strings.TrimPrefix(e.SecurityMode.String(), "MessageSecurityMode"), URL: e.EndpointURL}
		x.Toks = toToks(e.UserIdentityTokens)
		res = append(res, x)
	}
	return res
}

func toToks(ts []*ua.UserTokenPolicy) []tokp {
	var res []tokp
	for _, t := range ts {
		typ := "other"
		switch t.TokenType {
		case ua.UserTokenTypeAnonymous:
			typ = "anon"
		case ua.UserTokenTypeUserName:
			typ = "user"
		}
		res = append(res, tokp{Type: typ, Pol: strings.TrimPrefix(t.SecurityPolicyURI, ua.SecurityPolicyURIPrefix)})
	}
	return res
}

func childServer() {
	var job struct {
		Cfg  cfgT  `json:"cfg"`
		Rows []row `json:"rows"`
	}
	b, _ := io.ReadAll(os.Stdin)
	if err := json.Unmarshal(b, &job); err != nil {
		fmt.Fprintln(os.Stderr, "bad job:", err)
		os.Exit(3)
	}
	enc := json.NewEncoder(os.Stdout)
	uasc.VerifHook.Store(func(point string, sc *uasc.SecureChannel, kv ...any) {
		if point == "srv.opn.end" {
			atomic.AddInt64(&srvOpened, 1)
		}
	})
	srv, url, sk, err := startServer(job.Cfg)
	if err != nil {
		fmt.Fprintln(os.Stderr, "cannot start server:", err)
		os.Exit(4)
	}
	defer srv.Close()
	urlB := strings.Replace(url, "127.0.0.1", "localhost", 1)
	readViews := func(when string, urls ...string) []view {
		var vs []view
		for _, u := range urls {
			v := view{URL: u, When: when, Src: "wire"}
			eps, err := discoverURL(url, u, job.Cfg, sk)
			if err != nil {
				v.Err = err.Error()
			} else {
				v.Eps = toEndp(eps)
			}
			vs = append(vs, v)
			// the server's own view of the same URL
			av := view{URL: u, When: when, Src: "api"}
			for _, e := range toEndp(srv.Endpoints()) {
				if e.URL == u {
					av.Eps = append(av.Eps, e)
				}
			}
			vs = append(vs, av)
		}
		return vs
	}
	probeOK := probeHandBuilt(url, sk) // eagerly: it opens channels, which must not fall into a row's observation window
	time.Sleep(50 * time.Millisecond)
	handBuiltOK = func() bool { return probeOK }
	so := obs{I: -1, API: toEndp(srv.Endpoints())}
	so.Views = readViews("start", url, urlB, url)
	eps, err := discover(url, job.Cfg, sk)
	if err != nil {
		so.WireErr = err.Error()
	} else {
		so.Wire = toEndp(eps)
	}
	enc.Encode(so)
	defer func() {
		enc.Encode(obs{I: -2, Views: readViews("end", urlB, url)})
	}()
	// Order of the run = the history the rows assume: first the rows whose specification state has no earlier
	// secured connection (the requests with an invalid policy/mode combination before anything else, so that
	// they really meet a server that has seen no client certificate yet), then an ordinary secured client
	// connects, works and disconnects, then the rows with that history (again the invalid combinations first).
	order := make([]int, len(job.Rows))
	for i := range order {
		order[i] = i
	}
	rank := func(r row) int {
		k := 0
		if r.Prev == "secured" {
			k += 2
		}
		if r.Kind != "opn" || supported(pair{r.Pol, r.Mode}) {
			k++
		}
		return k
	}
	sort.SliceStable(order, func(a, b int) bool { return rank(job.Rows[order[a]]) < rank(job.Rows[order[b]]) })
	visited := false
	for _, i := range order {
		r := job.Rows[i]
		if r.Prev == "secured" && !visited {
			visited = true
			securedVisit(url, job.Cfg, sk)
		}
		var o obs
		switch r.Kind {
		case "adv":
			o = obs{}
		case "opn":
			o = doOpn(url, r, sk)
		case "interop":
			o = doInterop(url, r, job.Cfg, sk, i)
		}
		o.I = i
		enc.Encode(o)
	}
}

// securedVisit is the earlier connection of the histories with prev = "secured": an ordinary client opens a
// channel with a signing policy (an enabled pair if there is one), sends a request and disconnects.
func securedVisit(url string, c cfgT, sk *keys.Pair) {
	p := pair{"Basic256Sha256", "SignAndEncrypt"}
	if c.Skey == 1024 {
		p = pair{"Basic256", "SignAndEncrypt"}
	}
	for _, q := range c.Pairs {
		if q.Pol != "None" {
			p = q
			break
		}
	}
	ckey := c.Skey
	doOpnClient(url, row{Pol: p.Pol, Mode: p.Mode, Ckey: ckey}, sk, 6*time.Second)
	time.Sleep(150 * time.Millisecond) // the server notices the closed connection and releases what it held for it
}

// discoverURL connects to connectURL and asks for the endpoints of askURL (GetEndpointsRequest.EndpointURL).
func discoverURL(connectURL, askURL string, c cfgT, sk *keys.Pair) ([]*ua.EndpointDescription, error) {
	try := func(opts ...opcua.Option) ([]*ua.EndpointDescription, error) {
		ctx, cancel := context.WithTimeout(context.Background(), 10*time.Second)
		defer cancel()
		opts = append(opts, opcua.AutoReconnect(false), opcua.RequestTimeout(5*time.Second))
		cl, err := opcua.NewClient(connectURL, opts...)
		if err != nil {
			return nil, err
		}
		if err := cl.Dial(ctx); err != nil {
			return nil, err
		}
		defer cl.Close(ctx)
		var res *ua.GetEndpointsResponse
		err = cl.Send(ctx, &ua.GetEndpointsRequest{EndpointURL: askURL}, func(v ua.Response) error {
			r, ok := v.(*ua.GetEndpointsResponse)
			if !ok {
				return fmt.Errorf("unexpected response %T", v)
			}
			res = r
			return nil
		})
		if err != nil {
			return nil, err
		}
		return res.Endpoints, nil
	}
	eps, err := try()
	if err == nil {
		return eps, nil
	}
	for _, p := range c.Pairs {
		if p.Pol == "None" {
			continue
		}
		ck := keys.Bits(c.Skey)
		ep := &ua.EndpointDescription{SecurityPolicyURI: ua.FormatSecurityPolicyURI(p.Pol), SecurityMode: modeOf(p.Mode), ServerCertificate: sk.Cert}
		if eps, err2 := try(opcua.SecurityFromEndpoint(ep, ua.UserTokenTypeAnonymous), opcua.PrivateKey(ck.Key), opcua.Certificate(ck.Cert)); err2 == nil {
			return eps, nil
		}
		break
	}
	return nil, err
}

// discover reads the endpoints over the wire: over a None channel as any client would; if the
// server refuses that, over the first enabled pair with the (known) server certificate.
func discover(url string, c cfgT, sk *keys.Pair) ([]*ua.EndpointDescription, error) {
	ctx, cancel := context.WithTimeout(context.Background(), 10*time.Second)
	defer cancel()
	eps, err := opcua.GetEndpoints(ctx, url, opcua.RequestTimeout(5*time.Second))
	if err == nil {
		return eps, nil
	}
	for _, p := range c.Pairs {
		if p.Pol == "None" {
			continue
		}
		ck := keys.Bits(c.Skey)
		ep := &ua.EndpointDescription{SecurityPolicyURI: ua.FormatSecurityPolicyURI(p.Pol), SecurityMode: modeOf(p.Mode), ServerCertificate: sk.Cert}
		ctx2, cancel2 := context.WithTimeout(context.Background(), 10*time.Second)
		eps, err2 := opcua.GetEndpoints(ctx2, url, opcua.SecurityFromEndpoint(ep, ua.UserTokenTypeAnonymous),
			opcua.PrivateKey(ck.Key), opcua.Certificate(ck.Cert), opcua.RequestTimeout(5*time.Second))
		cancel2()
		if err2 == nil {
			return eps, nil
		}
		break
	}
	return nil, err
}

var srvOpened int64 // OPN handshakes the server side completed (child process only)

// sawServerOpen reports whether the server completed an OPN since 'before'; the server reaches that
// point just after it sent the response, so give it a moment.
func sawServerOpen(before int64, patience time.Duration) bool {
	deadline := time.Now().Add(patience)
	for {
		if atomic.LoadInt64(&srvOpened) > before {
			return true
		}
		if time.Now().After(deadline) {
			return false
		}
		time.Sleep(5 * time.Millisecond)
	}
}

func doOpn(url string, r row, sk *keys.Pair) obs {
	before := atomic.LoadInt64(&srvOpened)
	var o obs
	if supported(pair{r.Pol, r.Mode}) {
		o = doOpnClientPatient(url, r, sk)
	} else {
		o = doOpnRaw(url, r, sk)
	}
	patience := 150 * time.Millisecond
	if o.Established {
		patience = 2 * time.Second
	}
	o.SrvOpened = sawServerOpen(before, patience)
	return o
}

// doOpnRaw sends an OpenSecureChannel request with a (policy, mode) combination that the client library
// refuses to configure: a real uasc client channel is created with a valid mode for the policy and the
// mode in its configuration is replaced before Open, so the request carries the invalid combination
// (asymmetric crypto of the OPN follows the policy).
// handBuiltOK: does the hand-built OPN reach the server's OPN handling at all? Checked once per server by
// sending the well-formed (None, None) request both ways: if the library's client gets a channel and the
// hand-built request does not, the hand-built rows are not driven (never counted as "refused").
var handBuiltOK = func() bool { return true }

func probeHandBuilt(url string, sk *keys.Pair) bool {
	real := doOpnClient(url, row{Pol: "None", Mode: "None"}, sk, 4*time.Second)
	hand := doOpnHandBuilt(url, row{Pol: "None", Mode: "None"})
	return hand.Established == real.Established
}

func doOpnRaw(url string, r row, sk *keys.Pair) obs {
	if r.Pol == "None" {
		if !handBuiltOK() {
			return obs{RawOpn: true, Local: true, Err: "hand-built OPN does not behave like the library's own (None, None) request"}
		}
		return doOpnHandBuilt(url, r)
	}
	o := obs{RawOpn: true}
	ctx, cancel := context.WithTimeout(context.Background(), 8*time.Second)
	defer cancel()
	ack := *uacp.DefaultClientACK
	d := &uacp.Dialer{Dialer: &net.Dialer{Timeout: 4 * time.Second}, ClientACK: &ack}
	conn, err := d.Dial(ctx, url)
	if err != nil {
		o.Err = "dial: " + err.Error()
		return o
	}
	defer conn.Close()
	cfg := &uasc.Config{SecurityPolicyURI: ua.FormatSecurityPolicyURI(r.Pol), SecurityMode: ua.MessageSecurityModeNone,
		Lifetime: 3600 * 1000, RequestTimeout: 3 * time.Second}
	if r.Pol != "None" {
		ck := keys.Bits(r.Ckey)
		cfg.SecurityMode = ua.MessageSecurityModeSign
		cfg.Certificate, cfg.LocalKey = ck.Cert, ck.Key
		cfg.RemoteCertificate, cfg.Thumbprint = sk.Cert, uapolicy.Thumbprint(sk.Cert)
	}
	errch := make(chan error, 8)
	sc, err := uasc.NewSecureChannel(url, conn, cfg, errch)
	if err != nil {
		o.Local, o.Err = true, err.Error()
		return o
	}
	cfg.SecurityMode = modeOf(r.Mode)
	// the client side of such a channel is outside what the library supports (it validates the
	// combination at construction): a panic in our own calling goroutine is not an observation
	// about the server; the server side is observed through the srv.opn.end hook.
	var oerr error
	if p, msg := vfgo.Recover(func() { oerr = sc.Open(ctx) }); p {
		// happens before anything is sent (the client computes its body size from the policy/mode): not driven
		o.Local, o.Err = true, "client side of the hand-made channel panicked: "+msg
		conn.Close()
		return o
	}
	if oerr != nil {
		o.Err = oerr.Error()
		return o
	}
	o.Established = true
	var got ua.Response
	err = sc.SendRequest(ctx, &ua.GetEndpointsRequest{EndpointURL: url}, nil, func(v ua.Response) error { got = v; return nil })
	if err == nil && got != nil {
		o.Usable = true
	} else if err != nil {
		o.Err = "request on the opened channel: " + err.Error()
	}
	go sc.Close()
	return o
}

// doOpnHandBuilt writes an OpenSecureChannel request with SecurityPolicy#None and the row's mode byte by
// byte onto a fresh UACP connection (policy None: nothing to sign or encrypt) and looks at what comes back.
func doOpnHandBuilt(url string, r row) obs {
	o := obs{RawOpn: true}
	ctx, cancel := context.WithTimeout(context.Background(), 8*time.Second)
	defer cancel()
	ack := *uacp.DefaultClientACK
	d := &uacp.Dialer{Dialer: &net.Dialer{Timeout: 4 * time.Second}, ClientACK: &ack}
	conn, err := d.Dial(ctx, url)
	if err != nil {
		o.Err = "dial: " + err.Error()
		return o
	}
	defer conn.Close()
	req := &ua.OpenSecureChannelRequest{
		RequestHeader: &ua.RequestHeader{AuthenticationToken: ua.NewTwoByteNodeID(0), Timestamp: time.Now(), RequestHandle: 1,
			TimeoutHint: 5000, AdditionalHeader: ua.NewExtensionObject(nil)},
		ClientProtocolVersion: 0,
		RequestType:           ua.SecurityTokenRequestTypeIssue,
		SecurityMode:          modeOf(r.Mode),
		ClientNonce:           []byte{},
		RequestedLifetime:     3600 * 1000,
	}
	m := &uasc.Message{
		MessageHeader: &uasc.MessageHeader{
			Header:                   uasc.NewHeader(uasc.MessageTypeOpenSecureChannel, uasc.ChunkTypeFinal, 0),
			AsymmetricSecurityHeader: uasc.NewAsymmetricSecurityHeader(ua.SecurityPolicyURINone, nil, nil),
			SequenceHeader:           uasc.NewSequenceHeader(1, 1),
		},
		TypeID:  ua.NewFourByteExpandedNodeID(0, id.OpenSecureChannelRequest_Encoding_DefaultBinary),
		Service: req,
	}
	b, err := m.Encode()
	if err != nil {
		o.Local, o.Err = true, "cannot encode the hand-built OPN: "+err.Error()
		return o
	}
	if _, err := conn.Write(b); err != nil {
		o.Err = "write: " + err.Error()
		return o
	}
	conn.SetReadDeadline(time.Now().Add(1200 * time.Millisecond))
	rb, err := conn.Receive()
	switch {
	case err != nil:
		o.Err = "no OPN response: " + err.Error()
	case len(rb) >= 3 && string(rb[:3]) == "OPN":
		o.Established, o.Usable = true, true
		o.Err = "server answered with an OpenSecureChannel response"
	default:
		o.Err = fmt.Sprintf("server answered with %q", string(rb[:min(3, len(rb))]))
	}
	return o
}

func doOpnClient(url string, r row, sk *keys.Pair, reqTimeout time.Duration) obs {
	var o obs
	ep := &ua.EndpointDescription{SecurityPolicyURI: ua.FormatSecurityPolicyURI(r.Pol), SecurityMode: modeOf(r.Mode), ServerCertificate: sk.Cert}
	opts := []opcua.Option{opcua.SecurityFromEndpoint(ep, ua.UserTokenTypeAnonymous), opcua.AutoReconnect(false),
		opcua.RequestTimeout(reqTimeout), opcua.DialTimeout(4 * time.Second)}
	if r.Pol != "None" {
		ck := keys.Bits(r.Ckey)
		opts = append(opts, opcua.PrivateKey(ck.Key), opcua.Certificate(ck.Cert))
	}
	c, err := opcua.NewClient(url, opts...)
	if err != nil {
		o.Local, o.Err = true, err.Error()
		return o
	}
	ctx, cancel := context.WithTimeout(context.Background(), 3*reqTimeout)
	defer cancel()
	err = c.Dial(ctx)
	if err != nil {
		o.Err = err.Error()
		if strings.Contains(o.Err, "invalid channel config") {
			o.Local = true
		}
		return o
	}
	o.Established = true
	if _, err := c.GetEndpoints(ctx); err != nil {
		o.Err = "request on the opened channel: " + err.Error()
	} else {
		o.Usable = true
	}
	c.Close(ctx)
	return o
}

// doOpnClientPatient repeats an attempt whose channel opened but whose first request timed out (a loaded
// machine): only a channel that is unusable three times in a row is reported as such.
func doOpnClientPatient(url string, r row, sk *keys.Pair) obs {
	var o obs
	for try := 0; try < 3; try++ {
		o = doOpnClient(url, r, sk, time.Duration(4+8*try)*time.Second)
		if !o.Established || o.Usable {
			return o
		}
	}
	return o
}

func doInterop(url string, r row, c cfgT, sk *keys.Pair, i int) obs {
	var o obs
	eps, err := discover(url, c, sk)
	if err != nil {
		o.Stage, o.Err = "discover", err.Error()
		return o
	}
	ep, err := opcua.SelectEndpoint(eps, r.Pol, modeOf(r.Mode))
	if err != nil {
		o.Stage, o.Err = "select", err.Error()
		return o
	}
	o.EpToks = toToks(ep.UserIdentityTokens)
	tt := ua.UserTokenTypeAnonymous
	opts := []opcua.Option{}
	if r.Tok == "user" {
		tt = ua.UserTokenTypeUserName
		opts = append(opts, opcua.AuthUsername("verif-user", fmt.Sprintf("secret-%d-%d", vfgo.Seed(), i)))
	} else {
		opts = append(opts, opcua.AuthAnonymous())
	}
	opts = append(opts, opcua.SecurityFromEndpoint(ep, tt), opcua.AutoReconnect(false), opcua.RequestTimeout(10*time.Second), opcua.DialTimeout(5*time.Second))
	if r.Pol != "None" {
		ck := keys.Bits(r.Ckey)
		opts = append(opts, opcua.PrivateKey(ck.Key), opcua.Certificate(ck.Cert))
	}
	cl, err := opcua.NewClient(url, opts...)
	if err != nil {
		o.Stage, o.Err = "connect", "NewClient: "+err.Error()
		return o
	}
	ctx, cancel := context.WithTimeout(context.Background(), 30*time.Second)
	defer cancel()
	if err := cl.Connect(ctx); err != nil {
		o.Stage, o.Err, o.State = "connect", err.Error(), cl.State().String()
		return o
	}
	defer cl.Close(ctx)
	o.State = cl.State().String()
	nid := ua.NewStringNodeID(1, "rw_int32")
	writeRead := func(val int, wstage, rstage string) (int, bool) {
		wres, err := cl.Write(ctx, &ua.WriteRequest{NodesToWrite: []*ua.WriteValue{{
			NodeID: nid, AttributeID: ua.AttributeIDValue,
			Value: &ua.DataValue{EncodingMask: ua.DataValueValue, Value: ua.MustVariant(int32(val))},
		}}})
		if err != nil {
			o.Stage, o.Err = wstage, err.Error()
			return 0, false
		}
		if len(wres.Results) != 1 {
			o.Stage, o.Err = wstage, fmt.Sprintf("%d results", len(wres.Results))
			return 0, false
		}
		o.WriteRes = statusName(wres.Results[0])
		if o.WriteRes != "OK" {
			o.Stage = wstage
			return 0, false
		}
		rres, err := cl.Read(ctx, &ua.ReadRequest{NodesToRead: []*ua.ReadValueID{{NodeID: nid, AttributeID: ua.AttributeIDValue}}, TimestampsToReturn: ua.TimestampsToReturnBoth})
		if err != nil {
			o.Stage, o.Err = rstage, err.Error()
			return 0, false
		}
		if len(rres.Results) != 1 {
			o.Stage, o.Err = rstage, fmt.Sprintf("%d results", len(rres.Results))
			return 0, false
		}
		o.ReadRes = statusName(rres.Results[0].Status)
		if o.ReadRes != "OK" {
			o.Stage = rstage
			return 0, false
		}
		if v := rres.Results[0].Value; v != nil {
			if x, ok := v.Value().(int32); ok {
				return int(x), true
			}
			o.Err = fmt.Sprintf("value type %T", v.Value())
		}
		return 0, true
	}
	o.Wrote = int(vfgo.Seed()%1000)*100000 + 2*i + 1000
	var ok bool
	if o.ReadVal, ok = writeRead(o.Wrote, "write", "read"); !ok || o.ReadVal != o.Wrote {
		return o
	}
	// second activation of the same session on the same channel (what restoreSession does after a reconnect)
	sess, _ := cl.DetachSession(ctx)
	if sess == nil {
		o.Stage, o.Err = "reactivate", "no session to detach"
		return o
	}
	if err := cl.ActivateSession(ctx, sess); err != nil {
		o.Stage, o.Err = "reactivate", err.Error()
		return o
	}
	o.Wrote2 = o.Wrote + 1
	o.ReadVal2, _ = writeRead(o.Wrote2, "write2", "read2")
	return o
}

func keyOK(pol string, bits int) bool {
	switch pol {
	case "None":
		return true
	case "Basic128Rsa15", "Basic256":
		return bits >= 1024 && bits <= 2048
	}
	return bits >= 2048 && bits <= 4096
}

func firstUserPolicyExcludes(toks []tokp, ckey int) bool {
	for _, t := range toks {
		if t.Type == "user" {
			return !keyOK(t.Pol, ckey)
		}
	}
	return false
}

func statusName(s ua.StatusCode) string {
	if s == ua.StatusOK {
		return "OK"
	}
	return s.Error()
}

// ------------------------------------------------------------------ C22: scripted server, client child

type connectJob struct {
	URL  string `json:"url"`
	Pol  string `json:"pol"`
	Mode string `json:"mode"`
	Ckey int    `json:"ckey"`
}

type connectObs struct {
	Stage   string `json:"stage"`
	Err     string `json:"err"`
	State   string `json:"state"`
	Session bool   `json:"session"`
	Done    bool   `json:"done"`
}

func childConnect() {
	var job connectJob
	b, _ := io.ReadAll(os.Stdin)
	if err := json.Unmarshal(b, &job); err != nil {
		os.Exit(3)
	}
	enc := json.NewEncoder(os.Stdout)
	var o connectObs
	ctx, cancel := context.WithTimeout(context.Background(), 25*time.Second)
	defer cancel()
	eps, err := opcua.GetEndpoints(ctx, job.URL, opcua.RequestTimeout(5*time.Second))
	if err != nil {
		o.Stage, o.Err = "discover", err.Error()
		enc.Encode(o)
		return
	}
	ep, err := opcua.SelectEndpoint(eps, job.Pol, modeOf(job.Mode))
	if err != nil {
		o.Stage, o.Err = "select", err.Error()
		enc.Encode(o)
		return
	}
	opts := []opcua.Option{opcua.AuthAnonymous(), opcua.SecurityFromEndpoint(ep, ua.UserTokenTypeAnonymous),
		opcua.AutoReconnect(false), opcua.RequestTimeout(5 * time.Second), opcua.DialTimeout(5 * time.Second)}
	if job.Pol != "None" {
		ck := keys.Bits(job.Ckey)
		opts = append(opts, opcua.PrivateKey(ck.Key), opcua.Certificate(ck.Cert))
	}
	c, err := opcua.NewClient(job.URL, opts...)
	if err != nil {
		o.Stage, o.Err = "newclient", err.Error()
		enc.Encode(o)
		return
	}
	err = c.Connect(ctx)
	o.Stage = "connect"
	if err != nil {
		o.Err = err.Error()
	}
	o.State = c.State().String()
	o.Session = c.Session() != nil
	o.Done = true
	enc.Encode(o)
	os.Stdout.Sync()
	if err == nil {
		c.Close(ctx)
	}
}

// ---- sequences of Connect attempts on ONE client value

type seqJob struct {
	connectJob
	N int `json:"n"`
}

type attemptObs struct {
	Err     string `json:"err"`
	State   string `json:"state"`
	Channel bool   `json:"channel"` // Client.SecureChannel() != nil after the attempt
	Session bool   `json:"session"`
	Sockets int    `json:"sockets"` // sockets of the process beyond the baseline before the first attempt
}

type seqObs struct {
	Stage    string       `json:"stage"`
	Err      string       `json:"err"`
	Attempts []attemptObs `json:"attempts"`
	Done     bool         `json:"done"`
}

func countSockets() int {
	ents, err := os.ReadDir("/proc/self/fd")
	if err != nil {
		return -1
	}
	n := 0
	for _, e := range ents {
		if l, err := os.Readlink("/proc/self/fd/" + e.Name()); err == nil && strings.HasPrefix(l, "socket:") {
			n++
		}
	}
	return n
}

func childConnectSeq() {
	var job seqJob
	b, _ := io.ReadAll(os.Stdin)
	if err := json.Unmarshal(b, &job); err != nil {
		os.Exit(3)
	}
	enc := json.NewEncoder(os.Stdout)
	var o seqObs
	ctx, cancel := context.WithTimeout(context.Background(), 60*time.Second)
	defer cancel()
	eps, err := opcua.GetEndpoints(ctx, job.URL, opcua.RequestTimeout(5*time.Second))
	if err != nil {
		o.Stage, o.Err = "discover", err.Error()
		enc.Encode(o)
		return
	}
	ep, err := opcua.SelectEndpoint(eps, job.Pol, modeOf(job.Mode))
	if err != nil {
		o.Stage, o.Err = "select", err.Error()
		enc.Encode(o)
		return
	}
	opts := []opcua.Option{opcua.AuthAnonymous(), opcua.SecurityFromEndpoint(ep, ua.UserTokenTypeAnonymous),
		opcua.AutoReconnect(false), opcua.RequestTimeout(5 * time.Second), opcua.DialTimeout(5 * time.Second)}
	if job.Pol != "None" {
		ck := keys.Bits(job.Ckey)
		opts = append(opts, opcua.PrivateKey(ck.Key), opcua.Certificate(ck.Cert))
	}
	c, err := opcua.NewClient(job.URL, opts...) // ONE client value for all attempts
	if err != nil {
		o.Stage, o.Err = "newclient", err.Error()
		enc.Encode(o)
		return
	}
	time.Sleep(100 * time.Millisecond) // the discovery client's socket is gone by now
	base := countSockets()
	o.Stage = "connect"
	for i := 0; i < job.N; i++ {
		err := c.Connect(ctx)
		a := attemptObs{State: c.State().String(), Channel: c.SecureChannel() != nil, Session: c.Session() != nil}
		if err != nil {
			a.Err = err.Error()
			time.Sleep(50 * time.Millisecond)
		}
		a.Sockets = countSockets() - base
		o.Attempts = append(o.Attempts, a)
		if err == nil {
			break
		}
	}
	o.Done = true
	enc.Encode(o)
	os.Stdout.Sync()
	c.Close(ctx)
}

// runSeq: the script answers the k-th CreateSession of the run with the k-th signature class of the row;
// after every attempt the client must be as the specification says: after a failure Closed, no channel,
// no session, no socket left; the last attempt with a valid signature must connect.
func runSeq(r row) {
	n := len(r.Tries)
	sigs := make([]string, n)
	for i, t := range r.Tries {
		sigs[i] = t.Sig
	}
	class := fmt.Sprintf("seq/%s/%s/%s", r.Pol, r.Mode, strings.Join(sigs, ","))
	var mu sync.Mutex
	var scriptErr string
	k := 0
	var srv *scriptsrv.Server
	h := func(sc *uasc.SecureChannel, reqID uint32, req ua.Request) ua.Response {
		switch q := req.(type) {
		case *ua.GetEndpointsRequest:
			return &ua.GetEndpointsResponse{ResponseHeader: scriptsrv.Header(req, ua.StatusOK), Endpoints: []*ua.EndpointDescription{srv.Endpoint(r.Pol, r.Mode)}}
		case *ua.CreateSessionRequest:
			mu.Lock()
			i := k
			k++
			mu.Unlock()
			if i >= n {
				i = n - 1
			}
			t := r.Tries[i]
			vs := sigVariants[t.Sig]
			pick := int(vfgo.Rand(int64(i*977 + len(t.Sig))).Intn(1 << 16))
			variant := pick % len(vs)
			sig, alg, err := signature(t.Sig, sc, srv, r.Pol, r.Ckey, q, variant, pick)
			if err != nil {
				mu.Lock()
				scriptErr = err.Error()
				mu.Unlock()
				return scriptsrv.Fault(req, ua.StatusBadInternalError)
			}
			nonce := make([]byte, 32)
			rand.Read(nonce)
			return &ua.CreateSessionResponse{
				ResponseHeader: scriptsrv.Header(req, serviceResult(t.Sres, pick)), SessionID: ua.NewNumericNodeID(1, uint32(4711+i)),
				AuthenticationToken: ua.NewNumericNodeID(1, uint32(9000+i)), RevisedSessionTimeout: 60000, ServerNonce: nonce,
				ServerCertificate: srv.Key.Cert, ServerEndpoints: []*ua.EndpointDescription{srv.Endpoint(r.Pol, r.Mode)},
				ServerSoftwareCertificates: []*ua.SignedSoftwareCertificate{}, ServerSignature: &ua.SignatureData{Algorithm: alg, Signature: sig}}
		case *ua.ActivateSessionRequest:
			nonce := make([]byte, 32)
			rand.Read(nonce)
			return &ua.ActivateSessionResponse{ResponseHeader: scriptsrv.Header(req, ua.StatusOK), ServerNonce: nonce,
				Results: []ua.StatusCode{}, DiagnosticInfos: []*ua.DiagnosticInfo{}}
		case *ua.ReadRequest:
			return scriptsrv.NamespaceArrayRead(q)
		case *ua.CloseSessionRequest:
			return &ua.CloseSessionResponse{ResponseHeader: scriptsrv.Header(req, ua.StatusOK)}
		}
		return scriptsrv.Fault(req, ua.StatusBadServiceUnsupported)
	}
	var err error
	srv, err = scriptsrv.Start("2048b", h)
	if err != nil {
		vfgo.Inconclusive(r, "scripted server: "+err.Error())
		return
	}
	defer srv.Close()
	in, _ := json.Marshal(seqJob{connectJob{URL: srv.URL, Pol: r.Pol, Mode: r.Mode, Ckey: r.Ckey}, n})
	out := vfgo.RunChild("connectseq", in, 90*time.Second)
	var o seqObs
	json.Unmarshal(bytes.TrimSpace(out.Stdout), &o)
	mu.Lock()
	se := scriptErr
	mu.Unlock()
	detail := fmt.Sprintf("policy=%s mode=%s signatures of the attempts=%v: child exit=%d panic=%v timedout=%v obs=%+v", r.Pol, r.Mode, sigs, out.Exit, out.Panic, out.TimedOut, o)
	switch {
	case se != "":
		vfgo.Inconclusive(r, "script could not build a signature: "+se)
		return
	case out.Panic:
		vfgo.Violation(r, class, "connect-panics-in-a-sequence-of-attempts", detail+"\n"+vfgo.PanicHead(out.Stderr))
		return
	case out.TimedOut || !o.Done:
		vfgo.Inconclusive(r, "sequence could not be driven: "+detail+" "+tailStr(out.Stderr, 300))
		return
	}
	for i, t := range r.Tries {
		if i >= len(o.Attempts) {
			vfgo.Violation(r, class, "connect-succeeds-despite-bad-server-signature", fmt.Sprintf("attempt %d was not needed: an earlier attempt connected. %s", i+1, detail))
			return
		}
		a := o.Attempts[i]
		at := fmt.Sprintf("attempt %d of %d (signature %s): ", i+1, n, t.Sig)
		if t.State == "Connected" {
			switch {
			case a.Err != "" && i > 0:
				vfgo.Violation(r, class, "connect-with-valid-signature-fails-after-earlier-failed-attempts", at+detail)
				return
			case a.Err != "" || !a.Session || !a.Channel:
				vfgo.Violation(r, class, "connect-fails-with-valid-signature", at+detail)
				return
			}
			// State() is not judged here: after earlier failed attempts the connection monitor may pick up a stale
			// error of an old channel from the shared error channel and report Closed although Connect succeeded
			// (a connection-state matter, C25); it is recorded in the observation.
			continue
		}
		switch {
		case a.Err == "" || a.State == "Connected":
			vfgo.Violation(r, class, "connected-despite-bad-server-signature", at+detail)
			return
		case a.Channel || a.State == "Connecting":
			key := "channel-left-open-after-failed-connect"
			if i > 0 {
				key = "channel-left-open-after-a-later-failed-connect"
			}
			vfgo.Violation(r, class, key, at+detail)
			return
		case a.Session:
			vfgo.Violation(r, class, "session-kept-after-failed-connect", at+detail)
			return
		case a.Sockets > 0:
			vfgo.Violation(r, class, "connection-left-open-after-failed-connect", at+detail)
			return
		}
	}
	vfgo.OK(r, class, o)
}

type overlapObs struct {
	Stage      string `json:"stage"`
	Err        string `json:"err"`
	FirstSess  bool   `json:"firstSess"`
	FirstErr   string `json:"firstErr"`
	SecondSess bool   `json:"secondSess"`
	SecondErr  string `json:"secondErr"`
	Done       bool   `json:"done"`
}

// childOverlap issues two overlapping CreateSession calls on one client (the script holds the first
// response until the second request has arrived).
func childOverlap() {
	var job connectJob
	b, _ := io.ReadAll(os.Stdin)
	if err := json.Unmarshal(b, &job); err != nil {
		os.Exit(3)
	}
	enc := json.NewEncoder(os.Stdout)
	var o overlapObs
	ctx, cancel := context.WithTimeout(context.Background(), 25*time.Second)
	defer cancel()
	eps, err := opcua.GetEndpoints(ctx, job.URL, opcua.RequestTimeout(5*time.Second))
	if err != nil {
		o.Stage, o.Err = "discover", err.Error()
		enc.Encode(o)
		return
	}
	ep, err := opcua.SelectEndpoint(eps, job.Pol, modeOf(job.Mode))
	if err != nil {
		o.Stage, o.Err = "select", err.Error()
		enc.Encode(o)
		return
	}
	ck := keys.Bits(job.Ckey)
	c, err := opcua.NewClient(job.URL, opcua.AuthAnonymous(), opcua.SecurityFromEndpoint(ep, ua.UserTokenTypeAnonymous),
		opcua.AutoReconnect(false), opcua.RequestTimeout(8*time.Second), opcua.DialTimeout(5*time.Second),
		opcua.PrivateKey(ck.Key), opcua.Certificate(ck.Cert))
	if err != nil {
		o.Stage, o.Err = "newclient", err.Error()
		enc.Encode(o)
		return
	}
	if err := c.Dial(ctx); err != nil {
		o.Stage, o.Err = "dial", err.Error()
		enc.Encode(o)
		return
	}
	o.Stage = "create"
	type res struct {
		s   *opcua.Session
		err error
	}
	first := make(chan res, 1)
	go func() {
		s, err := c.CreateSession(ctx, opcua.DefaultSessionConfig())
		first <- res{s, err}
	}()
	time.Sleep(400 * time.Millisecond)
	s2, err2 := c.CreateSession(ctx, opcua.DefaultSessionConfig())
	r1 := <-first
	o.FirstSess, o.SecondSess = r1.s != nil && r1.err == nil, s2 != nil && err2 == nil
	if r1.err != nil {
		o.FirstErr = r1.err.Error()
	}
	if err2 != nil {
		o.SecondErr = err2.Error()
	}
	o.Done = true
	enc.Encode(o)
	os.Stdout.Sync()
	c.Close(ctx)
}

// runOverlap: the script answers the first of two overlapping CreateSession requests with a signature over
// (client certificate + nonce of the SECOND request) -- "other data" -- and the second one correctly.
// Returns a violation key ("" = conforms) and a detail text; ok=false when it could not be driven.
func runOverlap(r row) (key, detail string, ok bool) {
	var mu sync.Mutex
	var srv *scriptsrv.Server
	var heldSC *uasc.SecureChannel
	var heldID uint32
	var heldReq *ua.CreateSessionRequest
	n := 0
	overlapped := false
	mk := func(sc *uasc.SecureChannel, req *ua.CreateSessionRequest, nonceFrom *ua.CreateSessionRequest) ua.Response {
		sig, alg, err := sc.NewSessionSignature(req.ClientCertificate, nonceFrom.ClientNonce)
		if err != nil {
			return scriptsrv.Fault(req, ua.StatusBadInternalError)
		}
		nonce := make([]byte, 32)
		rand.Read(nonce)
		return &ua.CreateSessionResponse{
			ResponseHeader: scriptsrv.Header(req, ua.StatusOK), SessionID: ua.NewNumericNodeID(1, 4711), AuthenticationToken: ua.NewNumericNodeID(1, 4712),
			RevisedSessionTimeout: 60000, ServerNonce: nonce, ServerCertificate: srv.Key.Cert,
			ServerEndpoints:            []*ua.EndpointDescription{srv.Endpoint(r.Pol, r.Mode)},
			ServerSoftwareCertificates: []*ua.SignedSoftwareCertificate{}, ServerSignature: &ua.SignatureData{Algorithm: alg, Signature: sig}}
	}
	h := func(sc *uasc.SecureChannel, reqID uint32, req ua.Request) ua.Response {
		switch q := req.(type) {
		case *ua.GetEndpointsRequest:
			return &ua.GetEndpointsResponse{ResponseHeader: scriptsrv.Header(req, ua.StatusOK), Endpoints: []*ua.EndpointDescription{srv.Endpoint(r.Pol, r.Mode)}}
		case *ua.CreateSessionRequest:
			mu.Lock()
			n++
			k := n
			mu.Unlock()
			if k == 1 {
				mu.Lock()
				heldSC, heldID, heldReq = sc, reqID, q
				mu.Unlock()
				go func() { // if the client never overlaps, answer properly after a while
					time.Sleep(4 * time.Second)
					mu.Lock()
					done := overlapped
					mu.Unlock()
					if !done {
						sc.SendResponseWithContext(context.Background(), reqID, mk(sc, q, q))
					}
				}()
				return nil
			}
			if k == 2 {
				mu.Lock()
				overlapped = true
				hs, hid, hreq := heldSC, heldID, heldReq
				mu.Unlock()
				hs.SendResponseWithContext(context.Background(), hid, mk(hs, hreq, q)) // first request, nonce of the second
			}
			return mk(sc, q, q)
		case *ua.CloseSessionRequest:
			return &ua.CloseSessionResponse{ResponseHeader: scriptsrv.Header(req, ua.StatusOK)}
		}
		return scriptsrv.Fault(req, ua.StatusBadServiceUnsupported)
	}
	var err error
	srv, err = scriptsrv.Start("2048b", h)
	if err != nil {
		return "", "scripted server: " + err.Error(), false
	}
	defer srv.Close()
	in, _ := json.Marshal(connectJob{URL: srv.URL, Pol: r.Pol, Mode: r.Mode, Ckey: r.Ckey})
	out := vfgo.RunChild("overlap", in, 40*time.Second)
	var o overlapObs
	json.Unmarshal(bytes.TrimSpace(out.Stdout), &o)
	mu.Lock()
	ov := overlapped
	mu.Unlock()
	detail = fmt.Sprintf("overlapping CreateSession, policy=%s mode=%s: first answered with a signature over the second request's nonce: child exit=%d panic=%v obs=%+v overlapped=%v", r.Pol, r.Mode, out.Exit, out.Panic, o, ov)
	if out.Panic {
		return "create-session-panics", detail + "\n" + vfgo.PanicHead(out.Stderr), true
	}
	if !o.Done || !ov {
		return "", detail, false
	}
	if o.FirstSess {
		return "session-created-with-signature-over-another-requests-nonce", detail, true
	}
	if !o.SecondSess {
		return "valid-signature-rejected-when-requests-overlap", detail, true
	}
	return "", detail, true
}

// signature builds the server signature of the given class for a CreateSession request.
func signature(class string, sc *uasc.SecureChannel, srv *scriptsrv.Server, pol string, ckey int, req *ua.CreateSessionRequest, variant, pick int) ([]byte, string, error) {
	good, alg, err := sc.NewSessionSignature(req.ClientCertificate, req.ClientNonce)
	if err != nil {
		return nil, "", err
	}
	uri := ua.FormatSecurityPolicyURI(pol)
	cpub, err := uapolicy.PublicKey(req.ClientCertificate)
	if err != nil {
		return nil, "", err
	}
	signWith := func(k *keys.Pair, data []byte) ([]byte, error) {
		enc, err := uapolicy.Asymmetric(uri, k.Key, cpub)
		if err != nil {
			return nil, err
		}
		return enc.Signature(data)
	}
	switch class {
	case "valid":
		return good, alg, nil
	case "corrupted":
		b := append([]byte(nil), good...)
		switch variant {
		case 0: // one bit flipped (position from the seed)
			b[pick%len(b)] ^= 1 << uint(pick%8)
		case 1: // truncated
			b = b[:len(b)-1-pick%(len(b)/2)]
		case 2: // extended
			b = append(b, byte(pick), byte(pick>>8))
		case 3: // all zero, right length
			for i := range b {
				b[i] = 0
			}
		}
		return b, alg, nil
	case "empty":
		if variant == 0 {
			return nil, alg, nil
		}
		return []byte{}, "", nil
	case "otherkey":
		// a third key pair: neither the server's nor the client's, within the policy's limits
		cands := []string{"3072a", "4096a", "2048a"}
		if pol == "Basic128Rsa15" || pol == "Basic256" {
			cands = []string{"1024a", "2048a"}
		}
		other := ""
		for _, c := range cands {
			if c != srv.Key.Name && c != fmt.Sprintf("%da", ckey) {
				other = c
				break
			}
		}
		s, err := signWith(keys.Get(other), append(append([]byte(nil), req.ClientCertificate...), req.ClientNonce...))
		return s, alg, err
	case "otherdata":
		var data []byte
		switch variant {
		case 0: // certificate without the nonce
			data = append([]byte(nil), req.ClientCertificate...)
		case 1: // the server's own certificate + client nonce
			data = append(append([]byte(nil), srv.Key.Cert...), req.ClientNonce...)
		case 2: // client certificate + a different nonce
			n := make([]byte, len(req.ClientNonce))
			rand.Read(n)
			data = append(append([]byte(nil), req.ClientCertificate...), n...)
		case 3: // nonce first
			data = append(append([]byte(nil), req.ClientNonce...), req.ClientCertificate...)
		}
		s, err := signWith(srv.Key, data)
		return s, alg, err
	}
	return nil, "", fmt.Errorf("unknown class %s", class)
}

// every member of a signature class is tried for every (policy, mode): the row conforms only if all do
var sigVariants = map[string][]string{
	"valid":     {"valid"},
	"na":        {"valid"},
	"corrupted": {"bit-flipped", "truncated", "extended", "all-zero"},
	"empty":     {"nil", "zero-length"},
	"otherkey":  {"third-key"},
	"otherdata": {"certificate-only", "server-certificate+nonce", "certificate+fresh-nonce", "nonce+certificate"},
}

// serviceResult turns the row's class into a concrete status code (seeded choice inside the class)
func serviceResult(class string, pick int) ua.StatusCode {
	switch class {
	case "goodsub":
		return []ua.StatusCode{ua.StatusGoodCompletesAsynchronously, ua.StatusGoodOverload, ua.StatusGoodClamped}[pick%3]
	case "uncertain":
		return []ua.StatusCode{ua.StatusUncertain, ua.StatusUncertainSubNormal}[pick%2]
	case "bad":
		return []ua.StatusCode{ua.StatusBadInternalError, ua.StatusBadUnexpectedError, ua.StatusBadResourceUnavailable}[pick%3]
	}
	return ua.StatusOK
}

func runSig(r row) {
	vs := sigVariants[r.Sig]
	if r.Sres != "" && r.Sres != "good" {
		// non-Good service results: one member of the signature class per row (seeded), all four status classes
		i := int(vfgo.Rand(int64(len(r.Pol)*13+len(r.Mode)*5+len(r.Sig)+len(r.Sres)*3)).Intn(len(vs)))
		res, _ := runSigVariant(r, i, vs[i], false)
		vfgo.Emit(res)
		return
	}
	var last vfgo.Result
	for i := range vs {
		res, final := runSigVariant(r, i, vs[i], i == len(vs)-1)
		if res.Status != "ok" || final {
			vfgo.Emit(res)
			return
		}
		last = res
	}
	vfgo.Emit(last)
}

func runSigVariant(r row, variant int, vname string, lastVariant bool) (vfgo.Result, bool) {
	okRes := func(class string, obs any) vfgo.Result {
		return vfgo.Result{Case: r, Status: "ok", Class: class, Nontrivial: true, Obs: obs}
	}
	viol := func(class, key, detail string) vfgo.Result {
		return vfgo.Result{Case: r, Status: "violation", Class: class, Nontrivial: true, Key: key, Detail: detail}
	}
	inconc := func(detail string) vfgo.Result {
		return vfgo.Result{Case: r, Status: "inconclusive", Detail: detail}
	}
	var exp expectT
	json.Unmarshal(r.Expect, &exp)
	sres := r.Sres
	if sres == "" {
		sres = "good"
	}
	class := fmt.Sprintf("sig/%s/%s/%s/result-%s", r.Pol, r.Mode, r.Sig, sres)
	pick := int(vfgo.Rand(int64(len(r.Pol)*7 + len(r.Mode)*3 + len(r.Sig) + variant*101)).Intn(1 << 16))
	status := serviceResult(sres, pick)
	mayConnect, mayFail := exp.State == "Connected", exp.State != "Connected"
	for _, a := range r.Allowed {
		if a == "Connected" {
			mayConnect = true
		} else {
			mayFail = true
		}
	}
	sigClass := r.Sig
	if sigClass == "na" {
		sigClass = "valid"
	}
	var scriptErr string
	var mu sync.Mutex
	var srv *scriptsrv.Server
	h := func(sc *uasc.SecureChannel, reqID uint32, req ua.Request) ua.Response {
		switch q := req.(type) {
		case *ua.GetEndpointsRequest:
			return &ua.GetEndpointsResponse{ResponseHeader: scriptsrv.Header(req, ua.StatusOK), Endpoints: []*ua.EndpointDescription{srv.Endpoint(r.Pol, r.Mode)}}
		case *ua.CreateSessionRequest:
			var sig []byte
			var alg string
			if r.Mode != "None" {
				var err error
				sig, alg, err = signature(sigClass, sc, srv, r.Pol, r.Ckey, q, variant, pick)
				if err != nil {
					mu.Lock()
					scriptErr = err.Error()
					mu.Unlock()
					return scriptsrv.Fault(req, ua.StatusBadInternalError)
				}
			}
			nonce := make([]byte, 32)
			rand.Read(nonce)
			return &ua.CreateSessionResponse{
				ResponseHeader:             scriptsrv.Header(req, status),
				SessionID:                  ua.NewNumericNodeID(1, 4711),
				AuthenticationToken:        ua.NewNumericNodeID(1, 4712),
				RevisedSessionTimeout:      60000,
				ServerNonce:                nonce,
				ServerCertificate:          srv.Key.Cert,
				ServerEndpoints:            []*ua.EndpointDescription{srv.Endpoint(r.Pol, r.Mode)},
				ServerSoftwareCertificates: []*ua.SignedSoftwareCertificate{},
				ServerSignature:            &ua.SignatureData{Algorithm: alg, Signature: sig},
			}
		case *ua.ActivateSessionRequest:
			nonce := make([]byte, 32)
			rand.Read(nonce)
			return &ua.ActivateSessionResponse{ResponseHeader: scriptsrv.Header(req, ua.StatusOK), ServerNonce: nonce,
				Results: []ua.StatusCode{}, DiagnosticInfos: []*ua.DiagnosticInfo{}}
		case *ua.ReadRequest:
			return scriptsrv.NamespaceArrayRead(q)
		case *ua.CloseSessionRequest:
			return &ua.CloseSessionResponse{ResponseHeader: scriptsrv.Header(req, ua.StatusOK)}
		}
		return scriptsrv.Fault(req, ua.StatusBadServiceUnsupported)
	}
	var err error
	srv, err = scriptsrv.Start("2048b", h) // never the client's key pair (keys.Bits gives the "a" pairs)
	if err != nil {
		return inconc("scripted server: " + err.Error()), true
	}
	defer srv.Close()
	in, _ := json.Marshal(connectJob{URL: srv.URL, Pol: r.Pol, Mode: r.Mode, Ckey: r.Ckey})
	out := vfgo.RunChild("connect", in, 40*time.Second)
	var o connectObs
	json.Unmarshal(bytes.TrimSpace(out.Stdout), &o)
	activated := srv.Saw("*ua.ActivateSessionRequest")
	mu.Lock()
	se := scriptErr
	mu.Unlock()
	detail := fmt.Sprintf("policy=%s mode=%s serviceResult=%s(0x%08X) signature=%s/%s(%d): child exit=%d panic=%v timedout=%v obs=%+v serverSawActivate=%v", r.Pol, r.Mode, sres, uint32(status), r.Sig, vname, pick, out.Exit, out.Panic, out.TimedOut, o, activated)
	if se != "" {
		return inconc("script could not build the signature: " + se), true
	}
	if out.Panic {
		key := "connect-panics"
		if strings.Contains(out.Stderr, "ActivateSession") && strings.Contains(out.Stderr, "nil pointer") {
			key = "connect-panics-nil-session-after-bad-server-signature"
		}
		if mayConnect && !mayFail {
			key = "connect-panics-with-valid-signature"
		}
		return viol(class, key, detail+"\n"+vfgo.PanicHead(out.Stderr)), true
	}
	if out.TimedOut || !o.Done {
		if o.Stage == "discover" || o.Stage == "select" || o.Stage == "newclient" {
			return inconc("client could not be driven to Connect: " + detail), true
		}
		return inconc("child did not finish: " + detail + " " + tailStr(out.Stderr, 300)), true
	}
	if mayConnect && !mayFail {
		switch {
		case o.Err != "":
			return viol(class, "connect-fails-with-valid-signature", detail), true
		case o.State != "Connected":
			return viol(class, "not-connected-with-valid-signature", detail), true
		}
		return okRes(class, o), true
	}
	if mayConnect && mayFail {
		// verified signature on a response whose service result is Good-with-subcode / Uncertain: both outcomes conform
		if (o.Err == "") != (o.State == "Connected") {
			return viol(class, "connect-result-and-state-disagree", detail), true
		}
		return okRes(class, map[string]any{"connect": o, "either": true}), true
	}
	// bad signature: error, not connected, no session activated on the server
	if r.Sig == "valid" || r.Sig == "na" { // refused because of the Bad service result, not the signature
		if o.Err == "" || o.State == "Connected" {
			return viol(class, "connected-despite-bad-service-result", detail), true
		}
		return okRes(class, o), true
	}
	switch {
	case o.Err == "" && o.State == "Connected" && sres != "good":
		return viol(class, "connected-despite-bad-server-signature/service-result-"+sres, detail), true
	case o.Err == "" && o.State == "Connected":
		return viol(class, "connected-despite-bad-server-signature", detail), true
	case o.Err == "":
		return viol(class, "no-error-for-bad-server-signature", detail), true
	case o.State == "Connected":
		return viol(class, "state-connected-after-failed-connect", detail), true
	case activated:
		return viol(class, "session-activated-despite-bad-server-signature", detail), true
	default:
		if r.Sig == "otherdata" && lastVariant {
			// one more member of the class: the data signed is the nonce of another, overlapping request
			if key, d, driven := runOverlap(r); driven && key != "" {
				return viol(class, key, d), true
			} else if !driven {
				return inconc("overlap case could not be driven: " + d), true
			}
			return okRes(class, map[string]any{"connect": o, "variants": len(sigVariants[r.Sig]), "overlap": "first refused, second created"}), true
		}
		return okRes(class, map[string]any{"connect": o, "variant": vname}), false
	}
}
