// Command smoke opens a channel pair for every policy/mode and sends one request/response (self-test of the harness).
package main

import (
	"context"
	"fmt"
	"os"
	"time"

	"github.com/gopcua/opcua/ua"
	"github.com/gopcua/opcua/uasc"

	"verifharness/chanpair"
)

func main() {
	bad := 0
	for _, pol := range chanpair.Policies {
		modes := []string{"Sign", "SignAndEncrypt"}
		if pol == "None" {
			modes = []string{"None"}
		}
		for _, mode := range modes {
			nframes := 0
			p, err := chanpair.Open(chanpair.Opts{Policy: pol, Mode: mode, Tap: func(f chanpair.Frame) [][]byte { nframes++; return chanpair.Pass(f) }})
			if err != nil {
				fmt.Println(pol, mode, "open:", err)
				bad++
				continue
			}
			go func() {
				for m := range p.ServerMsgs {
					if os.Getenv("DBG") != "" {
						fmt.Printf("srv msg: err=%v req=%T id=%d\n", m.Err, m.Request(), m.RequestID)
					}
					if r, ok := m.Request().(*ua.ReadRequest); ok {
						_ = r
						p.Server.SendResponseWithContext(context.Background(), m.RequestID, &ua.ReadResponse{ResponseHeader: chanpair.RespHeader(r.RequestHeader.RequestHandle, ua.StatusOK), Results: []*ua.DataValue{{EncodingMask: ua.DataValueValue, Value: ua.MustVariant(int32(42))}}})
					}
				}
			}()
			ctx, cancel := context.WithTimeout(context.Background(), 5*time.Second)
			var got ua.Response
			err = p.Client.SendRequest(ctx, chanpair.ReadReq(0, 2258), nil, func(r ua.Response) error { got = r; return nil })
			cancel()
			fmt.Printf("%-24s %-15s err=%v resp=%T frames=%d pending=%d\n", pol, mode, err, got, nframes, uasc.VerifPendingHandlers(p.Client))
			if err != nil {
				bad++
			}
			p.Close()
		}
	}
	os.Exit(bad)
}
