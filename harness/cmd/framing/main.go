// Command framing replays the behaviours emitted by spec/UacpFraming (C05) on a real
// uacp.Conn: every behaviour is a frame list (incl. malformed sizes, ERR frames, unknown
// types, truncated frames), a segmentation (cut set) and the oracle computed by TLC from
// the contract (expected sequence of Receive results + how many results may exist when
// each segment is handed to the socket).
//
// The stream is written one TCP segment per write (TCP_NODELAY); after every write the
// harness waits until the receiving socket's queue is empty (SIOCINQ), so the receiver has
// really seen the segment boundary, before the next segment is sent.
package main

import (
	"bytes"
	"context"
	"encoding/binary"
	"errors"
	"flag"
	"fmt"
	"io"
	"math/rand"
	"net"
	"os"
	"sort"
	"strings"
	"sync"
	"sync/atomic"
	"syscall"
	"time"
	"unsafe"

	"github.com/gopcua/opcua/uacp"

	"verifharness/vfgo"
)

type frame struct {
	T    string `json:"t"`
	K    string `json:"k"`
	D    int    `json:"d"`
	Have int    `json:"have"`
	Fill string `json:"fill"`
}

type expect struct {
	R   string `json:"r"`
	I   int    `json:"i"`
	Opt bool   `json:"opt"`
}

type beh struct {
	Sent  []frame  `json:"sent"`
	Close bool     `json:"close"`
	Cuts  []int    `json:"cuts"`
	Exp   []expect `json:"exp"`
	Prog  []int    `json:"prog"`
	// filled by the harness (concretisation), reported with violations
	Idx   int    `json:"idx"`
	Buf   uint32 `json:"buf,omitempty"`
	Other uint32 `json:"other,omitempty"`
	Mode  string `json:"mode,omitempty"`
}

var (
	workers      = flag.Int("workers", 8, "parallel replays")
	deadline     = flag.Duration("deadline", 6*time.Second, "read deadline per Receive call (hang detection)")
	maxBodyUnits = flag.Int("maxbody", 3, "MaxBody of the specification (a frame with that many body units fills the buffer)")
	bufFlag      = flag.Uint("buf", 0, "force this receive buffer size (0 = seeded choice)")
	hangs        int32
	listenerMode = flag.Bool("listener", false, "cases are UacpListener behaviours (several connections of one uacp.Listener)")
)

const hdr = 8

func main() {
	vfgo.Init()
	defer vfgo.Flush()
	if *listenerMode {
		lcases := vfgo.Cases[lbeh]()
		ch := make(chan int)
		var wg sync.WaitGroup
		for w := 0; w < *workers; w++ {
			wg.Add(1)
			go func() {
				defer wg.Done()
				for i := range ch {
					c := lcases[i]
					c.Idx = i
					runListenerCase(c)
				}
			}()
		}
		for i := range lcases {
			ch <- i
		}
		close(ch)
		wg.Wait()
		return
	}
	cases := vfgo.Cases[beh]()
	ch := make(chan int)
	var wg sync.WaitGroup
	for w := 0; w < *workers; w++ {
		wg.Add(1)
		go func() {
			defer wg.Done()
			for i := range ch {
				c := cases[i]
				c.Idx = i
				runCase(c)
			}
		}()
	}
	for i := range cases {
		ch <- i
	}
	close(ch)
	wg.Wait()
}

// ---------------------------------------------------------------- concretisation

type cframe struct {
	units [][]byte // all units of the frame (8 header bytes, then body / junk units)
	wire  []byte   // the whole well-formed frame (ok frames)
	code  uint32   // ERR frames
	why   string
}

var known = []string{"MSG", "OPN", "CLO", "ACK", "HEL", "RHE"}

func pickBuf(r *rand.Rand) uint32 {
	if *bufFlag != 0 {
		return uint32(*bufFlag)
	}
	switch r.Intn(16) {
	case 0, 1, 2, 3, 4, 5, 6, 7:
		return 8192
	case 8, 9, 10:
		return 65535
	case 11:
		return 1 << 20
	case 12, 13:
		return uint32(8192 + r.Intn(60000))
	default:
		return uint32(16384 << uint(r.Intn(3)))
	}
}

func randBytes(r *rand.Rand, n int) []byte {
	b := make([]byte, n)
	for i := range b {
		b[i] = byte(1 + r.Intn(255)) // never zero: a zero-filled tail must not compare equal
	}
	return b
}

// split cuts b into n non-empty parts at random places.
func split(r *rand.Rand, b []byte, n int) [][]byte {
	if n <= 0 {
		return nil
	}
	if n == 1 {
		return [][]byte{b}
	}
	pos := map[int]bool{}
	for len(pos) < n-1 {
		pos[1+r.Intn(len(b)-1)] = true
	}
	var ps []int
	for p := range pos {
		ps = append(ps, p)
	}
	sort.Ints(ps)
	var out [][]byte
	last := 0
	for _, p := range ps {
		out = append(out, b[last:p])
		last = p
	}
	return append(out, b[last:])
}

func header(typ string, chunk byte, size uint32) [][]byte {
	h := make([]byte, 8)
	copy(h, typ)
	h[3] = chunk
	binary.LittleEndian.PutUint32(h[4:], size)
	u := make([][]byte, 8)
	for i := range u {
		u[i] = h[i : i+1]
	}
	return u
}

// lo/hi: the smaller / larger of the two buffer sizes exchanged in the handshake (equal
// unless the set-up is asymmetric). Frames up to lo must be delivered, frames above hi must
// be refused, "gray" frames lie in between.
func concretize(r *rand.Rand, f frame, lo, hi uint32) (cframe, error) {
	buf := lo
	var c cframe
	typ := "MSG"
	switch f.T {
	case "MSG":
		typ = known[r.Intn(len(known))]
	case "ERR":
		typ = "ERR"
	case "XYZ":
		for {
			b := []byte{byte('A' + r.Intn(26)), byte('A' + r.Intn(26)), byte('A' + r.Intn(26))}
			if r.Intn(4) == 0 {
				b = randBytes(r, 3)
			}
			typ = string(b)
			ok := typ != "ERR"
			for _, k := range known {
				ok = ok && k != typ
			}
			if ok {
				break
			}
		}
	}
	chunk := byte('F')
	switch r.Intn(6) {
	case 0:
		chunk = 'C'
	case 1:
		chunk = 'A'
	case 2:
		chunk = byte(r.Intn(256))
	}
	n := f.D - hdr // abstract body units of a well-formed frame
	maxBody := int(buf) - hdr
	midLen := func() int {
		if n > maxBody-1 {
			return n
		}
		switch r.Intn(4) {
		case 0:
			return n + r.Intn(64)
		case 1:
			return maxBody - 1 - r.Intn(min(16, maxBody-n))
		default:
			return n + r.Intn(maxBody-n)
		}
	}
	switch f.K {
	case "ok", "trunc":
		var body []byte
		switch {
		case f.T == "ERR":
			c.code = 0x80000000 | uint32(r.Intn(1<<16))<<16
			c.why = string(bytes.Map(func(x rune) rune { return 'a' + x%26 }, randBytes(r, r.Intn(40))))
			e := &uacp.Error{ErrorCode: c.code, Reason: c.why}
			b, err := e.Encode()
			if err != nil {
				return c, err
			}
			body = b
		case f.Fill == "none":
		case f.Fill == "tiny":
			body = randBytes(r, n)
		case f.Fill == "full" || (f.K == "trunc" && f.D-hdr >= *maxBodyUnits) || (f.Fill == "gray" && lo == hi):
			body = randBytes(r, maxBody)
		case f.Fill == "gray":
			switch r.Intn(4) {
			case 0:
				body = randBytes(r, maxBody+1)
			case 1:
				body = randBytes(r, int(hi)-hdr)
			default:
				body = randBytes(r, maxBody+1+r.Intn(int(hi-lo)))
			}
		default:
			body = randBytes(r, midLen())
		}
		size := uint32(hdr + len(body))
		c.units = append(header(typ, chunk, size), split(r, body, n)...)
		c.wire = bytes.Join(c.units, nil)
	case "small":
		c.units = header(typ, chunk, uint32(f.D))
	case "large":
		var size uint32
		switch f.Fill {
		case "p1":
			size = hi + 1
		case "big":
			size = hi + 2 + uint32(r.Intn(1<<20))
		default:
			size = []uint32{0xffffffff, 0x80000000, 0x7fffffff, 0xfffffff8}[r.Intn(4)]
		}
		c.units = header(typ, chunk, size)
	case "errbad":
		var body []byte
		if r.Intn(2) == 0 {
			body = randBytes(r, 1+r.Intn(3)) // too short for the error code
		} else {
			body = make([]byte, 8) // error code + a string length with no string behind it
			binary.LittleEndian.PutUint32(body, 0x80010000)
			binary.LittleEndian.PutUint32(body[4:], uint32(100+r.Intn(1000)))
		}
		c.units = append(header("ERR", 'F', uint32(hdr+len(body))), body)
	default:
		return c, fmt.Errorf("unknown frame kind %q", f.K)
	}
	if f.K == "small" || f.K == "large" {
		for j := hdr; j < f.Have; j++ {
			c.units = append(c.units, randBytes(r, 1+r.Intn(32)))
		}
	}
	if f.Have > len(c.units) {
		return c, fmt.Errorf("frame %+v: have %d > %d units", f, f.Have, len(c.units))
	}
	c.units = c.units[:f.Have]
	return c, nil
}

// ---------------------------------------------------------------- connection set-up

// pairUp returns the sender's raw TCP connection and the uacp.Conn under test.
// buf is the buffer size configured on the uacp side under test, other the one the harness
// side announces in its Hello / Acknowledge.
func pairUp(mode string, buf, other uint32) (snd *net.TCPConn, rcv *uacp.Conn, err error) {
	ack := &uacp.Acknowledge{ReceiveBufSize: buf, SendBufSize: buf, MaxChunkCount: 0, MaxMessageSize: 0}
	oack := &uacp.Acknowledge{ReceiveBufSize: other, SendBufSize: other}
	ctx, cancel := context.WithTimeout(context.Background(), 10*time.Second)
	defer cancel()
	switch mode {
	case "newconn":
		ln, e := net.Listen("tcp", "127.0.0.1:0")
		if e != nil {
			return nil, nil, e
		}
		defer ln.Close()
		c, e := net.Dial("tcp", ln.Addr().String())
		if e != nil {
			return nil, nil, e
		}
		a, e := ln.Accept()
		if e != nil {
			c.Close()
			return nil, nil, e
		}
		rcv, e = uacp.NewConn(a.(*net.TCPConn), ack)
		if e != nil {
			c.Close()
			a.Close()
			return nil, nil, e
		}
		return c.(*net.TCPConn), rcv, nil
	case "listen": // receiver = server side of a real Hello/Acknowledge exchange
		ln, e := uacp.Listen(ctx, "opc.tcp://127.0.0.1:0", ack)
		if e != nil {
			return nil, nil, e
		}
		defer ln.Close()
		type res struct {
			c *uacp.Conn
			e error
		}
		rc := make(chan res, 1)
		go func() { c, e := ln.Accept(ctx); rc <- res{c, e} }()
		c, e := net.Dial("tcp", ln.Addr().String())
		if e != nil {
			return nil, nil, e
		}
		hel := &uacp.Hello{ReceiveBufSize: other, SendBufSize: other, EndpointURL: "opc.tcp://" + ln.Addr().String()}
		body, _ := hel.Encode()
		h := make([]byte, 8)
		copy(h, "HELF")
		binary.LittleEndian.PutUint32(h[4:], uint32(8+len(body)))
		c.SetDeadline(time.Now().Add(10 * time.Second))
		if _, e := c.Write(append(h, body...)); e != nil {
			c.Close()
			return nil, nil, e
		}
		ackb := make([]byte, 28)
		if _, e := io.ReadFull(c, ackb); e != nil || string(ackb[:4]) != "ACKF" {
			c.Close()
			return nil, nil, fmt.Errorf("no ACK from uacp listener: %v %q", e, ackb[:4])
		}
		c.SetDeadline(time.Time{})
		r := <-rc
		if r.e != nil {
			c.Close()
			return nil, nil, r.e
		}
		return c.(*net.TCPConn), r.c, nil
	case "dial": // receiver = client side of a real Hello/Acknowledge exchange
		ln, e := net.Listen("tcp", "127.0.0.1:0")
		if e != nil {
			return nil, nil, e
		}
		defer ln.Close()
		type res struct {
			c *uacp.Conn
			e error
		}
		rc := make(chan res, 1)
		go func() {
			d := &uacp.Dialer{ClientACK: ack}
			c, e := d.Dial(ctx, "opc.tcp://"+ln.Addr().String())
			rc <- res{c, e}
		}()
		ln.(*net.TCPListener).SetDeadline(time.Now().Add(10 * time.Second))
		a, e := ln.Accept()
		if e != nil {
			return nil, nil, e
		}
		a.SetDeadline(time.Now().Add(10 * time.Second))
		h := make([]byte, 8)
		if _, e := io.ReadFull(a, h); e != nil || string(h[:4]) != "HELF" {
			a.Close()
			return nil, nil, fmt.Errorf("no HEL from uacp dialer: %v", e)
		}
		rest := make([]byte, binary.LittleEndian.Uint32(h[4:])-8)
		if _, e := io.ReadFull(a, rest); e != nil {
			a.Close()
			return nil, nil, e
		}
		body, _ := oack.Encode()
		copy(h, "ACKF")
		binary.LittleEndian.PutUint32(h[4:], uint32(8+len(body)))
		if _, e := a.Write(append(h, body...)); e != nil {
			a.Close()
			return nil, nil, e
		}
		a.SetDeadline(time.Time{})
		r := <-rc
		if r.e != nil {
			a.Close()
			return nil, nil, r.e
		}
		return a.(*net.TCPConn), r.c, nil
	}
	return nil, nil, fmt.Errorf("unknown mode %q", mode)
}

// inq returns the number of unread bytes queued on the socket.
func inq(c *net.TCPConn) int {
	rc, err := c.SyscallConn()
	if err != nil {
		return -1
	}
	n := int32(-1)
	rc.Control(func(fd uintptr) {
		syscall.Syscall(syscall.SYS_IOCTL, fd, 0x541B /* SIOCINQ / FIONREAD */, uintptr(unsafe.Pointer(&n)))
	})
	return int(n)
}

// ---------------------------------------------------------------- one replay

type result struct {
	data     []byte
	err      error
	panicked string
}

func runCase(c beh) {
	if atomic.LoadInt32(&hangs) >= 4 {
		vfgo.Inconclusive(c, "skipped: Receive hung in earlier cases of this run (see violations)")
		return
	}
	var last string
	for attempt := 0; attempt < 3; attempt++ {
		retry, msg := replay(c, attempt)
		if !retry {
			return
		}
		last = msg
	}
	vfgo.Inconclusive(c, "could not drive: "+last)
}

func classOf(c beh, buf uint32, mode string) string {
	var ks []string
	for _, f := range c.Sent {
		ks = append(ks, f.T+":"+f.K+":"+f.Fill)
	}
	total := 0
	for _, f := range c.Sent {
		total += f.Have
	}
	cuts := fmt.Sprint(len(c.Cuts))
	if len(c.Cuts) == total-1 && total > 4 {
		cuts = "every-unit"
	} else if len(c.Cuts) > 3 {
		cuts = "4+"
	}
	hdrcut := false
	pos := 0
	for _, f := range c.Sent {
		for _, k := range c.Cuts {
			if k > pos && k < pos+hdr && k < pos+f.Have {
				hdrcut = true
			}
		}
		pos += f.Have
	}
	bc := "other"
	switch buf {
	case 8192, 65535, 1 << 20:
		bc = fmt.Sprint(buf)
	}
	return fmt.Sprintf("%s|cuts=%s|hdrcut=%v|close=%v|buf=%s|%s", strings.Join(ks, ","), cuts, hdrcut, c.Close, bc, mode)
}

func replay(c beh, attempt int) (retry bool, msg string) {
	r := vfgo.Rand(int64(c.Idx)*7919 + 13)
	buf := pickBuf(r)
	other := buf
	mode := []string{"newconn", "newconn", "newconn", "listen", "dial"}[r.Intn(5)]
	gray := false
	for _, f := range c.Sent {
		gray = gray || f.Fill == "gray"
	}
	if gray && mode == "newconn" {
		mode = []string{"listen", "dial"}[r.Intn(2)]
	}
	if mode != "newconn" && (gray || r.Intn(2) == 0) {
		for other == buf {
			other = pickBuf(r)
		}
		mode += "-asym"
	}
	lo, hi := min(buf, other), max(buf, other)
	c.Buf, c.Other, c.Mode = buf, other, mode
	class := classOf(c, buf, mode)
	for j := range c.Exp { // without a gray zone a buffer-sized frame must be delivered
		if e := c.Exp[j]; e.R == "frame" && c.Sent[e.I-1].T != "XYZ" && lo == hi {
			c.Exp[j].Opt = false
		}
	}

	var frames []cframe
	var units [][]byte
	for _, f := range c.Sent {
		cf, err := concretize(r, f, lo, hi)
		if err != nil {
			vfgo.Inconclusive(c, "concretize: "+err.Error())
			return false, ""
		}
		frames = append(frames, cf)
		units = append(units, cf.units...)
	}
	cuts := append([]int(nil), c.Cuts...)
	sort.Ints(cuts)
	cuts = append(cuts, len(units))
	nseg := len(cuts)
	wantProg := nseg
	if c.Close {
		wantProg++
	}
	if len(c.Prog) != wantProg {
		vfgo.Inconclusive(c, fmt.Sprintf("row has %d progress entries for %d segments (close=%v)", len(c.Prog), nseg, c.Close))
		return false, ""
	}

	snd, rcv, err := pairUp(strings.TrimSuffix(mode, "-asym"), buf, other)
	if err != nil {
		return true, "pair: " + err.Error()
	}
	defer snd.Close()
	defer rcv.Close()
	snd.SetNoDelay(true)

	var mu sync.Mutex
	var results []result
	var count int32
	done := make(chan struct{})
	go func() {
		defer close(done)
		for range c.Exp {
			var res result
			rcv.SetReadDeadline(time.Now().Add(*deadline))
			p, pm := vfgo.Recover(func() { res.data, res.err = rcv.Receive() })
			if p {
				res.panicked = pm
			}
			mu.Lock()
			results = append(results, res)
			mu.Unlock()
			atomic.AddInt32(&count, 1)
			if p {
				return
			}
			var ue *uacp.Error
			if res.err != nil && !errors.As(res.err, &ue) {
				return
			}
		}
	}()
	alive := func() bool {
		select {
		case <-done:
			return false
		default:
			return true
		}
	}

	early := ""
	last := 0
	for j, cut := range cuts {
		if n := int(atomic.LoadInt32(&count)); n > c.Prog[j] && early == "" {
			early = fmt.Sprintf("%d results exist before segment %d is sent, the specification allows %d", n, j+1, c.Prog[j])
		}
		seg := bytes.Join(units[last:cut], nil)
		last = cut
		snd.SetWriteDeadline(time.Now().Add(10 * time.Second))
		if _, err := snd.Write(seg); err != nil {
			if alive() {
				return true, "write: " + err.Error()
			}
			break // the receiver gave up (error outcome) and closed / reset
		}
		// let the receiver consume the segment before the next one is sent
		for t0 := time.Now(); alive() && inq(rcv.TCPConn) > 0 && time.Since(t0) < 30*time.Millisecond; {
			time.Sleep(20 * time.Microsecond)
		}
		if j%2 == 0 {
			time.Sleep(time.Duration(r.Intn(150)) * time.Microsecond)
		}
	}
	if c.Close {
		if n := int(atomic.LoadInt32(&count)); n > c.Prog[nseg] && early == "" {
			early = fmt.Sprintf("%d results exist before the close, the specification allows %d", n, c.Prog[nseg])
		}
		snd.CloseWrite()
	}
	select {
	case <-done:
	case <-time.After(*deadline*time.Duration(len(c.Exp)) + 5*time.Second):
		atomic.AddInt32(&hangs, 1)
		vfgo.Violation(c, class, "receive-hangs", "Receive did not return although a read deadline was set")
		return false, ""
	}
	mu.Lock()
	defer mu.Unlock()

	// compare with the oracle
	obs := make([]string, 0, len(results))
	for j, res := range results {
		e := c.Exp[j]
		switch {
		case res.panicked != "":
			obs = append(obs, "panic")
		case res.err != nil:
			obs = append(obs, "err")
		default:
			obs = append(obs, fmt.Sprintf("frame(%d)", len(res.data)))
		}
		if res.panicked != "" {
			vfgo.Violation(c, class, "receive-panics-"+c.Sent[min(j, len(c.Sent)-1)].K, fmt.Sprintf("result %d: Receive panicked: %s", j+1, res.panicked))
			return false, ""
		}
		timedOut := res.err != nil && errors.Is(res.err, os.ErrDeadlineExceeded)
		if timedOut {
			if attempt < 1 {
				return true, "deadline"
			}
			atomic.AddInt32(&hangs, 1)
			k := "after-last-frame"
			if j < len(c.Sent) {
				k = c.Sent[j].K
			}
			vfgo.Violation(c, class, "receive-hangs-"+k, fmt.Sprintf("result %d: Receive blocked for %v although everything the specification requires for this result had arrived (expected %s)", j+1, *deadline, e.R))
			return false, ""
		}
		switch e.R {
		case "frame":
			f := c.Sent[e.I-1]
			if res.err != nil {
				if e.Opt {
					vfgo.OK(c, class+"|optional-refused", obs)
					return false, ""
				}
				key := "valid-frame-refused"
				if len(frames[e.I-1].wire) == int(lo) {
					key = "frame-of-exactly-buffer-size-refused"
				} else if len(frames[e.I-1].wire) == hdr {
					key = "header-only-frame-refused"
				}
				vfgo.Violation(c, class, key, fmt.Sprintf("result %d: frame %d (%+v, %d bytes, buffer %d) gave error %v", j+1, e.I, f, len(frames[e.I-1].wire), buf, res.err))
				return false, ""
			}
			if !bytes.Equal(res.data, frames[e.I-1].wire) {
				key := "frame-bytes-differ"
				if len(res.data) != len(frames[e.I-1].wire) {
					key = "frame-length-differs"
				}
				vfgo.Violation(c, class, key, fmt.Sprintf("result %d: frame %d delivered %d bytes, sent %d bytes; first difference at %d", j+1, e.I, len(res.data), len(frames[e.I-1].wire), firstDiff(res.data, frames[e.I-1].wire)))
				return false, ""
			}
		case "uaerr":
			var ue *uacp.Error
			if res.err == nil || !errors.As(res.err, &ue) {
				vfgo.Violation(c, class, "err-frame-not-returned-as-its-error", fmt.Sprintf("result %d: ERR frame (code %#x) returned data=%d bytes err=%v", j+1, frames[e.I-1].code, len(res.data), res.err))
				return false, ""
			}
			if ue.ErrorCode != frames[e.I-1].code || ue.Reason != frames[e.I-1].why || res.data != nil {
				vfgo.Violation(c, class, "err-frame-content-differs", fmt.Sprintf("result %d: ERR frame sent (%#x,%q) received (%#x,%q)", j+1, frames[e.I-1].code, frames[e.I-1].why, ue.ErrorCode, ue.Reason))
				return false, ""
			}
		case "error":
			if res.err == nil {
				bad := c.Sent[len(c.Sent)-1]
				key := "eof-delivered-as-frame"
				if j < len(c.Sent) {
					key = "malformed-frame-delivered-" + bad.K
				}
				vfgo.Violation(c, class, key, fmt.Sprintf("result %d: expected an error (last frame %+v, close=%v), Receive returned %d bytes", j+1, bad, c.Close, len(res.data)))
				return false, ""
			}
			if res.data != nil {
				vfgo.Violation(c, class, "error-with-data", fmt.Sprintf("result %d: error %v together with %d bytes", j+1, res.err, len(res.data)))
				return false, ""
			}
		}
	}
	if len(results) != len(c.Exp) {
		vfgo.Violation(c, class, "result-count-differs", fmt.Sprintf("expected %d results, got %d: %v", len(c.Exp), len(results), obs))
		return false, ""
	}
	if early != "" {
		vfgo.Violation(c, class, "result-before-bytes-arrived", early)
		return false, ""
	}
	vfgo.OK(c, class, obs)
	return false, ""
}

func firstDiff(a, b []byte) int {
	for i := 0; i < len(a) && i < len(b); i++ {
		if a[i] != b[i] {
			return i
		}
	}
	return min(len(a), len(b))
}
