package main

// Replay of spec/UacpFraming/UacpListener behaviours: several connections accepted by ONE
// uacp.Listener, clients with different Hello buffer sizes, frames of every size class on every
// open connection after each further handshake. The oracle (must deliver / must be an error /
// either, and the acceptable Acknowledge values) comes from the TLC row.

import (
	"bytes"
	"context"
	"encoding/binary"
	"errors"
	"fmt"
	"io"
	"net"
	"os"
	"sync/atomic"
	"time"

	"github.com/gopcua/opcua/uacp"

	"verifharness/vfgo"
)

type lstep struct {
	Op    string `json:"op"`
	C     int    `json:"c"`
	Hb    int    `json:"hb"`
	Ack   int    `json:"ack"`
	AckOK []int  `json:"ackok"`
	Sz    int    `json:"sz"`
	Must  string `json:"must"`
}

type lbeh struct {
	Hb    []int    `json:"hb"`
	Rs    []int    `json:"rs"`
	Steps []lstep  `json:"steps"`
	Idx   int      `json:"idx"`
	Sizes []uint32 `json:"sizes,omitempty"` // concrete S, L, B
}

func runListenerCase(c lbeh) {
	if atomic.LoadInt32(&hangs) >= 4 {
		vfgo.Inconclusive(c, "skipped: Receive hung in earlier cases of this run (see violations)")
		return
	}
	var last string
	for attempt := 0; attempt < 3; attempt++ {
		retry, msg := replayListener(c, attempt)
		if !retry {
			return
		}
		last = msg
	}
	vfgo.Inconclusive(c, "could not drive: "+last)
}

func replayListener(c lbeh, attempt int) (retry bool, msg string) {
	r := vfgo.Rand(int64(c.Idx)*104729 + 7)
	// abstract 2 < 4 < 6  ->  concrete S < L < B
	S := uint32(8192 + r.Intn(3)*4096)
	L := []uint32{32768, 65535, 65536, 100000}[r.Intn(4)]
	B := []uint32{1 << 20, 131072, 200000}[r.Intn(3)]
	c.Sizes = []uint32{S, L, B}
	conc := func(a int) uint32 {
		switch a {
		case 2:
			return S
		case 4:
			return L
		case 6:
			return B
		}
		return 0
	}
	frameSize := func(a int) uint32 {
		switch a {
		case 1:
			return []uint32{8, 9, S, uint32(10 + r.Intn(int(S)-10))}[r.Intn(4)]
		case 3:
			return S + 1 + uint32(r.Intn(int(L-S-1)))
		case 4:
			return L
		default:
			return []uint32{L + 1, L + 2 + uint32(r.Intn(50000)), 0x7fffffff}[r.Intn(3)]
		}
	}
	class := fmt.Sprintf("listener|hello=%v|rounds=%v", c.Hb, c.Rs)

	ctx, cancel := context.WithTimeout(context.Background(), 60*time.Second)
	defer cancel()
	ln, err := uacp.Listen(ctx, "opc.tcp://127.0.0.1:0", &uacp.Acknowledge{ReceiveBufSize: L, SendBufSize: L, MaxChunkCount: 0, MaxMessageSize: 0})
	if err != nil {
		return true, "listen: " + err.Error()
	}
	defer ln.Close()
	clients := map[int]net.Conn{}
	servers := map[int]*uacp.Conn{}
	defer func() {
		for _, x := range clients {
			x.Close()
		}
		for _, x := range servers {
			x.Close()
		}
	}()
	var obs []string
	for si, st := range c.Steps {
		switch st.Op {
		case "accept":
			type res struct {
				c *uacp.Conn
				e error
			}
			rc := make(chan res, 1)
			go func() { x, e := ln.Accept(ctx); rc <- res{x, e} }()
			cl, err := net.Dial("tcp", ln.Addr().String())
			if err != nil {
				return true, "dial: " + err.Error()
			}
			clients[st.C] = cl
			hb := conc(st.Hb)
			hel := &uacp.Hello{ReceiveBufSize: hb, SendBufSize: hb, EndpointURL: "opc.tcp://" + ln.Addr().String()}
			body, _ := hel.Encode()
			h := make([]byte, 8)
			copy(h, "HELF")
			binary.LittleEndian.PutUint32(h[4:], uint32(8+len(body)))
			cl.SetDeadline(time.Now().Add(10 * time.Second))
			if _, err := cl.Write(append(h, body...)); err != nil {
				return true, "hello: " + err.Error()
			}
			ackb := make([]byte, 28)
			if _, err := io.ReadFull(cl, ackb); err != nil || string(ackb[:4]) != "ACKF" {
				return true, fmt.Sprintf("no ACK: %v %q", err, ackb[:4])
			}
			cl.SetDeadline(time.Time{})
			a := <-rc
			if a.e != nil {
				return true, "accept: " + a.e.Error()
			}
			servers[st.C] = a.c
			rb, sb := binary.LittleEndian.Uint32(ackb[12:]), binary.LittleEndian.Uint32(ackb[16:])
			obs = append(obs, fmt.Sprintf("accept%d(hello %d)->ack %d/%d", st.C, hb, rb, sb))
			okv := func(v uint32) bool {
				for _, a := range st.AckOK {
					if conc(a) == v {
						return true
					}
				}
				return false
			}
			if !okv(rb) || !okv(sb) {
				vfgo.Violation(c, class, "listener-acknowledge-depends-on-other-connections",
					fmt.Sprintf("step %d: client %d (Hello buffers %d) of a listener configured with %d got Acknowledge receive/send buffer %d/%d; earlier clients: %v", si+1, st.C, hb, L, rb, sb, obs))
				return false, ""
			}
		case "frame":
			srv, cl := servers[st.C], clients[st.C]
			if srv == nil || cl == nil {
				continue // the real code refused an "either" frame earlier: connection no longer used
			}
			size := frameSize(st.Sz)
			var wire []byte
			if st.Must == "error" {
				wire = make([]byte, 8) // header only: the error must not wait for a body
			} else {
				wire = append(make([]byte, 8), randBytes(r, int(size)-8)...)
			}
			copy(wire, "MSGF")
			binary.LittleEndian.PutUint32(wire[4:], size)
			cl.SetWriteDeadline(time.Now().Add(10 * time.Second))
			werr := make(chan error, 1)
			go func() { _, e := cl.Write(wire); werr <- e }()
			var data []byte
			var rerr error
			srv.SetReadDeadline(time.Now().Add(*deadline))
			p, pm := vfgo.Recover(func() { data, rerr = srv.Receive() })
			if p {
				vfgo.Violation(c, class, "receive-panics-listener", fmt.Sprintf("step %d: %s", si+1, pm))
				return false, ""
			}
			if rerr != nil && errors.Is(rerr, os.ErrDeadlineExceeded) {
				if attempt < 1 {
					return true, "deadline"
				}
				atomic.AddInt32(&hangs, 1)
				vfgo.Violation(c, class, "receive-hangs-listener", fmt.Sprintf("step %d: Receive blocked for %v on a %d byte frame", si+1, *deadline, size))
				return false, ""
			}
			obs = append(obs, fmt.Sprintf("frame%d(%d)->%v", st.C, size, rerr == nil))
			switch {
			case rerr == nil && st.Must == "error":
				vfgo.Violation(c, class, "frame-above-listener-buffer-delivered",
					fmt.Sprintf("step %d: connection %d delivered a frame of declared size %d, listener receive buffer %d", si+1, st.C, size, L))
				return false, ""
			case rerr != nil && st.Must == "deliver":
				vfgo.Violation(c, class, "valid-frame-refused-after-other-connection-handshake",
					fmt.Sprintf("step %d: connection %d (Hello buffers %d, listener %d) refused a %d byte frame: %v; history: %v", si+1, st.C, conc(c.Hb[st.C-1]), L, size, rerr, obs))
				return false, ""
			case rerr == nil && !bytes.Equal(data, wire):
				vfgo.Violation(c, class, "frame-bytes-differ", fmt.Sprintf("step %d: connection %d delivered %d bytes, sent %d", si+1, st.C, len(data), len(wire)))
				return false, ""
			}
			if rerr != nil {
				srv.Close()
				cl.Close()
				delete(servers, st.C)
				delete(clients, st.C)
			} else if e := <-werr; e != nil {
				return true, "write: " + e.Error()
			}
		}
	}
	vfgo.OK(c, class, obs)
	return false, ""
}
