// Command seqgap is a small reproduction driver: three requests on a real client channel, the
// second one with an already cancelled context; prints the sequence numbers of the chunks the
// client wrote (chunk.write hook).
package main

import (
	"context"
	"fmt"
	"sync"
	"time"

	"github.com/gopcua/opcua/ua"
	"github.com/gopcua/opcua/uasc"

	"verifharness/chanpair"
)

func main() {
	var mu sync.Mutex
	var seqs []uint32
	uasc.VerifHook.Store(func(point string, s *uasc.SecureChannel, kv ...any) {
		if point != "chunk.write" || uasc.VerifIsServer(s) {
			return
		}
		for i := 0; i+1 < len(kv); i += 2 {
			if kv[i] == "seq" {
				mu.Lock()
				seqs = append(seqs, kv[i+1].(uint32))
				mu.Unlock()
			}
		}
	})
	p, err := chanpair.Open(chanpair.Opts{})
	if err != nil {
		panic(err)
	}
	defer p.Close()
	go func() {
		for m := range p.ServerMsgs {
			if r, ok := m.Request().(*ua.ReadRequest); ok {
				p.Server.SendResponseWithContext(context.Background(), m.RequestID, &ua.ReadResponse{ResponseHeader: chanpair.RespHeader(r.RequestHeader.RequestHandle, ua.StatusOK), Results: []*ua.DataValue{}})
			}
		}
	}()
	send := func(ctx context.Context) error {
		return p.Client.SendRequest(ctx, chanpair.ReadReq(0, 2258), nil, func(ua.Response) error { return nil })
	}
	ctx, cancel := context.WithTimeout(context.Background(), 5*time.Second)
	defer cancel()
	dead, kill := context.WithCancel(context.Background())
	kill()
	fmt.Println("1:", send(ctx))
	fmt.Println("2 (cancelled):", send(dead))
	fmt.Println("3:", send(ctx))
	mu.Lock()
	fmt.Println("client chunk sequence numbers:", seqs)
	mu.Unlock()
}
