// Command reglin records client-side histories of concurrent reads and writes of a few
// shared nodes against the real gopcua server (C34).  Every history is produced by
// several real opcua clients (one goroutine each, own connection and session) inside a
// child process that also runs the server.  Call and return events are stamped by one
// sequencer (a single atomic counter taken immediately before the call and immediately
// after the return), so "A returned before B was called" in the history implies the same
// in real time.  The histories are NOT judged here: checks/C34.py hands them to TLC
// (spec/RegLin/RegLinTrace.tla), which accepts a history iff it is linearizable with
// respect to a register per node.
package main

import (
	"encoding/json"
	"fmt"
	"io"
	"os"
	"sort"
	"sync"
	"sync/atomic"
	"time"

	"github.com/gopcua/opcua"
	"github.com/gopcua/opcua/ua"

	"verifharness/g2kit"
	"verifharness/vfgo"
)

// Hist is one case: the shape of a history to record.
type Hist struct {
	ID      int `json:"id"`
	Clients int `json:"clients"`
	Ops     int `json:"ops"`    // operations per client
	Nodes   int `json:"nodes"`  // shared nodes
	PW      int `json:"pw"`     // percentage of writes
	Jitter  int `json:"jitter"` // max random pause between operations, microseconds
	Kind    int `json:"kind"`   // built-in type the numbers travel as (index into g2kit.Kinds)
	TS      int `json:"ts"`     // 1: every write carries an explicit source timestamp, random within +-1 h (not monotonic)
	Map     int `json:"map"`    // 1: the keys m1.. of the map namespace are shared nodes as well
	RO      int `json:"ro"`     // 1: the read-only node r1 is a shared node as well (writes to it are refused)
	MaxAge  int `json:"maxage"` // 1: reads carry a random MaxAge (0, 1 ms, 1 h, max float)
	// Kind -1: every write picks its own kind, and numbers that an Int32 cannot hold where the kind allows
	Salt int `json:"salt"`
}

type Event struct {
	T   int64  `json:"t"`
	Rej bool   `json:"rej,omitempty"` // ret of a write the server refused with a Bad status: no effect
	Ev  string `json:"ev"`            // call | ret | fail
	C   string `json:"c"`
	Op  string `json:"op,omitempty"`
	N   string `json:"n,omitempty"`
	V   int64  `json:"v"`
	E   string `json:"e,omitempty"`
}

type line struct {
	ID     int     `json:"id"`
	Events []Event `json:"events,omitempty"`
	Err    string  `json:"err,omitempty"` // machinery trouble (could not connect ...)
}

const opTimeout = 10 * time.Second

func main() {
	vfgo.Init()
	defer vfgo.Flush()
	if *vfgo.ChildFlag == "hist" {
		child()
		return
	}
	cases := vfgo.Cases[Hist]()
	todo := cases
	for attempt := 0; attempt < 3 && len(todo) > 0; attempt++ {
		in, _ := json.Marshal(todo)
		out := vfgo.RunChild("hist", in, time.Duration(60+len(todo)*20)*time.Second, "GOTRACEBACK=single")
		got := map[int]line{}
		for _, l := range g2kit.Lines[line](out.Stdout) {
			got[l.ID] = l
		}
		var rest []Hist
		for _, h := range todo {
			l, ok := got[h.ID]
			if !ok || l.Err != "" {
				if attempt == 2 {
					d := l.Err
					if !ok {
						d = fmt.Sprintf("child ended before this history (exit=%d timeout=%v panic=%v): %s", out.Exit, out.TimedOut, out.Panic, vfgo.PanicHead(out.Stderr))
					}
					vfgo.Inconclusive(h, d)
				} else {
					rest = append(rest, h)
				}
				continue
			}
			class, nontrivial, stats := classify(h, l.Events)
			vfgo.Emit(vfgo.Result{Case: h, Status: "ok", Class: class, Nontrivial: nontrivial,
				Obs: map[string]any{"events": l.Events, "stats": stats}})
		}
		todo = rest
	}
}

func kindName(h Hist) string {
	if h.Kind < 0 {
		return "mixed"
	}
	return g2kit.Kinds[h.Kind%len(g2kit.Kinds)]
}

// classify: a history is non-trivial when at least one pair of operations on the same node
// overlaps in time and one of the two is a write (otherwise any sequential register passes).
func classify(h Hist, evs []Event) (string, bool, map[string]int) {
	type op struct {
		call, ret int64
		w         bool
		n         string
	}
	open := map[string]*op{}
	var ops []*op
	for _, e := range evs {
		switch e.Ev {
		case "call":
			o := &op{call: e.T, ret: 1 << 62, w: e.Op == "w", n: e.N}
			open[e.C] = o
			ops = append(ops, o)
		case "ret":
			if o := open[e.C]; o != nil {
				o.ret = e.T
			}
		}
	}
	conflicts, maxc := 0, 0
	for i, a := range ops {
		c := 1
		for j, b := range ops {
			if i == j {
				continue
			}
			if a.call < b.ret && b.call < a.ret {
				if b.call < a.call {
					c++
				}
				if j > i && a.n == b.n && (a.w || b.w) {
					conflicts++
				}
			}
		}
		if c > maxc {
			maxc = c
		}
	}
	bucket := func(n int) string {
		switch {
		case n == 0:
			return "0"
		case n < 10:
			return "1-9"
		case n < 100:
			return "10-99"
		}
		return "100+"
	}
	class := fmt.Sprintf("clients%d/nodes%d/map%d/ro%d/age%d/pw%d/jitter%v/%s/ts%d/conc%d/conflicts%s", h.Clients, h.Nodes, h.Map, h.RO, h.MaxAge, h.PW, h.Jitter > 0, kindName(h), h.TS, maxc, bucket(conflicts))
	return class, conflicts > 0, map[string]int{"ops": len(ops), "conflicting_overlaps": conflicts, "max_concurrency": maxc}
}

// ---------------------------------------------------------------------------------------

func child() {
	out := g2kit.NewOut()
	in, _ := io.ReadAll(os.Stdin)
	var hs []Hist
	if err := json.Unmarshal(in, &hs); err != nil {
		fmt.Fprintln(os.Stderr, "bad stdin:", err)
		os.Exit(3)
	}
	maxNodes, maxClients := 1, 1
	for _, h := range hs {
		if h.Nodes > maxNodes {
			maxNodes = h.Nodes
		}
		if h.Clients > maxClients {
			maxClients = h.Clients
		}
	}
	srv, err := g2kit.Start(maxNodes)
	if err != nil {
		for _, h := range hs {
			out.Put(line{ID: h.ID, Err: err.Error()})
		}
		return
	}
	clients := make([]*opcua.Client, maxClients)
	for i := range clients {
		c, err := g2kit.Connect(srv.URL, opTimeout)
		if err != nil {
			for _, h := range hs {
				out.Put(line{ID: h.ID, Err: "connect: " + err.Error()})
			}
			return
		}
		clients[i] = c
	}
	for _, h := range hs {
		out.Put(one(srv, clients, h))
	}
	for _, c := range clients {
		g2kit.CloseClient(c)
	}
}

// stamp: the source timestamp a write carries (zero = none).  The register contract does not
// depend on it: a later write replaces the value whatever the timestamps say.
func stamp(h Hist, rng interface{ Intn(int) int }) time.Time {
	if h.TS == 0 {
		return time.Time{}
	}
	return time.Date(2026, 1, 1, 12, 0, 0, 0, time.UTC).Add(time.Duration(rng.Intn(7200000)-3600000) * time.Millisecond)
}

type target struct {
	id   *ua.NodeID
	name string
	ro   bool
}

func pool(srv *g2kit.Srv, h Hist) []target {
	var res []target
	for i := 0; i < h.Nodes; i++ {
		res = append(res, target{id: srv.Nodes[i], name: g2kit.NodeName(i)})
	}
	if h.Map > 0 {
		for i := 0; i < h.Nodes; i++ {
			res = append(res, target{id: srv.Keys[i], name: g2kit.KeyName(i)})
		}
	}
	if h.RO > 0 {
		res = append(res, target{id: srv.RO, name: "r1", ro: true})
	}
	return res
}

// number and kind of write k of client ci
func pick(h Hist, rng interface{ Intn(int) int }, ci, k int) (int64, int) {
	n := int64(ci+1)*100000 + int64(k)
	if h.Kind >= 0 {
		return n, h.Kind
	}
	kind := rng.Intn(len(g2kit.Kinds))
	if kind == 0 || kind == 1 || kind == 3 { // Int64, UInt32, Double: beyond the range of an Int32
		n += 3000000000
	}
	return n, kind
}

var ages = []float64{0, 1, 3600000, 1.7976931348623157e308}

func one(srv *g2kit.Srv, clients []*opcua.Client, h Hist) line {
	nodes := pool(srv, h)
	// every history starts with sequential writes of number 0 (in the history's variant kind) to
	// every node by client c1; they are ordinary events of the history
	var seq atomic.Int64
	var pre []Event
	k0 := h.Kind
	if k0 < 0 {
		k0 = 2 // mixed histories start from Int32 values
	}
	for i, nd := range nodes {
		if nd.ro {
			continue // never written: holds Int64 0 = Tagged(0, 0) = the initial value of the contract
		}
		t := seq.Add(1)
		if err := g2kit.WriteKindTS(clients[0], nd.id, 0, k0, stamp(h, vfgo.Rand(int64(h.Salt)*1000+500+int64(i))), opTimeout); err != nil {
			return line{ID: h.ID, Err: "reset write: " + err.Error()}
		}
		t2 := seq.Add(1)
		v := g2kit.Tagged(0, k0)
		pre = append(pre, Event{T: t, Ev: "call", C: "c1", Op: "w", N: nd.name, V: v}, Event{T: t2, Ev: "ret", C: "c1", V: v})
	}
	var wg sync.WaitGroup
	evs := make([][]Event, h.Clients)
	start := make(chan struct{})
	for ci := 0; ci < h.Clients; ci++ {
		wg.Add(1)
		go func(ci int) {
			defer wg.Done()
			rng := vfgo.Rand(int64(h.Salt)*1000 + int64(ci))
			c := clients[ci]
			name := fmt.Sprintf("c%d", ci+1)
			my := make([]Event, 0, 2*h.Ops)
			<-start
			for k := 1; k <= h.Ops; k++ {
				nd := nodes[rng.Intn(len(nodes))]
				write := rng.Intn(100) < h.PW
				if h.Jitter > 0 {
					time.Sleep(time.Duration(rng.Intn(h.Jitter)) * time.Microsecond)
				}
				if write {
					n, kind := pick(h, rng, ci, k)
					v := g2kit.Tagged(n, kind)
					ts := stamp(h, rng)
					t := seq.Add(1)
					st, err := g2kit.WriteKindStatus(c, nd.id, n, kind, ts, opTimeout)
					t2 := seq.Add(1)
					my = append(my, Event{T: t, Ev: "call", C: name, Op: "w", N: nd.name, V: v})
					if err != nil {
						my = append(my, Event{T: t2, Ev: "fail", C: name, E: err.Error()})
						break
					}
					// a write answered with a Bad status is a refused write: it must have no effect
					my = append(my, Event{T: t2, Ev: "ret", C: name, V: v, Rej: st != ua.StatusOK, E: fmt.Sprint(st)})
				} else {
					age := 0.0
					if h.MaxAge > 0 {
						age = ages[rng.Intn(len(ages))]
					}
					t := seq.Add(1)
					v, err := g2kit.ReadTaggedAge(c, nd.id, age, opTimeout)
					t2 := seq.Add(1)
					my = append(my, Event{T: t, Ev: "call", C: name, Op: "r", N: nd.name})
					if err != nil {
						my = append(my, Event{T: t2, Ev: "fail", C: name, E: err.Error()})
						break
					}
					my = append(my, Event{T: t2, Ev: "ret", C: name, V: v})
				}
			}
			evs[ci] = my
		}(ci)
	}
	close(start)
	wg.Wait()
	all := pre
	for _, e := range evs {
		all = append(all, e...)
	}
	sort.Slice(all, func(i, j int) bool { return all[i].T < all[j].T })
	return line{ID: h.ID, Events: all}
}
