// Command genkeys writes the committed test key material (run once; output is in harness/keys/data).
package main

import (
	"crypto/rand"
	"crypto/rsa"
	"crypto/x509"
	"crypto/x509/pkix"
	"encoding/pem"
	"fmt"
	"math/big"
	"net"
	"net/url"
	"os"
	"time"
)

func main() {
	dir := os.Args[1]
	for _, name := range []string{"1024a", "2048a", "2048b", "3072a", "4096a", "512a"} {
		var bits int
		fmt.Sscanf(name, "%d", &bits)
		k, err := rsa.GenerateKey(rand.Reader, bits)
		if err != nil {
			panic(err)
		}
		uri, _ := url.Parse("urn:verif:" + name)
		tmpl := &x509.Certificate{
			SerialNumber:          big.NewInt(int64(bits)),
			Subject:               pkix.Name{CommonName: "verif " + name, Organization: []string{"verif"}},
			NotBefore:             time.Date(2020, 1, 1, 0, 0, 0, 0, time.UTC),
			NotAfter:              time.Date(2120, 1, 1, 0, 0, 0, 0, time.UTC),
			KeyUsage:              x509.KeyUsageDigitalSignature | x509.KeyUsageKeyEncipherment | x509.KeyUsageDataEncipherment | x509.KeyUsageContentCommitment | x509.KeyUsageCertSign,
			ExtKeyUsage:           []x509.ExtKeyUsage{x509.ExtKeyUsageServerAuth, x509.ExtKeyUsageClientAuth},
			BasicConstraintsValid: true,
			IsCA:                  true,
			DNSNames:              []string{"localhost"},
			IPAddresses:           []net.IP{net.ParseIP("127.0.0.1")},
			URIs:                  []*url.URL{uri},
			SignatureAlgorithm:    x509.SHA256WithRSA,
		}
		der, err := x509.CreateCertificate(rand.Reader, tmpl, tmpl, &k.PublicKey, k)
		if err != nil {
			panic(err)
		}
		os.WriteFile(dir+"/"+name+".cert.pem", pem.EncodeToMemory(&pem.Block{Type: "CERTIFICATE", Bytes: der}), 0o644)
		os.WriteFile(dir+"/"+name+".key.pem", pem.EncodeToMemory(&pem.Block{Type: "RSA PRIVATE KEY", Bytes: x509.MarshalPKCS1PrivateKey(k)}), 0o644)
	}
}
