// Command clientcfg replays the programs emitted by spec/UacpNegotiation/UacpClientConfig
// (C23): sequences of opcua.NewClient(endpoint, options...) constructions followed by every
// client dialling. After each construction the configuration of every existing client
// (opcua.VerifConfig), the package default uacp.DefaultClientACK and the configuration of
// a fresh option-less client are compared with the specification's state; the Hello each
// client puts on the wire is captured by a raw TCP listener and compared too.
//
// Row = {prog, hist (contract expectation), asis (expectation of the as-is model, optional)}.
package main

import (
	"context"
	"encoding/binary"
	"encoding/json"
	"fmt"
	"io"
	"net"
	"os"
	"reflect"
	"sort"
	"strings"
	"time"
	"unsafe"

	"github.com/gopcua/opcua"
	"github.com/gopcua/opcua/ua"
	"github.com/gopcua/opcua/uacp"
	"github.com/gopcua/opcua/uasc"

	"verifharness/keys"
	"verifharness/vfgo"
)

type opt struct {
	O string `json:"o"`
	V int    `json:"v"`
}

type tok struct {
	Ty  string `json:"ty"`
	Pid int    `json:"pid"`
	Val int    `json:"val"`
}

type view struct {
	Ack map[string]int `json:"ack"`
	Tok tok            `json:"tok"`
	V   map[string]int `json:"v"`
}

type snap struct {
	Cl    []view         `json:"cl"`
	Def   map[string]int `json:"def"`
	Fresh view           `json:"fresh"`
}

type event struct {
	Ev   string         `json:"ev"`
	C    int            `json:"c"`
	Snap *snap          `json:"snap,omitempty"`
	Ack  map[string]int `json:"ack,omitempty"`
}

// Pool = the option objects of the program (each built exactly once), Prog = per construction
// the indices (1-based) of the option objects applied, in order.
type row struct {
	Pool []opt   `json:"pool"`
	Prog [][]int `json:"prog"`
	Hist []event `json:"hist"`
	Asis []event `json:"asis,omitempty"`
}

// ---------------------------------------------------------------- value table (index -> concrete)

var ackTable = map[string][]uint32{
	"rb": {uacp.DefaultReceiveBufSize, 8192, 1 << 20},
	"sb": {uacp.DefaultSendBufSize, 16384, 131072},
	"mm": {0, 1 << 20, 4 << 20},
	"mc": {0, 2, 4096},
}

var (
	polNames = []string{"None", "Basic256Sha256", "Aes128_Sha256_RsaOaep"}
	modes    = []ua.MessageSecurityMode{ua.MessageSecurityModeNone, ua.MessageSecurityModeSign, ua.MessageSecurityModeSignAndEncrypt}
	modeStr  = []string{"None", "Sign", "SignAndEncrypt"}
	durs     = map[string][]time.Duration{
		"dt":   {opcua.DefaultDialTimeout, time.Second, 3 * time.Second},
		"life": {time.Hour, time.Minute, 10 * time.Minute},
		"rt":   {10 * time.Second, 2 * time.Second, 30 * time.Second},
		"ri":   {5 * time.Second, time.Second, 20 * time.Second},
		"st":   {20 * time.Minute, time.Minute, time.Hour},
	}
	names   = []string{"", "sess-one", "sess-two"}
	locales = [][]string{{"en-us"}, {"de"}, {"fr", "en"}}
	apps    = []string{"urn:gopcua:client", "urn:app:one", "urn:app:two", "urn:verif:2048a", "urn:verif:2048b"}
	prods   = []string{"urn:gopcua", "urn:prod:one", "urn:prod:two"}
	auths   = []string{"", ua.SecurityPolicyURIPrefix + "Basic256", ua.SecurityPolicyURIPrefix + "Basic128Rsa15"}
	certs   = []*keys.Pair{nil, keys.Get("2048a"), keys.Get("2048b")}
	users   = []string{"", "alice", "bob"}
	pws     = []string{"", "pw-alice", "pw-bob"}
	anames  = []string{"gopcua - OPC UA implementation in Go", "app-one", "app-two"}
	issued  = []string{"", "tokdata-one", "tokdata-two"}
	tokKind = []string{"", "anon", "user", "cert"}
)

func certID(b []byte) string {
	if len(b) == 0 {
		return ""
	}
	return fmt.Sprintf("%d:%x", len(b), b[len(b)-8:])
}

func keyID(k any) string {
	for i := 1; i <= 2; i++ {
		if k == any(certs[i].Key) {
			return certs[i].Name
		}
	}
	return "other"
}

// policy id index of the specification -> string
func pidStr(i int) string {
	switch {
	case i == 0:
		return ""
	case i >= 100:
		return fmt.Sprintf("custom-%d", i-100)
	case i/10 >= 1 && i/10 <= 2 && i%10 >= 1 && i%10 <= 3:
		return fmt.Sprintf("ep%d-%s", i/10, tokKind[i%10])
	}
	return fmt.Sprintf("<no policy id %d>", i)
}

// concrete identity token of the specification's (ty, pid, val)
func expTok(t tok) map[string]string {
	r := map[string]string{"ty": t.Ty, "pid": pidStr(t.Pid), "val": ""}
	at := t.Val >= 0 && t.Val <= 2
	switch t.Ty {
	case "none":
		r["pid"] = ""
	case "user":
		if at {
			r["val"] = users[t.Val]
		}
	case "cert":
		if at && t.Val > 0 {
			r["val"] = certID(certs[t.Val].Cert)
		}
	case "issued":
		if at {
			r["val"] = issued[t.Val]
		}
	}
	return r
}

func endpoint(v int) *ua.EndpointDescription {
	var toks []*ua.UserTokenPolicy
	for k, tt := range []ua.UserTokenType{ua.UserTokenTypeAnonymous, ua.UserTokenTypeUserName, ua.UserTokenTypeCertificate} {
		toks = append(toks, &ua.UserTokenPolicy{PolicyID: pidStr(10*v + k + 1), TokenType: tt, SecurityPolicyURI: auths[v]})
	}
	return &ua.EndpointDescription{
		EndpointURL:        "opc.tcp://127.0.0.1:4840",
		SecurityPolicyURI:  ua.SecurityPolicyURIPrefix + polNames[v],
		SecurityMode:       modes[v],
		UserIdentityTokens: toks,
	}
}

// concrete renders the concrete value the table assigns to (field, index) as a comparable string.
func concrete(f string, i int) string {
	bad := fmt.Sprintf("<no value %s[%d]>", f, i)
	at := func(n int) bool { return i >= 0 && i < n }
	switch f {
	case "rb", "sb", "mm", "mc":
		if at(3) {
			return fmt.Sprint(ackTable[f][i])
		}
	case "dt", "life", "rt", "ri", "st":
		if at(3) {
			return durs[f][i].String()
		}
	case "pol":
		if at(3) {
			return ua.SecurityPolicyURIPrefix + polNames[i]
		}
	case "mode":
		if at(3) {
			return modes[i].String()
		}
	case "ar":
		if at(3) {
			return fmt.Sprint(i == 0)
		}
	case "key":
		if at(3) {
			return fmt.Sprint(i != 0)
		}
	case "cert":
		if at(3) {
			if i == 0 {
				return "0"
			}
			return fmt.Sprint(len(certs[i].Cert))
		}
	case "sn":
		if at(3) {
			return names[i]
		}
	case "loc":
		if at(3) {
			return strings.Join(locales[i], ",")
		}
	case "app":
		if at(5) {
			return apps[i]
		}
	case "prod":
		if at(3) {
			return prods[i]
		}
	case "auth":
		if at(3) {
			return auths[i]
		}
	case "pw":
		if at(3) {
			return pws[i]
		}
	case "aname":
		if at(3) {
			return anames[i]
		}
	case "rcert":
		if at(3) {
			if i == 0 {
				return ""
			}
			return certID(certs[i].Cert)
		}
	case "ukey":
		if at(3) {
			if i == 0 {
				return ""
			}
			return certs[i].Name
		}
	}
	return bad
}

func option(o opt) (opcua.Option, error) {
	v := o.V
	if v < 1 || v > 2 {
		return nil, fmt.Errorf("option value index %d", v)
	}
	switch o.O {
	case "ReceiveBufferSize":
		return opcua.ReceiveBufferSize(ackTable["rb"][v]), nil
	case "SendBufferSize":
		return opcua.SendBufferSize(ackTable["sb"][v]), nil
	case "MaxMessageSize":
		return opcua.MaxMessageSize(ackTable["mm"][v]), nil
	case "MaxChunkCount":
		return opcua.MaxChunkCount(ackTable["mc"][v]), nil
	case "DialTimeout":
		return opcua.DialTimeout(durs["dt"][v]), nil
	case "SecurityPolicy":
		return opcua.SecurityPolicy(polNames[v]), nil
	case "SecurityMode":
		return opcua.SecurityMode(modes[v]), nil
	case "SecurityModeString":
		return opcua.SecurityModeString(modeStr[v]), nil
	case "Lifetime":
		return opcua.Lifetime(durs["life"][v]), nil
	case "RequestTimeout":
		return opcua.RequestTimeout(durs["rt"][v]), nil
	case "AutoReconnect":
		return opcua.AutoReconnect(false), nil
	case "ReconnectInterval":
		return opcua.ReconnectInterval(durs["ri"][v]), nil
	case "PrivateKey":
		return opcua.PrivateKey(certs[v].Key), nil
	case "SessionTimeout":
		return opcua.SessionTimeout(durs["st"][v]), nil
	case "SessionName":
		return opcua.SessionName(names[v]), nil
	case "Locales":
		return opcua.Locales(append([]string(nil), locales[v]...)...), nil
	case "ApplicationURI":
		return opcua.ApplicationURI(apps[v]), nil
	case "ProductURI":
		return opcua.ProductURI(prods[v]), nil
	case "Certificate":
		return opcua.Certificate(certs[v].Cert), nil
	case "SecurityFromEndpoint":
		return opcua.SecurityFromEndpoint(endpoint(v), ua.UserTokenTypeAnonymous), nil
	case "SecurityFromEndpointUser":
		return opcua.SecurityFromEndpoint(endpoint(v), ua.UserTokenTypeUserName), nil
	case "SecurityFromEndpointCert":
		return opcua.SecurityFromEndpoint(endpoint(v), ua.UserTokenTypeCertificate), nil
	case "AuthAnonymous":
		return opcua.AuthAnonymous(), nil
	case "AuthUsername":
		return opcua.AuthUsername(users[v], pws[v]), nil
	case "AuthCertificate":
		return opcua.AuthCertificate(certs[v].Cert), nil
	case "AuthIssuedToken":
		return opcua.AuthIssuedToken([]byte(issued[v])), nil
	case "AuthPolicyID":
		return opcua.AuthPolicyID(pidStr(100 + v)), nil
	case "AuthPrivateKey":
		return opcua.AuthPrivateKey(certs[v].Key), nil
	case "ApplicationName":
		return opcua.ApplicationName(anames[v]), nil
	case "RemoteCertificate":
		return opcua.RemoteCertificate(certs[v].Cert), nil
	case "OwnDialer":
		return opcua.Dialer(&uacp.Dialer{
			Dialer: &net.Dialer{Timeout: durs["dt"][v]},
			ClientACK: &uacp.Acknowledge{ReceiveBufSize: ackTable["rb"][v], SendBufSize: ackTable["sb"][v],
				MaxMessageSize: ackTable["mm"][v], MaxChunkCount: ackTable["mc"][v]},
		}), nil
	}
	return nil, fmt.Errorf("unknown option %q", o.O)
}

// ---------------------------------------------------------------- observation (concrete strings per field)

type cview struct {
	Ack map[string]string `json:"ack"`
	Tok map[string]string `json:"tok,omitempty"`
	V   map[string]string `json:"v,omitempty"`
}

// configs reaches the client's session and secure channel configuration (unexported fields of
// opcua.Client / opcua.Config; the types themselves are exported by uasc).
func configs(c *opcua.Client) (*uasc.SessionConfig, *uasc.Config) {
	field := func(v reflect.Value, name string) reflect.Value {
		f := v.Elem().FieldByName(name)
		return reflect.NewAt(f.Type(), unsafe.Pointer(f.UnsafeAddr())).Elem()
	}
	cfg := field(reflect.ValueOf(c), "cfg")
	ss, _ := field(cfg, "session").Interface().(*uasc.SessionConfig)
	sc, _ := field(cfg, "sechan").Interface().(*uasc.Config)
	return ss, sc
}

func obsTok(t any) map[string]string {
	switch x := t.(type) {
	case nil:
		return map[string]string{"ty": "none", "pid": "", "val": ""}
	case *ua.AnonymousIdentityToken:
		return map[string]string{"ty": "anon", "pid": x.PolicyID, "val": ""}
	case *ua.UserNameIdentityToken:
		return map[string]string{"ty": "user", "pid": x.PolicyID, "val": x.UserName}
	case *ua.X509IdentityToken:
		return map[string]string{"ty": "cert", "pid": x.PolicyID, "val": certID(x.CertificateData)}
	case *ua.IssuedIdentityToken:
		return map[string]string{"ty": "issued", "pid": x.PolicyID, "val": string(x.TokenData)}
	}
	return map[string]string{"ty": fmt.Sprintf("%T", t), "pid": "", "val": ""}
}

func ackOf(a uacp.Acknowledge) map[string]string {
	return map[string]string{"rb": fmt.Sprint(a.ReceiveBufSize), "sb": fmt.Sprint(a.SendBufSize),
		"mm": fmt.Sprint(a.MaxMessageSize), "mc": fmt.Sprint(a.MaxChunkCount)}
}

func observe(c *opcua.Client) cview {
	s := opcua.VerifConfig(c)
	ss, sc := configs(c)
	pw, aname, rcert, ukey := "<no session config>", "", "<no channel config>", ""
	var token any
	if ss != nil {
		pw, token = ss.AuthPassword, ss.UserIdentityToken
		if ss.ClientDescription != nil && ss.ClientDescription.ApplicationName != nil {
			aname = ss.ClientDescription.ApplicationName.Text
		}
	}
	if sc != nil {
		rcert = certID(sc.RemoteCertificate)
		if sc.UserKey != nil {
			ukey = keyID(sc.UserKey)
		}
	}
	return cview{Ack: ackOf(s.ClientACK), Tok: obsTok(token), V: map[string]string{
		"pw": pw, "aname": aname, "rcert": rcert, "ukey": ukey,
		"dt": s.DialTimeout.String(), "pol": s.SecurityPolicyURI, "mode": s.SecurityMode.String(),
		"life": (time.Duration(s.Lifetime) * time.Millisecond).String(), "rt": s.RequestTimeout.String(),
		"ar": fmt.Sprint(s.AutoReconnect), "ri": s.ReconnectInterval.String(), "cert": fmt.Sprint(s.CertLen),
		"key": fmt.Sprint(s.HasKey), "st": s.SessionTimeout.String(), "sn": s.SessionName,
		"loc": strings.Join(s.LocaleIDs, ","), "app": s.ApplicationURI, "prod": s.ProductURI, "auth": s.AuthPolicyURI,
	}}
}

func expAck(m map[string]int) map[string]string {
	r := map[string]string{}
	for f, i := range m {
		r[f] = concrete(f, i)
	}
	return r
}

func expView(v view) cview { return cview{Ack: expAck(v.Ack), Tok: expTok(v.Tok), V: expAck(v.V)} }

type obsEvent struct {
	Ev    string            `json:"ev"`
	C     int               `json:"c"`
	Cl    []cview           `json:"cl,omitempty"`
	Def   map[string]string `json:"def,omitempty"`
	Fresh *cview            `json:"fresh,omitempty"`
	Ack   map[string]string `json:"ack,omitempty"`
}

func expEvents(h []event) []obsEvent {
	var out []obsEvent
	for _, e := range h {
		o := obsEvent{Ev: e.Ev, C: e.C}
		if e.Snap != nil {
			for _, v := range e.Snap.Cl {
				o.Cl = append(o.Cl, expView(v))
			}
			o.Def = expAck(e.Snap.Def)
			f := expView(e.Snap.Fresh)
			o.Fresh = &f
		}
		if e.Ack != nil {
			o.Ack = expAck(e.Ack)
		}
		out = append(out, o)
	}
	return out
}

// firstDiff names the first place where the observation differs from an expectation.
func firstDiff(obs, exp []obsEvent) (where, kind, field string) {
	if len(obs) != len(exp) {
		return fmt.Sprintf("%d events observed, %d expected", len(obs), len(exp)), "event-count", ""
	}
	cmp := func(a, b map[string]string) (string, bool) {
		var ks []string
		for k := range b {
			ks = append(ks, k)
		}
		sort.Strings(ks)
		for _, k := range ks {
			if a[k] != b[k] {
				return fmt.Sprintf("%s: observed %q, specification %q", k, a[k], b[k]), true
			}
		}
		return "", false
	}
	for i := range exp {
		o, e := obs[i], exp[i]
		pre := fmt.Sprintf("event %d (%s client %d): ", i+1, e.Ev, e.C)
		if e.Ev == "hello" {
			if d, bad := cmp(o.Ack, e.Ack); bad {
				return pre + "Hello on the wire " + d, "hello-differs", strings.SplitN(d, ":", 2)[0]
			}
			continue
		}
		if len(o.Cl) != len(e.Cl) {
			return pre + "client count", "event-count", ""
		}
		for c := range e.Cl {
			kind := "existing-client-changed"
			if c+1 == e.C {
				kind = "own-configuration-differs"
			}
			if d, bad := cmp(o.Cl[c].Ack, e.Cl[c].Ack); bad {
				return pre + fmt.Sprintf("client %d handshake setting ", c+1) + d, kind, strings.SplitN(d, ":", 2)[0]
			}
			if d, bad := cmp(o.Cl[c].Tok, e.Cl[c].Tok); bad {
				return pre + fmt.Sprintf("client %d user identity token ", c+1) + d, kind, "token-" + strings.SplitN(d, ":", 2)[0]
			}
			if d, bad := cmp(o.Cl[c].V, e.Cl[c].V); bad {
				return pre + fmt.Sprintf("client %d ", c+1) + d, kind, strings.SplitN(d, ":", 2)[0]
			}
		}
		if d, bad := cmp(o.Def, e.Def); bad {
			return pre + "uacp.DefaultClientACK " + d, "package-default-changed", strings.SplitN(d, ":", 2)[0]
		}
		if d, bad := cmp(o.Fresh.Ack, e.Fresh.Ack); bad {
			return pre + "option-less client created afterwards: " + d, "later-client-default-changed", strings.SplitN(d, ":", 2)[0]
		}
		if d, bad := cmp(o.Fresh.Tok, e.Fresh.Tok); bad {
			return pre + "option-less client created afterwards: user identity token " + d, "later-client-default-changed", "token-" + strings.SplitN(d, ":", 2)[0]
		}
		if d, bad := cmp(o.Fresh.V, e.Fresh.V); bad {
			return pre + "option-less client created afterwards: " + d, "later-client-default-changed", strings.SplitN(d, ":", 2)[0]
		}
	}
	return "", "", ""
}

// ---------------------------------------------------------------- Hello capture

type helloSink struct {
	ln  net.Listener
	url string
}

func newSink() (*helloSink, error) {
	ln, err := net.Listen("tcp", "127.0.0.1:0")
	if err != nil {
		return nil, err
	}
	return &helloSink{ln: ln, url: "opc.tcp://" + ln.Addr().String()}, nil
}

// capture lets c dial and returns the Hello it sent.
func (s *helloSink) capture(c *opcua.Client) (map[string]string, error) {
	type res struct {
		h   map[string]string
		err error
	}
	rc := make(chan res, 1)
	go func() {
		s.ln.(*net.TCPListener).SetDeadline(time.Now().Add(10 * time.Second))
		a, err := s.ln.Accept()
		if err != nil {
			rc <- res{nil, err}
			return
		}
		defer a.Close()
		a.SetDeadline(time.Now().Add(10 * time.Second))
		h := make([]byte, 8)
		if _, err := io.ReadFull(a, h); err != nil {
			rc <- res{nil, err}
			return
		}
		if string(h[:4]) != "HELF" {
			rc <- res{nil, fmt.Errorf("first frame is %q", h[:4])}
			return
		}
		n := binary.LittleEndian.Uint32(h[4:])
		if n < 8+20 || n > 1<<16 {
			rc <- res{nil, fmt.Errorf("hello size %d", n)}
			return
		}
		b := make([]byte, n-8)
		if _, err := io.ReadFull(a, b); err != nil {
			rc <- res{nil, err}
			return
		}
		u := func(i int) string { return fmt.Sprint(binary.LittleEndian.Uint32(b[4*i:])) }
		// reply with an ERR frame so that the dial ends at once
		e := make([]byte, 16)
		copy(e, "ERRF")
		binary.LittleEndian.PutUint32(e[4:], 16)
		binary.LittleEndian.PutUint32(e[8:], uint32(ua.StatusBadTCPServerTooBusy))
		a.Write(e)
		rc <- res{map[string]string{"rb": u(1), "sb": u(2), "mm": u(3), "mc": u(4)}, nil}
	}()
	ctx, cancel := context.WithTimeout(context.Background(), 10*time.Second)
	defer cancel()
	derr := c.Dial(ctx)
	r := <-rc
	if r.err != nil {
		return nil, fmt.Errorf("capture: %v (dial: %v)", r.err, derr)
	}
	if derr == nil {
		c.Close(ctx)
	}
	return r.h, nil
}

// ---------------------------------------------------------------- one program

func pristine() {
	*uacp.DefaultClientACK = uacp.Acknowledge{ReceiveBufSize: uacp.DefaultReceiveBufSize, SendBufSize: uacp.DefaultSendBufSize}
}

func isPristine(url string) bool {
	c, err := opcua.NewClient(url)
	if err != nil {
		return false
	}
	o := observe(c)
	e := expView(view{Ack: map[string]int{"rb": 0, "sb": 0, "mm": 0, "mc": 0}, Tok: tok{Ty: "none"}, V: map[string]int{
		"dt": 0, "pol": 0, "mode": 0, "life": 0, "rt": 0, "ar": 0, "ri": 0, "cert": 0, "key": 0,
		"st": 0, "sn": 0, "loc": 0, "app": 0, "prod": 0, "auth": 0, "pw": 0, "aname": 0, "rcert": 0, "ukey": 0}})
	return reflect.DeepEqual(o, e)
}

type outcome struct {
	Status string     `json:"status"`
	Key    string     `json:"key,omitempty"`
	Detail string     `json:"detail,omitempty"`
	Class  string     `json:"class,omitempty"`
	Obs    []obsEvent `json:"obs,omitempty"`
}

func classOf(r row) string {
	var parts []string
	used := map[int]int{}
	for _, os := range r.Prog {
		for _, j := range os {
			used[j]++
		}
	}
	for _, os := range r.Prog {
		var ns []string
		for _, j := range os {
			n := "?"
			if j >= 1 && j <= len(r.Pool) {
				n = r.Pool[j-1].O
			}
			if used[j] > 1 {
				n += "*" // the same option object is applied more than once
			}
			ns = append(ns, n)
		}
		parts = append(parts, strings.Join(ns, "+"))
	}
	return strings.Join(parts, " | ")
}

func runProgram(r row, sink *helloSink) outcome {
	class := classOf(r)
	var clients []*opcua.Client
	var obs []obsEvent
	// every option object of the program is built exactly once
	pool := make([]opcua.Option, len(r.Pool))
	for j, o := range r.Pool {
		f, err := option(o)
		if err != nil {
			return outcome{Status: "inconclusive", Detail: err.Error()}
		}
		pool[j] = f
	}
	for ci, os := range r.Prog {
		var opts []opcua.Option
		for _, j := range os {
			if j < 1 || j > len(pool) {
				return outcome{Status: "inconclusive", Detail: fmt.Sprintf("option object %d of %d", j, len(pool))}
			}
			opts = append(opts, pool[j-1])
		}
		var c *opcua.Client
		var err error
		if p, msg := vfgo.Recover(func() { c, err = opcua.NewClient(sink.url, opts...) }); p {
			return outcome{Status: "violation", Class: class, Key: "newclient-panics", Detail: msg}
		}
		if err != nil {
			return outcome{Status: "inconclusive", Detail: "NewClient: " + err.Error()}
		}
		clients = append(clients, c)
		e := obsEvent{Ev: "new", C: ci + 1, Def: ackOf(*uacp.DefaultClientACK)}
		for _, x := range clients {
			e.Cl = append(e.Cl, observe(x))
		}
		fc, err := opcua.NewClient(sink.url)
		if err != nil {
			return outcome{Status: "inconclusive", Detail: "NewClient(): " + err.Error()}
		}
		fv := observe(fc)
		e.Fresh = &fv
		obs = append(obs, e)
	}
	for ci, c := range clients {
		h, err := sink.capture(c)
		if err != nil {
			return outcome{Status: "inconclusive", Detail: err.Error()}
		}
		obs = append(obs, obsEvent{Ev: "hello", C: ci + 1, Ack: h})
	}
	where, kind, field := firstDiff(obs, expEvents(r.Hist))
	if where == "" {
		return outcome{Status: "ok", Class: class, Obs: obs[len(obs)-1:]}
	}
	if r.Asis != nil {
		if w2, _, _ := firstDiff(obs, expEvents(r.Asis)); w2 == "" {
			// exactly the behaviour of the as-is model: the package default Acknowledge is shared
			return outcome{Status: "violation", Class: class, Key: "default-ack-object-shared-by-clients",
				Detail: "behaves exactly like the model with Dev_SharedDefaultAck; first difference to the contract: " + where}
		}
	}
	key := kind
	if field != "" {
		key += ":" + field
	}
	return outcome{Status: "violation", Class: class, Key: key, Detail: where}
}

func main() {
	vfgo.Init()
	defer vfgo.Flush()
	if *vfgo.ChildFlag == "row" {
		var r row
		if err := json.NewDecoder(os.Stdin).Decode(&r); err != nil {
			fmt.Fprintln(os.Stderr, err)
			os.Exit(4)
		}
		sink, err := newSink()
		if err != nil {
			fmt.Fprintln(os.Stderr, err)
			os.Exit(4)
		}
		json.NewEncoder(os.Stdout).Encode(runProgram(r, sink))
		return
	}
	sink, err := newSink()
	if err != nil {
		vfgo.Fatalf("listen: %v", err)
	}
	tainted, nviol := 0, 0
	for _, r := range vfgo.Cases[row]() {
		small := row{Pool: r.Pool, Prog: r.Prog}
		pristine()
		var out outcome
		if tainted > 40 && nviol > 20 {
			vfgo.Inconclusive(small, "skipped: package state leaks between programs (see the violations already reported); every further program would need its own process")
			continue
		}
		if isPristine(sink.url) {
			out = runProgram(r, sink)
		} else {
			// some state other than uacp.DefaultClientACK leaked from an earlier program:
			// run this one in a fresh process
			tainted++
			b, _ := json.Marshal(r)
			co := vfgo.RunChild("row", b, 60*time.Second)
			if co.Exit != 0 || co.TimedOut || json.Unmarshal(co.Stdout, &out) != nil {
				vfgo.Inconclusive(small, "child: "+co.Stderr)
				continue
			}
		}
		switch out.Status {
		case "ok":
			vfgo.OK(small, out.Class, out.Obs)
		case "violation":
			nviol++
			vfgo.Violation(small, out.Class, out.Key, out.Detail)
		default:
			vfgo.Inconclusive(small, out.Detail)
		}
	}
}
