// Command negotiate runs the scenarios emitted by spec/UacpNegotiation (C06) on a real gopcua
// client channel and a real gopcua server channel (harness/chanpair, policy None) and records
// a wire-level trace that TLC validates against UacpNegotiationTrace:
//
//	cfg    the configured parameters of both sides
//	hello  the Hello frame seen on the wire          ack  the Acknowledge frame
//	send   one message handed to a sender: direction, encoded size, the sizes of the chunks
//	       that appeared on the wire, and whether the send call returned an error
//	recv   what the receiver did with it (ok / error text / nothing)
//
// Scenario = {ccfg, scfg, dir, len}: one request of the given encoded size (dir c2s), or a
// small request answered by a response of the given encoded size (dir s2c).
package main

import (
	"context"
	"encoding/binary"
	"flag"
	"fmt"
	"io"
	"net"
	"reflect"
	"strings"
	"sync"
	"time"
	"unsafe"

	"github.com/gopcua/opcua/ua"
	"github.com/gopcua/opcua/uacp"
	"github.com/gopcua/opcua/uasc"

	"verifharness/chanpair"
	"verifharness/vfgo"
)

type cfg struct {
	Rb uint32 `json:"rb"`
	Sb uint32 `json:"sb"`
	Mm uint32 `json:"mm"`
	Mc uint32 `json:"mc"`
}

type scenario struct {
	ID   int    `json:"id"`
	Ccfg cfg    `json:"ccfg"`
	Scfg cfg    `json:"scfg"`
	Dir  string `json:"dir"`
	Len  int    `json:"len"`
	// Decoy: after this connection's handshake a second connection is made from the same
	// dialer parameters (same Acknowledge object, as an application with one Dialer would)
	// to a server with other parameters; connections are independent, so the trace of this
	// connection must not change.
	Decoy bool `json:"decoy,omitempty"`
	// SDecoy: the server-side twin: after this connection's handshake another client with the
	// smallest buffers (8192/8192) connects to the SAME uacp.Listener.
	SDecoy bool `json:"sdecoy,omitempty"`
	// Policy / Mode of the secure channel (default None): the chunk sizes on the wire are those
	// actually written under signing / encryption.
	Policy string `json:"policy,omitempty"`
	Mode   string `json:"mode,omitempty"`
	// Aborts: before the message under test, messages in the same direction are given up after
	// Aborts[i] intermediate chunks and aborted (MSGA); policy None only (the proxy turns a chunk
	// of a real message into the abort chunk).
	Aborts []int `json:"aborts,omitempty"`
}

type event map[string]any

var workers = flag.Int("workers", 8, "parallel scenarios")

func ackOf(c cfg) *uacp.Acknowledge {
	return &uacp.Acknowledge{ReceiveBufSize: c.Rb, SendBufSize: c.Sb, MaxMessageSize: c.Mm, MaxChunkCount: c.Mc}
}

// encoded size of a message body as the receiver's MaxMessageSize check sees it
func encLenUnused(v any) (int, error) {
	typeID := ua.ServiceTypeID(v)
	if typeID == 0 {
		return 0, fmt.Errorf("no type id for %T", v)
	}
	id, err := ua.Encode(ua.NewFourByteExpandedNodeID(0, typeID))
	if err != nil {
		return 0, err
	}
	b, err := ua.Encode(v)
	if err != nil {
		return 0, err
	}
	return len(id) + len(b), nil
}

func request(pad int) *ua.ReadRequest {
	r := chanpair.ReadReq(0, 2258)
	r.NodesToRead[0].NodeID = ua.NewStringNodeID(1, strings.Repeat("p", pad))
	return r
}

func response(handle uint32, pad int) *ua.ReadResponse {
	return &ua.ReadResponse{
		ResponseHeader: chanpair.RespHeader(handle, ua.StatusOK),
		Results:        []*ua.DataValue{{EncodingMask: ua.DataValueValue, Value: ua.MustVariant(make([]byte, pad))}},
	}
}

// serverDecoy lets a second client (Hello 8192/8192) complete the Hello/Acknowledge exchange with
// the listener of the pair (Pair.ln is not exported; chanpair is a shared file).
func serverDecoy(p *chanpair.Pair) (func(), error) {
	f := reflect.ValueOf(p).Elem().FieldByName("ln")
	ln, _ := reflect.NewAt(f.Type(), unsafe.Pointer(f.UnsafeAddr())).Elem().Interface().(*uacp.Listener)
	if ln == nil {
		return nil, fmt.Errorf("no listener in the pair")
	}
	ctx, cancel := context.WithTimeout(context.Background(), 10*time.Second)
	type res struct {
		c *uacp.Conn
		e error
	}
	rc := make(chan res, 1)
	go func() { c, e := ln.Accept(ctx); rc <- res{c, e} }()
	cl, err := net.Dial("tcp", ln.Addr().String())
	if err != nil {
		cancel()
		return nil, err
	}
	hel := &uacp.Hello{ReceiveBufSize: 8192, SendBufSize: 8192, EndpointURL: ln.Endpoint()}
	body, _ := hel.Encode()
	h := make([]byte, 8)
	copy(h, "HELF")
	binary.LittleEndian.PutUint32(h[4:], uint32(8+len(body)))
	cl.SetDeadline(time.Now().Add(10 * time.Second))
	if _, err := cl.Write(append(h, body...)); err != nil {
		cl.Close()
		cancel()
		return nil, err
	}
	ackb := make([]byte, 28)
	if _, err := io.ReadFull(cl, ackb); err != nil {
		cl.Close()
		cancel()
		return nil, fmt.Errorf("no Acknowledge for the decoy: %v", err)
	}
	r := <-rc
	cancel()
	if r.e != nil {
		cl.Close()
		return nil, r.e
	}
	return func() { cl.Close(); r.c.Close() }, nil
}

func swapBuf(b uint32) uint32 {
	if b <= 16384 {
		return 65535
	}
	return 8192
}

// base sizes (encoded message size with no padding), measured on the wire once (calibrate)
var baseReq, baseResp int

func bodyLen(chunks []int) int {
	n := 0
	for _, c := range chunks {
		n += c - 24
	}
	return n
}

func decodeCfg(b []byte) event {
	u := func(i int) uint32 { return binary.LittleEndian.Uint32(b[8+4*i:]) }
	return event{"rb": u(1), "sb": u(2), "mm": u(3), "mc": u(4)}
}

func run(sc scenario) (trace []event, err error) {
	var mu sync.Mutex
	chunks := map[string][]int{}
	var hello, ack event
	// abort plan (policy None): in direction abortDir the message with the next new request id is
	// cut after abortAfter intermediate chunks: chunk abortAfter+1 becomes the abort chunk (same
	// channel id, token, sequence number and request id), the rest of that message is dropped.
	abortDir, abortAfter := "", 0
	abortReq, abortSeen, aborting := uint32(0), 0, false
	abortedChunks := 0
	dropReq := map[string]bool{} // direction+request id of aborted messages: later chunks are dropped
	tap := func(f chanpair.Frame) [][]byte {
		mu.Lock()
		defer mu.Unlock()
		switch f.Type() {
		case "HEL":
			hello = decodeCfg(f.Data)
		case "ACK":
			ack = decodeCfg(f.Data)
		case "MSG", "OPN":
			if f.Type() == "MSG" && len(f.Data) >= 24 && dropReq[fmt.Sprint(f.Dir, binary.LittleEndian.Uint32(f.Data[20:]))] {
				return nil // rest of an aborted message
			}
			if f.Type() == "MSG" && f.Dir == abortDir && len(f.Data) >= 24 {
				req := binary.LittleEndian.Uint32(f.Data[20:])
				if !aborting && f.Kind() == 'C' {
					aborting, abortReq, abortSeen = true, req, 0
				}
				if aborting && req == abortReq {
					if abortSeen < abortAfter {
						abortSeen++
						abortedChunks++
						return chanpair.Pass(f)
					}
					if abortSeen == abortAfter {
						abortSeen++
						ab := &uasc.MessageAbort{ErrorCode: uint32(ua.StatusBadRequestTooLarge), Reason: "given up"}
						body, _ := ab.Encode()
						out := append(append([]byte{}, f.Data[:24]...), body...)
						out[3] = 'A'
						binary.LittleEndian.PutUint32(out[4:], uint32(len(out)))
						// the plan is carried out; whatever the sender still writes for this
						// request id (it may also stop: its call is cancelled) is dropped
						dropReq[fmt.Sprint(f.Dir, req)] = true
						abortDir, aborting = "", false
						return [][]byte{out}
					}
				}
			}
			chunks[f.Dir+f.Type()] = append(chunks[f.Dir+f.Type()], len(f.Data))
		}
		return chanpair.Pass(f)
	}
	planAbort := func(dir string, after int) {
		mu.Lock()
		abortDir, abortAfter, aborting, abortedChunks = dir, after, false, 0
		mu.Unlock()
	}
	abortDone := func() (bool, int) {
		mu.Lock()
		defer mu.Unlock()
		return abortDir == "", abortedChunks
	}
	cack := ackOf(sc.Ccfg)
	p, err := chanpair.Open(chanpair.Opts{ClientACK: cack, ServerACK: ackOf(sc.Scfg), Tap: tap,
		Policy: sc.Policy, Mode: sc.Mode, RequestTimeout: 10 * time.Second, NoOpen: true})
	if err != nil {
		return nil, fmt.Errorf("pair: %w", err)
	}
	defer p.Close()
	trace = append(trace, event{"ev": "cfg", "id": sc.ID, "c": sc.Ccfg, "s": sc.Scfg, "sec": sc.Policy + "/" + sc.Mode})
	mu.Lock()
	if hello == nil || ack == nil {
		mu.Unlock()
		return nil, fmt.Errorf("handshake frames not seen")
	}
	h, a := event{"ev": "hello"}, event{"ev": "ack"}
	for k, v := range hello {
		h[k] = v
	}
	for k, v := range ack {
		a[k] = v
	}
	mu.Unlock()
	trace = append(trace, h, a)

	snapshot := func(key string) []int {
		// chunks travel through the proxy asynchronously: wait until the count is stable
		last, stable := -1, 0
		for i := 0; i < 200 && stable < 3; i++ {
			time.Sleep(5 * time.Millisecond)
			mu.Lock()
			n := len(chunks[key])
			mu.Unlock()
			if n == last {
				stable++
			} else {
				stable, last = 0, n
			}
		}
		mu.Lock()
		defer mu.Unlock()
		return append([]int{}, chunks[key]...)
	}
	short := func(e error) string {
		if e == nil {
			return "ok"
		}
		s := e.Error()
		switch {
		case strings.Contains(s, "message too large"):
			if strings.Contains(s, "uacp:") {
				return "chunk-too-large"
			}
			return "message-too-large"
		case strings.Contains(s, "too many chunks"):
			return "too-many-chunks"
		}
		if len(s) > 80 {
			s = s[:80]
		}
		return "error: " + s
	}
	serverErr := func(wait time.Duration) error {
		select {
		case m := <-p.ServerMsgs:
			return m.Err
		case <-time.After(wait):
			return nil
		}
	}

	if sc.Decoy {
		o := sc.Scfg
		o.Rb, o.Sb = swapBuf(o.Rb), swapBuf(o.Sb)
		o.Mm, o.Mc = 1<<21, 512
		d, err := chanpair.Open(chanpair.Opts{ClientACK: cack, ServerACK: ackOf(o), NoOpen: true})
		if err != nil {
			return nil, fmt.Errorf("decoy pair: %w", err)
		}
		defer d.Close()
	}

	if sc.SDecoy {
		closeDecoy, err := serverDecoy(p)
		if err != nil {
			return nil, fmt.Errorf("server decoy: %w", err)
		}
		defer closeDecoy()
	}

	// next server-side event: an error of the receive path or a ReadRequest (the server loop also
	// reports the OpenSecureChannel exchange, which is skipped)
	next := func(wait time.Duration) *uasc.MessageBody {
		dl := time.After(wait)
		for {
			select {
			case m := <-p.ServerMsgs:
				if m.Err != nil {
					return m
				}
				if _, ok := m.Request().(*ua.ReadRequest); ok {
					return m
				}
			case <-dl:
				return nil
			}
		}
	}

	// OpenSecureChannel is the first message pair on the connection
	octx, ocancel := context.WithTimeout(context.Background(), 3*time.Second)
	odone := make(chan error, 1)
	go func() { odone <- p.Client.Open(octx) }()
	var oerr, srvErr error
	select {
	case oerr = <-odone:
	case m := <-p.ServerMsgs: // the server's receive path reports first: an error ends the exchange
		if m.Err != nil {
			srvErr = m.Err
			oerr = m.Err
		} else {
			oerr = <-odone
		}
	}
	ocancel()
	if oerr != nil {
		up := snapshot("c2sOPN")
		down := snapshot("s2cOPN")
		if len(up) == 0 {
			return nil, fmt.Errorf("open failed before anything was sent: %v", oerr)
		}
		trace = append(trace, event{"ev": "send", "dir": "c2s", "kind": "opn", "len": bodyLen(up), "chunks": up, "err": "ok"})
		if len(down) == 0 {
			res := "nothing"
			if srvErr != nil {
				res = short(srvErr)
			} else if e := serverErr(500 * time.Millisecond); e != nil {
				res = short(e)
			}
			trace = append(trace, event{"ev": "recv", "dir": "c2s", "res": res})
			return trace, nil
		}
		trace = append(trace, event{"ev": "recv", "dir": "c2s", "res": "ok"})
		trace = append(trace, event{"ev": "send", "dir": "s2c", "kind": "opn", "len": bodyLen(down), "chunks": down, "err": "ok"})
		res := short(oerr)
		select {
		case e := <-p.CErr:
			if e != nil {
				res = short(e)
			}
		case <-time.After(200 * time.Millisecond):
		}
		trace = append(trace, event{"ev": "recv", "dir": "s2c", "res": res})
		return trace, nil
	}
	if sc.Dir == "open" {
		return trace, nil
	}

	// messages given up after some intermediate chunks, in the direction of the message under test
	for _, j := range sc.Aborts {
		big := (j+1)*65600 + 1000
		planAbort(sc.Dir, j)
		actx, acancel := context.WithTimeout(context.Background(), 6*time.Second)
		adone := make(chan error, 1)
		if sc.Dir == "c2s" {
			go func() {
				adone <- p.Client.SendRequest(actx, request(big), nil, func(ua.Response) error { return nil })
			}()
			m := next(6 * time.Second)
			acancel()
			<-adone
			if m == nil || m.Err == nil {
				return nil, fmt.Errorf("aborted request: the server channel reported %v", m)
			}
		} else {
			go func() {
				adone <- p.Client.SendRequest(actx, request(0), nil, func(ua.Response) error { return nil })
			}()
			m := next(6 * time.Second)
			if m == nil || m.Err != nil {
				acancel()
				<-adone
				return nil, fmt.Errorf("helper request for an aborted response: %v", m)
			}
			rctx, rcancel := context.WithTimeout(context.Background(), 6*time.Second)
			p.Server.SendResponseWithContext(rctx, m.RequestID, response(1, big))
			rcancel()
			e := <-adone // the abort reaches the caller as the error of its request
			acancel()
			if e == nil {
				return nil, fmt.Errorf("aborted response was delivered")
			}
		}
		// the sender may still be writing the rest of the aborted message through the proxy
		done, n := abortDone()
		for t0 := time.Now(); !done && time.Since(t0) < 5*time.Second; done, n = abortDone() {
			time.Sleep(2 * time.Millisecond)
		}
		if !done || n != j {
			return nil, fmt.Errorf("abort plan not carried out: done=%v, %d of %d intermediate chunks passed", done, n, j)
		}
		trace = append(trace, event{"ev": "abort", "dir": sc.Dir, "n": j})
	}
	if len(sc.Aborts) > 0 {
		time.Sleep(20 * time.Millisecond)
		mu.Lock()
		chunks = map[string][]int{} // helper messages are not part of the trace
		mu.Unlock()
	}

	reqPad, respPad := 100-baseReq, 100-baseResp
	if sc.Dir == "c2s" {
		reqPad = sc.Len - baseReq
	} else {
		respPad = sc.Len - baseResp
	}
	if reqPad < 0 || baseReq == 0 { // baseReq == 0: calibration run
		reqPad = 0
	}
	if respPad < 0 || baseResp == 0 {
		respPad = 0
	}

	// the client sends the request
	type cres struct {
		resp ua.Response
		err  error
	}
	cdone := make(chan cres, 1)
	go func() {
		var got ua.Response
		ctx, cancel := context.WithTimeout(context.Background(), 12*time.Second)
		defer cancel()
		e := p.Client.SendRequest(ctx, request(reqPad), nil, func(r ua.Response) error { got = r; return nil })
		cdone <- cres{got, e}
	}()
	// the server side: wait for the request (or an error of the receive path)
	// (the server loop also reports the OpenSecureChannel exchange: skip everything that is
	// neither an error nor a ReadRequest)
	var sm *uasc.MessageBody
	var early *cres
	got := make(chan *uasc.MessageBody, 1)
	go func() { got <- next(14 * time.Second) }()
	select {
	case sm = <-got:
	case r := <-cdone:
		early = &r
		select {
		case sm = <-got:
		case <-time.After(300 * time.Millisecond):
		}
	}
	c2s := snapshot("c2sMSG")
	sendEv := event{"ev": "send", "dir": "c2s", "kind": "msg", "len": baseReq + reqPad, "chunks": c2s, "err": "ok"}
	if baseReq == 0 {
		sendEv["len"] = bodyLen(c2s) // calibration (policy None)
	}
	if len(c2s) == 0 {
		if early != nil && early.err != nil {
			sendEv["err"] = "refused"
			sendEv["detail"] = early.err.Error()
		} else {
			return nil, fmt.Errorf("request neither on the wire nor refused")
		}
	}
	trace = append(trace, sendEv)
	if len(c2s) == 0 {
		return trace, nil
	}
	recvEv := event{"ev": "recv", "dir": "c2s"}
	switch {
	case sm == nil:
		recvEv["res"] = "nothing"
	case sm.Err != nil:
		recvEv["res"] = short(sm.Err)
	default:
		if _, ok := sm.Request().(*ua.ReadRequest); !ok {
			recvEv["res"] = fmt.Sprintf("error: decoded as %T", sm.Request())
		} else {
			recvEv["res"] = "ok"
		}
	}
	trace = append(trace, recvEv)
	if recvEv["res"] != "ok" {
		return trace, nil
	}

	// the server sends the response
	ctx, cancel := context.WithTimeout(context.Background(), 12*time.Second)
	serr := p.Server.SendResponseWithContext(ctx, sm.RequestID, response(1, respPad))
	cancel()
	var cr cres
	if early != nil {
		cr = *early
	} else {
		select {
		case cr = <-cdone:
		case <-time.After(14 * time.Second):
			cr = cres{nil, fmt.Errorf("client call did not return")}
		}
	}
	s2c := snapshot("s2cMSG")
	sendEv = event{"ev": "send", "dir": "s2c", "kind": "msg", "len": baseResp + respPad, "chunks": s2c, "err": "ok"}
	if baseResp == 0 {
		sendEv["len"] = bodyLen(s2c)
	}
	if len(s2c) == 0 {
		if serr == nil {
			return nil, fmt.Errorf("response neither on the wire nor refused")
		}
		sendEv["err"] = "refused"
		sendEv["detail"] = serr.Error()
	}
	trace = append(trace, sendEv)
	if len(s2c) == 0 {
		return trace, nil
	}
	recvEv = event{"ev": "recv", "dir": "s2c"}
	switch {
	case cr.err != nil:
		recvEv["res"] = short(cr.err)
		// an error of the receive path reaches the application through the channel's error path
		select {
		case e := <-p.CErr:
			if e != nil {
				recvEv["res"] = short(e)
				recvEv["call"] = cr.err.Error()
			}
		case <-time.After(200 * time.Millisecond):
		}
	default:
		if _, ok := cr.resp.(*ua.ReadResponse); ok {
			recvEv["res"] = "ok"
		} else {
			recvEv["res"] = fmt.Sprintf("error: decoded as %T", cr.resp)
		}
	}
	trace = append(trace, recvEv)
	return trace, nil
}

// calibrate measures the encoded size of the unpadded request and response on the wire.
func calibrate() error {
	d := cfg{Rb: 65535, Sb: 65535, Mm: 1 << 21, Mc: 512}
	tr, err := run(scenario{Ccfg: d, Scfg: d, Dir: "s2c", Len: 0})
	if err != nil {
		return err
	}
	for _, e := range tr {
		if e["ev"] == "send" && e["kind"] == "msg" {
			if e["dir"] == "c2s" {
				baseReq = e["len"].(int)
			} else {
				baseResp = e["len"].(int)
			}
		}
	}
	if baseReq <= 0 || baseResp <= 0 {
		return fmt.Errorf("calibration trace incomplete: %v", tr)
	}
	return nil
}

// timedOut reports whether a trace contains a result that is only a time-out of the harness
// or of the library's request timer: such a run is repeated, it is never a verdict.
func timedOut(tr []event) bool {
	for _, e := range tr {
		for _, k := range []string{"res", "detail", "call"} {
			if s, ok := e[k].(string); ok && (strings.Contains(s, "timed out") || strings.Contains(s, "deadline exceeded") ||
				strings.Contains(s, "did not return") || strings.Contains(s, "Timeout") || s == "nothing") {
				return true
			}
		}
	}
	return false
}

func main() {
	vfgo.Init()
	defer vfgo.Flush()
	cases := vfgo.Cases[scenario]()
	var cerr error
	for i := 0; i < 3; i++ {
		if cerr = calibrate(); cerr == nil {
			break
		}
	}
	if cerr != nil {
		vfgo.Fatalf("calibration: %v", cerr)
	}
	ch := make(chan scenario)
	var wg sync.WaitGroup
	for w := 0; w < *workers; w++ {
		wg.Add(1)
		go func() {
			defer wg.Done()
			for sc := range ch {
				var tr []event
				var err error
				for attempt := 0; attempt < 3; attempt++ {
					tr, err = run(sc)
					if err == nil && timedOut(tr) {
						err = fmt.Errorf("timed out: %v", tr[len(tr)-1])
					}
					if err == nil {
						break
					}
				}
				if err != nil {
					vfgo.Inconclusive(sc, err.Error())
					continue
				}
				class := fmt.Sprintf("c=%d/%d/%d/%d s=%d/%d/%d/%d %s", sc.Ccfg.Rb, sc.Ccfg.Sb, sc.Ccfg.Mm, sc.Ccfg.Mc,
					sc.Scfg.Rb, sc.Scfg.Sb, sc.Scfg.Mm, sc.Scfg.Mc, sc.Dir)
				vfgo.Emit(vfgo.Result{Case: sc, Status: "ok", Class: class, Nontrivial: true, Obs: tr})
			}
		}()
	}
	for _, sc := range cases {
		ch <- sc
	}
	close(ch)
	wg.Wait()
}
