package main

import (
	"context"
	"fmt"
	"strings"
	"sync"
	"time"

	"github.com/gopcua/opcua/uasc"

	"verifharness/chanpair"
	"verifharness/vfgo"
)

// ---- behaviours emitted by TLC from spec/ScRecv (InvEmit) -------------------

type Chunk struct {
	ID   int    `json:"id"`
	Seq  int64  `json:"seq"`
	Req  int    `json:"req"`
	Msg  int    `json:"msg"`
	Part int    `json:"part"`
	Kind string `json:"kind"`
	Over bool   `json:"over,omitempty"`
}

type Step struct {
	In     string `json:"in"`
	ID     int    `json:"id"`
	Dmg    string `json:"dmg"`
	Kind   string `json:"kind"`
	Req    int    `json:"req"`
	Seq    int64  `json:"seq"`
	Expect string `json:"expect"` // contract outcome
	Parts  []int  `json:"parts,omitempty"`
	Whole  bool   `json:"whole,omitempty"`
	// as-is outcome (deviation flags of the open findings set), joined by the check script
	Asis      string `json:"asis,omitempty"`
	AsisParts []int  `json:"asis_parts,omitempty"`
	AsisWhole bool   `json:"asis_whole,omitempty"`
}

type PlanMsg struct {
	N   int    `json:"n"`
	Ab  bool   `json:"ab"`
	Cut int    `json:"cut"`
	Sz  string `json:"sz,omitempty"` // small | near | limit | over: body size relative to MaxMessageSize
}

type SeqParam struct {
	First     int64 `json:"first"`
	WrapAfter int64 `json:"wrapAfter"`
	WrapTo    int64 `json:"wrapTo"`
}

type Beh struct {
	N         int       `json:"n"` // case number
	Prop      string    `json:"prop"`
	Policy    string    `json:"policy"`
	Mode      string    `json:"mode"`
	Side      string    `json:"side"`
	Sender    string    `json:"sender"` // "real" | "ref"
	Plan      []PlanMsg `json:"plan"`
	Sp        SeqParam  `json:"sp"`
	Chunks    []Chunk   `json:"chunks"`
	Steps     []Step    `json:"steps"`
	MaxChunks uint32    `json:"maxchunks,omitempty"`
	MaxMsg    uint32    `json:"maxmsg,omitempty"` // MaxMessageSize to negotiate (0: default)
	Salt      int64     `json:"salt,omitempty"`
	SweepRec  struct {
		Kind string `json:"kind"`
		From int    `json:"from"`
	} `json:"sweep"`
	Split        string `json:"split,omitempty"` // how the reference sender cuts bodies: any | even | tinyfirst | tinylast
	Pre          string `json:"pre,omitempty"`   // class of a forged frame sent before the channel is opened ("none")
	Kind         string `json:"kind,omitempty"`  // "flood": only the buffer bound and liveness are judged
	Buffered     int    `json:"buffered"`
	AsisBuffered int    `json:"asis_buffered"`
	Sweep        string `json:"-"` // "byte" | "trunc" | ""
	SweepFrom    int    `json:"-"`
}

func (b *Beh) norm() {
	switch b.SweepRec.Kind {
	case "sweep.byte":
		b.Sweep = "byte"
	case "sweep.trunc":
		b.Sweep = "trunc"
	}
	b.SweepFrom = b.SweepRec.From
}

// want is one expected receiver event; Dig "" = not constrained, Err: "yes" | "no" | "" (either)
type want struct {
	Ev   string
	Seq  uint32
	Req  uint32
	Kind string
	Err  string
	Dig  string
	step int
}

func (w want) String() string {
	if w.Ev == "acc" {
		return fmt.Sprintf("acc(seq=%d,req=%d,%s)", w.Seq, w.Req, w.Kind)
	}
	return fmt.Sprintf("ret(req=%d,err=%s,dig=%s)", w.Req, w.Err, w.Dig)
}

func evString(e Ev) string {
	if e.Ev == "acc" {
		return fmt.Sprintf("acc(seq=%d,req=%d,%s)", e.Seq, e.Req, e.Kind)
	}
	if e.Err != "" {
		return fmt.Sprintf("ret(req=%d,err=%q)", e.Req, trunc(e.Err, 60))
	}
	return fmt.Sprintf("ret(req=%d,dig=%s)", e.Req, e.Dig)
}

func trunc(s string, n int) string {
	if len(s) > n {
		return s[:n]
	}
	return s
}

func matches(w want, e Ev) bool {
	if w.Ev != e.Ev {
		return false
	}
	if w.Ev == "acc" {
		return w.Seq == e.Seq && w.Req == e.Req && w.Kind == e.Kind
	}
	if w.Err == "yes" && e.Err == "" {
		return false
	}
	if w.Err == "no" && e.Err != "" {
		return false
	}
	if w.Err == "no" && w.Req != e.Req {
		return false
	}
	if w.Dig != "" && w.Dig != e.Dig {
		return false
	}
	return true
}

// concrete facts about the base stream, learnt while it is produced
type baseInfo struct {
	seq  map[int]uint32 // chunk id -> sequence number on the wire
	req  map[int]uint32 // chunk id -> request id on the wire
	digs map[int]string // message -> payload digest
}

// expected builds the receiver events the specification demands for the steps
// (asis = false: contract outcomes; true: outcomes of the as-is configuration).
func expected(b *Beh, bi *baseInfo, asis bool) (ws []want, term string, termStep int) {
	for i, st := range b.Steps {
		o, parts, whole := st.Expect, st.Parts, st.Whole
		if asis {
			o, parts, whole = st.Asis, st.AsisParts, st.AsisWhole
		}
		_ = parts
		acc := want{Ev: "acc", Seq: bi.seq[st.ID], Req: bi.req[st.ID], Kind: st.Kind, step: i}
		if st.ID == 0 && o != "reject" && o != "none" && o != "shake" {
			o = "reject" // a frame of the adversary's own is never anything else
		}
		switch o {
		case "none", "":
		case "desync", "panic":
			// nothing after this input is predictable (framing lost) / observable (process gone)
			return ws, o, i
		case "close", "shake":
			ws = append(ws, want{Ev: "ret", Err: "yes", step: i})
			return ws, o, i
		case "reject":
			ws = append(ws, want{Ev: "ret", Err: "yes", step: i})
		case "buffer":
			ws = append(ws, acc)
		case "toomany", "abort", "toobig":
			ws = append(ws, acc, want{Ev: "ret", Err: "yes", step: i})
		case "deliver":
			w := want{Ev: "ret", Req: bi.req[st.ID], step: i}
			if whole {
				w.Err = "no"
				w.Dig = bi.digs[b.Chunks[st.ID-1].Msg]
			}
			ws = append(ws, acc, w)
		}
	}
	return ws, "", -1
}

// contractTerm reports whether the contract outcome of some step ends the predictable part.
func contractTerm(b *Beh) string {
	for _, st := range b.Steps {
		if st.Expect == "desync" || st.Expect == "close" || st.Expect == "shake" {
			return st.Expect
		}
	}
	return ""
}

func compare(ws []want, evs []Ev) (ok bool, at int, detail string) {
	n := len(ws)
	if len(evs) < n {
		n = len(evs)
	}
	for i := 0; i < n; i++ {
		if !matches(ws[i], evs[i]) {
			return false, ws[i].step, fmt.Sprintf("event %d: specification %s, channel %s", i, ws[i], evString(evs[i]))
		}
	}
	if len(evs) > len(ws) {
		st := -1
		if len(ws) > 0 {
			st = ws[len(ws)-1].step
		}
		return false, st, fmt.Sprintf("channel produced %d extra event(s), first %s", len(evs)-len(ws), evString(evs[len(ws)]))
	}
	if len(evs) < len(ws) {
		return false, ws[len(evs)].step, fmt.Sprintf("channel stopped after %d events, specification continues with %s", len(evs), ws[len(evs)])
	}
	return true, -1, ""
}

// ---- running one behaviour on a real channel pair -----------------------------

type emitter struct {
	mu      sync.Mutex
	armed   bool
	dir     string
	base    [][]byte // base frames seen so far (id-1)
	steps   []Step
	next    int // next step to emit
	nplan   int // number of base chunks of the plan
	damage  func(frame []byte, st Step) [][]byte
	emitted int
	pre     func() [][]byte // forged frames to put in front of the handshake's OPN chunk (nil: none)
	preDone bool
	opn     int // OPN chunks seen in the stream's direction since arming
	opnDone int // "renew" steps consumed
}

// onFrame is the Tap: forward everything until armed; then treat frames of the direction
// under test as base chunks and emit what the behaviour's steps say.
func (e *emitter) onFrame(f chanpair.Frame) [][]byte {
	e.mu.Lock()
	defer e.mu.Unlock()
	if !e.armed && e.pre != nil && !e.preDone && f.Dir == e.dir && f.Type() == "OPN" {
		// before the channel is open: the adversary's frame arrives ahead of the handshake's OPN chunk
		e.preDone = true
		return append(e.pre(), f.Data)
	}
	if !e.armed || f.Dir != e.dir {
		return chanpair.Pass(f)
	}
	var out [][]byte
	switch {
	case f.Type() == "OPN":
		// the OPN chunk of a renewal inside the behaviour: forwarded, then the steps behind "renew" are due
		e.opn++
		out = append(out, f.Data)
	case f.Type() != "MSG" || len(e.base) >= e.nplan:
		return chanpair.Pass(f) // fence and everything after the plan
	default:
		e.base = append(e.base, append([]byte(nil), f.Data...))
	}
	k := len(e.base)
loop:
	for e.next < len(e.steps) && e.steps[e.next].ID <= k {
		st := e.steps[e.next]
		switch st.In {
		case "renew":
			if e.opnDone >= e.opn {
				break loop // the renewal has not happened yet: later steps wait for its OPN chunk
			}
			e.opnDone++
		case "drop", "hold":
		case "inject":
			out = append(out, e.damage(nil, st)...)
			e.emitted++
		case "damage":
			out = append(out, e.damage(append([]byte(nil), e.base[st.ID-1]...), st)...)
			e.emitted++
		default: // pass, replay, reorder
			out = append(out, append([]byte(nil), e.base[st.ID-1]...))
			e.emitted++
		}
		e.next++
	}
	return out
}

func (e *emitter) arm() { e.mu.Lock(); e.armed = true; e.mu.Unlock() }

// chunkSizes returns payload sizes so that message m is split into plan[m].N chunks by the real sender.
func payloadSize(n int, maxBody uint32) int {
	return (n-1)*int(maxBody) + int(maxBody)/2
}

// advanceSender moves the real sender's sequence counter so that its next chunk carries target.
// The receiver is walked along with intact filler messages in steps below 2^31, so that every
// number it sees is ahead of the previous one (forward gaps are legal, a jump of 2^31 or more
// would be indistinguishable from an old number).
func (g *rig) advanceSender(target uint32) error {
	for i := 0; i < 4; i++ {
		_, _, cur, _, ok := uasc.VerifActive(g.sendCh)
		if !ok {
			return fmt.Errorf("no active instance")
		}
		d := target - 1 - cur
		if d == 0 {
			return nil
		}
		if d < 0x7fff0000 {
			uasc.VerifSetSequenceNumber(g.sendCh, target-1)
			return nil
		}
		uasc.VerifSetSequenceNumber(g.sendCh, cur+0x7ffe0000)
		fp := payload(fenceTag+uint32(i)+1, 32, vfgo.Seed())
		if err := g.sendReal(fenceTag+uint32(i)+1, fp); err != nil {
			return err
		}
		fd := dig(fp)
		if !g.r.waitFor(func(evs []Ev) bool {
			for _, e := range evs {
				if e.Ev == "ret" && e.Dig == fd {
					return true
				}
			}
			return false
		}, 10*time.Second) {
			return fmt.Errorf("filler message not delivered")
		}
	}
	return fmt.Errorf("could not reach %d", target)
}

type runResult struct {
	status string // ok | violation | inconclusive
	key    string
	detail string
	obs    any
	trace  []any
}

// traceOf renders the inputs and the receiver's events of one behaviour in the model's terms
// (records of spec/ScRecv/ScRecvTrace): model sequence numbers, model request ids, message numbers.
func traceOf(b *Beh, bi *baseInfo, evs []Ev) []any {
	if len(b.Chunks) == 0 || contractTerm(b) != "" {
		return nil
	}
	off := bi.seq[1] - uint32(int32(b.Chunks[0].Seq))
	reqOf := map[uint32]int{}
	for _, c := range b.Chunks {
		reqOf[bi.req[c.ID]] = c.Req
	}
	msgOf := map[string]int{}
	for m, d := range bi.digs {
		msgOf[d] = m
	}
	reqs := []int{}
	for m := range b.Plan {
		reqs = append(reqs, m+1)
	}
	tr := []any{map[string]any{"ev": "reset", "mode": b.Mode, "reqs": reqs}}
	for _, st := range b.Steps {
		if st.In == "renew" {
			tr = append(tr, map[string]any{"ev": "renew", "seq": st.Seq})
			continue
		}
		if st.In == "drop" || st.In == "hold" {
			continue
		}
		c := Chunk{Kind: "X"}
		if st.ID > 0 {
			c = b.Chunks[st.ID-1]
		}
		tr = append(tr, map[string]any{"ev": "in", "via": st.In, "id": c.ID, "dmg": st.Dmg, "seq": c.Seq, "req": c.Req,
			"kind": c.Kind, "msg": c.Msg, "part": c.Part, "over": c.Over})
	}
	for _, e := range evs {
		if e.Ev == "acc" {
			r, ok := reqOf[e.Req]
			if !ok {
				r = -1
			}
			tr = append(tr, map[string]any{"ev": "acc", "seq": int64(int32(e.Seq - off)), "req": r, "kind": e.Kind})
		} else {
			tr = append(tr, map[string]any{"ev": "ret", "err": e.Err != "", "msg": msgOf[e.Dig]})
		}
	}
	return tr
}

const fenceTag = 9999

// runBehReal: base stream by the real gopcua sender, adversary moves by the Tap.
func runBehReal(b *Beh, damage func(g *rig) func([]byte, Step) [][]byte) runResult {
	em := &emitter{steps: b.Steps, nplan: len(b.Chunks), dir: "c2s"}
	if b.Side == "client" {
		em.dir = "s2c"
	}
	if b.Pre != "" && b.Pre != "none" {
		row := &GRow{Side: b.Side, Mode: b.Mode, Policy: b.Policy, Class: b.Pre, Phase: "pre"}
		em.pre = func() [][]byte { return garbageFrames(row, 7, 1, 1, vfgo.Rand(int64(b.N)*17+3)) }
	}
	g, err := openRig(rigOpts{Policy: b.Policy, Mode: b.Mode, Side: b.Side, Tap: em.onFrame, MaxChunks: b.MaxChunks})
	if err != nil {
		if em.pre != nil {
			// C09 demands that the forged frame is not delivered and nothing crashes, not that the
			// handshake survives it
			return runResult{status: "ok", obs: map[string]any{"handshake_after_forged_frame": "failed: " + err.Error()}}
		}
		return runResult{status: "inconclusive", detail: "open: " + err.Error()}
	}
	defer g.close()
	if damage != nil {
		if em.damage = damage(g); em.damage == nil {
			return runResult{status: "inconclusive", detail: "no keys of the sending side"}
		}
	}
	_, _, _, maxBody, ok := uasc.VerifActive(g.sendCh)
	if !ok || maxBody == 0 {
		return runResult{status: "inconclusive", detail: "no active instance on the sender"}
	}
	if b.Sp.First != 2 || b.Sp.WrapAfter != 99999 {
		// the gopcua sender wraps after 2^32-1024 to 1; other wrap shapes need the reference sender
		if b.Sp.WrapAfter != 99999 && (b.Sp.WrapAfter != -1024 || b.Sp.WrapTo != 1) {
			return runResult{status: "inconclusive", detail: "wrap shape not producible by the gopcua sender"}
		}
		// start the sender so that its first chunk carries sp.first
		if err := g.advanceSender(uint32(int32(b.Sp.First))); err != nil {
			return runResult{status: "inconclusive", detail: "advance: " + err.Error()}
		}
	}
	// the handshake's own events (OPN chunk accepted, Receive returned) come first
	if !g.r.waitFor(func(evs []Ev) bool {
		for _, e := range evs {
			if e.Ev == "ret" {
				return true
			}
		}
		return false
	}, 10*time.Second) {
		return runResult{status: "inconclusive", detail: "no handshake events on the receiver"}
	}
	n0 := len(g.s.sentSnapshot())
	r0 := len(g.r.snapshot())
	em.arm()
	bi := &baseInfo{seq: map[int]uint32{}, req: map[int]uint32{}, digs: map[int]string{}}
	// Sequence numbers of the base stream: the sender's counter is read before and after every
	// message (the chunk.write hook's number is unusable in SignAndEncrypt: it reads the buffer
	// after encryption); the chunks of a message carry the numbers in between (+1, gopcua's wrap).
	_, _, cur, _, _ := uasc.VerifActive(g.sendCh)
	id := 0
	lastMsg := b.Chunks[len(b.Chunks)-1].Msg // a behaviour that ends early (framing lost, closed) needs no more
	renewAfter := -1                         // number of chunks on the wire when the token is renewed
	for _, st := range b.Steps {
		if st.In == "renew" {
			renewAfter = st.ID
		}
	}
	for m, pm := range b.Plan {
		if m+1 > lastMsg {
			break
		}
		if renewAfter == id && renewAfter >= 0 {
			srvRec := g.r // recorder of the server channel
			if g.side == "client" {
				srvRec = g.s
			}
			ends0 := srvRec.opnEnds.Load()
			rctx, rcancel := context.WithTimeout(context.Background(), 20*time.Second)
			err := g.p.Client.Renew(rctx)
			rcancel()
			if err != nil {
				return runResult{status: "inconclusive", detail: "renew: " + err.Error()}
			}
			// the server installs the new keys after it has written the OPN response: wait for this
			// server channel's srv.opn.end event
			for i := 0; i < 10000 && srvRec.opnEnds.Load() == ends0; i++ {
				time.Sleep(time.Millisecond)
			}
			if srvRec.opnEnds.Load() == ends0 {
				return runResult{status: "inconclusive", detail: "server did not finish the renewal"}
			}
			_, _, cur, _, _ = uasc.VerifActive(g.sendCh)
			renewAfter = -1
		}
		if pm.Ab || pm.Cut != pm.N {
			return runResult{status: "inconclusive", detail: "plan needs the reference sender"}
		}
		psz := payloadSize(pm.N, maxBody)
		if b.Sweep != "" {
			psz = 16 // a small chunk: every byte position and every length is visited
		}
		p := payload(uint32(m+1), psz, vfgo.Seed()+b.Salt)
		bi.digs[m+1] = dig(p)
		if err := g.sendReal(uint32(m+1), p); err != nil {
			return runResult{status: "inconclusive", detail: "send: " + err.Error()}
		}
		_, _, after, _, _ := uasc.VerifActive(g.sendCh)
		for k := 0; k < pm.N; k++ {
			cur++
			if cur > 0xffffffff-1023 {
				cur = 1
			}
			id++
			bi.seq[id] = cur
		}
		if cur != after {
			return runResult{status: "inconclusive", detail: fmt.Sprintf("message %d: sender counter is %d after the message, plan says %d chunks ending at %d", m+1, after, pm.N, cur)}
		}
	}
	sent := g.s.sentSnapshot()[n0:]
	if len(sent) < len(b.Chunks) || (contractTerm(b) == "" && len(sent) != len(b.Chunks)) {
		return runResult{status: "inconclusive", detail: fmt.Sprintf("sender wrote %d chunks, plan has %d", len(sent), len(b.Chunks))}
	}
	first := bi.seq[1]
	for i, c := range b.Chunks {
		bi.req[c.ID] = sent[i].Req
		// the model's numbers are the wire's numbers (shifted by a constant when the stream does not wrap)
		if bi.seq[c.ID]-first != uint32(int32(c.Seq-b.Chunks[0].Seq)) {
			return runResult{status: "inconclusive", detail: fmt.Sprintf("sender numbering differs from the stream of the behaviour at chunk %d: wire %d", c.ID, bi.seq[c.ID])}
		}
		if b.Mode != "SignAndEncrypt" && sent[i].Seq != bi.seq[c.ID] {
			return runResult{status: "inconclusive", detail: fmt.Sprintf("chunk.write reports %d for chunk %d, counter says %d", sent[i].Seq, c.ID, bi.seq[c.ID])}
		}
	}
	// fence: one more message; when the receiver has returned for it everything before has been processed
	fp := payload(fenceTag, 64, vfgo.Seed())
	if err := g.sendReal(fenceTag, fp); err != nil {
		return runResult{status: "inconclusive", detail: "fence send: " + err.Error()}
	}
	fd := dig(fp)
	fwait := 15 * time.Second
	if contractTerm(b) != "" {
		// the receiver may have closed or lost framing: no fence is expected; wait (generously) for the
		// events the specification demands up to that point, then a moment for anything beyond
		wcT, _, _ := expected(b, bi, false)
		g.r.waitFor(func(evs []Ev) bool { return len(dropOPN(evs[r0:])) >= len(wcT) }, 20*time.Second)
		fwait = 1500 * time.Millisecond
	}
	fenced := g.r.waitFor(func(evs []Ev) bool {
		for _, e := range evs {
			if e.Ev == "ret" && (e.Dig == fd || e.EOF) {
				return true
			}
		}
		return false
	}, fwait)
	evs := dropOPN(g.r.snapshot()[r0:])
	// cut at the fence
	var body []Ev
	sawFence := false
	for i, e := range evs {
		if e.Ev == "ret" && e.Dig == fd {
			body = evs[:i]
			if i > 0 && evs[i-1].Ev == "acc" { // the fence chunk's own acc event
				body = evs[:i-1]
			}
			sawFence = true
			break
		}
	}
	if !sawFence {
		body = evs
	}
	return judge(b, bi, body, sawFence, fenced)
}

// dropOPN removes the receiver's events for OPN chunks (a renewal inside a behaviour): the accept
// event of the OPN chunk and the Receive return that belongs to it.
func dropOPN(evs []Ev) []Ev {
	var out []Ev
	skipRet := false
	for _, e := range evs {
		if e.Ev == "acc" && e.Typ == "OPN" {
			skipRet = true
			continue
		}
		if e.Ev == "ret" && skipRet {
			skipRet = false
			continue
		}
		out = append(out, e)
	}
	return out
}

func shape(st Step) string {
	via := st.In
	if via == "damage" {
		via = st.Dmg
	}
	return via + "-" + st.Kind
}

// judge compares the receiver's events with the contract; on a difference with the as-is
// outcomes; the key names the move, the chunk kind and what the channel did instead.
func judge(b *Beh, bi *baseInfo, evs []Ev, sawFence, fenced bool) runResult {
	rr := judge0(b, bi, evs, sawFence, fenced)
	if sawFence {
		rr.trace = traceOf(b, bi, evs)
	}
	return rr
}

func judge0(b *Beh, bi *baseInfo, evs []Ev, sawFence, fenced bool) runResult {
	obs := map[string]any{"events": evStrings(evs), "fence": sawFence}
	wc, term, termStep := expected(b, bi, false)
	if term != "" {
		// only the events up to the terminal input are specified; afterwards the damaged chunk
		// must still never be accepted
		head := evs
		if len(head) > len(wc) {
			head = evs[:len(wc)]
		}
		okc, at, detail := compare(wc, head)
		if okc && len(evs) >= len(wc) {
			// what must never be accepted afterwards: the chunk that lost its framing and every chunk the
			// adversary damages or forges later; and nothing that is not a chunk of the stream at all
			forbidden := map[uint32]int{}
			if term == "desync" {
				forbidden[bi.seq[b.Steps[termStep].ID]] = termStep
			}
			for i := termStep + 1; i < len(b.Steps); i++ {
				if b.Steps[i].In == "damage" {
					forbidden[bi.seq[b.Steps[i].ID]] = i
				}
			}
			lo, hi := bi.seq[1], bi.seq[len(b.Chunks)]+2
			for _, e := range evs[len(wc):] {
				if e.Ev != "acc" || e.Typ == "OPN" {
					continue
				}
				if i, bad := forbidden[e.Seq]; bad {
					okc, at, detail = false, i, fmt.Sprintf("a chunk the adversary %s was accepted: %s", map[bool]string{true: "left without framing", false: "damaged or forged"}[i == termStep], evString(e))
				} else if int32(e.Seq-lo) < 0 || int32(hi-e.Seq) < 0 {
					okc, at, detail = false, termStep, "a chunk that is not part of the peer's stream was accepted: "+evString(e)
				}
			}
			if okc {
				return runResult{status: "ok", obs: obs}
			}
		}
		st := b.Steps[termStep]
		if at >= 0 && at < len(b.Steps) {
			st = b.Steps[at]
		}
		return runResult{status: "violation", key: strings.ToLower(b.Prop) + ":unexpected:" + shape(st),
			detail: fmt.Sprintf("at step %d (%s chunk %d): %s; events %v", at, st.In, st.ID, detail, evStrings(evs)), obs: obs}
	}
	okc, at, detail := compare(wc, evs)
	if okc && sawFence {
		return runResult{status: "ok", obs: obs}
	}
	if okc && !sawFence {
		return runResult{status: "violation", key: strings.ToLower(b.Prop) + ":receiver-dead-after-stream",
			detail: "all events as specified but a following intact message was not delivered within 15 s", obs: obs}
	}
	hasAsis := false
	for _, st := range b.Steps {
		if st.Asis != "" {
			hasAsis = true
		}
	}
	st := Step{In: "end", Kind: "-"}
	if at >= 0 && at < len(b.Steps) {
		st = b.Steps[at]
	}
	if hasAsis {
		wa, _, _ := expected(b, bi, true)
		if oka, _, _ := compare(wa, evs); oka && sawFence {
			// first step where contract and as-is outcome differ names the finding
			for _, s := range b.Steps {
				if s.Asis != s.Expect || fmt.Sprint(s.AsisParts) != fmt.Sprint(s.Parts) {
					what := s.Asis
					if s.Asis == s.Expect {
						// same outcome, different merge: name the chunk the merge lost
						what = "merge-differs"
						for _, id := range s.Parts {
							found := false
							for _, id2 := range s.AsisParts {
								found = found || id == id2
							}
							if !found {
								what = fmt.Sprintf("merge-drops-part%d-seq%d", b.Chunks[id-1].Part, b.Chunks[id-1].Seq)
								break
							}
						}
					}
					return runResult{status: "violation", key: strings.ToLower(b.Prop) + ":" + shape(s) + "-" + what,
						detail: fmt.Sprintf("step %q of chunk %d (seq %d): specification says %s, the channel did %s; %s", s.In, s.ID, s.Seq, s.Expect, s.Asis, detail), obs: obs}
				}
			}
		}
	}
	return runResult{status: "violation", key: strings.ToLower(b.Prop) + ":unexpected:" + shape(st),
		detail: fmt.Sprintf("at step %d (%s chunk %d): %s; events %v", at, st.In, st.ID, detail, evStrings(evs)), obs: obs}
}

func evStrings(evs []Ev) []string {
	r := make([]string, len(evs))
	for i, e := range evs {
		r[i] = evString(e)
	}
	return r
}
