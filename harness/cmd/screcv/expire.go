package main

import (
	"context"
	"crypto/sha1"
	"fmt"
	"net"
	"sync"
	"time"

	"github.com/gopcua/opcua/uacp"

	"github.com/gopcua/opcua/ua"
	"github.com/gopcua/opcua/uasc"

	"verifharness/keys"
	"verifharness/vfgo"
)

// ---- C17: behaviours of spec/ScRecv/ScExpire on a real client channel ------------------

type EStep struct {
	Act     string `json:"act"` // renew | expire | inject
	T       int    `json:"t"`
	Now     int    `json:"now"`
	Overdue bool   `json:"overdue"`
	Active  bool   `json:"active"`
	Expect  string `json:"expect"`
	Asis    string `json:"asis"`
	Life    int    `json:"life"` // lifetime (ticks) of the token issued / injected
}

type ECase struct {
	N      int     `json:"n"`
	Prop   string  `json:"prop"`
	Policy string  `json:"policy"`
	Mode   string  `json:"mode"`
	Side   string  `json:"side"`
	Life1  int     `json:"life1"` // lifetime (ticks) of the first token
	Steps  []EStep `json:"steps"`
}

const (
	expTick  = 250 * time.Millisecond
	expSlack = 500 * time.Millisecond
	expExtra = 4 * time.Second // additional wait for the expiry timer on a loaded machine
)

// expiry hook events per client channel
var expRuns sync.Map // *uasc.SecureChannel -> *expLog

type expLog struct {
	mu   sync.Mutex
	runs map[uint32]bool
}

func noteExpireRun(s *uasc.SecureChannel, tok uint32) {
	if v, ok := expRuns.Load(s); ok {
		l := v.(*expLog)
		l.mu.Lock()
		l.runs[tok] = true
		l.mu.Unlock()
	}
}

// ownPair is a client channel built by the harness itself (its Config stays in the harness's hands:
// the requested lifetime is changed from renewal to renewal, gopcua's server code revises a token's
// lifetime to exactly what was requested) and the server end of the connection, on which one server
// channel object per token answers the OPN exchanges and the injected chunks are written.
type ownPair struct {
	client *uasc.SecureChannel
	cfg    *uasc.Config
	cconn  *uacp.Conn
	sconn  *uacp.Conn
	ln     *uacp.Listener
	r      *rec
	cancel context.CancelFunc
	ctx    context.Context
}

func (p *ownPair) close() {
	reg.Delete(p.client)
	p.cancel()
	go p.client.Close()
	p.cconn.Close()
	p.sconn.Close()
	p.ln.Close()
}

func openOwnPair(policy, mode string, lifetimeMs uint32) (*ownPair, error) {
	l, err := net.Listen("tcp", "127.0.0.1:0")
	if err != nil {
		return nil, err
	}
	port := l.Addr().(*net.TCPAddr).Port
	l.Close()
	ep := fmt.Sprintf("opc.tcp://127.0.0.1:%d", port)
	ctx, cancel := context.WithCancel(context.Background())
	ack := &uacp.Acknowledge{ReceiveBufSize: 16384, SendBufSize: 8192, MaxChunkCount: 512, MaxMessageSize: 2 << 20}
	ln, err := uacp.Listen(ctx, ep, ack)
	if err != nil {
		cancel()
		return nil, fmt.Errorf("listen: %w", err)
	}
	type acc struct {
		c   *uacp.Conn
		err error
	}
	ach := make(chan acc, 1)
	go func() { c, err := ln.Accept(ctx); ach <- acc{c, err} }()
	dctx, dcancel := context.WithTimeout(ctx, 10*time.Second)
	cconn, err := (&uacp.Dialer{Dialer: &net.Dialer{Timeout: 5 * time.Second}}).Dial(dctx, ep)
	dcancel()
	if err != nil {
		cancel()
		ln.Close()
		return nil, fmt.Errorf("dial: %w", err)
	}
	var a acc
	select {
	case a = <-ach:
	case <-time.After(10 * time.Second):
		a.err = fmt.Errorf("accept timed out")
	}
	if a.err != nil {
		cancel()
		cconn.Close()
		ln.Close()
		return nil, fmt.Errorf("accept: %w", a.err)
	}
	ck, sk := keys.Get("2048a"), keys.Get("2048b")
	th := sha1.Sum(sk.Cert)
	cfg := &uasc.Config{SecurityPolicyURI: ua.FormatSecurityPolicyURI(policy), SecurityMode: chanpairMode(mode),
		Certificate: ck.Cert, LocalKey: ck.Key, RemoteCertificate: sk.Cert, Thumbprint: th[:],
		Lifetime: lifetimeMs, RequestTimeout: 600 * time.Millisecond}
	cl, err := uasc.NewSecureChannel(ep, cconn, cfg, make(chan error, 64))
	if err != nil {
		cancel()
		cconn.Close()
		a.c.Close()
		ln.Close()
		return nil, err
	}
	p := &ownPair{client: cl, cfg: cfg, cconn: cconn, sconn: a.c, ln: ln, r: newRec(), cancel: cancel, ctx: ctx}
	p.r.isRecv, p.r.viaDisp = true, true
	reg.Store(cl, p.r)
	return p, nil
}

// drain discards frames the client sent that nobody answered (OPN requests of its own renewal timers).
func (p *ownPair) drain() {
	for {
		p.sconn.SetReadDeadline(time.Now().Add(30 * time.Millisecond))
		if _, err := p.sconn.Receive(); err != nil {
			break
		}
	}
	p.sconn.SetReadDeadline(time.Time{})
}

// runExpire drives one behaviour in real time: model time t happens at start + t*expTick.  Every
// token gets the lifetime the behaviour names (life ticks = life x 250 ms: 2 s, 5 s, 100 s), set as
// the requested lifetime before the OPN exchange; every exchange is answered by a fresh server
// channel object with the next token id.
func runExpire(c *ECase) runResult {
	if c.Side == "server" {
		return runExpireServer(c)
	}
	ms := func(ticks int) uint32 { return uint32(time.Duration(ticks) * expTick / time.Millisecond) }
	g, err := openOwnPair(c.Policy, c.Mode, ms(c.Life1))
	if err != nil {
		return runResult{status: "inconclusive", detail: "open: " + err.Error()}
	}
	defer g.close()
	el := &expLog{runs: map[uint32]bool{}}
	expRuns.Store(g.client, el)
	defer expRuns.Delete(g.client)
	sk := keys.Get("2048b")
	chanID, tok1 := uint32(7), uint32(1)
	seq := uint32(100)
	servers := map[int]*uasc.SecureChannel{}
	tokID := map[int]uint32{}
	exchange := func(t int, renew bool) error {
		scfg := &uasc.Config{SecurityPolicyURI: ua.SecurityPolicyURINone, SecurityMode: ua.MessageSecurityModeNone,
			Lifetime: 3600000, RequestTimeout: 20 * time.Second, Certificate: sk.Cert, LocalKey: sk.Key}
		id := tok1 + uint32(t) - 1
		seq += 10
		srv, err := uasc.NewServerSecureChannel("opc.tcp://127.0.0.1:0", g.sconn, scfg, make(chan error, 16), chanID, seq, id)
		if err != nil {
			return err
		}
		servers[t], tokID[t] = srv, id
		done := make(chan error, 1)
		go func() { m := srv.Receive(g.ctx); done <- m.Err }()
		// the harness's own exchanges get a generous time-out; the client's own renewal timers, which nobody
		// answers here, shall give up quickly (the Config is read when an exchange starts)
		g.cfg.RequestTimeout = 20 * time.Second
		defer func() { g.cfg.RequestTimeout = 600 * time.Millisecond }()
		octx, ocancel := context.WithTimeout(g.ctx, 25*time.Second)
		if renew {
			err = g.client.Renew(octx)
		} else {
			err = g.client.Open(octx)
		}
		ocancel()
		if err != nil {
			select {
			case e := <-done:
				return fmt.Errorf("%v (server side: %v)", err, e)
			case <-time.After(200 * time.Millisecond):
				return fmt.Errorf("%v (server side still waiting for the request)", err)
			}
		}
		select {
		case e := <-done:
			if e != nil {
				return fmt.Errorf("server side: %v", e)
			}
		case <-time.After(10 * time.Second):
			return fmt.Errorf("server side did not return")
		}
		if _, _, s2, _, ok := uasc.VerifActive(srv); ok && s2 > seq {
			seq = s2
		}
		return nil
	}
	if err := exchange(1, false); err != nil {
		return runResult{status: "inconclusive", detail: "open: " + err.Error()}
	}
	start := time.Now()
	at := func(tick int, extra time.Duration) {
		if d := time.Until(start.Add(time.Duration(tick)*expTick + extra)); d > 0 {
			time.Sleep(d)
		}
	}
	var log []string
	for i, st := range c.Steps {
		switch st.Act {
		case "renew":
			at(st.Now, 20*time.Millisecond)
			g.drain()
			g.cfg.Lifetime = ms(st.Life)
			if err := exchange(st.T, true); err != nil {
				return runResult{status: "inconclusive", detail: fmt.Sprintf("renew at t=%d: %v; %v", st.Now, err, log)}
			}
			toks, _ := uasc.VerifTokens(g.client)
			log = append(log, fmt.Sprintf("t=%d renew -> token %d (lifetime %d ms); client stores %v", st.Now, tokID[st.T], ms(st.Life), toks[chanID]))
		case "expire":
			// the channel's own timers and clean-up; nothing to do (see inject)
		case "inject":
			at(st.Now, expSlack)
			if st.Overdue {
				// ordering by the expiry's own event, not by the wall clock alone: wait (bounded) for expire.run of that token
				deadline := time.Now().Add(expExtra)
				for time.Now().Before(deadline) {
					el.mu.Lock()
					ran := el.runs[tokID[st.T]]
					el.mu.Unlock()
					if ran {
						break
					}
					time.Sleep(10 * time.Millisecond)
				}
			}
			algo := uasc.VerifInstanceAlgo(servers[st.T], chanID, tokID[st.T])
			if algo == nil {
				return runResult{status: "inconclusive", detail: fmt.Sprintf("no keys of token %d", tokID[st.T])}
			}
			rs := &refSender{mode: c.Mode, algo: algo, chanID: chanID, tokID: tokID[st.T]}
			seq += 3
			p := payload(uint32(100+i), 80, vfgo.Seed())
			body, _ := encodeBody("client", uint32(100+i), p)
			fr, err := rs.chunk('F', seq, uint32(3000+i), body)
			if err != nil {
				return runResult{status: "inconclusive", detail: "chunk: " + err.Error()}
			}
			r0 := len(g.r.snapshot())
			g.sconn.SetWriteDeadline(time.Now().Add(5 * time.Second))
			_, werr := g.sconn.Write(fr)
			g.sconn.SetWriteDeadline(time.Time{}) // the server channel objects write on this connection later
			if werr != nil {
				return runResult{status: "inconclusive", detail: "write: " + werr.Error()}
			}
			if !g.r.waitFor(func(evs []Ev) bool { return hasRet(evs[r0:]) }, 10*time.Second) {
				return runResult{status: "violation", key: "c17:receiver-silent", detail: fmt.Sprintf("no reaction to an injected chunk (step %d); %v", i, log)}
			}
			evs := g.r.snapshot()[r0:]
			got := "reject"
			for _, e := range evs {
				if e.Ev == "ret" && e.Err == "" && e.Dig == dig(p) {
					got = "accept"
				}
			}
			toks, _ := uasc.VerifTokens(g.client)
			log = append(log, fmt.Sprintf("t=%d (+%v) inject token %d (lifetime %d ms, overdue=%v): %s, specification %s; client stores %v; %v",
				st.Now, time.Since(start).Round(10*time.Millisecond), tokID[st.T], ms(st.Life), st.Overdue, got, st.Expect, toks[chanID], evStrings(evs)))
			obs := map[string]any{"log": log}
			switch {
			case st.Active && got != "accept":
				// the keys of the newest token must work, otherwise the forged chunks prove nothing
				return runResult{status: "inconclusive", detail: fmt.Sprintf("a chunk protected with the active token was refused: %v", log)}
			case st.Overdue && got == "accept":
				// the store tells why: the token is still kept, or it is gone and its keys work nevertheless
				key := "c17:removed-token-keys-still-accepted"
				for _, id := range toks[chanID] {
					if id == tokID[st.T] {
						key = "c17:superseded-token-never-removed"
					}
				}
				return runResult{status: "violation", key: key, obs: obs,
					detail: fmt.Sprintf("a chunk protected with token %d was accepted although the token was replaced and created + 1.25 x lifetime (%d ms) has passed: %v", tokID[st.T], ms(st.Life)*5/4, log)}
			}
			// not overdue, not active: whether an early chunk of a replaced token is still accepted is C16's
			// question; recorded only
		}
	}
	return runResult{status: "ok", obs: map[string]any{"log": log}}
}

// A server channel keeps a single instance and re-keys it on renewal: old keys are gone at once.
func runExpireServer(c *ECase) runResult {
	g, err := openRig(rigOpts{Policy: c.Policy, Mode: c.Mode, Side: "server", Lifetime: 20000})
	if err != nil {
		return runResult{status: "inconclusive", detail: "open: " + err.Error()}
	}
	defer g.close()
	if !g.r.waitFor(func(evs []Ev) bool { return hasRet(evs) }, 10*time.Second) {
		return runResult{status: "inconclusive", detail: "no handshake events"}
	}
	chanID, tok, _, _, _ := uasc.VerifActive(g.p.Client)
	old := uasc.VerifInstanceAlgo(g.p.Client, chanID, tok)
	rctx, rcancel := context.WithTimeout(context.Background(), 20*time.Second)
	err = g.p.Client.Renew(rctx)
	rcancel()
	if err != nil {
		return runResult{status: "inconclusive", detail: "renew: " + err.Error()}
	}
	_, _, cseq, _, _ := uasc.VerifActive(g.p.Client)
	var log []string
	for i, when := range []time.Duration{0, 3 * time.Second} {
		time.Sleep(when)
		rs := &refSender{mode: c.Mode, algo: old, chanID: chanID, tokID: tok}
		p := payload(uint32(200+i), 80, vfgo.Seed())
		body, _ := encodeBody("server", uint32(200+i), p)
		fr, _ := rs.chunk('F', cseq+5+uint32(i), uint32(3000+i), body)
		r0 := len(g.r.snapshot())
		g.p.CConn.Write(fr)
		g.r.waitFor(func(evs []Ev) bool { return hasRet(evs[r0:]) }, 10*time.Second)
		evs := g.r.snapshot()[r0:]
		log = append(log, fmt.Sprintf("old keys after renewal +%v: %v", when, evStrings(evs)))
		_ = p // recorded only: the token's lifetime has not elapsed, C17 does not judge this
	}
	return runResult{status: "ok", obs: map[string]any{"log": log}}
}
