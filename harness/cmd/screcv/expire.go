package main

import (
	"context"
	"fmt"
	"sync"
	"time"

	"github.com/gopcua/opcua/ua"
	"github.com/gopcua/opcua/uasc"

	"verifharness/keys"
	"verifharness/vfgo"
)

// ---- C17: behaviours of spec/ScRecv/ScExpire on a real client channel ------------------

type EStep struct {
	Act     string `json:"act"` // renew | expire | inject
	T       int    `json:"t"`
	Now     int    `json:"now"`
	Overdue bool   `json:"overdue"`
	Active  bool   `json:"active"`
	Expect  string `json:"expect"`
	Asis    string `json:"asis"`
}

type ECase struct {
	N        int     `json:"n"`
	Prop     string  `json:"prop"`
	Policy   string  `json:"policy"`
	Mode     string  `json:"mode"`
	Side     string  `json:"side"`
	Lifetime int     `json:"lifetime"` // ticks
	Steps    []EStep `json:"steps"`
}

const (
	expTick     = 400 * time.Millisecond
	expLifetime = 20 * time.Second // real token lifetime (no automatic renewal before 15 s)
	expSlack    = 500 * time.Millisecond
	expExtra    = 4 * time.Second // additional wait for the expiry timer on a loaded machine
)

// expiry hook events per client channel
var expRuns sync.Map // *uasc.SecureChannel -> *expLog

type expLog struct {
	mu   sync.Mutex
	runs map[uint32]bool
}

func noteExpireRun(s *uasc.SecureChannel, tok uint32) {
	if v, ok := expRuns.Load(s); ok {
		l := v.(*expLog)
		l.mu.Lock()
		l.runs[tok] = true
		l.mu.Unlock()
	}
}

// runExpire drives one behaviour: model time t happens at start + t*expTick.  The token
// lifetime is 20 s; the server's clock (which stamps CreatedAt) runs behind by
// 1.25*20 s - (Lifetime+Lifetime/4)*tick, so that the client's expiry timers fall where the
// model says.  Every renewal is answered by a fresh server channel object with the next token id.
func runExpire(c *ECase) runResult {
	if c.Side == "server" {
		return runExpireServer(c)
	}
	dueTicks := c.Lifetime + c.Lifetime/4
	skew := expLifetime*5/4 - time.Duration(dueTicks)*expTick
	g, err := openRig(rigOpts{Policy: c.Policy, Mode: c.Mode, Side: "client", NoOpen: true, NoLoop: true, Lifetime: uint32(expLifetime / time.Millisecond)})
	if err != nil {
		return runResult{status: "inconclusive", detail: "open: " + err.Error()}
	}
	defer g.close()
	el := &expLog{runs: map[uint32]bool{}}
	expRuns.Store(g.p.Client, el)
	defer expRuns.Delete(g.p.Client)
	ctx, cancel := context.WithCancel(context.Background())
	defer cancel()
	clock := func() time.Time { return time.Now().Add(-skew) }
	servers := map[int]*uasc.SecureChannel{1: g.p.Server}
	uasc.VerifSetTime(g.p.Server, clock)
	serve := func(s *uasc.SecureChannel) chan error {
		done := make(chan error, 1)
		go func() { m := s.Receive(ctx); done <- m.Err }()
		return done
	}
	d1 := serve(g.p.Server)
	octx, ocancel := context.WithTimeout(ctx, 20*time.Second)
	err = g.p.Client.Open(octx)
	ocancel()
	if err != nil {
		return runResult{status: "inconclusive", detail: "open: " + err.Error()}
	}
	start := time.Now()
	select {
	case e := <-d1:
		if e != nil {
			return runResult{status: "inconclusive", detail: "server OPN handling: " + e.Error()}
		}
	case <-time.After(10 * time.Second):
		return runResult{status: "inconclusive", detail: "server OPN handling did not return"}
	}
	chanID, tok1, sseq, _, ok := uasc.VerifActive(g.p.Server)
	if !ok {
		return runResult{status: "inconclusive", detail: "server has no instance"}
	}
	tokID := map[int]uint32{1: tok1}
	seq := sseq
	at := func(tick int, extra time.Duration) {
		if d := time.Until(start.Add(time.Duration(tick)*expTick + extra)); d > 0 {
			time.Sleep(d)
		}
	}
	var log []string
	sk := keys.Get("2048b")
	for i, st := range c.Steps {
		switch st.Act {
		case "renew":
			at(st.Now, 50*time.Millisecond)
			seq += 10
			cfg := &uasc.Config{SecurityPolicyURI: ua.SecurityPolicyURINone, SecurityMode: ua.MessageSecurityModeNone,
				Lifetime: uint32(expLifetime / time.Millisecond), RequestTimeout: 20 * time.Second, Certificate: sk.Cert, LocalKey: sk.Key}
			id := tok1 + uint32(st.T) - 1
			s2, err := uasc.NewServerSecureChannel("opc.tcp://127.0.0.1:0", g.p.SConn, cfg, make(chan error, 16), chanID, seq, id)
			if err != nil {
				return runResult{status: "inconclusive", detail: "server channel for renewal: " + err.Error()}
			}
			uasc.VerifSetTime(s2, clock)
			servers[st.T], tokID[st.T] = s2, id
			d := serve(s2)
			rctx, rcancel := context.WithTimeout(ctx, 20*time.Second)
			err = g.p.Client.Renew(rctx)
			rcancel()
			if err != nil {
				return runResult{status: "inconclusive", detail: "renew: " + err.Error()}
			}
			select {
			case e := <-d:
				if e != nil {
					return runResult{status: "inconclusive", detail: "server renew handling: " + e.Error()}
				}
			case <-time.After(10 * time.Second):
				return runResult{status: "inconclusive", detail: "server renew handling did not return"}
			}
			_, _, s2seq, _, _ := uasc.VerifActive(s2)
			if s2seq > seq {
				seq = s2seq
			}
			toks, _ := uasc.VerifTokens(g.p.Client)
			log = append(log, fmt.Sprintf("t=%d renew -> token %d; client stores %v", st.Now, id, toks[chanID]))
		case "expire":
			// the channel's own timer; nothing to do (see inject)
		case "inject":
			at(st.Now, expSlack)
			if st.Overdue {
				// ordering by the expiry's own event, not by the wall clock: wait (bounded) for expire.run of that token
				deadline := time.Now().Add(expExtra)
				for time.Now().Before(deadline) {
					el.mu.Lock()
					ran := el.runs[tokID[st.T]]
					el.mu.Unlock()
					if ran {
						break
					}
					time.Sleep(10 * time.Millisecond)
				}
			}
			srv := servers[st.T]
			algo := uasc.VerifInstanceAlgo(srv, chanID, tokID[st.T])
			if algo == nil {
				return runResult{status: "inconclusive", detail: fmt.Sprintf("no keys of token %d", tokID[st.T])}
			}
			rs := &refSender{mode: c.Mode, algo: algo, chanID: chanID, tokID: tokID[st.T]}
			seq += 3
			p := payload(uint32(100+i), 80, vfgo.Seed())
			body, _ := encodeBody("client", uint32(100+i), p)
			fr, err := rs.chunk('F', seq, uint32(3000+i), body)
			if err != nil {
				return runResult{status: "inconclusive", detail: "chunk: " + err.Error()}
			}
			r0 := len(g.r.snapshot())
			g.p.SConn.SetWriteDeadline(time.Now().Add(5 * time.Second))
			if _, err := g.p.SConn.Write(fr); err != nil {
				return runResult{status: "inconclusive", detail: "write: " + err.Error()}
			}
			if !g.r.waitFor(func(evs []Ev) bool { return hasRet(evs[r0:]) }, 10*time.Second) {
				return runResult{status: "violation", key: "c17:receiver-silent", detail: fmt.Sprintf("no reaction to an injected chunk (step %d)", i)}
			}
			evs := g.r.snapshot()[r0:]
			got := "reject"
			for _, e := range evs {
				if e.Ev == "ret" && e.Err == "" && e.Dig == dig(p) {
					got = "accept"
				}
			}
			toks, _ := uasc.VerifTokens(g.p.Client)
			log = append(log, fmt.Sprintf("t=%d inject token %d (overdue=%v): %s, specification %s; client stores %v; %v", st.Now, tokID[st.T], st.Overdue, got, st.Expect, toks[chanID], evStrings(evs)))
			obs := map[string]any{"log": log}
			switch {
			case st.Active && got != "accept":
				// the keys of the newest token must work, otherwise the forged chunks prove nothing
				return runResult{status: "inconclusive", detail: fmt.Sprintf("a chunk protected with the active token was refused: %v", log)}
			case st.Overdue && got == "accept":
				// the store tells why: the token is still kept, or it is gone and its keys work nevertheless
				key := "c17:removed-token-keys-still-accepted"
				for _, id := range toks[chanID] {
					if id == tokID[st.T] {
						key = "c17:superseded-token-never-removed"
					}
				}
				return runResult{status: "violation", key: key, obs: obs,
					detail: fmt.Sprintf("a chunk protected with token %d was accepted although the token was replaced and created+1.25*lifetime has passed (model time %d, due %d): %v", tokID[st.T], st.Now, dueTicks, log)}
			}
			// not overdue, not active: whether an early chunk of a superseded token is still accepted is C16's
			// question; recorded only
		}
	}
	return runResult{status: "ok", obs: map[string]any{"log": log}}
}

// A server channel keeps a single instance and re-keys it on renewal: old keys are gone at once.
func runExpireServer(c *ECase) runResult {
	g, err := openRig(rigOpts{Policy: c.Policy, Mode: c.Mode, Side: "server", Lifetime: uint32(expLifetime / time.Millisecond)})
	if err != nil {
		return runResult{status: "inconclusive", detail: "open: " + err.Error()}
	}
	defer g.close()
	if !g.r.waitFor(func(evs []Ev) bool { return hasRet(evs) }, 10*time.Second) {
		return runResult{status: "inconclusive", detail: "no handshake events"}
	}
	chanID, tok, _, _, _ := uasc.VerifActive(g.p.Client)
	old := uasc.VerifInstanceAlgo(g.p.Client, chanID, tok)
	rctx, rcancel := context.WithTimeout(context.Background(), 20*time.Second)
	err = g.p.Client.Renew(rctx)
	rcancel()
	if err != nil {
		return runResult{status: "inconclusive", detail: "renew: " + err.Error()}
	}
	_, _, cseq, _, _ := uasc.VerifActive(g.p.Client)
	var log []string
	for i, when := range []time.Duration{0, 3 * time.Second} {
		time.Sleep(when)
		rs := &refSender{mode: c.Mode, algo: old, chanID: chanID, tokID: tok}
		p := payload(uint32(200+i), 80, vfgo.Seed())
		body, _ := encodeBody("server", uint32(200+i), p)
		fr, _ := rs.chunk('F', cseq+5+uint32(i), uint32(3000+i), body)
		r0 := len(g.r.snapshot())
		g.p.CConn.Write(fr)
		g.r.waitFor(func(evs []Ev) bool { return hasRet(evs[r0:]) }, 10*time.Second)
		evs := g.r.snapshot()[r0:]
		log = append(log, fmt.Sprintf("old keys after renewal +%v: %v", when, evStrings(evs)))
		_ = p // recorded only: the token's lifetime has not elapsed, C17 does not judge this
	}
	return runResult{status: "ok", obs: map[string]any{"log": log}}
}
