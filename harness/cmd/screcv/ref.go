package main

import (
	"encoding/binary"
	"fmt"
	"math/rand"
	"time"

	"github.com/gopcua/opcua/ua"
	"github.com/gopcua/opcua/uapolicy"
	"github.com/gopcua/opcua/uasc"

	"verifharness/vfgo"
)

// refSender is the reference chunk writer of C12/C17: it lays out MSG chunks itself (Part 6
// 6.7.2: message header, symmetric security header, sequence header, body, padding, signature)
// and protects them with the keys of the peer of the receiving channel (the sending side's
// algorithm object: signs/encrypts with the keys the receiver verifies/decrypts with).
// It does not use gopcua's chunker, sequence counter or signAndEncrypt.
type refSender struct {
	mode   string
	algo   *uapolicy.EncryptionAlgorithm
	chanID uint32
	tokID  uint32
	write  func([]byte) error
}

func newRefSender(g *rig, mode string) (*refSender, error) {
	chanID, tokID, _, _, ok := uasc.VerifActive(g.recvCh)
	if !ok {
		return nil, fmt.Errorf("receiver has no active instance")
	}
	r := &refSender{mode: mode, chanID: chanID, tokID: tokID}
	if mode != "None" {
		r.algo = uasc.VerifInstanceAlgo(g.sendCh, chanID, tokID)
		if r.algo == nil {
			return nil, fmt.Errorf("no keys for channel %d token %d on the sending side", chanID, tokID)
		}
	}
	conn := g.p.CConn
	if g.side == "client" {
		conn = g.p.SConn
	}
	r.write = func(b []byte) error {
		conn.SetWriteDeadline(time.Now().Add(10 * time.Second))
		_, err := conn.Write(b)
		return err
	}
	return r, nil
}

// chunk builds one secured MSG chunk.
func (r *refSender) chunk(kind byte, seq, req uint32, body []byte) ([]byte, error) {
	b := make([]byte, 24, 24+len(body)+64)
	copy(b, "MSG")
	b[3] = kind
	binary.LittleEndian.PutUint32(b[8:], r.chanID)
	binary.LittleEndian.PutUint32(b[12:], r.tokID)
	binary.LittleEndian.PutUint32(b[16:], seq)
	binary.LittleEndian.PutUint32(b[20:], req)
	b = append(b, body...)
	switch r.mode {
	case "None":
		binary.LittleEndian.PutUint32(b[4:], uint32(len(b)))
		return b, nil
	case "Sign":
		sl := r.algo.SignatureLength()
		binary.LittleEndian.PutUint32(b[4:], uint32(len(b)+sl))
		sig, err := r.algo.Signature(b)
		if err != nil {
			return nil, err
		}
		if len(sig) != sl {
			return nil, fmt.Errorf("signature length %d, policy says %d", len(sig), sl)
		}
		return append(b, sig...), nil
	case "SignAndEncrypt":
		sl := r.algo.SignatureLength()
		bs := r.algo.PlaintextBlockSize()
		n := 8 + len(body) + 1 + sl
		pad := (bs - n%bs) % bs
		for i := 0; i <= pad; i++ {
			b = append(b, byte(pad))
		}
		binary.LittleEndian.PutUint32(b[4:], uint32(len(b)+sl)) // symmetric: cipher text as long as the plain text
		sig, err := r.algo.Signature(b)
		if err != nil {
			return nil, err
		}
		b = append(b, sig...)
		if (len(b)-16)%bs != 0 {
			return nil, fmt.Errorf("plain text %d not block aligned", len(b)-16)
		}
		c, err := r.algo.Encrypt(append([]byte(nil), b[16:]...))
		if err != nil {
			return nil, err
		}
		if len(c) != len(b)-16 {
			return nil, fmt.Errorf("cipher text %d, plain text %d", len(c), len(b)-16)
		}
		return append(b[:16:16], c...), nil
	}
	return nil, fmt.Errorf("mode %q", r.mode)
}

// encodeBody returns the encoded message body (type id + service) of a payload message for the
// receiving side: a request for a server channel, a response for a client channel.
func encodeBody(side string, handle uint32, p []byte) ([]byte, error) {
	var svc any
	if side == "server" {
		req := mkReq(p)
		req.RequestHeader = &ua.RequestHeader{
			AuthenticationToken: ua.NewTwoByteNodeID(0),
			Timestamp:           time.Now(),
			RequestHandle:       handle,
			AdditionalHeader:    ua.NewExtensionObject(nil),
		}
		svc = req
	} else {
		svc = mkResp(handle, p)
	}
	tid, err := ua.Encode(ua.NewFourByteExpandedNodeID(0, ua.ServiceTypeID(svc)))
	if err != nil {
		return nil, err
	}
	body, err := ua.Encode(svc)
	if err != nil {
		return nil, err
	}
	return append(tid, body...), nil
}

// split cuts b into n non-empty parts: at seeded positions ("any"), evenly, or with a first /
// last part of 1-2 bytes next to parts that are as large as the others allow.
const maxPart = 16000 // receive buffer of the rigs (16384) minus headers, padding and signature

func split(b []byte, n int, rnd *rand.Rand, shape string) [][]byte {
	if n <= 1 || len(b) < n {
		return [][]byte{b}
	}
	var sizes []int
	switch shape {
	case "even":
		for i := 0; i < n; i++ {
			sizes = append(sizes, len(b)/n)
		}
	case "tinyfirst", "tinylast":
		tiny := 1 + rnd.Intn(2)
		rest := len(b) - tiny
		if n == 2 {
			sizes = []int{tiny, rest}
		} else {
			// middle parts full, the part at the other end short
			short := 1 + rnd.Intn(8)
			if rest-short < n-2 {
				short = 1
			}
			full := (rest - short) / (n - 2)
			sizes = append(sizes, tiny)
			for i := 0; i < n-2; i++ {
				sizes = append(sizes, full)
			}
			sizes = append(sizes, short)
		}
		if shape == "tinylast" {
			for i, j := 0, len(sizes)-1; i < j; i, j = i+1, j-1 {
				sizes[i], sizes[j] = sizes[j], sizes[i]
			}
		}
	default:
		cuts := map[int]bool{}
		for len(cuts) < n-1 {
			cuts[1+rnd.Intn(len(b)-1)] = true
		}
		last := 0
		for i := 1; i <= len(b); i++ {
			if cuts[i] || i == len(b) {
				sizes = append(sizes, i-last)
				last = i
			}
		}
	}
	// a conforming sender keeps every chunk within the receiver's buffer: cut evenly when the shape
	// would need a larger part
	for _, sz := range sizes {
		if sz > maxPart && shape != "even" {
			return split(b, n, rnd, "even")
		}
	}
	// whatever is left over goes to the largest part
	sum, big := 0, 0
	for i, sz := range sizes {
		sum += sz
		if sz > sizes[big] {
			big = i
		}
	}
	sizes[big] += len(b) - sum
	var parts [][]byte
	off := 0
	for _, sz := range sizes {
		parts = append(parts, b[off:off+sz])
		off += sz
	}
	return parts
}

// runBehRef: the base stream is written by the reference sender exactly as the behaviour's
// chunk list says (interleaving, numbering across the wrap, aborts); no adversary.
func runBehRef(b *Beh) runResult {
	first := uint32(int32(b.Sp.First))
	off := uint32(0)
	o := rigOpts{Policy: b.Policy, Mode: b.Mode, Side: b.Side, MaxChunks: b.MaxChunks, MaxMsgSize: b.MaxMsg}
	if b.Side == "client" && b.Sp.First == 2 {
		// the server's OPN response carries 101; the stream continues with the next number
		off = 100
	}
	g, err := openRig(o)
	if err != nil {
		return runResult{status: "inconclusive", detail: "open: " + err.Error()}
	}
	defer g.close()
	if !g.r.waitFor(func(evs []Ev) bool {
		for _, e := range evs {
			if e.Ev == "ret" {
				return true
			}
		}
		return false
	}, 10*time.Second) {
		return runResult{status: "inconclusive", detail: "no handshake events on the receiver"}
	}
	if b.Sp.First != 2 {
		// the OPN carried a small number: walk the receiver up to the start of the stream with intact
		// filler messages of the real sender (forward gaps below 2^31)
		if err := g.advanceSender(first); err != nil {
			return runResult{status: "inconclusive", detail: "advance: " + err.Error()}
		}
	}
	rs, err := newRefSender(g, b.Mode)
	if err != nil {
		return runResult{status: "inconclusive", detail: err.Error()}
	}
	r0 := len(g.r.snapshot())
	rnd := vfgo.Rand(int64(b.N)*31 + b.Salt)
	bi := &baseInfo{seq: map[int]uint32{}, req: map[int]uint32{}, digs: map[int]string{}}
	parts := map[int][][]byte{}
	for m, pm := range b.Plan {
		psz := 40 + rnd.Intn(3000)
		if b.Split == "tinyfirst" || b.Split == "tinylast" {
			psz = 3000 + rnd.Intn(9000) // large parts next to the tiny one
		}
		p := payload(uint32(m+1), psz, vfgo.Seed()+b.Salt)
		body, err := encodeBody(b.Side, 500+uint32(m), p)
		if err != nil {
			return runResult{status: "inconclusive", detail: "encode: " + err.Error()}
		}
		if pm.Sz != "" && pm.Sz != "small" {
			// a body of exactly the size the plan names, relative to the negotiated MaxMessageSize
			limit := int(b.MaxMsg)
			if limit == 0 {
				return runResult{status: "inconclusive", detail: "size class without a negotiated MaxMessageSize"}
			}
			target := map[string]int{"near": limit * 9 / 10, "limit": limit, "over": limit + 1}[pm.Sz]
			p = payload(uint32(m+1), psz+target-len(body), vfgo.Seed()+b.Salt)
			if body, err = encodeBody(b.Side, 500+uint32(m), p); err != nil || len(body) != target {
				return runResult{status: "inconclusive", detail: fmt.Sprintf("could not build a body of %d bytes (got %d, %v)", target, len(body), err)}
			}
		}
		bi.digs[m+1] = dig(p)
		nb := pm.N
		if pm.Ab {
			nb = pm.N - 1
		}
		if nb > 0 {
			parts[m+1] = split(body, nb, rnd, b.Split)
		}
	}
	for _, c := range b.Chunks {
		seq := uint32(int32(c.Seq)) + off
		req := 500 + uint32(c.Req)
		bi.seq[c.ID], bi.req[c.ID] = seq, req
		var body []byte
		if c.Kind == "A" {
			ab := &uasc.MessageAbort{ErrorCode: uint32(ua.StatusBadRequestTooLarge), Reason: "aborted by the reference sender"}
			body, _ = ab.Encode()
		} else {
			body = parts[c.Msg][c.Part-1]
		}
		frame, err := rs.chunk(c.Kind[0], seq, req, body)
		if err != nil {
			return runResult{status: "inconclusive", detail: "reference chunk: " + err.Error()}
		}
		if err := rs.write(frame); err != nil {
			return runResult{status: "inconclusive", detail: "write: " + err.Error()}
		}
	}
	// fence
	last := b.Chunks[len(b.Chunks)-1]
	fseq := uint32(int32(last.Seq)) + off + 1
	if int64(last.Seq) == b.Sp.WrapAfter {
		fseq = uint32(int32(b.Sp.WrapTo)) + off
	}
	fp := payload(fenceTag, 64, vfgo.Seed())
	fbody, _ := encodeBody(b.Side, fenceTag, fp)
	frame, err := rs.chunk('F', fseq, fenceTag, fbody)
	if err != nil {
		return runResult{status: "inconclusive", detail: "fence chunk: " + err.Error()}
	}
	if err := rs.write(frame); err != nil {
		return runResult{status: "inconclusive", detail: "write: " + err.Error()}
	}
	fd := dig(fp)
	fenced := g.r.waitFor(func(evs []Ev) bool {
		for _, e := range evs {
			if e.Ev == "ret" && (e.Dig == fd || e.EOF) {
				return true
			}
		}
		return false
	}, 15*time.Second)
	evs := g.r.snapshot()[r0:]
	body, sawFence := cutAtFence(evs, fd)
	return judge(b, bi, body, sawFence, fenced)
}

func cutAtFence(evs []Ev, fd string) ([]Ev, bool) {
	for i, e := range evs {
		if e.Ev == "ret" && e.Dig == fd {
			if i > 0 && evs[i-1].Ev == "acc" {
				return evs[:i-1], true
			}
			return evs[:i], true
		}
	}
	return evs, false
}

// runFlood (C13): the reference sender opens many request ids with intermediate chunks and never
// completes them; judged are the memory the receiver holds for incomplete messages (against the
// negotiated MaxChunkCount, with a stated slack) and that the channel is still alive or closed.
const floodSlack = 2

func runFlood(b *Beh) runResult {
	g, err := openRig(rigOpts{Policy: b.Policy, Mode: b.Mode, Side: b.Side, MaxChunks: b.MaxChunks})
	if err != nil {
		return runResult{status: "inconclusive", detail: "open: " + err.Error()}
	}
	defer g.close()
	if !g.r.waitFor(func(evs []Ev) bool { return hasRet(evs) }, 10*time.Second) {
		return runResult{status: "inconclusive", detail: "no handshake events on the receiver"}
	}
	rs, err := newRefSender(g, b.Mode)
	if err != nil {
		return runResult{status: "inconclusive", detail: err.Error()}
	}
	_, _, cur, _, _ := uasc.VerifActive(g.sendCh)
	seq := cur
	rnd := vfgo.Rand(int64(b.N) * 71)
	// messages the stream completes carry real bodies (cut as the behaviour's split shape says): the
	// specification says which of them are delivered whole; the others get random bytes
	parts := map[int][][]byte{}
	digs := map[int]string{}
	for m, pm := range b.Plan {
		if pm.Ab || pm.Cut != pm.N {
			continue
		}
		psz := 600 + rnd.Intn(2000)
		if pm.N > 1 {
			psz = 2000 + rnd.Intn(6000)
		}
		p := payload(uint32(m+1), psz, vfgo.Seed()+int64(b.N))
		digs[m+1] = dig(p)
		body, err := encodeBody(b.Side, 600+uint32(m), p)
		if err != nil {
			return runResult{status: "inconclusive", detail: "encode: " + err.Error()}
		}
		parts[m+1] = split(body, pm.N, rnd, b.Split)
	}
	for _, c := range b.Chunks {
		seq++
		var body []byte
		switch {
		case c.Kind == "A":
			ab := &uasc.MessageAbort{ErrorCode: uint32(ua.StatusBadRequestTooLarge), Reason: "aborted"}
			body, _ = ab.Encode()
		case parts[c.Msg] != nil:
			body = parts[c.Msg][c.Part-1]
		default:
			body = make([]byte, 200+rnd.Intn(800))
			rnd.Read(body)
		}
		fr, err := rs.chunk(c.Kind[0], seq, 7000+uint32(c.Req), body)
		if err != nil {
			return runResult{status: "inconclusive", detail: "chunk: " + err.Error()}
		}
		if err := rs.write(fr); err != nil {
			break // the receiver may have closed the connection
		}
	}
	// fence
	fp := payload(fenceTag, 64, vfgo.Seed())
	fbody, _ := encodeBody(b.Side, fenceTag, fp)
	fr, _ := rs.chunk('F', seq+1, fenceTag, fbody)
	rs.write(fr)
	fd := dig(fp)
	alive := g.r.waitFor(func(evs []Ev) bool {
		for _, e := range evs {
			if e.Ev == "ret" && (e.Dig == fd || e.EOF) {
				return true
			}
		}
		return false
	}, 15*time.Second)
	reqs, chunks, bytes := uasc.VerifBufferedChunks(g.recvCh)
	obs := map[string]any{"request_ids": reqs, "chunks": chunks, "bytes": bytes, "max_chunk_count": b.MaxChunks,
		"spec_buffered": b.Buffered, "asis_buffered": b.AsisBuffered}
	if !alive {
		return runResult{status: "violation", key: "c13:flood-receiver-dead", detail: fmt.Sprintf("after %d chunks an intact message was not delivered within 15 s and the channel did not close", len(b.Chunks)), obs: obs}
	}
	// every message the specification delivers whole must have been delivered (unless the channel closed)
	got := map[string]bool{}
	closed := false
	for _, e := range g.r.snapshot() {
		if e.Ev == "ret" && e.Err == "" {
			got[e.Dig] = true
		}
		closed = closed || e.EOF
	}
	for _, st := range b.Steps {
		if st.Expect == "deliver" && st.Whole && !closed {
			m := b.Chunks[st.ID-1].Msg
			if d := digs[m]; d != "" && !got[d] {
				return runResult{status: "violation", key: "c13:legal-message-refused-" + fmt.Sprintf("%dchunks", b.Plan[m-1].N),
					detail: fmt.Sprintf("message %d (%d chunks, split %q, within the negotiated limits) of the history was not delivered; events %v", m, b.Plan[m-1].N, b.Split, evStrings(g.r.snapshot())), obs: obs}
			}
		}
	}
	limit := floodSlack * int(b.MaxChunks)
	if chunks > limit {
		key := "c13:flood-buffer-exceeds-limit"
		if chunks == b.AsisBuffered && b.AsisBuffered != b.Buffered {
			key = "c13:flood-partials-bounded-per-request-id-only"
		}
		return runResult{status: "violation", key: key,
			detail: fmt.Sprintf("%d intermediate chunks over %d request ids are held (%d bytes) with MaxChunkCount=%d negotiated (specification: at most %d, tolerated %d)", chunks, reqs, bytes, b.MaxChunks, b.Buffered, limit), obs: obs}
	}
	return runResult{status: "ok", obs: obs}
}
