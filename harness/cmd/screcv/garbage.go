package main

import (
	"context"
	"crypto/ecdsa"
	"crypto/elliptic"
	crand "crypto/rand"
	"crypto/x509"
	"crypto/x509/pkix"
	"encoding/binary"
	"fmt"
	"io"
	"math/big"
	"math/rand"
	"strings"
	"sync"
	"time"

	"github.com/gopcua/opcua/ua"
	"github.com/gopcua/opcua/uasc"

	"verifharness/keys"
	"verifharness/vfgo"
)

// ---- C13: rows of spec/ScRecv/ScGarbage -----------------------------------------

type GRow struct {
	N       int      `json:"n"`
	Prop    string   `json:"prop"`
	Kind    string   `json:"kind"` // "garbage"
	Side    string   `json:"side"`
	Mode    string   `json:"mode"`
	Policy  string   `json:"policy"`
	Phase   string   `json:"phase"`
	Class   string   `json:"class"`
	Allowed []string `json:"allowed"`
	Asis    []string `json:"asis"`
}

func rawFrame(typ string, kind byte, rest []byte) []byte {
	b := make([]byte, 8, 8+len(rest))
	copy(b, typ)
	b[3] = kind
	b = append(b, rest...)
	binary.LittleEndian.PutUint32(b[4:], uint32(len(b)))
	return b
}

func le32(v uint32) []byte { b := make([]byte, 4); binary.LittleEndian.PutUint32(b, v); return b }

func uaBytes(b []byte) []byte {
	if b == nil {
		return le32(0xffffffff)
	}
	return append(le32(uint32(len(b))), b...)
}

func cat(bs ...[]byte) []byte {
	var r []byte
	for _, b := range bs {
		r = append(r, b...)
	}
	return r
}

// garbageFrames returns the frames of a class for a receiver whose channel id / token id are given.
func garbageFrames(row *GRow, chanID, tokID, nextSeq uint32, rnd *rand.Rand) [][]byte {
	junk := func(n int) []byte { b := make([]byte, n); rnd.Read(b); return b }
	seqhdr := func(seq uint32) []byte { return cat(le32(seq), le32(4000+seq)) }
	polURI := ua.FormatSecurityPolicyURI(row.Policy)
	if row.Policy == "None" {
		polURI = ua.FormatSecurityPolicyURI("Basic256Sha256") // a channel in None mode is offered a real policy
	}
	switch row.Class {
	case "type.unknown":
		return [][]byte{rawFrame("XYZ", 'F', junk(40)), rawFrame("\x00\x00\x00", 0, junk(3))}
	case "type.err":
		return [][]byte{rawFrame("ERR", 'F', junk(11))}
	case "clo":
		return [][]byte{rawFrame("CLO", 'F', cat(le32(chanID), le32(tokID)))}
	case "msg.nochan":
		return [][]byte{rawFrame("MSG", 'F', cat(le32(chanID+12345), le32(tokID), seqhdr(nextSeq), junk(60)))}
	case "msg.junk":
		return [][]byte{rawFrame("MSG", 'F', cat(le32(chanID), le32(tokID), seqhdr(nextSeq), junk(90)))}
	case "msg.abort.junk":
		return [][]byte{rawFrame("MSG", 'A', cat(le32(chanID), le32(tokID), seqhdr(nextSeq), junk(90)))}
	case "msg.short", "opn.short":
		typ := "MSG"
		if row.Class == "opn.short" {
			typ = "OPN"
		}
		full := rawFrame(typ, 'F', cat(le32(chanID), le32(tokID), seqhdr(nextSeq), junk(40)))
		var out [][]byte
		for n := 8; n <= 40; n++ {
			f := append([]byte(nil), full[:n]...)
			binary.LittleEndian.PutUint32(f[4:], uint32(n))
			out = append(out, f)
		}
		return out
	case "msg.body.trunc":
		body, _ := encodeBody(row.Side, 7, payload(7, 200, vfgo.Seed()))
		var out [][]byte
		for i, cut := range []int{1, 3, 5, 20, len(body) / 2, len(body) - 1} {
			out = append(out, rawFrame("MSG", 'F', cat(le32(chanID), le32(tokID), seqhdr(nextSeq+uint32(i)), body[:cut])))
		}
		return out
	case "msg.body.hostile":
		// a ReadResponse / WriteRequest whose byte string length field is negative / huge
		body, _ := encodeBody(row.Side, 7, payload(7, 64, vfgo.Seed()))
		var out [][]byte
		k := 0
		i := strings.Index(string(body), string(payload(7, 64, vfgo.Seed())[:8]))
		if i < 5 {
			return nil
		}
		add := func(bb []byte) {
			out = append(out, rawFrame("MSG", 'F', cat(le32(chanID), le32(tokID), seqhdr(nextSeq+uint32(k)), bb)))
			k++
		}
		vals := []uint32{0x7fffffff, 0x80000000, 0xfffffffe}
		for _, v := range vals {
			// the length in front of the payload byte string
			bb := append([]byte(nil), body...)
			binary.LittleEndian.PutUint32(bb[i-4:], v)
			add(bb)
		}
		for _, v := range vals {
			// a variant array of byte strings with that length (-2 last: ua.Variant.Decode is known to
			// panic on it, finding of C02)
			bb2 := append([]byte(nil), body[:i-5]...)
			bb2 = append(bb2, 0x8f) // ByteString | array
			bb2 = append(bb2, le32(v)...)
			add(bb2)
		}
		return out
	case "opn.junkuri":
		return [][]byte{rawFrame("OPN", 'F', cat(le32(chanID), uaBytes([]byte("http://example.org/NoSuchPolicy#"+fmt.Sprint(rnd.Intn(1000)))), uaBytes(nil), uaBytes(nil), seqhdr(nextSeq), junk(50)))}
	case "opn.junkcert":
		return [][]byte{rawFrame("OPN", 'F', cat(le32(chanID), uaBytes([]byte(polURI)), uaBytes(junk(300)), uaBytes(junk(20)), seqhdr(nextSeq), junk(256)))}
	case "opn.cert.stranger":
		// a well-formed RSA certificate the receiver has never seen, plausible thumbprint, random body
		st := keys.Get("3072a")
		return [][]byte{rawFrame("OPN", 'F', cat(le32(chanID), uaBytes([]byte(polURI)), uaBytes(st.Cert), uaBytes(junk(20)), junk(384))),
			rawFrame("OPN", 'F', cat(le32(chanID), uaBytes([]byte(polURI)), uaBytes(st.Cert), uaBytes(junk(20)), seqhdr(nextSeq), junk(100)))}
	case "opn.eccert":
		return [][]byte{rawFrame("OPN", 'F', cat(le32(chanID), uaBytes([]byte(polURI)), uaBytes(ecCert()), uaBytes(junk(20)), seqhdr(nextSeq), junk(256)))}
	case "opn.nocert":
		return [][]byte{rawFrame("OPN", 'F', cat(le32(chanID), uaBytes([]byte(polURI)), uaBytes(nil), uaBytes(nil), seqhdr(nextSeq), junk(256))),
			rawFrame("OPN", 'F', cat(le32(chanID), uaBytes([]byte(polURI)), uaBytes([]byte{}), uaBytes([]byte{}), seqhdr(nextSeq), junk(64)))}
	case "opn.hugelen":
		return [][]byte{rawFrame("OPN", 'F', cat(le32(chanID), le32(0x7fffffff), junk(64)))}
	case "opn.neglen":
		return [][]byte{rawFrame("OPN", 'F', cat(le32(chanID), le32(0xfffffffb), junk(64)))}
	case "opn.junkbody":
		ck := keys.Get("2048a")
		th := junk(20)
		return [][]byte{
			rawFrame("OPN", 'F', cat(le32(chanID), uaBytes([]byte(polURI)), uaBytes(ck.Cert), uaBytes(th), junk(256))),
			rawFrame("OPN", 'F', cat(le32(chanID), uaBytes([]byte(polURI)), uaBytes(ck.Cert), uaBytes(th), junk(100))),
			rawFrame("OPN", 'F', cat(le32(chanID), uaBytes([]byte(ua.SecurityPolicyURINone)), uaBytes(nil), uaBytes(nil), seqhdr(nextSeq), junk(80))),
		}
	}
	return nil
}

func runGarbage(row *GRow) runResult {
	rnd := vfgo.Rand(int64(row.N)*53 + 5)
	if row.Side == "client" && row.Phase == "pre" {
		return runGarbageClientPre(row, rnd)
	}
	g, err := openRig(rigOpts{Policy: row.Policy, Mode: row.Mode, Side: row.Side, NoOpen: row.Phase == "pre"})
	if err != nil {
		return runResult{status: "inconclusive", detail: "open: " + err.Error()}
	}
	defer g.close()
	chanID, tokID, nextSeq := uint32(7), uint32(1), uint32(2)
	var rs *refSender
	if row.Phase == "post" {
		if !g.r.waitFor(func(evs []Ev) bool { return hasRet(evs) }, 10*time.Second) {
			return runResult{status: "inconclusive", detail: "no handshake events"}
		}
		rs, err = newRefSender(g, row.Mode)
		if err != nil {
			return runResult{status: "inconclusive", detail: err.Error()}
		}
		chanID, tokID = rs.chanID, rs.tokID
		_, _, cur, _, _ := uasc.VerifActive(g.sendCh)
		nextSeq = cur + 1
	}
	frames := garbageFrames(row, chanID, tokID, nextSeq, rnd)
	if len(frames) == 0 {
		return runResult{status: "inconclusive", detail: "no frames for class " + row.Class}
	}
	conn := g.p.CConn
	if row.Side == "client" {
		conn = g.p.SConn
	}
	seen := map[string]bool{}
	var log []string
	closed := false
	for i, f := range frames {
		r0 := len(g.r.snapshot())
		conn.SetWriteDeadline(time.Now().Add(5 * time.Second))
		if _, err := conn.Write(f); err != nil {
			closed = true
			break
		}
		g.r.waitFor(func(evs []Ev) bool { return hasRet(evs[r0:]) }, 4*time.Second)
		evs := g.r.snapshot()[r0:]
		re := reaction(evs)
		seen[re] = true
		log = append(log, fmt.Sprintf("#%d len=%d: %s %v", i, len(f), re, evStrings(evs)))
		if re == "eof" {
			closed = true
			break
		}
	}
	obs := map[string]any{"reactions": keysOf(seen), "log": log}
	allowed := map[string]bool{}
	for _, a := range row.Allowed {
		allowed[a] = true
	}
	for re := range seen {
		if !allowed[re] {
			return runResult{status: "violation", key: fmt.Sprintf("c13:%s-%s-%s-%s:%s", row.Class, row.Side, row.Phase, row.Mode, re),
				detail: fmt.Sprintf("reaction %q to a %s frame, specification allows %v; %v", re, row.Class, row.Allowed, log), obs: obs}
		}
	}
	// not wedged: an open channel that did not close still delivers an intact message
	if row.Phase == "post" && !closed {
		fp := payload(fenceTag, 64, vfgo.Seed())
		fbody, _ := encodeBody(row.Side, fenceTag, fp)
		fr, err := rs.chunk('F', nextSeq+uint32(len(frames))+5, fenceTag, fbody)
		if err != nil {
			return runResult{status: "inconclusive", detail: "fence: " + err.Error()}
		}
		rf := len(g.r.snapshot())
		conn.SetWriteDeadline(time.Now().Add(5 * time.Second))
		conn.Write(fr)
		// alive = the receive goroutine returns something for it (delivery, or an error if the hostile
		// frames left the channel unusable -- refusing is not blocking)
		if !g.r.waitFor(func(evs []Ev) bool { return hasRet(evs[rf:]) }, 12*time.Second) {
			return runResult{status: "violation", key: fmt.Sprintf("c13:%s-%s-%s-%s:hang", row.Class, row.Side, row.Phase, row.Mode),
				detail: fmt.Sprintf("after the %s frames Receive returned nothing for an intact message within 12 s and the channel did not close; %v", row.Class, log), obs: obs}
		}
		delivered := false
		for _, e := range g.r.snapshot()[rf:] {
			delivered = delivered || (e.Ev == "ret" && e.Dig == dig(fp))
		}
		obs["intact_message_after"] = map[bool]string{true: "delivered", false: "refused"}[delivered]
	}
	return runResult{status: "ok", obs: obs}
}

func hasRet(evs []Ev) bool {
	for _, e := range evs {
		if e.Ev == "ret" {
			return true
		}
	}
	return false
}

func reaction(evs []Ev) string {
	acc := false
	for _, e := range evs {
		if e.Ev == "acc" {
			acc = true
		}
		if e.Ev == "ret" {
			switch {
			case e.EOF:
				return "eof"
			case acc:
				return "accept"
			case e.Err != "":
				return "error"
			default:
				return "accept"
			}
		}
	}
	if acc {
		return "accept"
	}
	return "silent"
}

func keysOf(m map[string]bool) []string {
	var r []string
	for k := range m {
		r = append(r, k)
	}
	return r
}

// A client channel reads only once its own OPN request is out: the garbage is the answer to it.
func runGarbageClientPre(row *GRow, rnd *rand.Rand) runResult {
	frames := garbageFrames(row, 7, 1, 101, rnd)
	if len(frames) > 10 { // the short classes: every fourth length here (each frame costs one Open time-out)
		var sub [][]byte
		for i, f := range frames {
			if i%4 == 0 || i == len(frames)-1 {
				sub = append(sub, f)
			}
		}
		frames = sub
	}
	var log []string
	for i, f := range frames {
		g, err := openRig(rigOpts{Policy: row.Policy, Mode: row.Mode, Side: "client", NoOpen: true, NoLoop: true, ReqTimeout: 600 * time.Millisecond})
		if err != nil {
			return runResult{status: "inconclusive", detail: "open: " + err.Error()}
		}
		done := make(chan error, 1)
		go func() {
			ctx, cancel := context.WithTimeout(context.Background(), 8*time.Second)
			defer cancel()
			done <- g.p.Client.Open(ctx)
		}()
		// read the OPN request off the wire, answer with the frame
		g.p.SConn.SetReadDeadline(time.Now().Add(8 * time.Second))
		if _, err := g.p.SConn.Receive(); err != nil {
			g.close()
			return runResult{status: "inconclusive", detail: "no OPN request from the client: " + err.Error()}
		}
		g.p.SConn.SetWriteDeadline(time.Now().Add(5 * time.Second))
		g.p.SConn.Write(f)
		var oerr error
		select {
		case oerr = <-done:
		case <-time.After(25 * time.Second):
			g.close()
			return runResult{status: "violation", key: fmt.Sprintf("c13:%s-client-pre-%s:hang", row.Class, row.Mode),
				detail: fmt.Sprintf("Open did not return within 25 s (request timeout 0.6 s, context 8 s) after a %s frame #%d", row.Class, i)}
		}
		log = append(log, fmt.Sprintf("#%d len=%d: Open -> %v %v", i, len(f), oerr, evStrings(g.r.snapshot())))
		g.close()
		if oerr == nil {
			return runResult{status: "violation", key: fmt.Sprintf("c13:%s-client-pre-%s:opened", row.Class, row.Mode),
				detail: fmt.Sprintf("Open succeeded on a %s frame; %v", row.Class, log)}
		}
		_ = io.EOF
	}
	return runResult{status: "ok", obs: map[string]any{"log": log}}
}

var ecOnce sync.Once
var ecDER []byte

// ecCert returns a well-formed self-signed certificate with an ECDSA key.
func ecCert() []byte {
	ecOnce.Do(func() {
		k, err := ecdsa.GenerateKey(elliptic.P256(), crand.Reader)
		if err != nil {
			return
		}
		tmpl := &x509.Certificate{SerialNumber: big.NewInt(7), Subject: pkix.Name{CommonName: "verif ec"},
			NotBefore: time.Now().Add(-time.Hour), NotAfter: time.Now().Add(24 * time.Hour)}
		ecDER, _ = x509.CreateCertificate(crand.Reader, tmpl, tmpl, &k.PublicKey, k)
	})
	return ecDER
}
