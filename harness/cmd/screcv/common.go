package main

import (
	"context"
	"crypto/sha1"
	"encoding/hex"
	"fmt"
	"io"
	"sync"
	"sync/atomic"
	"time"

	"github.com/gopcua/opcua/ua"
	"github.com/gopcua/opcua/uacp"
	"github.com/gopcua/opcua/uasc"

	"verifharness/chanpair"
)

// ---- events observed on the real channels --------------------------------

// Ev is one observation of the receiving channel (in the order of its single receive goroutine)
// or of the sending channel.
//
//	acc  recv.chunk hook: a chunk passed readChunk (verification, sequence header) -- "accepted"
//	ret  Receive returned (server: own receive loop; client: disp.pop hook of the dispatcher)
//	sent chunk.write hook of the sending channel
type Ev struct {
	Ev   string `json:"ev"`
	Seq  uint32 `json:"seq,omitempty"`
	Req  uint32 `json:"req,omitempty"`
	Kind string `json:"kind,omitempty"`
	Typ  string `json:"typ,omitempty"`
	Len  int    `json:"len,omitempty"`
	Err  string `json:"err,omitempty"`
	Dig  string `json:"dig,omitempty"`
	EOF  bool   `json:"eof,omitempty"`
}

type rec struct {
	mu   sync.Mutex
	recv []Ev // acc + ret, receiver order
	sent []Ev // chunk.write of the sender
	cond *sync.Cond
	// C20: delivered bodies are kept together with a deep snapshot taken at delivery
	keep    bool
	kept    []keptMsg
	opnEnds atomic.Int64 // completed server-side OPN handlings of this channel (hook srv.opn.end)
	// role flags
	isRecv, isSend bool
	viaDisp        bool // receiver is a client channel: returns are seen at disp.pop
}

func newRec() *rec { r := &rec{}; r.cond = sync.NewCond(&r.mu); return r }

var reg sync.Map // *uasc.SecureChannel -> *rec

func kvGet(kv []any, key string) any {
	for i := 0; i+1 < len(kv); i += 2 {
		if k, ok := kv[i].(string); ok && k == key {
			return kv[i+1]
		}
	}
	return nil
}

func u32(v any) uint32 {
	switch x := v.(type) {
	case uint32:
		return x
	case int:
		return uint32(x)
	case uint64:
		return uint32(x)
	case int64:
		return uint32(x)
	}
	return 0
}

func installHook() {
	uasc.VerifHook.Store(func(point string, s *uasc.SecureChannel, kv ...any) {
		v, ok := reg.Load(s)
		if !ok {
			return
		}
		r := v.(*rec)
		switch point {
		case "recv.chunk":
			if !r.isRecv {
				return
			}
			k := ""
			switch x := kvGet(kv, "kind").(type) {
			case byte:
				k = string(rune(x))
			case rune:
				k = string(x)
			}
			typ, _ := kvGet(kv, "type").(string)
			ln, _ := kvGet(kv, "len").(int)
			r.add(Ev{Ev: "acc", Seq: u32(kvGet(kv, "seq")), Req: u32(kvGet(kv, "req")), Kind: k, Typ: typ, Len: ln})
		case "disp.pop":
			if !r.isRecv || !r.viaDisp {
				return
			}
			e := Ev{Ev: "ret", Req: u32(kvGet(kv, "req"))}
			if err, ok := kvGet(kv, "err").(error); ok && err != nil {
				e.Err = err.Error()
				e.EOF = err == io.EOF
			} else {
				e.Dig = digestOf(kvGet(kv, "body"))
				r.keepBody(kvGet(kv, "body"))
			}
			r.add(e)
		case "srv.opn.end":
			r.opnEnds.Add(1)
		case "expire.run":
			noteExpireRun(s, u32(kvGet(kv, "tok")))
		case "chunk.write":
			if !r.isSend {
				return
			}
			if m, ok := kvGet(kv, "msg").(*uasc.Message); ok && m != nil && m.MessageHeader != nil && m.Header != nil && m.Header.MessageType == "OPN" {
				return // the OPN chunk of a renewal is not part of the base stream
			}
			ln, _ := kvGet(kv, "len").(int)
			r.mu.Lock()
			r.sent = append(r.sent, Ev{Ev: "sent", Seq: u32(kvGet(kv, "seq")), Req: u32(kvGet(kv, "req")), Len: ln})
			r.mu.Unlock()
		}
	})
}

func (r *rec) add(e Ev) {
	r.mu.Lock()
	r.recv = append(r.recv, e)
	r.mu.Unlock()
	r.cond.Broadcast()
}

func (r *rec) snapshot() []Ev {
	r.mu.Lock()
	defer r.mu.Unlock()
	return append([]Ev(nil), r.recv...)
}

func (r *rec) sentSnapshot() []Ev {
	r.mu.Lock()
	defer r.mu.Unlock()
	return append([]Ev(nil), r.sent...)
}

// waitFor blocks until pred(events) or the timeout.
func (r *rec) waitFor(pred func([]Ev) bool, d time.Duration) bool {
	deadline := time.Now().Add(d)
	t := time.AfterFunc(d, func() { r.cond.Broadcast() })
	defer t.Stop()
	r.mu.Lock()
	defer r.mu.Unlock()
	for !pred(r.recv) {
		if time.Now().After(deadline) {
			return false
		}
		r.cond.Wait()
	}
	return true
}

// ---- payload messages -----------------------------------------------------

// payload returns n distinguishable bytes for message tag.
func payload(tag uint32, n int, seed int64) []byte {
	b := make([]byte, n)
	x := uint64(seed)*0x9E3779B97F4A7C15 + uint64(tag)*0xBF58476D1CE4E5B9 + 1
	for i := range b {
		x ^= x << 13
		x ^= x >> 7
		x ^= x << 17
		b[i] = byte(x)
	}
	if n >= 4 {
		b[0], b[1], b[2], b[3] = byte(tag), byte(tag>>8), 'v', 'f'
	}
	return b
}

func dig(b []byte) string {
	h := sha1.Sum(b)
	return hex.EncodeToString(h[:6])
}

func mkReq(p []byte) *ua.WriteRequest {
	return &ua.WriteRequest{NodesToWrite: []*ua.WriteValue{{
		NodeID:      ua.NewNumericNodeID(0, 1),
		AttributeID: ua.AttributeIDValue,
		Value:       &ua.DataValue{EncodingMask: ua.DataValueValue, Value: ua.MustVariant(p)},
	}}}
}

func mkResp(handle uint32, p []byte) *ua.ReadResponse {
	return &ua.ReadResponse{
		ResponseHeader: chanpair.RespHeader(handle, ua.StatusOK),
		Results:        []*ua.DataValue{{EncodingMask: ua.DataValueValue, Value: ua.MustVariant(p)}},
	}
}

// digestOf extracts the payload of a delivered body ("" when it is not one of ours).
func digestOf(body any) string {
	switch x := body.(type) {
	case *ua.WriteRequest:
		if len(x.NodesToWrite) == 1 && x.NodesToWrite[0] != nil && x.NodesToWrite[0].Value != nil && x.NodesToWrite[0].Value.Value != nil {
			if b, ok := x.NodesToWrite[0].Value.Value.Value().([]byte); ok {
				return dig(b)
			}
		}
		return "other-write"
	case *ua.ReadResponse:
		if len(x.Results) == 1 && x.Results[0] != nil && x.Results[0].Value != nil {
			if b, ok := x.Results[0].Value.Value().([]byte); ok {
				return dig(b)
			}
		}
		return "other-read"
	case nil:
		return "nil"
	}
	return fmt.Sprintf("%T", body)
}

// ---- a pair with recorders ------------------------------------------------

type rig struct {
	p        *chanpair.Pair
	side     string // receiver under test: "server" | "client"
	recvCh   *uasc.SecureChannel
	sendCh   *uasc.SecureChannel
	r        *rec // receiver events
	s        *rec // sender events
	dir      string
	stopLoop context.CancelFunc
	loopDone chan struct{}
}

type rigOpts struct {
	Policy, Mode, Side string
	Tap                chanpair.Tap
	BufSize            uint32
	MaxChunks          uint32
	MaxMsgSize         uint32
	ServerSeq          uint32
	Lifetime           uint32
	NoOpen             bool
	NoLoop             bool // do not run the server channel's receive loop
	ReqTimeout         time.Duration
}

func openRig(o rigOpts) (*rig, error) {
	if o.BufSize == 0 {
		o.BufSize = 8192
	}
	if o.ReqTimeout == 0 {
		o.ReqTimeout = 20 * time.Second
	}
	// both ends adopt this acknowledge: chunks are written up to BufSize, frames of twice that size
	// are still read (room for the adversary's extensions without touching the uacp limits)
	ack := &uacp.Acknowledge{ReceiveBufSize: 2 * o.BufSize, SendBufSize: o.BufSize, MaxChunkCount: o.MaxChunks, MaxMessageSize: o.MaxMsgSize}
	if ack.MaxChunkCount == 0 {
		ack.MaxChunkCount = 512
	}
	if ack.MaxMessageSize == 0 {
		ack.MaxMessageSize = 2 << 20
	}
	var p *chanpair.Pair
	var err error
	for try := 0; try < 3; try++ {
		p, err = chanpair.Open(chanpair.Opts{Policy: o.Policy, Mode: o.Mode, ServerACK: ack, Tap: o.Tap, NoServerLoop: true,
			ServerSeq: o.ServerSeq, Lifetime: o.Lifetime, NoOpen: true, RequestTimeout: o.ReqTimeout})
		if err == nil {
			break
		}
		time.Sleep(50 * time.Millisecond)
	}
	if err != nil {
		return nil, err
	}
	g := &rig{p: p, side: o.Side, r: newRec(), s: newRec(), loopDone: make(chan struct{})}
	if o.Side == "server" {
		g.recvCh, g.sendCh, g.dir = p.Server, p.Client, "c2s"
	} else {
		g.recvCh, g.sendCh, g.dir = p.Client, p.Server, "s2c"
		g.r.viaDisp = true
	}
	g.r.isRecv = true
	g.s.isSend = true
	reg.Store(g.recvCh, g.r)
	reg.Store(g.sendCh, g.s)
	// the server channel's receive loop (what the server's channel broker does), reporting every return
	ctx, cancel := context.WithCancel(context.Background())
	g.stopLoop = cancel
	go func() {
		defer close(g.loopDone)
		if o.NoLoop {
			return
		}
		for {
			msg := p.Server.Receive(ctx)
			if o.Side == "server" {
				e := Ev{Ev: "ret", Req: msg.RequestID}
				if msg.Err != nil {
					e.Err = msg.Err.Error()
					e.EOF = msg.Err == io.EOF
				} else {
					e.Dig = digestOf(anyBody(msg))
					g.r.keepBody(anyBody(msg))
				}
				g.r.add(e)
			}
			if msg.Err == io.EOF || ctx.Err() != nil {
				return
			}
			if msg.Err != nil {
				if _, ok := msg.Err.(interface{ Timeout() bool }); ok {
					return
				}
			}
		}
	}()
	if o.Side == "client" {
		// the dispatcher leaves without a disp.pop event when Receive returns EOF; it reports the
		// EOF on the error channel after all earlier events
		go func() {
			for {
				select {
				case err := <-p.CErr:
					if err == io.EOF {
						g.r.add(Ev{Ev: "ret", Err: "EOF", EOF: true})
						return
					}
				case <-ctx.Done():
					return
				}
			}
		}()
	}
	if !o.NoOpen {
		octx, ocancel := context.WithTimeout(context.Background(), 20*time.Second)
		err := p.Client.Open(octx)
		ocancel()
		if err != nil {
			g.close()
			return nil, fmt.Errorf("open: %w", err)
		}
		// the server installs its instance after it has written the OPN response
		for i := 0; i < 5000; i++ {
			if _, _, _, _, ok := uasc.VerifActive(p.Server); ok {
				break
			}
			time.Sleep(time.Millisecond)
		}
		if _, _, _, _, ok := uasc.VerifActive(p.Server); !ok {
			g.close()
			return nil, fmt.Errorf("server channel has no active instance after the handshake")
		}
	}
	return g, nil
}

func anyBody(m *uasc.MessageBody) any {
	if r := m.Request(); r != nil {
		return r
	}
	if r := m.Response(); r != nil {
		return r
	}
	return nil
}

func (g *rig) close() {
	reg.Delete(g.recvCh)
	reg.Delete(g.sendCh)
	g.stopLoop()
	g.p.Close()
}

// sendReal sends one payload message with the real gopcua sender of the rig's sending side.
func (g *rig) sendReal(tag uint32, p []byte) error {
	ctx, cancel := context.WithTimeout(context.Background(), 20*time.Second)
	defer cancel()
	if g.side == "server" {
		return g.p.Client.SendRequest(ctx, mkReq(p), nil, nil)
	}
	return g.p.Server.SendResponseWithContext(ctx, 1000+tag, mkResp(1000+tag, p))
}
