package main

import (
	"bytes"
	"context"
	crand "crypto/rand"
	"crypto/sha1"
	"fmt"
	"net"
	"sync"
	"time"

	"github.com/gopcua/opcua/uacp"
	"verifharness/keys"

	"github.com/gopcua/opcua/ua"
	"github.com/gopcua/opcua/uasc"

	"verifharness/vfgo"
)

// ---- C20: delivered messages never change afterwards ------------------------------------

type keptMsg struct {
	body    any
	encoded []byte // ua.Encode(body) at delivery
	raw     []byte // copy of the payload byte string at delivery
	dig     string
}

func payloadOf(body any) []byte {
	switch x := body.(type) {
	case *ua.WriteRequest:
		if len(x.NodesToWrite) == 1 && x.NodesToWrite[0].Value != nil && x.NodesToWrite[0].Value.Value != nil {
			b, _ := x.NodesToWrite[0].Value.Value.Value().([]byte)
			return b
		}
	case *ua.ReadResponse:
		if len(x.Results) == 1 && x.Results[0] != nil && x.Results[0].Value != nil {
			b, _ := x.Results[0].Value.Value().([]byte)
			return b
		}
	}
	return nil
}

// keepBody runs in the receive goroutine, before the next frame is read.
func (r *rec) keepBody(body any) {
	if !r.keep || body == nil {
		return
	}
	enc, err := ua.Encode(body)
	if err != nil {
		return
	}
	p := payloadOf(body)
	r.mu.Lock()
	r.kept = append(r.kept, keptMsg{body: body, encoded: enc, raw: append([]byte(nil), p...), dig: dig(p)})
	r.mu.Unlock()
}

type ACase struct {
	N        int    `json:"n"`
	Prop     string `json:"prop"`
	Kind     string `json:"kind,omitempty"` // "endpoints": a delivered GetEndpointsResponse configures another channel
	Channels []Beh  `json:"channels"`
}

func runAlias(c *ACase) runResult {
	if c.Kind == "endpoints" {
		return runAliasEndpoints(c)
	}
	type chres struct {
		err     string
		changed []string
		n       int
		multi   int
	}
	res := make([]chres, len(c.Channels))
	var wg sync.WaitGroup
	for i := range c.Channels {
		wg.Add(1)
		go func(i int) {
			defer wg.Done()
			b := &c.Channels[i]
			g, err := openRig(rigOpts{Policy: b.Policy, Mode: b.Mode, Side: b.Side})
			if err != nil {
				res[i].err = "open: " + err.Error()
				return
			}
			defer g.close()
			g.r.mu.Lock()
			g.r.keep = true
			g.r.mu.Unlock()
			_, _, _, maxBody, _ := uasc.VerifActive(g.sendCh)
			sent := map[string]bool{}
			round := func(salt int64, rev bool) bool {
				for k := range b.Plan {
					m := k
					if rev {
						m = len(b.Plan) - 1 - k
					}
					p := payload(uint32(m+1), payloadSize(b.Plan[m].N, maxBody)+int(salt%7), vfgo.Seed()+salt+int64(i)*1000)
					sent[dig(p)] = true
					if err := g.sendReal(uint32(m+1)+uint32(salt), p); err != nil {
						res[i].err = "send: " + err.Error()
						return false
					}
				}
				fp := payload(fenceTag, 64, vfgo.Seed()+salt+int64(i))
				if err := g.sendReal(fenceTag, fp); err != nil {
					res[i].err = "fence: " + err.Error()
					return false
				}
				fd := dig(fp)
				if !g.r.waitFor(func(evs []Ev) bool {
					for _, e := range evs {
						if e.Ev == "ret" && e.Dig == fd {
							return true
						}
					}
					return false
				}, 20*time.Second) {
					res[i].err = "fence not delivered"
					return false
				}
				return true
			}
			// three rounds of traffic with different contents; snapshots are compared at the very end
			if !round(11, false) || !round(23, true) || !round(37, false) {
				return
			}
			g.r.mu.Lock()
			kept := append([]keptMsg(nil), g.r.kept...)
			g.r.mu.Unlock()
			res[i].n = len(kept)
			for j, k := range kept {
				enc, err := ua.Encode(k.body)
				now := payloadOf(k.body)
				switch {
				case err != nil:
					res[i].changed = append(res[i].changed, fmt.Sprintf("message %d no longer encodes: %v", j, err))
				case !bytes.Equal(enc, k.encoded):
					res[i].changed = append(res[i].changed, fmt.Sprintf("message %d (%T, %d bytes) re-encodes differently after later traffic", j, k.body, len(enc)))
				case !bytes.Equal(now, k.raw):
					res[i].changed = append(res[i].changed, fmt.Sprintf("message %d: byte string changed after later traffic", j))
				case len(k.raw) > 100 && !sent[k.dig]:
					res[i].changed = append(res[i].changed, fmt.Sprintf("message %d: delivered byte string is not one that was sent", j))
				}
				if len(k.raw) > int(maxBody) {
					res[i].multi++
				}
			}
			want := 3 * (len(b.Plan) + 1)
			if len(kept) != want {
				res[i].err = fmt.Sprintf("%d messages delivered, specification says %d", len(kept), want)
			}
		}(i)
	}
	wg.Wait()
	total, multi := 0, 0
	for i, r := range res {
		if len(r.changed) > 0 {
			return runResult{status: "violation", key: "c20:delivered-message-changed",
				detail: fmt.Sprintf("channel %d (%s receiver, %s): %v", i, c.Channels[i].Side, c.Channels[i].Mode, r.changed)}
		}
		if r.err != "" {
			return runResult{status: "inconclusive", detail: fmt.Sprintf("channel %d: %s", i, r.err)}
		}
		total += r.n
		multi += r.multi
	}
	return runResult{status: "ok", obs: map[string]any{"channels": len(res), "messages_compared": total, "multi_chunk": multi}}
}

// ---- C20: a delivered GetEndpointsResponse used to configure another channel -----------------
//
// The documented way to set up a secured client is GetEndpoints on a discovery connection and then
// RemoteCertificate(ep.ServerCertificate): the new channel's configuration holds a byte string of a
// delivered message.  Traffic on the new connection (its OPN exchange, with a sender certificate
// that differs from the advertised one: another certificate, a certificate chain) must not change
// the message delivered earlier.
func runAliasEndpoints(c *ACase) runResult {
	pol, mode := "Basic256Sha256", "Sign"
	if len(c.Channels) > 0 {
		pol, mode = c.Channels[0].Policy, c.Channels[0].Mode
	}
	if pol == "None" {
		pol, mode = "Basic256Sha256", "SignAndEncrypt"
	}
	// 1. discovery connection: a real channel delivers a GetEndpointsResponse to the client side
	g, err := openRig(rigOpts{Policy: "None", Mode: "None", Side: "client"})
	if err != nil {
		return runResult{status: "inconclusive", detail: "open: " + err.Error()}
	}
	defer g.close()
	g.r.mu.Lock()
	g.r.keep = true
	g.r.mu.Unlock()
	adv := keys.Get("2048a") // the certificate the endpoints advertise
	var eps []*ua.EndpointDescription
	for i := 0; i < 3; i++ {
		eps = append(eps, &ua.EndpointDescription{
			EndpointURL: fmt.Sprintf("opc.tcp://127.0.0.1:4840/%d", i), Server: &ua.ApplicationDescription{ApplicationName: &ua.LocalizedText{}, DiscoveryURLs: []string{}},
			ServerCertificate: append([]byte(nil), adv.Cert...), SecurityMode: chanpairMode(mode), SecurityPolicyURI: ua.FormatSecurityPolicyURI(pol),
			UserIdentityTokens: []*ua.UserTokenPolicy{}, TransportProfileURI: "http://opcfoundation.org/UA-Profile/Transport/uatcp-uasc-uabinary", SecurityLevel: uint8(i)})
	}
	ctx, cancel := context.WithTimeout(context.Background(), 30*time.Second)
	defer cancel()
	if err := g.p.Server.SendResponseWithContext(ctx, 4711, &ua.GetEndpointsResponse{ResponseHeader: respHeader(4711), Endpoints: eps}); err != nil {
		return runResult{status: "inconclusive", detail: "send endpoints: " + err.Error()}
	}
	if !g.r.waitFor(func(evs []Ev) bool {
		for _, e := range evs {
			if e.Ev == "ret" && e.Dig == "*ua.GetEndpointsResponse" {
				return true
			}
		}
		return false
	}, 15*time.Second) {
		return runResult{status: "inconclusive", detail: "GetEndpointsResponse not delivered"}
	}
	g.r.mu.Lock()
	var got *ua.GetEndpointsResponse
	var snap []byte
	for _, k := range g.r.kept {
		if r, ok := k.body.(*ua.GetEndpointsResponse); ok {
			got, snap = r, k.encoded
		}
	}
	g.r.mu.Unlock()
	if got == nil || len(got.Endpoints) != 3 {
		return runResult{status: "inconclusive", detail: "delivered GetEndpointsResponse not kept"}
	}
	// 2. a new connection configured from the delivered message; the peer answers the OPN request with
	//    OPN chunks whose sender certificate is another one / the advertised one followed by an issuer
	other := keys.Get("2048b")
	chain := append(append([]byte(nil), adv.Cert...), other.Cert...)
	var log []string
	for i, sender := range [][]byte{other.Cert, chain, keys.Get("4096a").Cert} {
		if err := openWithForeignCert(pol, mode, got.Endpoints[0].ServerCertificate, sender); err != nil {
			return runResult{status: "inconclusive", detail: err.Error()}
		}
		enc, err := ua.Encode(got)
		switch {
		case err != nil:
			return runResult{status: "violation", key: "c20:delivered-message-changed", detail: fmt.Sprintf("the delivered GetEndpointsResponse no longer encodes after an OPN exchange on another connection: %v", err)}
		case !bytes.Equal(enc, snap):
			return runResult{status: "violation", key: "c20:delivered-message-changed",
				detail: fmt.Sprintf("the GetEndpointsResponse delivered on the discovery connection changed after an OPN chunk (sender certificate #%d, %d bytes, advertised %d bytes) arrived on another connection configured with Endpoints[0].ServerCertificate", i, len(sender), len(adv.Cert))}
		}
		log = append(log, fmt.Sprintf("sender certificate #%d (%d bytes): delivered message unchanged", i, len(sender)))
	}
	return runResult{status: "ok", obs: map[string]any{"log": log, "messages_compared": 3}}
}

func respHeader(h uint32) *ua.ResponseHeader {
	return &ua.ResponseHeader{Timestamp: time.Now(), RequestHandle: h, ServiceDiagnostics: &ua.DiagnosticInfo{}, StringTable: []string{}, AdditionalHeader: ua.NewExtensionObject(nil)}
}

func chanpairMode(m string) ua.MessageSecurityMode {
	switch m {
	case "Sign":
		return ua.MessageSecurityModeSign
	case "SignAndEncrypt":
		return ua.MessageSecurityModeSignAndEncrypt
	}
	return ua.MessageSecurityModeNone
}

// openWithForeignCert: a client channel whose RemoteCertificate is remoteCert (not copied) opens against
// a scripted peer that answers the OPN request with an OPN chunk carrying senderCert and a random body.
func openWithForeignCert(pol, mode string, remoteCert, senderCert []byte) error {
	l, err := net.Listen("tcp", "127.0.0.1:0")
	if err != nil {
		return err
	}
	port := l.Addr().(*net.TCPAddr).Port
	l.Close()
	ep := fmt.Sprintf("opc.tcp://127.0.0.1:%d", port)
	ctx, cancel := context.WithTimeout(context.Background(), 30*time.Second)
	defer cancel()
	ack := &uacp.Acknowledge{ReceiveBufSize: 65535, SendBufSize: 65535, MaxChunkCount: 512, MaxMessageSize: 2 << 20}
	ln, err := uacp.Listen(ctx, ep, ack)
	if err != nil {
		return fmt.Errorf("listen: %w", err)
	}
	defer ln.Close()
	type acc struct {
		c   *uacp.Conn
		err error
	}
	ach := make(chan acc, 1)
	go func() { c, err := ln.Accept(ctx); ach <- acc{c, err} }()
	cconn, err := (&uacp.Dialer{Dialer: &net.Dialer{Timeout: 5 * time.Second}}).Dial(ctx, ep)
	if err != nil {
		return fmt.Errorf("dial: %w", err)
	}
	defer cconn.Close()
	a := <-ach
	if a.err != nil {
		return fmt.Errorf("accept: %w", a.err)
	}
	defer a.c.Close()
	ck := keys.Get("2048a")
	th := sha1.Sum(remoteCert)
	cfg := &uasc.Config{SecurityPolicyURI: ua.FormatSecurityPolicyURI(pol), SecurityMode: chanpairMode(mode), Certificate: ck.Cert, LocalKey: ck.Key,
		RemoteCertificate: remoteCert, Thumbprint: th[:], Lifetime: 3600000, RequestTimeout: 600 * time.Millisecond}
	cl, err := uasc.NewSecureChannel(ep, cconn, cfg, make(chan error, 16))
	if err != nil {
		return fmt.Errorf("client channel: %w", err)
	}
	done := make(chan error, 1)
	go func() {
		octx, ocancel := context.WithTimeout(ctx, 8*time.Second)
		defer ocancel()
		done <- cl.Open(octx)
	}()
	a.c.SetReadDeadline(time.Now().Add(10 * time.Second))
	if _, err := a.c.Receive(); err != nil {
		return fmt.Errorf("no OPN request: %w", err)
	}
	junk := make([]byte, 256)
	crand.Read(junk)
	fr := rawFrame("OPN", 'F', cat(le32(7), uaBytes([]byte(ua.FormatSecurityPolicyURI(pol))), uaBytes(senderCert), uaBytes(th[:]), junk))
	a.c.SetWriteDeadline(time.Now().Add(5 * time.Second))
	a.c.Write(fr)
	select {
	case <-done:
	case <-time.After(20 * time.Second):
	}
	go cl.Close()
	return nil
}
