package main

import (
	"bytes"
	"fmt"
	"sync"
	"time"

	"github.com/gopcua/opcua/ua"
	"github.com/gopcua/opcua/uasc"

	"verifharness/vfgo"
)

// ---- C20: delivered messages never change afterwards ------------------------------------

type keptMsg struct {
	body    any
	encoded []byte // ua.Encode(body) at delivery
	raw     []byte // copy of the payload byte string at delivery
	dig     string
}

func payloadOf(body any) []byte {
	switch x := body.(type) {
	case *ua.WriteRequest:
		if len(x.NodesToWrite) == 1 && x.NodesToWrite[0].Value != nil && x.NodesToWrite[0].Value.Value != nil {
			b, _ := x.NodesToWrite[0].Value.Value.Value().([]byte)
			return b
		}
	case *ua.ReadResponse:
		if len(x.Results) == 1 && x.Results[0] != nil && x.Results[0].Value != nil {
			b, _ := x.Results[0].Value.Value().([]byte)
			return b
		}
	}
	return nil
}

// keepBody runs in the receive goroutine, before the next frame is read.
func (r *rec) keepBody(body any) {
	if !r.keep || body == nil {
		return
	}
	enc, err := ua.Encode(body)
	if err != nil {
		return
	}
	p := payloadOf(body)
	r.mu.Lock()
	r.kept = append(r.kept, keptMsg{body: body, encoded: enc, raw: append([]byte(nil), p...), dig: dig(p)})
	r.mu.Unlock()
}

type ACase struct {
	N        int   `json:"n"`
	Prop     string `json:"prop"`
	Channels []Beh `json:"channels"`
}

func runAlias(c *ACase) runResult {
	type chres struct {
		err     string
		changed []string
		n       int
		multi   int
	}
	res := make([]chres, len(c.Channels))
	var wg sync.WaitGroup
	for i := range c.Channels {
		wg.Add(1)
		go func(i int) {
			defer wg.Done()
			b := &c.Channels[i]
			g, err := openRig(rigOpts{Policy: b.Policy, Mode: b.Mode, Side: b.Side})
			if err != nil {
				res[i].err = "open: " + err.Error()
				return
			}
			defer g.close()
			g.r.mu.Lock()
			g.r.keep = true
			g.r.mu.Unlock()
			_, _, _, maxBody, _ := uasc.VerifActive(g.sendCh)
			sent := map[string]bool{}
			round := func(salt int64, rev bool) bool {
				for k := range b.Plan {
					m := k
					if rev {
						m = len(b.Plan) - 1 - k
					}
					p := payload(uint32(m+1), payloadSize(b.Plan[m].N, maxBody)+int(salt%7), vfgo.Seed()+salt+int64(i)*1000)
					sent[dig(p)] = true
					if err := g.sendReal(uint32(m+1)+uint32(salt), p); err != nil {
						res[i].err = "send: " + err.Error()
						return false
					}
				}
				fp := payload(fenceTag, 64, vfgo.Seed()+salt+int64(i))
				if err := g.sendReal(fenceTag, fp); err != nil {
					res[i].err = "fence: " + err.Error()
					return false
				}
				fd := dig(fp)
				if !g.r.waitFor(func(evs []Ev) bool {
					for _, e := range evs {
						if e.Ev == "ret" && e.Dig == fd {
							return true
						}
					}
					return false
				}, 20*time.Second) {
					res[i].err = "fence not delivered"
					return false
				}
				return true
			}
			// three rounds of traffic with different contents; snapshots are compared at the very end
			if !round(11, false) || !round(23, true) || !round(37, false) {
				return
			}
			g.r.mu.Lock()
			kept := append([]keptMsg(nil), g.r.kept...)
			g.r.mu.Unlock()
			res[i].n = len(kept)
			for j, k := range kept {
				enc, err := ua.Encode(k.body)
				now := payloadOf(k.body)
				switch {
				case err != nil:
					res[i].changed = append(res[i].changed, fmt.Sprintf("message %d no longer encodes: %v", j, err))
				case !bytes.Equal(enc, k.encoded):
					res[i].changed = append(res[i].changed, fmt.Sprintf("message %d (%T, %d bytes) re-encodes differently after later traffic", j, k.body, len(enc)))
				case !bytes.Equal(now, k.raw):
					res[i].changed = append(res[i].changed, fmt.Sprintf("message %d: byte string changed after later traffic", j))
				case len(k.raw) > 100 && !sent[k.dig]:
					res[i].changed = append(res[i].changed, fmt.Sprintf("message %d: delivered byte string is not one that was sent", j))
				}
				if len(k.raw) > int(maxBody) {
					res[i].multi++
				}
			}
			want := 3 * (len(b.Plan) + 1)
			if len(kept) != want {
				res[i].err = fmt.Sprintf("%d messages delivered, specification says %d", len(kept), want)
			}
		}(i)
	}
	wg.Wait()
	total, multi := 0, 0
	for i, r := range res {
		if len(r.changed) > 0 {
			return runResult{status: "violation", key: "c20:delivered-message-changed",
				detail: fmt.Sprintf("channel %d (%s receiver, %s): %v", i, c.Channels[i].Side, c.Channels[i].Mode, r.changed)}
		}
		if r.err != "" {
			return runResult{status: "inconclusive", detail: fmt.Sprintf("channel %d: %s", i, r.err)}
		}
		total += r.n
		multi += r.multi
	}
	return runResult{status: "ok", obs: map[string]any{"channels": len(res), "messages_compared": total, "multi_chunk": multi}}
}
