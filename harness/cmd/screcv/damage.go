package main

import (
	"crypto/rand"
	"encoding/binary"
	"fmt"
	mrand "math/rand"

	"github.com/gopcua/opcua/ua"
	"github.com/gopcua/opcua/uapolicy"
	"github.com/gopcua/opcua/uasc"

	"verifharness/vfgo"
)

// layout of a symmetric MSG chunk on the wire
type layout struct {
	mode   string
	sigLen int
	block  int
}

func (l layout) region(name string, n int) (lo, hi int, ok bool) {
	switch name {
	case "hdr.type":
		return 0, 3, true
	case "hdr.chunk":
		return 3, 4, true
	case "hdr.size":
		return 4, 8, true
	case "hdr.chan":
		return 8, 12, true
	case "tok":
		return 12, 16, true
	case "seqhdr":
		return 16, 24, n >= 24
	case "body":
		return 24, n - l.sigLen, n-l.sigLen > 24
	case "sig":
		return n - l.sigLen, n, n-l.sigLen >= 24
	}
	return 0, 0, false
}

func setSize(b []byte) []byte {
	binary.LittleEndian.PutUint32(b[4:], uint32(len(b)))
	return b
}

// damager returns the concretisation of the specification's damage classes for the rig:
// seeded bytes inside the region / length range the class names.  pos >= 0 selects an exact
// byte position / length (sweeps).
func damager(g *rig, b *Beh) func([]byte, Step) [][]byte {
	chanID, tokID, _, _, _ := uasc.VerifActive(g.recvCh)
	algo := uasc.VerifInstanceAlgo(g.sendCh, chanID, tokID)
	if algo == nil {
		return nil
	}
	l := layout{mode: b.Mode, sigLen: algo.SignatureLength(), block: algo.BlockSize()}
	rnd := vfgo.Rand(int64(b.N)*131 + b.Salt + 17)
	var wrong *uapolicy.EncryptionAlgorithm
	return func(f []byte, st Step) [][]byte {
		n := len(f)
		flip := func(lo, hi int) {
			k := 1
			if rnd.Intn(3) == 0 {
				k = 2 + rnd.Intn(6) // multi-byte modification
			}
			for i := 0; i < k; i++ {
				p := lo + rnd.Intn(hi-lo)
				f[p] ^= byte(1 + rnd.Intn(255))
			}
		}
		cut := func(n2 int) [][]byte {
			if n2 < 8 {
				n2 = 8
			}
			if n2 > n {
				n2 = n
			}
			return [][]byte{setSize(f[:n2])}
		}
		if st.In == "inject" {
			// a frame of the adversary's own making; f is nil
			row := &GRow{Side: b.Side, Mode: b.Mode, Policy: b.Policy}
			switch st.Dmg {
			case "opn.none":
				jb := make([]byte, 80)
				rnd.Read(jb)
				return [][]byte{rawFrame("OPN", 'F', cat(le32(chanID), uaBytes([]byte(ua.SecurityPolicyURINone)), uaBytes(nil), uaBytes(nil), le32(1), le32(1), jb))}
			default:
				row.Class = st.Dmg
				fr := garbageFrames(row, chanID, tokID, 1, rnd)
				if len(fr) == 0 {
					panic("no frame for inject class " + st.Dmg)
				}
				return fr[:1]
			}
		}
		if b.Sweep != "" {
			return sweepDamage(f, b, st, l)
		}
		switch st.Dmg {
		case "hdr.type.clo":
			copy(f, "CLO")
			return [][]byte{f}
		case "hdr.type":
			for {
				flip(0, 3)
				t := string(f[:3])
				if t != "MSG" && t != "CLO" && t != "OPN" && t != "ERR" { // other meanings are classes of their own
					break
				}
			}
			return [][]byte{f}
		case "hdr.size":
			// a size that keeps the uacp layer going: smaller than the chunk, at least the uacp header
			old := binary.LittleEndian.Uint32(f[4:])
			nw := uint32(8 + rnd.Intn(n-8))
			if rnd.Intn(2) == 0 {
				nw = old + uint32(1+rnd.Intn(64))
			}
			binary.LittleEndian.PutUint32(f[4:], nw)
			return [][]byte{f}
		case "hdr.chunk", "hdr.chan", "tok", "seqhdr", "body", "sig":
			lo, hi, ok := l.region(st.Dmg, n)
			if !ok {
				lo, hi = 16, n
			}
			if st.Dmg == "hdr.chunk" {
				alts := []byte{'C', 'F', 'A', 'X', 0}
				for {
					c := alts[rnd.Intn(len(alts))]
					if c != f[3] {
						f[3] = c
						break
					}
				}
				return [][]byte{f}
			}
			flip(lo, hi)
			return [][]byte{f}
		case "trunc.lt12":
			return cut(8 + rnd.Intn(4))
		case "trunc.lt16":
			return cut(12 + rnd.Intn(4))
		case "trunc.ltsig":
			if l.mode == "Sign" {
				return cut(16 + rnd.Intn(l.sigLen-16))
			}
			return cut(16) // nothing left to decrypt
		case "trunc.short":
			if l.mode == "Sign" {
				return cut(l.sigLen + rnd.Intn(24+l.sigLen-l.sigLen))
			}
			k := (24 + l.sigLen) / l.block // whole cipher blocks, fewer than header + signature need
			return cut(16 + l.block*(1+rnd.Intn(k)))
		case "trunc.minus1":
			return cut(n - 1)
		case "trunc.block":
			if l.mode == "Sign" {
				return cut(n - 1 - rnd.Intn(n-25))
			}
			return cut(n - l.block)
		case "extend":
			k := 1 + rnd.Intn(40)
			if l.mode != "Sign" && rnd.Intn(2) == 0 {
				k = l.block * (1 + rnd.Intn(3)) // keeps the cipher text block aligned
			}
			ext := make([]byte, k)
			rnd.Read(ext)
			return [][]byte{setSize(append(f, ext...))}
		case "forge.nokeys":
			// a chunk of the same shape made without any key: header kept, everything after it invented
			from := 16
			if l.mode == "Sign" {
				from = 24 // the sequence header is plain text: keep a plausible one
			}
			for i := from; i < n; i++ {
				f[i] = byte(rnd.Intn(256))
			}
			return [][]byte{f}
		case "forge.wrongkeys":
			// a well-formed chunk protected with keys derived from other nonces
			if wrong == nil {
				var err error
				wrong, err = wrongAlgo(b.Policy, algo)
				if err != nil {
					panic("wrong keys: " + err.Error())
				}
			}
			rs := &refSender{mode: b.Mode, algo: wrong, chanID: chanID, tokID: tokID}
			body, _ := encodeBody(b.Side, 77, payload(4242, 100, vfgo.Seed()))
			fr, err := rs.chunk(f[3], uint32(int32(st.Seq)), 1, body)
			if err != nil {
				panic("forge: " + err.Error())
			}
			return [][]byte{fr}
		}
		panic("unknown damage class " + st.Dmg)
	}
}

func wrongAlgo(policy string, like *uapolicy.EncryptionAlgorithm) (*uapolicy.EncryptionAlgorithm, error) {
	n := like.NonceLength()
	if n == 0 {
		n = 32
	}
	a, b := make([]byte, n), make([]byte, n)
	rand.Read(a)
	rand.Read(b)
	return uapolicy.Symmetric(ua.FormatSecurityPolicyURI(policy), a, b)
}

// sweepDamage: the j-th chunk of a sweep behaviour is damaged at byte j / cut to length 8+j.
func sweepDamage(f []byte, b *Beh, st Step, l layout) [][]byte {
	j := st.ID - 1 + b.SweepFrom
	n := len(f)
	switch b.Sweep {
	case "byte":
		p := j % n
		if p >= 4 && p < 8 {
			p = 8 + (p - 4) // the size field is the desync class, not part of the sweep
		}
		r := mrand.New(mrand.NewSource(vfgo.Seed()*977 + int64(j)))
		f[p] ^= byte(1 + r.Intn(255))
		if p < 3 {
			t := string(f[:3])
			if t == "CLO" || t == "OPN" || t == "ERR" || t == "MSG" {
				f[p] ^= 0x80
			}
		}
		return [][]byte{f}
	case "trunc":
		n2 := 8 + j%(n-8)
		return [][]byte{setSize(f[:n2])}
	}
	panic(fmt.Sprintf("unknown sweep %q", b.Sweep))
}
