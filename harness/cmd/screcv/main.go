// Command screcv binds spec/ScRecv (receive side of the secure channel, properties C09 C10
// C12 C13 C17 C20) to the real uasc channels: every case is a behaviour or row emitted by
// TLC; the base stream is produced by the real gopcua sender or by the reference chunk
// writer, the adversary moves are applied by the frame proxy of harness/chanpair, and the
// receiver's events (recv.chunk hook, Receive returns) are compared with the outcomes the
// specification computed.  Cases run in child processes so that a panic inside a channel
// goroutine is an observation, not the end of the run.
package main

import (
	"bufio"
	"bytes"
	"encoding/json"
	"flag"
	"fmt"
	"os"
	"sort"
	"strings"
	"sync"
	"time"

	"verifharness/vfgo"
)

var (
	parFlag   = flag.Int("par", 6, "child processes in parallel")
	batchFlag = flag.Int("batch", 24, "cases per child")
	traceOut  = flag.String("trace", "", "write recorded traces (ndjson) for TLC trace validation")
)

type childRes struct {
	N      int    `json:"n"`
	Status string `json:"status"`
	Key    string `json:"key,omitempty"`
	Detail string `json:"detail,omitempty"`
	Class  string `json:"class,omitempty"`
	Obs    any    `json:"obs,omitempty"`
	Trace  []any  `json:"trace,omitempty"`
}

type genericCase struct {
	N    int    `json:"n"`
	Prop string `json:"prop"`
}

func main() {
	vfgo.Init()
	defer vfgo.Flush()
	if *vfgo.ChildFlag != "" {
		child()
		return
	}
	raw := vfgo.Cases[json.RawMessage]()
	type item struct {
		n   int
		raw json.RawMessage
	}
	items := make([]item, len(raw))
	for i, r := range raw {
		// number the cases
		var m map[string]any
		if err := json.Unmarshal(r, &m); err != nil {
			vfgo.Fatalf("bad case: %v", err)
		}
		m["n"] = i
		b, _ := json.Marshal(m)
		items[i] = item{i, b}
	}
	results := make([]*childRes, len(items))
	var traces []any
	var mu sync.Mutex
	runBatch := func(batch []item, single bool) (missing []item, out vfgo.ChildOutcome) {
		var in bytes.Buffer
		for _, it := range batch {
			in.Write(it.raw)
			in.WriteByte('\n')
		}
		out = vfgo.RunChild("cases", in.Bytes(), time.Duration(60+20*len(batch))*time.Second, "GOMEMLIMIT=1500MiB")
		got := map[int]bool{}
		sc := bufio.NewScanner(bytes.NewReader(out.Stdout))
		sc.Buffer(make([]byte, 1<<20), 1<<28)
		for sc.Scan() {
			line := sc.Bytes()
			if !bytes.HasPrefix(line, []byte("RES ")) {
				continue
			}
			var r childRes
			if json.Unmarshal(line[4:], &r) != nil {
				continue
			}
			mu.Lock()
			if r.N >= 0 && r.N < len(results) && results[r.N] == nil {
				rr := r
				results[r.N] = &rr
				traces = append(traces, r.Trace...)
			}
			mu.Unlock()
			got[r.N] = true
		}
		for _, it := range batch {
			if !got[it.n] {
				missing = append(missing, it)
			}
		}
		return
	}
	// cases for which the as-is configuration predicts a crash run alone, the others in batches
	var batches [][]item
	var rest []item
	for _, it := range items {
		if bytes.Contains(it.raw, []byte(`"asis":"panic"`)) || bytes.Contains(it.raw, []byte(`"expect_panic":true`)) {
			batches = append(batches, []item{it})
		} else {
			rest = append(rest, it)
		}
	}
	for i := 0; i < len(rest); i += *batchFlag {
		j := i + *batchFlag
		if j > len(rest) {
			j = len(rest)
		}
		batches = append(batches, rest[i:j])
	}
	sem := make(chan struct{}, *parFlag)
	var wg sync.WaitGroup
	for _, b := range batches {
		wg.Add(1)
		sem <- struct{}{}
		go func(b []item) {
			defer wg.Done()
			defer func() { <-sem }()
			missing, _ := runBatch(b, false)
			// a child that died took its unfinished cases with it: run those alone
			for _, it := range missing {
				m2, out := runBatch([]item{it}, true)
				if len(m2) == 0 {
					continue
				}
				var gc genericCase
				json.Unmarshal(it.raw, &gc)
				r := &childRes{N: it.n}
				switch {
				case out.Panic && !libraryPanic(out.Stderr):
					r.Status, r.Detail = "inconclusive", "the harness itself panicked: "+vfgo.PanicHead(out.Stderr)
				case out.Panic:
					r.Status, r.Key = "violation", strings.ToLower(gc.Prop)+":panic:"+panicSite(out.Stderr)
					r.Detail = "the process running the channel panicked: " + vfgo.PanicHead(out.Stderr)
					// a panic the as-is configuration predicts is named by the input that triggers it
					var gr GRow
					if json.Unmarshal(it.raw, &gr) == nil && gr.Kind == "garbage" {
						r.Class = garbageClass(&gr)
						r.Key = fmt.Sprintf("c13:%s-%s-%s-%s:panic", gr.Class, gr.Side, gr.Phase, gr.Mode)
					}
					var b Beh
					if gr.Kind != "garbage" && json.Unmarshal(it.raw, &b) == nil {
						r.Class = behClass(&b)
						for _, st := range b.Steps {
							if st.Asis == "panic" && st.Expect != "panic" && strings.Contains(out.Stderr, "verifyAndDecrypt") {
								r.Key = strings.ToLower(gc.Prop) + ":" + shape(st) + "-panic"
								break
							}
						}
					}
				case out.TimedOut:
					r.Status, r.Detail = "inconclusive", "child timed out"
				default:
					r.Status, r.Detail = "inconclusive", fmt.Sprintf("child exit %d %s: %s", out.Exit, out.Signal, tail(out.Stderr, 400))
				}
				mu.Lock()
				results[it.n] = r
				mu.Unlock()
			}
		}(b)
	}
	wg.Wait()
	for i, r := range results {
		var c any
		json.Unmarshal(items[i].raw, &c)
		if r == nil {
			vfgo.Inconclusive(c, "no result")
			continue
		}
		vfgo.Emit(vfgo.Result{Case: slim(c), Status: r.Status, Key: r.Key, Detail: r.Detail, Class: r.Class, Nontrivial: r.Class != "", Obs: r.Obs})
	}
	if *traceOut != "" {
		f, err := os.Create(*traceOut)
		if err == nil {
			w := bufio.NewWriter(f)
			for _, t := range traces {
				b, _ := json.Marshal(t)
				w.Write(b)
				w.WriteByte('\n')
			}
			w.Flush()
			f.Close()
		}
	}
}

// slim drops the bulky parts of a case for the result file.
func slim(c any) any {
	m, ok := c.(map[string]any)
	if !ok {
		return c
	}
	out := map[string]any{}
	for k, v := range m {
		if k == "chunks" {
			continue
		}
		out[k] = v
	}
	return out
}

func tail(s string, n int) string {
	if len(s) > n {
		return s[len(s)-n:]
	}
	return s
}

// libraryPanic: the panicking goroutine runs library code all the way down, or was entered
// from the harness's receive loop (openRig) -- and not from other harness code.
func libraryPanic(stderr string) bool {
	i := strings.Index(stderr, "goroutine ")
	if i < 0 {
		return false
	}
	block := stderr[i:]
	if j := strings.Index(block, "\n\n"); j > 0 {
		block = block[:j]
	}
	sawLib := false
	for _, line := range strings.Split(block, "\n") {
		line = strings.TrimSpace(line)
		if strings.HasPrefix(line, "github.com/gopcua/opcua/") {
			sawLib = true
		}
		if strings.HasPrefix(line, "main.") {
			return sawLib && strings.HasPrefix(line, "main.openRig")
		}
	}
	return sawLib
}

// panicSite names the first frame of the library in a panic trace (for the key).
func panicSite(stderr string) string {
	for _, line := range strings.Split(stderr, "\n") {
		line = strings.TrimSpace(line)
		if strings.HasPrefix(line, "github.com/gopcua/opcua/") && strings.Contains(line, "(") {
			f := strings.TrimPrefix(line, "github.com/gopcua/opcua/")
			if i := strings.LastIndex(f, "("); i > 0 {
				f = f[:i]
			}
			f = strings.NewReplacer("(*", "", ")", "", "/", ".").Replace(f)
			return f
		}
	}
	return "unknown"
}

// ---- child: run the cases given on stdin ------------------------------------

func child() {
	installHook()
	var lines [][]byte
	sc := bufio.NewScanner(os.Stdin)
	sc.Buffer(make([]byte, 1<<20), 1<<28)
	for sc.Scan() {
		if len(bytes.TrimSpace(sc.Bytes())) > 0 {
			lines = append(lines, append([]byte(nil), sc.Bytes()...))
		}
	}
	var omu sync.Mutex
	emit := func(r childRes) {
		b, _ := json.Marshal(r)
		omu.Lock()
		os.Stdout.Write(append(append([]byte("RES "), b...), '\n'))
		omu.Unlock()
	}
	par := 4
	if len(lines) == 1 {
		par = 1
	}
	sem := make(chan struct{}, par)
	var wg sync.WaitGroup
	for _, l := range lines {
		var gc genericCase
		if err := json.Unmarshal(l, &gc); err != nil {
			continue
		}
		wg.Add(1)
		sem <- struct{}{}
		go func(l []byte, gc genericCase) {
			defer wg.Done()
			defer func() { <-sem }()
			emit(dispatch(l, gc))
		}(l, gc)
	}
	wg.Wait()
}

func dispatch(l []byte, gc genericCase) childRes {
	if gc.Prop == "C13" && bytes.Contains(l, []byte(`"kind":"garbage"`)) {
		var row GRow
		if err := json.Unmarshal(l, &row); err != nil {
			return childRes{N: gc.N, Status: "inconclusive", Detail: "bad row: " + err.Error()}
		}
		var rr runResult
		for try := 0; try < 3; try++ {
			if rr = runGarbage(&row); rr.status != "inconclusive" {
				break
			}
		}
		return childRes{N: row.N, Status: rr.status, Key: rr.key, Detail: rr.detail, Class: garbageClass(&row), Obs: rr.obs}
	}
	if gc.Prop == "C20" {
		var c ACase
		if err := json.Unmarshal(l, &c); err != nil {
			return childRes{N: gc.N, Status: "inconclusive", Detail: "bad case: " + err.Error()}
		}
		var rr runResult
		for try := 0; try < 2; try++ {
			if rr = runAlias(&c); rr.status != "inconclusive" {
				break
			}
		}
		cl := "C20" + c.Kind
		for _, b := range c.Channels {
			cl += fmt.Sprintf("/%s-%s-", b.Side, b.Mode)
			for _, pm := range b.Plan {
				cl += fmt.Sprint(pm.N)
			}
		}
		return childRes{N: c.N, Status: rr.status, Key: rr.key, Detail: rr.detail, Class: cl, Obs: rr.obs}
	}
	if gc.Prop == "C17" {
		var c ECase
		if err := json.Unmarshal(l, &c); err != nil {
			return childRes{N: gc.N, Status: "inconclusive", Detail: "bad case: " + err.Error()}
		}
		var rr runResult
		for try := 0; try < 2; try++ {
			if rr = runExpire(&c); rr.status != "inconclusive" {
				break
			}
		}
		sig := ""
		for _, st := range c.Steps {
			sig += fmt.Sprintf("%s%d@%d,", st.Act[:1], st.T, st.Now)
		}
		return childRes{N: c.N, Status: rr.status, Key: rr.key, Detail: rr.detail, Class: fmt.Sprintf("C17/%s/%s/%s/%s", c.Side, c.Policy, c.Mode, sig), Obs: rr.obs}
	}
	switch gc.Prop {
	case "C10", "C09", "C12", "C13":
		var b Beh
		if err := json.Unmarshal(l, &b); err != nil {
			return childRes{N: gc.N, Status: "inconclusive", Detail: "bad behaviour: " + err.Error()}
		}
		b.norm()
		return runBeh(&b)
	}
	return childRes{N: gc.N, Status: "inconclusive", Detail: "unknown property " + gc.Prop}
}

func garbageClass(r *GRow) string {
	return fmt.Sprintf("C13/garbage/%s/%s/%s/%s", r.Side, r.Mode, r.Phase, r.Class)
}

func behClass(b *Beh) string {
	if b.Kind == "flood" {
		return fmt.Sprintf("C13/flood/%s/%s/%s/%dmsgs-%dchunks", b.Side, b.Mode, b.Split, len(b.Plan), len(b.Chunks))
	}
	var mv []string
	for _, st := range b.Steps {
		if st.In != "pass" {
			mv = append(mv, shape(st)+">"+st.Expect)
		}
	}
	sort.Strings(mv)
	return fmt.Sprintf("%s/%s/%s/%s/%s", b.Prop, b.Side, b.Policy, b.Mode, strings.Join(mv, ","))
}

func runBeh(b *Beh) childRes {
	var rr runResult
	for try := 0; try < 3; try++ {
		switch {
		case b.Kind == "flood":
			rr = runFlood(b)
		case b.Sender == "ref":
			rr = runBehRef(b)
		default:
			var dmg func(g *rig) func([]byte, Step) [][]byte
			for _, st := range b.Steps {
				if st.In == "damage" || st.In == "inject" {
					dmg = func(g *rig) func([]byte, Step) [][]byte { return damager(g, b) }
				}
			}
			rr = runBehReal(b, dmg)
		}
		if rr.status != "inconclusive" {
			break
		}
	}
	return childRes{N: b.N, Status: rr.status, Key: rr.key, Detail: rr.detail, Class: behClass(b), Obs: rr.obs, Trace: rr.trace}
}
