module verifharness

go 1.23

require github.com/gopcua/opcua v0.0.0

replace github.com/gopcua/opcua => /repo
