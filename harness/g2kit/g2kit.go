// Package g2kit holds what the family G2 harness commands (reglin, monitor, serverlive)
// share: starting the real gopcua server with a few read/write variable nodes on a free
// loopback port (always inside a child process), connecting real clients, raw requests
// with a chosen authentication token, and the ndjson line protocol child -> parent.
package g2kit

import (
	"bufio"
	"bytes"
	"context"
	"encoding/json"
	"fmt"
	"net"
	"os"
	"sync"
	"time"

	"github.com/gopcua/opcua"
	"github.com/gopcua/opcua/id"
	"github.com/gopcua/opcua/server"
	"github.com/gopcua/opcua/ua"
	"github.com/gopcua/opcua/uasc"
)

// Srv is a running server with its variable nodes.
type Srv struct {
	S     *server.Server
	URL   string
	NS    *server.NodeNameSpace
	Nodes []*ua.NodeID // ns=1;s=n1 ...
	RO    *ua.NodeID   // ns=1;s=r1: Int64 0, AccessLevel = CurrentRead only (writes are refused)
	Map   *server.MapNamespace
	Keys  []*ua.NodeID // ns=2;s=m1 ... : keys of the map namespace (Int64 0), same number as Nodes
}

// KeyName is the key of map entry i (0-based): "m1", "m2", ...
func KeyName(i int) string { return fmt.Sprintf("m%d", i+1) }

func freePort() (int, error) {
	l, err := net.Listen("tcp", "127.0.0.1:0")
	if err != nil {
		return 0, err
	}
	p := l.Addr().(*net.TCPAddr).Port
	l.Close()
	return p, nil
}

// NodeName is the string identifier of variable node i (0-based): "n1", "n2", ...
func NodeName(i int) string { return fmt.Sprintf("n%d", i+1) }

// Start starts a server (policy None, anonymous) with n Int64 variable nodes (value 0,
// readable and writable) in namespace 1.  Port collisions are retried.
func Start(n int) (*Srv, error) { return StartFn(n, nil) }

// StartFn is Start with a chosen initial value per node: value(i) may also be a
// func() *ua.DataValue, which makes node i a callback-backed variable (server.ValueFunc).
func StartFn(n int, value func(i int) any) (*Srv, error) {
	var last error
	for try := 0; try < 6; try++ {
		port, err := freePort()
		if err != nil {
			last = err
			continue
		}
		s := server.New(
			server.EndPoint("127.0.0.1", port),
			server.EnableSecurity("None", ua.MessageSecurityModeNone),
			server.EnableAuthMode(ua.UserTokenTypeAnonymous),
		)
		ns := server.NewNodeNameSpace(s, "g2")
		root, _ := s.Namespace(0)
		root.Objects().AddRef(ns.Objects(), id.HasComponent, true)
		res := &Srv{S: s, NS: ns, URL: fmt.Sprintf("opc.tcp://127.0.0.1:%d", port)}
		for i := 0; i < n; i++ {
			var v any = int64(0)
			if value != nil {
				v = value(i)
			}
			nd := ns.AddNewVariableStringNode(NodeName(i), v)
			ns.Objects().AddRef(nd, id.HasComponent, true)
			res.Nodes = append(res.Nodes, nd.ID())
		}
		ro := ns.AddNewVariableStringNode("r1", int64(0))
		ro.SetAttribute(ua.AttributeIDAccessLevel, server.DataValueFromValue(byte(ua.AccessLevelTypeCurrentRead)))
		ro.SetAttribute(ua.AttributeIDUserAccessLevel, server.DataValueFromValue(byte(ua.AccessLevelTypeCurrentRead)))
		ns.Objects().AddRef(ro, id.HasComponent, true)
		res.RO = ro.ID()
		// a map namespace next to the node namespace (layout of examples/server/map_server)
		mp := server.NewMapNamespace(s, "g2map")
		root.Objects().AddRef(mp.Objects(), id.HasComponent, true)
		res.Map = mp
		for i := 0; i < n; i++ {
			mp.Data[KeyName(i)] = int64(0)
			res.Keys = append(res.Keys, ua.NewStringNodeID(mp.ID(), KeyName(i)))
		}
		if err := s.Start(context.Background()); err != nil {
			last = err
			time.Sleep(50 * time.Millisecond)
			continue
		}
		return res, nil
	}
	return nil, fmt.Errorf("cannot start server: %v", last)
}

// Connect returns a real client with an activated session.
func Connect(url string, reqTimeout time.Duration, opts ...opcua.Option) (*opcua.Client, error) {
	var last error
	for try := 0; try < 3; try++ {
		o := append([]opcua.Option{opcua.SecurityMode(ua.MessageSecurityModeNone), opcua.AutoReconnect(false),
			opcua.RequestTimeout(reqTimeout)}, opts...)
		c, err := opcua.NewClient(url, o...)
		if err != nil {
			return nil, err
		}
		ctx, cancel := context.WithTimeout(context.Background(), 10*time.Second)
		err = c.Connect(ctx)
		cancel()
		if err == nil {
			return c, nil
		}
		last = err
		time.Sleep(100 * time.Millisecond)
	}
	return nil, last
}

func CloseClient(c *opcua.Client) {
	if c == nil {
		return
	}
	ctx, cancel := context.WithTimeout(context.Background(), 2*time.Second)
	defer cancel()
	c.Close(ctx)
}

// Raw is a client whose secure channel is open but which has no session of its own:
// every request is sent with an explicitly chosen authentication token.
type Raw struct {
	C  *opcua.Client
	SC *uasc.SecureChannel
}

func DialRaw(url string, reqTimeout time.Duration) (*Raw, error) {
	var last error
	for try := 0; try < 3; try++ {
		c, err := opcua.NewClient(url, opcua.SecurityMode(ua.MessageSecurityModeNone), opcua.AutoReconnect(false),
			opcua.RequestTimeout(reqTimeout))
		if err != nil {
			return nil, err
		}
		ctx, cancel := context.WithTimeout(context.Background(), 5*time.Second)
		err = c.Dial(ctx)
		cancel()
		if err == nil {
			return &Raw{C: c, SC: c.SecureChannel()}, nil
		}
		last = err
		time.Sleep(100 * time.Millisecond)
	}
	return nil, last
}

func (r *Raw) Close() { CloseClient(r.C) }

// Do sends req with the given authentication token (nil = null token) and returns the
// response; a ServiceFault comes back as a status-code error from the channel.
func (r *Raw) Do(req ua.Request, token *ua.NodeID, timeout time.Duration) (ua.Response, error) {
	ctx, cancel := context.WithTimeout(context.Background(), timeout)
	defer cancel()
	var resp ua.Response
	err := r.SC.SendRequestWithTimeout(ctx, req, token, timeout, func(v ua.Response) error {
		resp = v
		return nil
	})
	return resp, err
}

// ReadInt reads the Int64 value of node via c; ok=false when the read failed or the
// result is not a good Int64.
func ReadInt(c *opcua.Client, node *ua.NodeID, timeout time.Duration) (int64, error) {
	ctx, cancel := context.WithTimeout(context.Background(), timeout)
	defer cancel()
	resp, err := c.Read(ctx, &ua.ReadRequest{
		MaxAge:             0,
		TimestampsToReturn: ua.TimestampsToReturnNeither,
		NodesToRead:        []*ua.ReadValueID{{NodeID: node, AttributeID: ua.AttributeIDValue, DataEncoding: &ua.QualifiedName{}}},
	})
	if err != nil {
		return 0, err
	}
	if len(resp.Results) != 1 {
		return 0, fmt.Errorf("read: %d results", len(resp.Results))
	}
	r := resp.Results[0]
	if r.Status != ua.StatusOK {
		return 0, fmt.Errorf("read status %v", r.Status)
	}
	if r.Value == nil {
		return 0, fmt.Errorf("read: no value")
	}
	v, ok := r.Value.Value().(int64)
	if !ok {
		return 0, fmt.Errorf("read: value %T", r.Value.Value())
	}
	return v, nil
}

// WriteInt writes an Int64 value.
func WriteInt(c *opcua.Client, node *ua.NodeID, v int64, timeout time.Duration) error {
	ctx, cancel := context.WithTimeout(context.Background(), timeout)
	defer cancel()
	resp, err := c.Write(ctx, &ua.WriteRequest{NodesToWrite: []*ua.WriteValue{{
		NodeID: node, AttributeID: ua.AttributeIDValue,
		Value: &ua.DataValue{EncodingMask: ua.DataValueValue, Value: ua.MustVariant(v)},
	}}})
	if err != nil {
		return err
	}
	if len(resp.Results) != 1 {
		return fmt.Errorf("write: %d results", len(resp.Results))
	}
	if resp.Results[0] != ua.StatusOK {
		return fmt.Errorf("write status %v", resp.Results[0])
	}
	return nil
}

// ---------------------------------------------------------------------------------------
// child -> parent protocol: ndjson lines on stdout

type Out struct {
	mu sync.Mutex
	w  *bufio.Writer
}

func NewOut() *Out { return &Out{w: bufio.NewWriterSize(os.Stdout, 1<<16)} }

// Put writes one JSON line and flushes (so that the parent sees everything that happened
// before a crash).
func (o *Out) Put(v any) {
	b, err := json.Marshal(v)
	if err != nil {
		b, _ = json.Marshal(map[string]string{"error": err.Error()})
	}
	o.mu.Lock()
	o.w.Write(b)
	o.w.WriteByte('\n')
	o.w.Flush()
	o.mu.Unlock()
}

// Lines decodes the ndjson lines of a child's stdout into T (undecodable lines are skipped).
func Lines[T any](stdout []byte) []T {
	var res []T
	sc := bufio.NewScanner(bytes.NewReader(stdout))
	sc.Buffer(make([]byte, 1<<20), 1<<28)
	for sc.Scan() {
		var v T
		if json.Unmarshal(sc.Bytes(), &v) == nil {
			res = append(res, v)
		}
	}
	return res
}

// Kinds of variant used for tagged values: the same number travels as a different built-in type.
var Kinds = []string{"int64", "uint32", "int32", "double", "string"}

// Tagged encodes (number, kind index) into one integer for the trace: a value that comes
// back with another type is a different value.
func Tagged(v int64, kind int) int64 { return v*10 + int64(kind) }

func variantOf(v int64, kind int) *ua.Variant {
	switch kind {
	case 1:
		return ua.MustVariant(uint32(v))
	case 2:
		return ua.MustVariant(int32(v))
	case 3:
		return ua.MustVariant(float64(v))
	case 4:
		return ua.MustVariant(fmt.Sprintf("%d", v))
	}
	return ua.MustVariant(v)
}

// WriteKind writes number v as a variant of the given kind.
func WriteKind(c *opcua.Client, node *ua.NodeID, v int64, kind int, timeout time.Duration) error {
	return WriteKindTS(c, node, v, kind, time.Time{}, timeout)
}

// WriteKindTS is WriteKind with an explicit source timestamp (zero = none).
func WriteKindTS(c *opcua.Client, node *ua.NodeID, v int64, kind int, ts time.Time, timeout time.Duration) error {
	st, err := WriteKindStatus(c, node, v, kind, ts, timeout)
	if err != nil {
		return err
	}
	if st != ua.StatusOK {
		return fmt.Errorf("write status %v", st)
	}
	return nil
}

// WriteKindStatus returns the status code the server gave the write (err = no answer at all).
func WriteKindStatus(c *opcua.Client, node *ua.NodeID, v int64, kind int, ts time.Time, timeout time.Duration) (ua.StatusCode, error) {
	ctx, cancel := context.WithTimeout(context.Background(), timeout)
	defer cancel()
	dv := &ua.DataValue{EncodingMask: ua.DataValueValue, Value: variantOf(v, kind)}
	if !ts.IsZero() {
		dv.EncodingMask |= ua.DataValueSourceTimestamp
		dv.SourceTimestamp = ts
	}
	resp, err := c.Write(ctx, &ua.WriteRequest{NodesToWrite: []*ua.WriteValue{{
		NodeID: node, AttributeID: ua.AttributeIDValue,
		Value: dv,
	}}})
	if err != nil {
		return 0, err
	}
	if len(resp.Results) != 1 {
		return 0, fmt.Errorf("write results %v", resp.Results)
	}
	return resp.Results[0], nil
}

// ReadTagged reads the Value attribute and returns Tagged(number, kind of the variant read).
func ReadTagged(c *opcua.Client, node *ua.NodeID, timeout time.Duration) (int64, error) {
	return ReadTaggedAge(c, node, 0, timeout)
}

// ReadTaggedAge is ReadTagged with a MaxAge (milliseconds) in the request.
func ReadTaggedAge(c *opcua.Client, node *ua.NodeID, maxAge float64, timeout time.Duration) (int64, error) {
	ctx, cancel := context.WithTimeout(context.Background(), timeout)
	defer cancel()
	resp, err := c.Read(ctx, &ua.ReadRequest{MaxAge: maxAge, TimestampsToReturn: ua.TimestampsToReturnNeither,
		NodesToRead: []*ua.ReadValueID{{NodeID: node, AttributeID: ua.AttributeIDValue, DataEncoding: &ua.QualifiedName{}}}})
	if err != nil {
		return 0, err
	}
	if len(resp.Results) != 1 {
		return 0, fmt.Errorf("read: %d results", len(resp.Results))
	}
	r := resp.Results[0]
	if r.Status != ua.StatusOK || r.Value == nil {
		return 0, fmt.Errorf("read status %v", r.Status)
	}
	switch x := r.Value.Value().(type) {
	case int64:
		return Tagged(x, 0), nil
	case uint32:
		return Tagged(int64(x), 1), nil
	case int32:
		return Tagged(int64(x), 2), nil
	case float64:
		return Tagged(int64(x), 3), nil
	case string:
		var n int64
		if _, err := fmt.Sscanf(x, "%d", &n); err != nil {
			return 0, fmt.Errorf("read: string %q", x)
		}
		return Tagged(n, 4), nil
	}
	return 0, fmt.Errorf("read: value %T", r.Value.Value())
}
