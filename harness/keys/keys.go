// Package keys provides the committed RSA test key pairs (self-signed certificates) used by
// the harness: 512a (too small for every policy), 1024a, 2048a, 2048b, 3072a, 4096a.
package keys

import (
	"crypto/rsa"
	"crypto/x509"
	"embed"
	"encoding/pem"
	"fmt"
	"sync"
)

//go:embed data/*.pem
var fs embed.FS

// Pair is a private key with its DER encoded self-signed certificate.
type Pair struct {
	Name string
	Key  *rsa.PrivateKey
	Cert []byte // DER
}

var (
	cache   = map[string]*Pair{}
	cacheMu sync.Mutex
)

// Names lists all pairs.
var Names = []string{"512a", "1024a", "2048a", "2048b", "3072a", "4096a"}

// Get returns the named pair (e.g. "2048a"); it panics if it does not exist.
func Get(name string) *Pair {
	cacheMu.Lock()
	defer cacheMu.Unlock()
	if p, ok := cache[name]; ok {
		return p
	}
	kb, err := fs.ReadFile("data/" + name + ".key.pem")
	if err != nil {
		panic(fmt.Sprintf("keys: %v", err))
	}
	cb, err := fs.ReadFile("data/" + name + ".cert.pem")
	if err != nil {
		panic(fmt.Sprintf("keys: %v", err))
	}
	kblk, _ := pem.Decode(kb)
	cblk, _ := pem.Decode(cb)
	k, err := x509.ParsePKCS1PrivateKey(kblk.Bytes)
	if err != nil {
		panic(err)
	}
	p := &Pair{Name: name, Key: k, Cert: cblk.Bytes}
	cache[name] = p
	return p
}

// Bits returns the pair with the given modulus size ("a" variant).
func Bits(bits int) *Pair { return Get(fmt.Sprintf("%da", bits)) }
