// Package scriptsrv is a scripted OPC UA server built on real gopcua server
// secure channels (uacp.Listen + uasc.NewServerSecureChannel): the channel layer
// (HEL/ACK, OPN, chunking, crypto) is the code under test's own, every service
// response is decided by the script. Used by the C22 (server signature classes)
// and C21 (response shapes) drivers; the client under test runs in a child process.
package scriptsrv

import (
	"context"
	"fmt"
	"io"
	"net"
	"sync"
	"time"

	"github.com/gopcua/opcua/ua"
	"github.com/gopcua/opcua/uacp"
	"github.com/gopcua/opcua/uasc"

	"verifharness/keys"
)

// Handler decides the response for one request. Returning nil sends nothing.
type Handler func(sc *uasc.SecureChannel, reqID uint32, req ua.Request) ua.Response

// Event is one thing the script saw.
type Event struct {
	Conn int    `json:"conn"`
	Req  string `json:"req"`
}

// Server is a running scripted server.
type Server struct {
	URL     string
	Key     *keys.Pair
	Handler Handler

	ln     *uacp.Listener
	cancel context.CancelFunc
	mu     sync.Mutex
	events []Event
	conns  int
	chans  []*uasc.SecureChannel
	uconns []*uacp.Conn
}

// Start listens on a free loopback port. key is the server's key pair name.
func Start(key string, h Handler) (*Server, error) {
	var lastErr error
	for try := 0; try < 5; try++ {
		l, err := net.Listen("tcp", "127.0.0.1:0")
		if err != nil {
			lastErr = err
			continue
		}
		port := l.Addr().(*net.TCPAddr).Port
		l.Close()
		url := fmt.Sprintf("opc.tcp://127.0.0.1:%d", port)
		ctx, cancel := context.WithCancel(context.Background())
		ack := *uacp.DefaultServerACK
		ln, err := uacp.Listen(ctx, url, &ack)
		if err != nil {
			cancel()
			lastErr = err
			continue
		}
		s := &Server{URL: url, Key: keys.Get(key), Handler: h, ln: ln, cancel: cancel}
		go s.accept(ctx)
		return s, nil
	}
	return nil, lastErr
}

func (s *Server) accept(ctx context.Context) {
	for ctx.Err() == nil {
		c, err := s.ln.Accept(ctx)
		if err != nil {
			if ctx.Err() != nil {
				return
			}
			if _, ok := err.(*net.OpError); ok {
				return
			}
			continue
		}
		s.mu.Lock()
		s.conns++
		n := s.conns
		s.uconns = append(s.uconns, c)
		s.mu.Unlock()
		go s.serve(ctx, n, c)
	}
}

func (s *Server) serve(ctx context.Context, n int, c *uacp.Conn) {
	defer c.Close()
	cfg := &uasc.Config{
		SecurityPolicyURI: ua.SecurityPolicyURINone,
		SecurityMode:      ua.MessageSecurityModeNone,
		Lifetime:          3600 * 1000,
		RequestTimeout:    10 * time.Second,
		Certificate:       s.Key.Cert,
		LocalKey:          s.Key.Key,
	}
	errch := make(chan error, 16)
	sc, err := uasc.NewServerSecureChannel(s.URL, c, cfg, errch, uint32(1000+n), uint32(50+n), uint32(n))
	if err != nil {
		return
	}
	s.mu.Lock()
	s.chans = append(s.chans, sc)
	s.mu.Unlock()
	for ctx.Err() == nil {
		msg := sc.Receive(ctx)
		if msg.Err == io.EOF {
			return
		}
		if msg.Err != nil {
			return
		}
		req := msg.Request()
		if req == nil {
			continue // OPN handled inside the channel
		}
		s.mu.Lock()
		s.events = append(s.events, Event{Conn: n, Req: fmt.Sprintf("%T", req)})
		h := s.Handler
		s.mu.Unlock()
		resp := h(sc, msg.RequestID, req)
		if resp == nil {
			continue
		}
		sctx, cancel := context.WithTimeout(ctx, 10*time.Second)
		err := sc.SendResponseWithContext(sctx, msg.RequestID, resp)
		cancel()
		if err != nil {
			s.mu.Lock()
			s.events = append(s.events, Event{Conn: n, Req: "send-error: " + err.Error()})
			s.mu.Unlock()
		}
	}
}

// Events returns a copy of what the script saw so far.
func (s *Server) Events() []Event {
	s.mu.Lock()
	defer s.mu.Unlock()
	return append([]Event(nil), s.events...)
}

// Saw reports whether a request of the given Go type name (e.g. "*ua.ActivateSessionRequest") arrived.
func (s *Server) Saw(typ string) bool {
	for _, e := range s.Events() {
		if e.Req == typ {
			return true
		}
	}
	return false
}

// Close stops the server.
func (s *Server) Close() {
	s.cancel()
	s.ln.Close()
	s.mu.Lock()
	for _, c := range s.uconns {
		c.Close()
	}
	s.mu.Unlock()
}

// Header returns a fully populated response header for the request.
func Header(req ua.Request, status ua.StatusCode) *ua.ResponseHeader {
	var handle uint32
	if h := req.Header(); h != nil {
		handle = h.RequestHandle
	}
	return &ua.ResponseHeader{
		Timestamp:          time.Now(),
		RequestHandle:      handle,
		ServiceResult:      status,
		ServiceDiagnostics: &ua.DiagnosticInfo{},
		StringTable:        []string{},
		AdditionalHeader:   ua.NewExtensionObject(nil),
	}
}

// Fault is a ServiceFault with the given status.
func Fault(req ua.Request, status ua.StatusCode) ua.Response {
	return &ua.ServiceFault{ResponseHeader: Header(req, status)}
}

// Endpoint describes the scripted server's single endpoint.
func (s *Server) Endpoint(policy, mode string) *ua.EndpointDescription {
	return &ua.EndpointDescription{
		EndpointURL: s.URL,
		Server: &ua.ApplicationDescription{
			ApplicationURI:  "urn:verif:scriptsrv",
			ProductURI:      "urn:verif:scriptsrv",
			ApplicationName: &ua.LocalizedText{EncodingMask: ua.LocalizedTextText, Text: "scriptsrv"},
			ApplicationType: ua.ApplicationTypeServer,
			DiscoveryURLs:   []string{s.URL},
		},
		ServerCertificate: s.Key.Cert,
		SecurityMode:      ua.MessageSecurityModeFromString(mode),
		SecurityPolicyURI: ua.FormatSecurityPolicyURI(policy),
		UserIdentityTokens: []*ua.UserTokenPolicy{{
			PolicyID: "anonymous", TokenType: ua.UserTokenTypeAnonymous, SecurityPolicyURI: ua.SecurityPolicyURINone,
		}},
		TransportProfileURI: "http://opcfoundation.org/UA-Profile/Transport/uatcp-uasc-uabinary",
		SecurityLevel:       1,
	}
}

// NamespaceArrayRead answers the read of Server_NamespaceArray that ends Client.Connect.
func NamespaceArrayRead(req *ua.ReadRequest) ua.Response {
	res := make([]*ua.DataValue, len(req.NodesToRead))
	for i := range res {
		res[i] = &ua.DataValue{EncodingMask: ua.DataValueValue, Value: ua.MustVariant([]string{"http://opcfoundation.org/UA/", "urn:verif"})}
	}
	return &ua.ReadResponse{ResponseHeader: Header(req, ua.StatusOK), Results: res, DiagnosticInfos: []*ua.DiagnosticInfo{}}
}
