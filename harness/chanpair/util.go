package chanpair

import "crypto/sha1"

func sha1sum(b []byte) [20]byte { return sha1.Sum(b) }
