package chanpair

import (
	"time"

	"github.com/gopcua/opcua/ua"
)

// RespHeader returns a fully populated response header (nil pointer fields do not encode).
func RespHeader(handle uint32, status ua.StatusCode) *ua.ResponseHeader {
	return &ua.ResponseHeader{
		Timestamp:          time.Now(),
		RequestHandle:      handle,
		ServiceResult:      status,
		ServiceDiagnostics: &ua.DiagnosticInfo{},
		StringTable:        []string{},
		AdditionalHeader:   ua.NewExtensionObject(nil),
	}
}

// ReadReq returns a ReadRequest for one node with all pointer fields populated.
func ReadReq(ns uint16, id uint32) *ua.ReadRequest {
	return &ua.ReadRequest{
		MaxAge:             0,
		TimestampsToReturn: ua.TimestampsToReturnBoth,
		NodesToRead: []*ua.ReadValueID{{
			NodeID: ua.NewNumericNodeID(ns, id), AttributeID: ua.AttributeIDValue, DataEncoding: &ua.QualifiedName{},
		}},
	}
}
