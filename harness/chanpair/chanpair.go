// Package chanpair builds a real gopcua client SecureChannel and a real gopcua
// server SecureChannel talking to each other over loopback TCP, optionally
// through a frame-level proxy (Tap) that can observe, drop, rewrite, duplicate
// or inject UACP frames in either direction. The proxy understands only the
// 8-byte UACP header (type, chunk type, size), so it is independent of the
// code under test.
package chanpair

import (
	"context"
	"encoding/binary"
	"fmt"
	"io"
	"net"
	"sync"
	"time"

	"github.com/gopcua/opcua/ua"
	"github.com/gopcua/opcua/uacp"
	"github.com/gopcua/opcua/uasc"

	"verifharness/keys"
)

// Policies are the short names of all supported policies.
var Policies = []string{"None", "Basic128Rsa15", "Basic256", "Basic256Sha256", "Aes128_Sha256_RsaOaep", "Aes256_Sha256_RsaPss"}

// ModeOf converts "None" | "Sign" | "SignAndEncrypt".
func ModeOf(s string) ua.MessageSecurityMode {
	switch s {
	case "None":
		return ua.MessageSecurityModeNone
	case "Sign":
		return ua.MessageSecurityModeSign
	case "SignAndEncrypt":
		return ua.MessageSecurityModeSignAndEncrypt
	}
	return ua.MessageSecurityModeInvalid
}

// Frame is one UACP frame seen by the proxy.
type Frame struct {
	Dir  string // "c2s" or "s2c"
	N    int    // index within its direction, starting at 0
	Data []byte // whole frame including the 8 byte header
}

func (f Frame) Type() string { return string(f.Data[:3]) }
func (f Frame) Kind() byte   { return f.Data[3] }

// Tap decides what is forwarded for every frame: return the list of frames
// (byte slices) to forward instead of f (nil/empty = drop, {f.Data} = pass).
type Tap func(f Frame) [][]byte

// Opts configures a pair.
type Opts struct {
	Policy         string // short name, default "None"
	Mode           string // "None", "Sign", "SignAndEncrypt"
	ClientKey      string // key pair name (keys.Get), default 2048a
	ServerKey      string // default 2048b
	ClientACK      *uacp.Acknowledge
	ServerACK      *uacp.Acknowledge
	Lifetime       uint32 // ms, default 1h
	RequestTimeout time.Duration
	RequestIDSeed  uint32
	ChannelID      uint32 // server side ids, defaults 7/1/100
	TokenID        uint32
	ServerSeq      uint32
	Tap            Tap  // optional proxy
	NoOpen         bool // do not run the OPN handshake
	NoServerLoop   bool // do not start a goroutine that calls Server.Receive
}

// Pair is an open channel pair.
type Pair struct {
	Client *uasc.SecureChannel
	Server *uasc.SecureChannel
	CConn  *uacp.Conn
	SConn  *uacp.Conn
	CErr   chan error
	SErr   chan error
	// ServerMsgs receives every message body the server channel delivered (unless NoServerLoop).
	ServerMsgs chan *uasc.MessageBody
	ln         *uacp.Listener
	proxyLn    net.Listener
	cancel     context.CancelFunc
	mu         sync.Mutex
	proxyC     net.Conn // proxy's connection towards the client
	proxyS     net.Conn // proxy's connection towards the server
	wmu        map[string]*sync.Mutex
	count      map[string]int
}

func freePort() int {
	l, err := net.Listen("tcp", "127.0.0.1:0")
	if err != nil {
		panic(err)
	}
	defer l.Close()
	return l.Addr().(*net.TCPAddr).Port
}

// Open creates the pair. The caller must Close it.
func Open(o Opts) (*Pair, error) {
	if o.Policy == "" {
		o.Policy = "None"
	}
	if o.Mode == "" {
		o.Mode = "None"
	}
	if o.ClientKey == "" {
		o.ClientKey = "2048a"
	}
	if o.ServerKey == "" {
		o.ServerKey = "2048b"
	}
	if o.Lifetime == 0 {
		o.Lifetime = 3600 * 1000
	}
	if o.RequestTimeout == 0 {
		o.RequestTimeout = 5 * time.Second
	}
	if o.ChannelID == 0 {
		o.ChannelID = 7
	}
	if o.TokenID == 0 {
		o.TokenID = 1
	}
	if o.ServerSeq == 0 {
		o.ServerSeq = 100
	}
	sack := o.ServerACK
	if sack == nil {
		a := *uacp.DefaultServerACK
		sack = &a
	}
	cack := o.ClientACK
	if cack == nil {
		a := *uacp.DefaultClientACK
		cack = &a
	}
	ctx, cancel := context.WithCancel(context.Background())
	p := &Pair{CErr: make(chan error, 16), SErr: make(chan error, 16), cancel: cancel,
		ServerMsgs: make(chan *uasc.MessageBody, 1024),
		wmu:        map[string]*sync.Mutex{"c2s": {}, "s2c": {}}, count: map[string]int{}}
	sport := freePort()
	sep := fmt.Sprintf("opc.tcp://127.0.0.1:%d", sport)
	ln, err := uacp.Listen(ctx, sep, sack)
	if err != nil {
		cancel()
		return nil, err
	}
	p.ln = ln
	dialEP := sep
	if o.Tap != nil {
		pl, err := net.Listen("tcp", "127.0.0.1:0")
		if err != nil {
			p.Close()
			return nil, err
		}
		p.proxyLn = pl
		dialEP = fmt.Sprintf("opc.tcp://127.0.0.1:%d", pl.Addr().(*net.TCPAddr).Port)
		go p.proxy(pl, fmt.Sprintf("127.0.0.1:%d", sport), o.Tap)
	}

	type acc struct {
		c   *uacp.Conn
		err error
	}
	accCh := make(chan acc, 1)
	go func() {
		c, err := ln.Accept(ctx)
		accCh <- acc{c, err}
	}()

	d := &uacp.Dialer{Dialer: &net.Dialer{Timeout: 5 * time.Second}, ClientACK: cack}
	dctx, dcancel := context.WithTimeout(ctx, 10*time.Second)
	defer dcancel()
	cconn, err := d.Dial(dctx, dialEP)
	if err != nil {
		p.Close()
		return nil, fmt.Errorf("dial: %w", err)
	}
	p.CConn = cconn
	var a acc
	select {
	case a = <-accCh:
	case <-time.After(10 * time.Second):
		p.Close()
		return nil, fmt.Errorf("accept timed out")
	}
	if a.err != nil {
		p.Close()
		return nil, fmt.Errorf("accept: %w", a.err)
	}
	p.SConn = a.c

	polURI := ua.FormatSecurityPolicyURI(o.Policy)
	ck, sk := keys.Get(o.ClientKey), keys.Get(o.ServerKey)
	ccfg := &uasc.Config{
		SecurityPolicyURI: polURI,
		SecurityMode:      ModeOf(o.Mode),
		Lifetime:          o.Lifetime,
		RequestTimeout:    o.RequestTimeout,
		RequestIDSeed:     o.RequestIDSeed,
	}
	scfg := &uasc.Config{
		SecurityPolicyURI: ua.SecurityPolicyURINone,
		SecurityMode:      ua.MessageSecurityModeNone,
		Lifetime:          o.Lifetime,
		RequestTimeout:    o.RequestTimeout,
		Certificate:       sk.Cert,
		LocalKey:          sk.Key,
	}
	if o.Policy != "None" {
		ccfg.Certificate = ck.Cert
		ccfg.LocalKey = ck.Key
		ccfg.RemoteCertificate = sk.Cert
		ccfg.Thumbprint = thumb(sk.Cert)
	}
	p.Server, err = uasc.NewServerSecureChannel(sep, p.SConn, scfg, p.SErr, o.ChannelID, o.ServerSeq, o.TokenID)
	if err != nil {
		p.Close()
		return nil, err
	}
	p.Client, err = uasc.NewSecureChannel(dialEP, p.CConn, ccfg, p.CErr)
	if err != nil {
		p.Close()
		return nil, err
	}
	if !o.NoServerLoop {
		go func() {
			for {
				msg := p.Server.Receive(ctx)
				select {
				case p.ServerMsgs <- msg:
				default:
				}
				if msg.Err == io.EOF || ctx.Err() != nil {
					return
				}
				if msg.Err != nil {
					// the real server closes the connection on the first error; keep
					// reading here so that a test can observe what happens next.
					if _, ok := msg.Err.(net.Error); ok {
						return
					}
				}
			}
		}()
	}
	if !o.NoOpen {
		octx, ocancel := context.WithTimeout(ctx, 15*time.Second)
		defer ocancel()
		if err := p.Client.Open(octx); err != nil {
			p.Close()
			return nil, fmt.Errorf("open: %w", err)
		}
	}
	return p, nil
}

func thumb(cert []byte) []byte {
	// sha1 thumbprint, computed here to stay independent of uapolicy.Thumbprint
	h := sha1sum(cert)
	return h[:]
}

// Close tears everything down.
func (p *Pair) Close() {
	p.cancel()
	if p.Client != nil {
		go p.Client.Close()
	}
	if p.CConn != nil {
		p.CConn.Close()
	}
	if p.SConn != nil {
		p.SConn.Close()
	}
	if p.ln != nil {
		p.ln.Close()
	}
	if p.proxyLn != nil {
		p.proxyLn.Close()
	}
	p.mu.Lock()
	if p.proxyC != nil {
		p.proxyC.Close()
	}
	if p.proxyS != nil {
		p.proxyS.Close()
	}
	p.mu.Unlock()
}

// Inject writes a raw frame towards the client ("s2c") or the server ("c2s")
// through the proxy connection (only with a Tap).
func (p *Pair) Inject(dir string, frame []byte) error {
	p.mu.Lock()
	var c net.Conn
	if dir == "s2c" {
		c = p.proxyC
	} else {
		c = p.proxyS
	}
	p.mu.Unlock()
	if c == nil {
		return fmt.Errorf("no proxy connection")
	}
	m := p.wmu[dir]
	m.Lock()
	defer m.Unlock()
	_, err := c.Write(frame)
	return err
}

func (p *Pair) proxy(l net.Listener, target string, tap Tap) {
	cc, err := l.Accept()
	if err != nil {
		return
	}
	sc, err := net.Dial("tcp", target)
	if err != nil {
		cc.Close()
		return
	}
	if t, ok := cc.(*net.TCPConn); ok {
		t.SetNoDelay(true)
	}
	if t, ok := sc.(*net.TCPConn); ok {
		t.SetNoDelay(true)
	}
	p.mu.Lock()
	p.proxyC, p.proxyS = cc, sc
	p.mu.Unlock()
	pump := func(dir string, from, to net.Conn) {
		defer from.Close()
		defer to.Close()
		n := 0
		hdr := make([]byte, 8)
		for {
			if _, err := io.ReadFull(from, hdr); err != nil {
				return
			}
			size := binary.LittleEndian.Uint32(hdr[4:])
			if size < 8 || size > 1<<26 {
				return
			}
			buf := make([]byte, size)
			copy(buf, hdr)
			if _, err := io.ReadFull(from, buf[8:]); err != nil {
				return
			}
			out := tap(Frame{Dir: dir, N: n, Data: buf})
			n++
			m := p.wmu[dir]
			for _, b := range out {
				m.Lock()
				_, err := to.Write(b)
				m.Unlock()
				if err != nil {
					return
				}
			}
		}
	}
	go pump("c2s", cc, sc)
	go pump("s2c", sc, cc)
}

// Pass is the Tap result that forwards the frame unchanged.
func Pass(f Frame) [][]byte { return [][]byte{f.Data} }
