// Package vfgo is the small runtime shared by all harness commands:
// case input (ndjson), result output (ndjson), seeded randomness, child processes.
package vfgo

import (
	"bufio"
	"bytes"
	"encoding/json"
	"flag"
	"fmt"
	"io"
	"log"
	"math/rand"
	"os"
	"os/exec"
	"strings"
	"sync"
	"syscall"
	"time"
)

// Result is one line of the result file read by lib/vf.py (Run.absorb).
type Result struct {
	Case       any    `json:"case,omitempty"`
	Status     string `json:"status"` // ok | violation | inconclusive
	Key        string `json:"key,omitempty"`
	Detail     string `json:"detail,omitempty"`
	Class      string `json:"class,omitempty"`
	Nontrivial bool   `json:"nontrivial"`
	Obs        any    `json:"obs,omitempty"`
}

var (
	casesPath = flag.String("cases", "", "ndjson file with cases")
	outPath   = flag.String("out", "", "ndjson file for results")
	seedFlag  = flag.Int64("seed", 1, "seed")
	ChildFlag = flag.String("child", "", "internal: run as child with this mode")

	outMu sync.Mutex
	outW  *bufio.Writer
	outF  *os.File
)

// Init parses flags, opens the result file and silences the library's logging.
func Init() {
	flag.Parse()
	log.SetOutput(io.Discard)
	if *outPath != "" {
		f, err := os.OpenFile(*outPath, os.O_CREATE|os.O_WRONLY|os.O_APPEND, 0o644)
		if err != nil {
			Fatalf("open out: %v", err)
		}
		outF = f
		outW = bufio.NewWriter(f)
	}
}

func Seed() int64 { return *seedFlag }

func Rand(salt int64) *rand.Rand { return rand.New(rand.NewSource(*seedFlag*1000003 + salt)) }

func Fatalf(format string, a ...any) {
	fmt.Fprintf(os.Stderr, "harness: "+format+"\n", a...)
	Flush()
	os.Exit(3)
}

// Cases decodes every line of the -cases file into T.
func Cases[T any]() []T {
	var res []T
	if *casesPath == "" {
		return res
	}
	f, err := os.Open(*casesPath)
	if err != nil {
		Fatalf("open cases: %v", err)
	}
	defer f.Close()
	sc := bufio.NewScanner(f)
	sc.Buffer(make([]byte, 1<<20), 1<<28)
	for sc.Scan() {
		line := bytes.TrimSpace(sc.Bytes())
		if len(line) == 0 {
			continue
		}
		var v T
		if err := json.Unmarshal(line, &v); err != nil {
			Fatalf("bad case line %q: %v", truncate(string(line), 200), err)
		}
		res = append(res, v)
	}
	return res
}

func Emit(r Result) {
	outMu.Lock()
	defer outMu.Unlock()
	b, err := json.Marshal(r)
	if err != nil {
		b, _ = json.Marshal(Result{Status: "inconclusive", Detail: "unmarshalable result: " + err.Error()})
	}
	if outW != nil {
		outW.Write(b)
		outW.WriteByte('\n')
	} else {
		os.Stdout.Write(append(b, '\n'))
	}
}

func OK(c any, class string, obs any) {
	Emit(Result{Case: c, Status: "ok", Class: class, Nontrivial: class != "", Obs: obs})
}

func Violation(c any, class, key, detail string) {
	Emit(Result{Case: c, Status: "violation", Class: class, Nontrivial: true, Key: key, Detail: truncate(detail, 4000)})
}

func Inconclusive(c any, detail string) {
	Emit(Result{Case: c, Status: "inconclusive", Detail: truncate(detail, 2000)})
}

func Flush() {
	outMu.Lock()
	defer outMu.Unlock()
	if outW != nil {
		outW.Flush()
		outF.Sync()
	}
}

func truncate(s string, n int) string {
	if len(s) > n {
		return s[:n] + "…"
	}
	return s
}

// ChildOutcome describes how a child process ended.
type ChildOutcome struct {
	Exit     int
	Signal   string
	TimedOut bool
	Panic    bool   // stderr contains a Go panic / fatal error
	Stderr   string // tail
	Stdout   []byte
	Wall     time.Duration
}

// RunChild re-executes this binary with -child=<mode> and the given stdin; the
// child is killed after timeout. memLimitMB bounds the address space growth via
// GOMEMLIMIT (soft) — the hard backstop is the RSS watchdog in the child itself
// (see WatchRSS).
func RunChild(mode string, stdin []byte, timeout time.Duration, env ...string) ChildOutcome {
	self, _ := os.Executable()
	cmd := exec.Command(self, "-child="+mode, fmt.Sprintf("-seed=%d", *seedFlag))
	cmd.Stdin = bytes.NewReader(stdin)
	var so, se bytes.Buffer
	cmd.Stdout = &so
	cmd.Stderr = &se
	cmd.Env = append(os.Environ(), env...)
	cmd.SysProcAttr = &syscall.SysProcAttr{Setpgid: true}
	t0 := time.Now()
	var out ChildOutcome
	if err := cmd.Start(); err != nil {
		out.Exit = -1
		out.Stderr = err.Error()
		return out
	}
	done := make(chan error, 1)
	go func() { done <- cmd.Wait() }()
	select {
	case err := <-done:
		if err != nil {
			if ee, ok := err.(*exec.ExitError); ok {
				ws := ee.Sys().(syscall.WaitStatus)
				if ws.Signaled() {
					out.Signal = ws.Signal().String()
					out.Exit = -1
				} else {
					out.Exit = ws.ExitStatus()
				}
			} else {
				out.Exit = -1
			}
		}
	case <-time.After(timeout):
		syscall.Kill(-cmd.Process.Pid, syscall.SIGKILL)
		<-done
		out.TimedOut = true
		out.Exit = -1
	}
	out.Wall = time.Since(t0)
	out.Stdout = so.Bytes()
	s := se.String()
	if strings.Contains(s, "panic:") || strings.Contains(s, "fatal error:") || strings.Contains(s, "goroutine ") && strings.Contains(s, "[running]") {
		out.Panic = true
	}
	out.Stderr = tail(s, 3000)
	return out
}

func tail(s string, n int) string {
	if len(s) > n {
		return "…" + s[len(s)-n:]
	}
	return s
}

// PanicHead extracts the first lines of a panic message (for keys / details).
func PanicHead(stderr string) string {
	i := strings.Index(stderr, "panic:")
	if j := strings.Index(stderr, "fatal error:"); j >= 0 && (i < 0 || j < i) {
		i = j
	}
	if i < 0 {
		return tail(stderr, 300)
	}
	s := stderr[i:]
	lines := strings.SplitN(s, "\n", 12)
	if len(lines) > 11 {
		lines = lines[:11]
	}
	return strings.Join(lines, "\n")
}

// Recover runs f and converts a panic into an error string (same goroutine only).
func Recover(f func()) (panicked bool, msg string) {
	defer func() {
		if r := recover(); r != nil {
			panicked = true
			msg = fmt.Sprint(r)
		}
	}()
	f()
	return
}
