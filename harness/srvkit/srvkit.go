// Package srvkit starts the real gopcua server on a free loopback port (inside a child
// process of a harness command) and offers the small client-side helpers the ServerCore /
// Browse checks share: a dialled secure channel without session, raw requests with a chosen
// authentication token, and a batch runner that survives server panics (the child dies, the
// parent attributes the death to the case in flight and restarts with the remaining cases).
package srvkit

import (
	"bufio"
	"bytes"
	"context"
	"encoding/json"
	"fmt"
	"net"
	"os"
	"time"

	"github.com/gopcua/opcua"
	"github.com/gopcua/opcua/server"
	"github.com/gopcua/opcua/ua"
	"github.com/gopcua/opcua/uasc"

	"verifharness/keys"
	"verifharness/vfgo"
)

// FreePort asks the kernel for a free loopback port.
func FreePort() (int, error) {
	l, err := net.Listen("tcp", "127.0.0.1:0")
	if err != nil {
		return 0, err
	}
	p := l.Addr().(*net.TCPAddr).Port
	l.Close()
	return p, nil
}

// Start builds a server (policy None, anonymous), lets populate add namespaces/nodes and
// starts it on a free port. Port collisions are retried.
func Start(populate func(*server.Server)) (*server.Server, string, error) {
	return StartOpts(populate)
}

// SecureOpts enables Basic256Sha256/Sign (besides None) with the harness key "2048a".
func SecureOpts() []server.Option {
	k := keys.Get("2048a")
	return []server.Option{
		server.EnableSecurity("Basic256Sha256", ua.MessageSecurityModeSign),
		server.PrivateKey(k.Key),
		server.Certificate(k.Cert),
	}
}

// StartOpts is Start with additional server options (security, logger).
func StartOpts(populate func(*server.Server), extra ...server.Option) (*server.Server, string, error) {
	var last error
	for try := 0; try < 5; try++ {
		port, err := FreePort()
		if err != nil {
			last = err
			continue
		}
		opts := append([]server.Option{
			server.EndPoint("127.0.0.1", port),
			server.EnableSecurity("None", ua.MessageSecurityModeNone),
			server.EnableAuthMode(ua.UserTokenTypeAnonymous),
		}, extra...)
		s := server.New(opts...)
		if populate != nil {
			populate(s)
		}
		if err := s.Start(context.Background()); err != nil {
			last = err
			time.Sleep(50 * time.Millisecond)
			continue
		}
		return s, fmt.Sprintf("opc.tcp://127.0.0.1:%d", port), nil
	}
	return nil, "", fmt.Errorf("cannot start server: %v", last)
}

// Connect returns a real client with an activated session.
func Connect(url string) (*opcua.Client, error) {
	var last error
	for try := 0; try < 3; try++ {
		c, err := opcua.NewClient(url, opcua.SecurityMode(ua.MessageSecurityModeNone), opcua.AutoReconnect(false),
			opcua.RequestTimeout(5*time.Second))
		if err != nil {
			return nil, err
		}
		ctx, cancel := context.WithTimeout(context.Background(), 10*time.Second)
		err = c.Connect(ctx)
		cancel()
		if err == nil {
			return c, nil
		}
		last = err
		time.Sleep(100 * time.Millisecond)
	}
	return nil, last
}

// Raw is a client whose secure channel is open but which has no session: every request is
// sent with an explicitly chosen authentication token.
type Raw struct {
	C  *opcua.Client
	SC *uasc.SecureChannel
}

func DialRaw(url string) (*Raw, error) { return dialRaw(url, false) }

// DialRawSecure opens a Basic256Sha256/Sign channel (client key "2048b") to a server started
// with SecureOpts.
func DialRawSecure(url string) (*Raw, error) { return dialRaw(url, true) }

// ClientCert is the certificate the secured raw client presents.
func ClientCert() []byte { return keys.Get("2048b").Cert }

func dialRaw(url string, secure bool) (*Raw, error) {
	var last error
	for try := 0; try < 3; try++ {
		opts := []opcua.Option{opcua.SecurityMode(ua.MessageSecurityModeNone), opcua.AutoReconnect(false),
			opcua.RequestTimeout(5 * time.Second)}
		if secure {
			ck := keys.Get("2048b")
			opts = []opcua.Option{opcua.SecurityPolicy("Basic256Sha256"), opcua.SecurityMode(ua.MessageSecurityModeSign),
				opcua.PrivateKey(ck.Key), opcua.Certificate(ck.Cert), opcua.RemoteCertificate(keys.Get("2048a").Cert),
				opcua.AutoReconnect(false), opcua.RequestTimeout(5 * time.Second)}
		}
		c, err := opcua.NewClient(url, opts...)
		if err != nil {
			return nil, err
		}
		ctx, cancel := context.WithTimeout(context.Background(), 10*time.Second)
		err = c.Dial(ctx)
		cancel()
		if err == nil {
			return &Raw{C: c, SC: c.SecureChannel()}, nil
		}
		last = err
		time.Sleep(100 * time.Millisecond)
	}
	return nil, last
}

func (r *Raw) Close() {
	ctx, cancel := context.WithTimeout(context.Background(), 2*time.Second)
	defer cancel()
	r.C.Close(ctx)
}

// Do sends req with the given authentication token (nil = null token) and returns the
// response (a *ua.ServiceFault is returned as a response, not as an error).
func (r *Raw) Do(req ua.Request, token *ua.NodeID, timeout time.Duration) (ua.Response, error) {
	ctx, cancel := context.WithTimeout(context.Background(), timeout)
	defer cancel()
	var resp ua.Response
	err := r.SC.SendRequestWithTimeout(ctx, req, token, timeout, func(v ua.Response) error {
		resp = v
		return nil
	})
	return resp, err
}

// ServiceResult extracts the service result of a response; an error that is a status code
// (the channel turns ServiceFaults into errors) is returned as that code.
//
// Status codes the *client side* produces when no answer arrived (time-out, channel gone) are not
// answers of the server: they are reported as "no result" (driver trouble, never a verdict).
func ServiceResult(resp ua.Response, err error) (ua.StatusCode, bool) {
	if resp != nil && resp.Header() != nil {
		return resp.Header().ServiceResult, true
	}
	if sc, ok := err.(ua.StatusCode); ok {
		switch sc {
		case ua.StatusBadTimeout, ua.StatusBadServerNotConnected, ua.StatusBadConnectionClosed,
			ua.StatusBadSecureChannelClosed, ua.StatusBadCommunicationError, ua.StatusBadNotConnected,
			ua.StatusBadRequestInterrupted:
			return 0, false
		}
		return sc, true
	}
	return 0, false
}

// ---------------------------------------------------------------------------------------
// Batch runner

// Line is what a child prints per case (ndjson on stdout). Idx is the index into the batch.
type Line struct {
	Idx    int             `json:"idx"`
	Status string          `json:"status"` // ok | violation | inconclusive
	Key    string          `json:"key,omitempty"`
	Detail string          `json:"detail,omitempty"`
	Class  string          `json:"class,omitempty"`
	Obs    json.RawMessage `json:"obs,omitempty"`
	Start  bool            `json:"start,omitempty"` // marker: case idx is about to run
	Extra  json.RawMessage `json:"extra,omitempty"` // free-form payload (traces, exports)
	Event  json.RawMessage `json:"event,omitempty"` // progress record of the case in flight (does not finish it)
}

// ChildOut is used by child modes to report.
type ChildOut struct{ w *bufio.Writer }

func NewChildOut() *ChildOut { return &ChildOut{w: bufio.NewWriterSize(os.Stdout, 1<<16)} }

func (o *ChildOut) Put(l Line) {
	b, _ := json.Marshal(l)
	o.w.Write(b)
	o.w.WriteByte('\n')
	o.w.Flush()
}

func (o *ChildOut) Begin(idx int) { o.Put(Line{Idx: idx, Start: true}) }

func Obs(v any) json.RawMessage {
	b, err := json.Marshal(v)
	if err != nil {
		b, _ = json.Marshal(fmt.Sprint(v))
	}
	return b
}

// Death describes a child that died while working on a case.
type Death struct {
	Idx      int
	Panic    bool
	TimedOut bool
	Head     string
}

// RunBatch feeds the cases to child processes of the given mode. The child reads a JSON array
// of {idx, case} from stdin and prints Lines. If the child dies, the case in flight (last
// Begin marker without a result) is reported through onDeath and the remaining cases are
// run in a fresh child. lines receives every result line in order of arrival.
//
// maxDeaths bounds the number of restarts (every restart re-parses the NodeSet, ~3 s): after
// that many deaths the remaining cases are handed to onSkip instead of being run.
func RunBatch[T any](mode string, cases []T, perChild time.Duration, env []string, maxDeaths int,
	onLine func(Line), onDeath func(Death), onSkip func(idx int)) error {
	type item struct {
		Idx  int `json:"idx"`
		Case T   `json:"case"`
	}
	todo := make([]item, len(cases))
	for i := range cases {
		todo[i] = item{i, cases[i]}
	}
	barren := 0
	deaths := 0
	for len(todo) > 0 {
		if maxDeaths > 0 && deaths >= maxDeaths {
			for _, it := range todo {
				onSkip(it.Idx)
			}
			return nil
		}
		in, _ := json.Marshal(todo)
		out := vfgo.RunChild(mode, in, perChild, env...)
		done := map[int]bool{}
		inflight := -1
		sc := bufio.NewScanner(bytes.NewReader(out.Stdout))
		sc.Buffer(make([]byte, 1<<20), 1<<28)
		for sc.Scan() {
			var l Line
			if json.Unmarshal(sc.Bytes(), &l) != nil {
				continue
			}
			if l.Start {
				inflight = l.Idx
				continue
			}
			if l.Event != nil {
				onLine(l)
				continue
			}
			done[l.Idx] = true
			if l.Idx == inflight {
				inflight = -1
			}
			onLine(l)
		}
		clean := out.Exit == 0 && !out.TimedOut && out.Signal == ""
		if !clean {
			if inflight >= 0 {
				onDeath(Death{Idx: inflight, Panic: out.Panic, TimedOut: out.TimedOut, Head: vfgo.PanicHead(out.Stderr)})
				done[inflight] = true
				barren = 0
				deaths++
			} else {
				barren++
				if barren >= 3 {
					return fmt.Errorf("child %s died %d times outside any case: exit=%d signal=%s timeout=%v: %s",
						mode, barren, out.Exit, out.Signal, out.TimedOut, vfgo.PanicHead(out.Stderr))
				}
			}
		}
		var rest []item
		for _, it := range todo {
			if !done[it.Idx] {
				rest = append(rest, it)
			}
		}
		if clean && len(rest) == len(todo) && len(rest) > 0 {
			return fmt.Errorf("child %s made no progress on %d cases", mode, len(rest))
		}
		if clean && len(rest) > 0 {
			// child exited normally but skipped cases: treat as machinery trouble
			return fmt.Errorf("child %s exited cleanly but left %d cases", mode, len(rest))
		}
		todo = rest
	}
	return nil
}

// ReadBatch is the child side of RunBatch.
func ReadBatch[T any]() ([]int, []T, error) {
	type item struct {
		Idx  int `json:"idx"`
		Case T   `json:"case"`
	}
	var items []item
	dec := json.NewDecoder(bufio.NewReaderSize(os.Stdin, 1<<20))
	if err := dec.Decode(&items); err != nil {
		return nil, nil, err
	}
	idx := make([]int, len(items))
	cs := make([]T, len(items))
	for i, it := range items {
		idx[i] = it.Idx
		cs[i] = it.Case
	}
	return idx, cs, nil
}
