SPECIFICATION Spec
CONSTANTS Base <- BaseStream Budget = 2 DevNoSeqCheck = FALSE DevMergeSkipsSeq0 = FALSE Side = "client"
INVARIANTS InvNoReplay InvWhole InvIntegrity 
CHECK_DEADLOCK FALSE
