SPECIFICATION Spec
CONSTANTS Base <- BaseStream Budget = 0 DevNoSeqCheck = FALSE DevMergeSkipsSeq0 = TRUE Side = "client"
INVARIANTS InvNoReplay InvWhole InvIntegrity 
CHECK_DEADLOCK FALSE
