---- MODULE RegLin ----
EXTENDS Naturals, Sequences, Json, TLC
Log == ndJsonDeserialize("h.ndjson")
VARIABLES reg, st, l
\* st[c] = [phase |-> "idle"|"called"|"lin", op, val, res]
Clients == {"a","b","c","d"}
vars == <<reg, st, l>>
Init == TLCSet(1, 1) /\ reg = 0 /\ st = [c \in Clients |-> [phase |-> "idle", op |-> "r", val |-> 0, res |-> 0]] /\ l = 1
More == l <= Len(Log)
Call == /\ More /\ Log[l].ev = "call" /\ st[Log[l].c].phase = "idle"
        /\ st' = [st EXCEPT ![Log[l].c] = [phase |-> "called", op |-> Log[l].op, val |-> Log[l].v, res |-> 0]]
        /\ l' = l + 1 /\ UNCHANGED reg
Lin(c) == /\ st[c].phase = "called"
          /\ IF st[c].op = "w" THEN reg' = st[c].val /\ st' = [st EXCEPT ![c].phase = "lin"]
             ELSE UNCHANGED reg /\ st' = [st EXCEPT ![c].phase = "lin", ![c].res = reg]
          /\ UNCHANGED l
Ret == /\ More /\ Log[l].ev = "ret" /\ st[Log[l].c].phase = "lin"
       /\ (st[Log[l].c].op = "r" => st[Log[l].c].res = Log[l].v)
       /\ st' = [st EXCEPT ![Log[l].c].phase = "idle"] /\ l' = l + 1 /\ UNCHANGED reg
Next == Call \/ Ret \/ \E c \in Clients : Lin(c)
Spec == Init /\ [][Next]_vars
HighWater == TLCSet(1, IF l > TLCGet(1) THEN l ELSE TLCGet(1))
Accepted == TLCGet(1) = Len(Log) + 1
====
