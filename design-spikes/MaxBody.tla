---- MODULE MaxBody ----
EXTENDS Integers, TLAPS
B == 16
MaxBodySym(cs, S, P) == B * ((cs - 16) \div B) - 8 - S - P
Rem(b, S, P) == (8 + b + S + P) % B
PadLen(b, S, P) == IF Rem(b, S, P) = 0 THEN 0 ELSE B - Rem(b, S, P)
TotalSE(b, S, P) == 16 + 8 + b + PadLen(b, S, P) + P + S
TotalSign(b, S) == 16 + 8 + b + S

THEOREM Fits ==
  ASSUME NEW cs \in Int, cs >= 8192, NEW S \in {20, 32}, NEW P \in {1}
  PROVE  /\ TotalSE(MaxBodySym(cs, S, P), S, P) <= cs
         /\ TotalSE(MaxBodySym(cs, S, P) + 1, S, P) > cs
         /\ (8 + MaxBodySym(cs, S, P) + PadLen(MaxBodySym(cs, S, P), S, P) + P + S) % B = 0
         /\ TotalSign(MaxBodySym(cs, S, P), S) <= cs
  BY SMT DEF MaxBodySym, Rem, PadLen, TotalSE, TotalSign, B
====
