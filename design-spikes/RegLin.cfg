SPECIFICATION Spec
CONSTRAINT HighWater
POSTCONDITION Accepted
CHECK_DEADLOCK FALSE
