SPECIFICATION Spec
CONSTANTS Senders = {"p1","p2"} DevGateGap = TRUE MaxChunks = 2
INVARIANTS InvSeqStep InvContiguous
