---- MODULE ScRecv ----
(* Spike: receive side of a secure channel under an active adversary.
   Base stream = chunks of a conforming sender; the adversary decides what the receiver sees next. *)
EXTENDS Integers, Sequences, FiniteSets, TLC, Json
CONSTANTS Base,            \* sequence of chunks [id, tok, seq, req, kind, msg]
          Budget,          \* number of adversary moves
          DevNoSeqCheck, DevMergeSkipsSeq0,
          Side             \* "client" keeps reading after an error, "server" closes
VARIABLES pos, budget, lastSeq, partial, delivered, outcome, closed, hist
vars == <<pos, budget, lastSeq, partial, delivered, outcome, closed, hist>>

Reqs == {Base[i].req : i \in 1..Len(Base)}
Init == /\ pos = 1 /\ budget = Budget /\ lastSeq = -1
        /\ partial = [r \in Reqs |-> <<>>] /\ delivered = <<>> /\ outcome = <<>>
        /\ closed = FALSE /\ hist = <<>>

\* what the receiver does with an input chunk c (bad = failed verification)
Handle(c, bad, label) ==
  LET seqOK == DevNoSeqCheck \/ c.seq > lastSeq IN
  IF bad \/ ~seqOK
    THEN /\ outcome' = Append(outcome, "reject")
         /\ closed' = (Side = "server")
         /\ hist' = Append(hist, [in |-> label, id |-> c.id, expect |-> "reject"])
         /\ UNCHANGED <<lastSeq, partial, delivered>>
    ELSE /\ lastSeq' = IF c.seq > lastSeq THEN c.seq ELSE lastSeq
         /\ closed' = FALSE
         /\ CASE c.kind = "C" -> /\ partial' = [partial EXCEPT ![c.req] = Append(@, c)]
                                 /\ outcome' = Append(outcome, "buffer") /\ UNCHANGED delivered
                                 /\ hist' = Append(hist, [in |-> label, id |-> c.id, expect |-> "buffer"])
              [] c.kind = "A" -> /\ partial' = [partial EXCEPT ![c.req] = <<>>]
                                 /\ outcome' = Append(outcome, "abort") /\ UNCHANGED delivered
                                 /\ hist' = Append(hist, [in |-> label, id |-> c.id, expect |-> "abort"])
              [] c.kind = "F" -> LET all == Append(partial[c.req], c)
                                     \* code: mergeChunks drops a chunk whose seq equals the previous one, starting from 0
                                     kept == IF DevMergeSkipsSeq0 /\ Len(all) > 1 THEN SelectSeq(all, LAMBDA x : x.seq # 0) ELSE all
                                     ids == [i \in 1..Len(kept) |-> kept[i].id] IN
                                 /\ partial' = [partial EXCEPT ![c.req] = <<>>]
                                 /\ delivered' = Append(delivered, ids)
                                 /\ outcome' = Append(outcome, "deliver")
                                 /\ hist' = Append(hist, [in |-> label, id |-> c.id, expect |-> "deliver", parts |-> ids])

More == pos <= Len(Base) /\ ~closed
Pass    == More /\ Handle(Base[pos], FALSE, "pass") /\ pos' = pos + 1 /\ UNCHANGED budget
Tamper  == More /\ budget > 0 /\ Handle(Base[pos], TRUE, "tamper") /\ pos' = pos + 1 /\ budget' = budget - 1
Drop    == More /\ budget > 0 /\ pos' = pos + 1 /\ budget' = budget - 1
           /\ hist' = Append(hist, [in |-> "drop", id |-> Base[pos].id, expect |-> "none"])
           /\ UNCHANGED <<lastSeq, partial, delivered, outcome, closed>>
Replay  == ~closed /\ budget > 0 /\ \E j \in 1..(pos - 1) : Handle(Base[j], FALSE, "replay") /\ UNCHANGED pos /\ budget' = budget - 1
Next == Pass \/ Tamper \/ Drop \/ Replay
Spec == Init /\ [][Next]_vars

\* ---- properties ----
Flat(ss) == LET RECURSIVE F(_) F(s) == IF s = <<>> THEN <<>> ELSE Head(s) \o F(Tail(s)) IN F(ss)
InvNoReplay == LET f == Flat(delivered) IN \A i, j \in 1..Len(f) : i # j => f[i] # f[j]
MsgOf(id) == (CHOOSE i \in 1..Len(Base) : Base[i].id = id)
InvWhole == (budget = Budget) => \A d \in 1..Len(delivered) :
              LET ids == delivered[d]  m == Base[MsgOf(ids[Len(ids)])].msg IN
              ids = [k \in 1..Cardinality({i \in 1..Len(Base) : Base[i].msg = m}) |->
                       Base[CHOOSE i \in 1..Len(Base) : Base[i].msg = m /\ Cardinality({j \in 1..i : Base[j].msg = m}) = k].id]
InvIntegrity == \A i \in 1..Len(hist) : hist[i].in = "tamper" => hist[i].expect = "reject"
Terminal == pos > Len(Base) \/ closed
Emit == Terminal => PrintT(<<"BEH", ToJson(hist)>>)
====
