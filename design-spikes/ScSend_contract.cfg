SPECIFICATION Spec
CONSTANTS Senders = {"p1","p2"} DevGateGap = FALSE MaxChunks = 2
INVARIANTS InvSeqStep InvContiguous
