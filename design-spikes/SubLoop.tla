---- MODULE SubLoop ----
(* Spike: Subscribe / Cancel vs publish loop; mirrors client_sub.go *)
EXTENDS Naturals, Sequences, TLC
CONSTANTS Apps, Ops, Cap, DevPauseUnderLock
VARIABLES pausech, resumech, mux, nsubs, lpc, apc, todo
vars == <<pausech, resumech, mux, nsubs, lpc, apc, todo>>

Init == /\ pausech = 0 /\ resumech = 0 /\ mux = "none" /\ nsubs = 0
        /\ lpc = "sel" /\ apc = [a \in Apps |-> "idle"] /\ todo = [a \in Apps |-> Ops]

\* ---- application ----
StartSub(a) == /\ apc[a] = "idle" /\ todo[a] > 0 /\ apc' = [apc EXCEPT ![a] = "s2"]
               /\ todo' = [todo EXCEPT ![a] = @ - 1] /\ UNCHANGED <<pausech, resumech, mux, nsubs, lpc>>
S2(a) == /\ apc[a] = "s2" /\ resumech < Cap /\ resumech' = resumech + 1     \* c.resumech <- struct{}{}  (blocking)
         /\ apc' = [apc EXCEPT ![a] = "s3"] /\ UNCHANGED <<pausech, mux, nsubs, lpc, todo>>
S3(a) == /\ apc[a] = "s3" /\ mux = "none" /\ nsubs' = nsubs + 1             \* lock; register; unlock
         /\ apc' = [apc EXCEPT ![a] = "idle"] /\ UNCHANGED <<pausech, resumech, mux, lpc, todo>>
StartCancel(a) == /\ apc[a] = "idle" /\ todo[a] > 0 /\ nsubs > 0 /\ apc' = [apc EXCEPT ![a] = "f1"]
               /\ todo' = [todo EXCEPT ![a] = @ - 1] /\ UNCHANGED <<pausech, resumech, mux, nsubs, lpc>>
F1(a) == /\ apc[a] = "f1" /\ mux = "none" /\ mux' = a /\ nsubs' = IF nsubs > 0 THEN nsubs - 1 ELSE 0
         /\ apc' = [apc EXCEPT ![a] = IF nsubs' = 0 THEN "f2" ELSE "f3"]
         /\ UNCHANGED <<pausech, resumech, lpc, todo>>
F2(a) == /\ apc[a] = "f2"
         /\ IF DevPauseUnderLock
              THEN pausech < Cap /\ pausech' = pausech + 1               \* blocking send while holding subMux
              ELSE pausech' = IF pausech < Cap THEN pausech + 1 ELSE pausech   \* contract: non-blocking signal
         /\ apc' = [apc EXCEPT ![a] = "f3"] /\ UNCHANGED <<resumech, mux, nsubs, lpc, todo>>
F3(a) == /\ apc[a] = "f3" /\ mux' = "none" /\ apc' = [apc EXCEPT ![a] = "idle"]
         /\ UNCHANGED <<pausech, resumech, nsubs, lpc, todo>>

\* ---- publish loop ----
SelResume == lpc = "sel" /\ resumech > 0 /\ resumech' = resumech - 1 /\ UNCHANGED <<pausech, mux, nsubs, lpc, apc, todo>>
SelPause  == lpc = "sel" /\ pausech > 0 /\ pausech' = pausech - 1 /\ lpc' = "paused" /\ UNCHANGED <<resumech, mux, nsubs, apc, todo>>
SelPublish == lpc = "sel" /\ resumech = 0 /\ pausech = 0 /\ lpc' = "wait" /\ UNCHANGED <<pausech, resumech, mux, nsubs, apc, todo>>
PausedResume == lpc = "paused" /\ resumech > 0 /\ resumech' = resumech - 1 /\ lpc' = "sel" /\ UNCHANGED <<pausech, mux, nsubs, apc, todo>>
PausedPause == lpc = "paused" /\ pausech > 0 /\ pausech' = pausech - 1 /\ UNCHANGED <<resumech, mux, nsubs, lpc, apc, todo>>
RespOK   == lpc = "wait" /\ lpc' = "lock" /\ UNCHANGED <<pausech, resumech, mux, nsubs, apc, todo>>
RespErr  == lpc = "wait" /\ lpc' = "selfpause" /\ UNCHANGED <<pausech, resumech, mux, nsubs, apc, todo>>
RespTimeout == lpc = "wait" /\ lpc' = "sel" /\ UNCHANGED <<pausech, resumech, mux, nsubs, apc, todo>>
PubLock == lpc = "lock" /\ mux = "none" /\ lpc' = "sel" /\ UNCHANGED <<pausech, resumech, mux, nsubs, apc, todo>>
SelfPause == /\ lpc = "selfpause"
             /\ IF DevPauseUnderLock THEN pausech < Cap /\ pausech' = pausech + 1
                ELSE pausech' = IF pausech < Cap THEN pausech + 1 ELSE pausech
             /\ lpc' = "sel" /\ UNCHANGED <<resumech, mux, nsubs, apc, todo>>

Done == (\A a \in Apps : apc[a] = "idle" /\ todo[a] = 0) /\ UNCHANGED vars
Next == \/ \E a \in Apps : StartSub(a) \/ S2(a) \/ S3(a) \/ StartCancel(a) \/ F1(a) \/ F2(a) \/ F3(a)
        \/ SelResume \/ SelPause \/ SelPublish \/ PausedResume \/ PausedPause
        \/ RespOK \/ RespErr \/ RespTimeout \/ PubLock \/ SelfPause

Spec == Init /\ [][Next]_vars /\ WF_vars(Next)
\* a stuck state: some process blocked forever = no step enabled except stuttering while work remains
NoStuck == (ENABLED Next) \/ (\A a \in Apps : apc[a] = "idle" /\ todo[a] = 0)
====
