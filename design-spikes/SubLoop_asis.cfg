INIT Init
NEXT Next
CONSTANTS Apps = {"a1","a2"} Ops = 3 Cap = 2 DevPauseUnderLock = TRUE
INVARIANT NoStuck
CHECK_DEADLOCK FALSE
