---- MODULE ScSend ----
(* Spike: client send path vs. token renewal; labels mirror uasc/secure_channel.go *)
EXTENDS Naturals, Sequences, FiniteSets, TLC
CONSTANTS Senders, DevGateGap, MaxChunks
ASSUME DevGateGap \in BOOLEAN

Procs == Senders \cup {"renew"}

VARIABLES gate,      \* reqLocker.bLock
          pending,   \* pendingReq counter
          instLock,  \* [inst -> holder or "none"]
          seq,       \* [inst -> last sequence number]
          active,    \* active instance
          installed, \* new instance installed?
          pc, myInst, left, wire
vars == <<gate, pending, instLock, seq, active, installed, pc, myInst, left, wire>>

Insts == {1, 2}

Init == /\ gate = FALSE /\ pending = 0
        /\ instLock = [i \in Insts |-> "none"]
        /\ seq = [i \in Insts |-> IF i = 1 THEN 10 ELSE 0]
        /\ active = 1 /\ installed = FALSE
        /\ pc = [p \in Procs |-> IF p = "renew" THEN "r1" ELSE "c1"]
        /\ myInst = [p \in Procs |-> 0]
        /\ left = [p \in Procs |-> 0]
        /\ wire = <<>>

Goto(p, l) == pc' = [pc EXCEPT ![p] = l]

\* ---- sender ----
C1(p) == /\ pc[p] = "c1" /\ gate = FALSE
         /\ IF DevGateGap THEN /\ Goto(p, "c2") /\ UNCHANGED pending
                          ELSE /\ pending' = pending + 1 /\ Goto(p, "c2")  \* contract: counted atomically with passing the gate
         /\ UNCHANGED <<gate, instLock, seq, active, installed, myInst, left, wire>>
C2(p) == /\ pc[p] = "c2" /\ myInst' = [myInst EXCEPT ![p] = active] /\ Goto(p, "c4")
         /\ UNCHANGED <<gate, pending, instLock, seq, active, installed, left, wire>>
C4(p) == /\ pc[p] = "c4"
         /\ IF DevGateGap THEN pending' = pending + 1 ELSE UNCHANGED pending
         /\ Goto(p, "c5")
         /\ UNCHANGED <<gate, instLock, seq, active, installed, myInst, left, wire>>
C5(p) == /\ pc[p] = "c5" /\ instLock[myInst[p]] = "none"
         /\ instLock' = [instLock EXCEPT ![myInst[p]] = p]
         /\ \E n \in 1..MaxChunks : left' = [left EXCEPT ![p] = n]
         /\ Goto(p, "c8")
         /\ UNCHANGED <<gate, pending, seq, active, installed, myInst, wire>>
C8(p) == /\ pc[p] = "c8" /\ left[p] > 0
         /\ seq' = [seq EXCEPT ![myInst[p]] = @ + 1]
         /\ wire' = Append(wire, [tok |-> myInst[p], seq |-> seq[myInst[p]] + 1, who |-> p, last |-> left[p] = 1])
         /\ left' = [left EXCEPT ![p] = @ - 1]
         /\ IF left[p] = 1 THEN Goto(p, "c9") ELSE UNCHANGED pc
         /\ UNCHANGED <<gate, pending, instLock, active, installed, myInst>>
C9(p) == /\ pc[p] = "c9"
         /\ instLock' = [instLock EXCEPT ![myInst[p]] = "none"]
         /\ pending' = pending - 1
         /\ Goto(p, "done")
         /\ UNCHANGED <<gate, seq, active, installed, myInst, left, wire>>

\* ---- renewer ----
R1 == /\ pc["renew"] = "r1" /\ gate' = TRUE /\ Goto("renew", "r2")
      /\ UNCHANGED <<pending, instLock, seq, active, installed, myInst, left, wire>>
R2 == /\ pc["renew"] = "r2" /\ pending = 0 /\ Goto("renew", "r3")
      /\ UNCHANGED <<gate, pending, instLock, seq, active, installed, myInst, left, wire>>
R3 == /\ pc["renew"] = "r3" /\ instLock[1] = "none"
      /\ instLock' = [instLock EXCEPT ![1] = "renew"] /\ Goto("renew", "r5")
      /\ UNCHANGED <<gate, pending, seq, active, installed, myInst, left, wire>>
R5 == /\ pc["renew"] = "r5" /\ seq' = [seq EXCEPT ![2] = seq[1]] /\ Goto("renew", "r7")
      /\ UNCHANGED <<gate, pending, instLock, active, installed, myInst, left, wire>>
R7 == /\ pc["renew"] = "r7"   \* OPN request on the new instance
      /\ seq' = [seq EXCEPT ![2] = @ + 1]
      /\ wire' = Append(wire, [tok |-> 2, seq |-> seq[2] + 1, who |-> "renew", last |-> TRUE])
      /\ Goto("renew", "r8")
      /\ UNCHANGED <<gate, pending, instLock, active, installed, myInst, left>>
R8 == /\ pc["renew"] = "r8" /\ active' = 2 /\ installed' = TRUE /\ Goto("renew", "r10")
      /\ UNCHANGED <<gate, pending, instLock, seq, myInst, left, wire>>
R10 == /\ pc["renew"] = "r10" /\ instLock' = [instLock EXCEPT ![1] = "none"] /\ gate' = FALSE
       /\ Goto("renew", "done")
       /\ UNCHANGED <<pending, seq, active, installed, myInst, left, wire>>

Next == \/ \E p \in Senders : C1(p) \/ C2(p) \/ C4(p) \/ C5(p) \/ C8(p) \/ C9(p)
        \/ R1 \/ R2 \/ R3 \/ R5 \/ R7 \/ R8 \/ R10
        \/ (\A p \in Procs : pc[p] = "done") /\ UNCHANGED vars

Spec == Init /\ [][Next]_vars

InvSeqStep == \A i \in 1..Len(wire)-1 : wire[i+1].seq = wire[i].seq + 1
InvContiguous == \A i \in 1..Len(wire)-1 : ~wire[i].last => wire[i+1].who = wire[i].who
InvNoMisuse == \A p \in Senders : (pc[p] = "c4" /\ pc["renew"] = "r2" /\ pending = 0) => ~DevGateGap
====
