INIT Init
NEXT Next
INVARIANT InvRoundTrip
CHECK_DEADLOCK FALSE
