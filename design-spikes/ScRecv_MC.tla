---- MODULE ScRecv_MC ----
EXTENDS ScRecv
\* three messages: m1 = 2 chunks (req 1), m2 = 1 chunk (req 2) interleaved, m3 = 2 chunks (req 3)
BaseStream == <<
 [id |-> 1, tok |-> 1, seq |-> 0, req |-> 1, kind |-> "C", msg |-> 1],
 [id |-> 2, tok |-> 1, seq |-> 1, req |-> 2, kind |-> "F", msg |-> 2],
 [id |-> 3, tok |-> 1, seq |-> 2, req |-> 1, kind |-> "F", msg |-> 1],
 [id |-> 4, tok |-> 1, seq |-> 3, req |-> 3, kind |-> "C", msg |-> 3],
 [id |-> 5, tok |-> 1, seq |-> 4, req |-> 3, kind |-> "F", msg |-> 3] >>
====
