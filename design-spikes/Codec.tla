---- MODULE Codec ----
(* Spike: wire grammar of Variant / DataValue as TLA+ operators over token sequences *)
EXTENDS Integers, Sequences, FiniteSets, TLC, Json

\* ---------- abstract values ----------
Types == {"Bool", "Int32", "String", "ByteString", "Variant"}
Atoms(t) == CASE t = "Bool" -> {"F", "T"}
              [] t = "Int32" -> {"min", "m1", "0", "max"}
              [] t = "String" -> {"null", "empty", "a"}
              [] t = "ByteString" -> {"null", "empty", "x"}
              [] t = "Variant" -> {"vnull"}     \* nested variant limited to the Null variant in this spike
\* Variant shapes
Shapes(t) == {[k |-> "scalar", t |-> t, v |-> <<a>>, dims |-> <<>>] : a \in Atoms(t)}
      \cup {[k |-> "nullarr", t |-> t, v |-> <<>>, dims |-> <<>>]}
      \cup {[k |-> "arr", t |-> t, v |-> <<>>, dims |-> <<>>]}
      \cup {[k |-> "arr", t |-> t, v |-> <<a, b>>, dims |-> <<>>] : a \in Atoms(t), b \in Atoms(t)}
      \cup {[k |-> "arr", t |-> t, v |-> <<a, a, b, b>>, dims |-> <<2, 2>>] : a \in Atoms(t), b \in Atoms(t)}
Variants == {[k |-> "null", t |-> "Null", v |-> <<>>, dims |-> <<>>]} \cup UNION {Shapes(t) : t \in Types}

TypeId(t) == CASE t = "Null" -> 0 [] t = "Bool" -> 1 [] t = "Int32" -> 6 [] t = "String" -> 12 [] t = "ByteString" -> 15 [] t = "Variant" -> 24

\* ---------- tokens ----------
Tok(k, v) == [k |-> k, v |-> v]

EncAtom(t, a) ==
  CASE t = "Bool" -> <<Tok("u8", IF a = "T" THEN 1 ELSE 0)>>
    [] t = "Int32" -> <<Tok("i32", a)>>
    [] t = "String" -> IF a \in {"null", "empty"} THEN <<Tok("len", -1)>> ELSE <<Tok("len", 1), Tok("bytes", a)>>   \* "" is written as null
    [] t = "ByteString" -> IF a = "null" THEN <<Tok("len", -1)>> ELSE IF a = "empty" THEN <<Tok("len", 0)>> ELSE <<Tok("len", 1), Tok("bytes", a)>>
    [] t = "Variant" -> <<Tok("u8", 0)>>

RECURSIVE Cat(_)
Cat(ss) == IF ss = <<>> THEN <<>> ELSE Head(ss) \o Cat(Tail(ss))

Mask(x) == TypeId(x.t) + (IF x.k \in {"arr", "nullarr"} THEN 128 ELSE 0) + (IF Len(x.dims) > 1 THEN 64 ELSE 0)

EncVariant(x) ==
  IF x.k = "null" THEN <<Tok("u8", 0)>>
  ELSE <<Tok("u8", Mask(x))>>
       \o (IF x.k = "nullarr" THEN <<Tok("i32n", -1)>> ELSE IF x.k = "arr" THEN <<Tok("i32n", Len(x.v))>> ELSE <<>>)
       \o Cat([i \in 1..Len(x.v) |-> EncAtom(x.t, x.v[i])])
       \o (IF Len(x.dims) > 1 THEN <<Tok("i32n", Len(x.dims))>> \o [i \in 1..Len(x.dims) |-> Tok("i32n", x.dims[i])] ELSE <<>>)

\* documented normalisations
NormAtom(t, a) == IF t = "String" /\ a = "empty" THEN "null" ELSE IF t = "ByteString" /\ a = "empty" THEN "null" ELSE a
Norm(x) == [x EXCEPT !.v = [i \in 1..Len(x.v) |-> NormAtom(x.t, x.v[i])]]

\* ---------- decoder: returns [ok, val, rest] ----------
TypeOf(id) == CASE id = 0 -> "Null" [] id = 1 -> "Bool" [] id = 6 -> "Int32" [] id = 12 -> "String" [] id = 15 -> "ByteString" [] id = 24 -> "Variant" [] OTHER -> "bad"
Fail == [ok |-> FALSE, val |-> "err", rest |-> <<>>]

DecAtom(t, s) ==
  IF s = <<>> THEN Fail ELSE
  CASE t = "Bool" -> IF s[1].k = "u8" THEN [ok |-> TRUE, val |-> IF s[1].v > 0 THEN "T" ELSE "F", rest |-> Tail(s)] ELSE Fail
    [] t = "Int32" -> IF s[1].k = "i32" THEN [ok |-> TRUE, val |-> s[1].v, rest |-> Tail(s)] ELSE Fail
    [] t \in {"String", "ByteString"} ->
         IF s[1].k # "len" THEN Fail
         ELSE IF s[1].v <= 0 THEN [ok |-> TRUE, val |-> "null", rest |-> Tail(s)]
         ELSE IF Len(s) >= 2 /\ s[2].k = "bytes" THEN [ok |-> TRUE, val |-> s[2].v, rest |-> Tail(Tail(s))] ELSE Fail
    [] t = "Variant" -> IF s[1].k = "u8" /\ s[1].v = 0 THEN [ok |-> TRUE, val |-> "vnull", rest |-> Tail(s)] ELSE Fail

RECURSIVE DecN(_, _, _, _)
DecN(t, n, s, acc) == IF n = 0 THEN [ok |-> TRUE, val |-> acc, rest |-> s]
                      ELSE LET r == DecAtom(t, s) IN IF ~r.ok THEN Fail ELSE DecN(t, n - 1, r.rest, Append(acc, r.val))

RECURSIVE DecDims(_, _, _)
DecDims(n, s, acc) == IF n = 0 THEN [ok |-> TRUE, val |-> acc, rest |-> s]
                      ELSE IF s = <<>> \/ s[1].k # "i32n" \/ s[1].v < 1 THEN Fail ELSE DecDims(n - 1, Tail(s), Append(acc, s[1].v))

RECURSIVE Prod(_)
Prod(d) == IF d = <<>> THEN 1 ELSE Head(d) * Prod(Tail(d))

DecVariant(s) ==
  IF s = <<>> \/ s[1].k # "u8" THEN Fail ELSE
  LET m == s[1].v  id == m % 64  t == TypeOf(id)  arr == (m \div 128) % 2 = 1  dim == (m \div 64) % 2 = 1  r0 == Tail(s) IN
  IF id = 0 THEN [ok |-> TRUE, val |-> [k |-> "null", t |-> "Null", v |-> <<>>, dims |-> <<>>], rest |-> r0]
  ELSE IF t = "bad" THEN Fail
  ELSE IF ~arr THEN LET r == DecAtom(t, r0) IN IF r.ok THEN [ok |-> TRUE, val |-> [k |-> "scalar", t |-> t, v |-> <<r.val>>, dims |-> <<>>], rest |-> r.rest] ELSE Fail
  ELSE IF r0 = <<>> \/ r0[1].k # "i32n" THEN Fail
  ELSE LET n == r0[1].v IN
       IF n < -1 \/ n > 65535 THEN Fail      \* contract: negative lengths other than -1 are errors
       ELSE IF n = -1 THEN [ok |-> TRUE, val |-> [k |-> "nullarr", t |-> t, v |-> <<>>, dims |-> <<>>], rest |-> Tail(r0)]
       ELSE LET rv == DecN(t, n, Tail(r0), <<>>) IN
            IF ~rv.ok THEN Fail
            ELSE IF ~dim THEN [ok |-> TRUE, val |-> [k |-> "arr", t |-> t, v |-> rv.val, dims |-> <<>>], rest |-> rv.rest]
            ELSE IF rv.rest = <<>> \/ rv.rest[1].k # "i32n" \/ rv.rest[1].v < 0 THEN Fail
            ELSE LET rd == DecDims(rv.rest[1].v, Tail(rv.rest), <<>>) IN
                 IF ~rd.ok THEN Fail
                 ELSE IF rd.val # <<>> /\ Prod(rd.val) # n THEN Fail
                 ELSE [ok |-> TRUE, val |-> [k |-> "arr", t |-> t, v |-> rv.val, dims |-> IF Len(rd.val) > 1 THEN rd.val ELSE <<>>], rest |-> rd.rest]

RoundTrip(x) == LET r == DecVariant(EncVariant(x)) IN r.ok /\ r.val = Norm(x) /\ r.rest = <<>>

VARIABLE cur
Init == cur \in Variants
Next == UNCHANGED cur
InvRoundTrip == RoundTrip(cur)
Emit == PrintT(<<"CASE", ToJson([val |-> cur, toks |-> EncVariant(cur)])>>)
====
