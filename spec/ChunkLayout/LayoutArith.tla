---------------------------- MODULE LayoutArith ----------------------------
(***************************************************************************)
(* Pure arithmetic of the OPC UA Part 6 secured chunk layout (6.7.2).      *)
(* Kept free of TLC-only modules so that the same definitions are used by  *)
(* TLC (through ChunkLayout) and by TLAPS (LayoutArithProof).              *)
(*                                                                         *)
(* A chunk is                                                              *)
(*   MessageHeader(8) SecureChannelId(4) SecurityHeader(H)                 *)
(*   [ SequenceHeader(8) Body(b) PaddingSize(1) Padding(pad)               *)
(*     ExtraPaddingSize(0|1) Signature(S) ]   <- encrypted region          *)
(* The encrypted region is a whole number of plaintext blocks of PB bytes, *)
(* each of which becomes CB bytes of ciphertext.  P = 1 + (extra ? 1 : 0). *)
(***************************************************************************)
EXTENDS Integers

MsgHdr   == 12    \* message header (8) + secure channel id (4)
SymHdr   == 4     \* symmetric security header: token id
SeqHdr   == 8     \* sequence number + request id

\* number of padding bytes (excluding the PaddingSize / ExtraPaddingSize bytes) that
\* make SeqHdr + b + P + pad + S a multiple of PB
Rem(b, S, P, PB)    == (SeqHdr + b + S + P) % PB
PadLen(b, S, P, PB) == IF Rem(b, S, P, PB) = 0 THEN 0 ELSE PB - Rem(b, S, P, PB)

\* plaintext length of the encrypted region, number of blocks, ciphertext length
PlainLen(b, S, P, PB)   == SeqHdr + b + P + PadLen(b, S, P, PB) + S
EncLen(b, S, P, PB, CB) == (PlainLen(b, S, P, PB) \div PB) * CB

\* total chunk length for a security header of H bytes
TotalEnc(b, S, P, PB, CB, H) == MsgHdr + H + EncLen(b, S, P, PB, CB)   \* signed and encrypted
TotalSign(b, S, H)           == MsgHdr + H + SeqHdr + b + S            \* signed only / no security (S = 0)

\* The maximum body size the implementation places in one symmetric chunk
\* (uasc/secure_channel_instance.go SetMaximumBodySize), as written: the
\* PaddingSize byte(s) are reserved OUTSIDE the floor.
MaxBodyF(cs, S, P, PB, CB) == PB * ((cs - MsgHdr - SymHdr) \div CB) - SeqHdr - S - P

\* The historical (Part 6 6.7.2.5 literal) formula: -1 inside the floor.
\* Used only by the deviation demo: it does not fit for most chunk sizes.
MaxBodyInside(cs, S, P, PB, CB) == PB * ((cs - MsgHdr - SymHdr - P) \div CB) - SeqHdr - S
=============================================================================
