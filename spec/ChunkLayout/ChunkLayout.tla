---------------------------- MODULE ChunkLayout ----------------------------
(***************************************************************************)
(* S3 ChunkLayout -- C38, C07, C08 (layout rows for harness/refcodec).     *)
(*                                                                         *)
(* 1. Policy tables written from OPC UA Part 7 (security policy profiles)  *)
(*    and the layout of secured chunks written from Part 6 6.7.2           *)
(*    (LayoutArith: padding, plaintext / ciphertext length, totals).       *)
(* 2. The maximum body size as the implementation computes it             *)
(*    (SetMaximumBodySize), and the C38 theorems about it (ThmFits,        *)
(*    ThmTight, ThmAligned, ThmSmallerFits).  The unbounded version is     *)
(*    proved in LayoutArithProof (TLAPS) for the same operators.           *)
(* 3. The chunker / wire / merger machine, one action per step of the      *)
(*    code: EncodeChunks+signAndEncrypt+Write per chunk (SendChunk), TCP   *)
(*    delivery (Deliver), Receive/verifyAndDecrypt/mergeChunks per chunk   *)
(*    (RecvChunk).  Bodies are byte ranges [off, len]; a message round     *)
(*    trips iff the ranges handed to the application are, in order, a      *)
(*    partition of [0, n).  C07 = InvFits, InvMsgSize, InvKinds,           *)
(*    InvRoundTrip.                                                        *)
(* 4. Every terminal state is emitted as a row (policy, mode, chunk size,  *)
(*    body size, expected chunk list with all lengths) and replayed on a   *)
(*    real channel pair; refcodec builds / opens chunks from the same rows.*)
(***************************************************************************)
EXTENDS LayoutArith, PolicyTables, Sequences, FiniteSets, TLC, Json

CONSTANTS
  CSizes,              \* chunk sizes explored by the machine
  Ks,                  \* body sizes are k * MaxBody + d, k \in Ks, d \in Ds
  Ds,
  ExtraBodies,         \* further absolute body sizes
  SweepLo, SweepHi,    \* range of chunk sizes for the arithmetic sweep (ThmSweep)
  Emit,                \* TRUE: print one row per terminal state
  Dev_PadInsideFloor,  \* deviation demo (C38): Part 6 literal formula, -P inside the floor
  Dev_ShortIntermediate, \* deviation demo (C07): intermediate chunk carries MaxBody-1 bytes but the offset advances by MaxBody
  Dev_IntermediateFinal  \* deviation demo (C07): intermediate chunks marked 'F'

\* 1. Policy tables: module PolicyTables (shared with spec/Crypto)
---------------------------------------------------------------------------
\* 2. Layout of one symmetric chunk with a body of b bytes (Part 6 6.7.2)
SymChunk(pol, mode, b) ==
  LET t == SymTab[pol] IN
  IF mode = "SignAndEncrypt"
  THEN [body  |-> b, pad |-> PadLen(b, t.sig, 1, t.pb), padBytes |-> 1, sig |-> t.sig,
        plain |-> PlainLen(b, t.sig, 1, t.pb), enc |-> EncLen(b, t.sig, 1, t.pb, t.cb),
        total |-> TotalEnc(b, t.sig, 1, t.pb, t.cb, SymHdr), encrypted |-> TRUE]
  ELSE LET s == IF mode = "Sign" THEN t.sig ELSE 0 IN
       [body  |-> b, pad |-> 0, padBytes |-> 0, sig |-> s,
        plain |-> SeqHdr + b + s, enc |-> SeqHdr + b + s,
        total |-> TotalSign(b, s, SymHdr), encrypted |-> FALSE]

\* Layout of one asymmetric (OPN) chunk: sender key lk bytes (signature length),
\* receiver key rk bytes (cipher block), security header H bytes, body b bytes.
\* ExtraPaddingSize is present iff the key used to ENCRYPT (the receiver's) is
\* larger than 2048 bits.  pb = plaintext block the sender uses (<= rk - encPad).
AsymPadBytes(rk) == IF rk > 256 THEN 2 ELSE 1
AsymChunkPB(pol, lk, rk, H, b, pb) ==
  LET P == AsymPadBytes(rk) IN
  [body  |-> b, pad |-> PadLen(b, lk, P, pb), padBytes |-> P, sig |-> lk,
   padByte |-> PadLen(b, lk, P, pb) % 256, extraByte |-> PadLen(b, lk, P, pb) \div 256,
   plain |-> PlainLen(b, lk, P, pb), enc |-> EncLen(b, lk, P, pb, rk), pb |-> pb, cb |-> rk,
   total |-> TotalEnc(b, lk, P, pb, rk, H), encrypted |-> TRUE]
AsymChunk(pol, lk, rk, H, b) == AsymChunkPB(pol, lk, rk, H, b, rk - AsymTab[pol].encPad)

\* The maximum body size the channel places into one chunk (implementation as written:
\* the same formula in every mode, block sizes and signature length of the policy).
MaxBody(cs, pol, mode) ==
  LET t == SymTab[pol] IN
  IF Dev_PadInsideFloor THEN MaxBodyInside(cs, t.sig, 1, t.pb, t.cb)
                        ELSE MaxBodyF(cs, t.sig, 1, t.pb, t.cb)

\* C38 for one (chunk size, policy, mode)
Fits(cs, pol, mode)    == SymChunk(pol, mode, MaxBody(cs, pol, mode)).total <= cs
Tight(cs, pol, mode)   == mode = "SignAndEncrypt" =>
                            SymChunk(pol, mode, MaxBody(cs, pol, mode) + 1).total > cs
Aligned(cs, pol, mode) == mode = "SignAndEncrypt" =>
                            /\ SymChunk(pol, mode, MaxBody(cs, pol, mode)).plain % SymTab[pol].pb = 0
                            /\ SymChunk(pol, mode, MaxBody(cs, pol, mode)).enc % SymTab[pol].cb = 0
Positive(cs, pol, mode) == MaxBody(cs, pol, mode) > 0
C38At(cs, pol, mode)   == Fits(cs, pol, mode) /\ Tight(cs, pol, mode) /\ Aligned(cs, pol, mode) /\ Positive(cs, pol, mode)

---------------------------------------------------------------------------
\* 3. The machine
VARIABLES pol, mode, cs, n,   \* configuration and body size of the message being sent
          sent,               \* number of chunks emitted so far
          wire,               \* chunks written to the socket, not yet read by the peer
          log,                \* every chunk ever written (history, for the row)
          buf,                \* ranges buffered by the receiver (intermediate chunks)
          out,                \* ranges handed to the application (<<>> until the final chunk)
          done                \* receiver delivered the message
vars == <<pol, mode, cs, n, sent, wire, log, buf, out, done>>

MB       == MaxBody(cs, pol, mode)
NrChunks == n \div MB + 1                    \* uasc/message.go EncodeChunks
Bodies(c, p, m) ==
  {x \in {k * MaxBody(c, p, m) + d : k \in Ks, d \in Ds} \cup ExtraBodies : x >= 0}

Init == /\ \E pm \in PolModes : pol = pm[1] /\ mode = pm[2]
        /\ cs \in CSizes
        /\ n \in Bodies(cs, pol, mode)
        /\ sent = 0 /\ wire = <<>> /\ log = <<>> /\ buf = <<>> /\ out = <<>> /\ done = FALSE

\* sender: chunk number sent+1 (EncodeChunks slice, signAndEncrypt, Write)
NextChunk ==
  LET last == (sent + 1 = NrChunks)
      off  == sent * MB
      len  == IF last THEN n - off
              ELSE IF Dev_ShortIntermediate THEN MB - 1 ELSE MB
      kind == IF last \/ Dev_IntermediateFinal THEN "F" ELSE "C"
  IN SymChunk(pol, mode, len) @@ [kind |-> kind, off |-> off, msgSize |-> SymChunk(pol, mode, len).total]
SendChunk ==
  /\ sent < NrChunks
  /\ wire' = Append(wire, NextChunk)
  /\ log'  = Append(log, NextChunk)
  /\ sent' = sent + 1
  /\ UNCHANGED <<pol, mode, cs, n, buf, out, done>>

\* receiver: read one chunk, verify / decrypt / strip padding, buffer or merge
RecvChunk ==
  /\ wire # <<>> /\ ~done
  /\ LET c == Head(wire)
         r == [off |-> c.off, len |-> c.body]
     IN IF c.kind = "C"
        THEN /\ buf' = Append(buf, r) /\ UNCHANGED <<out, done>>
        ELSE /\ out' = Append(buf, r) /\ buf' = <<>> /\ done' = TRUE
  /\ wire' = Tail(wire)
  /\ UNCHANGED <<pol, mode, cs, n, sent, log>>

Next == SendChunk \/ RecvChunk
Spec == Init /\ [][Next]_vars

Terminal == sent = NrChunks /\ wire = <<>>

---------------------------------------------------------------------------
\* Properties
\* C38 at the configuration of this behaviour
AtStart == sent = 0       \* theorems about (cs, pol, mode) only: evaluated once per configuration
ThmC38 == AtStart => C38At(cs, pol, mode)

\* C38: every body up to the maximum fits (checked for the bodies of this behaviour
\* and, exhaustively over a window below the maximum, in ThmWindow)
ThmWindow == AtStart =>
  LET t == SymTab[pol] IN
  \A b \in (IF MB > 48 THEN MB - 48 ELSE 0)..MB :
     IF mode = "SignAndEncrypt"
     THEN /\ TotalEnc(b, t.sig, 1, t.pb, t.cb, SymHdr) <= cs
          /\ PlainLen(b, t.sig, 1, t.pb) % t.pb = 0
     ELSE TotalSign(b, IF mode = "Sign" THEN t.sig ELSE 0, SymHdr) <= cs

\* C07: every emitted chunk fits the negotiated chunk size ...
InvFits    == \A i \in 1..Len(log) : log[i].total <= cs
\* ... carries a MessageSize equal to its length ...
InvMsgSize == \A i \in 1..Len(log) : log[i].msgSize = log[i].total
\* ... all chunks but the last are intermediate, the last is final
InvKinds   == /\ \A i \in 1..Len(log) : i < NrChunks => log[i].kind = "C"
              /\ (sent = NrChunks => log[NrChunks].kind = "F")
\* ... and the peer reassembles exactly the original message: the delivered
\* ranges are, in order, a partition of [0, n)
RECURSIVE Contig(_, _)
Contig(rs, from) == IF rs = <<>> THEN from
                    ELSE IF Head(rs).off = from /\ Head(rs).len >= 0
                         THEN Contig(Tail(rs), from + Head(rs).len) ELSE -1
InvRoundTrip == /\ (done => Contig(out, 0) = n)
                /\ (Terminal => done)
\* no chunk body exceeds MaxBody (so ThmSmallerFits applies to every chunk)
InvBodyBound == \A i \in 1..Len(log) : log[i].body >= 0 /\ log[i].body <= MB

\* asymmetric layout sanity over all admissible key pairs (sender lk, receiver rk):
\* block aligned, decryptable block by block, padding recoverable from the two size bytes
KeySizes == {128, 256, 384, 512}
AsymBodies == 520      \* more than one plaintext block of the largest key
AsymOK(p, lk, rk, b) ==
  LET c == AsymChunk(p, lk, rk, 100, b) IN
  /\ c.plain % c.pb = 0
  /\ c.enc = (c.plain \div c.pb) * rk
  /\ c.pb > 0 /\ c.pb <= rk - AsymTab[p].encPad
  /\ c.padByte + 256 * c.extraByte = c.pad
  /\ (c.padBytes = 1 => c.pad < 256)          \* one size byte suffices unless rk > 2048 bits
  /\ c.plain = SeqHdr + b + c.pad + c.padBytes + lk
ThmAsym == \A p \in DOMAIN AsymTab : \A lk, rk \in KeySizes :
             (lk >= AsymTab[p].minKey /\ lk <= AsymTab[p].maxKey /\ rk >= AsymTab[p].minKey /\ rk <= AsymTab[p].maxKey)
               => \A b \in 0..AsymBodies : AsymOK(p, lk, rk, b)

---------------------------------------------------------------------------
\* Arithmetic sweep: C38 for every chunk size in SweepLo..SweepHi, one state per
\* (policy, mode, window of SweepWin chunk sizes).  C38Fast is C38At written directly
\* with the LayoutArith operators (InvFastSame checks that both agree in every
\* state of the machine).
C38Fast(c, p, m) ==
  LET t  == SymTab[p]
      mb == MaxBody(c, p, m)
  IN IF m = "SignAndEncrypt"
     THEN /\ mb > 0
          /\ TotalEnc(mb, t.sig, 1, t.pb, t.cb, SymHdr) <= c
          /\ TotalEnc(mb + 1, t.sig, 1, t.pb, t.cb, SymHdr) > c
          /\ PlainLen(mb, t.sig, 1, t.pb) % t.pb = 0
     ELSE /\ mb > 0
          /\ TotalSign(mb, IF m = "Sign" THEN t.sig ELSE 0, SymHdr) <= c
InvFastSame == AtStart => C38Fast(cs, pol, mode) = C38At(cs, pol, mode)

SweepWin  == 512
\* cs = lower end, n = length of the range still to split (binary splitting in Next so
\* that the windows are evaluated by all TLC workers, not by the single Init thread)
InitSweep == /\ \E pm \in PolModes : pol = pm[1] /\ mode = pm[2]
             /\ cs = SweepLo /\ n = SweepHi - SweepLo + 1
             /\ sent = 0 /\ wire = <<>> /\ log = <<>> /\ buf = <<>> /\ out = <<>> /\ done = FALSE
NextSweep == /\ n > SweepWin
             /\ \/ cs' = cs /\ n' = n \div 2
                \/ cs' = cs + n \div 2 /\ n' = n - n \div 2
             /\ UNCHANGED <<pol, mode, sent, wire, log, buf, out, done>>
ThmSweep  == n <= SweepWin => \A c \in cs..(cs + n - 1) : C38Fast(c, pol, mode)

DsDefault == {-1, 0, 1}

\* ThmAsym split into one state per (policy, sender key): pol = policy, cs = sender key bytes
InitAsym == /\ pol \in DOMAIN AsymTab /\ mode = "SignAndEncrypt"
            /\ cs \in {k \in KeySizes : k >= AsymTab[pol].minKey /\ k <= AsymTab[pol].maxKey}
            /\ n = 0
            /\ sent = 0 /\ wire = <<>> /\ log = <<>> /\ buf = <<>> /\ out = <<>> /\ done = FALSE
ThmAsymAt == \A rk \in {k \in KeySizes : k >= AsymTab[pol].minKey /\ k <= AsymTab[pol].maxKey} :
               \A b \in 0..AsymBodies : AsymOK(pol, cs, rk, b)
---------------------------------------------------------------------------
\* Rows
Row == [pol |-> pol, mode |-> mode, cs |-> cs, maxBody |-> MB, n |-> n, chunks |-> log]
InvEmit == (Emit /\ Terminal /\ done) => PrintT("ROW " \o ToJson(Row))
\* the policy tables, once per generating run: harness/refcodec takes all its numbers from here
ASSUME Emit => PrintT("ROW " \o ToJson([table |-> "policy", sym |-> SymTab, asym |-> AsymTab]))
=============================================================================
