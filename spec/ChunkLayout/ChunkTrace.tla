----------------------------- MODULE ChunkTrace -----------------------------
(***************************************************************************)
(* code -> spec for C07: events recorded on a real channel pair are        *)
(* validated against the chunker / wire / merger machine of ChunkLayout.   *)
(*   msg     {pol, mode, cs, n}       a message of n body bytes is sent    *)
(*   send    {kind, total, msgSize}   a chunk passed the frame proxy       *)
(*                                    (= SendChunk)                        *)
(*   recv    {kind, body}             the peer verified / decrypted a      *)
(*                                    chunk (hook recv.chunk; = RecvChunk) *)
(*   deliver {same}                   the peer's application got the       *)
(*                                    message; same = payload identical    *)
(* Many messages in one log (msg resets the machine).  The trace is linear *)
(* and deterministic: every record must be an enabled step whose effect    *)
(* matches the logged values; bad = index of the first record that is not. *)
(***************************************************************************)
EXTENDS ChunkLayout

Log == ndJsonDeserialize("trace.ndjson")

VARIABLES l, bad
tvars == <<vars, l, bad>>

InitT == /\ l = 1 /\ bad = 0
         /\ pol = "None" /\ mode = "None" /\ cs = 8192 /\ n = 0
         /\ sent = 1 /\ wire = <<>> /\ log = <<>> /\ buf = <<>> /\ out = <<>> /\ done = TRUE

TMsg(e) == /\ <<e.pol, e.mode>> \in PolModes /\ e.cs >= 8192 /\ e.n >= 0
           /\ pol' = e.pol /\ mode' = e.mode /\ cs' = e.cs /\ n' = e.n
           /\ sent' = 0 /\ wire' = <<>> /\ log' = <<>> /\ buf' = <<>> /\ out' = <<>> /\ done' = FALSE
TSend(e) == /\ sent < NrChunks
            /\ NextChunk.kind = e.kind /\ NextChunk.total = e.total /\ NextChunk.msgSize = e.msgSize
            /\ e.total <= cs
            /\ SendChunk
TRecv(e) == /\ wire # <<>> /\ ~done
            /\ Head(wire).kind = e.kind /\ Head(wire).body = e.body
            /\ RecvChunk
TDeliver(e) == /\ Terminal /\ done /\ Contig(out, 0) = n /\ e.same
               /\ UNCHANGED vars

Step(e) == CASE e.ev = "msg" -> TMsg(e) [] e.ev = "send" -> TSend(e) [] e.ev = "recv" -> TRecv(e)
             [] e.ev = "deliver" -> TDeliver(e) [] OTHER -> FALSE

NextT == /\ l <= Len(Log) /\ bad = 0
         /\ l' = l + 1
         /\ \/ Step(Log[l]) /\ bad' = 0
            \/ ~ENABLED Step(Log[l]) /\ bad' = l /\ UNCHANGED vars

InvAccepted == bad = 0
\* the machine invariants hold in every state of the trace as well
InvTraceFits == InvFits /\ InvMsgSize
=============================================================================
