---------------------------- MODULE PolicyTables ----------------------------
(***************************************************************************)
(* Security policy tables written from OPC UA Part 7 (security policy      *)
(* profiles) -- shared by spec/ChunkLayout and spec/Crypto (identical      *)
(* copies; the checks refuse to run if they differ).  Lengths in bytes.    *)
(***************************************************************************)
EXTENDS Integers, TLC

Policies == {"None", "Basic128Rsa15", "Basic256", "Basic256Sha256",
             "Aes128_Sha256_RsaOaep", "Aes256_Sha256_RsaPss"}

SymTab ==
  ( "None"                  :> [sig |-> 0,  pb |-> 1,  cb |-> 1,  sigKey |-> 0,  encKey |-> 0,  iv |-> 0,  hash |-> "none",   nonce |-> 0]
 @@ "Basic128Rsa15"         :> [sig |-> 20, pb |-> 16, cb |-> 16, sigKey |-> 16, encKey |-> 16, iv |-> 16, hash |-> "sha1",   nonce |-> 16]
 @@ "Basic256"              :> [sig |-> 20, pb |-> 16, cb |-> 16, sigKey |-> 24, encKey |-> 32, iv |-> 16, hash |-> "sha1",   nonce |-> 32]
 @@ "Basic256Sha256"        :> [sig |-> 32, pb |-> 16, cb |-> 16, sigKey |-> 32, encKey |-> 32, iv |-> 16, hash |-> "sha256", nonce |-> 32]
 @@ "Aes128_Sha256_RsaOaep" :> [sig |-> 32, pb |-> 16, cb |-> 16, sigKey |-> 32, encKey |-> 16, iv |-> 16, hash |-> "sha256", nonce |-> 32]
 @@ "Aes256_Sha256_RsaPss"  :> [sig |-> 32, pb |-> 16, cb |-> 16, sigKey |-> 32, encKey |-> 32, iv |-> 16, hash |-> "sha256", nonce |-> 32] )

\* asymmetric suites: encryption scheme with its per-block overhead, signature scheme,
\* admissible RSA modulus sizes (bytes)
AsymTab ==
  ( "Basic128Rsa15"         :> [enc |-> "pkcs1v15",    encPad |-> 11, sigAlg |-> "pkcs1v15-sha1",   minKey |-> 128, maxKey |-> 256]
 @@ "Basic256"              :> [enc |-> "oaep-sha1",   encPad |-> 42, sigAlg |-> "pkcs1v15-sha1",   minKey |-> 128, maxKey |-> 256]
 @@ "Basic256Sha256"        :> [enc |-> "oaep-sha1",   encPad |-> 42, sigAlg |-> "pkcs1v15-sha256", minKey |-> 256, maxKey |-> 512]
 @@ "Aes128_Sha256_RsaOaep" :> [enc |-> "oaep-sha1",   encPad |-> 42, sigAlg |-> "pkcs1v15-sha256", minKey |-> 256, maxKey |-> 512]
 @@ "Aes256_Sha256_RsaPss"  :> [enc |-> "oaep-sha256", encPad |-> 66, sigAlg |-> "pss-sha256",      minKey |-> 256, maxKey |-> 512] )

ModesOf(pol) == IF pol = "None" THEN {"None"} ELSE {"Sign", "SignAndEncrypt"}
PolModes     == {pm \in Policies \X {"None", "Sign", "SignAndEncrypt"} : pm[2] \in ModesOf(pm[1])}

=============================================================================
