CONSTANTS
  CSizes = {8192}
  Ks = {0}
  Ds <- DsDefault
  ExtraBodies = {}
  SweepLo = 8192
  SweepHi = 8192
  Emit = FALSE
  Dev_PadInsideFloor = FALSE
  Dev_ShortIntermediate = FALSE
  Dev_IntermediateFinal = FALSE
INIT InitT
NEXT NextT
INVARIANT InvRec
CHECK_DEADLOCK FALSE
