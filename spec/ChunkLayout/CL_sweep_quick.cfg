CONSTANTS
  CSizes = {8192}
  Ks = {0}
  Ds <- DsDefault
  ExtraBodies = {}
  SweepLo = 8192
  SweepHi = 12287
  Emit = FALSE
  Dev_PadInsideFloor = FALSE
  Dev_ShortIntermediate = FALSE
  Dev_IntermediateFinal = FALSE
INIT InitSweep
NEXT NextSweep
INVARIANT ThmSweep
CHECK_DEADLOCK FALSE
