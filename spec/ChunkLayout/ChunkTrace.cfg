CONSTANTS
  CSizes = {8192}
  Ks = {0}
  Ds <- DsDefault
  ExtraBodies = {}
  SweepLo = 8192
  SweepHi = 8192
  Emit = FALSE
  Dev_PadInsideFloor = FALSE
  Dev_ShortIntermediate = FALSE
  Dev_IntermediateFinal = FALSE
INIT InitT
NEXT NextT
INVARIANT InvAccepted
INVARIANT InvTraceFits
CHECK_DEADLOCK FALSE
