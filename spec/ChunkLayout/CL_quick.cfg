CONSTANTS
  CSizes = {8192, 8193, 8207, 8208, 65535}
  Ks = {0, 1, 2, 3}
  Ds <- DsDefault
  ExtraBodies = {0, 1, 100}
  SweepLo = 8192
  SweepHi = 8192
  Emit = FALSE
  Dev_PadInsideFloor = FALSE
  Dev_ShortIntermediate = FALSE
  Dev_IntermediateFinal = FALSE
INIT Init
NEXT Next
INVARIANT ThmC38
INVARIANT ThmWindow
INVARIANT InvFits
INVARIANT InvMsgSize
INVARIANT InvKinds
INVARIANT InvRoundTrip
INVARIANT InvBodyBound
INVARIANT InvFastSame
CHECK_DEADLOCK FALSE
