---------------------------- MODULE LayoutTrace ----------------------------
(***************************************************************************)
(* code -> spec: layout records of chunks that the real channel put on the *)
(* wire (taken apart by harness/refcodec) are validated against the layout *)
(* operators of ChunkLayout.  One TLC state per record; InvRec fails at    *)
(* the first record the specification does not allow.                      *)
(*   sym  : pol, mode, cs, body, pad, padBytes, sig, plain, enc, total     *)
(*   asym : pol, lk, rk, h, body, pad, padBytes, sig, plain, enc, total,   *)
(*          pb (largest plaintext block observed), blocks                  *)
(***************************************************************************)
EXTENDS ChunkLayout

Log == ndJsonDeserialize("trace.ndjson")

VARIABLE l
tvars == <<vars, l>>

InitT == /\ l = 1
         /\ pol = "None" /\ mode = "None" /\ cs = 8192 /\ n = 0
         /\ sent = 0 /\ wire = <<>> /\ log = <<>> /\ buf = <<>> /\ out = <<>> /\ done = FALSE
NextT == l <= Len(Log) /\ l' = l + 1 /\ UNCHANGED vars

SameLens(c, e) == /\ c.pad = e.pad /\ c.padBytes = e.padBytes /\ c.sig = e.sig
                  /\ c.plain = e.plain /\ c.enc = e.enc /\ c.total = e.total

SymOK(e) == /\ <<e.pol, e.mode>> \in PolModes
            /\ SameLens(SymChunk(e.pol, e.mode, e.body), e)
            /\ e.total <= e.cs

\* The sender may use any plaintext block up to the limit of the encryption scheme (a
\* receiver decrypts block by block and cannot tell); everything else is determined.
AsymRecOK(e) == /\ e.pol \in DOMAIN AsymTab
                /\ e.lk >= AsymTab[e.pol].minKey /\ e.lk <= AsymTab[e.pol].maxKey
                /\ e.rk >= AsymTab[e.pol].minKey /\ e.rk <= AsymTab[e.pol].maxKey
                /\ LET pb == IF e.blocks = 1 THEN e.plain ELSE e.pb IN
                   /\ pb > 0 /\ pb <= e.rk - AsymTab[e.pol].encPad
                   /\ SameLens(AsymChunkPB(e.pol, e.lk, e.rk, e.h, e.body, pb), e)
                   /\ e.blocks * e.rk = e.enc

RecOK(e) == IF e.ev = "sym" THEN SymOK(e) ELSE IF e.ev = "asym" THEN AsymRecOK(e) ELSE FALSE
InvRec == l <= Len(Log) => RecOK(Log[l])
=============================================================================
