-------------------------- MODULE LayoutArithProof --------------------------
(***************************************************************************)
(* C38 for UNBOUNDED chunk sizes: machine-checked (TLAPS, SMT back end)    *)
(* proof that the maximum body size of the implementation (MaxBodyF of     *)
(* LayoutArith, the same operator TLC evaluates in ChunkLayout)            *)
(*   - fits the chunk in SignAndEncrypt, Sign and None mode,               *)
(*   - is tight in SignAndEncrypt mode (one more byte does not fit),       *)
(*   - yields a block aligned plaintext with zero padding bytes,           *)
(*   - and that every smaller body fits as well,                           *)
(* for every integer chunk size >= 8192 and the (signature length, block   *)
(* size) pairs of all symmetric policies: HMAC-SHA1 (20) / HMAC-SHA256     *)
(* (32) with AES-CBC (16/16), and policy None (0, 1/1).                    *)
(***************************************************************************)
EXTENDS LayoutArith, TLAPS

\* the operators of LayoutArith specialised to AES-CBC (PB = CB = 16, P = 1, H = 4)
B == 16
MB(cs, S) == B * ((cs - 16) \div B) - 9 - S
PL(b, S)  == IF (9 + b + S) % B = 0 THEN 0 ELSE B - ((9 + b + S) % B)
PT(b, S)  == 9 + b + S + PL(b, S)
TE(b, S)  == 16 + (PT(b, S) \div B) * B
TS(b, S)  == 24 + b + S

LEMMA Unfold ==
  ASSUME NEW cs \in Int, NEW S \in Int, NEW b \in Int
  PROVE  /\ MaxBodyF(cs, S, 1, 16, 16) = MB(cs, S)
         /\ PadLen(b, S, 1, 16) = PL(b, S)
         /\ PlainLen(b, S, 1, 16) = PT(b, S)
         /\ TotalEnc(b, S, 1, 16, 16, SymHdr) = TE(b, S)
         /\ TotalSign(b, S, SymHdr) = TS(b, S)
  BY DEF MaxBodyF, Rem, PadLen, PlainLen, EncLen, TotalEnc, TotalSign, MsgHdr, SymHdr, SeqHdr, B, MB, PL, PT, TE, TS

THEOREM CoreMax ==
  ASSUME NEW cs \in Int, cs >= 8192, NEW S \in {20, 32}
  PROVE  /\ MB(cs, S) > 0
         /\ TE(MB(cs, S), S) <= cs
         /\ TE(MB(cs, S) + 1, S) > cs
         /\ PT(MB(cs, S), S) % B = 0
         /\ PL(MB(cs, S), S) = 0
         /\ TS(MB(cs, S), S) <= cs
  BY SMTT(120) DEF B, MB, PL, PT, TE, TS

THEOREM CoreSmaller ==
  ASSUME NEW cs \in Int, cs >= 8192, NEW S \in {20, 32},
         NEW b \in Int, b >= 0, b <= MB(cs, S)
  PROVE  /\ TE(b, S) <= cs
         /\ PT(b, S) % B = 0
         /\ PL(b, S) >= 0 /\ PL(b, S) < B
         /\ TS(b, S) <= cs
  BY SMTT(120) DEF B, MB, PL, PT, TE, TS

THEOREM FitsNone ==
  ASSUME NEW cs \in Int, cs >= 8192,
         NEW b \in Int, b >= 0, b <= MaxBodyF(cs, 0, 1, 1, 1)
  PROVE  /\ MaxBodyF(cs, 0, 1, 1, 1) = cs - 25
         /\ TotalSign(b, 0, SymHdr) <= cs
  BY SMTT(120) DEF MaxBodyF, TotalSign, MsgHdr, SymHdr, SeqHdr

(* The statements in terms of the LayoutArith operators themselves. *)
THEOREM FitsSym ==
  ASSUME NEW cs \in Int, cs >= 8192, NEW S \in {20, 32}
  PROVE  /\ MaxBodyF(cs, S, 1, 16, 16) > 0
         /\ TotalEnc(MaxBodyF(cs, S, 1, 16, 16), S, 1, 16, 16, SymHdr) <= cs
         /\ TotalEnc(MaxBodyF(cs, S, 1, 16, 16) + 1, S, 1, 16, 16, SymHdr) > cs
         /\ PlainLen(MaxBodyF(cs, S, 1, 16, 16), S, 1, 16) % 16 = 0
         /\ PadLen(MaxBodyF(cs, S, 1, 16, 16), S, 1, 16) = 0
         /\ TotalSign(MaxBodyF(cs, S, 1, 16, 16), S, SymHdr) <= cs
<1>1. S \in Int OBVIOUS
<1>2. MaxBodyF(cs, S, 1, 16, 16) = MB(cs, S) BY <1>1, Unfold
<1>3. MB(cs, S) \in Int BY <1>1 DEF MB, B
<1>4. MB(cs, S) + 1 \in Int BY <1>3
<1>5. /\ PadLen(MB(cs, S), S, 1, 16) = PL(MB(cs, S), S)
      /\ PlainLen(MB(cs, S), S, 1, 16) = PT(MB(cs, S), S)
      /\ TotalEnc(MB(cs, S), S, 1, 16, 16, SymHdr) = TE(MB(cs, S), S)
      /\ TotalSign(MB(cs, S), S, SymHdr) = TS(MB(cs, S), S)
  BY <1>1, <1>3, Unfold
<1>6. TotalEnc(MB(cs, S) + 1, S, 1, 16, 16, SymHdr) = TE(MB(cs, S) + 1, S)
  BY <1>1, <1>4, Unfold
<1>7. QED BY <1>2, <1>5, <1>6, CoreMax DEF B

THEOREM SmallerFitsSym ==
  ASSUME NEW cs \in Int, cs >= 8192, NEW S \in {20, 32},
         NEW b \in Int, b >= 0, b <= MaxBodyF(cs, S, 1, 16, 16)
  PROVE  /\ TotalEnc(b, S, 1, 16, 16, SymHdr) <= cs
         /\ PlainLen(b, S, 1, 16) % 16 = 0
         /\ TotalSign(b, S, SymHdr) <= cs
<1>1. S \in Int OBVIOUS
<1>2. /\ MaxBodyF(cs, S, 1, 16, 16) = MB(cs, S)
      /\ PlainLen(b, S, 1, 16) = PT(b, S)
      /\ TotalEnc(b, S, 1, 16, 16, SymHdr) = TE(b, S)
      /\ TotalSign(b, S, SymHdr) = TS(b, S)
  BY <1>1, Unfold
<1>3. b <= MB(cs, S) BY <1>2
<1>4. QED BY <1>2, <1>3, CoreSmaller DEF B
=============================================================================
