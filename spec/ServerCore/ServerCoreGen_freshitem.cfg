CONSTANTS
  Sessions = {"s1"}
  Ghosts = {"null"}
  NodeSet = {"n"}
  Values = {1}
  SubIds = {}
  ItemIds = {}
  Devs = {}
  LevelSet = {"3"}
  Focus = "freshitem"
  MaxOps = 9
  MaxProbes = 0
  SetLevels = {}
  BadActivations = "no"
INIT GInit
NEXT GNext
INVARIANT InvSessionRequired
INVARIANT InvIdsFresh
INVARIANT InvOwnerOnly
INVARIANT InvAccess
INVARIANT InvNoDev
INVARIANT InvEmit
CHECK_DEADLOCK FALSE
