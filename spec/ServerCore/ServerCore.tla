----------------------------- MODULE ServerCore -----------------------------
(***************************************************************************)
(* S10 -- the server's session / subscription / monitored item / node      *)
(* access core (server/service_handlers.go, session_service.go,            *)
(* session_broker.go, attribute_service.go, namespace_node.go, node.go,    *)
(* subscription_service.go, monitored_item_service.go).                    *)
(*                                                                         *)
(* One action per service request.  Every action takes the caller (the     *)
(* authentication token of the request, abstracted to the session it names *)
(* or to a ghost: null / unknown / foreign token) and the *outcome* as     *)
(* parameters, so that the same definitions serve                          *)
(*   - exhaustive model checking (outcomes existentially quantified),      *)
(*   - behaviour generation (request scripts for the Go harness),          *)
(*   - trace validation (outcomes bound to what the real server answered   *)
(*     and to what a privileged in-process observer saw afterwards).       *)
(*                                                                         *)
(* Properties (invariants over the record `last` of the latest request):   *)
(*   InvSessionRequired (C35)  a protected service called without a        *)
(*        created-and-activated-and-not-closed session answers with a      *)
(*        session error and changes nothing;                               *)
(*   InvIdsFresh (C32)  a subscription / monitored item id handed out is   *)
(*        not in use at that moment;                                       *)
(*   InvOwnerOnly (C32)  delete / set-monitoring-mode on another session's *)
(*        subscription or item is refused and changes nothing;             *)
(*   InvAccess (C31)  a value read of a node whose (present, well-typed)   *)
(*        AccessLevel or UserAccessLevel lacks CurrentRead returns no      *)
(*        value; a value write lacking CurrentWrite is refused and leaves  *)
(*        the value unchanged.  ("missing" = no restriction from that      *)
(*        attribute; a present attribute that is not a byte lacks the bit.)*)
(*                                                                         *)
(* Defects of the pinned tree are deviations: the set Devs names the       *)
(* deviating disjuncts that are enabled; a step that is only possible      *)
(* through a deviation records its name in last.dev.  With Devs = {} TLC   *)
(* proves the invariants; with one deviation enabled it finds the          *)
(* violation (non-vacuity).                                                *)
(***************************************************************************)
EXTENDS Naturals, Sequences, FiniteSets, TLC

CONSTANTS Sessions,   \* names of the sessions a history uses, e.g. {"s1", "s2"}
          Ghosts,     \* callers that never name a session of this server: "null", "unknown", "foreign"
          NodeSet,    \* names of the value nodes
          Values,     \* values written
          SubIds,     \* ids the model may hand out for subscriptions (exhaustive model only)
          ItemIds,    \* ids the model may hand out for monitored items
          Devs,       \* enabled deviations (names below)
          LevelSet    \* access level classes the initial states range over (subset of Levels)

Callers == Sessions \cup Ghosts
NoSub == 0
\* attribute absent / present with the wrong Go type / present with a null variant / bit masks.
\* A present attribute that is not a byte has no CurrentRead / CurrentWrite bit: it "lacks" the bit.
Levels == {"missing", "wrong", "null", "0", "1", "2", "3", "7"}
Present(l)  == l # "missing"
ReadBit(l)  == l \in {"1", "3", "7"}
WriteBit(l) == l \in {"2", "3", "7"}

VARIABLES sess,    \* [Sessions -> {"none", "created", "activated", "closed"}]
          subs,    \* in-use subscription id -> owner (a caller)
          items,   \* in-use monitored item id -> [sub, owner, mode]
          nodes,   \* [NodeSet -> [val, al, ual]]
          last     \* the latest request: service, caller, outcome, deviation taken, ...
core == <<sess, subs, items, nodes>>
vars == <<sess, subs, items, nodes, last>>

Protected == {"Read", "Write", "Browse", "CreateSub", "DeleteSub", "CreateItem", "SetMode", "DeleteItem",
              "Unsupported", "Close"}

Valid(c) == c \in Sessions /\ sess[c] = "activated"
DeniedRead(n)  == \/ Present(nodes[n].al)  /\ ~ReadBit(nodes[n].al)
                  \/ Present(nodes[n].ual) /\ ~ReadBit(nodes[n].ual)
DeniedWrite(n) == \/ Present(nodes[n].al)  /\ ~WriteBit(nodes[n].al)
                  \/ Present(nodes[n].ual) /\ ~WriteBit(nodes[n].ual)

Drop(f, S) == [x \in (DOMAIN f) \ S |-> f[x]]
Put(f, k, v) == [x \in (DOMAIN f) \cup {k} |-> IF x = k THEN v ELSE f[x]]
ItemsOf(sub) == {i \in DOMAIN items : items[i].sub = sub}

\* the record of a request; `same` is filled in by Step
Req(svc, c, res, dev, extra) ==
   [svc |-> svc, c |-> c, valid |-> Valid(c), res |-> res, dev |-> dev] @@ extra
NoExtra == [id |-> 0, fresh |-> TRUE, foreign |-> FALSE, deniedR |-> FALSE, deniedW |-> FALSE]
Ex(id, fresh, foreign, dr, dw) == [id |-> id, fresh |-> fresh, foreign |-> foreign, deniedR |-> dr, deniedW |-> dw]

Dev(d) == d \in Devs
\* the session a subscription is bound to: the one the broker finds for the token, else none
OwnerOf(c) == IF c \in Sessions /\ sess[c] \in {"created", "activated"} THEN c ELSE "null"
\* name of the deviation "service answered although the caller has no activated session"
NoSess(svc) == "nosession-" \o svc

---------------------------------------------------------------------------
\* Session services (exempt from the session requirement, except Close)

CreateSession(s) ==
   /\ s \in Sessions /\ sess[s] = "none"
   /\ sess' = [sess EXCEPT ![s] = "created"]
   /\ last' = Req("CreateSession", s, "ok", "", NoExtra)
   /\ UNCHANGED <<subs, items, nodes>>

\* ActivateSession.  `bad` = the request carries a client signature that does not verify (only
\* meaningful on a secured channel): such an activation must be rejected with a security error
\* and must leave the session exactly as it was -- in particular a created session stays
\* "created" and is refused by every protected service.  A well-signed activation may also be
\* rejected (left open); a rejected activation never changes anything.
Activate(c, res, bad) ==
   /\ IF c \in Sessions /\ sess[c] \in {"created", "activated"}
      THEN \/ /\ res = "ok" /\ (~bad \/ Dev("activate-accepts-bad-signature"))
              /\ sess' = [sess EXCEPT ![c] = "activated"]
              /\ last' = Req("Activate", c, res, IF bad THEN "activate-accepts-bad-signature" ELSE "", NoExtra)
           \/ /\ res = "secErr" /\ sess' = sess
              /\ last' = Req("Activate", c, res, "", NoExtra)
      ELSE /\ res \in {"sessErr", "secErr"} /\ sess' = sess
           /\ last' = Req("Activate", c, res, "", NoExtra)
   /\ UNCHANGED <<subs, items, nodes>>

\* Close: a valid session is closed (its subscriptions may or may not be deleted: `gone` is
\* the set of its own subscriptions that disappear); a created-but-not-activated session may
\* be closed or refused; any other caller gets a session error.
Close(c, res, gone) ==
   LET CReq(r, d) == [Req("Close", c, r, d, NoExtra) EXCEPT !.valid = (c \in Sessions /\ sess[c] \in {"created", "activated"})]
   IN
   /\ \/ /\ c \in Sessions /\ sess[c] \in {"created", "activated"}
         /\ \/ /\ res = "ok" /\ sess' = [sess EXCEPT ![c] = "closed"]
               /\ gone \subseteq {i \in DOMAIN subs : subs[i] = c}
               /\ subs' = Drop(subs, gone)
               /\ items' = Drop(items, UNION {ItemsOf(i) : i \in gone})
               /\ last' = CReq(res, "")
            \/ /\ sess[c] = "created" /\ res = "sessErr" /\ gone = {}
               /\ UNCHANGED <<sess, subs, items>>
               /\ last' = CReq(res, "")
      \/ /\ ~(c \in Sessions /\ sess[c] \in {"created", "activated"})
         /\ gone = {}
         /\ \/ res = "sessErr" /\ last' = CReq(res, "")
            \/ Dev(NoSess("Close")) /\ res = "ok" /\ last' = CReq(res, NoSess("Close"))
         /\ UNCHANGED <<sess, subs, items>>
   /\ UNCHANGED nodes

---------------------------------------------------------------------------
\* Protected services.  Each has the shape
\*     valid caller   -> the service's own contract
\*     invalid caller -> session error, nothing changes          (contract)
\*                    or the service runs anyway                  (deviation NoSess(svc))

Refuse(svc, c, res, extra) == res = "sessErr" /\ UNCHANGED core /\ last' = Req(svc, c, res, "", extra)

Read(c, n, res, val) ==
   LET ex == Ex(0, TRUE, FALSE, DeniedRead(n), FALSE)
       body(dev) == /\ \/ res = "value" /\ val = nodes[n].val /\ (~DeniedRead(n) \/ Dev("read-ignores-access"))
                       \/ res = "denied"
                    /\ UNCHANGED core
                    /\ last' = Req("Read", c, res,
                                   IF dev # "" THEN dev
                                   ELSE IF res = "value" /\ DeniedRead(n) THEN "read-ignores-access" ELSE "", ex)
   IN IF Valid(c) THEN body("")
      ELSE Refuse("Read", c, res, ex) \/ (Dev(NoSess("Read")) /\ res # "sessErr" /\ body(NoSess("Read")))

Write(c, n, v, res) ==
   LET ex == Ex(0, TRUE, FALSE, FALSE, DeniedWrite(n))
       body(dev) == /\ \/ /\ res = "ok" /\ (~DeniedWrite(n) \/ Dev("write-ignores-access"))
                          /\ nodes' = [nodes EXCEPT ![n].val = v]
                       \/ res = "denied" /\ nodes' = nodes
                    /\ UNCHANGED <<sess, subs, items>>
                    /\ last' = Req("Write", c, res,
                                   IF dev # "" THEN dev
                                   ELSE IF res = "ok" /\ DeniedWrite(n) THEN "write-ignores-access" ELSE "", ex)
   IN IF Valid(c) THEN body("")
      ELSE Refuse("Write", c, res, ex) \/ (Dev(NoSess("Write")) /\ res # "sessErr" /\ body(NoSess("Write")))

Browse(c, res) ==
   LET body(dev) == res = "ok" /\ UNCHANGED core /\ last' = Req("Browse", c, res, dev, NoExtra)
   IN IF Valid(c) THEN body("")
      ELSE Refuse("Browse", c, res, NoExtra) \/ (Dev(NoSess("Browse")) /\ body(NoSess("Browse")))

Unsupported(c, res) ==
   LET body(dev) == res = "unsupported" /\ UNCHANGED core /\ last' = Req("Unsupported", c, res, dev, NoExtra)
   IN IF Valid(c) THEN body("")
      ELSE Refuse("Unsupported", c, res, NoExtra) \/ (Dev(NoSess("Unsupported")) /\ body(NoSess("Unsupported")))

\* CreateSubscription: the id handed out must not be in use
CreateSub(c, id, res) ==
   LET fresh == id \notin DOMAIN subs
       body(dev) ==
          \/ /\ res = "ok" /\ id # NoSub
             /\ fresh \/ Dev("subid-reuse")
             /\ subs' = Put(subs, id, OwnerOf(c))
             /\ UNCHANGED <<sess, items, nodes>>
             /\ last' = Req("CreateSub", c, res, IF dev # "" THEN dev ELSE IF fresh THEN "" ELSE "subid-reuse",
                            Ex(id, fresh, FALSE, FALSE, FALSE))
          \/ /\ res = "fault" /\ UNCHANGED core
             /\ last' = Req("CreateSub", c, res, dev, NoExtra)
   IN IF Valid(c) THEN body("")
      ELSE Refuse("CreateSub", c, res, NoExtra) \/ (Dev(NoSess("CreateSub")) /\ res # "sessErr" /\ body(NoSess("CreateSub")))

\* DeleteSubscriptions(one id)
DeleteSub(c, id, res) ==
   LET known   == id \in DOMAIN subs
       foreign == known /\ subs[id] # c
       ex      == Ex(id, TRUE, foreign, FALSE, FALSE)
       remove  == /\ subs' = Drop(subs, {id})
                  /\ items' = Drop(items, ItemsOf(id))
                  /\ UNCHANGED <<sess, nodes>>
       body(dev) ==
          \/ /\ ~known /\ res = "badId" /\ UNCHANGED core /\ last' = Req("DeleteSub", c, res, dev, ex)
          \/ /\ known /\ ~foreign
             /\ \/ res = "ok" /\ remove
                \/ res = "badId" /\ UNCHANGED core
             /\ last' = Req("DeleteSub", c, res, dev, ex)
          \/ /\ foreign
             /\ \/ res \in {"badId", "notOwner"} /\ UNCHANGED core /\ last' = Req("DeleteSub", c, res, dev, ex)
                \/ /\ Dev("deletesub-foreign-effective") /\ res = "ok" /\ remove
                   /\ last' = Req("DeleteSub", c, res, IF dev # "" THEN dev ELSE "deletesub-foreign-effective", ex)
   IN IF Valid(c) THEN body("")
      ELSE Refuse("DeleteSub", c, res, ex) \/ (Dev(NoSess("DeleteSub")) /\ res # "sessErr" /\ body(NoSess("DeleteSub")))

\* CreateMonitoredItems(one item) on subscription sub
CreateItem(c, sub, id, res) ==
   LET usable == sub \in DOMAIN subs /\ subs[sub] = c
       fresh  == id \notin DOMAIN items
       foreign == sub \in DOMAIN subs /\ subs[sub] # c
       body(dev) ==
          \/ /\ res = "ok" /\ id # 0
             /\ usable \/ (foreign /\ Dev("createitem-foreign-effective"))
             /\ fresh \/ Dev("itemid-reuse")
             /\ items' = Put(items, id, [sub |-> sub, owner |-> subs[sub], mode |-> "initial"])
             /\ UNCHANGED <<sess, subs, nodes>>
             /\ last' = Req("CreateItem", c, res,
                            IF dev # "" THEN dev ELSE IF ~usable THEN "createitem-foreign-effective"
                            ELSE IF fresh THEN "" ELSE "itemid-reuse",
                            Ex(id, fresh, foreign, FALSE, FALSE))
          \/ /\ res \in {"badId", "notOwner", "fault"} /\ (~usable \/ res = "fault") /\ UNCHANGED core
             /\ last' = Req("CreateItem", c, res, dev, Ex(0, TRUE, foreign, FALSE, FALSE))
   IN IF Valid(c) THEN body("")
      ELSE Refuse("CreateItem", c, res, NoExtra) \/ (Dev(NoSess("CreateItem")) /\ res # "sessErr" /\ body(NoSess("CreateItem")))

\* SetMonitoringMode(one item) / DeleteMonitoredItems(one item)
ItemOp(svc, c, id, res, effect(_)) ==
   LET known   == id \in DOMAIN items
       foreign == known /\ items[id].owner # c
       ex      == Ex(id, TRUE, foreign, FALSE, FALSE)
       fdev    == IF svc = "SetMode" THEN "setmode-foreign-effective" ELSE "deleteitem-foreign-effective"
       body(dev) ==
          \* the whole request may be refused without any effect (e.g. because of its SubscriptionId
          \* parameter): "fault", or BadSessionIdInvalid which this server also uses for "not yours"
          \/ /\ res \in {"fault", "sessErr"} /\ UNCHANGED core /\ last' = Req(svc, c, res, dev, ex)
          \/ /\ ~known /\ res = "badId" /\ UNCHANGED core /\ last' = Req(svc, c, res, dev, ex)
          \/ /\ known /\ ~foreign
             /\ \/ res = "ok" /\ effect(id)
                \/ res = "badId" /\ UNCHANGED core
             /\ last' = Req(svc, c, res, dev, ex)
          \/ /\ foreign
             /\ \/ res \in {"badId", "notOwner"} /\ UNCHANGED core /\ last' = Req(svc, c, res, dev, ex)
                \/ /\ Dev(fdev) /\ res = "ok" /\ effect(id)
                   /\ last' = Req(svc, c, res, IF dev # "" THEN dev ELSE fdev, ex)
   IN IF Valid(c) THEN body("")
      ELSE Refuse(svc, c, res, ex) \/ (Dev(NoSess(svc)) /\ res # "sessErr" /\ body(NoSess(svc)))

SetModeEffect(id) == items' = [items EXCEPT ![id].mode = "sampling"] /\ UNCHANGED <<sess, subs, nodes>>
DelItemEffect(id) == items' = Drop(items, {id}) /\ UNCHANGED <<sess, subs, nodes>>
SetMode(c, id, res)    == ItemOp("SetMode", c, id, res, SetModeEffect)
DeleteItem(c, id, res) == ItemOp("DeleteItem", c, id, res, DelItemEffect)

\* The application changes an access level attribute of a node at run time (server API, not a request)
SetLevel(n, which, l) ==
   /\ which \in {"al", "ual"} /\ l \in Levels
   /\ nodes' = [nodes EXCEPT ![n] = IF which = "al" THEN [@ EXCEPT !.al = l] ELSE [@ EXCEPT !.ual = l]]
   /\ last' = Req("SetLevel", "null", "ok", "", NoExtra)
   /\ UNCHANGED <<sess, subs, items>>

\* The publish loop of a subscription that was deleted ends some time later and then cleans up
\* after itself (Subscription.run's deferred DeleteSubscription(id)).  That clean-up belongs to the
\* subscription that ended: it must not touch a subscription that is in use now, even if that one
\* carries the same id.  `gone` = the id was in use before the clean-up and is not afterwards.
Cleanup(id, gone) ==
   /\ IF gone
      THEN /\ Dev("stale-cleanup-deletes-live-subscription") /\ id \in DOMAIN subs
           /\ subs' = Drop(subs, {id}) /\ items' = Drop(items, ItemsOf(id))
           /\ UNCHANGED <<sess, nodes>>
           /\ last' = Req("Cleanup", "null", "ok", "stale-cleanup-deletes-live-subscription", Ex(id, TRUE, TRUE, FALSE, FALSE))
      ELSE /\ UNCHANGED core
           /\ last' = Req("Cleanup", "null", "ok", "", NoExtra)

\* A request that kills the server process is never part of the contract
Crash(svc, c) == /\ Dev("crash-" \o svc) /\ UNCHANGED core
                 /\ last' = Req(svc, c, "crash", "crash-" \o svc, NoExtra)

---------------------------------------------------------------------------
Results == {"ok", "sessErr", "denied", "value", "badId", "notOwner", "fault", "unsupported"}
AnyId(S, live) == S \cup live

Init == /\ sess = [s \in Sessions |-> "none"]
        /\ subs = << >> /\ items = << >>
        /\ nodes \in [NodeSet -> [val : {0}, al : LevelSet, ual : LevelSet]]
        /\ last = Req("Init", "null", "ok", "", NoExtra)

Next ==
   \/ \E s \in Sessions : CreateSession(s)
   \/ \E c \in Callers, r \in Results \cup {"secErr"}, b \in BOOLEAN : Activate(c, r, b)
   \/ \E c \in Callers, r \in Results : \E g \in SUBSET DOMAIN subs : Close(c, r, g)
   \/ \E c \in Callers, n \in NodeSet, r \in Results : \E v \in Values \cup {0} : Read(c, n, r, v)
   \/ \E c \in Callers, n \in NodeSet, v \in Values, r \in Results : Write(c, n, v, r)
   \/ \E n \in NodeSet, w \in {"al", "ual"}, lv \in LevelSet : SetLevel(n, w, lv)
   \/ \E c \in Callers, r \in Results : Browse(c, r) \/ Unsupported(c, r)
   \/ \E c \in Callers, id \in SubIds, r \in Results : CreateSub(c, id, r) \/ DeleteSub(c, id, r)
   \/ \E id \in SubIds, g \in BOOLEAN : Cleanup(id, g)
   \/ \E c \in Callers, sub \in SubIds, id \in ItemIds, r \in Results : CreateItem(c, sub, id, r)
   \/ \E c \in Callers, id \in ItemIds, r \in Results : SetMode(c, id, r) \/ DeleteItem(c, id, r)

Spec == Init /\ [][Next]_vars

---------------------------------------------------------------------------
\* `same`: did the request leave the core state untouched?  (action-level)
Unchanged == core' = core

InvSessionRequired == (last.svc \in Protected /\ ~last.valid) => last.res = "sessErr"
InvIdsFresh  == (last.svc \in {"CreateSub", "CreateItem"} /\ last.res = "ok") => last.fresh
InvOwnerOnly == /\ (last.svc \in {"DeleteSub", "SetMode", "DeleteItem"} /\ last.valid /\ last.foreign) => last.res # "ok"
                \* nobody's clean-up removes a subscription that is in use
                /\ last.svc = "Cleanup" => last.dev = ""
InvAccess    == /\ (last.svc = "Read"  /\ last.valid /\ last.deniedR) => last.res # "value"
                /\ (last.svc = "Write" /\ last.valid /\ last.deniedW) => last.res # "ok"
InvNoDev     == last.dev = ""
\* refused requests change nothing (checked on every transition)
ActNoEffect  == [][ (last'.res \in {"sessErr", "badId", "notOwner", "denied", "fault", "unsupported"}) => Unchanged ]_vars
ActItemOwner == [][ \A i \in DOMAIN items : i \in DOMAIN items' => items'[i].owner = items[i].owner ]_vars

TypeInv == /\ sess \in [Sessions -> {"none", "created", "activated", "closed"}]
           /\ \A i \in DOMAIN subs : subs[i] \in Callers
           /\ \A i \in DOMAIN items : items[i].owner \in Callers
=============================================================================
