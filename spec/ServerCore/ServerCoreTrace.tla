-------------------------- MODULE ServerCoreTrace --------------------------
(***************************************************************************)
(* Trace validation for S10: the events recorded by the Go harness while    *)
(* it drove the real server (request, caller, classified answer, ids the    *)
(* server returned, and the privileged in-process snapshot of the           *)
(* subscription / monitored item tables and node values taken afterwards)   *)
(* must be a behaviour of ServerCore.  Every parameter of every action is   *)
(* bound from the log, so the behaviour is a single path; a step that is    *)
(* only possible through a deviating disjunct reports the deviation's name  *)
(* (the Python side turns it into a violation key, which findings/*.txt may *)
(* list as a known finding).  An event no disjunct accepts stops the path:  *)
(* the high-water mark printed last names it.                               *)
(***************************************************************************)
EXTENDS ServerCore, Json, Integers

Log == ndJsonDeserialize("trace.ndjson")

AllDevs == {"activate-accepts-bad-signature", "stale-cleanup-deletes-live-subscription", "subid-reuse", "itemid-reuse", "deletesub-foreign-effective", "createitem-foreign-effective",
            "setmode-foreign-effective", "deleteitem-foreign-effective",
            "read-ignores-access", "write-ignores-access"}
           \cup {NoSess(s) : s \in Protected}
           \cup {"crash-" \o s : s \in Protected \cup {"CreateSession", "Activate"}}

VARIABLE l
tvars == <<vars, l>>

e == Log[l]
IsEv(name) == l <= Len(Log) /\ Log[l].ev = name
Adv == l' = l + 1
RangeOf(s) == {s[k] : k \in DOMAIN s}

\* the privileged snapshot taken after the request must equal the model's next state
Snap == /\ {[id |-> i, o |-> subs'[i]] : i \in DOMAIN subs'} = RangeOf(e.subs)
        /\ {[id |-> i, sub |-> items'[i].sub, o |-> items'[i].owner, m |-> items'[i].mode] : i \in DOMAIN items'}
              = RangeOf(e.items)
        /\ \A r \in RangeOf(e.nodes) : nodes'[r.n].val = r.val

TInit == /\ l = 1
         /\ sess = [s \in Sessions |-> "none"]
         /\ subs = << >> /\ items = << >>
         /\ nodes = [n \in NodeSet |-> [val |-> 0, al |-> "missing", ual |-> "missing"]]
         /\ last = Req("Init", "null", "ok", "", NoExtra)

\* start of a new trace: fresh sessions; the tables are whatever the server holds now
TReset == /\ IsEv("Reset")
          /\ sess' = [s \in Sessions |-> "none"]
          /\ subs' = [i \in {r.id : r \in RangeOf(e.subs)} |-> (CHOOSE r \in RangeOf(e.subs) : r.id = i).o]
          /\ items' = [i \in {r.id : r \in RangeOf(e.items)} |->
                         LET r == CHOOSE r \in RangeOf(e.items) : r.id = i
                         IN [sub |-> r.sub, owner |-> r.o, mode |-> r.m]]
          /\ nodes' = [n \in NodeSet |->
                         IF \E r \in RangeOf(e.nodes) : r.n = n
                         THEN LET r == CHOOSE r \in RangeOf(e.nodes) : r.n = n
                              IN [val |-> r.val, al |-> r.al, ual |-> r.ual]
                         ELSE nodes[n]]
          /\ last' = Req("Init", "null", "ok", "", NoExtra)
          /\ Adv

Gone == {i \in DOMAIN subs : i \notin {r.id : r \in RangeOf(e.subs)}}

TStep ==
   /\ l <= Len(Log) /\ e.ev # "Reset"
   /\ IF e.res = "crash" THEN Crash(e.ev, e.c)
      ELSE /\ CASE e.ev = "CreateSession" -> e.res = "ok" /\ CreateSession(e.c)
                [] e.ev = "Activate"    -> Activate(e.c, e.res, e.v = 1)
                [] e.ev = "Cleanup"     -> Cleanup(e.id, e.id \in DOMAIN subs /\ e.id \notin {r.id : r \in RangeOf(e.subs)})
                [] e.ev = "Close"       -> Close(e.c, e.res, Gone)
                [] e.ev = "Read"        -> Read(e.c, e.n, e.res, e.val)
                [] e.ev = "Write"       -> Write(e.c, e.n, e.v, e.res)
                [] e.ev = "SetLevel"    -> SetLevel(e.n, e.c, e.res)
                [] e.ev = "Browse"      -> Browse(e.c, e.res)
                [] e.ev = "Unsupported" -> Unsupported(e.c, e.res)
                [] e.ev = "CreateSub"   -> CreateSub(e.c, e.id, e.res)
                [] e.ev = "DeleteSub"   -> DeleteSub(e.c, e.id, e.res)
                [] e.ev = "CreateItem"  -> CreateItem(e.c, e.sub, e.id, e.res)
                [] e.ev = "SetMode"     -> SetMode(e.c, e.id, e.res)
                [] e.ev = "DeleteItem"  -> DeleteItem(e.c, e.id, e.res)
                [] OTHER -> FALSE
           \* the ids of one batch request are separate events; only the last one (part = 0) carries
           \* the snapshot taken after the request
           /\ e.part = 1 \/ Snap
   /\ Adv

TNext == TReset \/ TStep
TSpec == TInit /\ [][TNext]_tvars

\* one line per accepted event: position reached and the deviation the step needed ("" = contract)
Prev == Log[l - 1]
KnownTarget == IF l = 1 THEN TRUE
               ELSE CASE Prev.ev \in {"SetMode", "DeleteItem"} -> Prev.id \in DOMAIN items
                      [] Prev.ev = "DeleteSub"  -> Prev.id \in DOMAIN subs
                      [] Prev.ev = "CreateItem" -> Prev.sub \in DOMAIN subs
                      [] OTHER -> TRUE
InvReport == PrintT("ROW " \o ToJson([l |-> l - 1, dev |-> last.dev, svc |-> last.svc, c |-> last.c, res |-> last.res,
                                        valid |-> last.valid, known |-> KnownTarget]))
Accepted == TLCGet("stats").distinct = Len(Log) + 1 \/ TRUE
=============================================================================
