--------------------------- MODULE ServerCoreGen ---------------------------
(***************************************************************************)
(* Behaviour generation for S10: request scripts for the Go harness.       *)
(* The scripts are behaviours of ServerCore in its contract configuration  *)
(* (Devs = {}): ids are creation counters, open outcomes take the          *)
(* progress branch, so that every request of a script refers to something  *)
(* that exists in the model (k-th subscription / item created, 0 = an id   *)
(* that was never handed out).  The harness maps creation indices to the   *)
(* ids the real server returned; what the real server answers is decided   *)
(* afterwards by trace validation (ServerCoreTrace), not here.             *)
(*                                                                         *)
(* Focus selects the family of scripts:                                    *)
(*   "access"  (C31) one activated session, reads and writes of one node   *)
(*             whose (AccessLevel, UserAccessLevel) class ranges over      *)
(*             LevelSet x LevelSet;                                        *)
(*   "session" (C35) s1 activated and owning a subscription with an item;  *)
(*             s2 walks through its life cycle (create, activate, close)   *)
(*             while s2 or a ghost caller probes every protected service;  *)
(*   "ids"     (C32) two activated sessions create and delete              *)
(*             subscriptions and items, including unknown and foreign ids; *)
(*   "batch"   (C32) s1 owns subscriptions 1, 2 (items 1, 2), s2 owns      *)
(*             subscription 3 (item 3); s2 sends ONE DeleteSubscriptions / *)
(*             DeleteMonitoredItems / SetMonitoringMode request with       *)
(*             MaxProbes distinct ids: every order of own / foreign /      *)
(*             never-issued ids.  The model applies the ids one after the  *)
(*             other (the results array of the service is per id);         *)
(*   "freshsub" / "freshitem" (C32) every successful create/delete history *)
(*             of one session (the id-freshness patterns, exhaustively).   *)
(***************************************************************************)
EXTENDS ServerCore, Json

CONSTANTS Focus, MaxOps, MaxProbes,
          SetLevels,     \* levels the application may switch a node to at run time ({} = never)
          BadActivations \* session focus: s2 may attempt an activation with a signature that does not verify:
                         \* "no" | "leaf" (nothing but probes follows the rejection) | "full" (the life cycle goes on)

VARIABLES hist,    \* the script so far: sequence of abstract requests
          nsub, nitem, probes
gvars == <<vars, hist, nsub, nitem, probes>>

Op(op, c, n, v, k, k2) == [op |-> op, c |-> c, n |-> n, v |-> v, k |-> k, k2 |-> k2]
Rec(o) == hist' = Append(hist, o)
Unknown == 9999         \* model id standing for "never handed out"

Can(svc, c) == IF Valid(c) THEN "ok" ELSE "sessErr"

GInit ==
   /\ nodes \in [NodeSet -> [val : {0}, al : LevelSet, ual : LevelSet]]
   /\ last = Req("Init", "null", "ok", "", NoExtra)
   /\ probes = 0
   /\ CASE Focus = "access" ->
             /\ sess = [s \in Sessions |-> "activated"]
             /\ subs = << >> /\ items = << >> /\ nsub = 0 /\ nitem = 0
             /\ hist = << Op("CreateSession", "s1", "", 0, 0, 0), Op("Activate", "s1", "", 0, 0, 0) >>
        [] Focus = "session" ->
             /\ sess = [s \in Sessions |-> IF s = "s1" THEN "activated" ELSE "none"]
             /\ subs = (1 :> "s1") /\ items = (1 :> [sub |-> 1, owner |-> "s1", mode |-> "initial"])
             /\ nsub = 1 /\ nitem = 1
             /\ hist = << Op("CreateSession", "s1", "", 0, 0, 0), Op("Activate", "s1", "", 0, 0, 0),
                          Op("CreateSub", "s1", "", 0, 0, 0), Op("CreateItem", "s1", "n", 0, 1, 0) >>
        [] Focus = "ids" ->
             /\ sess = [s \in Sessions |-> "activated"]
             /\ subs = << >> /\ items = << >> /\ nsub = 0 /\ nitem = 0
             /\ hist = << Op("CreateSession", "s1", "", 0, 0, 0), Op("Activate", "s1", "", 0, 0, 0),
                          Op("CreateSession", "s2", "", 0, 0, 0), Op("Activate", "s2", "", 0, 0, 0) >>
        [] Focus = "batch" ->
             /\ sess = [s \in Sessions |-> "activated"]
             /\ subs = (1 :> "s1") @@ (2 :> "s1") @@ (3 :> "s2")
             /\ items = (1 :> [sub |-> 1, owner |-> "s1", mode |-> "initial"]) @@
                        (2 :> [sub |-> 2, owner |-> "s1", mode |-> "initial"]) @@
                        (3 :> [sub |-> 3, owner |-> "s2", mode |-> "initial"])
             /\ nsub = 3 /\ nitem = 3
             /\ hist = << Op("CreateSession", "s1", "", 0, 0, 0), Op("Activate", "s1", "", 0, 0, 0),
                          Op("CreateSession", "s2", "", 0, 0, 0), Op("Activate", "s2", "", 0, 0, 0),
                          Op("CreateSub", "s1", "", 0, 0, 0), Op("CreateSub", "s1", "", 0, 0, 0),
                          Op("CreateSub", "s2", "", 0, 0, 0),
                          Op("CreateItem", "s1", "n", 0, 1, 0), Op("CreateItem", "s1", "n", 0, 2, 0),
                          Op("CreateItem", "s2", "n", 0, 3, 0) >>
        [] Focus \in {"freshsub", "freshitem"} ->
             \* one session owning one subscription: every create/delete history of the bounded length
             /\ sess = [s \in Sessions |-> "activated"]
             /\ subs = (1 :> "s1") /\ items = << >> /\ nsub = 1 /\ nitem = 0
             /\ hist = << Op("CreateSession", "s1", "", 0, 0, 0), Op("Activate", "s1", "", 0, 0, 0),
                          Op("CreateSub", "s1", "", 0, 0, 0) >>

SubRefs  == (1..nsub) \cup {Unknown}
ItemRefs == (1..nitem) \cup {Unknown}

\* requests (outcome = the contract's progress branch)
GRead(c)  == \E n \in NodeSet :
                /\ IF Valid(c) THEN \/ DeniedRead(n) /\ Read(c, n, "denied", 0)
                                    \/ ~DeniedRead(n) /\ Read(c, n, "value", nodes[n].val)
                   ELSE Read(c, n, "sessErr", 0)
                /\ Rec(Op("Read", c, n, 0, 0, 0))
GWrite(c) == \E n \in NodeSet, v \in Values :
                /\ IF Valid(c) THEN \/ DeniedWrite(n) /\ Write(c, n, v, "denied")
                                    \/ ~DeniedWrite(n) /\ Write(c, n, v, "ok")
                   ELSE Write(c, n, v, "sessErr")
                /\ Rec(Op("Write", c, n, v, 0, 0))
GBrowse(c) == Browse(c, Can("Browse", c)) /\ Rec(Op("Browse", c, "", 0, 0, 0))
GUnsup(c)  == Unsupported(c, IF Valid(c) THEN "unsupported" ELSE "sessErr") /\ Rec(Op("Unsupported", c, "", 0, 0, 0))
GCreateSub(c) == /\ CreateSub(c, nsub + 1, Can("CreateSub", c))
                 /\ Rec(Op("CreateSub", c, "", 0, 0, 0))
GDeleteSub(c) == \E k \in SubRefs :
                    /\ DeleteSub(c, k, IF ~Valid(c) THEN "sessErr"
                                       ELSE IF k \notin DOMAIN subs THEN "badId"
                                       ELSE IF subs[k] # c THEN "notOwner" ELSE "ok")
                    /\ Rec(Op("DeleteSub", c, "", 0, k, 0))
GCreateItem(c) == \E k \in SubRefs, n \in NodeSet :
                    /\ CreateItem(c, k, nitem + 1,
                                  IF ~Valid(c) THEN "sessErr"
                                  ELSE IF k \notin DOMAIN subs THEN "badId"
                                  ELSE IF subs[k] # c THEN "notOwner" ELSE "ok")
                    /\ Rec(Op("CreateItem", c, n, 0, k, 0))
ItemRes(c, k) == IF ~Valid(c) THEN "sessErr"
                 ELSE IF k \notin DOMAIN items THEN "badId"
                 ELSE IF items[k].owner # c THEN "notOwner" ELSE "ok"
\* k2 = the SubscriptionId parameter of the request: 0 = the subscription the item lives in, else the
\* k2-th subscription created (one of the caller's own): the per-item answer must not depend on it
OwnSubs(c) == {i \in DOMAIN subs : subs[i] = c}
SubParam(c) == {0} \cup IF Focus \in {"ids", "batch"} THEN OwnSubs(c) ELSE {}
GSetMode(c)    == \E k \in ItemRefs, k2 \in SubParam(c) : SetMode(c, k, ItemRes(c, k)) /\ Rec(Op("SetMode", c, "", 0, k, k2))
GDeleteItem(c) == \E k \in ItemRefs, k2 \in SubParam(c) : DeleteItem(c, k, ItemRes(c, k)) /\ Rec(Op("DeleteItem", c, "", 0, k, k2))
\* v = the DeleteSubscriptions flag of the request (1 = true)
GClose(c) == /\ Close(c, IF c \in Sessions /\ sess[c] \in {"created", "activated"} THEN "ok" ELSE "sessErr", {})
             /\ \E v \in {0, 1} : Rec(Op("Close", c, "", v, 0, 0))
\* the application changes a level at run time: op.c = which attribute, op.n = the new level
GSetLevel == \E n \in NodeSet, w \in {"al", "ual"}, lv \in SetLevels :
                SetLevel(n, w, lv) /\ Rec(Op("SetLevel", w, lv, 0, 0, 0))
GCreateSession(s) == CreateSession(s) /\ Rec(Op("CreateSession", s, "", 0, 0, 0))
GActivate(c) == /\ Activate(c, IF c \in Sessions /\ sess[c] \in {"created", "activated"} THEN "ok" ELSE "sessErr", FALSE)
                /\ Rec(Op("Activate", c, "", 0, 0, 0))
\* an activation whose client signature does not verify (op.v = 1): rejected, the session stays as it was
RejectedOnce(c) == \E j \in DOMAIN hist : hist[j].op = "Activate" /\ hist[j].c = c /\ hist[j].v = 1
GActivateBad(c) == /\ c \in Sessions /\ sess[c] = "created"
                   /\ ~RejectedOnce(c)
                   /\ Activate(c, "secErr", TRUE)
                   /\ Rec(Op("Activate", c, "", 1, 0, 0))

Counters == /\ nsub'  = IF last'.svc = "CreateSub"  /\ last'.res = "ok" THEN nsub + 1 ELSE nsub
            /\ nitem' = IF last'.svc = "CreateItem" /\ last'.res = "ok" THEN nitem + 1 ELSE nitem

Probe(c) == GRead(c) \/ GWrite(c) \/ GBrowse(c) \/ GUnsup(c) \/ GCreateSub(c) \/ GDeleteSub(c)
            \/ GCreateItem(c) \/ GSetMode(c) \/ GDeleteItem(c) \/ GClose(c)
            \/ (Focus = "session" /\ GActivate(c))      \* activation with a token in any state

GNext ==
   /\ Len(hist) < MaxOps
   /\ CASE Focus = "access" ->
             /\ (GRead("s1") \/ GWrite("s1") \/ GSetLevel) /\ probes' = probes
        [] Focus = "session" ->
             \/ /\ probes < MaxProbes
                /\ \E c \in {"s2"} \cup Ghosts : Probe(c)
                /\ probes' = probes + 1
             \/ /\ probes < MaxProbes        \* a script ends with its last probe
                /\ \/ BadActivations # "no" /\ GActivateBad("s2")
                   \/ /\ BadActivations = "leaf" => ~RejectedOnce("s2")
                      /\ \/ GCreateSession("s2")
                         \/ sess["s2"] = "created" /\ GActivate("s2")
                         \/ Valid("s2") /\ GClose("s2")
                /\ probes' = probes
        [] Focus = "ids" ->
             /\ \E c \in Sessions : GCreateSub(c) \/ GDeleteSub(c) \/ GCreateItem(c) \/ GSetMode(c) \/ GDeleteItem(c)
             /\ probes' = probes
        [] Focus = "batch" ->
             \* the ids of one request: same service, distinct targets
             /\ probes < MaxProbes
             /\ GDeleteSub("s2") \/ GSetMode("s2") \/ GDeleteItem("s2")
             /\ probes > 0 => hist'[Len(hist')].op = hist[Len(hist)].op
             /\ \A j \in (Len(hist) - probes + 1)..Len(hist) :
                   hist[j].k # hist'[Len(hist')].k /\ hist[j].k2 = hist'[Len(hist')].k2
             /\ probes' = probes + 1
        [] Focus = "freshsub" ->
             /\ (GCreateSub("s1") \/ GDeleteSub("s1")) /\ last'.res = "ok" /\ probes' = probes
        [] Focus = "freshitem" ->
             /\ (GCreateItem("s1") \/ GDeleteItem("s1")) /\ last'.res = "ok" /\ probes' = probes
   /\ Counters

GSpec == GInit /\ [][GNext]_gvars

\* the contract invariants also hold along every generated script
Terminal == CASE Focus = "access"  -> Len(hist) = MaxOps
              [] Focus = "session" -> probes = MaxProbes /\ last.c # "s1"
              [] Focus = "batch" -> probes = MaxProbes
              [] Focus \in {"ids", "freshsub", "freshitem"} -> Len(hist) = MaxOps
\* batch = number of trailing requests of the script that travel in ONE service request
Script == [focus |-> Focus, ops |-> hist, batch |-> IF Focus = "batch" THEN probes ELSE 0,
           al |-> nodes[CHOOSE n \in NodeSet : TRUE].al, ual |-> nodes[CHOOSE n \in NodeSet : TRUE].ual]
InvEmit == Terminal => PrintT("BEH " \o ToJson(Script))
\* hist and counters are observation only
View == <<vars, hist>>
=============================================================================
