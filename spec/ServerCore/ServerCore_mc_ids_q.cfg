CONSTANTS
  Sessions = {"s1", "s2"}
  Ghosts = {}
  NodeSet = {"n"}
  Values = {1}
  SubIds = {1, 2}
  ItemIds = {1}
  Devs = {}
  LevelSet = {"3"}
INIT Init
NEXT Next
INVARIANT InvSessionRequired
INVARIANT InvIdsFresh
INVARIANT InvOwnerOnly
INVARIANT InvAccess
INVARIANT InvNoDev
INVARIANT TypeInv
PROPERTY ActNoEffect
PROPERTY ActItemOwner
CHECK_DEADLOCK FALSE
