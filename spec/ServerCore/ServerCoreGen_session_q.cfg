CONSTANTS
  Sessions = {"s1", "s2"}
  Ghosts = {"null", "alias"}
  NodeSet = {"n"}
  Values = {1}
  SubIds = {}
  ItemIds = {}
  Devs = {}
  LevelSet = {"3"}
  Focus = "session"
  MaxOps = 8
  MaxProbes = 1
  SetLevels = {}
INIT GInit
NEXT GNext
INVARIANT InvSessionRequired
INVARIANT InvIdsFresh
INVARIANT InvOwnerOnly
INVARIANT InvAccess
INVARIANT InvNoDev
INVARIANT InvEmit
CHECK_DEADLOCK FALSE
