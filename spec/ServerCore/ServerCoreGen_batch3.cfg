CONSTANTS
  Sessions = {"s1", "s2"}
  Ghosts = {"null"}
  NodeSet = {"n"}
  Values = {1}
  SubIds = {}
  ItemIds = {}
  Devs = {}
  LevelSet = {"3"}
  Focus = "batch"
  MaxOps = 30
  MaxProbes = 3
  SetLevels = {}
  BadActivations = "no"
INIT GInit
NEXT GNext
INVARIANT InvSessionRequired
INVARIANT InvIdsFresh
INVARIANT InvOwnerOnly
INVARIANT InvAccess
INVARIANT InvNoDev
INVARIANT InvEmit
CHECK_DEADLOCK FALSE
