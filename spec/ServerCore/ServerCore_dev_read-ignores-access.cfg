CONSTANTS
  Sessions = {"s1"}
  Ghosts = {"null"}
  NodeSet = {"n"}
  Values = {1, 2}
  SubIds = {}
  ItemIds = {}
  Devs = {"read-ignores-access"}
  LevelSet = {"missing", "wrong", "null", "0", "1", "2", "3", "7"}
INIT Init
NEXT Next
INVARIANT InvSessionRequired
INVARIANT InvAccess
INVARIANT TypeInv
PROPERTY ActNoEffect
CHECK_DEADLOCK FALSE
