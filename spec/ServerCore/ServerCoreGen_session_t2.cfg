CONSTANTS
  Sessions = {"s1", "s2"}
  Ghosts = {"null", "unknown", "foreign", "alias"}
  NodeSet = {"n"}
  Values = {1}
  SubIds = {}
  ItemIds = {}
  Devs = {}
  LevelSet = {"3"}
  Focus = "session"
  MaxOps = 10
  MaxProbes = 2
  SetLevels = {}
  BadActivations = "full"
INIT GInit
NEXT GNext
INVARIANT InvSessionRequired
INVARIANT InvIdsFresh
INVARIANT InvOwnerOnly
INVARIANT InvAccess
INVARIANT InvNoDev
INVARIANT InvEmit
CHECK_DEADLOCK FALSE
