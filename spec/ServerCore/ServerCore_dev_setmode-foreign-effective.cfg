CONSTANTS
  Sessions = {"s1", "s2"}
  Ghosts = {"null"}
  NodeSet = {"n"}
  Values = {1}
  SubIds = {1, 2}
  ItemIds = {1}
  Devs = {"setmode-foreign-effective"}
  LevelSet = {"3"}
INIT Init
NEXT Next
INVARIANT InvSessionRequired
INVARIANT InvIdsFresh
INVARIANT InvOwnerOnly
INVARIANT InvAccess
INVARIANT TypeInv
PROPERTY ActNoEffect
PROPERTY ActItemOwner
CHECK_DEADLOCK FALSE
