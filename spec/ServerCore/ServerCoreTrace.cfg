CONSTANTS
  Sessions = {"s1", "s2"}
  Ghosts = {"null", "unknown", "foreign", "alias", "old"}
  NodeSet = {"n"}
  Values = {0, 1, 2}
  SubIds = {}
  ItemIds = {}
  Devs <- AllDevs
  LevelSet = {"missing"}
INIT TInit
NEXT TNext
INVARIANT InvReport
CHECK_DEADLOCK FALSE
