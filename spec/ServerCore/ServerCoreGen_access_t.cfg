CONSTANTS
  Sessions = {"s1"}
  Ghosts = {"null"}
  NodeSet = {"n"}
  Values = {0, 1, 2}
  SubIds = {}
  ItemIds = {}
  Devs = {}
  LevelSet = {"missing", "wrong", "null", "0", "1", "2", "3", "7"}
  Focus = "access"
  MaxOps = 5
  MaxProbes = 0
  SetLevels = {}
  BadActivations = "no"
INIT GInit
NEXT GNext
INVARIANT InvSessionRequired
INVARIANT InvIdsFresh
INVARIANT InvOwnerOnly
INVARIANT InvAccess
INVARIANT InvNoDev
INVARIANT InvEmit
CHECK_DEADLOCK FALSE
