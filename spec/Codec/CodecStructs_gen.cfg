CONSTANTS
  Emit = TRUE
  Depth = 2
  Dev_ByteStringArrayNoElems = FALSE
  Dev_ExtObjUnknownDropsBody = FALSE
  Dev_ZeroDimRejected = FALSE
  Dev_AllocBeforeRead = FALSE
  Dev_NegLenUnchecked = FALSE
  Recipes = {"zero", "empties", "ones", "twos", "mixed"}
  MaxDepth = 3
INIT Init
NEXT Next
INVARIANT InvRoundTripG
INVARIANT InvEmitG
CHECK_DEADLOCK FALSE
