---------------------------- MODULE CodecStructs ----------------------------
(***************************************************************************)
(* C01 for the generated structures (services and extension objects):      *)
(* the reflective codec of ua/encode.go / ua/decode.go.  A structure is    *)
(* the concatenation of its fields in declaration order; a slice is an     *)
(* Int32 length (-1 = null) followed by the elements; a nested structure   *)
(* is encoded in place.  The schemas are not written by hand: the harness  *)
(* discovers every registered type by probing the registries of the real   *)
(* package and writes module CodecSchemas (Schemas, TopTypes).             *)
(* Field kind = [c, t]:  c = "b" built-in type t, "s" structure t,         *)
(* "ab" / "as" slice of built-in / structure t.                            *)
(* One TLC state per (type, recipe): the recipe value is computed from the *)
(* schema, InvRoundTrip is checked on the model, and the row (value,       *)
(* tokens, normal form) is replayed on the real codec.                     *)
(***************************************************************************)
EXTENDS Codec, CodecSchemas

CONSTANTS Recipes, MaxDepth

\* ---- recipe values ----
BuiltinZero(t) ==
  IF t \in Simple THEN S(t, Zero[t])
  ELSE CASE t = "NodeId" -> NodeIdV("two", "0", "0", 0)
         [] t = "ExpandedNodeId" -> NullId
         [] t = "QualifiedName" -> [t |-> "QualifiedName", ns |-> "0", name |-> "null"]
         [] t = "LocalizedText" -> [t |-> "LocalizedText", m |-> 0, loc |-> "null", txt |-> "null"]
         [] t = "ExtensionObject" -> XObjV("empty", NullId, "null")
         [] t = "DataValue" -> DataZero(0)
         [] t = "Variant" -> NullVariant
         [] t = "DiagnosticInfo" -> DiagOfMask(0, <<>>)
BuiltinOne(t) ==
  IF t \in Simple THEN S(t, One[t])
  ELSE CASE t = "NodeId" -> NodeIdV("str", "1", "a", 0)
         [] t = "ExpandedNodeId" -> XNodeIdV(NodeIdV("num", "256", "65536", 192), "uri", "4294967295")
         [] t = "QualifiedName" -> [t |-> "QualifiedName", ns |-> "65535", name |-> "a"]
         [] t = "LocalizedText" -> [t |-> "LocalizedText", m |-> 3, loc |-> "a", txt |-> "utf8"]
         [] t = "ExtensionObject" -> XObjV("bin", AnonTokenId, "a")
         [] t = "DataValue" -> DataOfMask(63, VariantV("Double", "scalar", <<S("Double", "1.5")>>, <<>>))
         [] t = "Variant" -> VariantV("Int32", "arr", <<S("Int32", "-1"), S("Int32", "0"), S("Int32", "0"), S("Int32", "-1")>>, <<2, 2>>)
         [] t = "DiagnosticInfo" -> DiagOfMask(127, <<DiagOfMask(1, <<>>)>>)
BuiltinEmpty(t) == IF t \in {"String", "ByteString"} THEN S(t, "empty") ELSE BuiltinZero(t)

RECURSIVE Make(_, _, _, _)
\* value of field kind k for recipe r at depth d; i = position (for the mixed recipe)
Make(k, r, d, i) ==
  LET rr == IF r = "mixed" THEN (IF i % 2 = 1 THEN "ones" ELSE "zero") ELSE r IN
  CASE k.c = "b" -> IF rr = "zero" THEN BuiltinZero(k.t) ELSE IF rr = "empties" THEN BuiltinEmpty(k.t) ELSE BuiltinOne(k.t)
    [] k.c = "s" -> StructV(k.t, [j \in 1..Len(Schemas[k.t]) |-> Make(Schemas[k.t][j], IF d >= MaxDepth THEN "zero" ELSE r, d + 1, j)])
    [] k.c \in {"ab", "as"} ->
         LET ek == [c |-> IF k.c = "ab" THEN "b" ELSE "s", t |-> k.t] IN
         IF rr = "zero" \/ d >= MaxDepth THEN ArrayV(k.t, "null", <<>>)
         ELSE IF rr = "empties" THEN ArrayV(k.t, "arr", <<>>)
         ELSE IF rr = "ones" THEN ArrayV(k.t, "arr", <<Make(ek, "ones", d + 1, 1)>>)
         ELSE ArrayV(k.t, "arr", <<Make(ek, "ones", d + 1, 1), Make(ek, "zero", d + 1, 2), Make(ek, "ones", d + 1, 1)>>)     \* "twos"

Top(name, r) == Make([c |-> "s", t |-> name], r, 0, 1)

\* ---- generic decoder ----
RECURSIVE DecG(_, _), DecGN(_, _, _, _), DecGFields(_, _, _)
DecGN(k, n, s, acc) == IF n = 0 THEN [ok |-> TRUE, vals |-> acc, rest |-> s]
                       ELSE LET r == DecG(k, s) IN IF ~r.ok THEN [ok |-> FALSE, vals |-> <<>>, rest |-> <<>>] ELSE DecGN(k, n - 1, r.rest, Append(acc, r.val))
DecGFields(ks, s, acc) == IF ks = <<>> THEN [ok |-> TRUE, vals |-> acc, rest |-> s]
                          ELSE LET r == DecG(Head(ks), s) IN IF ~r.ok THEN [ok |-> FALSE, vals |-> <<>>, rest |-> <<>>] ELSE DecGFields(Tail(ks), r.rest, Append(acc, r.val))
DecG(k, s) ==
  CASE k.c = "b" -> Dec(k.t, s)
    [] k.c = "s" -> LET f == DecGFields(Schemas[k.t], s, <<>>) IN IF f.ok THEN Res(StructV(k.t, f.vals), f.rest, 0) ELSE Fail
    [] k.c \in {"ab", "as"} ->
         IF ~HeadIs(s, "i32") \/ s[1].a # "" THEN Fail
         ELSE LET n == s[1].n  ek == [c |-> IF k.c = "ab" THEN "b" ELSE "s", t |-> k.t] IN
              IF n = -1 THEN Res(ArrayV(k.t, "null", <<>>), Tail(s), 0)
              ELSE IF n < 0 \/ n > Size(Tail(s)) THEN Fail          \* contract: refused before anything is allocated
              ELSE LET r == DecGN(ek, n, Tail(s), <<>>) IN IF r.ok THEN Res(ArrayV(k.t, "arr", r.vals), r.rest, 0) ELSE Fail

Init == \E name \in TopTypes, r \in Recipes : c = [kind |-> "struct", name |-> name, recipe |-> r, v |-> Top(name, r)]

InvRoundTripG == c.kind = "struct" =>
                   LET r == DecG([c |-> "s", t |-> c.name], Enc(c.v)) IN r.ok /\ r.val = Norm(c.v) /\ r.rest = <<>>
RowG == [kind |-> "struct", name |-> c.name, recipe |-> c.recipe, v |-> c.v, toks |-> Enc(c.v), norm |-> Norm(c.v)]
InvEmitG == Emit => PrintT("ROW " \o ToJson(RowG))
=============================================================================
