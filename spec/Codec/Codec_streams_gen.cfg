CONSTANTS
  Emit = TRUE
  Depth = 2
  Dev_ByteStringArrayNoElems = FALSE
  Dev_ExtObjUnknownDropsBody = FALSE
  Dev_ZeroDimRejected = FALSE
  Dev_AllocBeforeRead = FALSE
  Dev_NegLenUnchecked = FALSE
INIT InitStreams
NEXT Next
INVARIANT InvReencode
INVARIANT InvEmit
CHECK_DEADLOCK FALSE
