CONSTANTS
  Emit = TRUE
  Depth = 2
  Dev_ByteStringArrayNoElems = FALSE
  Dev_ExtObjUnknownDropsBody = FALSE
  Dev_ZeroDimRejected = FALSE
  Dev_AllocBeforeRead = FALSE
  Dev_NegLenUnchecked = FALSE
INIT InitHostile
NEXT Next
INVARIANT InvSafe
INVARIANT InvEmit
CHECK_DEADLOCK FALSE
