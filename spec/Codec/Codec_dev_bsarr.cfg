CONSTANTS
  Emit = FALSE
  Depth = 2
  Dev_ByteStringArrayNoElems = TRUE
  Dev_ExtObjUnknownDropsBody = FALSE
  Dev_ZeroDimRejected = FALSE
  Dev_AllocBeforeRead = FALSE
  Dev_NegLenUnchecked = FALSE
INIT InitValues
NEXT Next
INVARIANT InvRoundTrip

CHECK_DEADLOCK FALSE
