CONSTANTS
  Emit = FALSE
  Depth = 2
  Dev_ByteStringArrayNoElems = FALSE
  Dev_ExtObjUnknownDropsBody = TRUE
  Dev_ZeroDimRejected = FALSE
  Dev_AllocBeforeRead = FALSE
  Dev_NegLenUnchecked = FALSE
INIT InitStreams
NEXT Next
INVARIANT InvReencode

CHECK_DEADLOCK FALSE
