CONSTANTS
  Emit = FALSE
  Depth = 2
  Dev_ByteStringArrayNoElems = FALSE
  Dev_ExtObjUnknownDropsBody = FALSE
  Dev_ZeroDimRejected = FALSE
  Dev_AllocBeforeRead = FALSE
  Dev_NegLenUnchecked = TRUE
INIT InitHostile
NEXT Next
INVARIANT InvSafe

CHECK_DEADLOCK FALSE
