------------------------------- MODULE Codec -------------------------------
(***************************************************************************)
(* C01 / C03 / C02 -- the OPC UA binary codec of package ua as a relation  *)
(* between abstract values and token sequences (Part 6, 5.1 / 5.2).        *)
(*                                                                         *)
(*   Enc(v)        abstract value  -> token sequence  (one token per wire  *)
(*                 field: u8, i32 length prefixes, raw bytes, ...)         *)
(*   Dec(t, s)     token sequence  -> [ok, val, rest] for target type t    *)
(*   Norm(v)       the documented normalisations: empty string/bytestring  *)
(*                 = null, NaN payloads = canonical NaN, sub-100ns time    *)
(*                 truncated                                               *)
(* One operator per codec of the implementation (Variant.Encode/Decode,    *)
(* DataValue, DiagnosticInfo, LocalizedText, NodeID, ExpandedNodeID,       *)
(* ExtensionObject, QualifiedName, Buffer.Read*/Write* for the scalars,    *)
(* and the reflective struct/slice codec of encode.go/decode.go).          *)
(*                                                                         *)
(* Properties, one TLC state per case:                                     *)
(*   InvRoundTrip (C01)  Dec(T(v), Enc(v)) = [ok, Norm(v), <<>>]           *)
(*   InvReencode  (C03)  Dec(t, s).ok => Dec(t, Enc(d)) = [ok, Norm(d), <<>>] *)
(*                       for d = Dec(t, s).val, s canonical or not         *)
(*   InvSafe      (C02)  the decoder's allocation on any hostile stream is *)
(*                       bounded by the stream's size (elements are only   *)
(*                       allocated when the input can still hold them)     *)
(* Token = [k kind, n integer payload (masks, lengths), a atom payload].   *)
(* Numbers that TLC cannot hold are atoms (decimal strings).               *)
(***************************************************************************)
EXTENDS Integers, Sequences, FiniteSets, TLC, Json

CONSTANTS Emit,
          Depth,                         \* nesting bound for generated values
          Dev_ByteStringArrayNoElems,    \* Variant.encode writes no elements for arrays of ByteString
          Dev_ExtObjUnknownDropsBody,    \* unknown/empty-bodied ExtensionObject decodes to Value=nil with mask kept
          Dev_ZeroDimRejected,           \* decoder rejects a dimension of length 0 that the encoder writes
          Dev_AllocBeforeRead,           \* array storage is allocated from the length prefix before reading
          Dev_NegLenUnchecked            \* array length < -1 is not rejected

T(k, n, a) == [k |-> k, n |-> n, a |-> a]
U8(n)  == T("u8", n, "")
I32(n) == T("i32", n, "")
Raw(a) == T("raw", 0, a)

RawLen == [a |-> 1, utf8 |-> 3, x |-> 2, xml |-> 4, uri |-> 5, tok |-> 1]
TokSize(tk) == CASE tk.k \in {"u8", "i8"} -> 1 [] tk.k \in {"u16", "i16"} -> 2
                 [] tk.k \in {"u32", "i32", "f32"} -> 4 [] tk.k \in {"u64", "i64", "f64", "time"} -> 8
                 [] tk.k = "guid" -> 16 [] tk.k = "raw" -> RawLen[tk.a]
                 [] tk.k = "dimvec3" -> 16 [] tk.k = "dimvec4" -> 20
RECURSIVE Size(_)
Size(s) == IF s = <<>> THEN 0 ELSE TokSize(Head(s)) + Size(Tail(s))
RECURSIVE Cat(_)
Cat(ss) == IF ss = <<>> THEN <<>> ELSE Head(ss) \o Cat(Tail(ss))
\* product of non-negative dimension lengths, capped at 65536 (TLC integers are 32 bit; lengths above 65535 are refused anyway)
RECURSIVE ProdAcc(_, _)
ProdAcc(d, acc) == IF d = <<>> THEN acc
                   ELSE IF Head(d) > 0 /\ acc > 65536 \div Head(d) THEN ProdAcc(Tail(d), 65536)
                   ELSE ProdAcc(Tail(d), acc * Head(d))
Prod(d) == IF \E i \in 1..Len(d) : d[i] = 0 THEN 0 ELSE ProdAcc(d, 1)
\* the first n bytes of a token sequence must end at a token boundary
RECURSIVE DropBytes(_, _)
DropBytes(s, n) == IF n = 0 THEN [ok |-> TRUE, rest |-> s]
                   ELSE IF s = <<>> \/ TokSize(Head(s)) > n THEN [ok |-> FALSE, rest |-> <<>>]
                   ELSE DropBytes(Tail(s), n - TokSize(Head(s)))
Bit(m, b) == (m \div b) % 2 = 1

---------------------------------------------------------------------------
\* Built-in types (Part 6 Table 1) and their atoms
TypeId == [Boolean |-> 1, SByte |-> 2, Byte |-> 3, Int16 |-> 4, UInt16 |-> 5, Int32 |-> 6, UInt32 |-> 7,
           Int64 |-> 8, UInt64 |-> 9, Float |-> 10, Double |-> 11, String |-> 12, DateTime |-> 13, Guid |-> 14,
           ByteString |-> 15, XmlElement |-> 16, NodeId |-> 17, ExpandedNodeId |-> 18, StatusCode |-> 19,
           QualifiedName |-> 20, LocalizedText |-> 21, ExtensionObject |-> 22, DataValue |-> 23, Variant |-> 24,
           DiagnosticInfo |-> 25]
TypeNames == DOMAIN TypeId
TypeOfId(i) == IF \E t \in TypeNames : TypeId[t] = i THEN CHOOSE t \in TypeNames : TypeId[t] = i ELSE "bad"

Wire == [SByte |-> "i8", Byte |-> "u8", Int16 |-> "i16", UInt16 |-> "u16", Int32 |-> "i32", UInt32 |-> "u32",
         Int64 |-> "i64", UInt64 |-> "u64", Float |-> "f32", Double |-> "f64", DateTime |-> "time",
         Guid |-> "guid", StatusCode |-> "u32"]
NumTypes == DOMAIN Wire
Simple == {"Boolean", "String", "ByteString", "XmlElement"} \cup NumTypes

Atoms == [Boolean |-> {"F", "T"},
          SByte |-> {"-128", "-1", "0", "127"}, Byte |-> {"0", "1", "255"},
          Int16 |-> {"-32768", "-1", "0", "32767"}, UInt16 |-> {"0", "256", "65535"},
          Int32 |-> {"-2147483648", "-1", "0", "2147483647"}, UInt32 |-> {"0", "65536", "4294967295"},
          Int64 |-> {"-9223372036854775808", "-1", "0", "9223372036854775807"},
          UInt64 |-> {"0", "4294967296", "18446744073709551615"},
          Float |-> {"0", "1.5", "nan", "nan2", "inf", "negzero"}, Double |-> {"0", "1.5", "nan", "nan2", "inf", "negzero"},
          String |-> {"null", "empty", "a", "utf8"}, DateTime |-> {"zero", "t0", "t0sub", "tmin", "tmax"},
          Guid |-> {"g0", "g1"}, ByteString |-> {"null", "empty", "x"}, XmlElement |-> {"null", "xml"},
          StatusCode |-> {"0", "2147549184"}]
\* one representative non-zero atom and the zero atom per simple type
One  == [Boolean |-> "T", SByte |-> "-1", Byte |-> "255", Int16 |-> "-1", UInt16 |-> "256", Int32 |-> "-1",
         UInt32 |-> "65536", Int64 |-> "-1", UInt64 |-> "4294967296", Float |-> "1.5", Double |-> "1.5",
         String |-> "a", DateTime |-> "t0", Guid |-> "g1", ByteString |-> "x", XmlElement |-> "xml", StatusCode |-> "2147549184"]
Zero == [Boolean |-> "F", SByte |-> "0", Byte |-> "0", Int16 |-> "0", UInt16 |-> "0", Int32 |-> "0",
         UInt32 |-> "0", Int64 |-> "0", UInt64 |-> "0", Float |-> "0", Double |-> "0",
         String |-> "null", DateTime |-> "zero", Guid |-> "g0", ByteString |-> "null", XmlElement |-> "null", StatusCode |-> "0"]

S(t, a) == [t |-> t, a |-> a]

---------------------------------------------------------------------------
\* Composite built-in values (constructors of abstract values)
NodeIdV(enc, ns, id, fl) == [t |-> "NodeId", enc |-> enc, ns |-> ns, id |-> id, fl |-> fl]
EncNum == [two |-> 0, four |-> 1, num |-> 2, str |-> 3, guid |-> 4, bytes |-> 5]
EncOfNum(i) == IF \E e \in DOMAIN EncNum : EncNum[e] = i THEN CHOOSE e \in DOMAIN EncNum : EncNum[e] = i ELSE "bad"
NodeIds == {NodeIdV("two", "0", "0", 0), NodeIdV("two", "0", "255", 0),
            NodeIdV("four", "0", "256", 0), NodeIdV("four", "255", "65535", 0),
            NodeIdV("num", "0", "5", 0), NodeIdV("num", "256", "65536", 0), NodeIdV("num", "65535", "4294967295", 0),
            NodeIdV("str", "1", "a", 0), NodeIdV("str", "65535", "empty", 0), NodeIdV("str", "0", "utf8", 0),
            NodeIdV("guid", "1", "g1", 0), NodeIdV("guid", "0", "g0", 0),
            NodeIdV("bytes", "1", "x", 0), NodeIdV("bytes", "2", "null", 0), NodeIdV("bytes", "2", "empty", 0)}
XNodeIdV(nid, uri, svr) == [t |-> "ExpandedNodeId", nid |-> nid, uri |-> uri, svr |-> svr]
WithFlags(n, fl) == [n EXCEPT !.fl = fl]
XNodeIds == UNION {{XNodeIdV(n, "null", "0"), XNodeIdV(WithFlags(n, 128), "uri", "0"),
                    XNodeIdV(WithFlags(n, 64), "null", "7"), XNodeIdV(WithFlags(n, 192), "uri", "4294967295")} : n \in NodeIds}
QNames == {[t |-> "QualifiedName", ns |-> n, name |-> s] : n \in {"0", "65535"}, s \in {"null", "a"}}
\* LocalizedText: all four masks; a present field may be empty, an absent one is empty
LTexts == {[t |-> "LocalizedText", m |-> m, loc |-> l, txt |-> x] :
             m \in 0..3, l \in {"null", "a"}, x \in {"null", "utf8"}}
LTextOk(v) == (~Bit(v.m, 1) => v.loc = "null") /\ (~Bit(v.m, 2) => v.txt = "null")
\* ExtensionObject: empty / known binary body / XML body  (xk = "unk": unknown type id, only reachable by decoding)
XObjV(xk, tid, body) == [t |-> "ExtensionObject", xk |-> xk, tid |-> tid, body |-> body]
AnonTokenId == XNodeIdV(NodeIdV("four", "0", "321", 0), "null", "0")
UnknownId   == XNodeIdV(NodeIdV("four", "1", "9999", 0), "null", "0")
NullId      == XNodeIdV(NodeIdV("two", "0", "0", 0), "null", "0")
XObjs == {XObjV("empty", NullId, "null"), XObjV("empty", UnknownId, "null"),
          XObjV("bin", AnonTokenId, "a"), XObjV("bin", AnonTokenId, "null"),
          XObjV("xml", UnknownId, "xml")}

NullVariant == [t |-> "Variant", vt |-> "Null", k |-> "null", e |-> <<>>, dims |-> <<>>]
VariantV(vt, k, e, dims) == [t |-> "Variant", vt |-> vt, k |-> k, e |-> e, dims |-> dims]

DiagV(m, sym, nsu, lc, ltx, add, ist, inner) ==
  [t |-> "DiagnosticInfo", m |-> m, sym |-> sym, nsu |-> nsu, lc |-> lc, ltx |-> ltx, add |-> add, ist |-> ist, inner |-> inner]
\* fields are non-zero exactly when their mask bit is set (inner given separately)
DiagOfMask(m, inner) == DiagV(m, IF Bit(m, 1) THEN "-1" ELSE "0", IF Bit(m, 2) THEN "2147483647" ELSE "0",
                              IF Bit(m, 8) THEN "-2147483648" ELSE "0", IF Bit(m, 4) THEN "-1" ELSE "0",
                              IF Bit(m, 16) THEN "utf8" ELSE "null", IF Bit(m, 32) THEN "2147549184" ELSE "0", inner)
\* present-but-zero fields
DiagZero(m, inner) == DiagV(m, "0", "0", "0", "0", "null", "0", inner)
RECURSIVE Diags(_)
Diags(d) == IF d = 0 THEN {}
            ELSE {DiagOfMask(m, <<>>) : m \in 0..63} \cup {DiagZero(m, <<>>) : m \in {63}}
                 \cup {DiagOfMask(m + 64, <<i>>) : m \in 0..63, i \in IF d = 1 THEN {} ELSE {DiagOfMask(0, <<>>), DiagOfMask(17, <<>>)}}
                 \cup {DiagOfMask(64, <<i>>) : i \in Diags(d - 1)}

DataV(m, val, st, sts, sps, vts, vps) ==
  [t |-> "DataValue", m |-> m, val |-> val, st |-> st, sts |-> sts, sps |-> sps, vts |-> vts, vps |-> vps]
DataOfMask(m, val) == DataV(m, IF Bit(m, 1) THEN val ELSE NullVariant, IF Bit(m, 2) THEN "2147549184" ELSE "0",
                            IF Bit(m, 4) THEN "t0" ELSE "zero", IF Bit(m, 16) THEN "256" ELSE "0",
                            IF Bit(m, 8) THEN "tmax" ELSE "zero", IF Bit(m, 32) THEN "65535" ELSE "0")
DataZero(m) == DataV(m, NullVariant, "0", "zero", "0", "zero", "0")

---------------------------------------------------------------------------
\* Generic structures of the reflective codec: a value is [t |-> "Struct", name, f |-> <<field values>>];
\* field values are built-in values, [t |-> "Array", et, k ("null"/"arr"), e], or nested structs.
ArrayV(et, k, e) == [t |-> "Array", et |-> et, k |-> k, e |-> e]
StructV(name, f) == [t |-> "Struct", name |-> name, f |-> f]

---------------------------------------------------------------------------
\* Encoder
EncStr(a)   == IF a \in {"null", "empty"} THEN <<I32(-1)>> ELSE <<I32(RawLen[a]), Raw(a)>>
EncBytes(a) == IF a = "null" THEN <<I32(-1)>> ELSE IF a = "empty" THEN <<I32(0)>> ELSE <<I32(RawLen[a]), Raw(a)>>
CanonAtom(t, a) == IF t \in {"Float", "Double"} /\ a = "nan2" THEN "nan"
                   ELSE IF t = "DateTime" /\ a = "t0sub" THEN "t0" ELSE a
EncSimple(t, a) == CASE t = "Boolean" -> <<U8(IF a = "T" THEN 1 ELSE 0)>>
                     [] t \in {"String", "XmlElement"} -> EncStr(a)
                     [] t = "ByteString" -> EncBytes(a)
                     [] OTHER -> <<T(Wire[t], 0, CanonAtom(t, a))>>

EncNodeId(x) == <<U8(EncNum[x.enc] + x.fl)>> \o
  CASE x.enc = "two"  -> <<T("u8", 0, x.id)>>
    [] x.enc = "four" -> <<T("u8", 0, x.ns), T("u16", 0, x.id)>>
    [] x.enc = "num"  -> <<T("u16", 0, x.ns), T("u32", 0, x.id)>>
    [] x.enc = "guid" -> <<T("u16", 0, x.ns), T("guid", 0, x.id)>>
    [] x.enc \in {"str", "bytes"} -> <<T("u16", 0, x.ns)>> \o EncBytes(x.id)

RECURSIVE Enc(_)
EncSeq(vs) == Cat([i \in 1..Len(vs) |-> Enc(vs[i])])
EncVariant(x) ==
  IF x.vt = "Null" THEN <<U8(0)>>
  ELSE <<U8(TypeId[x.vt] + (IF x.k \in {"arr", "nullarr"} THEN 128 ELSE 0) + (IF Len(x.dims) > 1 THEN 64 ELSE 0))>>
       \o (IF x.k = "nullarr" THEN <<I32(-1)>> ELSE IF x.k = "arr" THEN <<I32(Len(x.e))>> ELSE <<>>)
       \o (IF Dev_ByteStringArrayNoElems /\ x.vt = "ByteString" /\ x.k = "arr" THEN <<>> ELSE EncSeq(x.e))
       \o (IF Len(x.dims) > 1 THEN <<I32(Len(x.dims))>> \o [i \in 1..Len(x.dims) |-> I32(x.dims[i])] ELSE <<>>)
EncXObj(x) ==
  Enc(x.tid) \o
  CASE x.xk = "empty" -> <<U8(0)>>
    [] x.xk = "bin"   -> LET b == EncStr(x.body) IN <<U8(1), I32(Size(b))>> \o b         \* AnonymousIdentityToken{PolicyID}
    [] x.xk = "xml"   -> LET b == EncStr(x.body) IN <<U8(2), I32(Size(b))>> \o b         \* as implemented: XmlElement inside the body
    [] x.xk = "unk"   -> <<U8(1), I32(RawLen[x.body]), Raw(x.body)>>                     \* unknown type: opaque body kept
    [] x.xk = "nobody" -> <<U8(1)>>                                                      \* not encodable (see Encodable)
Enc(v) ==
  CASE v.t \in Simple -> EncSimple(v.t, v.a)
    [] v.t = "NodeId" -> EncNodeId(v)
    [] v.t = "ExpandedNodeId" -> EncNodeId(v.nid) \o (IF Bit(v.nid.fl, 128) THEN EncStr(v.uri) ELSE <<>>)
                                 \o (IF Bit(v.nid.fl, 64) THEN <<T("u32", 0, v.svr)>> ELSE <<>>)
    [] v.t = "QualifiedName" -> <<T("u16", 0, v.ns)>> \o EncStr(v.name)
    [] v.t = "LocalizedText" -> <<U8(v.m)>> \o (IF Bit(v.m, 1) THEN EncStr(v.loc) ELSE <<>>) \o (IF Bit(v.m, 2) THEN EncStr(v.txt) ELSE <<>>)
    [] v.t = "ExtensionObject" -> EncXObj(v)
    [] v.t = "DataValue" -> <<U8(v.m)>> \o (IF Bit(v.m, 1) THEN Enc(v.val) ELSE <<>>)
                            \o (IF Bit(v.m, 2) THEN <<T("u32", 0, v.st)>> ELSE <<>>)
                            \o (IF Bit(v.m, 4) THEN EncSimple("DateTime", v.sts) ELSE <<>>)
                            \o (IF Bit(v.m, 16) THEN <<T("u16", 0, v.sps)>> ELSE <<>>)
                            \o (IF Bit(v.m, 8) THEN EncSimple("DateTime", v.vts) ELSE <<>>)
                            \o (IF Bit(v.m, 32) THEN <<T("u16", 0, v.vps)>> ELSE <<>>)
    [] v.t = "DiagnosticInfo" -> <<U8(v.m)>> \o (IF Bit(v.m, 1) THEN <<T("i32", 0, v.sym)>> ELSE <<>>)
                            \o (IF Bit(v.m, 2) THEN <<T("i32", 0, v.nsu)>> ELSE <<>>)
                            \o (IF Bit(v.m, 8) THEN <<T("i32", 0, v.lc)>> ELSE <<>>)
                            \o (IF Bit(v.m, 4) THEN <<T("i32", 0, v.ltx)>> ELSE <<>>)
                            \o (IF Bit(v.m, 16) THEN EncStr(v.add) ELSE <<>>)
                            \o (IF Bit(v.m, 32) THEN <<T("u32", 0, v.ist)>> ELSE <<>>)
                            \o (IF Bit(v.m, 64) THEN Enc(v.inner[1]) ELSE <<>>)
    [] v.t = "Variant" -> EncVariant(v)
    [] v.t = "Array" -> IF v.k = "null" THEN <<I32(-1)>> ELSE <<I32(Len(v.e))>> \o EncSeq(v.e)
    [] v.t = "Struct" -> EncSeq(v.f)

---------------------------------------------------------------------------
\* Normalisation (documented): "" = null for strings and byte strings, NaN canonical, 100 ns time
RECURSIVE Norm(_)
NormSeq(vs) == [i \in 1..Len(vs) |-> Norm(vs[i])]
NStr(a) == IF a = "empty" THEN "null" ELSE a
Norm(v) ==
  CASE v.t \in {"String", "ByteString", "XmlElement"} -> S(v.t, NStr(v.a))
    [] v.t \in Simple -> S(v.t, CanonAtom(v.t, v.a))
    [] v.t = "NodeId" -> IF v.enc \in {"str", "bytes"} THEN [v EXCEPT !.id = NStr(v.id)] ELSE v
    [] v.t = "ExpandedNodeId" -> [v EXCEPT !.nid = Norm(v.nid), !.uri = NStr(v.uri)]
    [] v.t = "QualifiedName" -> [v EXCEPT !.name = NStr(v.name)]
    [] v.t = "LocalizedText" -> [v EXCEPT !.loc = NStr(v.loc), !.txt = NStr(v.txt)]
    [] v.t = "ExtensionObject" -> [v EXCEPT !.tid = Norm(v.tid), !.body = NStr(v.body)]
    [] v.t = "DataValue" -> [v EXCEPT !.val = Norm(v.val), !.sts = CanonAtom("DateTime", v.sts), !.vts = CanonAtom("DateTime", v.vts)]
    [] v.t = "DiagnosticInfo" -> [v EXCEPT !.add = NStr(v.add), !.inner = NormSeq(v.inner)]
    [] v.t = "Variant" -> [v EXCEPT !.e = NormSeq(v.e)]
    [] v.t = "Array" -> [v EXCEPT !.e = NormSeq(v.e)]
    [] v.t = "Struct" -> [v EXCEPT !.f = NormSeq(v.f)]

---------------------------------------------------------------------------
\* Decoder.  Result [ok, val, rest, alloc]: alloc = bytes of storage the decoder reserved for arrays.
NoVal == [t |-> "none"]
Fail  == [ok |-> FALSE, val |-> NoVal, rest |-> <<>>, alloc |-> 0]
Res(v, r, al) == [ok |-> TRUE, val |-> v, rest |-> r, alloc |-> al]
HeadIs(s, k) == s # <<>> /\ s[1].k = k

DecStrAtom(s, nullForZero) ==       \* length-prefixed bytes: returns [ok, a, rest]
  IF ~HeadIs(s, "i32") THEN [ok |-> FALSE, a |-> "", rest |-> <<>>]
  ELSE LET n == s[1].n IN
       IF n = -1 \/ (n = 0 /\ nullForZero) THEN [ok |-> TRUE, a |-> "null", rest |-> Tail(s)]
       ELSE IF n = 0 THEN [ok |-> TRUE, a |-> "empty", rest |-> Tail(s)]
       ELSE IF n > 0 /\ Len(s) >= 2 /\ s[2].k = "raw" /\ RawLen[s[2].a] = n THEN [ok |-> TRUE, a |-> s[2].a, rest |-> Tail(Tail(s))]
       ELSE [ok |-> FALSE, a |-> "", rest |-> <<>>]       \* negative other than -1, or longer than the input

DecSimple(t, s) ==
  IF s = <<>> THEN Fail
  ELSE CASE t = "Boolean" -> IF s[1].k = "u8" THEN Res(S(t, IF s[1].n > 0 THEN "T" ELSE "F"), Tail(s), 0) ELSE Fail
         [] t \in {"String", "ByteString", "XmlElement"} ->
              LET r == DecStrAtom(s, TRUE) IN IF r.ok THEN Res(S(t, r.a), r.rest, 0) ELSE Fail
         [] OTHER -> IF s[1].k = Wire[t] /\ s[1].a # "" THEN Res(S(t, s[1].a), Tail(s), 0) ELSE Fail

DecNodeId(s) ==
  IF ~HeadIs(s, "u8") THEN Fail
  ELSE LET m == s[1].n  e == EncOfNum(m % 16)  fl == (m \div 64) * 64  r == Tail(s) IN
       \* bits 4,5 of the mask are not used by any encoding and are ignored
       IF e = "bad" THEN Fail
       ELSE CASE e = "two"  -> IF HeadIs(r, "u8") /\ r[1].a # "" THEN Res(NodeIdV(e, "0", r[1].a, fl), Tail(r), 0) ELSE Fail
              [] e = "four" -> IF Len(r) >= 2 /\ r[1].k = "u8" /\ r[1].a # "" /\ r[2].k = "u16" THEN Res(NodeIdV(e, r[1].a, r[2].a, fl), Tail(Tail(r)), 0) ELSE Fail
              [] e = "num"  -> IF Len(r) >= 2 /\ r[1].k = "u16" /\ r[2].k = "u32" THEN Res(NodeIdV(e, r[1].a, r[2].a, fl), Tail(Tail(r)), 0) ELSE Fail
              [] e = "guid" -> IF Len(r) >= 2 /\ r[1].k = "u16" /\ r[2].k = "guid" THEN Res(NodeIdV(e, r[1].a, r[2].a, fl), Tail(Tail(r)), 0) ELSE Fail
              [] e \in {"str", "bytes"} ->
                   IF ~HeadIs(r, "u16") THEN Fail
                   ELSE LET b == DecStrAtom(Tail(r), TRUE) IN IF b.ok THEN Res(NodeIdV(e, r[1].a, b.a, fl), b.rest, 0) ELSE Fail

ElemSize(t) == IF t \in NumTypes THEN TokSize(T(Wire[t], 0, "")) ELSE IF t = "Boolean" THEN 1 ELSE 16   \* storage per element

RECURSIVE Dec(_, _), DecN(_, _, _, _, _), DecFields(_, _, _, _)
\* n values of type t
DecN(t, n, s, acc, al) == IF n = 0 THEN [ok |-> TRUE, vals |-> acc, rest |-> s, alloc |-> al]
                          ELSE LET r == Dec(t, s) IN
                               IF ~r.ok THEN [ok |-> FALSE, vals |-> <<>>, rest |-> <<>>, alloc |-> al + r.alloc]
                               ELSE DecN(t, n - 1, r.rest, Append(acc, r.val), al + r.alloc)
\* a sequence of optional fields: specs[i] = [p present, ty type, d default]
DecFields(specs, s, acc, al) ==
  IF specs = <<>> THEN [ok |-> TRUE, vals |-> acc, rest |-> s, alloc |-> al]
  ELSE LET f == Head(specs) IN
       IF ~f.p THEN DecFields(Tail(specs), s, Append(acc, f.d), al)
       ELSE LET r == Dec(f.ty, s) IN
            IF ~r.ok THEN [ok |-> FALSE, vals |-> <<>>, rest |-> <<>>, alloc |-> al + r.alloc]
            ELSE DecFields(Tail(specs), r.rest, Append(acc, r.val), al + r.alloc)
F(p, ty, d) == [p |-> p, ty |-> ty, d |-> d]

DecDims(n, s) ==   \* n dimension lengths, each an i32 token with n payload
  IF Len(s) < n \/ \E i \in 1..n : s[i].k # "i32" \/ s[i].a # "" THEN [ok |-> FALSE, d |-> <<>>, rest |-> <<>>]
  ELSE [ok |-> TRUE, d |-> [i \in 1..n |-> s[i].n], rest |-> SubSeq(s, n + 1, Len(s))]

MaxVariantArrayLength == 65535
DecVariant(s) ==
  IF ~HeadIs(s, "u8") THEN Fail
  ELSE LET m == s[1].n  vt == TypeOfId(m % 64)  arr == Bit(m, 128)  dim == Bit(m, 64)  r0 == Tail(s) IN
  IF m % 64 = 0 THEN Res(NullVariant, r0, 0)      \* Null: no other fields, flag bits ignored
  ELSE IF vt = "bad" THEN Fail
  ELSE IF ~arr THEN LET r == Dec(vt, r0) IN IF r.ok THEN Res(VariantV(vt, "scalar", <<r.val>>, <<>>), r.rest, r.alloc) ELSE [Fail EXCEPT !.alloc = r.alloc]
  ELSE IF ~HeadIs(r0, "i32") \/ r0[1].a # "" THEN Fail
  ELSE LET n == r0[1].n
           avail == Size(Tail(r0))
           \* contract: a length the remaining input cannot hold is refused before any storage is reserved
           reserve == IF Dev_AllocBeforeRead THEN (IF n > 0 THEN n * ElemSize(vt) ELSE 0)
                      ELSE (IF n > 0 /\ n <= avail THEN n * ElemSize(vt) ELSE 0) IN
       IF n > MaxVariantArrayLength THEN Fail
       ELSE IF n < -1 THEN (IF Dev_NegLenUnchecked THEN [Fail EXCEPT !.alloc = -1] ELSE Fail)    \* alloc -1 = crash (MakeSlice of a negative length)
       ELSE IF ~Dev_AllocBeforeRead /\ n > avail THEN Fail
       ELSE LET rv == IF n = -1 THEN [ok |-> TRUE, vals |-> <<>>, rest |-> Tail(r0), alloc |-> 0] ELSE DecN(vt, n, Tail(r0), <<>>, reserve) IN
            IF ~rv.ok THEN [Fail EXCEPT !.alloc = rv.alloc]
            ELSE LET k == IF n = -1 THEN "nullarr" ELSE "arr" IN
                 IF ~dim THEN Res(VariantV(vt, k, rv.vals, <<>>), rv.rest, rv.alloc)
                 ELSE IF ~HeadIs(rv.rest, "i32") \/ rv.rest[1].a # "" \/ rv.rest[1].n < 0 THEN [Fail EXCEPT !.alloc = rv.alloc]
                 ELSE LET nd == rv.rest[1].n  rd == DecDims(nd, Tail(rv.rest)) IN
                      IF ~rd.ok THEN [Fail EXCEPT !.alloc = rv.alloc]
                      ELSE IF \E i \in 1..nd : rd.d[i] < (IF Dev_ZeroDimRejected THEN 1 ELSE 0) THEN [Fail EXCEPT !.alloc = rv.alloc]
                      ELSE IF nd > 0 /\ Prod(rd.d) # (IF n = -1 THEN 0 ELSE n) THEN [Fail EXCEPT !.alloc = rv.alloc]
                      ELSE Res(VariantV(vt, k, rv.vals, IF nd > 1 THEN rd.d ELSE <<>>), rd.rest, rv.alloc)

DecXObj(s) ==
  LET rt == Dec("ExpandedNodeId", s) IN
  IF ~rt.ok \/ ~HeadIs(rt.rest, "u8") THEN Fail
  ELSE LET m == rt.rest[1].n  r1 == Tail(rt.rest) IN
       IF m = 0 THEN Res(XObjV("empty", rt.val, "null"), r1, 0)
       ELSE IF ~HeadIs(r1, "i32") \/ r1[1].a # "" THEN Fail
       ELSE LET len == r1[1].n  r2 == Tail(r1) IN
            IF len = 0 \/ len = -1 THEN
                 \* a body-less object with a non-zero encoding byte
                 IF Dev_ExtObjUnknownDropsBody THEN Res(XObjV("nobody", rt.val, "null"), r2, 0) ELSE Res(XObjV("empty", rt.val, "null"), r2, 0)
            ELSE IF len < 0 \/ len > Size(r2) THEN Fail
            ELSE \* the body is the prefix of r2 of exactly len bytes; the decoded structure may use fewer (trailing bytes are skipped)
                 IF m = 2 \/ rt.val = AnonTokenId THEN
                      LET b == DecStrAtom(r2, TRUE)  after == DropBytes(r2, len) IN
                      IF b.ok /\ after.ok /\ Size(r2) - Size(b.rest) <= len THEN Res(XObjV(IF m = 2 THEN "xml" ELSE "bin", rt.val, b.a), after.rest, 0) ELSE Fail
                 ELSE IF HeadIs(r2, "raw") /\ RawLen[r2[1].a] = len THEN
                      \* unknown type id: contract keeps the body bytes; the implementation drops them
                      Res(XObjV(IF Dev_ExtObjUnknownDropsBody THEN "nobody" ELSE "unk", rt.val, IF Dev_ExtObjUnknownDropsBody THEN "null" ELSE r2[1].a), Tail(r2), 0)
                 ELSE Fail

Dec(t, s) ==
  CASE t \in Simple -> DecSimple(t, s)
    [] t = "NodeId" -> DecNodeId(s)
    [] t = "ExpandedNodeId" ->
         LET rn == DecNodeId(s) IN
         IF ~rn.ok THEN Fail
         ELSE LET f == DecFields(<<F(Bit(rn.val.fl, 128), "String", S("String", "null")), F(Bit(rn.val.fl, 64), "UInt32", S("UInt32", "0"))>>, rn.rest, <<>>, 0) IN
              IF f.ok THEN Res(XNodeIdV(rn.val, f.vals[1].a, f.vals[2].a), f.rest, 0) ELSE Fail
    [] t = "QualifiedName" ->
         LET f == DecFields(<<F(TRUE, "UInt16", NoVal), F(TRUE, "String", NoVal)>>, s, <<>>, 0) IN
         IF f.ok THEN Res([t |-> t, ns |-> f.vals[1].a, name |-> f.vals[2].a], f.rest, 0) ELSE Fail
    [] t = "LocalizedText" ->
         IF ~HeadIs(s, "u8") THEN Fail
         ELSE LET m == s[1].n
                  f == DecFields(<<F(Bit(m, 1), "String", S("String", "null")), F(Bit(m, 2), "String", S("String", "null"))>>, Tail(s), <<>>, 0) IN
              IF f.ok THEN Res([t |-> t, m |-> m, loc |-> f.vals[1].a, txt |-> f.vals[2].a], f.rest, 0) ELSE Fail
    [] t = "ExtensionObject" -> DecXObj(s)
    [] t = "DataValue" ->
         IF ~HeadIs(s, "u8") THEN Fail
         ELSE LET m == s[1].n
                  f == DecFields(<<F(Bit(m, 1), "Variant", NullVariant), F(Bit(m, 2), "StatusCode", S("StatusCode", "0")),
                                   F(Bit(m, 4), "DateTime", S("DateTime", "zero")), F(Bit(m, 16), "UInt16", S("UInt16", "0")),
                                   F(Bit(m, 8), "DateTime", S("DateTime", "zero")), F(Bit(m, 32), "UInt16", S("UInt16", "0"))>>, Tail(s), <<>>, 0) IN
              IF f.ok THEN Res(DataV(m, f.vals[1], f.vals[2].a, f.vals[3].a, f.vals[4].a, f.vals[5].a, f.vals[6].a), f.rest, f.alloc)
              ELSE [Fail EXCEPT !.alloc = f.alloc]
    [] t = "DiagnosticInfo" ->
         IF ~HeadIs(s, "u8") THEN Fail
         ELSE LET m == s[1].n
                  z == S("Int32", "0")
                  f == DecFields(<<F(Bit(m, 1), "Int32", z), F(Bit(m, 2), "Int32", z), F(Bit(m, 8), "Int32", z), F(Bit(m, 4), "Int32", z),
                                   F(Bit(m, 16), "String", S("String", "null")), F(Bit(m, 32), "StatusCode", S("StatusCode", "0")),
                                   F(Bit(m, 64), "DiagnosticInfo", NoVal)>>, Tail(s), <<>>, 0) IN
              IF f.ok THEN Res(DiagV(m, f.vals[1].a, f.vals[2].a, f.vals[3].a, f.vals[4].a, f.vals[5].a, f.vals[6].a,
                                     IF Bit(m, 64) THEN <<f.vals[7]>> ELSE <<>>), f.rest, 0)
              ELSE Fail
    [] t = "Variant" -> DecVariant(s)

---------------------------------------------------------------------------
\* Value domains
ElemSet(t) ==       \* element values used inside Variants
  IF t \in Simple THEN {S(t, a) : a \in Atoms[t]}
  ELSE CASE t = "NodeId" -> NodeIds
         [] t = "ExpandedNodeId" -> {x \in XNodeIds : x.nid.enc \in {"two", "str"}}
         [] t = "QualifiedName" -> QNames
         [] t = "LocalizedText" -> {v \in LTexts : LTextOk(v)}
         [] t = "ExtensionObject" -> XObjs
         [] t = "DataValue" -> {DataOfMask(m, VariantV("Int32", "scalar", <<S("Int32", "-1")>>, <<>>)) : m \in {0, 1, 3, 63}}
         [] t = "Variant" -> {NullVariant, VariantV("String", "scalar", <<S("String", "a")>>, <<>>),
                              VariantV("Byte", "arr", <<S("Byte", "1"), S("Byte", "255")>>, <<>>)}
         [] t = "DiagnosticInfo" -> {DiagOfMask(0, <<>>), DiagOfMask(127, <<DiagOfMask(1, <<>>)>>)}
Two(t) == CHOOSE p \in ElemSet(t) \X ElemSet(t) : p[1] # p[2]
VariantsOf(t) ==
       {VariantV(t, "scalar", <<a>>, <<>>) : a \in ElemSet(t)}
  \cup {VariantV(t, "nullarr", <<>>, <<>>), VariantV(t, "arr", <<>>, <<>>)}
  \cup {VariantV(t, "arr", <<a>>, <<>>) : a \in ElemSet(t)}
  \cup {VariantV(t, "arr", <<Two(t)[1], Two(t)[2], Two(t)[2]>>, <<>>)}
  \cup {VariantV(t, "arr", <<Two(t)[1], Two(t)[2], Two(t)[2], Two(t)[1]>>, <<2, 2>>)}
  \cup {VariantV(t, "arr", <<Two(t)[1], Two(t)[2], Two(t)[2], Two(t)[1], Two(t)[1], Two(t)[1]>>, <<3, 1, 2>>)}
  \cup {VariantV(t, "arr", <<Two(t)[1], Two(t)[2]>>, <<1, 2>>)}
  \cup {VariantV(t, "arr", <<>>, <<2, 0>>)}
Variants == {NullVariant} \cup UNION {VariantsOf(t) : t \in TypeNames}

DataValues == {DataOfMask(m, v) : m \in 0..63, v \in {VariantV("Double", "scalar", <<S("Double", "nan2")>>, <<>>),
                                                      VariantV("String", "arr", <<S("String", "empty"), S("String", "a")>>, <<>>)}}
              \cup {DataZero(m) : m \in {62}} \cup {DataV(12, NullVariant, "0", "t0sub", "0", "tmin", "0")}

TypeOfVal(v) == v.t

---------------------------------------------------------------------------
VARIABLE c
vars == <<c>>
Next == UNCHANGED c

\* C01: one state per value
InitValues == \/ \E t \in Simple : \E a \in Atoms[t] : c = [kind |-> "value", v |-> S(t, a)]
              \/ \E v \in NodeIds : c = [kind |-> "value", v |-> v]
              \/ \E v \in XNodeIds : c = [kind |-> "value", v |-> v]
              \/ \E v \in QNames : c = [kind |-> "value", v |-> v]
              \/ \E v \in {x \in LTexts : LTextOk(x)} : c = [kind |-> "value", v |-> v]
              \/ \E v \in XObjs : c = [kind |-> "value", v |-> v]
              \/ \E v \in Variants : c = [kind |-> "value", v |-> v]
              \/ \E v \in DataValues : c = [kind |-> "value", v |-> v]
              \/ \E v \in Diags(Depth) : c = [kind |-> "value", v |-> v]

RoundTrip(v) == LET r == Dec(v.t, Enc(v)) IN r.ok /\ r.val = Norm(v) /\ r.rest = <<>>
InvRoundTrip == c.kind = "value" => RoundTrip(c.v)

\* C03: one state per (target type, token stream); streams are canonical encodings and
\* non-canonical variations of them
RECURSIVE Encodable(_)
Encodable(v) == CASE v.t = "ExtensionObject" -> v.xk # "nobody"
                  [] v.t = "Variant" -> \A i \in 1..Len(v.e) : Encodable(v.e[i])
                  [] v.t = "DataValue" -> Encodable(v.val)
                  [] OTHER -> TRUE
Reencode(t, s) == LET r == Dec(t, s) IN
                  r.ok => (Encodable(r.val) /\ LET r2 == Dec(t, Enc(r.val)) IN r2.ok /\ r2.val = Norm(r.val) /\ r2.rest = <<>>)
InvReencode == c.kind = "stream" => (c.dec.ok => c.reenc)

\* non-canonical streams: variations of a canonical encoding
SetAt(s, i, tk) == [s EXCEPT ![i] = tk]
NonCanon ==
  \* Variant: unused flag combinations, Boolean values other than 0/1, zero-length arrays with dimensions, dimension count 0/1
     {[ty |-> "Variant", s |-> <<U8(m)>>] : m \in {64, 128, 192}}                                       \* Null type with flags
  \cup {[ty |-> "Variant", s |-> <<U8(1), U8(2)>>], [ty |-> "Variant", s |-> <<U8(1 + 64), U8(1)>>]}        \* bool 2; dims flag without array flag
  \cup {[ty |-> "Variant", s |-> <<U8(6 + 128 + 64), I32(2), T("i32", 0, "-1"), T("i32", 0, "0")>> \o d] :
           d \in {<<I32(0)>>, <<I32(1), I32(2)>>, <<I32(2), I32(1), I32(2)>>, <<I32(-1)>>}}
  \cup {[ty |-> "Variant", s |-> <<U8(6 + 128 + 64), I32(n)>> \o d] : n \in {-1, 0}, d \in {<<I32(0)>>, <<I32(1), I32(0)>>, <<I32(2), I32(1), I32(0)>>, <<I32(2), I32(0), I32(0)>>}}
  \cup {[ty |-> "Variant", s |-> <<U8(12), I32(0)>>], [ty |-> "Variant", s |-> <<U8(15), I32(0)>>],
        [ty |-> "Variant", s |-> <<U8(15 + 128), I32(2), I32(1), Raw("a"), I32(2), Raw("x")>>],
        [ty |-> "Variant", s |-> <<U8(15 + 128), I32(1), I32(-1)>>],
        [ty |-> "Variant", s |-> <<U8(15 + 128 + 64), I32(2), I32(1), Raw("a"), I32(1), Raw("a"), I32(2), I32(1), I32(2)>>],
        [ty |-> "Variant", s |-> <<U8(10), T("f32", 0, "nan2")>>], [ty |-> "Variant", s |-> <<U8(13), T("time", 0, "tmax")>>]}
  \* ExtensionObject: unknown type ids, zero-length and null bodies, encoding byte other than 0/1/2
  \cup {[ty |-> "ExtensionObject", s |-> Enc(tid) \o b] : tid \in {UnknownId, AnonTokenId, NullId},
           b \in {<<U8(1), I32(2), Raw("x")>>, <<U8(1), I32(0)>>, <<U8(1), I32(-1)>>, <<U8(2), I32(0)>>, <<U8(3), I32(2), Raw("x")>>, <<U8(0)>>,
                  <<U8(1), I32(5), I32(1), Raw("a")>>, <<U8(2), I32(8), I32(4), Raw("xml")>>, <<U8(1), I32(4), I32(-1)>>}}
  \cup {[ty |-> "Variant", s |-> <<U8(22)>> \o Enc(UnknownId) \o <<U8(1), I32(2), Raw("x")>>],
        [ty |-> "DataValue", s |-> <<U8(1), U8(22)>> \o Enc(UnknownId) \o <<U8(1), I32(2), Raw("x")>>],
        \* a scalar Variant with the dimensions flag, followed by another field
        [ty |-> "DataValue", s |-> <<U8(3), U8(1 + 64), U8(1), T("u32", 0, "2147549184")>>],
        [ty |-> "DataValue", s |-> <<U8(3), U8(64), T("u32", 0, "2147549184")>>]}
  \* masks with unused bits
  \cup {[ty |-> "LocalizedText", s |-> <<U8(m)>> \o Cat([i \in 1..n |-> EncStr("a")])] : m \in {4, 7, 255}, n \in 0..2}
  \cup {[ty |-> "DataValue", s |-> <<U8(m)>>] : m \in {64, 128, 192}}
  \cup {[ty |-> "DiagnosticInfo", s |-> <<U8(128)>>], [ty |-> "DiagnosticInfo", s |-> <<U8(128 + 1), T("i32", 0, "-1")>>]}
  \* NodeID: numeric encodings of small numbers, unused mask bits, flags on a plain NodeID
  \cup {[ty |-> ty, s |-> <<U8(m)>> \o b] : ty \in {"NodeId", "ExpandedNodeId"},
           m \in {2, 2 + 16, 2 + 32}, b \in {<<T("u16", 0, "0"), T("u32", 0, "5")>>}}
  \cup {[ty |-> "NodeId", s |-> <<U8(m), T("u8", 0, "5")>>] : m \in {64, 128, 192}}
  \cup {[ty |-> "NodeId", s |-> <<U8(3), T("u16", 0, "1"), I32(0)>>], [ty |-> "NodeId", s |-> <<U8(5), T("u16", 0, "1"), I32(0)>>],
        [ty |-> "ExpandedNodeId", s |-> <<U8(128), T("u8", 0, "5"), I32(-1)>>], [ty |-> "ExpandedNodeId", s |-> <<U8(64), T("u8", 0, "5"), T("u32", 0, "0")>>]}
  \* strings with length 0 (empty, not null)
  \cup {[ty |-> "String", s |-> <<I32(0)>>], [ty |-> "ByteString", s |-> <<I32(0)>>], [ty |-> "QualifiedName", s |-> <<T("u16", 0, "0"), I32(0)>>]}

\* arrays at the element limit: a "rep" token stands for n zero bytes (n Byte / Boolean elements)
BigArrays == {[ty |-> "Variant", n |-> n, s |-> <<U8(t + 128), I32(n), T("rep", n, "00")>>] : n \in {65534, 65535, 65536}, t \in {1, 3}}
InitStreams ==
  \/ \E x \in BigArrays : c = [kind |-> "stream", canon |-> TRUE, ty |-> x.ty, s |-> x.s,
                                 dec |-> [ok |-> x.n <= MaxVariantArrayLength, val |-> NoVal, rest |-> <<>>, alloc |-> 0], reenc |-> TRUE]
  \/ \E x \in NonCanon : c = [kind |-> "stream", canon |-> FALSE, ty |-> x.ty, s |-> x.s, dec |-> Dec(x.ty, x.s), reenc |-> Reencode(x.ty, x.s)]
  \/ \E v \in Variants : c = [kind |-> "stream", canon |-> TRUE, ty |-> "Variant", s |-> Enc(v), dec |-> Dec("Variant", Enc(v)), reenc |-> Reencode("Variant", Enc(v))]
  \/ \E v \in XObjs \cup {x \in LTexts : LTextOk(x)} : c = [kind |-> "stream", canon |-> TRUE, ty |-> v.t, s |-> Enc(v), dec |-> Dec(v.t, Enc(v)), reenc |-> Reencode(v.t, Enc(v))]

\* C02: hostile streams = a canonical encoding with one length / dimension / mask token replaced,
\* or truncated; the contract decoder's allocation stays within the stream size
HostileLens == {-2147483647 - 1, -2, -1, 0, 1, 2, 65535, 65536, 2147483647}
HostileBases == {VariantV("Int32", "arr", <<S("Int32", "-1"), S("Int32", "0")>>, <<>>),
                 VariantV("Int32", "arr", <<S("Int32", "-1"), S("Int32", "0"), S("Int32", "0"), S("Int32", "-1")>>, <<2, 2>>),
                 VariantV("String", "arr", <<S("String", "a")>>, <<>>),
                 VariantV("Variant", "arr", <<NullVariant>>, <<>>),
                 VariantV("ByteString", "scalar", <<S("ByteString", "x")>>, <<>>),
                 VariantV("ExtensionObject", "scalar", <<XObjV("bin", AnonTokenId, "a")>>, <<>>),
                 VariantV("DataValue", "arr", <<DataOfMask(1, VariantV("Byte", "arr", <<S("Byte", "1")>>, <<>>))>>, <<>>)}
IsLenTok(tk) == tk.k = "i32" /\ tk.a = ""
\* which field of the outer Variant a token position is
What(b, i) == IF b.k = "arr" /\ i = 2 THEN "array-length"
              ELSE IF Len(b.dims) > 1 /\ i = Len(Enc(b)) - Len(b.dims) THEN "dimension-count"
              ELSE IF Len(b.dims) > 1 /\ i > Len(Enc(b)) - Len(b.dims) THEN "dimension"
              ELSE "nested-length"
Hostile == UNION {{[ty |-> "Variant", what |-> What(b, i), pos |-> i, s |-> SetAt(Enc(b), i, I32(h))] :
                      i \in {j \in 1..Len(Enc(b)) : IsLenTok(Enc(b)[j])}, h \in HostileLens} : b \in HostileBases}
           \cup UNION {{[ty |-> "Variant", what |-> "truncated", pos |-> i, s |-> SubSeq(Enc(b), 1, i)] : i \in 0..(Len(Enc(b)) - 1)} : b \in HostileBases}
\* nesting: n times the prefix of a value that contains a value of its own kind, then the innermost value.
\* A "rep" token stands for n copies of the named prefix (18 = Variant holding a Variant, 40 = DiagnosticInfo with an
\* inner DiagnosticInfo, 0117 = DataValue holding a Variant holding a DataValue).
MaxNesting == 100
NestDepths == {1, 100, 101, 100000, 2000000}
Nested == {[ty |-> "Variant", what |-> "nesting-variant", pos |-> n, s |-> <<T("rep", n, "18"), U8(0)>>] : n \in NestDepths}
     \cup {[ty |-> "DiagnosticInfo", what |-> "nesting-diagnosticinfo", pos |-> n, s |-> <<T("rep", n, "40"), U8(0)>>] : n \in NestDepths}
     \cup {[ty |-> "DataValue", what |-> "nesting-datavalue-variant", pos |-> n, s |-> <<T("rep", n, "0117"), U8(0)>>] : n \in NestDepths}
\* contract: nesting deeper than MaxNesting is refused; nothing is allocated for refused input
DecNested(x) == IF x.pos > MaxNesting THEN Fail ELSE [ok |-> TRUE, val |-> NoVal, rest |-> <<>>, alloc |-> 16 * x.pos]
\* dimension vectors whose product overflows / is zero / negative, with zero or two elements
HostileDims == {[ty |-> "Variant", what |-> "dimensions", pos |-> 0,
                 s |-> <<U8(6 + 128 + 64), I32(n)>> \o [i \in 1..n |-> T("i32", 0, "-1")] \o <<I32(2), I32(d1), I32(d2)>>] :
                   n \in {-1, 0, 2}, d1 \in {-2147483647 - 1, -1, 0, 1, 2, 65536, 2147483647}, d2 \in {-1, 0, 1, 2, 65536, 2147483647}}
               \cup {[ty |-> "Variant", what |-> "dimension-count", pos |-> 0, s |-> <<U8(6 + 128 + 64), I32(0), I32(nd)>>] : nd \in HostileLens}
               \cup {[ty |-> "Variant", what |-> "dimensions", pos |-> 0, s |-> <<U8(6 + 128 + 64), I32(0), I32(3), I32(65536), I32(65536), I32(d3)>>] : d3 \in {1, 65536}}
\* Dimension vectors of length 3 and 4 whose exact product is far above every legal array length but
\* congruent to it in machine arithmetic.  TLC integers are 32 bit, so the vector is not written out here:
\* a token [k |-> "dimvec3" / "dimvec4", n |-> array length, a |-> class] stands for the dimension count
\* followed by positive Int32 dimensions d1..dk, which the generator computes from the class:
\*    wrap64    d1 * ... * dk = length + j * 2^64 for some j >= 1   (length -1, the null array: = j * 2^64 - 1)
\*    wrap32    d1 * ... * dk = length + j * 2^32 for some j >= 1, below 2^63   (Int32 wrap-around)
\*    hugefirst / hugelast    one dimension 2^31 - 1, all others 1
\* In every class the true product differs from the array length, so the contract decoder refuses the
\* stream (in unbounded arithmetic, as DecVariant's Prod does) before anything is allocated.
DimClasses == {"wrap64", "wrap64asc", "wrap32", "wrap32asc", "hugefirst", "hugelast"}     \* asc: smallest dimension first
WrapDims == {[ty |-> "Variant", what |-> "dimensions-wrap", pos |-> 0,
              s |-> <<U8(6 + 128 + 64), I32(n)>> \o [i \in 1..n |-> T("i32", 0, "-1")] \o <<T(k, n, cls)>>] :
                 n \in {-1, 0, 2, 4}, k \in {"dimvec3", "dimvec4"}, cls \in DimClasses}
DecWrap(x) == Fail
InitHostile == \/ \E x \in WrapDims : c = [kind |-> "hostile", ty |-> x.ty, what |-> x.what, pos |-> x.pos, s |-> x.s, dec |-> DecWrap(x)]
               \/ \E x \in Hostile \cup HostileDims : c = [kind |-> "hostile", ty |-> x.ty, what |-> x.what, pos |-> x.pos, s |-> x.s, dec |-> Dec(x.ty, x.s)]
               \/ \E x \in Nested : c = [kind |-> "hostile", ty |-> x.ty, what |-> x.what, pos |-> x.pos, s |-> x.s, dec |-> DecNested(x)]

\* allocation bound of the contract decoder: storage reserved never exceeds 16 bytes per input byte
SizeOf(s) == IF s # <<>> /\ s[1].k = "rep" THEN s[1].n + 1 ELSE Size(s)
InvSafe == c.kind = "hostile" => (c.dec.alloc >= 0 /\ c.dec.alloc <= 16 * SizeOf(c.s))

Row == CASE c.kind = "value" -> [kind |-> "value", v |-> c.v, toks |-> Enc(c.v), norm |-> Norm(c.v)]
         [] c.kind = "stream" -> [kind |-> "stream", ty |-> c.ty, canon |-> c.canon, toks |-> c.s, ok |-> c.dec.ok,
                                  val |-> c.dec.val, devdrop |-> (c.dec.ok /\ c.dec.val.t = "ExtensionObject" /\ c.dec.val.xk = "unk")]
         [] c.kind = "hostile" -> [kind |-> "hostile", ty |-> c.ty, what |-> c.what, pos |-> c.pos, toks |-> c.s, ok |-> c.dec.ok]
InvEmit == Emit => PrintT("ROW " \o ToJson(Row))
=============================================================================
