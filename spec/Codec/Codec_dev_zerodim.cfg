CONSTANTS
  Emit = FALSE
  Depth = 2
  Dev_ByteStringArrayNoElems = FALSE
  Dev_ExtObjUnknownDropsBody = FALSE
  Dev_ZeroDimRejected = TRUE
  Dev_AllocBeforeRead = FALSE
  Dev_NegLenUnchecked = FALSE
INIT InitValues
NEXT Next
INVARIANT InvRoundTrip

CHECK_DEADLOCK FALSE
