CONSTANTS
  MaxClients = 4
  MaxOpts = 3
  Dev_SharedDefaultAck = TRUE
  Concrete = TRUE
  Emit = TRUE
  Samples = 0
  FromFile = TRUE
INIT Init
NEXT Next
INVARIANT InvTypes
INVARIANT InvEmit
CHECK_DEADLOCK FALSE
