CONSTANTS
  MaxClients = 4
  MaxOpts = 3
  MaxPool = 5
  Dev_SharedDefaultAck = TRUE
  Dev_OptionCapturesToken = FALSE
  Concrete = TRUE
  Family = "free"
  Emit = TRUE
  Samples = 0
  FromFile = TRUE
INIT Init
NEXT Next
INVARIANT InvTypes
INVARIANT InvEmit
CHECK_DEADLOCK FALSE
