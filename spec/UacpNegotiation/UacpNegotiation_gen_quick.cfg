CONSTANTS
  Bufs = {8192, 65535}
  Mms = {0, 20000}
  Mcs = {0, 2}
  Lens = {}
  Overhead = 24
  DefMm = 2097152
  DefMc = 512
  Dev_AdoptAckVerbatim = FALSE
  Dev_ServerIgnoresHello = FALSE
  Dev_ServerZeroIsLimit = FALSE
  Dev_AbortLeaksChunks = FALSE
  Dev_NoSendLimit = FALSE
  Emit = TRUE
INIT Init
NEXT Hello
INVARIANT InvEmit
CHECK_DEADLOCK FALSE
