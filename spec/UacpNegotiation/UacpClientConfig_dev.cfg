CONSTANTS
  MaxClients = 2
  MaxOpts = 1
  Dev_SharedDefaultAck = TRUE
  Concrete = FALSE
  Emit = FALSE
  Samples = 0
  FromFile = FALSE
INIT Init
NEXT Next
INVARIANT InvTypes
INVARIANT InvDefaultPristine
INVARIANT InvHelloOwn
PROPERTY InvIsolation
CHECK_DEADLOCK FALSE
