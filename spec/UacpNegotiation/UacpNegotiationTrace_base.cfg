CONSTANTS
  Bufs = {}
  Mms = {}
  Mcs = {}
  Lens = {}
  Overhead = 24
  DefMm = 2097152
  DefMc = 512
  Dev_AbortLeaksChunks = FALSE
  Emit = FALSE
INIT TInit
NEXT TNext
CHECK_DEADLOCK FALSE
