CONSTANTS
  Bufs = {}
  Mms = {}
  Mcs = {}
  Lens = {}
  Overhead = 24
  DefMm = 2097152
  DefMc = 512
  Emit = FALSE
INIT TInit
NEXT TNext
CHECK_DEADLOCK FALSE
