----------------------- MODULE UacpNegotiationTrace -----------------------
(***************************************************************************)
(* C06, code -> spec: validates wire-level traces recorded by              *)
(* harness/cmd/negotiate (real client channel, real server channel)        *)
(* against UacpNegotiation with the Dev_* flags of the as-is               *)
(* configuration.  Every logged event must be the next step of the         *)
(* specification:                                                          *)
(*   cfg    -> new connection (TraceReset)     hello -> Hello              *)
(*   ack    -> SrvAck ; CliAdopt               send  -> SendMsg            *)
(*   recv   -> RecvMsg                          end   -> report             *)
(*   abort  -> AbortedMsg (a message given up after n intermediate chunks)  *)
(* While the trace is replayed the contract predicates Fits / Accepts /    *)
(* AcceptsAll / Refuses are evaluated on every message; the ones that are  *)
(* false are collected in `flags` and printed per trace (ROW), so that one *)
(* TLC run classifies a whole batch.                                       *)
(***************************************************************************)
EXTENDS UacpNegotiation, TLCExt

Log == ndJsonDeserialize("trace.ndjson")

VARIABLES l,      \* next event
          flags,  \* contract predicates violated in the current trace
          tid     \* id of the current trace
tvars == <<vars, l, flags, tid>>

Ev(e) == l <= Len(Log) /\ Log[l].ev = e
Rec(r) == [rb |-> r.rb, sb |-> r.sb, mm |-> r.mm, mc |-> r.mc]

\* Batch mode: every trace of the file is validated as its own behaviour (one initial state per
\* "cfg" event), so that a rejected trace does not stop the others; a trace is accepted iff its
\* TEnd step prints a ROW.  TInit1 (l = 1, with HighWater/Accepted) is the single-trace mode that
\* reports the first event no action matches.
Base == /\ flags = {} /\ tid = 0
        /\ ccfg = NoCfg /\ scfg = NoCfg /\ st = "none" /\ hello = NoCfg /\ ack = NoCfg
        /\ lim = NoLim /\ msg = NoMsg /\ buf = NoBuf
TInit  == /\ l \in {i \in 1..Len(Log) : Log[i].ev = "cfg"} /\ Base
TInit1 == /\ l = 1 /\ Base /\ TLCSet(1, 1)

TReset == /\ Ev("cfg") /\ st = "none"
          /\ ccfg' = Rec(Log[l].c) /\ scfg' = Rec(Log[l].s) /\ tid' = Log[l].id
          /\ st' = "init" /\ hello' = NoCfg /\ ack' = NoCfg /\ lim' = NoLim /\ msg' = NoMsg /\ buf' = NoBuf
          /\ flags' = {} /\ l' = l + 1

THello == /\ Ev("hello") /\ Hello /\ hello' = Rec(Log[l])
          /\ l' = l + 1 /\ UNCHANGED <<flags, tid>>

\* the Acknowledge on the wire, then the client derives its limits (not visible on the wire)
TAck == /\ Ev("ack") /\ st = "helloed"
        /\ ack' = AckOf(hello, scfg) /\ ack' = Rec(Log[l])
        /\ lim' = Limits(ccfg, scfg, hello, ack') /\ st' = "open"
        /\ l' = l + 1 /\ UNCHANGED <<ccfg, scfg, hello, msg, buf, flags, tid>>

Dir(d) == IF d = "c2s" THEN "c2s" ELSE "s2c"
Flag(name, ok, m) == IF ok THEN {} ELSE {name \o ":" \o m.dir}
Judge(m) == Flag("fits", Fits(m), m) \cup Flag("refuse", Refuses(m), m)
\* a refusal of something the negotiated parameters allow: by chunk size ("accepts"), by a limit
\* of 0 taken literally ("accepts-limit0"), or by a limit the receiver never advertised
\* ("accepts-limit")
JudgeRecv(m) ==
    IF Accepts(m) /\ AcceptsAll(m) THEN {}
    ELSE IF m.recv \in {"message-too-large", "too-many-chunks"}
         THEN (IF (m.recv = "message-too-large" /\ RecvLim(m.dir).mm = 0)
                  \/ (m.recv = "too-many-chunks" /\ RecvLim(m.dir).mc = 0)
               THEN {"accepts-limit0:" \o m.dir} ELSE {"accepts-limit:" \o m.dir})
         ELSE {"accepts:" \o m.dir}

\* a message is handed to the sender: refused, or its chunks appear on the wire.  The chunk
\* sizes are taken from the wire; the specification bounds them by the sender's chunk size.
TSend == /\ Ev("send") /\ st = "open" /\ msg.sent # "wire"
         /\ LET e == Log[l]
                d == Dir(e.dir)
                over == OverLimit(e.len, SendSize(d), SendLim(d)) /\ ~Dev_NoSendLimit IN
            /\ (e.err = "refused") <=> over
            /\ over => e.chunks = <<>>
            /\ ~over => /\ Len(e.chunks) >= 1
                        /\ \A i \in 1..Len(e.chunks) : e.chunks[i] <= SendSize(d)
            /\ msg' = [dir |-> d, len |-> e.len, chunks |-> e.chunks,
                       sent |-> IF over THEN "refused" ELSE "wire", recv |-> "-"]
            /\ flags' = flags \cup Judge(msg')
         /\ l' = l + 1 /\ UNCHANGED <<ccfg, scfg, st, hello, ack, lim, buf, tid>>

TAbort == /\ Ev("abort") /\ AbortedMsg(Dir(Log[l].dir), Log[l].n)
          /\ l' = l + 1 /\ UNCHANGED <<flags, tid>>

Known == {"ok", "chunk-too-large", "too-many-chunks", "message-too-large"}
TRecv == /\ Ev("recv") /\ RecvMsg
         /\ LET r == Log[l].res IN
            /\ (r = "ok") <=> (msg'.recv = "ok")
            /\ r \in Known => r = msg'.recv
         /\ flags' = flags \cup JudgeRecv(msg')
         /\ l' = l + 1 /\ UNCHANGED tid

TEnd == /\ Ev("end") /\ st \in {"open", "dead"} /\ msg.sent # "wire"
        /\ PrintT("ROW " \o ToJson([id |-> tid, flags |-> flags]))
        /\ st' = "ended" /\ l' = l + 1
        /\ UNCHANGED <<ccfg, scfg, hello, ack, lim, msg, buf, flags, tid>>

TNext == TReset \/ THello \/ TAck \/ TSend \/ TRecv \/ TAbort \/ TEnd
TSpec == TInit /\ [][TNext]_tvars

HighWater == TLCSet(1, IF l > TLCGet(1) THEN l ELSE TLCGet(1))
Accepted == IF TLCGet(1) = Len(Log) + 1 THEN TRUE
            ELSE PrintT("STUCK " \o ToString(TLCGet(1))) /\ FALSE
=============================================================================
