CONSTANTS
  Bufs = {8192, 65535}
  Mms = {0, 20000}
  Mcs = {0, 2}
  Lens = {100, 8168, 8169, 20001, 70000}
  Overhead = 24
  DefMm = 2097152
  DefMc = 512
  Dev_AdoptAckVerbatim = TRUE
  Dev_ServerIgnoresHello = FALSE
  Dev_ServerZeroIsLimit = FALSE
  Dev_AbortLeaksChunks = FALSE
  Dev_NoSendLimit = FALSE
  Emit = FALSE
INIT Init
NEXT Next
INVARIANT InvTypes
INVARIANT InvFits
INVARIANT InvAccepts
INVARIANT InvAcceptLimit
INVARIANT InvRefuse
CHECK_DEADLOCK FALSE
