CONSTANTS
  MaxClients = 2
  MaxOpts = 2
  Dev_SharedDefaultAck = FALSE
  Concrete = FALSE
  Emit = FALSE
  Samples = 0
  FromFile = FALSE
INIT Init
NEXT Next
INVARIANT InvTypes
INVARIANT InvDefaultPristine
INVARIANT InvHelloOwn
PROPERTY InvIsolation
CHECK_DEADLOCK FALSE
