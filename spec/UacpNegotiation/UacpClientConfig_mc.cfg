CONSTANTS
  MaxClients = 3
  MaxOpts = 2
  MaxPool = 0
  Dev_SharedDefaultAck = FALSE
  Dev_OptionCapturesToken = FALSE
  Concrete = FALSE
  Family = "free"
  Emit = FALSE
  Samples = 0
  FromFile = FALSE
INIT Init
NEXT Next
INVARIANT InvTypes
INVARIANT InvDefaultPristine
INVARIANT InvOwnToken
INVARIANT InvHelloOwn
PROPERTY InvIsolation
CHECK_DEADLOCK FALSE
