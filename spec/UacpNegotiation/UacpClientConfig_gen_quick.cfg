CONSTANTS
  MaxClients = 2
  MaxOpts = 1
  Dev_SharedDefaultAck = FALSE
  Concrete = TRUE
  Emit = TRUE
  Samples = 0
  FromFile = FALSE
INIT Init
NEXT Next
INVARIANT InvTypes
INVARIANT InvDefaultPristine
INVARIANT InvHelloOwn
PROPERTY InvIsolation
CHECK_DEADLOCK FALSE
INVARIANT InvEmit
