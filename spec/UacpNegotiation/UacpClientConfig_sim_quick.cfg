CONSTANTS
  MaxClients = 3
  MaxOpts = 3
  Dev_SharedDefaultAck = FALSE
  Concrete = TRUE
  Emit = TRUE
  Samples = 150
  FromFile = FALSE
INIT InitSample
NEXT Next
INVARIANT InvTypes
INVARIANT InvDefaultPristine
INVARIANT InvHelloOwn
PROPERTY InvIsolation
CHECK_DEADLOCK FALSE
INVARIANT InvEmit
