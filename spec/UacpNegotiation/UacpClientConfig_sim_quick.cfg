CONSTANTS
  MaxClients = 3
  MaxOpts = 3
  MaxPool = 4
  Dev_SharedDefaultAck = FALSE
  Dev_OptionCapturesToken = FALSE
  Concrete = TRUE
  Family = "free"
  Emit = TRUE
  Samples = 150
  FromFile = FALSE
INIT InitSample
NEXT Next
INVARIANT InvTypes
INVARIANT InvDefaultPristine
INVARIANT InvOwnToken
INVARIANT InvHelloOwn
PROPERTY InvIsolation
CHECK_DEADLOCK FALSE
INVARIANT InvEmit
