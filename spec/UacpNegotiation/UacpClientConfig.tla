------------------------- MODULE UacpClientConfig -------------------------
(***************************************************************************)
(* C23 -- client options affect only the client they are applied to.       *)
(* (configuration half of DESIGN S2; the handshake/limits half is          *)
(* UacpNegotiation.tla in this directory.)                                 *)
(*                                                                         *)
(* A program first builds a pool of option VALUES (opcua.ReceiveBufferSize *)
(* (n), opcua.SecurityFromEndpoint(ep, t), ... : each call of an option    *)
(* constructor yields one option object) and then runs a sequence of       *)
(* client constructions                                                    *)
(*     opcua.NewClient(endpoint, pool[i1], ..., pool[ik])                  *)
(* in which the SAME option object may be applied to several clients (a    *)
(* shared opts slice, a connection pool, one client per user).  Finally    *)
(* every client sends its Hello.  config.go builds a configuration from    *)
(* defaults (newConfig) and applies the options in order.                  *)
(*                                                                         *)
(* Everything is modelled by value except the objects that options write   *)
(* THROUGH a pointer; these live in heaps and have identity:               *)
(*   objs   Acknowledge objects of dialers (buffer/limit options write     *)
(*          through cfg.dialer.ClientACK); object 0 is the package-level   *)
(*          uacp.DefaultClientACK                                          *)
(*   nds    net.Dialer objects of dialers (DialTimeout writes through      *)
(*          cfg.dialer.Dialer); a library-created dialer has its own, a    *)
(*          caller-owned dialer (option Dialer(d)) brings the caller's     *)
(*   toks   user identity tokens (AuthUsername, AuthCertificate,           *)
(*          AuthIssuedToken, AuthPolicyID, SecurityFromEndpoint write      *)
(*          through cfg.session.UserIdentityToken)                         *)
(*                                                                         *)
(*   NewClient    a configuration is created from the defaults             *)
(*                contract: the client gets its own Acknowledge object     *)
(*                Dev_SharedDefaultAck: its dialer points at object 0      *)
(*                (config.go:72 of the pinned tree, repaired)              *)
(*   ApplyOpt     the next option object runs on the configuration under   *)
(*                construction.  contract: an option object carries only   *)
(*                immutable arguments, every mutable object it installs    *)
(*                is created during the application                        *)
(*                Dev_OptionCapturesToken: SecurityFromEndpoint creates    *)
(*                its identity token when the option object is built and   *)
(*                installs that one object in every configuration          *)
(*   Finish       NewClient returns                                        *)
(*   Hello(c)     client c dials: the Hello carries the values of its      *)
(*                Acknowledge object at that moment (uacp/conn.go:226)     *)
(*                                                                         *)
(* Field values are abstract indices (0 = library default, 1 and 2 = two   *)
(* other values, for "app" 3/4 = the URI inside certificate 1/2); the      *)
(* harness owns the table index -> concrete value.                         *)
(***************************************************************************)
EXTENDS Naturals, Sequences, FiniteSets, TLC, Json

CONSTANTS MaxClients,            \* constructions per program
          MaxOpts,               \* options per construction
          MaxPool,               \* option objects per program (sampling)
          Dev_SharedDefaultAck,  \* TRUE: DefaultDialer shares uacp.DefaultClientACK (deviation demo; repaired in /repo)
          Dev_OptionCapturesToken, \* TRUE: an option object owns a mutable token (deviation demo)
          Concrete,              \* TRUE: the full option list; FALSE: one representative per kind
          Family,                \* "free" | "pairs" | "shared" : shape of the programs chosen by Init
          Emit, Samples,
          FromFile               \* TRUE: programs are read from progs.ndjson (second pass: same
                                 \* programs under another deviation setting)

AckFields == {"rb", "sb", "mm", "mc"}
ValFields == {"pol", "mode", "life", "rt", "ar", "ri", "cert", "key",
              "st", "sn", "loc", "app", "prod", "auth", "pw", "aname", "rcert", "ukey"}
PristineAck == [f \in AckFields |-> 0]
DefaultVal  == [f \in ValFields |-> 0]
\* identity token: ty = "none" (nil) | "anon" | "user" | "cert" | "issued";
\* pid = policy id index (0 = "", 10*v+k = policy k of endpoint v, 100+v = AuthPolicyID(v));
\* val = user name / certificate / token data index
NoTok == [ty |-> "none", pid |-> 0, val |-> 0]

\* option name -> what it writes.  "ack": one field of the dialer's Acknowledge object;
\* "val": one by-value field; the others are spelled out in ApplyOpt.
AckOpt == [ReceiveBufferSize |-> "rb", SendBufferSize |-> "sb", MaxMessageSize |-> "mm", MaxChunkCount |-> "mc"]
ValOpt == [SecurityPolicy |-> "pol", SecurityMode |-> "mode",
           SecurityModeString |-> "mode", Lifetime |-> "life", RequestTimeout |-> "rt",
           AutoReconnect |-> "ar", ReconnectInterval |-> "ri", PrivateKey |-> "key",
           SessionTimeout |-> "st", SessionName |-> "sn", Locales |-> "loc",
           ApplicationURI |-> "app", ProductURI |-> "prod", ApplicationName |-> "aname",
           RemoteCertificate |-> "rcert", AuthPrivateKey |-> "ukey"]
\* SecurityFromEndpoint(endpoint v, token type): policy, mode, token policy of the endpoint
SfeType == [SecurityFromEndpoint |-> "anon", SecurityFromEndpointUser |-> "user", SecurityFromEndpointCert |-> "cert"]
SfeK    == [anon |-> 1, user |-> 2, cert |-> 3]
\* Auth*(value v): token type they create / require
AuthType == [AuthAnonymous |-> "anon", AuthUsername |-> "user", AuthCertificate |-> "cert", AuthIssuedToken |-> "issued"]
Special == {"Certificate", "OwnDialer", "DialTimeout", "AuthPolicyID"}
AllNames == DOMAIN AckOpt \cup DOMAIN ValOpt \cup DOMAIN SfeType \cup DOMAIN AuthType \cup Special
RepNames == {"ReceiveBufferSize", "MaxMessageSize", "DialTimeout", "SessionName", "OwnDialer",
             "SecurityFromEndpointUser", "AuthUsername", "AuthPolicyID"}
Opt(n, v) == [o |-> n, v |-> v]
Names   == IF Concrete THEN AllNames ELSE RepNames
Options == {Opt(n, v) : n \in Names, v \in (IF Concrete THEN 1..2 ELSE {1})}

VARIABLES pool,     \* the option objects of the program (sequence of option values)
          prog,     \* the constructions: sequence of sequences of pool indices
          objs,     \* heap of Acknowledge objects: 0 = uacp.DefaultClientACK,
                    \*   i = created by the library for client i,
                    \*   MaxClients+j = inside the caller-owned dialer of option object j (Dialer(d))
          nds,      \* heap of net.Dialer objects (field: dial timeout), same ids
          toks,     \* heap of identity tokens: 1..MaxClients created during an application,
                    \*   MaxClients+j = owned by option object j (only with Dev_OptionCapturesToken)
          ntok,     \* tokens created during applications so far
          clients,  \* finished and current clients: [ack, tok: object ids (tok 0 = nil), v: by-value fields]
          cur,      \* client under construction (0 = none)
          k,        \* options of the current construction applied so far
          wire,     \* Hello messages seen on the wire: [c, ack values]
          hist      \* expected observations after each construction / Hello
vars == <<pool, prog, objs, nds, toks, ntok, clients, cur, k, wire, hist>>

PoolMax == IF MaxPool > MaxClients * MaxOpts THEN MaxPool ELSE MaxClients * MaxOpts
ObjIds == 0..(MaxClients + PoolMax)
CallerOwned(id) == id > MaxClients
TokIds == 1..(MaxClients + PoolMax)
TokOf(c) == IF clients[c].tok = 0 THEN NoTok ELSE toks[clients[c].tok]
WithDt(v, dt) == [f \in ValFields \cup {"dt"} |-> IF f = "dt" THEN dt ELSE v[f]]
Deref(c) == [ack |-> objs[clients[c].ack], tok |-> TokOf(c), v |-> WithDt(clients[c].v, nds[clients[c].nd])]
\* the part of a configuration that does not live in a caller-owned dialer
DerefLib(c) == [tok |-> TokOf(c), v |-> clients[c].v]
\* what a client created now without options would see
FreshView == [ack |-> objs[0], tok |-> NoTok, v |-> WithDt(DefaultVal, 0)]
Snapshot == [cl |-> [c \in 1..Len(clients) |-> Deref(c)], def |-> objs[0], fresh |-> FreshView]

Progs   == ndJsonDeserialize("progs.ndjson")

\* a caller-owned dialer exists (with the values the caller gave it) before any client is built
Init0 == /\ objs = [i \in ObjIds |-> IF CallerOwned(i) /\ i - MaxClients <= Len(pool) /\ pool[i - MaxClients].o = "OwnDialer"
                                     THEN [f \in AckFields |-> pool[i - MaxClients].v] ELSE PristineAck]
         /\ nds = [i \in ObjIds |-> IF CallerOwned(i) /\ i - MaxClients <= Len(pool) /\ pool[i - MaxClients].o = "OwnDialer"
                                    THEN pool[i - MaxClients].v ELSE 0]
         /\ toks = [i \in TokIds |-> NoTok] /\ ntok = 0
         /\ clients = <<>> /\ cur = 0 /\ k = 0 /\ wire = <<>> /\ hist = <<>>
\* Program families (Init):
\*  "free"   every pool of distinct option objects, one object per use (model checking)
\*  "pairs"  client 1: [X], client 2: [Y]               two different option objects
\*  "shared" client 1: [X], client 2: [X, Y]            the SAME object X applied to both
OptSeqs(n) == UNION {[1..m -> Options] : m \in 0..n}
InitFree == \E a \in OptSeqs(MaxOpts), b \in OptSeqs(MaxOpts), share \in BOOLEAN,
               c \in (IF MaxClients >= 3 THEN OptSeqs(1) ELSE {<<>>}) :
               \* client 2 either builds its own objects or re-uses client 1's first object first;
               \* a third client (thorough) builds its own
               /\ pool = a \o b \o c
               /\ prog = <<[i \in 1..Len(a) |-> i],
                           (IF share /\ Len(a) > 0 THEN <<1>> ELSE <<>>) \o [i \in 1..Len(b) |-> Len(a) + i]>>
                         \o (IF MaxClients >= 3 THEN <<[i \in 1..Len(c) |-> Len(a) + Len(b) + i]>> ELSE <<>>)
InitPairs == \E x \in Options, y \in {o \in Options : o.v = 1} :
               pool = <<x, y>> /\ prog = <<<<1>>, <<2>>>>
InitShared == \E x \in {o \in Options : o.v = 1}, y \in Options :
               pool = <<x, y>> /\ prog = <<<<1>>, <<1, 2>>>>
Init  == /\ IF FromFile THEN \E i \in 1..Len(Progs) : pool = Progs[i].pool /\ prog = Progs[i].prog
            ELSE IF Family = "pairs" THEN InitPairs
            ELSE IF Family = "shared" THEN InitShared
            ELSE InitFree
         /\ Init0
\* seeded samples: a small pool, so that objects are re-used often
InitSample ==
    /\ \E s \in 1..Samples : \E n \in 2..MaxClients :
          /\ pool = [j \in 1..MaxPool |-> RandomElement(Options)]
          /\ prog = [c \in 1..n |-> [j \in 1..RandomElement(0..MaxOpts) |-> RandomElement(1..MaxPool)]]
    /\ Init0

---------------------------------------------------------------------------
NewClient ==
    /\ cur = 0 /\ Len(clients) < Len(prog)
    /\ LET c == Len(clients) + 1 IN
       /\ cur' = c /\ k' = 0
       /\ IF Dev_SharedDefaultAck
          THEN /\ clients' = Append(clients, [ack |-> 0, nd |-> c, tok |-> 0, v |-> DefaultVal])
               /\ objs' = objs
          ELSE /\ clients' = Append(clients, [ack |-> c, nd |-> c, tok |-> 0, v |-> DefaultVal])
               /\ objs' = [objs EXCEPT ![c] = objs[0]]
    /\ UNCHANGED <<pool, prog, nds, toks, ntok, wire, hist>>

\* the token the current configuration has after "if cfg.session.UserIdentityToken == nil
\* { create one of type ty }": its id, the heap and the counter after the step.
\* j = option object that runs (it may own a token when Dev_OptionCapturesToken).
Ensure(ty, j, capturing) ==
    IF clients[cur].tok # 0
    THEN [id |-> clients[cur].tok, heap |-> toks, n |-> ntok]
    ELSE IF capturing /\ Dev_OptionCapturesToken
         THEN [id |-> MaxClients + j,
               heap |-> IF toks[MaxClients + j].ty = "none"
                        THEN [toks EXCEPT ![MaxClients + j] = [ty |-> ty, pid |-> 0, val |-> 0]] ELSE toks,
               n |-> ntok]
         ELSE [id |-> ntok + 1, heap |-> [toks EXCEPT ![ntok + 1] = [ty |-> ty, pid |-> 0, val |-> 0]], n |-> ntok + 1]

ApplyOpt ==
    /\ cur # 0 /\ k < Len(prog[cur])
    /\ LET j == prog[cur][k + 1]
           o == pool[j] IN
       \/ /\ o.o \in DOMAIN AckOpt
          /\ objs' = [objs EXCEPT ![clients[cur].ack][AckOpt[o.o]] = o.v]
          /\ UNCHANGED <<clients, nds, toks, ntok>>
       \/ /\ o.o = "DialTimeout"
          /\ nds' = [nds EXCEPT ![clients[cur].nd] = o.v]
          /\ UNCHANGED <<clients, objs, toks, ntok>>
       \/ /\ o.o \in DOMAIN ValOpt
          /\ clients' = [clients EXCEPT ![cur].v[ValOpt[o.o]] = o.v]
          /\ UNCHANGED <<objs, nds, toks, ntok>>
       \/ /\ o.o = "Certificate"            \* also takes the application URI from the certificate
          /\ clients' = [clients EXCEPT ![cur].v["cert"] = o.v, ![cur].v["app"] = 2 + o.v]
          /\ UNCHANGED <<objs, nds, toks, ntok>>
       \/ /\ o.o = "OwnDialer"              \* Dialer(d): the configuration points at the caller's dialer
          /\ clients' = [clients EXCEPT ![cur].ack = MaxClients + j, ![cur].nd = MaxClients + j]
          /\ UNCHANGED <<objs, nds, toks, ntok>>
       \/ /\ o.o \in DOMAIN SfeType         \* config.go SecurityFromEndpoint
          /\ LET e == Ensure(SfeType[o.o], j, TRUE) IN
             /\ toks' = [e.heap EXCEPT ![e.id].pid = 10 * o.v + SfeK[SfeType[o.o]]]
             /\ ntok' = e.n
             \* (the endpoints of the harness carry no server certificate: the remote certificate is reset)
             /\ clients' = [clients EXCEPT ![cur].tok = e.id, ![cur].v["pol"] = o.v,
                                           ![cur].v["mode"] = o.v, ![cur].v["auth"] = o.v,
                                           ![cur].v["rcert"] = 0]
          /\ UNCHANGED <<objs, nds>>
       \/ /\ o.o \in DOMAIN AuthType        \* AuthAnonymous / AuthUsername / AuthCertificate / AuthIssuedToken
          /\ LET e == Ensure(AuthType[o.o], j, FALSE)
                 match == e.heap[e.id].ty = AuthType[o.o] IN
             /\ toks' = IF match /\ AuthType[o.o] # "anon" THEN [e.heap EXCEPT ![e.id].val = o.v] ELSE e.heap
             /\ ntok' = e.n
             /\ clients' = IF match /\ o.o = "AuthUsername"
                           THEN [clients EXCEPT ![cur].tok = e.id, ![cur].v["pw"] = o.v]
                           ELSE [clients EXCEPT ![cur].tok = e.id]
          /\ UNCHANGED <<objs, nds>>
       \/ /\ o.o = "AuthPolicyID"           \* only when a token exists
          /\ toks' = IF clients[cur].tok = 0 THEN toks
                     ELSE [toks EXCEPT ![clients[cur].tok].pid = 100 + o.v]
          /\ UNCHANGED <<objs, nds, clients, ntok>>
    /\ k' = k + 1
    /\ UNCHANGED <<pool, prog, cur, wire, hist>>

Finish ==
    /\ cur # 0 /\ k = Len(prog[cur])
    /\ cur' = 0 /\ k' = 0
    /\ hist' = Append(hist, [ev |-> "new", c |-> cur, snap |-> Snapshot])
    /\ UNCHANGED <<pool, prog, objs, nds, toks, ntok, clients, wire>>

Hello ==
    /\ cur = 0 /\ Len(clients) = Len(prog) /\ Len(wire) < Len(clients)
    /\ LET c == Len(wire) + 1 IN
       /\ wire' = Append(wire, [c |-> c, ack |-> objs[clients[c].ack]])
       /\ hist' = Append(hist, [ev |-> "hello", c |-> c, ack |-> objs[clients[c].ack]])
    /\ UNCHANGED <<pool, prog, objs, nds, toks, ntok, clients, cur, k>>

Next == NewClient \/ ApplyOpt \/ Finish \/ Hello
Spec == Init /\ [][Next]_vars
Done == cur = 0 /\ Len(clients) = Len(prog) /\ Len(wire) = Len(clients)

---------------------------------------------------------------------------
\* C23.  Configuring client `cur` never changes what the other existing clients see (their
\* dereferenced configuration incl. identity token), nor the defaults seen by later clients.
\* Two clients that were given the SAME caller-owned dialer (Dialer(d) with one d) share that
\* dialer by the caller's choice: for them only the rest of the configuration must be isolated.
SameCallerDialer(d, c) == c # 0 /\ c <= Len(clients') /\ CallerOwned(clients'[d].ack) /\ clients'[d].ack = clients'[c].ack
IsoStep == /\ \A d \in 1..Len(clients) : d # cur' =>
                  IF SameCallerDialer(d, cur') THEN DerefLib(d)' = DerefLib(d) ELSE Deref(d)' = Deref(d)
           /\ FreshView' = FreshView
InvIsolation == [][IsoStep]_vars
\* state form of the second half: the package default keeps its pristine values
InvDefaultPristine == objs[0] = PristineAck
\* no two clients hold the same identity token object
InvOwnToken == \A c, d \in 1..Len(clients) : (c # d /\ clients[c].tok # 0) => clients[c].tok # clients[d].tok
\* the Hello of a client carries exactly what its own options said (computed from the program alone)
RECURSIVE OwnAck(_, _)
OwnAck(os, n) == IF n = 0 THEN PristineAck
                 ELSE LET a == OwnAck(os, n - 1) o == pool[os[n]] IN
                      IF o.o \in DOMAIN AckOpt THEN [a EXCEPT ![AckOpt[o.o]] = o.v]
                      ELSE a
\* (clients on a caller-owned dialer see what every holder of that dialer wrote)
InvHelloOwn == \A i \in 1..Len(wire) : ~CallerOwned(clients[wire[i].c].ack) =>
                   wire[i].ack = OwnAck(prog[wire[i].c], Len(prog[wire[i].c]))
InvTypes == /\ cur \in 0..MaxClients /\ Len(clients) <= MaxClients
            /\ \A c \in 1..Len(clients) : clients[c].ack \in ObjIds /\ clients[c].tok \in {0} \cup TokIds

Row == [pool |-> pool, prog |-> prog, hist |-> hist]
InvEmit == (Emit /\ Done) => PrintT("BEH " \o ToJson(Row))
=============================================================================
