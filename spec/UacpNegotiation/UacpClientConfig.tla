------------------------- MODULE UacpClientConfig -------------------------
(***************************************************************************)
(* C23 -- client options affect only the client they are applied to.       *)
(* (configuration half of DESIGN S2; the handshake/limits half is          *)
(* UacpNegotiation.tla in this directory.)                                 *)
(*                                                                         *)
(* A program is a sequence of client constructions                         *)
(*     opcua.NewClient(endpoint, opt_1, ..., opt_k)                        *)
(* followed by every client sending its Hello.  config.go builds a         *)
(* configuration from defaults (newConfig: DefaultDialer,                  *)
(* DefaultClientConfig, DefaultSessionConfig) and applies the options in   *)
(* order.  Everything is modelled by value except the one object the       *)
(* property is about: the Acknowledge structure that holds the buffer and  *)
(* limit settings of a dialer.  Acknowledge objects live in a heap (objs)  *)
(* and have identity; object 0 is the package-level default                *)
(* uacp.DefaultClientACK.                                                  *)
(*                                                                         *)
(*   NewClient    a configuration is created from the defaults             *)
(*                contract: the client gets its own Acknowledge object,    *)
(*                          a copy of the default                          *)
(*                Dev_SharedDefaultAck: the client's dialer points at      *)
(*                          object 0 itself (config.go:72)                 *)
(*   ApplyOpt(o)  one option function runs on the configuration under      *)
(*                construction (buffer/limit options write through the     *)
(*                dialer's Acknowledge pointer, config.go:600-629;         *)
(*                Dialer(d) installs a caller-owned dialer/Acknowledge)    *)
(*   Finish       NewClient returns                                        *)
(*   Hello(c)     client c dials: the Hello carries the values of its      *)
(*                Acknowledge object at that moment (uacp/conn.go:226)     *)
(*                                                                         *)
(* Field values are abstract indices (0 = library default, 1 and 2 = two   *)
(* other values, for "app" 3/4 = the URI inside certificate 1/2); the      *)
(* harness owns the table index -> concrete value.                         *)
(***************************************************************************)
EXTENDS Naturals, Sequences, FiniteSets, TLC, Json

CONSTANTS MaxClients,            \* constructions per program
          MaxOpts,               \* options per construction
          Dev_SharedDefaultAck,  \* TRUE: the code as it is (DefaultDialer shares uacp.DefaultClientACK)
          Concrete,              \* TRUE: the full option list; FALSE: one representative per kind
          Emit, Samples,
          FromFile               \* TRUE: programs are read from progs.ndjson (second pass: same
                                 \* programs under another deviation setting)

AckFields == {"rb", "sb", "mm", "mc"}
ValFields == {"dt", "pol", "mode", "life", "rt", "ar", "ri", "cert", "key",
              "st", "sn", "loc", "app", "prod", "auth"}
PristineAck == [f \in AckFields |-> 0]
DefaultVal  == [f \in ValFields |-> 0]

\* option name -> what it writes.  kind "ack": one field of the dialer's Acknowledge object;
\* "val": one by-value field; the others are spelled out in Apply.
AckOpt == [ReceiveBufferSize |-> "rb", SendBufferSize |-> "sb", MaxMessageSize |-> "mm", MaxChunkCount |-> "mc"]
ValOpt == [DialTimeout |-> "dt", SecurityPolicy |-> "pol", SecurityMode |-> "mode",
           SecurityModeString |-> "mode", Lifetime |-> "life", RequestTimeout |-> "rt",
           AutoReconnect |-> "ar", ReconnectInterval |-> "ri", PrivateKey |-> "key",
           SessionTimeout |-> "st", SessionName |-> "sn", Locales |-> "loc",
           ApplicationURI |-> "app", ProductURI |-> "prod"]
Special == {"Certificate", "SecurityFromEndpoint", "OwnDialer"}
AllNames == DOMAIN AckOpt \cup DOMAIN ValOpt \cup Special
RepNames == {"ReceiveBufferSize", "MaxMessageSize", "DialTimeout", "SecurityPolicy", "SessionName", "OwnDialer"}
Opt(n, v) == [o |-> n, v |-> v]
Options == {Opt(n, v) : n \in (IF Concrete THEN AllNames ELSE RepNames), v \in (IF Concrete THEN 1..2 ELSE {1})}

VARIABLES prog,     \* the program: sequence of option sequences (one per construction)
          objs,     \* heap of Acknowledge objects: 0 = uacp.DefaultClientACK,
                    \*   i = created by the library for client i, MaxClients+i = owned by the caller
          clients,  \* finished and current clients: [ack: object id, v: by-value fields]
          cur,      \* client under construction (0 = none)
          k,        \* options of the current construction applied so far
          wire,     \* Hello messages seen on the wire: [c, ack values]
          hist      \* expected observations after each construction / Hello
vars == <<prog, objs, clients, cur, k, wire, hist>>

ObjIds == 0..(2 * MaxClients)
Deref(c) == [ack |-> objs[clients[c].ack], v |-> clients[c].v]
\* what a client created now without options would see
FreshView == [ack |-> objs[0], v |-> DefaultVal]
Snapshot == [cl |-> [c \in 1..Len(clients) |-> Deref(c)], def |-> objs[0], fresh |-> FreshView]

OptSeqs == UNION {[1..n -> Options] : n \in 0..MaxOpts}
Progs   == ndJsonDeserialize("progs.ndjson")

Init0 == /\ objs = [i \in ObjIds |-> PristineAck]
         /\ clients = <<>> /\ cur = 0 /\ k = 0 /\ wire = <<>> /\ hist = <<>>
Init  == /\ IF FromFile THEN \E i \in 1..Len(Progs) : prog = Progs[i].prog
                        ELSE prog \in UNION {[1..n -> OptSeqs] : n \in 1..MaxClients}
         /\ Init0
\* seeded samples from the full option list
InitSample ==
    /\ \E s \in 1..Samples : \E n \in 2..MaxClients :
          prog = [c \in 1..n |-> [j \in 1..RandomElement(0..MaxOpts) |-> RandomElement(Options)]]
    /\ Init0

---------------------------------------------------------------------------
NewClient ==
    /\ cur = 0 /\ Len(clients) < Len(prog)
    /\ LET c == Len(clients) + 1 IN
       /\ cur' = c /\ k' = 0
       /\ IF Dev_SharedDefaultAck
          THEN /\ clients' = Append(clients, [ack |-> 0, v |-> DefaultVal])
               /\ objs' = objs
          ELSE /\ clients' = Append(clients, [ack |-> c, v |-> DefaultVal])
               /\ objs' = [objs EXCEPT ![c] = objs[0]]
    /\ UNCHANGED <<prog, wire, hist>>

SetVal(f, x) == clients' = [clients EXCEPT ![cur].v[f] = x]
ApplyOpt ==
    /\ cur # 0 /\ k < Len(prog[cur])
    /\ LET o == prog[cur][k + 1] IN
       \/ /\ o.o \in DOMAIN AckOpt
          /\ objs' = [objs EXCEPT ![clients[cur].ack][AckOpt[o.o]] = o.v]
          /\ UNCHANGED clients
       \/ /\ o.o \in DOMAIN ValOpt
          /\ SetVal(ValOpt[o.o], o.v) /\ UNCHANGED objs
       \/ /\ o.o = "Certificate"            \* also takes the application URI from the certificate
          /\ clients' = [clients EXCEPT ![cur].v["cert"] = o.v, ![cur].v["app"] = 2 + o.v]
          /\ UNCHANGED objs
       \/ /\ o.o = "SecurityFromEndpoint"   \* policy, mode and user token policy of endpoint o.v
          /\ clients' = [clients EXCEPT ![cur].v["pol"] = o.v, ![cur].v["mode"] = o.v, ![cur].v["auth"] = o.v]
          /\ UNCHANGED objs
       \/ /\ o.o = "OwnDialer"              \* Dialer(d): caller-owned dialer with its own Acknowledge
          /\ objs' = [objs EXCEPT ![MaxClients + cur] = [f \in AckFields |-> o.v]]
          /\ clients' = [clients EXCEPT ![cur].ack = MaxClients + cur, ![cur].v["dt"] = o.v]
    /\ k' = k + 1
    /\ UNCHANGED <<prog, cur, wire, hist>>

Finish ==
    /\ cur # 0 /\ k = Len(prog[cur])
    /\ cur' = 0 /\ k' = 0
    /\ hist' = Append(hist, [ev |-> "new", c |-> cur, snap |-> Snapshot])
    /\ UNCHANGED <<prog, objs, clients, wire>>

Hello ==
    /\ cur = 0 /\ Len(clients) = Len(prog) /\ Len(wire) < Len(clients)
    /\ LET c == Len(wire) + 1 IN
       /\ wire' = Append(wire, [c |-> c, ack |-> objs[clients[c].ack]])
       /\ hist' = Append(hist, [ev |-> "hello", c |-> c, ack |-> objs[clients[c].ack]])
    /\ UNCHANGED <<prog, objs, clients, cur, k>>

Next == NewClient \/ ApplyOpt \/ Finish \/ Hello
Spec == Init /\ [][Next]_vars
Done == cur = 0 /\ Len(clients) = Len(prog) /\ Len(wire) = Len(clients)

---------------------------------------------------------------------------
\* C23.  Configuring client `cur` never changes what the other existing clients see, nor the
\* defaults seen by clients created later.
IsoStep == /\ \A d \in 1..Len(clients) : d # cur' => Deref(d)' = Deref(d)
           /\ FreshView' = FreshView
InvIsolation == [][IsoStep]_vars
\* state form of the second half: the package default keeps its pristine values
InvDefaultPristine == objs[0] = PristineAck
\* the Hello of a client carries exactly what its own options said (computed from the program alone)
RECURSIVE OwnAck(_, _)
OwnAck(os, n) == IF n = 0 THEN PristineAck
                 ELSE LET a == OwnAck(os, n - 1) o == os[n] IN
                      IF o.o \in DOMAIN AckOpt THEN [a EXCEPT ![AckOpt[o.o]] = o.v]
                      ELSE IF o.o = "OwnDialer" THEN [f \in AckFields |-> o.v]
                      ELSE a
InvHelloOwn == \A i \in 1..Len(wire) : wire[i].ack = OwnAck(prog[wire[i].c], Len(prog[wire[i].c]))
InvTypes == /\ cur \in 0..MaxClients /\ Len(clients) <= MaxClients
            /\ \A c \in 1..Len(clients) : clients[c].ack \in ObjIds

Row == [prog |-> prog, hist |-> hist]
InvEmit == (Emit /\ Done) => PrintT("BEH " \o ToJson(Row))
=============================================================================
