CONSTANTS
  Bufs = {}
  Mms = {}
  Mcs = {}
  Lens = {}
  Overhead = 24
  DefMm = 2097152
  DefMc = 512
  Dev_AbortLeaksChunks = FALSE
  Emit = FALSE
INIT TInit1
NEXT TNext
CONSTRAINT HighWater
POSTCONDITION Accepted
CHECK_DEADLOCK FALSE
