CONSTANTS
  Bufs = {8192, 16384, 65535, 1048576}
  Mms = {0, 20000, 2097152}
  Mcs = {0, 2, 512}
  Lens = {100, 8168, 8169, 16361, 20001, 70000, 2097153}
  Overhead = 24
  DefMm = 2097152
  DefMc = 512
  Dev_AdoptAckVerbatim = FALSE
  Dev_ServerIgnoresHello = FALSE
  Dev_ServerZeroIsLimit = FALSE
  Dev_AbortLeaksChunks = FALSE
  Dev_NoSendLimit = FALSE
  Emit = FALSE
INIT Init
NEXT Next
INVARIANT InvTypes
INVARIANT InvFits
INVARIANT InvAccepts
INVARIANT InvAcceptLimit
INVARIANT InvRefuse
INVARIANT InvAbortReleases
CHECK_DEADLOCK FALSE
