-------------------------- MODULE UacpNegotiation --------------------------
(***************************************************************************)
(* C06 -- negotiated transport limits are honoured in both directions.     *)
(*                                                                         *)
(* One UA-TCP connection: the client sends Hello (its receive buffer, send *)
(* buffer, largest response message / chunk count it accepts; 0 = no       *)
(* limit), the server answers Acknowledge (its receive buffer, send        *)
(* buffer, largest request message / chunk count it accepts), both sides   *)
(* derive their effective limits, then messages are sent as chunks.        *)
(*                                                                         *)
(*   Hello      uacp/conn.go:226 Handshake (sends the dialer's ClientACK)  *)
(*   SrvAck     uacp/conn.go:288 srvhandshake                              *)
(*   CliAdopt   uacp/conn.go:255-270 (client stores its limits)            *)
(*   SendMsg    uasc/secure_channel.go writeMessageChunks: refuse, or cut  *)
(*              the message into chunks of the sender's chunk size         *)
(*   RecvMsg    uacp Receive size check + uasc Receive chunk-count and     *)
(*              message-size checks (secure_channel.go:377,399)            *)
(*   AbortedMsg a sender gives up a message after some intermediate chunks *)
(*              and sends an abort chunk (MSGA): the receiver buffered the *)
(*              chunks (they count against MaxChunkCount, per message and  *)
(*              for all incomplete messages of the channel together) and   *)
(*              releases them on the abort (secure_channel.go 'A' case)    *)
(*                                                                         *)
(* Contract (OPC UA Part 6, 7.1.2.3/7.1.2.4), Dev_* = FALSE:               *)
(*   a side sends chunks <= min(own send buffer, receive buffer the peer   *)
(*   advertised) and accepts chunks up to its own receive buffer; the      *)
(*   client refuses to send a request above the Acknowledge's message size *)
(*   / chunk count, the server a response above the Hello's.               *)
(* Deviations of the code (each confirmed on the real packages):           *)
(*   Dev_AdoptAckVerbatim   the client replaces its own parameters by the  *)
(*        server's Acknowledge: it sends chunks of the server's SEND       *)
(*        buffer size, accepts chunks up to the server's RECEIVE buffer,   *)
(*        and applies the server's request limits to responses             *)
(*   Dev_ServerIgnoresHello the server answers with its fixed Acknowledge  *)
(*        and keeps its own send buffer as chunk size whatever the Hello   *)
(*        said                                                             *)
(*   Dev_NoSendLimit        no send-side message size / chunk count check  *)
(*   Dev_ServerZeroIsLimit  the server channel compares message size and   *)
(*        chunk count with its Acknowledge values literally, so 0 ("no     *)
(*        limit") refuses every message / every multi-chunk message        *)
(***************************************************************************)
EXTENDS Naturals, Sequences, FiniteSets, TLC, Json

CONSTANTS Bufs,       \* buffer sizes to choose from
          Mms, Mcs,   \* max message sizes / chunk counts to choose from (0 = unlimited)
          Lens,       \* message sizes (model checking)
          Overhead,   \* bytes of a chunk that are not message body (policy None: 24)
          DefMm, DefMc, \* what the client substitutes for a 0 in the Acknowledge (as-is only)
          Dev_AdoptAckVerbatim, Dev_ServerIgnoresHello, Dev_NoSendLimit,
          Dev_ServerZeroIsLimit,  \* the server's receive checks compare with 0 literally
          Dev_AbortLeaksChunks,   \* deviation demo: an aborted message keeps its chunks counted
          Emit

Cfg == [rb : Bufs, sb : Bufs, mm : Mms, mc : Mcs]
NoCfg == [rb |-> 0, sb |-> 0, mm |-> 0, mc |-> 0]
NoMsg == [dir |-> "-", len |-> 0, chunks |-> <<>>, sent |-> "-", recv |-> "-"]

VARIABLES ccfg, scfg,  \* configured parameters (client: dialer ClientACK, server: listener ACK)
          st,          \* "init" | "helloed" | "acked" | "open" | "dead"
          hello, ack,  \* what was on the wire
          lim,         \* effective limits of both sides (see Limits)
          msg,         \* the message in flight / last message
          buf          \* chunks of incomplete messages the receiver of each direction still holds
vars == <<ccfg, scfg, st, hello, ack, lim, msg, buf>>
NoBuf == [c2s |-> 0, s2c |-> 0]

Min(a, b) == IF a < b THEN a ELSE b
Unl(x) == x = 0                          \* 0 = unlimited
Within(x, limit) == Unl(limit) \/ x <= limit
\* chunk sizes of a message of n body bytes for chunk size cs
NChunks(n, cs) == (n + (cs - Overhead) - 1) \div (cs - Overhead)
Chunks(n, cs) == LET k == NChunks(n, cs) IN
                 [i \in 1..k |-> IF i < k THEN cs ELSE n - (k - 1) * (cs - Overhead) + Overhead]

---------------------------------------------------------------------------
\* effective limits after the handshake
\*   cs/cr  client: chunk size it sends / largest chunk it accepts
\*   ss/sr  server: the same
\*   creq   limits the client applies to requests it sends       [mm, mc]
\*   cresp  limits the client applies to responses it receives
\*   sreq   limits the server applies to requests it receives
\*   sresp  limits the server applies to responses it sends
AckOf(h, s) == IF Dev_ServerIgnoresHello THEN s
               ELSE [rb |-> Min(s.rb, h.sb), sb |-> Min(s.sb, h.rb), mm |-> s.mm, mc |-> s.mc]
Sub(x, d) == IF x = 0 THEN d ELSE x
Limits(c, s, h, a) ==
    [cs    |-> IF Dev_AdoptAckVerbatim THEN a.sb ELSE Min(c.sb, a.rb),
     cr    |-> IF Dev_AdoptAckVerbatim THEN a.rb ELSE c.rb,
     ss    |-> IF Dev_ServerIgnoresHello THEN s.sb ELSE Min(s.sb, h.rb),
     sr    |-> s.rb,
     creq  |-> [mm |-> a.mm, mc |-> a.mc],
     cresp |-> IF Dev_AdoptAckVerbatim THEN [mm |-> Sub(a.mm, DefMm), mc |-> Sub(a.mc, DefMc)]
               ELSE [mm |-> c.mm, mc |-> c.mc],
     sreq  |-> [mm |-> s.mm, mc |-> s.mc],
     sresp |-> [mm |-> h.mm, mc |-> h.mc]]
NoLim == Limits(NoCfg, NoCfg, NoCfg, NoCfg)

Init == /\ ccfg \in Cfg /\ scfg \in Cfg
        /\ st = "init" /\ hello = NoCfg /\ ack = NoCfg /\ lim = NoLim /\ msg = NoMsg /\ buf = NoBuf

Hello == /\ st = "init" /\ hello' = ccfg /\ st' = "helloed"
         /\ UNCHANGED <<ccfg, scfg, ack, lim, msg, buf>>
SrvAck == /\ st = "helloed" /\ ack' = AckOf(hello, scfg) /\ st' = "acked"
          /\ UNCHANGED <<ccfg, scfg, hello, lim, msg, buf>>
CliAdopt == /\ st = "acked" /\ lim' = Limits(ccfg, scfg, hello, ack) /\ st' = "open"
            /\ UNCHANGED <<ccfg, scfg, hello, ack, msg, buf>>

\* the sender's view: chunk size and the peer's limits for this direction
SendSize(d)  == IF d = "c2s" THEN lim.cs ELSE lim.ss
SendLim(d)   == IF d = "c2s" THEN lim.creq ELSE lim.sresp
RecvSize(d)  == IF d = "c2s" THEN lim.sr ELSE lim.cr
RecvLim(d)   == IF d = "c2s" THEN lim.sreq ELSE lim.cresp
OverLimit(n, cs, l) == ~Within(n, l.mm) \/ ~Within(NChunks(n, cs), l.mc)

SendMsg(d, n) ==
    /\ st = "open" /\ msg.sent # "wire"
    /\ IF OverLimit(n, SendSize(d), SendLim(d)) /\ ~Dev_NoSendLimit
       THEN msg' = [dir |-> d, len |-> n, chunks |-> <<>>, sent |-> "refused", recv |-> "-"]
       ELSE msg' = [dir |-> d, len |-> n, chunks |-> Chunks(n, SendSize(d)), sent |-> "wire", recv |-> "-"]
    /\ UNCHANGED <<ccfg, scfg, st, hello, ack, lim, buf>>

\* the receiver's verdict on the chunks of msg (the chunk count test of the code counts the
\* intermediate chunks: secure_channel.go:377)
Lit(d) == Dev_ServerZeroIsLimit /\ d = "c2s"
WithinR(x, limit, d) == IF Lit(d) THEN x <= limit ELSE Within(x, limit)
Verdict(m) == IF \E i \in 1..Len(m.chunks) : m.chunks[i] > RecvSize(m.dir) THEN "chunk-too-large"
              ELSE IF ~WithinR(Len(m.chunks) - 1, RecvLim(m.dir).mc, m.dir)
                      \/ (Len(m.chunks) > 1 /\ ~WithinR(buf[m.dir] + Len(m.chunks) - 1, RecvLim(m.dir).mc, m.dir))
                   THEN "too-many-chunks"
              ELSE IF ~WithinR(m.len, RecvLim(m.dir).mm, m.dir) THEN "message-too-large"
              ELSE "ok"
RecvMsg == /\ st = "open" /\ msg.sent = "wire"
           /\ msg' = [msg EXCEPT !.recv = Verdict(msg), !.sent = "done"]
           /\ st' = IF Verdict(msg) = "chunk-too-large" THEN "dead" ELSE st
           /\ UNCHANGED <<ccfg, scfg, hello, ack, lim, buf>>

\* j intermediate chunks of a message that is then aborted (only partial messages the receiver's
\* limits admit: the abort, not a limit, ends them)
AbortedMsg(d, j) ==
    /\ st = "open" /\ msg.sent # "wire"
    /\ WithinR(j, RecvLim(d).mc, d) /\ WithinR(buf[d] + j, RecvLim(d).mc, d)
    /\ buf' = IF Dev_AbortLeaksChunks THEN [buf EXCEPT ![d] = buf[d] + j] ELSE buf
    /\ UNCHANGED <<ccfg, scfg, st, hello, ack, lim, msg>>

Next == \/ Hello \/ SrvAck \/ CliAdopt \/ RecvMsg
        \/ \E d \in {"c2s", "s2c"}, n \in Lens : SendMsg(d, n)
        \/ \E d \in {"c2s", "s2c"}, j \in 1..2 : AbortedMsg(d, j) /\ buf[d] < 4
Spec == Init /\ [][Next]_vars

---------------------------------------------------------------------------
\* C06
Advertised(d) == IF d = "c2s" THEN ack.rb ELSE hello.rb          \* receive buffer the receiver advertised
MaySend(d)    == IF d = "c2s" THEN Min(ccfg.sb, ack.rb) ELSE Min(scfg.sb, hello.rb)
PeerLim(d)    == IF d = "c2s" THEN [mm |-> ack.mm, mc |-> ack.mc] ELSE [mm |-> hello.mm, mc |-> hello.mc]
Fits(m)    == \A i \in 1..Len(m.chunks) : m.chunks[i] <= Advertised(m.dir)
\* a chunk that the peer may send is never the reason for a rejection
Accepts(m) == m.recv = "chunk-too-large" => \E i \in 1..Len(m.chunks) : m.chunks[i] > MaySend(m.dir)
\* ... and a message inside everything that was negotiated (0 = no limit) is not refused at all
Allowed(m)    == /\ \A i \in 1..Len(m.chunks) : m.chunks[i] <= MaySend(m.dir)
                 /\ Within(m.len, PeerLim(m.dir).mm) /\ Within(Len(m.chunks), PeerLim(m.dir).mc)
AcceptsAll(m) == (m.recv \notin {"-", "ok"}) => ~Allowed(m)
Refuses(m) == m.chunks # <<>> => /\ Within(m.len, PeerLim(m.dir).mm)
                                 /\ Within(Len(m.chunks), PeerLim(m.dir).mc)
InvFits    == Fits(msg)
InvAccepts == Accepts(msg) /\ AcceptsAll(msg)
InvRefuse  == Refuses(msg)
\* structural form of InvAccepts: the accept limit covers everything the peer may send
InvAcceptLimit == st = "open" => /\ lim.cr >= Min(scfg.sb, hello.rb)
                                 /\ lim.sr >= Min(ccfg.sb, ack.rb)
\* an aborted message leaves nothing behind
InvAbortReleases == buf = NoBuf
InvTypes == st \in {"init", "helloed", "acked", "open", "dead"}

---------------------------------------------------------------------------
\* Scenario rows for the harness: a configuration pair and message sizes around the limits
\* that the contract derives from it (request sizes / response sizes).
CBody(cs) == cs - Overhead
BufSizes == {ccfg.rb, ccfg.sb, scfg.rb, scfg.sb}
Around(l) == {100} \cup UNION {{CBody(b), CBody(b) + 1} : b \in BufSizes}
             \cup (IF Unl(l.mm) THEN {} ELSE {l.mm, l.mm + 1})
             \cup (IF Unl(l.mc) THEN {} ELSE UNION {{l.mc * CBody(b), l.mc * CBody(b) + 1} : b \in BufSizes})
Row == [ccfg |-> ccfg, scfg |-> scfg,
        req  |-> Around([mm |-> scfg.mm, mc |-> scfg.mc]),
        resp |-> Around([mm |-> ccfg.mm, mc |-> ccfg.mc])]
InvEmit == (Emit /\ st = "init") => PrintT("ROW " \o ToJson(Row))
=============================================================================
