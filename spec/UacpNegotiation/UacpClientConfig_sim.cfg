CONSTANTS
  MaxClients = 4
  MaxOpts = 3
  Dev_SharedDefaultAck = FALSE
  Concrete = TRUE
  Emit = TRUE
  Samples = 2000
  FromFile = FALSE
INIT InitSample
NEXT Next
INVARIANT InvTypes
INVARIANT InvDefaultPristine
INVARIANT InvHelloOwn
PROPERTY InvIsolation
CHECK_DEADLOCK FALSE
INVARIANT InvEmit
