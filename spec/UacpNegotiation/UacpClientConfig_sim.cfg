CONSTANTS
  MaxClients = 4
  MaxOpts = 3
  MaxPool = 5
  Dev_SharedDefaultAck = FALSE
  Dev_OptionCapturesToken = FALSE
  Concrete = TRUE
  Family = "free"
  Emit = TRUE
  Samples = 2000
  FromFile = FALSE
INIT InitSample
NEXT Next
INVARIANT InvTypes
INVARIANT InvDefaultPristine
INVARIANT InvOwnToken
INVARIANT InvHelloOwn
PROPERTY InvIsolation
CHECK_DEADLOCK FALSE
INVARIANT InvEmit
