----------------------------- MODULE ChanTrace -----------------------------
(***************************************************************************)
(* Family T: trace validation of the repository's OWN tests.               *)
(*                                                                         *)
(* The file tracer of /repo (uasc/verif_trace.go, build tag verif,         *)
(* VERIF_TRACE) logs the chunk-level events of every secure channel of a   *)
(* test process.  checks/repotrace.py splits the events of one process     *)
(* into streams -- one (uacp connection id, side) and one direction:       *)
(*   send stream   chunk.write, open.copied, open.installed, srv.opn.end   *)
(*   recv stream   recv.chunk (= chunk passed readChunk: framing, keys,    *)
(*                 sequence check)                                         *)
(* orders each stream by the tracer's global counter "ord" and writes all  *)
(* streams of a run into one trace.ndjson (batch idiom: a "reset" record   *)
(* starts a stream, a final "reset" record ends the file).                 *)
(*                                                                         *)
(* The rules are the per-stream rules of the existing specifications, not  *)
(* new ones:                                                               *)
(*  send (spec/ScSend: ScSend.InvSeqStep / InvContiguous, evaluated on     *)
(*  32-bit numbers exactly as ScSendTrace does -- the arithmetic operators *)
(*  Num Succ Pred WrapOK StepOK are the ones of ScSendTrace, INSTANCEd):   *)
(*   S1 a chunk's number is the successor of the previous chunk's number   *)
(*      of the stream; the only other step is the Part 6 wrap (previous    *)
(*      > 2^32-1025, next < 1024)                                          *)
(*   S2 chunk i > 0 of a message directly follows chunk i-1 of the same    *)
(*      message (same req, same n); a message may stay unfinished only by  *)
(*      the abort step of ScSend (C8abort: the context ended between two   *)
(*      chunks; unlogged, hence a silent step TAbort) -- it never resumes  *)
(*   S3 a MSG/CLO chunk names a (channel, token) that was installed on     *)
(*      this channel before (open.installed on a client, srv.opn.end on a  *)
(*      server); OPN chunks are exempt.  A stream without any handshake    *)
(*      event before its first chunk belongs to a channel whose instance   *)
(*      was put in place by a unit test's fixture: the first (channel,     *)
(*      token) it uses counts as installed by the fixture.                 *)
(*   S4 (ScSend.R5) a renewal copies the counter: open.copied with         *)
(*      renew = TRUE carries the number of the last chunk of the stream;   *)
(*      a first open starts from 0 on a stream that has written nothing    *)
(*   Dev_GateGap (open finding of C11, the "stale" verdict of ScSendTrace):*)
(*      after a renewal's OPN chunk a chunk may continue the counter of    *)
(*      the superseded instance instead of the stream's (TWriteStale).     *)
(*      With Dev_GateGap = FALSE such a stream is rejected.                *)
(*  recv (spec/ScRecv: SeqFollows, StepSeqMonotone, the partial-message    *)
(*  bookkeeping of RecvF, IsWhole):                                        *)
(*   R1 every accepted number follows the last accepted one: ahead of it   *)
(*      in serial-number arithmetic, crossing 2^32 only from > 2^32-1025   *)
(*      to < 1024 (SeqFollows, restated on 16-bit halves; ChanTraceEq      *)
(*      checks the restatement against ScRecv's formula on its domain).    *)
(*      Forward gaps are legal, as in ScRecv.                              *)
(*   R2 an intermediate chunk is buffered under its request id, an abort   *)
(*      chunk discards what is buffered for its id, a final chunk          *)
(*      completes exactly the chunks buffered for its id: all of one       *)
(*      message type; when the sender of the chunks is known (the peer     *)
(*      channel runs in the same process; the glue annotates part / n /    *)
(*      msg from the peer's chunk.write events) the buffered chunks are    *)
(*      parts 1..n-1 of the final chunk's message and the final chunk is   *)
(*      part n (ScRecv.IsWhole).  Nothing stays buffered for an id when    *)
(*      another message of that id starts.                                 *)
(*                                                                         *)
(* 32-bit numbers are pairs [hi, lo] of 16-bit halves (TLC integers are    *)
(* 32 bit signed).  Channel/token pairs and request ids are renamed to     *)
(* small integers per stream by the glue (only equality matters).          *)
(*                                                                         *)
(* Acceptance: high-water mark in TLC register 1 (CONSTRAINT TMark),       *)
(* POSTCONDITION TPost; a rejected file prints ROW [stuck |-> line].       *)
(* Every finished stream prints ROW [tr, side, n, wraps, aborts, gap].   *)
(***************************************************************************)
EXTENDS Integers, Sequences, FiniteSets, TLC, Json

CONSTANT Dev_GateGap

Log == ndJsonDeserialize("trace.ndjson")

VARIABLES l,          \* next log record
          tr, side,   \* current stream: id, "send" | "recv" | "" (before the first reset)
          last,       \* last number of the stream (send: written, recv: accepted)
          open,       \* send: position in the message being written [req, i, n]
          stale,      \* send: counter of the instance superseded by the last OPN chunk
          installed,  \* send: (channel, token) names installed so far
          opened,     \* send: a handshake event was seen
          buf,        \* recv: buffered intermediate chunks, in order [req, type, part, msg]
          st          \* statistics of the stream [n, wraps, aborts, gap]
vars == <<l, tr, side, last, open, stale, installed, opened, buf, st>>

\* the arithmetic of ScSendTrace (its variables are not used here)
S == INSTANCE ScSendTrace WITH AsIs <- Dev_GateGap, l <- l, tr <- tr, last <- last, open <- open,
                               stale <- stale, verdict <- "", at <- 0, cnt <- 0
None   == S!None
NoMsg  == S!NoMsg
Num(e) == S!Num(e)

St0 == [n |-> 0, wraps |-> 0, aborts |-> 0, gap |-> 0]

Init == /\ l = 1 /\ tr = -1 /\ side = ""
        /\ last = None /\ open = NoMsg /\ stale = None
        /\ installed = {} /\ opened = FALSE /\ buf = <<>> /\ st = St0
        /\ TLCSet(1, 1)

More == l <= Len(Log)
Ev(k) == More /\ Log[l].ev = k

Row == [tr |-> tr, side |-> side, n |-> st.n, wraps |-> st.wraps, aborts |-> st.aborts, gap |-> st.gap]

\* a new stream (or the end of the file): the finished stream is reported
TReset ==
  /\ Ev("reset")
  /\ (tr >= 0) => PrintT("ROW " \o ToJson(Row))
  /\ tr' = Log[l].tr /\ side' = Log[l].side
  /\ last' = None /\ open' = NoMsg /\ stale' = None
  /\ installed' = {} /\ opened' = FALSE /\ buf' = <<>> /\ st' = St0
  /\ l' = l + 1

-----------------------------------------------------------------------------
\* send side

Whole(m)     == m.i = m.n - 1
Contig(m, e) == IF Whole(m) THEN e.i = 0 ELSE (e.req = m.req /\ e.i = m.i + 1 /\ e.n = m.n)
\* S3
TokOK(e)     == \/ e.type = "OPN"
                \/ e.ct \in installed
                \/ (~opened /\ installed = {})          \* channel instance put in place by a test fixture
MainOK(e)    == Contig(open, e) /\ S!StepOK(last, Num(e))
ViaStale(e)  == Dev_GateGap /\ stale.set /\ (Num(e) = S!Succ(stale) \/ S!WrapOK(stale, Num(e)))
IsWrap(a, b) == a.set /\ b # S!Succ(a)

TWrite ==
  /\ Ev("write") /\ side = "send"
  /\ LET e == Log[l] IN
       /\ e.i >= 0 /\ e.i < e.n
       /\ MainOK(e) /\ TokOK(e)
       /\ last' = Num(e)
       /\ open' = [req |-> e.req, i |-> e.i, n |-> e.n]
       \* a renewal's OPN chunk supersedes the instance in use: the old instance's counter stays at
       \* the previous number (ScSendTrace)
       /\ stale' = IF e.type = "OPN" THEN (IF last.set THEN last ELSE S!Pred(Num(e))) ELSE stale
       /\ installed' = IF e.type # "OPN" /\ ~opened /\ installed = {} THEN {e.ct} ELSE installed
       /\ opened' = (opened \/ e.type = "OPN")
       /\ st' = [st EXCEPT !.n = @ + 1, !.wraps = @ + (IF IsWrap(last, Num(e)) THEN 1 ELSE 0)]
  /\ l' = l + 1 /\ UNCHANGED <<tr, side, buf>>

\* Dev_GateGap: the chunk continues the counter of the superseded instance; it neither advances
\* the stream's counter nor the message that is open on the stream (ScSendTrace, verdict "stale")
TWriteStale ==
  /\ Ev("write") /\ side = "send"
  /\ LET e == Log[l] IN
       /\ ~MainOK(e) /\ ViaStale(e) /\ TokOK(e)
       /\ stale' = Num(e)
       /\ st' = [st EXCEPT !.n = @ + 1, !.gap = @ + 1]
  /\ l' = l + 1 /\ UNCHANGED <<tr, side, last, open, installed, opened, buf>>

\* ScSend.C8abort: the context ended between two chunks of a message; the numbers used stay used,
\* the message never resumes.  Not logged: a silent step, taken only when the next record starts
\* another message.
TAbort ==
  /\ Ev("write") /\ side = "send"
  /\ ~Whole(open) /\ Log[l].i = 0
  /\ open' = NoMsg
  /\ st' = [st EXCEPT !.aborts = @ + 1]
  /\ UNCHANGED <<l, tr, side, last, stale, installed, opened, buf>>

\* open.installed (client) / srv.opn.end (server)
TInstall ==
  /\ Ev("install") /\ side = "send"
  /\ installed' = installed \cup {Log[l].ct}
  /\ opened' = TRUE
  /\ l' = l + 1 /\ UNCHANGED <<tr, side, last, open, stale, buf, st>>

\* open.copied: S4
TCopied ==
  /\ Ev("copied") /\ side = "send"
  /\ LET e == Log[l] IN
       IF e.renew THEN last.set => Num(e) = last
                  ELSE ~last.set /\ e.hi = 0 /\ e.lo = 0
  /\ opened' = TRUE
  /\ l' = l + 1 /\ UNCHANGED <<tr, side, last, open, stale, installed, buf, st>>

-----------------------------------------------------------------------------
\* receive side

\* (b - a) mod 2^32 on halves
Diff(a, b) == LET lo == b.lo - a.lo
                  hi == b.hi - a.hi - (IF lo < 0 THEN 1 ELSE 0)
              IN  [hi |-> (hi + 131072) % 65536, lo |-> (lo + 65536) % 65536]
Ahead(a, b)  == LET d == Diff(a, b) IN (d.hi # 0 \/ d.lo # 0) /\ d.hi < 32768
Neg(a)       == a.hi >= 32768                      \* negative as a two's complement value
HighZone(a)  == a.hi = 65535 /\ a.lo >= 64512      \* > 4 294 966 271
LowZone(a)   == a.hi = 0 /\ a.lo < 1024
\* ScRecv.SeqFollows
SeqFollows(a, b) == \/ ~a.set
                    \/ /\ Ahead(a, b)
                       /\ (Neg(a) /\ ~Neg(b)) => (HighZone(a) /\ LowZone(b))

Of(r)    == SelectSeq(buf, LAMBDA c : c.req = r)
NotOf(r) == SelectSeq(buf, LAMBDA c : c.req # r)
\* the chunk continues what is buffered for its request id
Fits(kept, e) ==
  /\ \A i \in 1..Len(kept) : kept[i].type = e.type
  /\ (e.part > 0) =>            \* sender known: ScRecv.IsWhole on the prefix
        /\ e.part = Len(kept) + 1
        /\ \A i \in 1..Len(kept) : kept[i].msg = e.msg /\ kept[i].part = i

TRecv ==
  /\ Ev("recv") /\ side = "recv"
  /\ LET e == Log[l]
         kept == Of(e.req)
     IN /\ SeqFollows(last, Num(e))
        /\ last' = Num(e)
        /\ CASE e.kind = "C" -> /\ Fits(kept, e)
                                /\ (e.part > 0) => e.part < e.n
                                /\ buf' = Append(buf, [req |-> e.req, type |-> e.type, part |-> e.part, msg |-> e.msg])
             [] e.kind = "F" -> /\ Fits(kept, e)
                                /\ (e.part > 0) => e.part = e.n
                                /\ buf' = NotOf(e.req)
             [] e.kind = "A" -> buf' = NotOf(e.req)
        /\ st' = [st EXCEPT !.n = @ + 1, !.wraps = @ + (IF last.set /\ Neg(last) /\ ~Neg(Num(e)) THEN 1 ELSE 0)]
  /\ l' = l + 1 /\ UNCHANGED <<tr, side, open, stale, installed, opened>>

-----------------------------------------------------------------------------
Next == TReset \/ TWrite \/ TWriteStale \/ TAbort \/ TInstall \/ TCopied \/ TRecv
Spec == Init /\ [][Next]_vars

TMark == TLCSet(1, IF l > TLCGet(1) THEN l ELSE TLCGet(1))
\* accepted iff the whole file was consumed (it ends with a reset record)
TPost == \/ TLCGet(1) = Len(Log) + 1
         \/ (PrintT("ROW " \o ToJson([stuck |-> TLCGet(1)])) /\ FALSE)

\* sanity of the state (type invariant; also keeps the run a model-checking run with an invariant)
TypeOK == /\ side \in {"", "send", "recv"}
          /\ side = "recv" => (open = NoMsg /\ installed = {})
          /\ side = "send" => buf = <<>>
=============================================================================
