\* the code as it is: the open C11 finding (gate gap) is a modelled deviation
CONSTANTS Dev_GateGap = TRUE
SPECIFICATION Spec
INVARIANT TypeOK
CONSTRAINT TMark
POSTCONDITION TPost
CHECK_DEADLOCK FALSE
