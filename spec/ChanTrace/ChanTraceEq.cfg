CONSTANTS Zone = 5000
INIT Init
NEXT Next
