\* contract: a chunk on the counter of a superseded instance is rejected
CONSTANTS Dev_GateGap = FALSE
SPECIFICATION Spec
INVARIANT TypeOK
CONSTRAINT TMark
POSTCONDITION TPost
CHECK_DEADLOCK FALSE
