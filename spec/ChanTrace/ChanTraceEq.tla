---------------------------- MODULE ChanTraceEq ----------------------------
(***************************************************************************)
(* ChanTrace restates ScRecv.SeqFollows on pairs of 16-bit halves.  This   *)
(* module checks the restatement against the formula of ScRecv (quoted     *)
(* below, on two's complement values) for all pairs of numbers of ScRecv's *)
(* domain: numbers within Zone of the 2^32 wrap point, on both sides      *)
(* (all of them around 0, around the zone borders +-1024 and +-Zone, and   *)
(* every 97th in between).                                                 *)
(* (Away from the wrap point ScRecv's formula is plain "greater than";     *)
(* ChanTrace's is the same comparison modulo 2^32, which is what           *)
(* acceptSequenceNumber computes: int32(seq - last) > 0.)                  *)
(***************************************************************************)
EXTENDS Integers, TLC

CONSTANT Zone
VARIABLES l, tr, side, last, open, stale, installed, opened, buf, st
C == INSTANCE ChanTrace WITH Dev_GateGap <- FALSE

\* spec/ScRecv/ScRecv.tla, verbatim
NoneR == -99999
HighZone(s)  == s < 0 /\ s >= -1024          \* > 4 294 966 271
LowZone(s)   == s >= 0 /\ s < 1024
SeqFollows(last_, s) == \/ last_ = NoneR
                        \/ /\ s - last_ > 0
                           /\ (last_ < 0 /\ s >= 0) => (HighZone(last_) /\ LowZone(s))

\* two's complement value -> halves
U(x) == IF x >= 0 THEN [set |-> TRUE, hi |-> x \div 65536, lo |-> x % 65536]
        ELSE [set |-> TRUE, hi |-> 65535 - ((-x - 1) \div 65536), lo |-> 65535 - ((-x - 1) % 65536)]

Dom == {x \in (-Zone)..Zone : x < 100 - Zone \/ x > Zone - 100 \/ (x > -1100 /\ x < -950) \/ (x > 950 /\ x < 1100) \/ (x > -60 /\ x < 60) \/ x % 97 = 0}
ASSUME \A a \in Dom : \A b \in Dom : SeqFollows(a, b) = C!SeqFollows(U(a), U(b))
ASSUME \A b \in Dom : C!SeqFollows(C!None, U(b))
\* mid-range: plain order, also across 2^31 (where the two's complement value changes sign)
ASSUME \A d \in 1..5 : /\ C!SeqFollows([set |-> TRUE, hi |-> 32767, lo |-> 65535], [set |-> TRUE, hi |-> 32768, lo |-> d - 1])
                       /\ ~C!SeqFollows([set |-> TRUE, hi |-> 32768, lo |-> d - 1], [set |-> TRUE, hi |-> 32767, lo |-> 65535])
                       /\ C!SeqFollows([set |-> TRUE, hi |-> 7, lo |-> 65535], [set |-> TRUE, hi |-> 8, lo |-> d])
                       /\ ~C!SeqFollows([set |-> TRUE, hi |-> 8, lo |-> d], [set |-> TRUE, hi |-> 8, lo |-> d])
\* crossing 2^32 from outside the zones is refused although the number is "ahead"
ASSUME ~C!SeqFollows([set |-> TRUE, hi |-> 65535, lo |-> 60000], [set |-> TRUE, hi |-> 0, lo |-> 5])
ASSUME ~C!SeqFollows([set |-> TRUE, hi |-> 65535, lo |-> 65535], [set |-> TRUE, hi |-> 0, lo |-> 1024])
ASSUME C!SeqFollows([set |-> TRUE, hi |-> 65535, lo |-> 64512], [set |-> TRUE, hi |-> 0, lo |-> 1023])

Init == /\ l = 1 /\ tr = 0 /\ side = "" /\ last = 0 /\ open = 0 /\ stale = 0 /\ installed = {} /\ opened = FALSE /\ buf = <<>> /\ st = 0
Next == UNCHANGED <<l, tr, side, last, open, stale, installed, opened, buf, st>>
=============================================================================
