CONSTANTS
  MaxFrames = 1
  MaxBody = 2
  FreeSeg = TRUE
  MaxCuts = 0
  Emit = FALSE
  Samples = 0
  Concrete = FALSE
  Bug = "ge"
INIT Init
NEXT Next
INVARIANT InvTypes
INVARIANT InvPrefix
INVARIANT InvNoPartial
INVARIANT InvBadIsError
INVARIANT InvPrompt
INVARIANT InvOutcome
CHECK_DEADLOCK FALSE
