CONSTANTS
  MaxFrames = 2
  MaxBody = 3
  FreeSeg = FALSE
  MaxCuts = 1
  Emit = TRUE
  Samples = 0
  Concrete = TRUE
  Bug = "none"
INIT Init
NEXT Next
INVARIANT InvTypes
INVARIANT InvPrefix
INVARIANT InvNoPartial
INVARIANT InvBadIsError
INVARIANT InvPrompt
INVARIANT InvOutcome
CHECK_DEADLOCK FALSE
INVARIANT InvEmit
