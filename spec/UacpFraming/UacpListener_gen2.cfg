CONSTANTS
  NConn = 2
  Dev_HandshakeWritesListenerAck = FALSE
  Emit = TRUE
  Samples = 0
INIT Init
NEXT Next
INVARIANT InvTypes
INVARIANT InvListenerAck
INVARIANT InvVerdict
INVARIANT InvAck
CHECK_DEADLOCK FALSE
INVARIANT InvEmit
