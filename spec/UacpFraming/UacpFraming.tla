---------------------------- MODULE UacpFraming ----------------------------
(***************************************************************************)
(* C05 -- UACP framing: uacp.Conn.Receive over a TCP byte stream.          *)
(*                                                                         *)
(* The peer writes a list of frames (8 byte header = type, chunk type,     *)
(* declared size; then the body) into a byte stream.  The network hands    *)
(* the stream to the receiving socket in segments of arbitrary length      *)
(* (action Segment: this is the segmentation quantifier of the property).  *)
(* The receiver is modelled as uacp/conn.go Receive is written:            *)
(*   ReadHeader   io.ReadFull of 8 bytes          (conn.go:364)            *)
(*   RejectLarge  size > receive buffer  -> error (conn.go:375)            *)
(*   RejectSmall  size < 8               -> error (conn.go:378)            *)
(*   ReadBody     io.ReadFull of size-8 bytes     (conn.go:382)            *)
(*                then ERR frames are decoded and returned as an error     *)
(*                value (conn.go:390), everything else is returned whole   *)
(*   HdrEOF/BodyEOF  the peer closed before the read was satisfied         *)
(* The caller loop (harness protocol, also part of the model): Receive is  *)
(* called again after a frame or a decoded ERR frame, and no more after    *)
(* any other error (rstate = "Dead").                                      *)
(*                                                                         *)
(* The stream is abstract: a unit is one header byte or one block of body  *)
(* bytes; the abstract receive buffer is Hdr + MaxBody units, so a frame   *)
(* with MaxBody body units is a frame of exactly the negotiated buffer     *)
(* size.  The harness concretises units to bytes (fill classes).           *)
(*                                                                         *)
(* Contract (Expected / Conforms): the results of the Receive calls are    *)
(* the frames before the first malformed one, in order and whole; a frame  *)
(* with declared size < 8 or > buffer gives an error; a frame is never     *)
(* delivered before all of it arrived.  For unknown message types the      *)
(* property text leaves open whether they are delivered or refused: both   *)
(* are accepted (but never a partial frame, panic or hang).                *)
(***************************************************************************)
EXTENDS Naturals, Sequences, FiniteSets, FiniteSetsExt, Randomization, TLC, Json

CONSTANTS MaxFrames,  \* longest frame list
          MaxBody,    \* abstract receive buffer = Hdr + MaxBody units (>= 2)
          FreeSeg,    \* TRUE: any segmentation, any interleaving (exhaustive model)
                      \* FALSE: segmentation = the cut set chosen in Init, receiver runs
                      \*        until it blocks after every segment (one behaviour per
                      \*        initial state = one replay case)
          MaxCuts,    \* behaviour generation: cut sets with at most MaxCuts cuts (+ "every unit")
          Emit,       \* print one BEH row per finished behaviour
          Samples,    \* InitSample: number of seeded random behaviours
          Bug,        \* "none" = the code as written; other values = deviation demos
          Concrete    \* TRUE: all concretisation variants of a frame (fill classes) are distinct
                      \* frames (behaviour generation); FALSE: one representative (model checking:
                      \* the variants are indistinguishable for the receiver model)

Hdr == 8
Buf == Hdr + MaxBody

---------------------------------------------------------------------------
\* Frames.  t = message type class, k = kind, d = declared size (abstract units),
\* have = units of this frame present in the stream, fill = how units become bytes.
Frm(t, k, d, have, fill) == [t |-> t, k |-> k, d |-> d, have |-> have, fill |-> fill]
\* "gray": after an asymmetric Hello/Acknowledge the two sides' buffer sizes differ; a frame
\* whose size lies between them is within one candidate for "the negotiated receive buffer"
\* and above the other (which one is right is C06's question): here it may be delivered whole
\* or refused, but never panic, hang or be delivered partially.
FillsOf(n)  == IF n = 0 THEN {"none"}
               ELSE IF n = MaxBody THEN (IF Concrete THEN {"full", "gray"} ELSE {"full"})
               ELSE IF Concrete THEN {"tiny", "mid"} ELSE {"mid"}
OkFrames    == UNION {{Frm(t, "ok", Hdr + n, Hdr + n, fl) : t \in {"MSG", "XYZ"}, fl \in FillsOf(n)}
                      : n \in 0..MaxBody}
ErrFrames   == {Frm("ERR", "ok", Hdr + n, Hdr + n, "err") : n \in 1..2}
GoodFrames  == OkFrames \cup ErrFrames
SmallSizes  == IF Concrete THEN 0..(Hdr - 1) ELSE {0, Hdr - 1}
SmallFrames == {Frm("MSG", "small", d, Hdr + j, "junk") : d \in SmallSizes, j \in 0..1}
LargeFrames == {Frm("MSG", "large", Buf + 1, Hdr + j, v) : j \in 0..1,
                                                              v \in IF Concrete THEN {"p1", "big", "max"} ELSE {"p1"}}
ErrBad      == {Frm("ERR", "errbad", Hdr + 1, Hdr + 1, "short")}
\* a well-formed header whose frame is cut off by the peer closing the connection
TruncFrames == UNION {{Frm("MSG", "trunc", d, h, "mid") : h \in 1..(d - 1)} : d \in (Hdr + 1)..Buf}
BadFrames   == SmallFrames \cup LargeFrames \cup ErrBad \cup TruncFrames
AllFrames   == GoodFrames \cup BadFrames

SeqsUpTo(S, n) == UNION {[1..m -> S] : m \in 0..n}
\* only the last frame may be malformed: nothing is demanded after the first error
FrameLists  == {g \o <<f>> : g \in SeqsUpTo(GoodFrames, MaxFrames - 1), f \in AllFrames}

VARIABLES sent,    \* the frame list the peer writes
          close,   \* TRUE: the peer closes (FIN) after the last byte
          cuts,    \* ~FreeSeg: positions (1..SLen-1) after which a TCP segment ends
          netpos,  \* units handed to the receiving socket so far
          closed,  \* FIN arrived
          rpos,    \* units consumed by the receiver
          rstate,  \* "Hdr" | "Chk" | "Body" | "Dead"
          cur,     \* index of the frame whose header was read
          res,     \* results of the Receive calls so far
          prog     \* ~FreeSeg: prog[j] = Len(res) when segment j is handed over
vars == <<sent, close, cuts, netpos, closed, rpos, rstate, cur, res, prog>>

RECURSIVE SumHave(_, _)
SumHave(s, n) == IF n = 0 THEN 0 ELSE SumHave(s, n - 1) + s[n].have
SLen(s)      == SumHave(s, Len(s))
Start(s, i)  == SumHave(s, i - 1)            \* units before frame i
FrameAt(s, p) == CHOOSE i \in 1..Len(s) : Start(s, i) = p

Res(r, i) == [r |-> r, i |-> i]

---------------------------------------------------------------------------
\* The contract
FirstBad(s) == IF \E i \in 1..Len(s) : s[i].k # "ok"
               THEN CHOOSE i \in 1..Len(s) : s[i].k # "ok" /\ \A j \in 1..(i - 1) : s[j].k = "ok"
               ELSE Len(s) + 1
ExpGood(s)  == [i \in 1..(FirstBad(s) - 1) |->
                  IF s[i].t = "ERR" THEN Res("uaerr", i) ELSE Res("frame", i)]
\* what the Receive calls return once the whole stream (and the FIN) arrived
Expected(s, cl) == ExpGood(s) \o (IF FirstBad(s) <= Len(s) \/ cl THEN <<Res("error", 0)>> ELSE <<>>)
\* an unknown message type may be refused instead of delivered
Optional(s, j)  == j < FirstBad(s) /\ (s[j].t = "XYZ" \/ s[j].fill = "gray")
Conforms(r, s, cl) ==
    LET E == Expected(s, cl) IN
    \/ r = E
    \/ /\ Len(r) >= 1 /\ Len(r) <= Len(E) /\ Optional(s, Len(r))
       /\ r = SubSeq(E, 1, Len(r) - 1) \o <<Res("error", 0)>>
PrefixConforms(r, s, cl) ==
    LET E == Expected(s, cl) IN
    /\ Len(r) <= Len(E)
    /\ \A j \in 1..Len(r) : \/ r[j] = E[j]
                            \/ r[j] = Res("error", 0) /\ j = Len(r) /\ Optional(s, j)

---------------------------------------------------------------------------
\* Initial states
TypeOKInit == /\ netpos = 0 /\ closed = FALSE /\ rpos = 0 /\ rstate = "Hdr" /\ cur = 0
              /\ res = <<>> /\ prog = <<>>
NeedsClose(s) == s[Len(s)].k = "trunc"
AllCuts(n)  == 1..(n - 1)
RECURSIVE SubsUpTo(_, _)
SubsUpTo(k, S) == IF k = 0 THEN {{}}
                  ELSE SubsUpTo(k - 1, S) \cup {T \cup {x} : T \in SubsUpTo(k - 1, S), x \in S}
CutSets(n)  == SubsUpTo(MaxCuts, AllCuts(n)) \cup {AllCuts(n)}

Init == /\ sent \in FrameLists
        /\ close \in BOOLEAN
        /\ NeedsClose(sent) => close
        /\ cuts \in (IF FreeSeg THEN {{}} ELSE CutSets(SLen(sent)))
        /\ TypeOKInit

Min2(a, b) == IF a < b THEN a ELSE b
\* seeded samples of longer lists / more cuts (TLC's RandomElement, -seed)
InitSample ==
    /\ \E k \in 1..Samples : \E n \in 1..MaxFrames :
          sent = [i \in 1..n |-> IF i < n THEN RandomElement(GoodFrames)
                                 ELSE RandomElement(IF k % 3 = 0 THEN GoodFrames ELSE AllFrames)]
    /\ close = (NeedsClose(sent) \/ RandomElement(BOOLEAN))
    /\ cuts = (IF RandomElement(1..5) = 1 THEN AllCuts(SLen(sent))
               ELSE RandomSubset(Min2(RandomElement(0..MaxCuts), SLen(sent) - 1), AllCuts(SLen(sent))))
    /\ TypeOKInit

---------------------------------------------------------------------------
\* Receiver = uacp.Conn.Receive in the caller loop
Avail == netpos - rpos
F     == sent[cur]
TooLarge(d) == IF Bug = "ge" THEN d >= Buf ELSE IF Bug = "nolarge" THEN FALSE ELSE d > Buf
TooSmall(d) == IF Bug = "le" THEN d <= Hdr ELSE d < Hdr
Need  == F.d - Hdr

CanReadHeader == rstate = "Hdr" /\ rpos < SLen(sent) /\ Avail >= Hdr
ReadHeader == /\ CanReadHeader
              /\ cur' = FrameAt(sent, rpos)
              /\ rpos' = rpos + Hdr
              /\ rstate' = "Chk"
              /\ UNCHANGED <<res>>

CanHdrEOF == rstate = "Hdr" /\ closed /\ Avail < Hdr
HdrEOF == /\ CanHdrEOF
          /\ rpos' = netpos /\ rstate' = "Dead" /\ res' = Append(res, Res("error", 0))
          /\ UNCHANGED cur

RejectLarge == /\ rstate = "Chk" /\ TooLarge(F.d)
               /\ rstate' = "Dead" /\ res' = Append(res, Res("error", 0))
               /\ UNCHANGED <<rpos, cur>>
RejectSmall == /\ rstate = "Chk" /\ ~TooLarge(F.d) /\ TooSmall(F.d)
               /\ rstate' = "Dead" /\ res' = Append(res, Res("error", 0))
               /\ UNCHANGED <<rpos, cur>>
\* deviation demo "nolarge": slicing b[8:size] beyond the buffer panics
PanicLarge  == /\ Bug = "nolarge" /\ rstate = "Chk" /\ F.d > Buf
               /\ rstate' = "Dead" /\ res' = Append(res, Res("panic", 0))
               /\ UNCHANGED <<rpos, cur>>
Accept      == /\ rstate = "Chk" /\ ~TooLarge(F.d) /\ ~TooSmall(F.d) /\ ~(Bug = "nolarge" /\ F.d > Buf)
               /\ rstate' = "Body" /\ UNCHANGED <<rpos, cur, res>>

Outcome == IF F.t = "ERR"
           THEN (IF F.k = "errbad" THEN Res("error", 0)
                 ELSE IF Bug = "swallowerr" THEN Res("frame", cur) ELSE Res("uaerr", cur))
           ELSE Res("frame", cur)
CanReadBody == rstate = "Body" /\ Avail >= Need
ReadBody == /\ CanReadBody
            /\ rpos' = rpos + Need
            /\ res' = Append(res, Outcome)
            /\ rstate' = IF Outcome.r = "error" THEN "Dead" ELSE "Hdr"
            /\ UNCHANGED cur
\* deviation demo "readnotfull": a single Read instead of io.ReadFull returns what is there
ReadPartial == /\ Bug = "readnotfull" /\ rstate = "Body" /\ Avail >= 1 /\ Avail < Need
               /\ rpos' = netpos
               /\ res' = Append(res, Res("frame", cur))
               /\ rstate' = "Dead" /\ UNCHANGED cur
CanBodyEOF == rstate = "Body" /\ closed /\ Avail < Need
BodyEOF == /\ CanBodyEOF
           /\ rpos' = netpos /\ rstate' = "Dead" /\ res' = Append(res, Res("error", 0))
           /\ UNCHANGED cur

RecvStep == ReadHeader \/ HdrEOF \/ RejectLarge \/ RejectSmall \/ PanicLarge \/ Accept
            \/ ReadBody \/ ReadPartial \/ BodyEOF
RecvEnabled == \/ CanReadHeader \/ CanHdrEOF \/ rstate = "Chk" \/ CanReadBody \/ CanBodyEOF
               \/ (Bug = "readnotfull" /\ rstate = "Body" /\ Avail >= 1)
Recv == RecvStep /\ UNCHANGED <<sent, close, cuts, netpos, closed, prog>>

---------------------------------------------------------------------------
\* Network
NextCut == IF \E c \in cuts : c > netpos
           THEN CHOOSE c \in cuts : c > netpos /\ \A e \in cuts : e > netpos => c <= e
           ELSE SLen(sent)
Segment(k) == /\ netpos + k <= SLen(sent)
              /\ FreeSeg \/ (netpos + k = NextCut /\ ~RecvEnabled)
              /\ netpos' = netpos + k
              /\ prog' = IF FreeSeg THEN prog ELSE Append(prog, Len(res))
              /\ UNCHANGED <<sent, close, cuts, closed, rpos, rstate, cur, res>>
PeerClose == /\ close /\ ~closed /\ netpos = SLen(sent)
             /\ FreeSeg \/ ~RecvEnabled
             /\ closed' = TRUE
             /\ prog' = IF FreeSeg THEN prog ELSE Append(prog, Len(res))
             /\ UNCHANGED <<sent, close, cuts, netpos, rpos, rstate, cur, res>>

Next == Recv \/ PeerClose \/ \E k \in 1..(MaxFrames * (Buf + 1)) : Segment(k)
Spec == Init /\ [][Next]_vars /\ WF_vars(Next)

---------------------------------------------------------------------------
\* Properties
Quiescent == netpos = SLen(sent) /\ (close => closed) /\ ~RecvEnabled

FrameEnd(i) == Start(sent, i) + sent[i].have
\* delivered = prefix of sent before the first malformed frame, in order
InvPrefix     == PrefixConforms(res, sent, close)
\* nothing of a frame is delivered before all of it arrived
InvNoPartial  == \A j \in 1..Len(res) : res[j].r \in {"frame", "uaerr"} => FrameEnd(res[j].i) <= netpos
\* size < 8 or > buffer (and anything else malformed) is an error: never delivered, never a panic
InvBadIsError == \A j \in 1..Len(res) : /\ res[j].r \in {"frame", "uaerr", "error"}
                                        /\ res[j].r \in {"frame", "uaerr"} => sent[res[j].i].k = "ok"
\* the error for a malformed size does not wait for more bytes than the header
InvPrompt     == (rstate = "Body") => (F.d >= Hdr /\ F.d <= Buf)
\* once everything arrived, the results are exactly the contract's
InvOutcome    == Quiescent => Conforms(res, sent, close)
InvTypes      == /\ rpos <= netpos /\ netpos <= SLen(sent)
                 /\ rstate \in {"Hdr", "Chk", "Body", "Dead"}
\* no hang: every behaviour reaches the quiescent state
Live          == <>Quiescent

\* replay row: inputs, segmentation, and the oracle computed from the contract
ExpRow == [j \in 1..Len(Expected(sent, close)) |->
             [r |-> Expected(sent, close)[j].r, i |-> Expected(sent, close)[j].i,
              opt |-> Optional(sent, j)]]
Row == [sent |-> sent, close |-> close, cuts |-> cuts, exp |-> ExpRow, prog |-> prog]
InvEmit == (Emit /\ Quiescent) => PrintT("BEH " \o ToJson(Row))
=============================================================================
