CONSTANTS
  MaxFrames = 2
  MaxBody = 3
  FreeSeg = TRUE
  MaxCuts = 0
  Emit = FALSE
  Samples = 0
  Concrete = FALSE
  Bug = "none"
INIT Init
NEXT Next
INVARIANT InvTypes
INVARIANT InvPrefix
INVARIANT InvNoPartial
INVARIANT InvBadIsError
INVARIANT InvPrompt
INVARIANT InvOutcome
CHECK_DEADLOCK FALSE
