CONSTANTS
  MaxFrames = 2
  MaxBody = 2
  FreeSeg = TRUE
  MaxCuts = 0
  Emit = FALSE
  Samples = 0
  Concrete = FALSE
  Bug = "none"
SPECIFICATION Spec
PROPERTY Live
CHECK_DEADLOCK FALSE
