--------------------------- MODULE UacpListener ---------------------------
(***************************************************************************)
(* C05, second model: several connections accepted by ONE uacp.Listener.   *)
(*                                                                         *)
(* uacp.Listen keeps the configured Acknowledge as one object (Listener.   *)
(* ack); Accept gives every connection a pointer to that same object       *)
(* (conn.go:153) and Receive reads the receive buffer size through it on   *)
(* every call (conn.go:362,375).  The object therefore has identity here   *)
(* (variable lack): it is shared by design, and the property holds only    *)
(* because no connection ever writes through it.                           *)
(*                                                                         *)
(*   Accept(c)   the server side of the Hello/Acknowledge exchange of      *)
(*               connection c (srvhandshake): reads the client's Hello     *)
(*               (buffer size hb[c]) and answers with the Acknowledge      *)
(*               Dev_HandshakeWritesListenerAck: the answer is capped to   *)
(*               the Hello's sizes IN the listener's object                *)
(*   Frame(c,s)  a frame of size s arrives on connection c and Receive is  *)
(*               called: delivered iff s <= the size read through lack     *)
(*                                                                         *)
(* Sizes are abstract: S = 2 < L = 4 < B = 6 (a small client, the          *)
(* listener's configured size, a big client), frames 1 (tiny), 3 (between  *)
(* S and L), 4 (= L), 5 (> L).                                             *)
(*                                                                         *)
(* Contract per connection (depends on nothing but the listener's          *)
(* configuration and that connection's own Hello):                         *)
(*   size <= min(L, hb[c])  must be delivered                              *)
(*   size >  L              must be an error                               *)
(*   in between             either (which of the two is the negotiated     *)
(*                          buffer is C06's question)                      *)
(* and the Acknowledge a client receives carries L or min(L, its own       *)
(* Hello size) -- never something another client caused.                   *)
(***************************************************************************)
EXTENDS Naturals, Sequences, FiniteSets, TLC, Json

CONSTANTS NConn,      \* connections per program
          Dev_HandshakeWritesListenerAck,
          Emit, Samples

S == 2
L == 4
B == 6
HelloSizes == {S, L, B}
RoundSizes == {1, 3, 4}       \* frame sizes that can be delivered; 5 is sent once at the end
Min(a, b) == IF a < b THEN a ELSE b

VARIABLES hb,     \* program: Hello buffer size of connection c (accepted in the order 1..NConn)
          rs,     \* program: frame size of round r (after the r-th accept every open connection gets one)
          lack,   \* the listener's Acknowledge object (its buffer size)
          open,   \* connections accepted so far (count)
          dead,   \* connections on which Receive returned an error
          pc,     \* "accept" | "frames" | "final" | "done"
          fc,     \* next connection to get a frame in the current round
          hist    \* steps with the contract's expectation
vars == <<hb, rs, lack, open, dead, pc, fc, hist>>

Must(c, sz) == IF sz <= Min(L, hb[c]) THEN "deliver" ELSE IF sz > L THEN "error" ELSE "either"
AckOk(c, a) == a \in {L, Min(L, hb[c])}

Init0 == /\ lack = L /\ open = 0 /\ dead = {} /\ pc = "accept" /\ fc = 1 /\ hist = <<>>
Init == /\ hb \in [1..NConn -> HelloSizes] /\ rs \in [1..NConn -> RoundSizes] /\ Init0
InitSample == /\ \E k \in 1..Samples : /\ hb = [c \in 1..NConn |-> RandomElement(HelloSizes)]
                                        /\ rs = [c \in 1..NConn |-> RandomElement(RoundSizes)]
              /\ Init0

Accept == /\ pc = "accept" /\ open < NConn
          /\ LET c == open + 1
                 sent == IF Dev_HandshakeWritesListenerAck THEN Min(lack, hb[c]) ELSE lack IN
             /\ lack' = sent                                  \* contract: unchanged
             /\ hist' = Append(hist, [op |-> "accept", c |-> c, hb |-> hb[c], ack |-> sent,
                                      ackok |-> {L, Min(L, hb[c])}])
          /\ open' = open + 1 /\ pc' = "frames" /\ fc' = 1
          /\ UNCHANGED <<hb, rs, dead>>

\* one frame on connection fc (skipped when that connection is dead)
Deliver(c, sz) == IF c \in dead THEN /\ UNCHANGED <<dead, hist>>
                  ELSE LET res == IF sz <= lack THEN "deliver" ELSE "error" IN
                       /\ dead' = IF res = "error" THEN dead \cup {c} ELSE dead
                       /\ hist' = Append(hist, [op |-> "frame", c |-> c, sz |-> sz, must |-> Must(c, sz), res |-> res])
Frame == /\ pc = "frames" /\ fc <= open
         /\ Deliver(fc, rs[open])
         /\ fc' = fc + 1 /\ UNCHANGED <<hb, rs, lack, open, pc>>
NextRound == /\ pc = "frames" /\ fc > open
             /\ pc' = (IF open < NConn THEN "accept" ELSE "final") /\ fc' = 1
             /\ UNCHANGED <<hb, rs, lack, open, dead, hist>>
\* last round: a frame above the listener's size on every connection
Final == /\ pc = "final" /\ fc <= open
         /\ Deliver(fc, 5)
         /\ fc' = fc + 1 /\ UNCHANGED <<hb, rs, lack, open, pc>>
Finish == /\ pc = "final" /\ fc > open /\ pc' = "done"
          /\ UNCHANGED <<hb, rs, lack, open, dead, fc, hist>>

Next == Accept \/ Frame \/ NextRound \/ Final \/ Finish
Spec == Init /\ [][Next]_vars

---------------------------------------------------------------------------
\* no connection writes through the listener's object
InvListenerAck == lack = L
\* every verdict is the one the contract allows for that connection alone
InvVerdict == \A i \in 1..Len(hist) : hist[i].op = "frame" =>
                 (hist[i].must = "either" \/ hist[i].must = hist[i].res)
\* every client is answered with the listener's sizes (or those capped by its own Hello)
InvAck == \A i \in 1..Len(hist) : hist[i].op = "accept" => hist[i].ack \in hist[i].ackok
InvTypes == open \in 0..NConn /\ dead \subseteq 1..NConn

Row == [hb |-> hb, rs |-> rs, steps |-> hist]
InvEmit == (Emit /\ pc = "done") => PrintT("BEH " \o ToJson(Row))
=============================================================================
