CONSTANTS
  MaxFrames = 3
  MaxBody = 3
  FreeSeg = FALSE
  MaxCuts = 4
  Emit = TRUE
  Samples = 600
  Concrete = TRUE
  Bug = "none"
INIT InitSample
NEXT Next
INVARIANT InvTypes
INVARIANT InvPrefix
INVARIANT InvNoPartial
INVARIANT InvBadIsError
INVARIANT InvPrompt
INVARIANT InvOutcome
CHECK_DEADLOCK FALSE
INVARIANT InvEmit
