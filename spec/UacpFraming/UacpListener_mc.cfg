CONSTANTS
  NConn = 3
  Dev_HandshakeWritesListenerAck = FALSE
  Emit = FALSE
  Samples = 0
INIT Init
NEXT Next
INVARIANT InvTypes
INVARIANT InvListenerAck
INVARIANT InvVerdict
INVARIANT InvAck
CHECK_DEADLOCK FALSE
