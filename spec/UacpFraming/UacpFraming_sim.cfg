CONSTANTS
  MaxFrames = 4
  MaxBody = 3
  FreeSeg = FALSE
  MaxCuts = 6
  Emit = TRUE
  Samples = 8000
  Concrete = TRUE
  Bug = "none"
INIT InitSample
NEXT Next
INVARIANT InvTypes
INVARIANT InvPrefix
INVARIANT InvNoPartial
INVARIANT InvBadIsError
INVARIANT InvPrompt
INVARIANT InvOutcome
CHECK_DEADLOCK FALSE
INVARIANT InvEmit
