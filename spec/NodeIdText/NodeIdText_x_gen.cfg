CONSTANTS
  Alphabet = {";", "=", "n", "s", "i", "g", "b", "1", "a", "~", " "}
  MaxLen = 3
  PairLen = 1
  Namespaces = {0, 1, 255, 256, 65535}
  NBlobs = 8
  NGuids = 4
  NUris = 4
  MaxTable = 3
  Dev_SplitFirstSemicolon = FALSE
  Dev_EqualIgnoresKind = FALSE
  Emit = TRUE
INIT InitExpanded
NEXT Next
INVARIANT InvExpanded
INVARIANT InvEmit
CHECK_DEADLOCK FALSE
