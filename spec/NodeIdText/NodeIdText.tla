----------------------------- MODULE NodeIdText -----------------------------
(***************************************************************************)
(* C04 -- textual form of NodeIDs (ua/node_id.go String/Equal,             *)
(* ua/expanded_node_id.go ParseExpandedNodeID, ua/typereg.go).             *)
(*                                                                         *)
(* Texts are sequences of one-character strings; three kinds of atomic     *)
(* "blob" tokens stand for text that never contains ';' and that the       *)
(* harness renders with trusted primitives:                                *)
(*    "B<k>"  base64 of the k-th opaque identifier,                        *)
(*    "G<k>"  canonical GUID text of the k-th GUID,                        *)
(*    "U<k>"  the k-th namespace URI.                                      *)
(* The character "~" stands for the byte 0xFF (not valid UTF-8).           *)
(* Numbers are digit sequences (TLC integers are 32 bit, ids are not).     *)
(*                                                                         *)
(* Format  -- the rendering documented at ParseNodeID:                     *)
(*            [ns=<n>;]<t>=<identifier>,  ns omitted for namespace 0.      *)
(* Parse   -- the documented grammar read left to right: an optional       *)
(*            "ns=<digits>;" / "nsu=<uri>;" prefix, then "<t>=" and the    *)
(*            identifier, which extends to the end of the text.            *)
(*            Dev_SplitFirstSemicolon models the implementation: split at  *)
(*            the first ';' wherever it is, before looking at the prefix.  *)
(* Properties (checked by TLC over every node / pair / expanded case):     *)
(*    InvRoundTrip  Parse(Format(n)) = Canon(n)                            *)
(*    InvEqual      Format(a) = Format(b)  <=>  Canon(a) = Canon(b)        *)
(*                  (Equal is implemented as equality of String())         *)
(*    InvExpanded   "nsu=<uri>;<id>" resolves to the first index of uri    *)
(*                  in the namespace table, error iff uri is not there.    *)
(* Every TLC state is printed as a row and replayed on the real package.   *)
(***************************************************************************)
EXTENDS Integers, Sequences, FiniteSets, TLC, Json

CONSTANTS Alphabet,      \* characters of string identifiers
          MaxLen,        \* longest string identifier (nodes)
          PairLen,       \* longest string identifier (pairs)
          Namespaces,    \* namespace indexes
          NBlobs,        \* opaque identifiers B0..B(NBlobs-1)
          NGuids,        \* GUIDs G0..G(NGuids-1)
          NUris,         \* URIs U0..U(NUris-1)
          MaxTable,      \* longest namespace table
          Dev_SplitFirstSemicolon,
          Dev_EqualIgnoresKind,      \* demo only: Equal compares namespace and raw id only
          Emit

Digit == <<"0", "1", "2", "3", "4", "5", "6", "7", "8", "9">>
DigitSet == {Digit[i] : i \in 1..10}
DigitVal(c) == CHOOSE d \in 0..9 : Digit[d + 1] = c

RECURSIVE Digits(_)
Digits(n) == IF n < 10 THEN <<Digit[n + 1]>> ELSE Digits(n \div 10) \o <<Digit[(n % 10) + 1]>>

\* numeric identifiers as canonical digit sequences (encoding boundaries)
NumIds == { <<"0">>, <<"1">>, <<"2","5","5">>, <<"2","5","6">>,
            <<"6","5","5","3","4">>, <<"6","5","5","3","5">>, <<"6","5","5","3","6">>,
            <<"2","1","4","7","4","8","3","6","4","8">>, <<"4","2","9","4","9","6","7","2","9","5">> }

RECURSIVE LexLess(_, _)
LexLess(a, b) == IF a = <<>> THEN FALSE
                 ELSE IF DigitVal(a[1]) # DigitVal(b[1]) THEN DigitVal(a[1]) < DigitVal(b[1])
                 ELSE LexLess(Tail(a), Tail(b))
NumLess(a, b) == Len(a) < Len(b) \/ (Len(a) = Len(b) /\ LexLess(a, b))
NumLeq(a, b)  == a = b \/ NumLess(a, b)
N255   == <<"2","5","5">>
N65535 == <<"6","5","5","3","5">>
NMax32 == <<"4","2","9","4","9","6","7","2","9","5">>

Strs(n) == UNION {[1..k -> Alphabet] : k \in 0..n}
Blob(p, k) == p \o ToString(k)
Blobs == {Blob("B", k) : k \in 0..(NBlobs - 1)}
Guids == {Blob("G", k) : k \in 0..(NGuids - 1)}
Uris  == {Blob("U", k) : k \in 0..(NUris - 1)}

---------------------------------------------------------------------------
\* Nodes: the six encodings.  id is a digit sequence (two/four/num), a character
\* sequence (str) or a one-element sequence holding a blob name (guid, bytes).
NodesWith(L) ==
       {[k |-> "two",  ns |-> 0,  id |-> i] : i \in {x \in NumIds : NumLeq(x, N255)}}
  \cup {[k |-> "four", ns |-> n,  id |-> i] : n \in {m \in Namespaces : m < 256}, i \in {x \in NumIds : NumLeq(x, N65535)}}
  \cup {[k |-> "num",  ns |-> n,  id |-> i] : n \in Namespaces, i \in NumIds}
  \cup {[k |-> "str",  ns |-> n,  id |-> s] : n \in Namespaces, s \in Strs(L)}
  \cup {[k |-> "guid", ns |-> n,  id |-> <<g>>] : n \in Namespaces, g \in Guids}
  \cup {[k |-> "bytes", ns |-> n, id |-> <<b>>] : n \in Namespaces, b \in Blobs}

\* identity of a node: namespace, identifier type class, identifier
Class(k) == IF k \in {"two", "four", "num"} THEN "num" ELSE k
Canon(n) == [ns |-> n.ns, k |-> Class(n.k), id |-> n.id]

TypeChar(k) == CASE k = "num" -> "i" [] k = "str" -> "s" [] k = "guid" -> "g" [] k = "bytes" -> "b"

\* Format depends on Canon(n) only
FormatC(c) == (IF c.ns = 0 THEN <<>> ELSE <<"n", "s", "=">> \o Digits(c.ns) \o <<";">>)
              \o <<TypeChar(c.k), "=">>
              \o c.id
Format(n) == FormatC(Canon(n))

---------------------------------------------------------------------------
\* Parsing
Err == [ok |-> FALSE]
NoTable == <<>>       \* ParseNodeID passes no namespace array: every nsu= is an error
StartsWith(t, p) == Len(t) >= Len(p) /\ SubSeq(t, 1, Len(p)) = p
Drop(t, n) == SubSeq(t, n + 1, Len(t))
HasSemi(t) == \E i \in 1..Len(t) : t[i] = ";"
FirstSemi(t) == CHOOSE i \in 1..Len(t) : t[i] = ";" /\ \A j \in 1..(i - 1) : t[j] # ";"
IsDigits(s) == Len(s) > 0 /\ \A i \in 1..Len(s) : s[i] \in DigitSet
RECURSIVE StripZeros(_)
StripZeros(s) == IF Len(s) > 1 /\ s[1] = "0" THEN StripZeros(Tail(s)) ELSE s
RECURSIVE ToNat(_, _)
ToNat(s, acc) == IF s = <<>> THEN acc ELSE ToNat(Tail(s), acc * 10 + DigitVal(s[1]))

\* identifier part "<t>=<identifier>"; everything after "<t>=" belongs to the identifier
ParseId(ns, t) ==
  IF StartsWith(t, <<"i", "=">>) THEN
       LET d == Drop(t, 2) IN
       IF IsDigits(d) /\ NumLeq(StripZeros(d), NMax32) THEN [ok |-> TRUE, ns |-> ns, k |-> "num", id |-> StripZeros(d)] ELSE Err
  ELSE IF StartsWith(t, <<"s", "=">>) THEN [ok |-> TRUE, ns |-> ns, k |-> "str", id |-> Drop(t, 2)]
  ELSE IF StartsWith(t, <<"g", "=">>) THEN
       IF Len(t) = 3 /\ t[3] \in Guids THEN [ok |-> TRUE, ns |-> ns, k |-> "guid", id |-> <<t[3]>>] ELSE Err
  ELSE IF StartsWith(t, <<"b", "=">>) THEN
       IF Len(t) = 3 /\ t[3] \in Blobs THEN [ok |-> TRUE, ns |-> ns, k |-> "bytes", id |-> <<t[3]>>] ELSE Err
  ELSE IF StartsWith(t, <<"n", "s", "=">>) THEN Err
  ELSE [ok |-> TRUE, ns |-> ns, k |-> "str", id |-> t]       \* "s=" may be omitted

\* namespace part "ns=<digits>" or "nsu=<uri>" (without the ';'); table = namespace array or NoTable
FirstIdx(tab, u) == CHOOSE i \in 1..Len(tab) : tab[i] = u /\ \A j \in 1..(i - 1) : tab[j] # u
ParseNs(p, tab) ==
  IF StartsWith(p, <<"n", "s", "u", "=">>) THEN
       LET u == Drop(p, 4) IN
            IF Len(u) = 1 /\ (\E i \in 1..Len(tab) : tab[i] = u[1]) THEN [ok |-> TRUE, ns |-> FirstIdx(tab, u[1]) - 1] ELSE Err
  ELSE IF StartsWith(p, <<"n", "s", "=">>) THEN
       LET d == Drop(p, 3) IN
       IF IsDigits(d) /\ Len(StripZeros(d)) <= 5 /\ ToNat(StripZeros(d), 0) <= 65535
       THEN [ok |-> TRUE, ns |-> ToNat(StripZeros(d), 0)] ELSE Err
  ELSE Err

\* Contract: the prefix decides whether there is a namespace part.
ParseContract(t, tab) ==
  IF StartsWith(t, <<"n", "s", "=">>) \/ StartsWith(t, <<"n", "s", "u", "=">>) THEN
       IF ~HasSemi(t) THEN Err
       ELSE LET i == FirstSemi(t)  r == ParseNs(SubSeq(t, 1, i - 1), tab) IN
            IF r.ok THEN ParseId(r.ns, Drop(t, i)) ELSE Err
  ELSE ParseId(0, t)

\* Implementation (ua/expanded_node_id.go:150): strings.SplitN(s, ";", 2) first.
ParseSplitFirst(t, tab) ==
  IF ~HasSemi(t) THEN ParseId(0, t)
  ELSE LET i == FirstSemi(t)  r == ParseNs(SubSeq(t, 1, i - 1), tab) IN
       IF r.ok THEN ParseId(r.ns, Drop(t, i)) ELSE Err

Parse(t, tab) == IF Dev_SplitFirstSemicolon THEN ParseSplitFirst(t, tab) ELSE ParseContract(t, tab)

Ok(c) == [ok |-> TRUE, ns |-> c.ns, k |-> c.k, id |-> c.id]

\* Equal as implemented: equality of the rendered texts
EqualImpl(a, b) == IF Dev_EqualIgnoresKind THEN a.ns = b.ns /\ a.id = b.id ELSE Format(a) = Format(b)

---------------------------------------------------------------------------
VARIABLE c
vars == <<c>>

\* one state per node
InitNodes == \E n \in NodesWith(MaxLen) : c = [t |-> "node", n |-> n]

\* one state per pair (smaller identifier domain, all encodings)
InitPairs == \E a \in NodesWith(PairLen), b \in NodesWith(PairLen) : c = [t |-> "pair", a |-> a, b |-> b]

\* one state per (namespace table, uri, identifier part)
Tables == UNION {[1..k -> Uris] : k \in 0..MaxTable}
XIds == {[k |-> "num", id |-> <<"5">>], [k |-> "num", id |-> <<"3","0","0">>], [k |-> "num", id |-> <<"6","5","5","3","6">>],
         [k |-> "str", id |-> <<"a">>], [k |-> "str", id |-> <<"a", ";", "b">>], [k |-> "str", id |-> <<"n","s","=","1">>],
         [k |-> "str", id |-> <<>>], [k |-> "guid", id |-> <<"G0">>], [k |-> "bytes", id |-> <<"B1">>]}
InitExpanded == \E tab \in Tables, u \in Uris, x \in XIds : c = [t |-> "xnode", tab |-> tab, uri |-> u, x |-> x]

Next == UNCHANGED c

XText(cc) == <<"n", "s", "u", "=", cc.uri, ";">> \o <<TypeChar(cc.x.k), "=">>
             \o cc.x.id
XExpect(cc) == IF \E i \in 1..Len(cc.tab) : cc.tab[i] = cc.uri
               THEN [ok |-> TRUE, ns |-> FirstIdx(cc.tab, cc.uri) - 1, k |-> cc.x.k, id |-> cc.x.id]
               ELSE Err

InvRoundTrip == c.t = "node" => Parse(Format(c.n), NoTable) = Ok(Canon(c.n))
InvEqual     == c.t = "pair" => (EqualImpl(c.a, c.b) <=> (Canon(c.a) = Canon(c.b)))
InvExpanded  == c.t = "xnode" => Parse(XText(c), c.tab) = XExpect(c)

\* rows for the replay harness.  devfail: the implementation model (split at the first ';')
\* predicts a failure for this row -- used only to name the failing shape.
Row == CASE c.t = "node" -> [t |-> "node", n |-> c.n, text |-> Format(c.n), canon |-> Canon(c.n),
                             devfail |-> (ParseSplitFirst(Format(c.n), NoTable) # Ok(Canon(c.n)))]
         [] c.t = "pair" -> [t |-> "pair", a |-> c.a, b |-> c.b, same |-> (Canon(c.a) = Canon(c.b))]
         [] c.t = "xnode" -> [t |-> "xnode", tab |-> c.tab, text |-> XText(c), expect |-> XExpect(c),
                              devfail |-> (ParseSplitFirst(XText(c), c.tab) # XExpect(c))]
InvEmit == Emit => PrintT("ROW " \o ToJson(Row))
=============================================================================
