CONSTANTS
  Policies = {"None", "Basic256Sha256", "ECC_nistP256"}
  Levels = {0, 1, 2}
  MaxLen = 3
  Emit = FALSE
  Samples = 0
INIT Init
NEXT Next
INVARIANT InvContract
CHECK_DEADLOCK FALSE
