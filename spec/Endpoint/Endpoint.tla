------------------------------ MODULE Endpoint ------------------------------
(***************************************************************************)
(* C24 -- endpoint selection (opcua.SelectEndpoint, client.go).            *)
(*                                                                         *)
(* Contract: the endpoint returned matches the query and has the highest   *)
(* security level among all matching endpoints; an error is returned       *)
(* exactly when no endpoint matches.  The choice among equally good        *)
(* endpoints is left open.                                                 *)
(*                                                                         *)
(* The implementation is modelled as it is written: an (unstable) sort by  *)
(* descending level -- any permutation that is sorted is possible --       *)
(* followed by a scan returning the first match.  TLC proves that every    *)
(* outcome of that algorithm satisfies the contract, for every endpoint    *)
(* list and query within the bounds; every initial state is also emitted   *)
(* as a row (list, query, set of acceptable answers) and replayed on the   *)
(* real function.                                                          *)
(***************************************************************************)
EXTENDS Naturals, Sequences, FiniteSets, TLC, Json

CONSTANTS Policies,     \* abstract security policies (short names)
          Levels,       \* security levels
          MaxLen,       \* longest endpoint list
          Emit          \* TRUE: print one row per initial state

Modes      == {1, 2, 3}             \* None, Sign, SignAndEncrypt  (0 = Invalid = don't care)
Endpoint   == [pol : Policies, mode : Modes, lvl : Levels]
Lists      == UNION {[1..n -> Endpoint] : n \in 0..MaxLen}
\* a query names a policy (or "" = any), spelled as short name or as URI, and a mode (0 = any)
Spellings  == {"short", "uri"}
Queries    == [pol : Policies \cup {""}, sp : Spellings, mode : 0..3]

VARIABLES es, q, pc, sorted, result
vars == <<es, q, pc, sorted, result>>

---------------------------------------------------------------------------
\* The contract
Matches(e, qq) == (qq.pol = "" \/ e.pol = qq.pol) /\ (qq.mode = 0 \/ e.mode = qq.mode)
MatchIdx(l, qq) == {i \in 1..Len(l) : Matches(l[i], qq)}
MaxLvl(l, qq)  == CHOOSE m \in {l[i].lvl : i \in MatchIdx(l, qq)} :
                     \A i \in MatchIdx(l, qq) : l[i].lvl <= m
\* acceptable answers, as endpoint records (duplicates are indistinguishable)
Best(l, qq)    == IF MatchIdx(l, qq) = {} THEN {}
                  ELSE {l[i] : i \in {j \in MatchIdx(l, qq) : l[j].lvl = MaxLvl(l, qq)}}

---------------------------------------------------------------------------
\* The algorithm of the implementation
IsPerm(p, n)   == p \in [1..n -> 1..n] /\ \A i, j \in 1..n : p[i] = p[j] => i = j
SortedPerms(l) == {p \in [1..Len(l) -> 1..Len(l)] :
                     /\ IsPerm(p, Len(l))
                     /\ \A i, j \in 1..Len(l) : i < j => l[p[i]].lvl >= l[p[j]].lvl}
FirstMatch(l, qq) == IF MatchIdx(l, qq) = {} THEN [err |-> TRUE]
                     ELSE [err |-> FALSE,
                           ep  |-> l[CHOOSE i \in MatchIdx(l, qq) : \A j \in MatchIdx(l, qq) : i <= j]]

Init == /\ es \in Lists
        /\ q \in Queries
        /\ (q.pol = "" => q.sp = "short")      \* the empty policy has one spelling
        /\ pc = "start" /\ sorted = <<>> /\ result = [err |-> FALSE]

\* Sampled initial states for lists too long to enumerate: N seeded random draws
\* (TLC's RandomElement; the draw differs per k and per -seed).
CONSTANT Samples
InitSample == /\ \E k \in 1..Samples :
                   \E n \in {MaxLen - 1, MaxLen} :
                      /\ es = [i \in 1..n |-> RandomElement(Endpoint)]
                      /\ q = RandomElement({qq \in Queries : qq.pol = "" => qq.sp = "short"})
              /\ pc = "start" /\ sorted = <<>> /\ result = [err |-> FALSE]

Sort == /\ pc = "start"
        /\ \E p \in SortedPerms(es) : sorted' = [i \in 1..Len(es) |-> es[p[i]]]
        /\ pc' = "sorted" /\ UNCHANGED <<es, q, result>>

Scan == /\ pc = "sorted"
        /\ result' = FirstMatch(sorted, q)
        /\ pc' = "done" /\ UNCHANGED <<es, q, sorted>>

Next == Sort \/ Scan
Spec == Init /\ [][Next]_vars

---------------------------------------------------------------------------
InvContract == pc = "done" =>
                 /\ result.err <=> (MatchIdx(es, q) = {})
                 /\ ~result.err => result.ep \in Best(es, q)

\* deviation demo: an ascending sort must be caught by InvContract (non-vacuity)
SortAsc == /\ pc = "start"
           /\ \E p \in [1..Len(es) -> 1..Len(es)] :
                 /\ IsPerm(p, Len(es))
                 /\ \A i, j \in 1..Len(es) : i < j => es[p[i]].lvl <= es[p[j]].lvl
                 /\ sorted' = [i \in 1..Len(es) |-> es[p[i]]]
           /\ pc' = "sorted" /\ UNCHANGED <<es, q, result>>
NextBad == SortAsc \/ Scan

Row == [es |-> es, q |-> q,
        best |-> Best(es, q), err |-> (MatchIdx(es, q) = {})]
InvEmit == (Emit /\ pc = "start") => PrintT("ROW " \o ToJson(Row))
=============================================================================
