CONSTANTS
  Policies = {"None", "Basic256Sha256"}
  Levels = {0, 1}
  MaxLen = 2
  Emit = TRUE
  Samples = 0
INIT Init
NEXT Next
INVARIANT InvContract
INVARIANT InvEmit
CHECK_DEADLOCK FALSE
