CONSTANTS
  Policies = {"None", "Basic256", "Basic256Sha256"}
  Levels = {0, 1, 2}
  MaxLen = 5
  Emit = TRUE
  Samples = 1500
INIT InitSample
NEXT Next
INVARIANT InvContract
INVARIANT InvEmit
CHECK_DEADLOCK FALSE
