CONSTANTS
  Policies = {"None", "Basic256Sha256", "ECC_nistP256"}
  Levels = {0, 1, 2}
  MaxLen = 4
  Emit = TRUE
  Samples = 400
INIT InitSample
NEXT Next
INVARIANT InvContract
INVARIANT InvEmit
CHECK_DEADLOCK FALSE
