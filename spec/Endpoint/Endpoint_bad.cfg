CONSTANTS
  Policies = {"None", "Basic256Sha256"}
  Levels = {0, 1}
  MaxLen = 2
  Emit = FALSE
  Samples = 0
INIT Init
NEXT NextBad
INVARIANT InvContract
CHECK_DEADLOCK FALSE
