SPECIFICATION OSpec
CHECK_DEADLOCK FALSE
