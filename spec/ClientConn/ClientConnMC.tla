---------------------------- MODULE ClientConnMC ----------------------------
(* Model-checking instances of ClientConn: script families for the configurations. *)
EXTENDS ClientConn

\* all call sequences of length n over the given alphabet
SeqsOf(S, n) == UNION {[1..k -> S] : k \in 0..n}

\* C27: two application goroutines, each up to 3 subscribe / cancel / repeated-cancel calls
Scripts_c27 == [Apps -> SeqsOf({"sub", "cancel", "recancel"}, 3)]
\* one goroutine, up to 5 calls (the shape `sub; cancel; sub; cancel; ...`)
Scripts_c27_one == [Apps -> SeqsOf({"sub", "cancel", "recancel"}, 6)]
\* small family for the quick tier
Scripts_c27_small == [Apps -> SeqsOf({"sub", "cancel", "recancel"}, 2)]

\* one application goroutine, the call shapes that pile up signals
Scripts_c27_block == [Apps -> SeqsOf({"sub", "cancel", "recancel"}, 4)]

\* C27 with the monitor: calls racing one reconnect
Scripts_c27_mon == [Apps -> {<<"sub">>, <<"sub", "cancel">>, <<"sub", "sub", "cancel">>, <<"sub", "cancel", "sub">>}]

\* trace validation: the scripts come from the log
Scripts_none == {[a \in Apps |-> <<>>]}

\* C25/C26: subscribe (0..2), then optionally close
Scripts_c25 == [Apps -> {<<>>, <<"sub">>, <<"sub", "close">>, <<"close">>, <<"sub", "sub">>, <<"sub", "sub", "close">>}]
Scripts_c25_small == [Apps -> {<<"sub">>, <<"sub", "close">>, <<"close">>}]
Scripts_c25_live == [Apps -> {<<"sub">>}]
Scripts_c25_outage == [Apps -> {<<"close">>, <<"sub">>, <<"sub", "close">>}]
=============================================================================
