----------------------------- MODULE ClientConn -----------------------------
(***************************************************************************)
(* S9 ClientConn -- connection lifecycle, reconnect monitor, subscription  *)
(* API and publish loop of the gopcua client (C25, C26, C27).              *)
(*                                                                         *)
(* Processes (one TLA+ action per code segment between two verif hook      *)
(* points, so that a behaviour can be replayed on the real client by       *)
(* gating its goroutines at the hooks, and a recorded hook trace can be    *)
(* validated against this module):                                         *)
(*   application goroutines  Subscribe / Cancel (ForgetSubscription +      *)
(*                           DeleteSubscriptions) / Close   client_sub.go  *)
(*   publish loop            monitorSubscriptions, publish   client_sub.go *)
(*   monitor                 one action per reconnectAction arm  client.go *)
(*   environment             TCP reset, server restart, outage begin/end,  *)
(*                           publish outcomes                              *)
(*                                                                         *)
(* Shared state as in client.go: pausech / resumech (capacity Cap = 2),    *)
(* subMux (mux), subs, pendingAcks, the reported ConnState, sechanErr      *)
(* (capacity 1), the monitor context (ctxDone).                            *)
(*                                                                         *)
(* Deviation flags (DESIGN 1.2; FALSE = contract, TRUE = what the code     *)
(* does):                                                                  *)
(*   Dev_BlockingSignals  signal sends block when the channel is full      *)
(*                        (pauseSubscriptions / resumeSubscriptions /      *)
(*                        `c.resumech <- struct{}{}` in Subscribe); the    *)
(*                        pause in forgetSubscription is sent while subMux *)
(*                        is held (Dev_PauseUnderLock of DESIGN #21).      *)
(*                        Contract: a signal never blocks its sender.      *)
(*   Dev_SplitSignals     pause and resume travel over two channels, so    *)
(*                        their relative order is lost: a resume that was  *)
(*                        sent after a pause may be consumed first and     *)
(*                        ignored; Subscribe sends its resume before it    *)
(*                        registers the subscription (outside subMux), so  *)
(*                        a concurrent Cancel can order its pause after    *)
(*                        it.  Contract: signals are issued in the order   *)
(*                        of the changes of `subs` and the latest wins.    *)
(*   Dev_RestoreNoResume  the restoreSession -> restoreSubscriptions path  *)
(*                        never fills subsToRepublish, activeSubs stays 0  *)
(*                        and the publish loop is not resumed (#20).       *)
(*   Dev_RecreateErrorLost an error of recreateSubscription is overwritten *)
(*                        (`continue` continues the range loop) (#20).     *)
(*   Dev_ArmIgnoresClose  an arm of the reconnect loop that was entered    *)
(*                        before Close() still reports Reconnecting after  *)
(*                        Close reported Closed.                           *)
(*   Dev_DrainDropsLoss   after the reconnect actions the monitor empties   *)
(*                        sechanErr; the EOF of the NEW channel (lost while *)
(*                        the last arm was running) is dropped with it and  *)
(*                        the client stays "Connected" on a dead channel.   *)
(*                        Contract: a loss of the current channel is kept.  *)
(***************************************************************************)
EXTENDS Naturals, Sequences, FiniteSets, TLC, Json, ConnState

CONSTANTS
  Apps,            \* application goroutines
  Scripts,         \* set of functions Apps -> Seq({"sub","cancel","recancel","close"}) to choose from
  Cap,             \* capacity of pausech and resumech
  MaxFaults,       \* number of faults the environment may inject
  FaultKinds,      \* subset of {"reset","restart","outage"}
  Outcomes,        \* publish outcomes offered by the environment: subset of {"data","keepalive","timeout","fault"}
  MaxPub,          \* bound on publish responses (sequence numbers)
  AutoReconnect,   \* uasc.Config.AutoReconnect
  SrvTransfers,    \* TRUE: server implements TransferSubscriptions/Republish (gopcua server: FALSE)
  Dev_BlockingSignals, Dev_SplitSignals, Dev_RestoreNoResume, Dev_RecreateErrorLost, Dev_ArmIgnoresClose,
  Dev_DrainDropsLoss,
  Hist             \* TRUE: keep the history variable (behaviour generation)

VARIABLES
  state,       \* reported ConnState
  closedSeen,  \* Close() has reported Closed (for InvAfterClose)
  apc,         \* app pc
  script,      \* remaining calls per app
  mine,        \* per app: ids of subscriptions it created (handles it can cancel, also repeatedly)
  cur,         \* per app: subscription id the current call works on (0 = none)
  subs,        \* client: registered subscription ids
  nextId,      \* server: next subscription id
  srvSubs,     \* server: live subscriptions (able to answer publish requests of the current channel)
  srvUp, srvSess, \* server reachable / server knows the client's session
  conn,        \* "none" | "up" | "dead" (broken, not yet replaced)
  sess,        \* client has a session object
  errq,        \* sechanErr: "none" | "eof" | "status"
  pausech, resumech,
  mux,         \* "none" or the holder (an app, "loop", "mon")
  lpc,         \* publish loop park point
  pubSub,      \* the server subscription that answered the outstanding publish request (0 = none)
  pubOut,      \* outcome of the outstanding publish request: "none" | "data" | "keepalive" | "timeout" | "fault"
  mpc, action, activeSubs, toRecreate, toRepublish, restored,
  ctxDone,     \* monitor context cancelled
  dials,       \* connection attempts
  dialsAtClose,
  faults,      \* injected so far
  seq,         \* server notification sequence number (publish responses so far)
  pend,        \* client pendingAcks (set of sequence numbers)
  inflight,    \* acks carried by the outstanding publish request
  ackcnt,      \* sequence number -> number of publish requests that carried its acknowledgement and got a response
  datas,       \* sequence numbers of data notifications (the others were keep-alives)
  fseq,        \* the faults and the Close injected so far with their injection points (part of the VIEW)
  lost,        \* subscriptions that were registered at a reconnect and are neither live nor recreated afterwards
  hist

vars == <<state, closedSeen, apc, script, mine, cur, subs, nextId, srvSubs, srvUp, srvSess, conn, sess, errq,
          pausech, resumech, mux, lpc, pubOut, pubSub, mpc, action, activeSubs, toRecreate, toRepublish, restored,
          ctxDone, dials, dialsAtClose, faults, seq, pend, inflight, ackcnt, datas, lost, fseq, hist>>

\* everything except the history (VIEW of the exhaustive configurations)
view == <<state, closedSeen, apc, script, mine, cur, subs, nextId, srvSubs, srvUp, srvSess, conn, sess, errq,
          pausech, resumech, mux, lpc, pubOut, pubSub, mpc, action, activeSubs, toRecreate, toRepublish, restored,
          ctxDone, dials, dialsAtClose, faults, seq, pend, inflight, ackcnt, datas, lost, fseq>>

Log(p, a, x) == hist' = IF Hist THEN Append(hist, [p |-> p, a |-> a, x |-> x]) ELSE hist

Min(a, b) == IF a < b THEN a ELSE b

---------------------------------------------------------------------------
\* Signals.  Send(ch) is the guard, the new value pair is computed by the operators below.

CanSend(n)     == (~Dev_BlockingSignals) \/ n < Cap
\* new <<pausech, resumech>> after a pause / resume signal
AfterPause  == IF Dev_SplitSignals THEN <<Min(pausech + 1, Cap), resumech>> ELSE <<Min(pausech + 1, Cap), 0>>
AfterResume == IF Dev_SplitSignals THEN <<pausech, Min(resumech + 1, Cap)>> ELSE <<0, Min(resumech + 1, Cap)>>

RpcOk == conn = "up" /\ srvUp       \* a request/response on the current channel succeeds
SessOk == RpcOk /\ sess /\ srvSess  \* ... and the session is known to the server

---------------------------------------------------------------------------
Init ==
  /\ state = "Connected" /\ closedSeen = FALSE
  /\ apc = [a \in Apps |-> "idle"]
  /\ script \in Scripts
  /\ mine = [a \in Apps |-> {}] /\ cur = [a \in Apps |-> 0]
  /\ subs = {} /\ nextId = 1 /\ srvSubs = {}
  /\ srvUp = TRUE /\ srvSess = TRUE /\ conn = "up" /\ sess = TRUE /\ errq = "none"
  \* NewClient sends one pause signal; Connect starts the loop, which takes it and waits in its
  \* paused state.  Assumption: this happened before the first application call returns (the
  \* loop goroutine is started before the UpdateNamespaces round trip of Connect).
  /\ pausech = 0 /\ resumech = 0
  /\ mux = "none"
  /\ lpc = "a.pause" /\ pubOut = "none" /\ pubSub = 0
  /\ mpc = "idle" /\ action = "none" /\ activeSubs = 0 /\ toRecreate = {} /\ toRepublish = {} /\ restored = FALSE
  /\ ctxDone = FALSE /\ dials = 1 /\ dialsAtClose = 0 /\ faults = 0
  /\ seq = 0 /\ pend = {} /\ inflight = {} /\ ackcnt = [n \in 1..(MaxPub + 1) |-> 0] /\ datas = {} /\ lost = {} /\ fseq = <<>>
  /\ hist = IF Hist THEN <<[p |-> "init", a |-> "Script", x |-> script]>> ELSE <<>>

---------------------------------------------------------------------------
\* Application.  Park points of a call: Subscribe: "s.send" (sub.resume.send), "s.sent"
\* (sub.resume.sent); Cancel: "f.lock" (forget.lock), "f.locked", "f.psend" (sub.pause.send),
\* "f.psent".

UNCH_APP == UNCHANGED <<state, closedSeen, srvUp, srvSess, conn, sess, errq, lpc, pubOut, pubSub, mpc, action, activeSubs,
                        toRecreate, toRepublish, restored, ctxDone, dials, dialsAtClose, faults, seq, pend,
                        inflight, ackcnt, datas, lost, fseq>>

\* Subscribe: CreateSubscription round trip, arrives at sub.resume.send (or returns the error)
SubCall(a) ==
  /\ apc[a] = "idle" /\ script[a] # <<>> /\ Head(script[a]) = "sub" /\ ~closedSeen
  /\ script' = [script EXCEPT ![a] = Tail(@)]
  /\ IF SessOk
       THEN /\ apc' = [apc EXCEPT ![a] = "s.send"]
            /\ cur' = [cur EXCEPT ![a] = nextId]
            /\ nextId' = nextId + 1 /\ srvSubs' = srvSubs \cup {nextId}
            /\ Log(a, "SubCall", nextId)
       ELSE /\ UNCHANGED <<apc, cur, nextId, srvSubs>> /\ Log(a, "SubCallErr", 0)
  /\ UNCHANGED <<mine, subs, pausech, resumech, mux>> /\ UNCH_APP

\* c.resumech <- struct{}{}   (not context aware)
SubSend(a) ==
  /\ apc[a] = "s.send" /\ CanSend(resumech)
  /\ IF Dev_SplitSignals THEN pausech' = AfterResume[1] /\ resumech' = AfterResume[2]
                          ELSE UNCHANGED <<pausech, resumech>>     \* contract: signalled in SubReg
  /\ apc' = [apc EXCEPT ![a] = "s.sent"]
  /\ Log(a, "SubSend", cur[a])
  /\ UNCHANGED <<script, mine, cur, subs, nextId, srvSubs, mux>> /\ UNCH_APP

\* c.subMux.Lock(); register; Unlock; return
SubReg(a) ==
  /\ apc[a] = "s.sent" /\ mux = "none"
  /\ subs' = subs \cup {cur[a]} /\ mine' = [mine EXCEPT ![a] = @ \cup {cur[a]}]
  /\ apc' = [apc EXCEPT ![a] = "idle"] /\ cur' = [cur EXCEPT ![a] = 0]
  /\ IF Dev_SplitSignals THEN UNCHANGED <<pausech, resumech>>
                          ELSE pausech' = AfterResume[1] /\ resumech' = AfterResume[2]
  /\ Log(a, "SubReg", cur[a])
  /\ UNCHANGED <<script, nextId, srvSubs, mux>> /\ UNCH_APP

\* sub.Cancel(): "cancel" takes a registered subscription of this app, "recancel" one that
\* was cancelled before (repeated cancel of the same subscription)
CancelCall(a) ==
  /\ apc[a] = "idle" /\ script[a] # <<>> /\ Head(script[a]) \in {"cancel", "recancel"} /\ ~closedSeen
  /\ script' = [script EXCEPT ![a] = Tail(@)]
  /\ LET cands == IF Head(script[a]) = "cancel" THEN mine[a] \cap subs ELSE mine[a] \ subs
     IN IF cands = {}
          THEN UNCHANGED <<apc, cur>> /\ Log(a, "CancelSkip", 0)
          ELSE \E id \in cands :
                 /\ apc' = [apc EXCEPT ![a] = "f.lock"] /\ cur' = [cur EXCEPT ![a] = id]
                 /\ Log(a, "CancelCall", id)
  /\ UNCHANGED <<mine, subs, nextId, srvSubs, pausech, resumech, mux>> /\ UNCH_APP

FgLock(a) ==
  /\ apc[a] = "f.lock" /\ mux = "none"
  /\ mux' = a /\ apc' = [apc EXCEPT ![a] = "f.locked"]
  /\ Log(a, "FgLock", cur[a])
  /\ UNCHANGED <<script, mine, cur, subs, nextId, srvSubs, pausech, resumech>> /\ UNCH_APP

\* the DeleteSubscriptions round trip that follows ForgetSubscription in Cancel
DeleteRpc(id) == IF SessOk THEN srvSubs \ {id} ELSE srvSubs

\* delete(c.subs, id); if none is left go on to pauseSubscriptions (still holding subMux),
\* otherwise unlock, DeleteSubscriptions, return
FgDelete(a) ==
  /\ apc[a] = "f.locked"
  /\ subs' = subs \ {cur[a]}
  /\ IF subs' = {}
       THEN /\ apc' = [apc EXCEPT ![a] = "f.psend"] /\ UNCHANGED <<mux, srvSubs, cur>>
       ELSE /\ apc' = [apc EXCEPT ![a] = "idle"] /\ mux' = "none"
            /\ srvSubs' = DeleteRpc(cur[a]) /\ cur' = [cur EXCEPT ![a] = 0]
  /\ Log(a, "FgDelete", cur[a])
  /\ UNCHANGED <<script, mine, nextId, pausech, resumech>> /\ UNCH_APP

\* pauseSubscriptions(ctx) with the caller's context (never cancelled here); as-is: subMux is held
FgPause(a) ==
  /\ apc[a] = "f.psend" /\ CanSend(pausech)
  /\ pausech' = AfterPause[1] /\ resumech' = AfterPause[2]
  /\ apc' = [apc EXCEPT ![a] = "f.psent"]
  /\ Log(a, "FgPause", cur[a])
  /\ UNCHANGED <<script, mine, cur, subs, nextId, srvSubs, mux>> /\ UNCH_APP

FgUnlock(a) ==
  /\ apc[a] = "f.psent"
  /\ mux' = "none" /\ apc' = [apc EXCEPT ![a] = "idle"]
  /\ srvSubs' = DeleteRpc(cur[a]) /\ cur' = [cur EXCEPT ![a] = 0]
  /\ Log(a, "FgUnlock", cur[a])
  /\ UNCHANGED <<script, mine, subs, nextId, pausech, resumech>> /\ UNCH_APP

\* Close(): CloseSession, setState(Closed), mcancel, close channel and connection
CloseCall(a) ==
  /\ apc[a] = "idle" /\ script[a] # <<>> /\ Head(script[a]) = "close" /\ ~closedSeen
  /\ script' = [script EXCEPT ![a] = Tail(@)]
  /\ state' = "Closed" /\ closedSeen' = TRUE /\ ctxDone' = TRUE
  /\ conn' = "none" /\ sess' = FALSE
  /\ srvSess' = IF SessOk THEN FALSE ELSE srvSess
  /\ dialsAtClose' = dials
  /\ fseq' = Append(fseq, [k |-> "close", at |-> IF mpc = "m.act" THEN action ELSE mpc])
  /\ Log(a, "Close", IF mpc = "m.act" THEN action ELSE mpc)
  /\ UNCHANGED <<apc, mine, cur, subs, nextId, srvSubs, srvUp, errq, pausech, resumech, mux, lpc, pubOut, pubSub, mpc,
                 action, activeSubs, toRecreate, toRepublish, restored, dials, faults, seq, pend, inflight, ackcnt, datas, lost>>

App(a) == SubCall(a) \/ SubSend(a) \/ SubReg(a) \/ CancelCall(a) \/ FgLock(a) \/ FgDelete(a)
          \/ FgPause(a) \/ FgUnlock(a) \/ CloseCall(a)

---------------------------------------------------------------------------
\* Publish loop.  lpc = the hook point the goroutine is parked at:
\*   "start", "a.resume", "a.pause", "a.presume", "a.ppause", "a.publish" (sub.loop arms),
\*   "p.send" (pub.send), "p.lock" (pub.lock), "p.locked" (pub.locked, subMux held),
\*   "a.err" (sub.loop publish.err), "ps.send" / "ps.sent" (sub.pause.send/sent), "done".
\* An action is the code from one park point to the next.

UNCH_LOOP == UNCHANGED <<state, closedSeen, apc, script, mine, cur, subs, nextId, srvSubs, srvUp, srvSess, conn,
                         sess, errq, mpc, action, activeSubs, toRecreate, toRepublish, restored, ctxDone, dials,
                         dialsAtClose, faults, lost, fseq>>

\* The outcome of the outstanding publish request is decided when the loop consumes it (a
\* response that arrived earlier waits in the socket; nothing else can observe it):
\*   data / keepalive need a live server subscription on a working channel and session,
\*   fault (connection loss, BadSessionIDInvalid ...) needs a broken channel or session,
\*   timeout is what happens when nothing answers (the server holds the request).
OutcomeOk(o) ==
  /\ o \in Outcomes
  /\ \/ o \in {"data", "keepalive"} /\ SessOk /\ srvSubs # {}
     \/ o = "timeout" /\ (srvSubs = {} \/ ~RpcOk)
     \/ o = "fault" /\ (~SessOk \/ ctxDone)

\* park points whose continuation reaches the outer select
OuterFrom == {"start", "a.resume", "a.presume", "ps.sent", "p.locked"}
InnerFrom == {"a.pause", "a.ppause"}

\* leaving "p.locked": handleAcks, handleNotification, Unlock, notify
Unlocking == IF lpc = "p.locked" THEN "none" ELSE mux

LoopSelect(arm) ==
  /\ \/ /\ lpc \in OuterFrom \/ (lpc = "p.send" /\ OutcomeOk("timeout"))   \* BadTimeout: publish returns nil
        /\ \/ arm = "a.resume"  /\ resumech > 0 /\ resumech' = resumech - 1 /\ pausech' = pausech
           \/ arm = "a.pause"   /\ pausech > 0  /\ pausech' = pausech - 1 /\ resumech' = resumech
           \/ arm = "a.publish" /\ resumech = 0 /\ pausech = 0 /\ ~ctxDone /\ UNCHANGED <<pausech, resumech>>
           \/ arm = "done"      /\ ctxDone /\ UNCHANGED <<pausech, resumech>>
     \/ /\ lpc \in InnerFrom
        /\ \/ arm = "a.presume" /\ resumech > 0 /\ resumech' = resumech - 1 /\ pausech' = pausech
           \/ arm = "a.ppause"  /\ pausech > 0  /\ pausech' = pausech - 1 /\ resumech' = resumech
           \/ arm = "done"      /\ ctxDone /\ UNCHANGED <<pausech, resumech>>
  /\ mux' = Unlocking
  /\ lpc' = arm
  /\ pubOut' = "none"
  /\ Log("loop", "Select", arm)
  /\ UNCHANGED <<pubSub, seq, pend, inflight, ackcnt, datas>> /\ UNCH_LOOP

\* publish(): RLock/RUnlock twice (blocks while a writer holds subMux), build the request with
\* the pending acknowledgements, arrive at pub.send
LoopPubStart ==
  /\ lpc = "a.publish" /\ mux = "none"
  /\ lpc' = "p.send" /\ inflight' = pend /\ pubOut' = "none"
  /\ Log("loop", "PubStart", Cardinality(pend))
  /\ UNCHANGED <<pausech, resumech, mux, pubSub, seq, pend, ackcnt, datas>> /\ UNCH_LOOP

\* a response arrived: acknowledgements carried by the request are settled
Settled == [n \in 1..(MaxPub + 1) |-> IF n \in inflight THEN ackcnt[n] + 1 ELSE ackcnt[n]]

LoopPubResult(o) ==
  /\ lpc = "p.send" /\ o \in {"data", "keepalive", "fault"} /\ OutcomeOk(o)
  /\ \/ /\ o \in {"data", "keepalive"} /\ lpc' = "p.lock" /\ ackcnt' = Settled /\ pubOut' = o
        /\ seq' = seq + 1 /\ datas' = IF o = "data" THEN datas \cup {seq + 1} ELSE datas
        /\ \E sid \in srvSubs : pubSub' = sid /\ Log("loop", "PubResult", [o |-> o, sub |-> sid])
     \/ /\ o = "fault" /\ lpc' = "a.err" /\ pubOut' = "none" /\ pubSub' = 0 /\ UNCHANGED <<ackcnt, seq, datas>>
        /\ Log("loop", "PubResult", [o |-> o, sub |-> 0])
  /\ UNCHANGED <<pausech, resumech, mux, pend, inflight>> /\ UNCH_LOOP

\* c.subMux.Lock() in publish; handleAcks drops what the response settled (the gopcua server
\* returns no per-ack results, the client then clears the list); a data notification of a
\* registered subscription adds its ack; a response for a subscription the client does not
\* know (cancelled meanwhile, or not registered yet) is dropped after the lock is released
PubKnown == pubSub \in subs
LoopPubLock ==
  /\ lpc = "p.lock" /\ mux = "none"
  /\ mux' = "loop" /\ lpc' = "p.locked"
  /\ pend' = (pend \ inflight) \cup (IF pubOut = "data" /\ PubKnown THEN {seq} ELSE {})
  /\ datas' = IF pubOut = "data" /\ ~PubKnown THEN datas \ {seq} ELSE datas
  /\ inflight' = {} /\ pubOut' = "none" /\ pubSub' = 0
  /\ Log("loop", "PubLock", [o |-> pubOut, known |-> PubKnown])
  /\ UNCHANGED <<pausech, resumech, seq, ackcnt>> /\ UNCH_LOOP

\* publish returned an error: arrive at sub.pause.send
LoopErr ==
  /\ lpc = "a.err" /\ lpc' = "ps.send"
  /\ Log("loop", "Err", 0)
  /\ UNCHANGED <<pausech, resumech, mux, pubOut, pubSub, seq, pend, inflight, ackcnt, datas>> /\ UNCH_LOOP

\* pauseSubscriptions(ctx) by the loop itself (ctx = monitor context).  As-is the loop sends
\* itself a pause signal, which can arrive after the resume of a reconnect that has already
\* completed; contract: the loop just waits in its paused state for the next resume.
LoopSelfPause ==
  /\ lpc = "ps.send"
  /\ IF Dev_SplitSignals
       THEN /\ (CanSend(pausech) \/ ctxDone)
            /\ IF CanSend(pausech) THEN pausech' = AfterPause[1] /\ resumech' = AfterPause[2]
                                   ELSE UNCHANGED <<pausech, resumech>>
            /\ lpc' = "ps.sent"
       ELSE /\ lpc' = "a.pause" /\ UNCHANGED <<pausech, resumech>>
  /\ Log("loop", "SelfPause", 0)
  /\ UNCHANGED <<mux, pubOut, pubSub, seq, pend, inflight, ackcnt, datas>> /\ UNCH_LOOP

Loop == (\E arm \in {"a.resume", "a.pause", "a.presume", "a.ppause", "a.publish", "done"} : LoopSelect(arm))
        \/ LoopPubStart \/ (\E o \in Outcomes : LoopPubResult(o)) \/ LoopPubLock \/ LoopErr \/ LoopSelfPause

---------------------------------------------------------------------------
\* Monitor (client.go:302).  mpc: "idle", "m.psend", "m.psent", "m.act" (parked at mon.action
\* of `action`), "m.done" (mon.done), "m.rsend", "m.rsent", "m.exit", "done".

UNCH_MON == UNCHANGED <<closedSeen, apc, script, mine, cur, nextId, srvUp, lpc, pubOut, pubSub, dialsAtClose, faults, seq,
                        pend, inflight, ackcnt, datas, fseq>>

ActionFor(e) == IF e = "eof" THEN "createSecureChannel" ELSE "recreateSession"

\* receive from sechanErr; Disconnected; choose the action; arrive at sub.pause.send
MonErr ==
  /\ mpc = "idle" /\ errq # "none" /\ ~ctxDone
  /\ errq' = "none"
  /\ IF state = "Closed" /\ errq = "eof"
       THEN mpc' = "m.exit" /\ UNCHANGED <<state, action>>
       ELSE /\ state' = "Disconnected"
            /\ IF AutoReconnect THEN mpc' = "m.psend" /\ action' = ActionFor(errq)
                                ELSE mpc' = "m.exit" /\ action' = "abortReconnect"
  /\ Log("mon", "Err", errq)
  /\ UNCHANGED <<subs, srvSubs, srvSess, conn, sess, pausech, resumech, mux, activeSubs, toRecreate, toRepublish,
                 restored, ctxDone, dials, lost>> /\ UNCH_MON

\* ctx.Done() arm of the outer select
MonCtx ==
  /\ mpc = "idle" /\ ctxDone
  /\ mpc' = "m.exit"
  /\ Log("mon", "Ctx", 0)
  /\ UNCHANGED <<state, subs, srvSubs, srvSess, conn, sess, errq, pausech, resumech, mux, action, activeSubs,
                 toRecreate, toRepublish, restored, ctxDone, dials, lost>> /\ UNCH_MON

MonPause ==
  /\ mpc = "m.psend" /\ (CanSend(pausech) \/ ctxDone)
  /\ IF CanSend(pausech) THEN pausech' = AfterPause[1] /\ resumech' = AfterPause[2]
                         ELSE UNCHANGED <<pausech, resumech>>
  /\ mpc' = "m.psent"
  /\ toRecreate' = {} /\ toRepublish' = {} /\ activeSubs' = 0 /\ restored' = FALSE
  /\ Log("mon", "Pause", 0)
  /\ UNCHANGED <<state, subs, srvSubs, srvSess, conn, sess, errq, mux, action, ctxDone, dials, lost>> /\ UNCH_MON

\* `for action != none { select { case <-ctx.Done(): return; default: switch action` : arrive at
\* the mon.action hook of the current action, or leave
MonNext ==
  /\ mpc = "m.psent"
  /\ IF ctxDone THEN mpc' = "m.exit" ELSE mpc' = "m.act"
  /\ Log("mon", "Next", action)
  /\ UNCHANGED <<state, subs, srvSubs, srvSess, conn, sess, errq, pausech, resumech, mux, action, activeSubs,
                 toRecreate, toRepublish, restored, ctxDone, dials, lost>> /\ UNCH_MON

\* where an arm ends: back at the top of `for action != none` (context check, next mon.action hook)
ArmEnd == IF ctxDone THEN "m.exit" ELSE "m.act"

\* what an arm reports: as-is it reports Reconnecting even when Close() cancelled the context
\* after the arm was entered
Report(s) == IF ctxDone /\ ~Dev_ArmIgnoresClose THEN state ELSE s

\* createSecureChannel: close the old channel, Reconnecting, dial (one attempt per step; a
\* failed attempt sleeps ReconnectInterval and tries again)
MonCreateSC ==
  /\ mpc = "m.act" /\ action = "createSecureChannel"
  /\ state' = Report("Reconnecting")
  /\ IF ctxDone
       THEN /\ mpc' = "m.exit" /\ conn' = "none" /\ UNCHANGED <<dials, action>>
       ELSE /\ dials' = dials + 1
            /\ IF srvUp THEN conn' = "up" /\ action' = "restoreSession" /\ mpc' = ArmEnd
                        ELSE conn' = "none" /\ UNCHANGED action /\ mpc' = "m.dial"
  /\ Log("mon", "CreateSC", srvUp)
  /\ UNCHANGED <<subs, srvSubs, srvSess, sess, errq, pausech, resumech, mux, activeSubs, toRecreate, toRepublish,
                 restored, ctxDone, lost>> /\ UNCH_MON

\* retry of the dial loop
MonRedial ==
  /\ mpc = "m.dial"
  /\ IF ctxDone
       THEN mpc' = "m.exit" /\ UNCHANGED <<dials, conn, action>>
       ELSE /\ srvUp       \* (failed attempts while the server is down are stuttering apart from the counter)
            /\ dials' = dials + 1 /\ conn' = "up" /\ action' = "restoreSession" /\ mpc' = ArmEnd
  /\ Log("mon", "Redial", 0)
  /\ UNCHANGED <<state, subs, srvSubs, srvSess, sess, errq, pausech, resumech, mux, activeSubs, toRecreate,
                 toRepublish, restored, ctxDone, lost>> /\ UNCH_MON

\* restoreSession: ActivateSession with the old session, UpdateNamespaces
MonRestoreSession ==
  /\ mpc = "m.act" /\ action = "restoreSession"
  /\ state' = Report("Reconnecting")
  /\ IF sess /\ RpcOk /\ srvSess /\ ~ctxDone
       THEN /\ mux = "none"      \* c.SubscriptionIDs() (read lock) fills subsToRepublish
            /\ action' = "restoreSubscriptions" /\ restored' = TRUE /\ UNCHANGED sess
            /\ toRepublish' = IF Dev_RestoreNoResume THEN toRepublish ELSE subs
            /\ toRecreate' = IF Dev_RestoreNoResume THEN toRecreate ELSE {}
       ELSE action' = "recreateSession" /\ restored' = FALSE /\ sess' = FALSE /\ UNCHANGED <<toRepublish, toRecreate>>
  /\ mpc' = ArmEnd
  /\ Log("mon", "RestoreSession", action')
  /\ UNCHANGED <<subs, srvSubs, srvSess, conn, errq, pausech, resumech, mux, activeSubs,
                 ctxDone, dials, lost>> /\ UNCH_MON

\* recreateSession: CreateSession + ActivateSession + UpdateNamespaces on the current channel
MonRecreateSession ==
  /\ mpc = "m.act" /\ action = "recreateSession"
  /\ state' = Report("Reconnecting")
  /\ IF RpcOk /\ ~ctxDone
       THEN action' = "transferSubscriptions" /\ sess' = TRUE /\ srvSess' = TRUE
       ELSE action' = "createSecureChannel" /\ sess' = FALSE /\ UNCHANGED srvSess
  /\ mpc' = ArmEnd /\ restored' = FALSE
  /\ Log("mon", "RecreateSession", action')
  /\ UNCHANGED <<subs, srvSubs, conn, errq, pausech, resumech, mux, activeSubs, toRecreate, toRepublish,
                 ctxDone, dials, lost>> /\ UNCH_MON

\* transferSubscriptions: the gopcua server answers BadServiceUnsupported -> recreate all
MonTransfer ==
  /\ mpc = "m.act" /\ action = "transferSubscriptions"
  /\ mux = "none"                \* c.SubscriptionIDs() (read lock)
  /\ IF SrvTransfers /\ SessOk
       THEN toRepublish' = subs \cap srvSubs /\ toRecreate' = subs \ srvSubs
       ELSE toRepublish' = {} /\ toRecreate' = subs
  /\ action' = "restoreSubscriptions" /\ mpc' = ArmEnd
  /\ Log("mon", "Transfer", Cardinality(toRecreate'))
  /\ UNCHANGED <<state, subs, srvSubs, srvSess, conn, sess, errq, pausech, resumech, mux, activeSubs, restored,
                 ctxDone, dials, lost>> /\ UNCH_MON

\* restoreSubscriptions.  Contract: after a restored session every registered subscription is
\* republished (it is still alive on the server) and counted; as-is nothing is counted on that
\* path.  recreateSubscription takes subMux, deletes and forgets the subscription, creates a new
\* server subscription for the same client object and registers it; forgetting the only
\* registered subscription sends a pause signal while subMux is held (m.rpsend / m.rpsent).
\* An error sends the monitor back to recreateSession (contract) or is overwritten (as-is).
\* Subscription ids in this model are client object identities (a recreated subscription keeps
\* its identity although the server assigns a new id).
\* subsToRepublish holds the ids captured when the session was restored (or what TransferSubscriptions
\* returned).  A server without Republish (gopcua server) makes the republish fail and the subscription is
\* re-created; an id that was cancelled meanwhile fails in both and is only counted.
RsRep == IF SrvTransfers THEN toRepublish \cap subs ELSE {}
RsRec == (toRecreate \cap subs) \cup (IF SrvTransfers THEN {} ELSE toRepublish \cap subs)
RsCount == Cardinality(toRepublish) + Cardinality(RsRec \ toRepublish) + Cardinality(RsRec \cap toRepublish)
\* republishSubscription takes the read lock, recreateSubscription the write lock
RsNeedsMux == toRepublish # {} \/ RsRec # {}
RsOk  == SessOk /\ ~ctxDone

\* `for len(c.sechanErr) > 0 { <-c.sechanErr }` after the last arm, before the mon.done hook
Drained == IF conn = "dead" /\ ~Dev_DrainDropsLoss THEN "eof" ELSE "none"

RsFinish ==
  IF RsOk \/ RsRec = {}
    THEN /\ activeSubs' = RsCount
         /\ srvSubs' = IF RsOk THEN srvSubs \cup RsRec ELSE srvSubs
         /\ lost' = IF restored /\ Dev_RestoreNoResume THEN subs ELSE {}
         /\ state' = Report("Connected") /\ action' = "none" /\ mpc' = "m.done"
    ELSE IF Dev_RecreateErrorLost
           THEN /\ activeSubs' = Cardinality(toRepublish) /\ lost' = RsRec /\ UNCHANGED srvSubs
                /\ state' = Report("Connected") /\ action' = "none" /\ mpc' = "m.done"
           ELSE /\ action' = "recreateSession" /\ mpc' = ArmEnd
                /\ UNCHANGED <<activeSubs, srvSubs, lost, state>>

MonRestoreSubs ==
  /\ mpc = "m.act" /\ action = "restoreSubscriptions"
  /\ IF RsRec # {} /\ RsRec = subs /\ Cardinality(subs) = 1
       THEN /\ mux = "none" /\ mux' = "mon" /\ mpc' = "m.rpsend"
            /\ UNCHANGED <<activeSubs, srvSubs, lost, state, action>>
       ELSE /\ (RsNeedsMux => mux = "none") /\ UNCHANGED mux
            /\ RsFinish
  /\ errq' = IF mpc' = "m.done" THEN Drained ELSE errq
  /\ Log("mon", "RestoreSubs", mpc')
  /\ UNCHANGED <<subs, srvSess, conn, sess, pausech, resumech, toRecreate, toRepublish, restored,
                 ctxDone, dials>> /\ UNCH_MON

MonRecPause ==
  /\ mpc = "m.rpsend" /\ (CanSend(pausech) \/ ctxDone)
  /\ IF CanSend(pausech) THEN pausech' = AfterPause[1] /\ resumech' = AfterPause[2]
                         ELSE UNCHANGED <<pausech, resumech>>
  /\ mpc' = "m.rpsent"
  /\ Log("mon", "RecPause", 0)
  /\ UNCHANGED <<state, subs, srvSubs, srvSess, conn, sess, errq, mux, action, activeSubs, toRecreate, toRepublish,
                 restored, ctxDone, dials, lost>> /\ UNCH_MON

MonRecFinish ==
  /\ mpc = "m.rpsent"
  /\ mux' = "none"
  /\ RsFinish
  /\ errq' = IF mpc' = "m.done" THEN Drained ELSE errq
  /\ Log("mon", "RecFinish", mpc')
  /\ UNCHANGED <<subs, srvSess, conn, sess, pausech, resumech, toRecreate, toRepublish, restored,
                 ctxDone, dials>> /\ UNCH_MON

\* mon.done (the hook sits after the drain of sechanErr, see Drained): resume when activeSubs > 0
MonDone ==
  /\ mpc = "m.done"
  /\ UNCHANGED errq
  /\ mpc' = IF activeSubs > 0 THEN "m.rsend" ELSE "idle"
  /\ Log("mon", "Done", activeSubs)
  /\ UNCHANGED <<state, subs, srvSubs, srvSess, conn, sess, pausech, resumech, mux, action, activeSubs, toRecreate,
                 toRepublish, restored, ctxDone, dials, lost>> /\ UNCH_MON

MonResume ==
  /\ mpc = "m.rsend" /\ (CanSend(resumech) \/ ctxDone)
  /\ IF CanSend(resumech) THEN pausech' = AfterResume[1] /\ resumech' = AfterResume[2]
                          ELSE UNCHANGED <<pausech, resumech>>
  /\ mpc' = "idle"
  /\ Log("mon", "Resume", 0)
  /\ UNCHANGED <<state, subs, srvSubs, srvSess, conn, sess, errq, mux, action, activeSubs, toRecreate, toRepublish,
                 restored, ctxDone, dials, lost>> /\ UNCH_MON

\* deferred setState(Closed) and mcancel
MonExit ==
  /\ mpc = "m.exit"
  /\ state' = "Closed" /\ ctxDone' = TRUE /\ mpc' = "done"
  /\ Log("mon", "Exit", 0)
  /\ UNCHANGED <<subs, srvSubs, srvSess, conn, sess, errq, pausech, resumech, mux, action, activeSubs, toRecreate,
                 toRepublish, restored, dials, lost>> /\ UNCH_MON

Mon == MonErr \/ MonCtx \/ MonPause \/ MonNext \/ MonCreateSC \/ MonRedial \/ MonRestoreSession
       \/ MonRecreateSession \/ MonTransfer \/ MonRestoreSubs \/ MonRecPause \/ MonRecFinish \/ MonDone \/ MonResume \/ MonExit

---------------------------------------------------------------------------
\* Environment faults

UNCH_ENV == UNCHANGED <<state, closedSeen, apc, script, mine, cur, subs, nextId, sess, pausech, resumech, mux, lpc,
                        pubOut, pubSub, mpc, action, activeSubs, toRecreate, toRepublish, restored, ctxDone, dials,
                        dialsAtClose, seq, pend, inflight, ackcnt, datas, lost>>

\* where the monitor is when something is injected
At == IF mpc = "m.act" THEN action ELSE mpc

\* the dispatcher reports EOF on sechanErr (non-blocking send, capacity 1)
Break == /\ conn' = IF conn = "up" THEN "dead" ELSE conn
         /\ errq' = IF conn = "up" /\ errq = "none" THEN "eof" ELSE errq

Fault(k) ==
  /\ faults < MaxFaults /\ k \in FaultKinds /\ ~closedSeen
  /\ faults' = faults + 1
  /\ Break
  /\ \/ k = "reset"   /\ srvUp /\ UNCHANGED <<srvUp, srvSess, srvSubs>>
     \/ k = "restart" /\ srvUp /\ srvSess' = FALSE /\ srvSubs' = {} /\ UNCHANGED srvUp
     \/ k = "outage"  /\ srvUp /\ srvUp' = FALSE /\ UNCHANGED <<srvSess, srvSubs>>
  /\ fseq' = Append(fseq, [k |-> k, at |-> At])
  /\ Log("env", "Fault", [k |-> k, at |-> At])
  /\ UNCH_ENV

OutageEnd ==
  /\ ~srvUp /\ srvUp' = TRUE
  /\ fseq' = Append(fseq, [k |-> "end", at |-> At])
  /\ Log("env", "OutageEnd", [k |-> "end", at |-> At])
  /\ UNCHANGED <<faults, conn, errq, srvSess, srvSubs>> /\ UNCH_ENV

\* server side: a subscription whose channel died ends at its next publish attempt
\* (server/subscription_service.go run(): SendResponse error -> DeleteSubscription)
Env == (\E k \in FaultKinds : Fault(k)) \/ OutageEnd

---------------------------------------------------------------------------
Next == (\E a \in Apps : App(a)) \/ Loop \/ Mon \/ Env

Fairness == /\ \A a \in Apps : WF_vars(App(a))
            /\ WF_vars(Loop) /\ WF_vars(Mon) /\ WF_vars(OutageEnd)

Spec == Init /\ [][Next]_vars /\ Fairness

---------------------------------------------------------------------------
\* Properties

TypeOK ==
  /\ state \in States /\ pausech \in 0..Cap /\ resumech \in 0..Cap
  /\ mux \in {"none", "loop", "mon"} \cup Apps
  /\ conn \in {"none", "up", "dead"} /\ errq \in {"none", "eof", "status"}

\* ---- C27 ----
AppsIdle == \A a \in Apps : apc[a] = "idle"
AppsDone == \A a \in Apps : apc[a] = "idle" /\ (script[a] = <<>> \/ closedSeen)

\* an application call that can never continue: the process is inside a call and no step of
\* any process is enabled any more (checked at states without successor, see NoStuck)
AppEnabled(a) == ENABLED App(a)
LoopEnabled == ENABLED Loop
MonEnabled == ENABLED Mon

\* Deadlock freedom of API calls: whenever an application goroutine is inside a call, the
\* system as a whole (application, loop, monitor, and the publish outcomes the environment
\* owes) can still move.  Faults are not counted: an API call must not need a fault to return.
\* An outstanding publish request always ends (response, time-out or error), so a loop waiting
\* in p.send counts as progressing whatever the bound of the model says.
Progressing == (\E a \in Apps : AppEnabled(a)) \/ LoopEnabled \/ MonEnabled
               \/ lpc = "p.send" \/ ENABLED OutageEnd
InvNoStuckCall == (\E a \in Apps : apc[a] # "idle") => Progressing

\* the publish loop itself never blocks for good outside its paused state
InvLoopNotBlocked == (lpc \notin {"done", "a.pause", "a.ppause", "p.send"}) => Progressing

\* Publish progress, stated on quiescent states: when nothing else can happen (all calls
\* returned, monitor idle, no signal pending) and the client is connected with a registered
\* subscription, the loop must not sit in its paused state.
Quiescent == AppsIdle /\ mpc = "idle" /\ errq = "none" /\ pausech = 0 /\ resumech = 0 /\ ~ctxDone
InvPublishProgress ==
  (Quiescent /\ state = "Connected" /\ conn = "up" /\ subs # {} /\ lost = {})
     => lpc \notin {"a.pause", "a.ppause"}

\* the same as liveness (small configurations only)
PublishProgress ==
  [](( AppsDone /\ state = "Connected" /\ subs # {} /\ ~ctxDone /\ faults = MaxFaults)
        => <>(lpc \in {"p.send", "p.lock", "p.locked"} \/ ctxDone \/ subs = {}))

\* ---- C25 ----
ActTransitions == [][state' # state => <<state, state'>> \in Documented]_state
InvAfterClose == closedSeen => (state = "Closed" /\ dials = dialsAtClose)
InvAllDoneAfterClose == (closedSeen /\ ~Progressing) => (lpc = "done" /\ mpc = "done")
Reconnects == [](( AutoReconnect /\ ~closedSeen /\ faults = MaxFaults /\ srvUp)
                   => <>(closedSeen \/ (state = "Connected" /\ conn = "up")))

\* a client that reports Connected with an idle monitor and nothing queued has a live channel
InvNoSilentLoss == (state = "Connected" /\ mpc = "idle" /\ errq = "none" /\ ~ctxDone) => conn = "up"

\* ---- C26 ----
\* at Connected after a reconnect every registered subscription is alive on the server again
InvSubsSurvive == (state = "Connected" /\ mpc \in {"idle", "m.done", "m.rsend"} /\ conn = "up" /\ faults > 0
                   /\ AppsIdle /\ errq = "none")
                     => lost = {}
\* every acknowledgement reaches the server at most once in a publish request that was answered
InvAckOnce == \A n \in 1..(MaxPub + 1) : ackcnt[n] <= 1
\* ... and is not forgotten: a received notification is pending, in flight or settled
InvAckKept == \A n \in datas : (n \in pend) \/ (n \in inflight) \/ ackcnt[n] >= 1
                                  \/ (lpc \in {"p.send", "p.lock"} /\ n = seq)

---------------------------------------------------------------------------
\* bound of the exhaustive configurations
Bound == seq <= MaxPub

\* action constraint of the fault-scenario generation: faults arrive after the application has
\* made its Subscribe calls (the harness injects them in that order)
FaultsAfterCalls == (faults' # faults) => \A a \in Apps : apc[a] = "idle" /\ (script[a] = <<>> \/ Head(script[a]) = "close")

\* Behaviour emission (gen configurations, Hist = TRUE): a behaviour ends when it is stuck or
\* when every call returned and loop and monitor are at rest
Terminal == ~ENABLED Next
AtRest == /\ AppsDone /\ mpc \in {"idle", "done"} /\ errq = "none" /\ pausech = 0 /\ resumech = 0
           /\ lpc \in {"a.pause", "a.ppause", "p.send", "done"} /\ pubOut = "none"
Stuck == ~Progressing /\ ((\E a \in Apps : apc[a] # "idle") \/ lpc \notin {"done", "a.pause", "a.ppause", "p.send"})
EmitNow == Stuck \/ AtRest
NextGen == ~EmitNow /\ Next
StuckNow == (\E a \in Apps : apc[a] # "idle") \/ lpc \notin {"done", "a.pause", "a.ppause", "p.send"}
LostResume == Quiescent /\ state = "Connected" /\ conn = "up" /\ subs # {} /\ lost = {} /\ lpc \in {"a.pause", "a.ppause"}

Beh == [steps |-> hist, stuck |-> Stuck, lostresume |-> LostResume,
        blockedApps |-> {a \in Apps : apc[a] # "idle"}, lpc |-> lpc, mpc |-> mpc, state |-> state,
        pausech |-> pausech, resumech |-> resumech, mux |-> mux, subs |-> subs,
        fseq |-> fseq, lost |-> lost, closed |-> closedSeen, full |-> {}]
\* a goroutine is parked at a signal send and the channel is full: the next step is the send that
\* must not block (regression guard of the non-blocking repair)
FullRoles == {a \in Apps : (apc[a] = "f.psend" /\ pausech = Cap) \/ (apc[a] = "s.send" /\ resumech = Cap)}
             \cup (IF lpc = "ps.send" /\ pausech = Cap THEN {"loop"} ELSE {})
InvEmitFull == (Hist /\ FullRoles # {}) => PrintT("BEH " \o ToJson([Beh EXCEPT !.full = FullRoles]))

InvEmit == (Hist /\ EmitNow) => PrintT("BEH " \o ToJson(Beh))
\* only the interesting ends (exhaustive generation: one behaviour per distinct end state)
InvEmitBad == (Hist /\ (Stuck \/ (AtRest /\ LostResume))) => PrintT("BEH " \o ToJson(Beh))
=============================================================================
