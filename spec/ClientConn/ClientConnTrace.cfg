CONSTANTS
  Apps = {"a1", "a2"}
  Scripts <- Scripts_none
  Cap = 2
  MaxFaults = 0
  FaultKinds = {}
  Outcomes = {"data", "keepalive", "timeout", "fault"}
  MaxPub = 40
  AutoReconnect = TRUE
  SrvTransfers = FALSE
  Dev_BlockingSignals = FALSE
  Dev_SplitSignals = TRUE
  Dev_RestoreNoResume = FALSE
  Dev_RecreateErrorLost = TRUE
  Dev_ArmIgnoresClose = FALSE
  Dev_DrainDropsLoss = TRUE
  Hist = FALSE
SPECIFICATION TSpec
CONSTRAINT HighWater
POSTCONDITION Accepted
CHECK_DEADLOCK FALSE
