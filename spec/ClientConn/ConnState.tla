------------------------------ MODULE ConnState ------------------------------
(* The reported connection states and the documented transitions (connstate.go), shared by
   ClientConn (ActTransitions) and the observer StateObs. *)
States == {"Closed", "Connecting", "Connected", "Disconnected", "Reconnecting"}

\* connstate.go: Connecting = "connecting to a server for the first time"; Disconnected =
\* "currently disconnected"; Reconnecting = "attempting to reconnect to a server it was
\* previously connected to"; Closed = "currently closed".  Re-reporting the current state
\* is stuttering.
Documented ==
  { <<"Closed", "Connecting">>, <<"Connecting", "Connected">>, <<"Connecting", "Closed">>,
    <<"Connected", "Disconnected">>, <<"Disconnected", "Reconnecting">>,
    <<"Reconnecting", "Connected">>, <<"Reconnecting", "Disconnected">>,
    <<"Connected", "Closed">>, <<"Disconnected", "Closed">>, <<"Reconnecting", "Closed">> }
=============================================================================
