CONSTANTS
  Apps = {"a1"}
  Scripts <- Scripts_c27_block
  Cap = 2
  MaxFaults = 0
  FaultKinds = {}
  Outcomes = {"data", "keepalive", "timeout"}
  MaxPub = 1
  AutoReconnect = TRUE
  SrvTransfers = FALSE
  Dev_BlockingSignals = TRUE
  Dev_SplitSignals = FALSE
  Dev_RestoreNoResume = FALSE
  Dev_RecreateErrorLost = FALSE
  Dev_ArmIgnoresClose = FALSE
  Dev_DrainDropsLoss = FALSE
  Hist = FALSE
INIT Init
NEXT Next
VIEW view
CONSTRAINT Bound
INVARIANT InvNoStuckCall
INVARIANT InvLoopNotBlocked
CHECK_DEADLOCK FALSE
