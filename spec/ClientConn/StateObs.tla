------------------------------ MODULE StateObs ------------------------------
(***************************************************************************)
(* C25, deterministic observer over the recorded state reports (every      *)
(* setState of the client, any goroutine), the Close notes and the dial     *)
(* notes of the proxy; the same records as ClientConnLife, any number of    *)
(* traces separated by "reset".  Independent of whether the as-is model     *)
(* can explain the whole trace.                                             *)
(*   UNDOC <l> <from> <to>     transition not in ConnState!Documented        *)
(*   AFTERCLOSE <l> <what>     state other than Closed reported, or a        *)
(*                             connection attempt, after Close() returned   *)
(***************************************************************************)
EXTENDS Naturals, Sequences, TLC, Json, ConnState

Tr == ndJsonDeserialize("trace.ndjson")
VARIABLES l, lastState, closedObs
ovars == <<l, lastState, closedObs>>
E == Tr[l]

OInit == l = 1 /\ lastState = "Connected" /\ closedObs = FALSE

ONext ==
  /\ l <= Len(Tr) /\ l' = l + 1
  /\ IF E.ev = "reset" THEN lastState' = "Connected" /\ closedObs' = FALSE
     ELSE IF E.ev = "state"
       THEN /\ IF E.state = lastState \/ <<lastState, E.state>> \in Documented THEN TRUE
               ELSE PrintT("UNDOC " \o ToString(l) \o " " \o lastState \o " " \o E.state)
            /\ IF ~closedObs \/ E.state = "Closed" THEN TRUE
               ELSE PrintT("AFTERCLOSE " \o ToString(l) \o " state " \o E.state)
            /\ lastState' = E.state /\ UNCHANGED closedObs
     ELSE IF E.ev = "closed" THEN closedObs' = TRUE /\ UNCHANGED lastState
     ELSE IF E.g = "env" /\ E.ev = "dial"
       THEN /\ IF ~closedObs THEN TRUE ELSE PrintT("AFTERCLOSE " \o ToString(l) \o " dial")
            /\ UNCHANGED <<lastState, closedObs>>
     ELSE UNCHANGED <<lastState, closedObs>>

OSpec == OInit /\ [][ONext]_ovars
=============================================================================
