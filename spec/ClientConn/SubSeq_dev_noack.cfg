CONSTANTS
  MaxEvents = 3
  Dev_KeepAliveAdvances = FALSE
  Dev_RepublishNoAck = TRUE
  Dev_TransferEmptyNoResume = FALSE
  Dev_UnknownSubKeepsAcks = FALSE
INIT Init
NEXT Next
CHECK_DEADLOCK FALSE
INVARIANT InvAckAll
