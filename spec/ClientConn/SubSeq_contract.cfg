CONSTANTS
  MaxEvents = 5
  Dev_KeepAliveAdvances = FALSE
  Dev_RepublishNoAck = FALSE
  Dev_TransferEmptyNoResume = FALSE
  Dev_UnknownSubKeepsAcks = FALSE
INIT Init
NEXT Next
CHECK_DEADLOCK FALSE
INVARIANT InvDelivered
INVARIANT InvResumed
INVARIANT InvAckOnce
INVARIANT InvAckAll
INVARIANT InvQueueDrained
