CONSTANTS
  MaxEvents = 3
  Dev_KeepAliveAdvances = FALSE
  Dev_RepublishNoAck = FALSE
  Dev_TransferEmptyNoResume = TRUE
  Dev_UnknownSubKeepsAcks = FALSE
INIT Init
NEXT Next
CHECK_DEADLOCK FALSE
INVARIANT InvResumed
