CONSTANTS
  MaxEvents = 3
  Dev_KeepAliveAdvances = TRUE
  Dev_RepublishNoAck = FALSE
  Dev_TransferEmptyNoResume = FALSE
  Dev_UnknownSubKeepsAcks = FALSE
INIT Init
NEXT Next
CHECK_DEADLOCK FALSE
INVARIANT InvDelivered
