CONSTANTS
  Apps = {"a1", "a2"}
  Scripts <- Scripts_c27_small
  Cap = 2
  MaxFaults = 0
  FaultKinds = {}
  Outcomes = {"data", "keepalive", "timeout"}
  MaxPub = 2
  AutoReconnect = TRUE
  SrvTransfers = FALSE
  Dev_BlockingSignals = FALSE
  Dev_SplitSignals = FALSE
  Dev_RestoreNoResume = FALSE
  Dev_RecreateErrorLost = FALSE
  Dev_ArmIgnoresClose = FALSE
  Dev_DrainDropsLoss = FALSE
  Hist = FALSE
INIT Init
NEXT Next
VIEW view
CONSTRAINT Bound
INVARIANT TypeOK
INVARIANT InvNoStuckCall
INVARIANT InvLoopNotBlocked
INVARIANT InvPublishProgress
INVARIANT InvAckOnce
INVARIANT InvAckKept
CHECK_DEADLOCK FALSE
