CONSTANTS
  Apps = {"a1"}
  Scripts <- Scripts_c25_small
  Cap = 2
  MaxFaults = 2
  FaultKinds = {"reset", "restart", "outage"}
  Outcomes = {"data", "timeout", "fault"}
  MaxPub = 1
  AutoReconnect = TRUE
  SrvTransfers = FALSE
  Dev_BlockingSignals = FALSE
  Dev_SplitSignals = FALSE
  Dev_RestoreNoResume = FALSE
  Dev_RecreateErrorLost = FALSE
  Dev_ArmIgnoresClose = FALSE
  Dev_DrainDropsLoss = FALSE
  Hist = FALSE
INIT Init
NEXT Next
CONSTRAINT Bound
CHECK_DEADLOCK FALSE
VIEW view
INVARIANT TypeOK
INVARIANT InvAfterClose
INVARIANT InvNoSilentLoss
INVARIANT InvAllDoneAfterClose
INVARIANT InvSubsSurvive
INVARIANT InvAckOnce
INVARIANT InvAckKept
INVARIANT InvNoStuckCall
INVARIANT InvPublishProgress
PROPERTY ActTransitions
