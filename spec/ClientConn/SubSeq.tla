------------------------------- MODULE SubSeq -------------------------------
(***************************************************************************)
(* C26 -- the notification stream of one subscription across connection    *)
(* losses, against a server that keeps a retransmission queue and          *)
(* implements Republish and TransferSubscriptions (OPC UA Part 4, 5.13).   *)
(*                                                                         *)
(* Server: srvSeq (last sequence number used), queue (retransmission       *)
(* queue: sent, not yet acknowledged), produced.  A keep-alive carries the *)
(* sequence number the NEXT notification will have (Part 4, 7.21).         *)
(* Client (client_sub.go handleNotification / sendRepublishRequests):      *)
(* nextSeq, pend (pendingAcks), delivered (what the application got).      *)
(*                                                                         *)
(* One action = one event of a scenario row the harness can produce        *)
(* deterministically with its scripted server and the proxy:               *)
(*   Data        a notification is published, received, its ack reaches    *)
(*               the server with the next PublishRequest                   *)
(*   DataAckLost received, but the link is cut before the next request     *)
(*               leaves; reconnect (session kept)                           *)
(*   KeepAlive   a keep-alive is received                                   *)
(*   Lose(s)     a notification is produced and queued, the link is cut    *)
(*               before it arrives; reconnect with the session kept         *)
(*               (s = "kept": restoreSession -> republish) or lost          *)
(*               (s = "lost": recreateSession -> TransferSubscriptions ->   *)
(*               republish)                                                  *)
(*   Cut(s)      the link is cut with nothing in flight; reconnect          *)
(* Reconnect = Republish from nextSeq while the server has the message.     *)
(*                                                                         *)
(* Contract: every notification the server produced is delivered exactly   *)
(* once and in order; every delivered notification is acknowledged exactly *)
(* once (an acknowledgement lost with the link is repeated).                *)
(* Deviations: Dev_KeepAliveAdvances (keep-alive n sets nextSeq = n + 1),   *)
(* Dev_RepublishNoAck (republished notifications are never acknowledged),  *)
(* Dev_TransferEmptyNoResume (a transferred subscription with an empty      *)
(* retransmission queue is not resumed: nothing is delivered any more).     *)
(***************************************************************************)
EXTENDS Naturals, Sequences, FiniteSets, TLC, Json

CONSTANTS MaxEvents, Dev_KeepAliveAdvances, Dev_RepublishNoAck, Dev_TransferEmptyNoResume, Dev_UnknownSubKeepsAcks

VARIABLES srvSeq, queue, produced, nextSeq, pend, delivered, ackcnt, dead, sent, hist
vars == <<srvSeq, queue, produced, nextSeq, pend, delivered, ackcnt, dead, sent, hist>>

MaxSeq == MaxEvents + 1
Init == /\ srvSeq = 0 /\ queue = {} /\ produced = {} /\ nextSeq = 1 /\ pend = {} /\ delivered = <<>>
        /\ ackcnt = [n \in 1..MaxSeq |-> 0] /\ dead = FALSE /\ sent = {} /\ hist = <<>>

Ev(e) == hist' = Append(hist, e)

\* the server processes the acknowledgements of a PublishRequest
Acked(S) == [n \in 1..MaxSeq |-> IF n \in S THEN ackcnt[n] + 1 ELSE ackcnt[n]]

\* the client receives data notification n over the publish loop
RecvData(n, acksArrive) ==
  /\ delivered' = Append(delivered, n)
  /\ nextSeq' = n + 1
  /\ IF acksArrive THEN pend' = {} /\ queue' = (queue \cup {n}) \ (pend \cup {n}) /\ ackcnt' = Acked(pend \cup {n})
                   ELSE pend' = pend \cup {n} /\ queue' = queue \cup {n} /\ UNCHANGED ackcnt

Live == ~dead /\ Len(hist) < MaxEvents

Data ==
  /\ Live
  /\ srvSeq' = srvSeq + 1 /\ produced' = produced \cup {srvSeq + 1}
  /\ RecvData(srvSeq + 1, TRUE)
  /\ sent' = pend \cup {srvSeq + 1}      \* carried by the request that now waits at the server
  /\ Ev("data") /\ UNCHANGED dead

KeepAlive ==
  /\ Live
  /\ nextSeq' = IF Dev_KeepAliveAdvances THEN srvSeq + 2 ELSE srvSeq + 1
  \* the next PublishRequest carries the pending acknowledgements
  /\ queue' = queue \ pend /\ ackcnt' = Acked(pend) /\ pend' = {} /\ sent' = pend
  /\ Ev("keepalive") /\ UNCHANGED <<srvSeq, produced, delivered, dead>>

\* Republish after a reconnect: from nextSeq on, as long as the server has the message
RECURSIVE Missing(_, _)
Missing(n, q) == IF n \in q THEN <<n>> \o Missing(n + 1, q) ELSE <<>>

\* s = "kept" | "lost" (session).  q = retransmission queue at the time of the reconnect.
Reconnect(s, q, nx, dl, pd, ac) ==
  LET rep == Missing(nx, q)
      noresume == s = "lost" /\ Dev_TransferEmptyNoResume /\ q = {}
      repset == {rep[i] : i \in 1..Len(rep)}
      \* first PublishRequest after the resume: pending acks (+ those of the republished messages)
      acks == IF Dev_RepublishNoAck THEN pd ELSE pd \cup repset
  IN /\ delivered' = dl \o rep
     /\ nextSeq' = nx + Len(rep)
     /\ dead' = noresume /\ sent' = {}
     /\ IF noresume THEN pend' = pd /\ queue' = q /\ ackcnt' = ac
                    ELSE pend' = {} /\ queue' = q \ acks
                         /\ ackcnt' = [n \in 1..MaxSeq |-> IF n \in acks THEN ac[n] + 1 ELSE ac[n]]

DataAckLost ==
  /\ Live
  /\ srvSeq' = srvSeq + 1 /\ produced' = produced \cup {srvSeq + 1}
  /\ Reconnect("kept", queue \cup {srvSeq + 1}, srvSeq + 2, Append(delivered, srvSeq + 1), pend \cup {srvSeq + 1}, ackcnt)
  /\ Ev("data-acklost")

Lose(s) ==
  /\ Live
  /\ srvSeq' = srvSeq + 1 /\ produced' = produced \cup {srvSeq + 1}
  /\ Reconnect(s, queue \cup {srvSeq + 1}, nextSeq, delivered, pend, ackcnt)
  /\ Ev("lose-" \o s)

Cut(s) ==
  /\ Live
  /\ Reconnect(s, queue, nextSeq, delivered, pend, ackcnt)
  /\ Ev("cut-" \o s) /\ UNCHANGED <<srvSeq, produced>>

\* The waiting request is answered for ANOTHER subscription which the client has just cancelled and
\* forgotten (its keep-alive was still queued at the server).  The response settles the acknowledgements
\* the request carried; as-is deviation of interest: they stay pending and go out a second time.
\* (C36: the same place where a response the loop does not special-case fans out to all subscriptions.)
OtherResponse ==
  /\ Live
  /\ IF Dev_UnknownSubKeepsAcks THEN ackcnt' = Acked(sent) /\ UNCHANGED sent
                                 ELSE UNCHANGED ackcnt /\ sent' = {}
  /\ Ev("other-response") /\ UNCHANGED <<srvSeq, queue, produced, nextSeq, pend, delivered, dead>>

\* a PublishResponse with a bad service result and subscription id 0: every subscription is told
\* (notifyAllSubscriptionsOfError), the loop pauses, the monitor reconnects with the session kept
PublishError ==
  /\ Live
  /\ Reconnect("kept", queue, nextSeq, delivered, pend, ackcnt)
  /\ Ev("publish-error") /\ UNCHANGED <<srvSeq, produced>>

Next == Data \/ KeepAlive \/ OtherResponse \/ PublishError \/ DataAckLost \/ (\E s \in {"kept", "lost"} : Lose(s) \/ Cut(s))
Spec == Init /\ [][Next]_vars

---------------------------------------------------------------------------
Range(sq) == {sq[i] : i \in 1..Len(sq)}
\* exactly once, in order, nothing missing (every event is complete, so every state is quiescent)
InvDelivered == /\ \A i, j \in 1..Len(delivered) : i < j => delivered[i] < delivered[j]
                /\ ~dead => Range(delivered) = produced
\* the stream goes on after every reconnect
InvResumed == ~dead
\* acknowledged exactly once: at most once, and nothing delivered stays unacknowledged
InvAckOnce == \A n \in 1..MaxSeq : ackcnt[n] <= 1
InvAckAll == ~dead => \A n \in Range(delivered) : ackcnt[n] = 1 \/ n \in pend
InvQueueDrained == ~dead => queue \subseteq pend

\* rows: every complete scenario with what the application must have received
Row == [events |-> hist, delivered |-> delivered, produced |-> produced, acked |-> {n \in 1..MaxSeq : ackcnt[n] > 0},
        pending |-> pend, queue |-> queue, dead |-> dead]
InvEmit == (Len(hist) = MaxEvents \/ dead) => PrintT("ROW " \o ToJson(Row))
=============================================================================
