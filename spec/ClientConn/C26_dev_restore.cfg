CONSTANTS
  Apps = {"a1"}
  Scripts <- Scripts_c25_live
  Cap = 2
  MaxFaults = 1
  FaultKinds = {"reset", "restart", "outage"}
  Outcomes = {"data", "timeout", "fault"}
  MaxPub = 1
  AutoReconnect = TRUE
  SrvTransfers = FALSE
  Dev_BlockingSignals = FALSE
  Dev_SplitSignals = FALSE
  Dev_RestoreNoResume = TRUE
  Dev_RecreateErrorLost = FALSE
  Dev_ArmIgnoresClose = FALSE
  Dev_DrainDropsLoss = FALSE
  Hist = FALSE
INIT Init
NEXT Next
CONSTRAINT Bound
CHECK_DEADLOCK FALSE
VIEW view
INVARIANT InvSubsSurvive
