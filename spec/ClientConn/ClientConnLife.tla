---------------------------- MODULE ClientConnLife ----------------------------
(***************************************************************************)
(* Trace validation of free-running fault scenarios (C25, C26) against     *)
(* ClientConn.  The client is not gated here, so the effects of a code     *)
(* segment (channel send, lock, unlock ...) happen at an unknown moment     *)
(* between the two hook events that delimit it.  Therefore every action of *)
(* application, publish loop and monitor is a silent step, and a hook      *)
(* event only CONFIRMS that its goroutine has reached the corresponding    *)
(* park point (with the logged data).  A goroutine that has reached a park *)
(* point does not move on before the event is consumed (conf).  Faults,    *)
(* outage ends, API call starts and Close happen exactly at their (harness *)
(* stamped) events.  Acceptance: high-water mark, -workers 1, DFS queue.   *)
(*                                                                         *)
(* Checks that depend only on the log are evaluated on the observed events *)
(* and reported with PrintT (they are the same on every branch):           *)
(*   UNDOC  <l> <from> <to>   reported ConnState transition not documented *)
(*   AFTERCLOSE <l> <what>    state report / dial after Close returned     *)
(*   ACKTWICE <l> <sub> <seq> acknowledgement repeated after a request     *)
(*                            carrying it was answered                      *)
(*   ACKMISSING <l> <sub> <seq> a received notification is not             *)
(*                            acknowledged with the next publish request   *)
(***************************************************************************)
EXTENDS ClientConnMC, Integers

Tr == ndJsonDeserialize("trace.ndjson")

VARIABLES l, conf, lastState, closedObs, mustAck, acked, carry
tvars == <<vars, l, conf, lastState, closedObs, mustAck, acked, carry>>
obs == <<lastState, closedObs, mustAck, acked, carry>>

Roles == Apps \cup {"loop", "mon"}
More == l <= Len(Tr)
E == Tr[l]
IsEv(g, e) == More /\ E.g = g /\ E.ev = e /\ l' = l + 1

ArmName(a) == CASE a = "resume" -> "a.resume" [] a = "pause" -> "a.pause" [] a = "paused.resume" -> "a.presume"
                [] a = "paused.pause" -> "a.ppause" [] a = "publish" -> "a.publish" [] a = "publish.err" -> "a.err"
                [] OTHER -> "?"

\* is the role at a point that needs no confirmation?
Free(r, ap, lp, mp) == IF r = "loop" THEN lp \in {"done"}
                       ELSE IF r = "mon" THEN mp \in {"idle", "m.dial", "m.exit", "done"}
                       ELSE ap[r] = "idle"

TInit == /\ TLCSet(1, 1) /\ l = 1 /\ Init
         /\ conf = [r \in Roles |-> TRUE]
         /\ lastState = "Connected" /\ closedObs = FALSE /\ mustAck = {} /\ acked = {} /\ carry = {}

TReset ==
  /\ IsEv("main", "reset")
  /\ state' = "Connected" /\ closedSeen' = FALSE
  /\ apc' = [a \in Apps |-> "idle"]
  /\ script' = [a \in Apps |-> E.scripts[a]]
  /\ mine' = [a \in Apps |-> {}] /\ cur' = [a \in Apps |-> 0]
  /\ subs' = {} /\ nextId' = 1 /\ srvSubs' = {}
  /\ srvUp' = TRUE /\ srvSess' = TRUE /\ conn' = "up" /\ sess' = TRUE /\ errq' = "none"
  /\ pausech' = 0 /\ resumech' = 0 /\ mux' = "none" /\ lpc' = "a.pause" /\ pubOut' = "none" /\ pubSub' = 0
  /\ mpc' = "idle" /\ action' = "none" /\ activeSubs' = 0 /\ toRecreate' = {} /\ toRepublish' = {} /\ restored' = FALSE
  /\ ctxDone' = FALSE /\ dials' = 1 /\ dialsAtClose' = 0 /\ faults' = 0
  /\ seq' = 0 /\ pend' = {} /\ inflight' = {} /\ ackcnt' = [n \in 1..(MaxPub + 1) |-> 0] /\ datas' = {} /\ lost' = {}
  /\ hist' = <<>> /\ fseq' = <<>>
  /\ conf' = [r \in Roles |-> r # "loop"]      \* the loop is parked at its initial arm=pause, confirmed below
  /\ lastState' = "Connected" /\ closedObs' = FALSE /\ mustAck' = {} /\ acked' = {} /\ carry' = {}

\* ---- silent steps ----
RoleNext(r) == IF r = "loop" THEN Loop ELSE IF r = "mon" THEN Mon
               ELSE (SubSend(r) \/ SubReg(r) \/ FgLock(r) \/ FgDelete(r) \/ FgPause(r) \/ FgUnlock(r))

TSilent(r) ==
  /\ conf[r] /\ RoleNext(r)
  /\ conf' = [conf EXCEPT ![r] = Free(r, apc', lpc', mpc')]
  /\ UNCHANGED <<l, obs>>

\* ---- confirming events ----
Confirm(r) == ~conf[r] /\ conf' = [conf EXCEPT ![r] = TRUE] /\ UNCHANGED vars

TAppEv(a) ==
  \/ IsEv(a, "sub.resume.send") /\ apc[a] = "s.send" /\ cur[a] = E.id /\ Confirm(a) /\ UNCHANGED obs
  \/ IsEv(a, "sub.resume.sent") /\ apc[a] = "s.sent" /\ Confirm(a) /\ UNCHANGED obs
  \/ IsEv(a, "forget.lock") /\ apc[a] = "f.lock" /\ cur[a] = E.id /\ Confirm(a) /\ UNCHANGED obs
  \/ IsEv(a, "forget.locked") /\ apc[a] = "f.locked" /\ Confirm(a) /\ UNCHANGED obs
  \/ IsEv(a, "sub.pause.send") /\ apc[a] = "f.psend" /\ Confirm(a) /\ UNCHANGED obs
  \/ IsEv(a, "sub.pause.sent") /\ apc[a] = "f.psent" /\ Confirm(a) /\ UNCHANGED obs
  \* call starts and Close happen at their events
  \/ /\ IsEv(a, "call") /\ conf[a] /\ apc[a] = "idle"
     /\ \/ E.api = "subscribe" /\ E.okcall = 1 /\ SubCall(a) /\ apc'[a] = "s.send" /\ cur'[a] = E.id
        \/ E.api = "subscribe" /\ E.okcall = 0 /\ SubCall(a) /\ apc'[a] = "idle"
        \/ E.api = "cancel" /\ CancelCall(a) /\ (apc'[a] = "idle" \/ cur'[a] = E.id)
     /\ conf' = [conf EXCEPT ![a] = (apc'[a] = "idle")] /\ UNCHANGED obs
  \/ /\ IsEv(a, "state") /\ E.state = "Closed" /\ conf[a] /\ CloseCall(a)
     /\ IF <<lastState, "Closed">> \in Documented \/ lastState = "Closed" THEN TRUE
        ELSE PrintT("UNDOC " \o ToString(l) \o " " \o lastState \o " Closed")
     /\ lastState' = "Closed" /\ UNCHANGED <<conf, closedObs, mustAck, acked, carry>>
  \/ /\ IsEv(a, "closed") /\ closedObs' = TRUE /\ UNCHANGED <<vars, conf, lastState, mustAck, acked, carry>>

AckSet(xs) == {<<xs[i][1], xs[i][2]>> : i \in 1..Len(xs)}

TLoopEv ==
  \/ /\ IsEv("loop", "sub.loop") /\ lpc = ArmName(E.arm) /\ Confirm("loop")
     /\ carry' = IF E.arm = "publish.err" THEN {} ELSE carry
     /\ UNCHANGED <<lastState, closedObs, mustAck, acked>>
  \/ /\ IsEv("loop", "pub.send") /\ lpc = "p.send" /\ Confirm("loop")
     \* acknowledgements of notifications received before a server restart are stale, not counted
     /\ carry' = AckSet(E.acks) \cap mustAck
     /\ \A x \in (AckSet(E.acks) \cap mustAck) \cap acked : PrintT("ACKTWICE " \o ToString(l) \o " " \o ToString(x[1]) \o " " \o ToString(x[2]))
     /\ \A x \in (mustAck \ acked) \ AckSet(E.acks) : PrintT("ACKMISSING " \o ToString(l) \o " " \o ToString(x[1]) \o " " \o ToString(x[2]))
     /\ UNCHANGED <<lastState, closedObs, mustAck, acked>>
  \/ /\ IsEv("loop", "pub.lock") /\ lpc = "p.lock" /\ (E.msub = 0 \/ pubSub = E.msub) /\ Confirm("loop")
     /\ acked' = acked \cup carry /\ carry' = {}
     /\ UNCHANGED <<lastState, closedObs, mustAck>>
  \/ /\ IsEv("loop", "pub.locked") /\ lpc = "p.locked" /\ Confirm("loop")
     \* resolves the guesses of the silent LoopPubResult: data of a registered subscription or not
     /\ ((seq \in datas) <=> (E.ndata > 0 /\ E.known = 1))
     /\ mustAck' = IF E.ndata > 0 /\ E.known = 1 THEN mustAck \cup {<<E.sub, E.seq>>} ELSE mustAck
     /\ UNCHANGED <<lastState, closedObs, acked, carry>>
  \/ IsEv("loop", "sub.pause.send") /\ lpc = "ps.send" /\ Confirm("loop") /\ UNCHANGED obs
  \/ IsEv("loop", "sub.pause.sent") /\ lpc = "ps.sent" /\ Confirm("loop") /\ UNCHANGED obs

TMonEv ==
  \/ IsEv("mon", "sub.pause.send") /\ mpc \in {"m.psend", "m.rpsend"} /\ Confirm("mon") /\ UNCHANGED obs
  \/ IsEv("mon", "sub.pause.sent") /\ mpc \in {"m.psent", "m.rpsent"} /\ Confirm("mon") /\ UNCHANGED obs
  \/ /\ IsEv("mon", "mon.action") /\ mpc = "m.act" /\ action = E.action /\ Confirm("mon")
     \* after transferSubscriptions every subscription is re-created (the gopcua server does not transfer);
     \* the server numbers the new ones and their notifications from 1 again
     /\ IF E.action = "transferSubscriptions" THEN mustAck' = {} /\ acked' = {} /\ carry' = {}
                                             ELSE UNCHANGED <<mustAck, acked, carry>>
     /\ UNCHANGED <<lastState, closedObs>>
  \/ IsEv("mon", "mon.done") /\ mpc = "m.done" /\ ((activeSubs > 0) <=> (E.id > 0)) /\ Confirm("mon") /\ UNCHANGED obs
  \/ IsEv("mon", "sub.resume.send") /\ mpc = "m.rsend" /\ Confirm("mon") /\ UNCHANGED obs
  \* a state report of the monitor goroutine: the model is in that state
  \/ /\ IsEv("mon", "state") /\ state = E.state
     /\ IF E.state = lastState \/ <<lastState, E.state>> \in Documented THEN TRUE
        ELSE PrintT("UNDOC " \o ToString(l) \o " " \o lastState \o " " \o E.state)
     /\ IF ~closedObs \/ E.state = "Closed" THEN TRUE
        ELSE PrintT("AFTERCLOSE " \o ToString(l) \o " state " \o E.state)
     /\ lastState' = E.state /\ UNCHANGED <<vars, conf, closedObs, mustAck, acked, carry>>

TEnvEv ==
  \/ /\ IsEv("env", "fault") /\ Fault(E.kind)
     \* a restarted server numbers subscriptions and notifications from 1 again
     /\ IF E.kind = "restart" THEN mustAck' = {} /\ acked' = {} /\ carry' = {} ELSE UNCHANGED <<mustAck, acked, carry>>
     /\ UNCHANGED <<conf, lastState, closedObs>>
  \/ IsEv("env", "fault.end") /\ OutageEnd /\ UNCHANGED <<conf, obs>>
  \/ /\ IsEv("env", "dial")
     /\ IF ~closedObs THEN TRUE ELSE PrintT("AFTERCLOSE " \o ToString(l) \o " dial")
     /\ UNCHANGED <<vars, conf, obs>>

TNext == TReset \/ (\E r \in Roles : TSilent(r)) \/ (\E a \in Apps : TAppEv(a)) \/ TLoopEv \/ TMonEv \/ TEnvEv
TSpec == TInit /\ [][TNext]_tvars

HighWater == TLCSet(1, IF l > TLCGet(1) THEN l ELSE TLCGet(1))
Accepted == IF TLCGet(1) = Len(Tr) + 1 THEN TRUE
            ELSE PrintT("STUCK " \o ToString(TLCGet(1))) /\ FALSE
=============================================================================
