--------------------------- MODULE ClientConnTrace ---------------------------
(***************************************************************************)
(* Trace validation for ClientConn (C27 schedule replays; the C25/C26      *)
(* fault scenarios use ClientConnLife).  The log holds the verif hook      *)
(* events of the real client in the order of arrival at the hooks (taken   *)
(* under one mutex) plus the harness' call / return notes.  Under the      *)
(* schedule gate exactly one goroutine runs between two events, so every   *)
(* event is the end of one ClientConn action: the code from the previous   *)
(* park point of that goroutine to the hook it arrived at.                 *)
(*                                                                         *)
(* normalised events (all fields always present):                          *)
(*   {"g":"main","ev":"reset","scripts":{"a1":[...],...}}  next trace      *)
(*   {"g":<app>,"ev":"sub.resume.send"|"sub.resume.sent"|"forget.lock"|    *)
(*        "forget.locked"|"sub.pause.send"|"sub.pause.sent"|"return"|"skip",*)
(*        "api":"subscribe"|"cancel","id":<model subscription id>}         *)
(*   {"g":"loop","ev":"sub.loop","arm":...} | "pub.send" | "pub.lock" |    *)
(*        "pub.locked" (ndata) | "sub.pause.send" | "sub.pause.sent"       *)
(* Acceptance: high-water mark (TLCSet register 1), -workers 1.            *)
(***************************************************************************)
EXTENDS ClientConnMC, Integers

Tr == ndJsonDeserialize("trace.ndjson")

VARIABLE l
tvars == <<vars, l>>

More == l <= Len(Tr)
E == Tr[l]
IsEv(g, e) == More /\ E.g = g /\ E.ev = e /\ l' = l + 1

ArmName(a) == CASE a = "resume" -> "a.resume" [] a = "pause" -> "a.pause" [] a = "paused.resume" -> "a.presume"
                [] a = "paused.pause" -> "a.ppause" [] a = "publish" -> "a.publish" [] OTHER -> "?"

TInit == /\ TLCSet(1, 1) /\ l = 1
         /\ Init

\* a new trace starts: everything as in Init, the scripts come from the log
TReset ==
  /\ IsEv("main", "reset")
  /\ state' = "Connected" /\ closedSeen' = FALSE
  /\ apc' = [a \in Apps |-> "idle"]
  /\ script' = [a \in Apps |-> E.scripts[a]]
  /\ mine' = [a \in Apps |-> {}] /\ cur' = [a \in Apps |-> 0]
  /\ subs' = {} /\ nextId' = 1 /\ srvSubs' = {}
  /\ srvUp' = TRUE /\ srvSess' = TRUE /\ conn' = "up" /\ sess' = TRUE /\ errq' = "none"
  /\ pausech' = 0 /\ resumech' = 0 /\ mux' = "none" /\ lpc' = "a.pause" /\ pubOut' = "none" /\ pubSub' = 0
  /\ mpc' = "idle" /\ action' = "none" /\ activeSubs' = 0 /\ toRecreate' = {} /\ toRepublish' = {} /\ restored' = FALSE
  /\ ctxDone' = FALSE /\ dials' = 1 /\ dialsAtClose' = 0 /\ faults' = 0
  /\ seq' = 0 /\ pend' = {} /\ inflight' = {} /\ ackcnt' = [n \in 1..(MaxPub + 1) |-> 0] /\ datas' = {} /\ lost' = {}
  /\ hist' = <<>> /\ fseq' = <<>>

TApp(a) ==
  \/ IsEv(a, "sub.resume.send") /\ SubCall(a) /\ apc'[a] = "s.send" /\ cur'[a] = E.id
  \/ IsEv(a, "sub.resume.sent") /\ SubSend(a)
  \/ IsEv(a, "return") /\ E.api = "subscribe" /\ SubReg(a)
  \/ IsEv(a, "skip") /\ E.api = "subscribe" /\ SubCall(a) /\ apc'[a] = "idle"
  \/ IsEv(a, "skip") /\ E.api = "cancel" /\ CancelCall(a) /\ apc'[a] = "idle"
  \/ IsEv(a, "forget.lock") /\ CancelCall(a) /\ apc'[a] = "f.lock" /\ cur'[a] = E.id
  \/ IsEv(a, "forget.locked") /\ FgLock(a)
  \/ IsEv(a, "sub.pause.send") /\ FgDelete(a) /\ apc'[a] = "f.psend"
  \/ IsEv(a, "sub.pause.sent") /\ FgPause(a)
  \/ IsEv(a, "return") /\ E.api = "cancel" /\ ((FgDelete(a) /\ apc'[a] = "idle") \/ FgUnlock(a))

TLoop ==
  \/ IsEv("loop", "sub.loop") /\ E.arm # "publish.err" /\ LoopSelect(ArmName(E.arm))
  \/ IsEv("loop", "sub.loop") /\ E.arm = "publish.err" /\ LoopPubResult("fault")
  \/ IsEv("loop", "pub.send") /\ LoopPubStart
  \/ IsEv("loop", "pub.lock") /\ (LoopPubResult("data") \/ LoopPubResult("keepalive"))
  \/ IsEv("loop", "pub.locked") /\ LoopPubLock /\ ((E.ndata > 0) <=> (pubOut = "data"))
  \/ IsEv("loop", "sub.pause.send") /\ LoopErr
  \/ IsEv("loop", "sub.pause.sent") /\ LoopSelfPause

TNext == (TReset \/ (\E a \in Apps : TApp(a)) \/ TLoop)
TSpec == TInit /\ [][TNext]_tvars

HighWater == TLCSet(1, IF l > TLCGet(1) THEN l ELSE TLCGet(1))
Accepted == IF TLCGet(1) = Len(Tr) + 1 THEN TRUE
            ELSE PrintT("STUCK " \o ToString(TLCGet(1))) /\ FALSE
=============================================================================
