CONSTANTS
  Apps = {"a1"}
  Scripts <- Scripts_c25_outage
  Cap = 2
  MaxFaults = 1
  FaultKinds = {"outage"}
  Outcomes = {"data", "timeout", "fault"}
  MaxPub = 1
  AutoReconnect = TRUE
  SrvTransfers = FALSE
  Dev_BlockingSignals = FALSE
  Dev_SplitSignals = TRUE
  Dev_RestoreNoResume = FALSE
  Dev_RecreateErrorLost = TRUE
  Dev_ArmIgnoresClose = FALSE
  Dev_DrainDropsLoss = TRUE
  Hist = TRUE
INIT Init
VIEW view
NEXT NextGen
CONSTRAINT Bound
CHECK_DEADLOCK FALSE
INVARIANT InvEmit
ACTION_CONSTRAINT FaultsAfterCalls
