------------------------------- MODULE AckObs -------------------------------
(***************************************************************************)
(* C26, acknowledgement bookkeeping as a (deterministic) observer over the *)
(* recorded hook events of the publish loop; the same records as           *)
(* ClientConnLife, any number of traces separated by "reset".              *)
(*                                                                         *)
(*   mustAck  notifications with data received for a registered            *)
(*            subscription (pub.locked: sub, seq, ndata > 0, known)        *)
(*   carry    acknowledgements in the outstanding PublishRequest (pub.send)*)
(*   acked    acknowledgements that were carried by a request the server   *)
(*            answered (pub.lock = a response arrived)                      *)
(* Contract (property C26): every element of mustAck is carried by the     *)
(* next PublishRequest (ACKMISSING otherwise) and is not carried again     *)
(* once a request carrying it was answered (ACKTWICE).  A request that     *)
(* ended without response (time-out, error) does not count.  A server      *)
(* restart / the re-creation of all subscriptions starts new numbering.    *)
(* Reports are printed; the run itself always completes.                    *)
(***************************************************************************)
EXTENDS Naturals, Sequences, TLC, Json

Tr == ndJsonDeserialize("trace.ndjson")
VARIABLES l, mustAck, acked, carry
ovars == <<l, mustAck, acked, carry>>

E == Tr[l]
AckSet(xs) == {<<xs[i][1], xs[i][2]>> : i \in 1..Len(xs)}
Say(what, x) == PrintT(what \o " " \o ToString(l) \o " " \o ToString(x[1]) \o " " \o ToString(x[2]))

OInit == l = 1 /\ mustAck = {} /\ acked = {} /\ carry = {}

Fresh == E.ev = "reset" \/ (E.g = "env" /\ E.ev = "fault" /\ E.kind = "restart")
         \/ (E.g = "mon" /\ E.ev = "mon.action" /\ E.action = "transferSubscriptions")

ONext ==
  /\ l <= Len(Tr) /\ l' = l + 1
  /\ IF Fresh THEN mustAck' = {} /\ acked' = {} /\ carry' = {}
     ELSE IF E.g = "loop" /\ E.ev = "pub.send"
       THEN /\ carry' = AckSet(E.acks) \cap mustAck
            /\ \A x \in (AckSet(E.acks) \cap mustAck) \cap acked : Say("ACKTWICE", x)
            /\ \A x \in (mustAck \ acked) \ AckSet(E.acks) : Say("ACKMISSING", x)
            /\ UNCHANGED <<mustAck, acked>>
     ELSE IF E.g = "loop" /\ E.ev = "pub.lock"
       THEN acked' = acked \cup carry /\ carry' = {} /\ UNCHANGED mustAck
     ELSE IF E.g = "loop" /\ E.ev = "pub.locked"
       THEN /\ mustAck' = IF E.ndata > 0 /\ E.known = 1 THEN mustAck \cup {<<E.sub, E.seq>>} ELSE mustAck
            /\ UNCHANGED <<acked, carry>>
     ELSE IF E.g = "loop" /\ E.ev = "sub.loop"
       THEN carry' = {} /\ UNCHANGED <<mustAck, acked>>      \* the request ended (error, time-out) or a new round starts
     ELSE UNCHANGED <<mustAck, acked, carry>>

OSpec == OInit /\ [][ONext]_ovars
=============================================================================
