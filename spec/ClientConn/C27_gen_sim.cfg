CONSTANTS
  Apps = {"a1", "a2"}
  Scripts <- Scripts_c27_small
  Cap = 2
  MaxFaults = 0
  FaultKinds = {}
  Outcomes = {"data", "keepalive", "timeout"}
  MaxPub = 1
  AutoReconnect = TRUE
  SrvTransfers = FALSE
  Dev_BlockingSignals = FALSE
  Dev_SplitSignals = TRUE
  Dev_RestoreNoResume = FALSE
  Dev_RecreateErrorLost = TRUE
  Dev_ArmIgnoresClose = FALSE
  Dev_DrainDropsLoss = TRUE
  Hist = TRUE
INIT Init
NEXT NextGen

CONSTRAINT Bound
INVARIANT InvEmit
CHECK_DEADLOCK FALSE
