CONSTANTS
  MaxEvents = 4
  Dev_KeepAliveAdvances = FALSE
  Dev_RepublishNoAck = FALSE
  Dev_TransferEmptyNoResume = FALSE
  Dev_UnknownSubKeepsAcks = FALSE
INIT Init
NEXT Next
CHECK_DEADLOCK FALSE
INVARIANT InvEmit
