CONSTANTS
  MaxEvents = 3
  Dev_KeepAliveAdvances = FALSE
  Dev_RepublishNoAck = FALSE
  Dev_TransferEmptyNoResume = FALSE
  Dev_UnknownSubKeepsAcks = TRUE
INIT Init
NEXT Next
CHECK_DEADLOCK FALSE
INVARIANT InvAckOnce
