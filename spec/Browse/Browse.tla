------------------------------- MODULE Browse -------------------------------
(***************************************************************************)
(* C33 -- Browse returns exactly the matching references.                  *)
(*                                                                         *)
(* The address space is a parameter: which reference type nodes exist,     *)
(* their forward HasSubtype references (in the order the node lists them), *)
(* and the reference list of every node that can be browsed.  A query is   *)
(* one BrowseDescription (node, direction, reference type, IncludeSubtypes,*)
(* node class mask).                                                       *)
(*                                                                         *)
(* Contract (Part 4, 5.8.2 and the property text): the result is exactly   *)
(* the node's own references                                               *)
(*   - whose direction matches,                                            *)
(*   - whose type equals the requested type, or -- only when subtypes are  *)
(*     requested -- is a (transitive) subtype of it; the null reference    *)
(*     type id means "all types",                                          *)
(*   - whose target node class is in the class mask; mask 0 means "all".   *)
(*                                                                         *)
(* The implementation (server/view_service.go suitableRef, suitableRefType,*)
(* getSubRefs; server/namespace_node.go Browse) is modelled as it is       *)
(* written: lookup of namespace and node, then one filter decision per     *)
(* reference in list order.  Two defects the tree had until commit 0989990 *)
(* are kept as deviation flags (non-vacuity demos, regression naming):     *)
(*   Dev_IgnoreSubtypeFlag  the subtype list is consulted even when         *)
(*                          IncludeSubtypes = FALSE;                       *)
(*   Dev_DeleteLoop         with IncludeSubtypes = FALSE, if the HasSubtype *)
(*                          reference type itself occurs in the depth-first*)
(*                          subtype list at a position > 0, the deletion   *)
(*                          loop runs off the slice and the server process *)
(*                          panics.                                        *)
(* With both flags FALSE, TLC proves Filter = Expected for every query.    *)
(* Every initial state (one query) is emitted as a row carrying the        *)
(* contract answer and the as-is prediction; the Go harness replays it on  *)
(* the real server through a real client.                                  *)
(***************************************************************************)
EXTENDS Naturals, Sequences, FiniteSets, TLC, Json

CONSTANTS
  TypeIds,      \* ids of the reference type nodes that exist in the address space
  ChildSeq,     \* [TypeIds -> Seq(id)]: targets of the forward HasSubtype references of each type node, in list order
  NodeIds,      \* ids of the nodes that can be browsed
  NodeRefs,     \* [NodeIds -> Seq([t : id, f : BOOLEAN, c : class bit, n : target id])]
  GhostNodes,   \* node ids used in queries that do not exist (unknown node / unknown namespace)
  QueryTypes,   \* reference type ids used in queries (existing or not); Null is added
  MaskSets,     \* class masks used in queries (sets of class bits; {} = mask 0 = all)
  HasSubtypeId, \* id of the HasSubtype reference type (i=45)
  Dev_IgnoreSubtypeFlag,
  Dev_DeleteLoop,
  Emit

Null == ""          \* the null reference type id (ns=0;i=0)
Dirs == {"forward", "inverse", "both"}

VARIABLES node, q, pc, i, out, status
vars == <<node, q, pc, i, out, status>>

---------------------------------------------------------------------------
\* Subtype closure of the reference type hierarchy
Range(s) == {s[k] : k \in DOMAIN s}
Children(t) == IF t \in TypeIds THEN Range(ChildSeq[t]) ELSE {}

RECURSIVE DescR(_, _)
\* descendants of t; `seen` guards against cycles in a malformed hierarchy
DescR(t, seen) == LET ch == Children(t) \ seen
                  IN  ch \cup UNION {DescR(c, seen \cup ch) : c \in ch}
Desc(t) == DescR(t, {t})
Descendants(t) == IF t \in TypeIds THEN Desc(t) ELSE {}

\* depth-first pre-order list the implementation builds (getSubRefs)
RECURSIVE Dfs(_, _)
Dfs(t, fuel) == IF fuel = 0 \/ t \notin TypeIds THEN <<>>
                ELSE LET cs == ChildSeq[t]
                         F[k \in 0..Len(cs)] ==
                            IF k = 0 THEN <<>>
                            ELSE F[k-1] \o <<cs[k]>> \o Dfs(cs[k], fuel - 1)
                     IN F[Len(cs)]
DfsList(t) == IF t \in TypeIds THEN Dfs(t, 12) ELSE <<>>

---------------------------------------------------------------------------
\* The contract
\* (operators take the subtype set `ds` of the requested type as a parameter so that it is
\* computed once per query)
DirOK(d, f)     == d = "both" \/ (d = "forward" /\ f) \/ (d = "inverse" /\ ~f)
TypeOKs(rt, sub, t, ds) == rt = Null \/ t = rt \/ (sub /\ t \in ds)
TypeOK(rt, sub, t) == TypeOKs(rt, sub, t, Descendants(rt))
ClassOK(mask, c) == mask = {} \/ c \in mask
Match(r, qq)    == DirOK(qq.dir, r.f) /\ TypeOK(qq.rt, qq.sub, r.t) /\ ClassOK(qq.mask, r.c)
Expected(nd, qq) == IF nd \in NodeIds
                    THEN LET refs == NodeRefs[nd]
                             ds   == Descendants(qq.rt)
                         IN {k \in DOMAIN refs : /\ DirOK(qq.dir, refs[k].f)
                                                 /\ TypeOKs(qq.rt, qq.sub, refs[k].t, ds)
                                                 /\ ClassOK(qq.mask, refs[k].c)}
                    ELSE {}

---------------------------------------------------------------------------
\* The implementation's type test (suitableRefType), with the deviations
HsPos(rt) == LET l == DfsList(rt)
             IN IF \E k \in DOMAIN l : l[k] = HasSubtypeId
                THEN CHOOSE k \in DOMAIN l : l[k] = HasSubtypeId /\ \A j \in 1..(k-1) : l[j] # HasSubtypeId
                ELSE 0
\* TRUE when evaluating the type test for (rt, sub, t) panics
\* (the deviations are explicit parameters so that a row can carry the as-is prediction
\* next to the contract answer; Next uses the Dev_* constants)
TypePanicsD(rt, sub, t, devLoop) ==
                          /\ devLoop
                          /\ rt # Null /\ rt # t /\ ~sub
                          /\ HsPos(rt) > 1           \* slices.IndexFunc > 0 (0-based)
AlgTypeOKD(rt, sub, t, devIgn) ==
   \/ rt = Null
   \/ rt = t
   \/ /\ (sub \/ devIgn)
      /\ t \in Range(DfsList(rt))
TypePanics(rt, sub, t) == TypePanicsD(rt, sub, t, Dev_DeleteLoop)
AlgTypeOK(rt, sub, t)  == AlgTypeOKD(rt, sub, t, Dev_IgnoreSubtypeFlag)

\* one filter decision of the loop in NodeNameSpace.Browse: direction, type, class (in that order)
RefPanics(r, qq) == DirOK(qq.dir, r.f) /\ TypePanics(qq.rt, qq.sub, r.t)
AlgMatch(r, qq)  == DirOK(qq.dir, r.f) /\ AlgTypeOK(qq.rt, qq.sub, r.t) /\ ClassOK(qq.mask, r.c)

Queries == [dir : Dirs, rt : QueryTypes \cup {Null}, sub : BOOLEAN, mask : MaskSets]

Init == /\ node \in NodeIds \cup GhostNodes
        /\ q \in Queries
        /\ pc = "lookup" /\ i = 0 /\ out = {} /\ status = "none"

\* ViewService.Browse: namespace lookup, NodeNameSpace.Browse: node lookup
Lookup == /\ pc = "lookup"
          /\ IF node \in NodeIds
             THEN pc' = "filter" /\ i' = 1 /\ status' = status
             ELSE pc' = "done" /\ status' = "bad" /\ i' = i
          /\ UNCHANGED <<node, q, out>>

\* one iteration of the reference loop
FilterOne == /\ pc = "filter"
             /\ i <= Len(NodeRefs[node])
             /\ LET r == NodeRefs[node][i]
                IN IF RefPanics(r, q)
                   THEN pc' = "done" /\ status' = "panic" /\ out' = {} /\ i' = i
                   ELSE /\ out' = IF AlgMatch(r, q) THEN out \cup {i} ELSE out
                        /\ i' = i + 1 /\ pc' = pc /\ status' = status
             /\ UNCHANGED <<node, q>>

Finish == /\ pc = "filter" /\ i > Len(NodeRefs[node])
          /\ pc' = "done" /\ status' = "good"
          /\ UNCHANGED <<node, q, i, out>>

Next == Lookup \/ FilterOne \/ Finish

\* the whole request in one step (same operators): used on large real address spaces
WholePanics(nd, qq, devLoop) ==
   /\ devLoop /\ qq.rt # Null /\ ~qq.sub /\ HsPos(qq.rt) > 1
   /\ LET refs == NodeRefs[nd] IN \E k \in DOMAIN refs : DirOK(qq.dir, refs[k].f) /\ refs[k].t # qq.rt
WholeResult(nd, qq, devIgn) ==
   LET refs == NodeRefs[nd]
       sl   == Range(DfsList(qq.rt))
   IN {k \in DOMAIN refs : /\ DirOK(qq.dir, refs[k].f)
                           /\ (qq.rt = Null \/ qq.rt = refs[k].t \/ ((qq.sub \/ devIgn) /\ refs[k].t \in sl))
                           /\ ClassOK(qq.mask, refs[k].c)}
Whole == /\ pc = "lookup"
         /\ pc' = "done"
         /\ IF node \notin NodeIds THEN status' = "bad" /\ out' = {}
            ELSE IF WholePanics(node, q, Dev_DeleteLoop)
                 THEN status' = "panic" /\ out' = {}
                 ELSE status' = "good" /\ out' = WholeResult(node, q, Dev_IgnoreSubtypeFlag)
         /\ UNCHANGED <<node, q, i>>
NextWhole == Whole
Spec == Init /\ [][Next]_vars

---------------------------------------------------------------------------
\* The property on the model
InvContract == pc = "done" =>
                 IF node \in NodeIds THEN status = "good" /\ out = Expected(node, q)
                                     ELSE status = "bad" /\ out = {}
\* the loop only ever adds references of the node, in order
InvPrefix   == pc = "filter" => out \subseteq 1..(i-1)
TypeInv     == /\ pc \in {"lookup", "filter", "done"}
               /\ status \in {"none", "good", "bad", "panic"}

---------------------------------------------------------------------------
\* Whole-filter form used for rows (same operators, no stepping)
\* What the tree did before the repair (commit 0989990; both deviations on).  Since the repair
\* the contract is the as-is behaviour; the old prediction is carried in the rows only to name a
\* regression precisely and to schedule the formerly crashing queries last.
AsIsPanics(nd, qq) == nd \in NodeIds /\ WholePanics(nd, qq, TRUE)
AsIsResult(nd, qq) == IF nd \in NodeIds THEN WholeResult(nd, qq, TRUE) ELSE {}

Row(nd, qq) == [node |-> nd, dir |-> qq.dir, rt |-> qq.rt, sub |-> qq.sub, mask |-> qq.mask,
                known |-> nd \in NodeIds,
                exp |-> Expected(nd, qq),
                oldPanic |-> AsIsPanics(nd, qq),
                old |-> AsIsResult(nd, qq)]
InvEmit == (Emit /\ pc = "lookup") => PrintT("ROW " \o ToJson(Row(node, q)))
=============================================================================
