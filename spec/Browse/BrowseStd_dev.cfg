CONSTANTS
  TypeIds <- StdTypeIds
  ChildSeq <- StdChildSeq
  NodeIds <- StdNodeIds
  NodeRefs <- StdNodeRefs
  GhostNodes <- StdGhosts
  QueryTypes <- StdQueryTypes
  MaskSets <- StdMasks
  HasSubtypeId <- StdHS
  Dev_IgnoreSubtypeFlag = TRUE
  Dev_DeleteLoop = FALSE
  Emit = FALSE
  Samples = 0
  MaskMode = "some"
INIT InitDev
NEXT NextWhole
INVARIANT InvContract
CHECK_DEADLOCK FALSE
